#!/usr/bin/env python3
"""Kernel cross-check of the compiled model driver (DESIGN.md section 4).

The correspondence streams drive a COMPILED native executable of the Lean model.  This module takes driver
batches as recorded in `common.DRIVER_SAMPLES` (input lines + the answers the compiled driver printed), turns
a sample of them into closed Lean statements

    theorem kc_i : <model function> <literal input> = <literal observed output> := by decide +kernel

and has the Lean KERNEL evaluate them (`lake env lean ICG/KernelCheck/Generated.lean`).  `decide +kernel`
asks the kernel to reduce `Decidable.decide p` to `true` by unfolding the model definitions — the very
definitions the theorems of lean/ICG/Props are about; neither compiled code nor the interpreter takes part,
and `#print axioms` of every statement shows ⊆ {propext, Classical.choice, Quot.sound}.

Supported protocol lines (grammar: lean/ICG/Driver/<Domain>.lean; Lean glue: lean/ICG/KernelCheck/<Domain>.lean, one
module per domain, `Generated.lean` imports exactly the modules its statements need):
  tab   new set unset reveal unreveal setlo sethi setvalues setknown bounds compute spec dump known getvalue
        getvalues getknown getknowns full copy neg drop        (add / eq involve two objects: the target of `add`
        is picked up again at its next dump, `eq` is skipped)
        A statement is one *segment* of one object's history: from `tab new` (or from the table its previous
        `tab dump` printed) through every operation up to and including the next `tab dump`, asserting every
        answer line in between (ok / err:kind / getter results / the dump).
  bits  every operation of Driver/Bits.lean
  shp   every operation of Driver/Shp.lean
  norm  every operation of Driver/Norm.lean (icg icgpart closed graph gtable denorm gdenorm, optional rtol)       stateless
  store C19: reset save lookup names dump — a segment of one store id: from `reset` (or from the store its previous
        `dump` printed) through every line up to and including the next `dump`;   C20: crash (one statement per line)
  srch  seqs chunks expl stack best meta greedy evalone pooldraws — one statement per answered line, carrying the whole
        history (`gt new`, every `gt put`) of the gap table it names
  gen   every operation of Driver/Gen.lean                                                                         stateless
  env   every operation of Driver/Env.lean — a segment of one name (environment slot + oracle table): from nothing
        (never used / after `drop`) or from a state the driver has shown completely (`new` arguments, `info` answer,
        hidden game of the last new / reset / linreset, oracle lines so far, `snap` answer) through every line up to and
        including the next `snap`; oracle lines are part of the segment
  rgt   cup metaids pidmap (single statements); new info ranks table metaid strategy strategyc avg iter regret cumstrat
        saveload — a segment of one object: from nothing, or from `RM.load` of the `new` / `saveload` arguments with the
        regret / strategy the last `regret` / `cumstrat` printed and the iteration count (`info` + `iter`s answered ok)
  codec every operation of Driver/Codec.lean; JSON / Python trees are compared as the token sequence the driver prints stateless
Rationals: inputs become Lean `Rat` terms (`7/2`, `-3/4` in tab / bits / shp; `mkRat 7 2`, the driver's own constructor,
in the other domains — thousands of `p/q` in one statement make the elaborator quadratic), observed outputs become
pairs (numerator, denominator) compared with `(r.num, r.den)` of the model's result, so an un-normalised or differently
signed fraction printed by the compiled code is a mismatch, too.
Strings (store / codec tokens): short ones are literals; ASCII strings of 24 characters or more are written
`KC.strC [(len, 0x…), …]` (KernelCheck/Str.lean: the same `String`, built from its bytes) because the kernel's
unfolding of a long literal is quadratic.  What the kernel can do with strings bounds the `store crash` lines that
become statements (`MAX_STRING_COST`): about 0.35 ms per character and traversal.

API:  statements_from_batches(batches) -> list[str];  check(batches, max_statements=40, timeout=600) -> dict.
`python harness/kernelcheck.py` runs a self-test (see `main`).
"""
from __future__ import annotations

import math
import os
import re
import shutil
import signal
import subprocess
import sys
import tempfile
import time
from dataclasses import dataclass, field
from fractions import Fraction
from pathlib import Path

sys.path.insert(0, str(Path(__file__).resolve().parent))

import common  # noqa: E402
from common import LEAN  # noqa: E402

GENERATED = "ICG/KernelCheck/Generated.lean"
STD_AXIOMS = {"propext", "Classical.choice", "Quot.sound"}
ERR_KINDS = {"err:assert": "assert", "err:value": "value", "err:index": "index", "err:attr": "attr",
             "err:nan": "nan", "err:other": "other"}

# Size limits: what the kernel evaluates comfortably (measured; every result carries the measured kernel seconds per
# statement kind and size in `by_kind`).  n = 6 bound computations are feasible too (sa 11 s, sac 16 s, sam:1 37 s and
# 2–3 GB of memory per statement): raise the three `tab.compute.*` entries to 6 to include them.
MAX_N = {"tab.compute.sa": 5, "tab.compute.sac": 5, "tab.compute.sam": 5, "tab.spec": 4, "tab": 5,
         "bits": 6, "bits.struct": 6, "bits.pred": 5, "shp": 6, "shp.expl": 5,
         "norm": 6, "srch": 5, "env": 6, "rgt": 5, "gen": 5, "gen.oxs": 5, "gen.coverage.universe": 10}
# Estimated kernel seconds of one bound computation by computer and n (SAM: first + per extra repetition), and of
# the cheap statement kinds by n.  Only used to keep a sample within its time budget; nothing depends on the values.
COMPUTE_COST = {"sa": {0: .05, 1: .05, 2: .05, 3: .25, 4: .6, 5: 2.5, 6: 11.0},
                "sac": {0: .05, 1: .05, 2: .05, 3: .25, 4: .8, 5: 3.5, 6: 16.0},
                "sam": {0: .05, 1: .05, 2: .05, 3: .3, 4: 1.0, 5: 4.2, 6: 23.0}}
SAM_ROUND_COST = {0: .02, 1: .02, 2: .02, 3: .12, 4: .8, 5: 3.0, 6: 12.0}
SMALL_COST = {0: .05, 1: .05, 2: .05, 3: .05, 4: .1, 5: .3, 6: 1.5}


def compute_cost(comp: str, n: int) -> float:
    """`comp` is sa | sac | sam:r"""
    if n > 6:
        return 1e9
    if comp.startswith("sam:"):
        return COMPUTE_COST["sam"][n] + int(comp[4:]) * SAM_ROUND_COST[n]
    return COMPUTE_COST[comp][n]


def small_cost(n: int, factor: float = 1.0) -> float:
    return factor * SMALL_COST.get(n, 5.0)


_FLAT_COST = {"bits." + k for k in ("size", "players", "from", "single", "grand", "and", "or", "sub", "contains", "eq",
                                    "disjoint", "andp", "orp", "subp", "addp", "hasplayer", "inverted", "exclude")} | {"shp.contrib"}
MAX_OPS = 14              # operations in one `tab` segment
MAX_COMPUTES = 3          # bound computations in one `tab` segment
MAX_NAT = 10 ** 30        # coalition ids / players as literals
MAX_BITS_LIST = 80        # longest expected list in a `bits` statement
MAX_LINE = 60000          # longest protocol line / answer a statement is made of (characters)


class Unsupported(Exception):
    pass


# ----------------------------------------------------------------------------------------------
# protocol text -> Lean literals

_NAT = re.compile(r"[0-9]+\Z")
_INT = re.compile(r"-?[0-9]+\Z")


def p_nat(s: str) -> int:
    if not _NAT.match(s):
        raise Unsupported(f"not a natural: {s[:20]}")
    v = int(s)
    if v > MAX_NAT:
        raise Unsupported("natural too large for a statement")
    return v


def p_rat(s: str) -> Fraction:
    """`p` or `p/q` as the driver parses it (Proto.parseRat?): integer numerator, natural non-zero denominator."""
    parts = s.split("/")
    if len(parts) == 1 and _INT.match(parts[0]):
        return Fraction(int(parts[0]))
    if len(parts) == 2 and _INT.match(parts[0]) and _NAT.match(parts[1]) and int(parts[1]) != 0:
        return Fraction(int(parts[0]), int(parts[1]))
    raise Unsupported(f"not a rational: {s[:20]}")


def p_list(s: str, f):
    return [] if s in ("-", "") else [f(x) for x in s.split(",")]


def p_optnats(s: str):
    return None if s == "none" else p_list(s, p_nat)


def p_known(s: str) -> list[bool]:
    if not re.match(r"[01]*\Z", s):
        raise Unsupported("known string")
    return [ch == "1" for ch in s]


def l_rat(x: Fraction) -> str:
    """an input rational as a Lean `Rat` term (numeral, or numeral / numeral)"""
    if x.denominator == 1:
        return str(x.numerator) if x >= 0 else f"-{-x.numerator}"
    return f"{x.numerator}/{x.denominator}" if x > 0 else f"-{-x.numerator}/{x.denominator}"


def l_rat_arg(x: Fraction) -> str:
    """an input rational in argument position"""
    return f"({l_rat(x)} : Rat)"


def l_rats(xs) -> str:
    return "[" + ", ".join(l_rat(x) for x in xs) + "]"


def m_rat(x: Fraction) -> str:
    """an input rational the way the driver builds it (`Proto.parseRat?`): `mkRat p q`, an integer as `(p : Rat)`.
    Used by the domains added later: with thousands of `p/q` terms in one statement the elaborator's treatment of
    pending numerals gets quadratic (48 s for 350 fractions inside pairs); `mkRat p q` elaborates at once."""
    if x.denominator == 1:
        return f"({x.numerator} : Rat)"
    return f"(mkRat {x.numerator} {x.denominator})" if x > 0 else f"(mkRat ({x.numerator}) {x.denominator})"


def m_rats(xs) -> str:
    return "[" + ", ".join(m_rat(x) for x in xs) + "]"


def l_nats(xs) -> str:
    return "[" + ", ".join(str(x) for x in xs) + "]"


def l_ints(xs) -> str:
    return "[" + ", ".join(str(x) for x in xs) + "]"


def l_optnats(xs) -> str:
    return "none" if xs is None else f"(some {l_nats(xs)})"


def l_bools(xs) -> str:
    return "[" + ", ".join("true" if b else "false" for b in xs) + "]"


def l_bool(s: str) -> str:
    if s not in ("0", "1"):
        raise Unsupported("boolean answer")
    return "true" if s == "1" else "false"


def q_text(s: str) -> str:
    """an OBSERVED rational `p` / `p/q`, kept exactly as printed: the pair (numerator, denominator)"""
    parts = s.split("/")
    if len(parts) == 1 and _INT.match(parts[0]):
        return f"({int(parts[0])}, 1)"
    if len(parts) == 2 and _INT.match(parts[0]) and _NAT.match(parts[1]):
        return f"({int(parts[0])}, {int(parts[1])})"
    raise Unsupported(f"not a printed rational: {s[:20]}")


def qs_text(s: str) -> str:
    return "[" + ", ".join(p_list(s, q_text)) + "]"


def l_err(ans: str) -> str:
    return "." + ERR_KINDS[ans]


def except_ans(ans: str, ok) -> str:
    """`.ok <literal>` / `.error .kind` for an answer of an `Except Err _` valued operation"""
    if ans in ERR_KINDS:
        return f".error {l_err(ans)}"
    return f".ok {ok(ans)}"


def ilog2_exact(m: int) -> int:
    if m <= 0 or m & (m - 1):
        raise Unsupported("row count is not a power of two")
    return m.bit_length() - 1


# ----------------------------------------------------------------------------------------------
# candidates

@dataclass
class Candidate:
    kind: str                 # e.g. "tab.compute.sa", "tab.ops", "bits.subobj", "shp.shapley"
    n: int                    # player count (or a size measure) the statement is about
    prop: str                 # the Lean proposition
    source: list = field(default_factory=list)     # (protocol line, observed answer) pairs it was made from
    origin: tuple | None = None                    # `tab`: the (`tab new …`, answer) or (`tab dump …`, answer) it starts from
    mod: str = "Basic"                             # the module ICG.KernelCheck.<mod> the statement needs

    def shown(self, k: int = 8, width: int = 300) -> list[str]:
        src = ([self.origin] if self.origin else []) + list(self.source)
        if len(src) > k:
            src = src[:2] + [("…", "…")] + src[-(k - 3):]
        return [f"{ln[:width]}  ->  {ans[:width]}" for ln, ans in src]

    def replay(self):
        """a self-contained mini batch (lines, answers) that yields this statement again, when there is one"""
        src = list(self.source)
        if self.kind.startswith("tab."):
            if not self.origin or not self.origin[0].startswith("tab new "):
                return None
            src = [self.origin] + src
            if len({ln.split()[2] for ln, _ in src}) != 1:
                return None
        return [ln for ln, _ in src], [a for _, a in src]
    cost: float = 0.1         # estimated kernel time in seconds (measured table below), used to stay within the budget

    def theorem(self, name: str, negate: bool = False) -> str:
        if negate:
            return f"theorem {name} : ¬ ({self.prop}) := by decide +kernel"
        return f"theorem {name} : {self.prop} := by decide +kernel"


def parse_dump(ans: str):
    parts = ans.split(" ")
    if len(parts) != 3 or not (parts[0].startswith("K=") and parts[1].startswith("L=") and parts[2].startswith("U=")):
        raise Unsupported("dump answer")
    return p_known(parts[0][2:]), parts[1][2:], parts[2][2:]


def computer_lit(s: str) -> tuple[str, str]:
    if s == "sa":
        return ".sa", "sa"
    if s == "sac":
        return ".sac", "sac"
    m = re.match(r"sam:([0-9]+)\Z", s)
    if m:
        return f"(.sam {int(m.group(1))})", "sam"
    raise Unsupported("computer")


class _Obj:
    """what is known about one driver object: where its current segment starts and what happened since"""

    def __init__(self, start: str | None, n: int | None, origin: tuple | None = None):
        self.start = start            # Lean `Start` literal, None when the origin is not expressible
        self.n = n
        self.origin = origin
        self.ops: list[tuple[str, str, str]] = []       # (Lean Op, Lean Ans, (line, answer))
        self.kinds: list[str] = []

    def clone(self) -> "_Obj":
        o = _Obj(self.start, self.n, self.origin)
        o.ops = list(self.ops)
        o.kinds = list(self.kinds)
        return o


def _ans_status(ans: str) -> str:
    if ans == "ok":
        return ".ok"
    if ans in ERR_KINDS:
        return f".err {l_err(ans)}"
    raise Unsupported(f"status answer {ans[:20]}")


def _tab_candidates(lines: list[str], answers: list[str], out: list[Candidate]) -> None:
    objs: dict[str, _Obj] = {}

    def flush(name: str) -> None:
        """emit the pending segment of `name` (it ends with a dump, or the object goes away)"""
        o = objs.get(name)
        if o is None or o.start is None or not o.ops or o.n is None:
            return
        interesting = [k for k in o.kinds if k not in ("set", "status")]
        if not interesting:
            return
        ncomp = sum(1 for k in o.kinds if k.startswith("compute") or k == "spec")
        if len(o.ops) > MAX_OPS or ncomp > MAX_COMPUTES:
            return
        comp = [k[len("compute:"):] for k in o.kinds if k.startswith("compute:")]
        kind = "tab." + ("compute." + comp[0].split(":")[0] if comp else ("spec" if "spec" in o.kinds else "ops"))
        if o.n > MAX_N.get(kind, MAX_N["tab"]):
            return
        cost = small_cost(o.n, 0.5 + 0.1 * len(o.ops)) + sum(compute_cost(c, o.n) for c in comp) \
            + 2.0 * small_cost(o.n) * o.kinds.count("spec")
        prop = (f"KC.tabRun {o.start}\n    [" + ",\n     ".join(op for op, _, _ in o.ops) + "]\n  = ["
                + ",\n     ".join(a for _, a, _ in o.ops) + "]")
        out.append(Candidate(kind, o.n, prop, [s for _, _, s in o.ops], origin=o.origin, cost=cost))

    for ln, ans in zip(lines, answers):
        w = [x for x in ln.split(" ") if x]
        if len(w) < 2 or w[0] != "tab" or ans == "bad-op":
            continue
        op, args = w[1], w[2:]
        src = (ln, ans)
        try:
            if op == "new" and len(args) == 2:
                n = p_nat(args[1])
                flush(args[0])
                objs[args[0]] = _Obj(f"(.init {n})", n, src)
                continue
            if op == "drop" and len(args) == 1:
                flush(args[0])
                objs.pop(args[0], None)
                continue
            if op == "copy" and len(args) == 2:
                if args[0] in objs:
                    objs[args[1]] = objs[args[0]].clone()
                else:
                    objs.pop(args[1], None)
                continue
            if op == "neg" and len(args) == 2:
                if args[0] in objs:
                    o = objs[args[0]].clone()
                    o.ops.append((".neg", ".ok", src))
                    o.kinds.append("set")
                    objs[args[1]] = o
                else:
                    objs.pop(args[1], None)
                continue
            if op == "add" and len(args) == 3:
                if ans == "ok":
                    objs[args[2]] = _Obj(None, None)       # origin involves two objects: resume at its next dump
                continue
            if op == "eq":
                continue
            if not args:
                raise Unsupported("no object")
            name = args[0]
            o = objs.get(name)
            if o is None:
                o = objs[name] = _Obj(None, None)
            a = args[1:]
            if op in ("set", "reveal", "setlo", "sethi") and len(a) == 2:
                o.ops.append((f".{op} {p_nat(a[0])} {l_rat_arg(p_rat(a[1]))}", _ans_status(ans), src))
                o.kinds.append("set" if ans == "ok" else "status")
            elif op in ("unset", "unreveal") and len(a) == 1:
                o.ops.append((f".{op} {p_nat(a[0])}", _ans_status(ans), src))
                o.kinds.append("set" if ans == "ok" else "status")
            elif op in ("setvalues", "setknown") and len(a) == 2:
                o.ops.append((f".{op} {l_optnats(p_optnats(a[0]))} {l_rats(p_list(a[1], p_rat))}", _ans_status(ans), src))
                o.kinds.append("set" if ans == "ok" else "status")
            elif op == "bounds" and len(a) == 3 and a[0] in ("hi", "lo"):
                up = "true" if a[0] == "hi" else "false"
                o.ops.append((f".bounds {up} {l_optnats(p_optnats(a[1]))} {l_rats(p_list(a[2], p_rat))}", _ans_status(ans), src))
                o.kinds.append("set" if ans == "ok" else "status")
            elif op == "compute" and len(a) == 1:
                lit, _ = computer_lit(a[0])
                o.ops.append((f".compute {lit}", _ans_status(ans), src))
                o.kinds.append("compute:" + a[0])
            elif op == "spec" and len(a) == 1:
                lit, _ = computer_lit(a[0])
                parts = ans.split(" ")
                if len(parts) != 2 or not (parts[0].startswith("L=") and parts[1].startswith("U=")):
                    raise Unsupported("spec answer")
                o.ops.append((f".spec {lit}", f".spec {qs_text(parts[0][2:])} {qs_text(parts[1][2:])}", src))
                o.kinds.append("spec")
            elif op == "dump" and len(a) == 0:
                K, L, U = parse_dump(ans)
                n = ilog2_exact(len(K))
                o.ops.append((".dump", f".dump {l_bools(K)}\n       {qs_text(L)}\n       {qs_text(U)}", src))
                o.kinds.append("dump")
                if o.n is None:
                    o.n = n
                flush(name)
                # the next segment starts from the table this dump showed
                o.start = (f"(.from {n} {l_bools(K)}\n      {l_rats(p_list(L, p_rat))}\n      {l_rats(p_list(U, p_rat))})")
                o.n = n
                o.origin = src
                o.ops, o.kinds = [], []
            elif op == "known" and len(a) == 1:
                o.ops.append((f".known {p_nat(a[0])}", _ans_status(ans) if ans in ERR_KINDS else f".bit {l_bool(ans)}", src))
                o.kinds.append("get")
            elif op == "getvalue" and len(a) == 1:
                o.ops.append((f".getvalue {p_nat(a[0])}", _ans_status(ans) if ans in ERR_KINDS else f".rat {q_text(ans)}", src))
                o.kinds.append("get")
            elif op == "getvalues" and len(a) == 1:
                o.ops.append((f".getvalues {l_optnats(p_optnats(a[0]))}",
                              _ans_status(ans) if ans in ERR_KINDS else f".rats {qs_text(ans)}", src))
                o.kinds.append("get")
            elif op == "getknown" and len(a) == 1:
                if ans in ERR_KINDS:
                    la = _ans_status(ans)
                else:
                    la = ".orat none" if ans == "none" else f".orat (some {q_text(ans)})"
                o.ops.append((f".getknown {p_nat(a[0])}", la, src))
                o.kinds.append("get")
            elif op == "getknowns" and len(a) == 0:
                items = p_list(ans, lambda x: "none" if x == "none" else f"some {q_text(x)}")
                o.ops.append((".getknowns", ".orats [" + ", ".join(items) + "]", src))
                o.kinds.append("get")
            elif op == "full" and len(a) == 0:
                o.ops.append((".full", f".bit {l_bool(ans)}", src))
                o.kinds.append("get")
            else:
                raise Unsupported("tab operation")
        except Unsupported:
            # a line this module cannot express was answered by the driver: whatever it touched is of unknown
            # origin until its next `new` / dump
            for x in args[:3]:
                if x in objs:
                    objs[x] = _Obj(None, None)
    for name in list(objs):
        flush(name)


def _values_ok(n: int, vals: list) -> None:
    if len(vals) != 2 ** n:
        raise Unsupported("vector length")


def _bits_candidate(w: list[str], ans: str) -> Candidate:
    op, a = w[1], w[2:]
    nat_list = lambda s: l_nats(p_list(s, p_nat))       # noqa: E731
    e_nats = lambda s: except_ans(s, nat_list)          # noqa: E731

    def lim_list(s: str) -> None:
        if len(p_list(s, p_nat)) > MAX_BITS_LIST:
            raise Unsupported("expected list too long")

    un = {"size": "ICG.size", "single": "ICG.singleton", "grand": "ICG.grand"}
    bin_nat = {"and": "ICG.inter", "or": "ICG.union", "sub": "ICG.diff", "subp": "ICG.removePlayer",
               "addp": "ICG.addPlayer", "inverted": "ICG.inverted"}
    bin_bool = {"contains": "ICG.contains", "disjoint": "ICG.disjoint", "hasplayer": "ICG.hasPlayer"}
    if op in un and len(a) == 1:
        x = p_nat(a[0])
        if op != "size" and x > 4096:
            raise Unsupported("2^x too large")
        return Candidate("bits." + op, x.bit_length(), f"{un[op]} {x} = {p_nat(ans)}")
    if op == "players" and len(a) == 1:
        return Candidate("bits.players", p_nat(a[0]).bit_length(), f"ICG.players {p_nat(a[0])} = {nat_list(ans)}")
    if op == "from" and len(a) == 1:
        ps = p_list(a[0], p_nat)
        if any(p > 4096 for p in ps):
            raise Unsupported("2^p too large")
        return Candidate("bits.from", len(ps), f"ICG.fromPlayers {l_nats(ps)} = {p_nat(ans)}")
    if op == "all" and len(a) == 1:
        lim_list(ans)
        return Candidate("bits.all", p_nat(a[0]), f"ICG.allCoalitions {p_nat(a[0])} = {nat_list(ans)}")
    if op in bin_nat and len(a) == 2:
        x, y = p_nat(a[0]), p_nat(a[1])
        if op in ("subp", "addp", "inverted") and y > 4096:
            raise Unsupported("2^y too large")
        return Candidate("bits." + op, max(x.bit_length(), y.bit_length()), f"{bin_nat[op]} {x} {y} = {p_nat(ans)}")
    if op in bin_bool and len(a) == 2:
        x, y = p_nat(a[0]), p_nat(a[1])
        if op == "hasplayer" and y > 4096:
            raise Unsupported("2^y too large")
        return Candidate("bits." + op, max(x.bit_length(), y.bit_length()), f"{bin_bool[op]} {x} {y} = {l_bool(ans)}")
    if op == "eq" and len(a) == 2:
        return Candidate("bits.eq", 0, f"(({p_nat(a[0])} : Nat) == {p_nat(a[1])}) = {l_bool(ans)}")
    if op in ("andp", "orp") and len(a) == 2:
        x, p = p_nat(a[0]), p_nat(a[1])
        if p > 4096:
            raise Unsupported("2^p too large")
        f = "ICG.inter" if op == "andp" else "ICG.union"
        return Candidate("bits." + op, x.bit_length(), f"{f} {x} (ICG.singleton {p}) = {p_nat(ans)}")
    if op == "subobj" and len(a) == 1:
        lim_list(ans)
        c = p_nat(a[0])
        return Candidate("bits.subobj", bin(c).count("1"), f"ICG.subCoalitionsObj {c} = {nat_list(ans)}")
    if op == "superobj" and len(a) == 2:
        lim_list(ans)
        c, n = p_nat(a[0]), p_nat(a[1])
        if n > 12:
            raise Unsupported("n")
        return Candidate("bits.superobj", n, f"ICG.superCoalitionsObj {c} {n} = {nat_list(ans)}")
    if op in ("subid", "superid") and len(a) == 2:
        c, n = p_nat(a[0]), p_nat(a[1])
        if n > 8:
            raise Unsupported("n")
        if ans not in ERR_KINDS:
            lim_list(ans)
        f = "ICG.subCoalitionsId" if op == "subid" else "ICG.superCoalitionsId"
        return Candidate("bits." + op, n, f"{f} {c} {n} = {e_nats(ans)}")
    if op in ("playersid", "sizeid") and len(a) == 2:
        c, n = p_nat(a[0]), p_nat(a[1])
        if n > 64:
            raise Unsupported("n")
        if op == "playersid":
            return Candidate("bits.playersid", n, f"ICG.Pred.playersIdE {c} {n} = {e_nats(ans)}")
        return Candidate("bits.sizeid", n, f"ICG.Pred.sizeIdE {c} {n} = {except_ans(ans, lambda s: str(p_nat(s)))}")
    if op == "struct" and len(a) == 2:
        n, c = p_nat(a[0]), p_nat(a[1])
        if n > MAX_N["bits.struct"]:
            raise Unsupported("n")
        ints = p_list(ans, lambda s: int(s) if _INT.match(s) else (_ for _ in ()).throw(Unsupported("int")))
        return Candidate("bits.struct", n, f"KC.structRow {n} {c} = {l_ints(ints)}")
    if op in ("sorted", "minimal") and len(a) == 1:
        n = p_nat(a[0])
        if n > MAX_N["bits"]:
            raise Unsupported("n")
        lim_list(ans)
        f = "ICG.allSorted" if op == "sorted" else "ICG.minimalCoalitions"
        return Candidate("bits." + op, n, f"{f} {n} = {nat_list(ans)}")
    if op == "exclude" and len(a) == 2:
        l = p_list(a[1], p_nat)
        if len(l) > 4 * MAX_BITS_LIST:
            raise Unsupported("list too long")
        return Candidate("bits.exclude", len(l), f"ICG.excludeCoalition {p_nat(a[0])} {l_nats(l)} = {nat_list(ans)}")
    if op in ("issa", "issam") and len(a) == 4:
        n, rtol, atol, vals = p_nat(a[0]), p_rat(a[1]), p_rat(a[2]), p_list(a[3], p_rat)
        _values_ok(n, vals)
        if n > MAX_N["bits.pred"]:
            raise Unsupported("n")
        return Candidate("bits." + op, n, f"KC.{op} {n} {l_rat_arg(rtol)} {l_rat_arg(atol)} {l_rats(vals)} = {except_ans(ans, l_bool)}")
    if op == "ismono" and len(a) == 2:
        n, vals = p_nat(a[0]), p_list(a[1], p_rat)
        _values_ok(n, vals)
        if n > MAX_N["bits.pred"]:
            raise Unsupported("n")
        return Candidate("bits.ismono", n, f"KC.ismono {n} {l_rats(vals)} = {except_ans(ans, l_bool)}")
    if op == "supermod" and len(a) == 3:
        n, tol, vals = p_nat(a[0]), p_rat(a[1]), p_list(a[2], p_rat)
        _values_ok(n, vals)
        if n > MAX_N["bits.pred"]:
            raise Unsupported("n")
        if ans == "none":
            rhs = "none"
        else:
            t = p_list(ans, p_nat)
            if len(t) != 3:
                raise Unsupported("supermod answer")
            rhs = f"some ({t[0]}, {t[1]}, {t[2]})"
        return Candidate("bits.supermod", n, f"KC.supermod {n} {l_rat_arg(tol)} {l_rats(vals)} = {rhs}")
    raise Unsupported("bits operation")


def _shp_candidate(w: list[str], ans: str) -> Candidate:
    op, a = w[1], w[2:]
    e_q = lambda s: except_ans(s, q_text)       # noqa: E731
    e_qs = lambda s: except_ans(s, qs_text)     # noqa: E731

    def vec(n: int, s: str) -> str:
        v = p_list(s, p_rat)
        _values_ok(n, v)
        return l_rats(v)

    def known(n: int, s: str) -> str:
        k = p_known(s)
        _values_ok(n, k)
        return l_bools(k)

    if op == "contrib" and len(a) == 1:
        n = p_nat(a[0])
        if n > 40:
            raise Unsupported("n")
        return Candidate("shp.contrib", n, f"ICG.contributions {n} = {l_nats(p_list(ans, p_nat))}")
    n = p_nat(a[0]) if a else 0
    if n > MAX_N["shp"] or n == 0:
        raise Unsupported("n")
    if op == "shapley" and len(a) == 2:
        return Candidate("shp.shapley", n, f"KC.shapley {n} {vec(n, a[1])} = {e_qs(ans)}")
    if op == "shapley1" and len(a) == 3:
        return Candidate("shp.shapley1", n, f"KC.shapley1 {n} {p_nat(a[1])} {vec(n, a[2])} = {e_q(ans)}")
    if op == "tshapley" and len(a) == 3:
        return Candidate("shp.tshapley", n, f"KC.tshapley {n} {known(n, a[1])} {vec(n, a[2])} = {e_qs(ans)}")
    if op == "tshapley1" and len(a) == 4:
        return Candidate("shp.tshapley1", n, f"KC.tshapley1 {n} {p_nat(a[1])} {known(n, a[2])} {vec(n, a[3])} = {e_q(ans)}")
    if op == "maxgain" and len(a) == 4:
        return Candidate("shp.maxgain", n, f"KC.maxgain {n} {p_nat(a[1])} {vec(n, a[2])} {vec(n, a[3])} = {qs_text(ans)}")
    if op == "expl" and len(a) == 4:
        if n > MAX_N["shp.expl"]:
            raise Unsupported("n")
        return Candidate("shp.expl", n, f"KC.expl {n} {known(n, a[1])} {vec(n, a[2])} {vec(n, a[3])} = {e_q(ans)}")
    if op == "norms" and len(a) == 3:
        parts = ans.split(" ")
        if len(parts) != 3:
            raise Unsupported("norms answer")
        return Candidate("shp.norms", n, f"KC.norms {n} {vec(n, a[1])} {vec(n, a[2])} = ({q_text(parts[0])}, {q_text(parts[1])}, {e_q(parts[2])})")
    raise Unsupported("shp operation")


# ----------------------------------------------------------------------------------------------
# domain `norm` (stateless; grammar: lean/ICG/Driver/Norm.lean; wrappers: lean/ICG/KernelCheck/Norm.lean)

def fields(ans: str, *names: str) -> list[str]:
    """`A=x B=y …` → [x, y, …] (exactly these names, in this order)"""
    parts = ans.split(" ")
    if len(parts) != len(names) or any(not p.startswith(nm + "=") for p, nm in zip(parts, names)):
        raise Unsupported("answer fields")
    return [p[len(nm) + 1:] for p, nm in zip(parts, names)]


def _rat_digits(*texts: str) -> int:
    """size measure of the rationals of a statement: the longest numerator / denominator, in digits"""
    return max((len(x) for t in texts for x in re.findall(r"[0-9]+", t)), default=1)


NORM_COST = {0: .05, 1: .05, 2: .06, 3: .1, 4: .3, 5: 1.2, 6: 6.0}      # icg / icgpart / denorm (the in-place loops)
NORM_FLAT = {0: .05, 1: .05, 2: .05, 3: .06, 4: .1, 5: .25, 6: .8}      # closed / graph / gtable / gdenorm


def _norm_candidate(w: list[str], ans: str) -> Candidate:
    op, a = w[1], w[2:]
    if not a:
        raise Unsupported("norm operation")
    n = p_nat(a[0])
    if n > MAX_N["norm"]:
        raise Unsupported("n")

    def rtol_of(k: int) -> str:
        """optional last argument (position k of the arguments)"""
        if len(a) == k:
            return "Norm.defaultRtol"
        if len(a) == k + 1:
            return m_rat(p_rat(a[k]))
        raise Unsupported("arity")

    def info_table(s: str) -> str:
        i, sv, lo, up = fields(s, "I", "S", "L", "U")
        return f"(({q_text(i)}, {qs_text(sv)}), ({qs_text(lo)},\n      {qs_text(up)}))"

    def mat(s: str) -> str:
        m = p_list(s, p_rat)
        if len(m) != n * n:
            raise Unsupported("matrix size")
        return m_rats(m)

    if op == "icg" and len(a) in (2, 3):
        prop = f"KC.normIcg {rtol_of(2)} {n} {m_rats(p_list(a[1], p_rat))}\n  = {except_ans(ans, info_table)}"
        cost = NORM_COST
    elif op == "icgpart" and len(a) in (3, 4):
        prop = (f"KC.normIcgPart {rtol_of(3)} {n} {l_nats(p_list(a[1], p_nat))} {m_rats(p_list(a[2], p_rat))}\n"
                f"  = {except_ans(ans, info_table)}")
        cost = NORM_COST
    elif op == "closed" and len(a) in (2, 3):
        vals = p_list(a[1], p_rat)
        _values_ok(n, vals)
        (v,) = fields(ans, "V")
        prop = f"KC.normClosed {rtol_of(2)} {n} {m_rats(vals)}\n  = {qs_text(v)}"
        cost = NORM_FLAT
    elif op == "graph" and len(a) == 2:
        i, sv, m, v = fields(ans, "I", "S", "M", "V")
        prop = f"KC.normGraph {n} {mat(a[1])}\n  = (({q_text(i)}, {qs_text(sv)}), {qs_text(m)},\n     {qs_text(v)})"
        cost = NORM_FLAT
    elif op == "gtable" and len(a) == 2:
        (v,) = fields(ans, "V")
        prop = f"KC.normGtable {n} {mat(a[1])}\n  = {qs_text(v)}"
        cost = NORM_FLAT
    elif op == "denorm" and len(a) == 4:
        def lu(s: str) -> str:
            lo, up = fields(s, "L", "U")
            return f"({qs_text(lo)},\n      {qs_text(up)})"
        prop = (f"KC.normDenorm {n} {m_rat(p_rat(a[1]))} {m_rats(p_list(a[2], p_rat))} {m_rats(p_list(a[3], p_rat))}\n"
                f"  = {except_ans(ans, lu)}")
        cost = NORM_COST
    elif op == "gdenorm" and len(a) == 3:
        m, v = fields(ans, "M", "V")
        prop = f"KC.normGdenorm {n} {m_rat(p_rat(a[1]))} {mat(a[2])}\n  = ({qs_text(m)},\n     {qs_text(v)})"
        cost = NORM_FLAT
    else:
        raise Unsupported("norm operation")
    kind = "norm." + op + (".err" if ans in ERR_KINDS else "")
    return Candidate(kind, n, prop, mod="Norm", cost=cost.get(n, 30.0) * (1 + _rat_digits(*a[1:], ans) / 12))


# ----------------------------------------------------------------------------------------------
# domain `store` (grammar: lean/ICG/Driver/Store.lean; wrappers: lean/ICG/KernelCheck/Store.lean)

_TOKEN = re.compile(r"[A-Za-z0-9_.+\-]*\Z")        # names / cells / keys / values the statements are made of


STRN_MIN = 24             # ASCII strings at least this long are written `KC.strC [(len, 0x…), …]` (KernelCheck/Str.lean)
STRN_CHUNK = 24           # characters per chunk


def _enc7(s: str) -> str:
    return hex(int("".join(format(b, "07b") for b in s.encode("ascii")), 2))


def l_str(s: str) -> str:
    """a Lean term for the string: a literal, or — longer ASCII strings, for which the kernel's unfolding of a literal is
    quadratic — `KC.strC chunks`, every chunk (length, the character codes as base-128 digits of one numeral); linear,
    see KernelCheck/Str.lean"""
    if len(s) >= STRN_MIN and s.isascii():
        return "(KC.strC [" + ", ".join(f"({len(s[i:i + STRN_CHUNK])}, {_enc7(s[i:i + STRN_CHUNK])})"
                                        for i in range(0, len(s), STRN_CHUNK)) + "])"
    out = []
    for ch in s:
        if ch == "\\":
            out.append("\\\\")
        elif ch == '"':
            out.append('\\"')
        elif 32 <= ord(ch) < 127 or ord(ch) > 0xFFFF:
            out.append(ch)
        elif ord(ch) < 256:
            out.append("\\x%02x" % ord(ch))
        else:
            out.append("\\u%04x" % ord(ch))
    return '"' + "".join(out) + '"'


def l_strs(xs) -> str:
    return "[" + ", ".join(l_str(x) for x in xs) + "]"


def p_token(s: str) -> str:
    if not _TOKEN.match(s):
        raise Unsupported("token with a separator character")
    return s


def p_store_arr(s: str):
    """`Driver.Store.parseArr?`"""
    parts = s.split(":")
    if len(parts) != 2:
        raise Unsupported("array")
    shape = [] if parts[0] == "-" else [p_nat(x) for x in parts[0].split("x")]
    cells = [] if parts[1] == "-" else [p_token(x) for x in parts[1].split(",")]
    return shape, cells


def p_store_entry(s: str):
    """`Driver.Store.parseEntry?`"""
    parts = s.split(";")
    if len(parts) != 3:
        raise Unsupported("entry")
    meta = []
    if parts[2] != "-":
        for kv in parts[2].split(","):
            kvp = kv.split("=")
            if len(kvp) != 2:
                raise Unsupported("metadata")
            meta.append((p_token(kvp[0]), p_token(kvp[1])))
    return p_store_arr(parts[0]), p_store_arr(parts[1]), meta


def show_store_entry(e) -> str:
    """`Driver.Store.showEntry`"""
    def arr(a):
        return ("x".join(str(x) for x in a[0]) if a[0] else "-") + ":" + (",".join(a[1]) if a[1] else "-")
    return arr(e[0]) + ";" + arr(e[1]) + ";" + (",".join(k + "=" + v for k, v in e[2]) if e[2] else "-")


def l_store_entry(e) -> str:
    def arr(a):
        return f"⟨{l_nats(a[0])}, {l_strs(a[1])}⟩"
    return f"⟨{arr(e[0])}, {arr(e[1])}, [" + ", ".join(f"({l_str(k)}, {l_str(v)})" for k, v in e[2]) + "]⟩"


def p_observed_entry(s: str):
    """an entry the driver PRINTED: parsed like an input, and it must print as exactly that text again"""
    e = p_store_entry(s)
    if show_store_entry(e) != s:
        raise Unsupported("entry text is not canonical")
    return e


MAX_STORE_OPS = 24
MAX_STORE_CHARS = 40000       # characters of one `store` statement
MAX_CRASH_CHARS = 110000      # characters of one `store crash` statement (file contents in hex)
MAX_STRING_COST = 40.0        # estimated kernel seconds of the string comparisons of one statement

_STRN = re.compile(r"\(([0-9]+), 0x[0-9a-f]+\)")
_STR_LIT = re.compile(r'"((?:[^"\\]|\\.)*)"')


def string_cost(prop: str, times: float = 0.6) -> float:
    """Estimated kernel seconds spent on the string literals of a statement.  The kernel unfolds a literal to
    `String.ofList [chars]`, i.e. to the UTF-8 bytes through `List.utf8Encode` / `List.toByteArray` (an accumulator loop
    of `Array.push`, quadratic in the kernel), and compares byte lists: measured 21 ms for one comparison of two
    16-character literals, 0.17 s at 64, 2.6 s at 256, 42 s at 1024 characters; repeated occurrences of one literal inside a
    statement are converted once (the kernel caches), so distinct literals are counted."""
    lit = sum(1.3e-3 * len(m) + 4e-5 * len(m) ** 2 for m in set(_STR_LIT.findall(prop)))
    # `KC.strC [(len, 0x…), …]`: linear, about 0.35 ms per character and traversal
    lin = sum(0.7e-3 * int(m) for m in _STRN.findall(prop))
    return times * (lit + lin)


def _store_candidates(lines: list[str], answers: list[str], out: list[Candidate]) -> None:
    class Seg:
        def __init__(self, start, origin):
            self.start, self.origin = start, origin          # start: list of (name, entry) | None (unknown)
            self.ops, self.src = [], []                      # (Lean SOp, Lean SAns), (line, answer)

    segs: dict[str, Seg] = {}

    def l_store(st) -> str:
        return "[" + ",\n     ".join(f"({l_str(nm)}, {l_store_entry(e)})" for nm, e in st) + "]"

    def flush(sid: str) -> None:
        g = segs.get(sid)
        if g is None or g.start is None or not g.ops or len(g.ops) > MAX_STORE_OPS:
            return
        prop = (f"KC.storeRun {l_store(g.start)}\n    [" + ",\n     ".join(o for o, _ in g.ops) + "]\n  = ["
                + ",\n     ".join(a for _, a in g.ops) + "]")
        chars = len(prop)
        if chars > MAX_STORE_CHARS:
            return
        cost = 0.3 + string_cost(prop)
        if cost > MAX_STRING_COST:
            return
        out.append(Candidate("store.ops", len(g.ops), prop, list(g.src), origin=g.origin, mod="Store", cost=cost))

    for ln, ans in zip(lines, answers):
        w = [x for x in ln.split(" ") if x]
        if len(w) < 3 or w[0] != "store" or w[1] == "crash" or ans == "bad-op":
            continue
        op, sid, a = w[1], w[2], w[3:]
        src = (ln, ans)
        try:
            if op == "reset" and not a:
                flush(sid)
                segs[sid] = Seg([], src)
                continue
            g = segs.get(sid)
            if g is None:
                g = segs[sid] = Seg(None, None)
            if len(ln) + len(ans) > MAX_STORE_CHARS:
                raise Unsupported("line too long")
            if op == "save" and len(a) == 2 and ans in ("kept", "added"):
                g.ops.append((f".save {l_str(p_token(a[0]))} {l_store_entry(p_store_entry(a[1]))}",
                              f".saved {'true' if ans == 'kept' else 'false'}"))
            elif op == "lookup" and len(a) == 1:
                la = ".entry none" if ans == "none" else f".entry (some {l_store_entry(p_observed_entry(ans))})"
                g.ops.append((f".lookup {l_str(p_token(a[0]))}", la))
            elif op == "names" and not a:
                g.ops.append((".names", f".names {l_strs([] if ans == '-' else [p_token(x) for x in ans.split(',')])}"))
            elif op == "dump" and not a:
                st = []
                if ans != "-":
                    for item in ans.split(" "):
                        nm, sep, et = item.partition("=")
                        if not sep:
                            raise Unsupported("dump item")
                        st.append((p_token(nm), p_observed_entry(et)))
                g.ops.append((".dump", f".dump {l_store(st)}"))
                g.src.append(src)
                flush(sid)
                segs[sid] = Seg(st, src)          # the next segment starts from the store this dump showed
                continue
            else:
                raise Unsupported("store operation")
            g.src.append(src)
        except Unsupported:
            segs[sid] = Seg(None, None)           # unknown until the next reset / dump
    for sid in list(segs):
        flush(sid)


def _store_crash_candidate(w: list[str], ans: str) -> Candidate:
    """`store crash <target> <init> <op>*` → `atomic=<0|1> <class_0> … <class_N>`"""
    if len(w) < 4:
        raise Unsupported("crash arity")
    target, init_s, ops_s = w[2], w[3], w[4:]
    init = []
    if init_s != "-":
        for kv in init_s.split(","):
            kvp = kv.split("=")
            if len(kvp) != 2:
                raise Unsupported("init")
            init.append((kvp[0], kvp[1]))
    ctor = {"or": "openRead", "ot": "openTrunc", "ox": "openExcl", "ok": "openKeep", "c": "close", "fs": "fsync",
            "rm": "unlink", "x": "other"}
    ops = []
    for o in ops_s:
        p = o.split(":")
        if len(p) == 2 and p[0] in ctor:
            ops.append(f".{ctor[p[0]]} {l_str(p[1])}")
        elif len(p) == 3 and p[0] == "w":
            ops.append(f".write {l_str(p[1])} {l_str(p[2])}")
        elif len(p) == 3 and p[0] == "mv":
            ops.append(f".rename {l_str(p[1])} {l_str(p[2])}")
        else:
            raise Unsupported("file-system operation")
    parts = ans.split(" ")
    if len(parts) != len(ops) + 2 or parts[0] not in ("atomic=0", "atomic=1"):
        raise Unsupported("crash answer")
    cls = []
    for c in parts[1:]:
        if c in ("old", "new", "absent"):
            cls.append("." + c)
        elif c.startswith("lit:"):
            cls.append(f".lit {l_str(c[4:])}")
        else:
            raise Unsupported("class")
    prop = (f"KC.crash {l_str(target)} [" + ", ".join(f"({l_str(k)}, {l_str(v)})" for k, v in init) + "]\n    ["
            + ",\n     ".join(ops) + "]\n  = (" + ("true" if parts[0] == "atomic=1" else "false") + ", [" + ", ".join(cls) + "])")
    chars = len(prop)
    if chars > MAX_CRASH_CHARS:
        raise Unsupported("statement too long")
    cost = 0.3 + string_cost(prop, times=1.0)
    if cost > MAX_STRING_COST:
        raise Unsupported("contents too long for the kernel's string comparison")
    return Candidate("store.crash", len(ops), prop, mod="Store", cost=cost)


# ----------------------------------------------------------------------------------------------
# domain `srch` (grammar: lean/ICG/Driver/Srch.lean; wrappers: lean/ICG/KernelCheck/Srch.lean)

MAX_GT_PUTS = 600         # `srch gt put` lines of one gap table
MAX_SRCH_SEQS = 300       # action sequences one `expl` / `best` enumerates


def p_int(s: str) -> int:
    if not _INT.match(s):
        raise Unsupported("not an integer")
    return int(s)


def p_optnat(s: str):
    return None if s == "none" else p_nat(s)


def l_optnat(k) -> str:
    return "none" if k is None else f"(some {k})"


def l_natlists(ls) -> str:
    return "[" + ", ".join(l_nats(x) for x in ls) + "]"


def _binom(n: int, k: int) -> int:
    return math.comb(n, k) if 0 <= k <= n else 0


def _srch_candidates(lines: list[str], answers: list[str], out: list[Candidate]) -> None:
    tabs: dict[str, dict] = {}

    def gt(name: str):
        g = tabs.get(name)
        if g is None or g["bad"] or len(g["puts"]) > MAX_GT_PUTS:
            raise Unsupported("gap table")
        lit = (f"(KC.gtOf {g['n']} {g['reps']} [" + ",\n      ".join(f"({l_nats(ids)}, {m_rats(vals)})" for ids, vals in g["puts"]) + "])")
        return g, lit

    def nseqs(n: int, start: list[int], k) -> int:
        u = max(0, 2 ** n - len(set(start)))
        kk = u if k is None else min(k, u)
        return sum(_binom(u, i) for i in range(kk + 1))

    def add(kind, n, prop, src, origin, cost):
        out.append(Candidate("srch." + kind, n, prop, [src], origin=origin, mod="Srch", cost=cost))

    for ln, ans in zip(lines, answers):
        w = [x for x in ln.split(" ") if x]
        if len(w) < 2 or w[0] != "srch" or ans == "bad-op":
            continue
        op, a = w[1], w[2:]
        src = (ln, ans)
        try:
            if op == "gt":
                if len(a) == 4 and a[0] == "new":
                    tabs[a[1]] = {"n": p_nat(a[2]), "reps": p_nat(a[3]), "puts": [], "bad": False, "origin": src}
                elif len(a) == 4 and a[0] == "put":
                    g = tabs.get(a[1])
                    if g is not None:
                        try:
                            g["puts"].append((p_list(a[2], p_nat), p_list(a[3], p_rat)))
                        except Unsupported:
                            g["bad"] = True
                elif len(a) == 2 and a[0] == "drop":
                    tabs.pop(a[1], None)
                continue
            if op == "seqs" and len(a) == 2:
                unk, k = p_list(a[0], p_nat), p_optnat(a[1])
                seqs = [] if ans == "" else [p_list(x, p_nat) for x in ans.split(";")]
                if len(seqs) > MAX_SRCH_SEQS:
                    raise Unsupported("too many sequences")
                add("seqs", len(unk), f"KC.srchSeqs {l_nats(unk)} {l_optnat(k)} = {l_natlists(seqs)}", src, None, 0.1 + len(seqs) / 500)
            elif op == "chunks" and len(a) == 2:
                ln_, procs = p_nat(a[0]), p_nat(a[1])
                if ln_ > 2000:
                    raise Unsupported("length")
                add("chunks", ln_, f"KC.srchChunks {ln_} {procs} = {except_ans(ans, lambda s: l_nats(p_list(s, p_nat)))}", src, None, 0.1 + ln_ / 1000)
            elif op == "expl" and len(a) == 6:
                g, lit = gt(a[0])
                j, start, k, procs, poison = p_nat(a[1]), p_list(a[2], p_nat), p_optnat(a[3]), p_nat(a[4]), p_rat(a[5])
                m = nseqs(g["n"], start, k)
                if m > MAX_SRCH_SEQS or g["n"] > MAX_N["srch"]:
                    raise Unsupported("too many sequences")

                def pairs(s: str) -> str:
                    items = []
                    for it in ([] if s == "" else s.split(";")):
                        sq, sep, q = it.partition("=")
                        if not sep:
                            raise Unsupported("expl item")
                        items.append(f"({l_nats(p_list(sq, p_nat))}, {q_text(q)})")
                    return "[" + ", ".join(items) + "]"
                add("expl", g["n"], f"KC.srchExpl {lit}\n    {j} {l_nats(start)} {l_optnat(k)} {procs} {m_rat(poison)}\n  = {except_ans(ans, pairs)}",
                    src, g["origin"], 0.2 + m * SRCH_SEQ_COST.get(g["n"], 1.0) + len(g["puts"]) / 300)
            elif op == "stack" and len(a) == 5:
                g, lit = gt(a[0])
                start, seq, procs, poison = p_list(a[1], p_nat), p_list(a[2], p_nat), p_nat(a[3]), p_rat(a[4])
                if g["n"] > MAX_N["srch"] or g["reps"] > 40:
                    raise Unsupported("size")
                add("stack", g["n"], f"KC.srchStack {lit}\n    {l_nats(start)} {l_nats(seq)} {procs} {m_rat(poison)}\n  = {except_ans(ans, qs_text)}",
                    src, g["origin"], 0.2 + g["reps"] * SRCH_SEQ_COST.get(g["n"], 1.0) + len(g["puts"]) / 300)
            elif op == "best" and len(a) == 4:
                g, lit = gt(a[0])
                start, steps, procs = p_list(a[1], p_nat), p_nat(a[2]), p_nat(a[3])
                m = nseqs(g["n"], start, steps) * max(1, g["reps"])
                if m > MAX_SRCH_SEQS or g["n"] > MAX_N["srch"]:
                    raise Unsupported("too many sequences")

                def best(s: str) -> str:
                    rows, sep, acts = s.partition("#")
                    if not sep:
                        raise Unsupported("best answer")
                    return ("([" + ", ".join(qs_text(r) for r in rows.split("|")) + "],\n     "
                            + l_natlists([p_list(x, p_nat) for x in acts.split("|")]) + ")")
                add("best", g["n"], f"KC.srchBest {lit}\n    {l_nats(start)} {steps} {procs}\n  = {except_ans(ans, best)}",
                    src, g["origin"], 0.3 + 2.2 * m * SRCH_SEQ_COST.get(g["n"], 1.0) + len(g["puts"]) / 300)
            elif op == "meta" and len(a) == 4:
                g, lit = gt(a[0])
                j, m, poison = p_nat(a[1]), p_nat(a[2]), p_rat(a[3])
                if g["n"] > MAX_N["srch"]:
                    raise Unsupported("n")
                add("meta" + (".err" if ans in ERR_KINDS else ""), g["n"],
                    f"KC.srchMeta {lit}\n    {j} {m} {m_rat(poison)}\n  = {except_ans(ans, q_text)}",
                    src, g["origin"], 0.2 + 30 * SRCH_SEQ_COST.get(g["n"], 1.0) + len(g["puts"]) / 300)
            elif op == "greedy" and len(a) == 6:
                g, lit = gt(a[0])
                start, expl, steps, procs = p_list(a[1], p_nat), p_list(a[2], p_nat), p_nat(a[3]), p_nat(a[4])
                orders = [p_list(x, p_nat) for x in a[5].split(";")]
                if g["n"] > MAX_N["srch"] or g["reps"] > 40 or steps > 40:
                    raise Unsupported("size")

                def greedy(s: str) -> str:
                    if s == "bad-order":
                        return "none"
                    rows, sep, acts = s.partition("#")
                    if not sep:
                        raise Unsupported("greedy answer")
                    return "(some ([" + ", ".join(qs_text(r) for r in rows.split("|")) + f"],\n     {l_nats(p_list(acts, p_nat))}))"
                evals = (1 + (steps + 1) * max(1, len(expl))) * max(1, g["reps"])
                add("greedy" + (".err" if ans in ERR_KINDS else ""), g["n"],
                    f"KC.srchGreedy {lit}\n    {l_nats(start)} {l_nats(expl)} {steps} {procs} {l_natlists(orders)}\n  = {except_ans(ans, greedy)}",
                    src, g["origin"], 0.3 + evals * SRCH_SEQ_COST.get(g["n"], 1.0) + len(g["puts"]) / 300)
            elif op == "evalone" and len(a) == 3:
                limit, r0 = p_nat(a[0]), p_rat(a[1])
                steps = []
                for st in p_list(a[2].replace(";", ","), lambda x: x):
                    p = st.split(":")
                    if len(p) != 3 or p[1] not in ("0", "1"):
                        raise Unsupported("step")
                    steps.append(f"({m_rat(p_rat(p[0]))}, {l_bool(p[1])}, {p_nat(p[2])})")
                if limit > 200:
                    raise Unsupported("limit")

                def ev(s: str) -> str:
                    gaps, sep, ids = s.partition("#")
                    if not sep:
                        raise Unsupported("evalone answer")
                    return f"({qs_text(gaps)}, {l_nats(p_list(ids, p_nat))})"
                add("evalone", limit, f"KC.srchEvalOne {limit} {m_rat(r0)} [{', '.join(steps)}]\n  = {except_ans(ans, ev)}", src, None, 0.1 + limit / 100)
            elif op == "pooldraws" and len(a) == 4:
                ctor, limit, reps, procs = (p_nat(x) for x in a)
                if limit * reps > 2000:
                    raise Unsupported("size")

                def pd(s: str) -> str:
                    items = []
                    for it in ([] if s == "" else s.split(";")):
                        gaps, sep, ids = it.partition("#")
                        if not sep:
                            raise Unsupported("pooldraws item")
                        items.append(f"({l_ints(p_list(gaps, p_int))}, {l_nats(p_list(ids, p_nat))})")
                    return "[" + ", ".join(items) + "]"
                add("pooldraws", reps, f"KC.srchPoolDraws {ctor} {limit} {reps} {procs}\n  = {except_ans(ans, pd)}", src, None, 0.1 + limit * reps / 200)
        except (Unsupported, ValueError):
            continue


# ----------------------------------------------------------------------------------------------
# domain `env` (grammar: lean/ICG/Driver/Env.lean; wrappers: lean/ICG/KernelCheck/Env.lean)

MAX_ENV_OPS = 20          # protocol lines (oracle lines not counted) in one `env` segment
MAX_ENV_ORACLE = 80       # oracle entries alive in one segment
ENV_OP_COST = {0: .02, 1: .02, 2: .03, 3: .05, 4: .12, 5: .4, 6: 1.5}     # one step / snap, by n


def m_except(s: str, ok) -> str:
    return f"(.error {l_err(s)})" if s in ERR_KINDS else f"(.ok {ok(s)})"


def _env_candidates(lines: list[str], answers: list[str], out: list[Candidate]) -> None:
    class Obj:
        def __init__(self):
            self.oracle: list[tuple[str, str]] = []      # (key, Lean OEntry), newest first — as the driver keeps them
            self.static = None                           # (comp, gapk, budget, n) of the last successful `new`
            self.info = None                             # (ik, ex) of an `info` answer since then
            self.game = None                             # (full, norm) Lean literals
            self.start: str | None = ".fresh"
            self.origin = None
            self.ops: list[tuple[str, str]] = []
            self.src: list[tuple[str, str]] = []
            self.weight = 0.0                            # cost units (multiples of one step at this n)
            self.nops = 0
            self.n = 0
            self.kinds: set[str] = set()
            self.dead = False                            # tracking lost: no restart from a shown state until `drop`
            self.comp = "ext"                            # computer of the last `new`: its cost is part of every step

        def restart(self, start, origin):
            self.start, self.origin = start, origin
            self.ops, self.src, self.weight, self.nops, self.kinds = [], [], 0.0, 0, set()

    objs: dict[str, Obj] = {}

    def flush(o: Obj) -> None:
        if o.start is None or not o.ops or o.nops == 0 or o.nops > MAX_ENV_OPS or o.n > MAX_N["env"]:
            return
        prop = (f"KC.envRun {o.start}\n    [" + ",\n     ".join(op for op, _ in o.ops) + "]\n  = ["
                + ",\n     ".join(a for _, a in o.ops) + "]")
        if len(prop) > 60000:
            return
        kind = "env." + ("lin" if any(k.startswith("lin") for k in o.kinds) else "solve" if "solve" in o.kinds
                         else "step" if o.kinds & {"step", "unstep", "reset", "new"} else "read")
        per = ENV_OP_COST.get(o.n, 5.0) + (0.0 if o.comp == "ext" else compute_cost(o.comp, o.n))
        cost = 0.3 + (o.weight + 1) * per + len(prop) / 15000
        out.append(Candidate(kind, o.n, prop, list(o.src), origin=o.origin, mod="Env", cost=cost))

    def comp_lit(s: str) -> str:
        if s == "ext":
            return ".ext"
        return f"(.model {computer_lit(s)[0]})"

    def budget_lit(s: str) -> str:
        return l_optnat(p_optnat(s))

    def out_ans(s: str) -> str:
        if s in ERR_KINDS:
            return f".err {l_err(s)}"
        if s == "illegal-choice":
            return ".illegal"
        obs, r, d, c = fields(s, "obs", "r", "done", "c")
        return f".out {qs_text(obs)} {q_text(r)} {l_bool(d)} {p_nat(c)}"

    def err_or(s: str, f) -> str:
        return f".err {l_err(s)}" if s in ERR_KINDS else f(s)

    for ln, ans in zip(lines, answers):
        w = [x for x in ln.split(" ") if x]
        if len(w) < 3 or w[0] != "env" or ans == "bad-op":
            continue
        op, name, a = w[1], w[2], w[3:]
        src = (ln, ans)
        o = objs.get(name)
        if o is None:
            o = objs[name] = Obj()
        try:
            units = 0.0
            if op == "oracle" and len(a) == 4 and ans == "ok":
                key = p_known(a[0])
                if a[1] in ERR_KINDS:
                    b = f"(.error {l_err(a[1])})"
                else:
                    b = f"(.ok ({m_rats(p_list(a[1], p_rat))}, {m_rats(p_list(a[2], p_rat))}))"
                g = m_except(a[3], lambda s: m_rat(p_rat(s)))
                o.ops.append((f".oracle {l_bools(key)} {b} {g}", ".ok"))
                o.oracle = [(a[0], f"⟨{l_bools(key)}, {b[1:-1]}, {g[1:-1]}⟩")] + [e for e in o.oracle if e[0] != a[0]]
                if len(o.oracle) > MAX_ENV_ORACLE:
                    raise Unsupported("oracle table too large")
                o.src.append(src)
                continue
            if op == "oracle-clear" and not a and ans == "ok":
                o.ops.append((".oracleClear", ".ok"))
                o.oracle = []
                o.src.append(src)
                continue
            if op == "drop" and not a and ans == "ok":
                o.ops.append((".drop", ".ok"))
                o.src.append(src)
                flush(o)
                objs[name] = Obj()
                continue
            if op == "new" and len(a) == 7:
                n = p_nat(a[0])
                full, norm = m_rats(p_list(a[5], p_rat)), m_rats(p_list(a[6], p_rat))
                lop = (f".new {n} {comp_lit(a[1])} {'.ext' if a[2] == 'ext' else '.l1' if a[2] == 'l1' else _raise()} {budget_lit(a[3])} "
                       f"{l_nats(p_list(a[4], p_nat))}\n       {full}\n       {norm}")
                o.ops.append((lop, _ans_status(ans)))
                o.n = max(o.n, n)
                o.comp = a[1]
                o.info = None
                if ans == "ok":
                    o.static = (comp_lit(a[1]), ".ext" if a[2] == "ext" else ".l1", budget_lit(a[3]), n)
                    o.game = (full, norm)
                else:
                    o.static, o.game = None, None
                o.kinds.add("new")
                units = 2.0
            elif op == "info" and not a:
                ik, ex, n, steps, budget = fields(ans, "ik", "ex", "n", "steps", "budget")
                ikl, exl = p_list(ik, p_nat), p_list(ex, p_nat)
                o.ops.append((".info", f".info {l_nats(ikl)} {l_nats(exl)} {p_nat(n)} {p_int(steps)} {budget_lit(budget)}"))
                o.info = (l_nats(ikl), l_nats(exl))
                units = 0.2
            elif op in ("reset", "linreset") and len(a) == 2:
                full, norm = m_rats(p_list(a[0], p_rat)), m_rats(p_list(a[1], p_rat))
                o.ops.append((f".{op} {full}\n       {norm}", err_or(ans, lambda s: f".obs {qs_text(fields(s, 'obs')[0])}")))
                o.game = (full, norm)
                o.kinds.add(op)
                units = 2.0
            elif op in ("step", "unstep") and len(a) == 1:
                o.ops.append((f".{op} ({p_int(a[0])})", out_ans(ans)))
                o.kinds.add(op)
                units = 1.5
            elif op == "linstep" and len(a) == 2:
                o.ops.append((f".linstep ({p_int(a[0])}) {p_nat(a[1])}", out_ans(ans)))
                o.kinds.add(op)
                units = 2.0
            elif op == "mask" and not a:
                o.ops.append((".mask", f".bools {l_bools(p_known(ans))}"))
                units = 0.2
            elif op == "linmask" and not a:
                o.ops.append((".linmask", err_or(ans, lambda s: f".bools {l_bools(p_known(s))}")))
                o.kinds.add(op)
                units = 0.3
            elif op in ("state", "linstate") and not a:
                o.ops.append(("." + op, err_or(ans, lambda s: f".rats {qs_text(s)}")))
                units = 0.3
                if op == "linstate":
                    o.kinds.add(op)
            elif op == "reward" and not a:
                o.ops.append((".reward", err_or(ans, lambda s: f".rat {q_text(s)}")))
                units = 0.5
            elif op == "done" and not a:
                o.ops.append((".done", f".bit {l_bool(ans)}"))
                units = 0.5
            elif op == "steps" and not a:
                o.ops.append((".steps", f".int ({p_int(ans)})"))
            elif op == "dump" and not a:
                K, L, U = parse_dump(ans)
                o.ops.append((".dump", f".dump {l_bools(K)} {qs_text(L)} {qs_text(U)}"))
                units = 0.5
            elif op == "snap" and not a:
                mask, state, r, d, steps, K, L, U = fields(ans, "mask", "state", "r", "done", "steps", "K", "L", "U")
                Kb = p_known(K)
                o.ops.append((".snap", f".snap {l_bools(p_known(mask))} {qs_text(state)} {m_except(r, q_text)} {l_bool(d)} ({p_int(steps)})\n"
                                       f"       {l_bools(Kb)} {qs_text(L)}\n       {qs_text(U)}"))
                o.src.append(src)
                o.nops += 1
                o.weight += 1.0
                o.n = max(o.n, ilog2_exact(len(Kb)))
                flush(o)
                if not o.dead and o.static is not None and o.info is not None and o.game is not None:
                    comp, gapk, budget, n = o.static
                    start = (f"(.shown [" + ",\n      ".join(e for _, e in o.oracle) + f"]\n      {comp} {gapk} {budget} {n} {o.info[0]} {o.info[1]}\n"
                             f"      {o.game[0]}\n      {o.game[1]}\n      ({p_int(steps)}) {l_bools(Kb)}\n      {m_rats(p_list(L, p_rat))}\n      {m_rats(p_list(U, p_rat))})")
                    o.restart(start, src)
                else:
                    o.restart(None, None)
                continue
            elif op == "solve" and len(a) == 1 and a[0] in ("greedy", "greedy_worst", "largest"):
                o.ops.append((f".solve {('greedy', 'greedy_worst', 'largest').index(a[0])}",
                              err_or(ans, lambda s: f".act {p_nat(fields(s, 'a')[0])}")))
                o.kinds.add("solve")
                units = 0.5 if a[0] == "largest" else 3.0 * max(1, 2 ** o.n - o.n - 2)
            elif op == "random" and len(a) == 1:
                o.ops.append((f".random {p_nat(a[0])}", f".bit {l_bool(ans)}"))
                units = 0.2
            elif op == "linsizes" and not a:
                o.ops.append((".linsizes", f".nats {l_nats(p_list(ans, p_nat))}"))
                o.kinds.add(op)
                units = 0.2
            elif op == "lincands" and len(a) == 1:
                o.ops.append((f".lincands {p_nat(a[0])}", f".nats {l_nats(p_list(ans, p_nat))}"))
                o.kinds.add(op)
                units = 0.2
            else:
                raise Unsupported("env operation")
            o.src.append(src)
            o.nops += 1
            o.weight += units
        except (Unsupported, ValueError, KeyError):
            o.restart(None, None)          # unknown until the next `drop` (fresh again) or a fully shown state
            o.static = o.info = o.game = None
            o.oracle = []
            o.dead = True
    for o in objs.values():
        flush(o)


def _raise():
    raise Unsupported("unknown keyword")


# ----------------------------------------------------------------------------------------------
# domain `rgt` (grammar: lean/ICG/Driver/Rgt.lean; wrappers: lean/ICG/KernelCheck/Rgt.lean)

MAX_RGT_OPS = 40          # protocol lines in one `rgt` segment
MAX_RGT_ITERS = 3         # `rgt iter` lines in one segment
RGT_CUT_OPS = 10          # a segment is cut at a fully shown state once it has this many lines (or an `iter`)


def rgt_size(n: int, limit: int) -> tuple[int, int, int]:
    """(m, V, R) of a regret minimiser: viable coalitions, viable meta-coalitions, regret minimisers"""
    m = max(0, 2 ** n - n - 2)
    k = min(m, limit)
    return m, sum(_binom(m, j) for j in range(k + 1)), sum(_binom(m, j) for j in range(k))


def rgt_iter_cost(n: int, limit: int) -> float:
    m, V, R = rgt_size(n, limit)
    return 0.05 + R * (m + 1) * (m + 1) / 130.0


def _rgt_candidates(lines: list[str], answers: list[str], out: list[Candidate]) -> None:
    class Obj:
        def __init__(self, start=".fresh", origin=None):
            self.base = None            # (policy literal, n, limit argument, plus literal, stored limit)
            self.it = None
            self.regret = self.strat = None
            self.dead = False
            self.size = (0, 0)          # (n, limit) for the cost estimate
            self.restart(start, origin)

        def restart(self, start, origin):
            self.start, self.origin = start, origin
            self.ops, self.src, self.cost, self.iters = [], [], 0.0, 0

    objs: dict[str, Obj] = {}

    def flush(o: Obj) -> None:
        if o.start is None or not o.ops or len(o.ops) > MAX_RGT_OPS or o.iters > MAX_RGT_ITERS or o.size[0] > MAX_N["rgt"]:
            return
        prop = (f"KC.rgtRun {o.start}\n    [" + ",\n     ".join(op for op, _ in o.ops) + "]\n  = ["
                + ",\n     ".join(a for _, a in o.ops) + "]")
        if len(prop) > 60000:
            return
        kind = "rgt.iter" if o.iters else "rgt.ops"
        cost = (0.3 + o.cost + len(prop) / 10000) * (1 + _rat_digits(prop) / 20)
        out.append(Candidate(kind, o.size[0], prop, list(o.src), origin=o.origin, mod="Rgt", cost=cost))

    def pol(args: list[str]):
        if not args:
            return ".current", None
        if len(args) == 2:
            return f"(.explicit {p_nat(args[0])} {p_nat(args[1])})", p_nat(args[1])
        raise Unsupported("policy")

    def rows_in(s: str):
        """rows the driver printed, as an INPUT literal; `-` is ambiguous (no rows / one empty row)"""
        if s == "-":
            return None
        return "[" + ", ".join(m_rats(p_list(r, p_rat)) for r in s.split(";")) + "]"

    def rows_out(s: str) -> str:
        return ".rows " + ("[]" if s == "-" else "[" + ", ".join(qs_text(r) for r in s.split(";")) + "]")

    def loaded(o: Obj):
        if o.dead or o.base is None or o.it is None or o.regret is None or o.strat is None:
            return None
        p, n, limit, plus, _ = o.base
        return f"(.loaded {p} {n} {limit} {plus} {o.it}\n      {o.regret}\n      {o.strat})"

    def err_or(s: str, f) -> str:
        return f".err {l_err(s)}" if s in ERR_KINDS else f(s)

    def maybe_cut(o: Obj, src) -> None:
        if (o.iters or len(o.ops) >= RGT_CUT_OPS) and loaded(o) is not None:
            flush(o)
            o.restart(loaded(o), src)

    for ln, ans in zip(lines, answers):
        w = [x for x in ln.split(" ") if x]
        if len(w) < 3 or w[0] != "rgt" or ans == "bad-op":
            continue
        op, a = w[1], w[2:]
        src = (ln, ans)
        try:
            if op == "cup" and len(a) == 2:
                m, k = p_nat(a[0]), p_nat(a[1])
                if m > 40 or k > 40:
                    raise Unsupported("size")
                out.append(Candidate("rgt.cup", m, f"KC.rgtCup {m} {k} = {p_nat(ans)}", [src], mod="Rgt", cost=0.1))
                continue
            if op == "metaids" and len(a) == 2:
                n, limit = p_nat(a[0]), p_nat(a[1])
                if n > MAX_N["rgt"] or (ans not in ERR_KINDS and len(p_list(ans, p_nat)) > 400):
                    raise Unsupported("size")
                out.append(Candidate("rgt.metaids", n, f"KC.rgtMetaIds {n} {limit} = {except_ans(ans, lambda s: l_nats(p_list(s, p_nat)))}",
                                     [src], mod="Rgt", cost=0.1 + rgt_size(n, limit)[1] / 200))
                continue
            if op == "pidmap" and len(a) == 1:
                n = p_nat(a[0])
                if n > 7:
                    raise Unsupported("size")
                out.append(Candidate("rgt.pidmap", n, f"KC.rgtPidMap {n} = {l_ints(p_list(ans, p_int))}", [src], mod="Rgt", cost=0.1 + 4 ** n / 3000))
                continue
        except (Unsupported, ValueError):
            continue
        name = a[0]
        o = objs.get(name)
        if o is None:
            o = objs[name] = Obj()
        a = a[1:]
        try:
            if op == "new" and len(a) >= 3:
                n, limit, plus = p_nat(a[0]), p_nat(a[1]), l_bool(a[2])
                p, stored = pol(a[3:])
                if ans == "ok" and (o.start is None or len(o.ops) >= RGT_CUT_OPS):
                    flush(o)                   # a successful `new` replaces the object whatever it was: start afresh
                    o.restart(".fresh", None)
                    o.dead = False
                o.ops.append((f".new {p} {n} {limit} {plus}", _ans_status(ans)))
                o.cost += 0.1 + rgt_size(n, limit)[1] / 100
                if ans == "ok":
                    o.base = (p, n, limit, plus, limit if stored is None else stored)
                    o.it, o.regret, o.strat = 0, None, None
                    o.size = (n, limit)
            elif op == "info" and not a:
                n, m, limit, plus, V, R, tlen, it = fields(ans, "n", "m", "limit", "plus", "V", "R", "tlen", "it")
                o.ops.append((".info", f".info {p_nat(n)} {p_nat(m)} {p_nat(limit)} {l_bool(plus)} {p_nat(V)} {p_nat(R)} {p_nat(tlen)} {p_nat(it)}"))
                if o.it is None:
                    o.it = p_nat(it)
                elif o.it != p_nat(it):
                    o.dead = True
                o.cost += 0.05
            elif op == "ranks" and not a:
                ids, inv = fields(ans, "ids", "inv")
                o.ops.append((".ranks", f".ranks {l_nats(p_list(ids, p_nat))} [" + ", ".join("none" if x == "x" else f"some {p_nat(x)}" for x in p_list(inv, lambda x: x)) + "]"))
                o.cost += 0.1
            elif op == "table" and not a:
                o.ops.append((".table", f".nats {l_nats(p_list(ans, p_nat))}"))
                o.cost += 0.1
            elif op == "metaid" and len(a) == 1:
                o.ops.append((f".metaid {l_nats(p_list(a[0], p_nat))}", err_or(ans, lambda s: f".nat {p_nat(s)}")))
                o.cost += 0.05
            elif op == "strategy" and len(a) == 1:
                o.ops.append((f".strategy {p_nat(a[0])}", err_or(ans, lambda s: f".rats {qs_text(s)}")))
                o.cost += 0.05
            elif op in ("strategyc", "avg") and len(a) == 1:
                o.ops.append((f".{op} {l_nats(p_list(a[0], p_nat))}", err_or(ans, lambda s: f".rats {qs_text(s)}")))
                o.cost += 0.08
            elif op == "iter" and len(a) == 2:
                term = p_list(a[0], p_rat)
                lists = [] if a[1] in ("-", "") else [([] if g == "e" else p_list(g, p_nat)) for g in a[1].split(";")]
                o.ops.append((f".iter {m_rats(term)} {l_natlists(lists)}", _ans_status(ans)))
                o.iters += 1
                o.cost += rgt_iter_cost(*o.size) if o.size[0] else 5.0
                if ans == "ok":
                    o.it = None if o.it is None else o.it + 1
                    o.regret = o.strat = None
            elif op in ("regret", "cumstrat") and not a:
                o.ops.append(("." + op, rows_out(ans)))
                o.cost += 0.05
                if op == "regret":
                    o.regret = rows_in(ans)
                else:
                    o.strat = rows_in(ans)
                o.src.append(src)
                maybe_cut(o, src)
                continue
            elif op == "saveload" and len(a) in (1, 3):
                p, stored = pol(a[1:])
                o.ops.append((f".saveload {p}", _ans_status(ans)))
                o.cost += 0.1 + (rgt_size(*o.size)[1] / 100 if o.size[0] else 1.0)
                if ans == "ok":
                    d = objs.get(a[0])
                    if d is not None and d is not o:
                        flush(d)
                    d = Obj(None, src)
                    if o.base is not None and not o.dead:
                        _, n, _, plus, src_stored = o.base
                        d.base = (p, n, src_stored, plus, src_stored if stored is None else stored)
                        d.it, d.regret, d.strat, d.size = o.it, o.regret, o.strat, (n, src_stored)
                        d.start = loaded(d)
                    else:
                        d.dead = True
                    if a[0] != name:
                        objs[a[0]] = d
                    else:                      # reloaded onto itself
                        o.src.append(src)
                        flush(o)
                        objs[name] = d
                        continue
            else:
                raise Unsupported("rgt operation")
            o.src.append(src)
        except (Unsupported, ValueError, KeyError):
            o.restart(None, None)
            o.dead = True
    for o in objs.values():
        flush(o)


# ----------------------------------------------------------------------------------------------
# domain `codec` (stateless; grammar: lean/ICG/Driver/Codec.lean; wrappers: lean/ICG/KernelCheck/Codec.lean)

CODEC_ERR = {"err:value": "value", "err:type": "type", "err:key": "key", "err:overflow": "overflow",
             "err:not-array": "notArray", "unmodelled": "unmodelled"}
MAX_CODEC_WORDS = 1500
_HEX = re.compile(r"(?:[0-9a-f][0-9a-f])*\Z")


def unhex(s: str) -> str:
    """`Driver.Codec.unhex?`: lower-case hex of valid UTF-8"""
    if not _HEX.match(s):
        raise Unsupported("hex")
    try:
        return bytes.fromhex(s).decode("utf-8")
    except UnicodeDecodeError:
        raise Unsupported("not UTF-8") from None


def l_int(i: int) -> str:
    return str(i) if i >= 0 else f"({i})"


def c_int(s: str) -> int:
    """`String.toInt?` on the digits the harness sends"""
    return p_int(s)


def c_float(s: str) -> str:
    """`Driver.Codec.parseFloat?` → a Lean `FCell String`"""
    if s == "":
        raise Unsupported("empty float")
    return {"nan": ".nan", "inf": ".pinf", "-inf": ".ninf"}.get(s) or f"(.fin {l_str(s)})"


def c_scalar(w: str) -> str:
    """`Driver.Codec.parseScalar?` → a Lean `Scalar String`"""
    if w == "n":
        return ".null"
    if w in ("t", "f"):
        return f"(.bool {'true' if w == 't' else 'false'})"
    if w.startswith("i"):
        return f"(.int {l_int(c_int(w[1:]))})"
    if w.startswith("F"):
        return f"(.float {c_float(w[1:])})"
    raise Unsupported("scalar")


def c_arr(s: str) -> str:
    """`Driver.Codec.parseArr?` → a Lean `Nd String` (as the anonymous constructor; also the `NdT` triple when `triple`)"""
    return "⟨" + ", ".join(c_arr_parts(s)) + "⟩"


def c_arr_parts(s: str) -> tuple[str, str, str]:
    parts = s.split(":")
    if len(parts) != 3 or parts[0] not in ("f", "i", "b", "o"):
        raise Unsupported("array")
    dt = {"f": ".f64", "i": ".i64", "b": ".bool", "o": ".obj"}[parts[0]]
    shape = [] if parts[1] == "-" else [p_nat(x) for x in parts[1].split("x")]
    cells = [] if parts[2] == "-" else [c_scalar(x) for x in parts[2].split(",")]
    return dt, l_nats(shape), "[" + ", ".join(cells) + "]"


def c_arr_triple(s: str) -> str:
    """an array the driver PRINTED → a Lean `KC.NdT`"""
    return "⟨" + ", ".join(c_arr_parts(s)) + "⟩"


def c_json(ws: list[str], i: int) -> tuple[str, int]:
    """`Driver.Codec.parseJson`: one JSON value from the words at position i → (Lean `Json String`, next position)"""
    if i >= len(ws):
        raise Unsupported("truncated json")
    w = ws[i]
    if w == "[":
        items, i = [], i + 1
        while True:
            if i >= len(ws):
                raise Unsupported("truncated json")
            if ws[i] == "]":
                return "(.arr [" + ", ".join(items) + "])", i + 1
            x, i = c_json(ws, i)
            items.append(x)
    if w == "{":
        items, i = [], i + 1
        while True:
            if i >= len(ws):
                raise Unsupported("truncated json")
            if ws[i] == "}":
                return "(.obj [" + ", ".join(items) + "])", i + 1
            if not ws[i].startswith("k"):
                raise Unsupported("key")
            k = unhex(ws[i][1:])
            v, i = c_json(ws, i + 1)
            items.append(f"({l_str(k)}, {v})")
    if w.startswith("s"):
        return f"(.str {l_str(unhex(w[1:]))})", i + 1
    sc = c_scalar(w)                  # `Scalar.toJson`: the same constructor names
    return sc, i + 1


def c_key(w: str) -> str:
    """`Driver.Codec.parseKey?` → a Lean `PyKey`"""
    if w.startswith("ks"):
        return f"(.str {l_str(unhex(w[2:]))})"
    if w.startswith("ki"):
        return f"(.int {l_int(c_int(w[2:]))})"
    if w in ("kt", "kf"):
        return f"(.bool {'true' if w == 'kt' else 'false'})"
    if w == "kN":
        return ".none"
    if w.startswith("kF"):
        return f"(.float {l_str(unhex(w[2:]))})"
    if w == "kO":
        return ".other"
    raise Unsupported("key")


def c_py(ws: list[str], i: int) -> tuple[str, int]:
    """`Driver.Codec.parsePy` → (Lean `PyVal String`, next position)"""
    if i >= len(ws):
        raise Unsupported("truncated value")
    w = ws[i]
    if w in ("[", "("):
        close, ctor = ("]", ".list") if w == "[" else (")", ".tuple")
        items, i = [], i + 1
        while True:
            if i >= len(ws):
                raise Unsupported("truncated value")
            if ws[i] == close:
                return f"({ctor} [" + ", ".join(items) + "])", i + 1
            x, i = c_py(ws, i)
            items.append(x)
    if w == "{":
        items, i = [], i + 1
        while True:
            if i >= len(ws):
                raise Unsupported("truncated value")
            if ws[i] == "}":
                return "(.dict [" + ", ".join(items) + "])", i + 1
            k = c_key(ws[i])
            v, i = c_py(ws, i + 1)
            items.append(f"({k}, {v})")
    if w == "N":
        return ".none", i + 1
    if w in ("t", "f"):
        return f"(.bool {'true' if w == 't' else 'false'})", i + 1
    if w.startswith("i"):
        return f"(.int {l_int(c_int(w[1:]))})", i + 1
    if w.startswith("F"):
        return f"(.float {c_float(w[1:])})", i + 1
    if w.startswith("s"):
        return f"(.str {l_str(unhex(w[1:]))})", i + 1
    if w.startswith("P"):
        return f"(.path {l_str(unhex(w[1:]))})", i + 1
    if w.startswith("O"):
        return f"(.other {l_str(unhex(w[1:]))})", i + 1
    raise Unsupported("python value")


def c_whole(parse, ws: list[str]) -> str:
    t, i = parse(ws, 0)
    if i != len(ws):
        raise Unsupported("trailing words")
    return t


def c_args(ws: list[str], tokens: bool = False) -> str:
    """`Driver.Codec.parseArgs`: `A<hex> <pyval>`* → a Lean list of (attribute, value) — value as tokens when `tokens`"""
    items, i = [], 0
    while i < len(ws):
        if not ws[i].startswith("A"):
            raise Unsupported("argument")
        k = unhex(ws[i][1:])
        v, j = c_py(ws, i + 1)
        items.append(f"({l_str(k)}, {c_toks(ws[i + 1:j], py=True) if tokens else v})")
        i = j
    return "[" + ", ".join(items) + "]"


def c_toks(ws: list[str], py: bool) -> str:
    """the words the driver PRINTED for a JSON (`py=False`) / Python (`py=True`) value → a Lean `List Tok`"""
    out = []
    for w in ws:
        if w in ("[", "]", "{", "}"):
            out.append({"[": ".lb", "]": ".rb", "{": ".lc", "}": ".rc"}[w])
        elif py and w in ("(", ")"):
            out.append(".lp" if w == "(" else ".rp")
        elif w == ("N" if py else "n"):
            out.append(".null")
        elif w in ("t", "f"):
            out.append(f".bool {'true' if w == 't' else 'false'}")
        elif py and w.startswith("k"):
            out.append(f".pkey {c_key(w)}")
        elif not py and w.startswith("k"):
            out.append(f".key {l_str(unhex(w[1:]))}")
        elif w.startswith("i"):
            out.append(f".int {l_int(c_int(w[1:]))}")
        elif w.startswith("F"):
            out.append(f".float {c_float(w[1:])}")
        elif w.startswith("s"):
            out.append(f".str {l_str(unhex(w[1:]))}")
        elif py and w.startswith("P"):
            out.append(f".path {l_str(unhex(w[1:]))}")
        elif py and w.startswith("O"):
            out.append(f".other {l_str(unhex(w[1:]))}")
        else:
            raise Unsupported("printed word")
    return "[" + ", ".join(out) + "]"


def c_output(ws: list[str]) -> str:
    """`data=<arr> actions=<arr> args= <arg>*` → a Lean `OutT`"""
    if len(ws) < 3 or not ws[0].startswith("data=") or not ws[1].startswith("actions=") or ws[2] != "args=":
        raise Unsupported("output")
    return f"⟨{c_arr_triple(ws[0][5:])}, {c_arr_triple(ws[1][8:])}, {c_args(ws[3:], tokens=True)}⟩"


def c_except(ans: str, ok) -> str:
    return f".error .{CODEC_ERR[ans]}" if ans in CODEC_ERR else f".ok {ok(ans)}"


def _codec_candidate(w: list[str], ans: str) -> Candidate:
    op, a = w[1], w[2:]
    aw = ans.split(" ")
    if len(a) + len(aw) > MAX_CODEC_WORDS:
        raise Unsupported("too many words")
    if op in ("tree", "saveload") and len(a) >= 2:
        d, ac, args = c_arr(a[0]), c_arr(a[1]), c_args(a[2:])
        if op == "tree":
            prop = f"KC.codecTree {d}\n    {ac}\n    {args}\n  = {c_except(ans, lambda s: c_toks(s.split(' '), py=False))}"
        else:
            prop = f"KC.codecSaveLoad {d}\n    {ac}\n    {args}\n  = {c_except(ans, lambda s: c_output(s.split(' ')))}"
    elif op == "load":
        prop = f"KC.codecLoad {c_whole(c_json, a)}\n  = {c_except(ans, lambda s: c_output(s.split(' ')))}"
    elif op == "outputs":
        def outs(s: str) -> str:
            items = []
            if s != "-":
                for part in s.split(" ; "):
                    pw = part.split(" ")
                    if not pw[0].startswith("s"):
                        raise Unsupported("output name")
                    items.append(f"({l_str(unhex(pw[0][1:]))}, {c_output(pw[1:])})")
            return "[" + ",\n     ".join(items) + "]"
        prop = f"KC.codecOutputs {c_whole(c_json, a)}\n  = some ({c_except(ans, outs)})"
    elif op == "nparray" and len(a) >= 1 and a[0] in ("f", "a"):
        fn = "codecNpFloat" if a[0] == "f" else "codecNpInfer"
        prop = f"KC.{fn} {c_whole(c_json, a[1:])}\n  = {c_except(ans, c_arr_triple)}"
        op = "nparray." + a[0]
    elif op == "tolist" and len(a) == 1:
        prop = f"KC.codecTolist {c_arr(a[0])}\n  = {c_except(ans, lambda s: c_toks(s.split(' '), py=False))}"
    elif op == "reload":
        prop = f"KC.codecReload {c_whole(c_json, a)}\n  = {c_toks(aw, py=False)}"
    elif op == "dumps":
        prop = f"KC.codecDumps {c_whole(c_py, a)}\n  = {c_except(ans, lambda s: c_toks(s.split(' '), py=False))}"
    elif op == "stringify":
        prop = f"KC.codecStringify {c_whole(c_py, a)}\n  = {c_except(ans, lambda s: c_toks(s.split(' '), py=True))}"
    else:
        raise Unsupported("codec operation")
    # an integer cell cast to a double is printed by the model (`toString`, i.e. `String.ofList`: the quadratic path)
    big = sum(2.6e-3 * len(x) + 8e-5 * len(x) ** 2 for x in re.findall(r"[0-9]{30,}", " ".join(a)) )
    cost = 0.15 + (len(a) + len(aw)) / 400 + string_cost(prop, times=1.0) + big
    if cost > MAX_STRING_COST:
        raise Unsupported("strings too long for the kernel's string comparison")
    return Candidate("codec." + op + (".err" if ans in CODEC_ERR else ""), len(a) + len(aw), prop, mod="Codec", cost=cost)


SRCH_SEQ_COST = {0: .01, 1: .01, 2: .01, 3: .02, 4: .05, 5: .2}      # one apply-and-look-up of an action sequence, by n


# ----------------------------------------------------------------------------------------------
# domain `gen` (stateless; grammar: lean/ICG/Driver/Gen.lean; wrappers: lean/ICG/KernelCheck/Gen.lean)

GEN_COST = {0: .05, 1: .05, 2: .05, 3: .1, 4: .2, 5: .5, 6: 1.5, 7: 5.0}                 # the closed-form families
GEN_OXS_COST = {0: .05, 1: .05, 2: .05, 3: .12, 4: .5, 5: 2.4}                           # one `_apply_or` loop (3^n pairs)


def p_bool01(s: str) -> str:
    return l_bool(s)


def _gen_candidate(w: list[str], ans: str) -> Candidate:
    op, a = w[1], w[2:]

    def vq(s: str) -> str:
        (v,) = fields(s, "V")
        return qs_text(v)

    def need(cond: bool) -> None:
        if not cond:
            raise Unsupported("gen arguments")

    def cand(kind: str, n: int, prop: str, cost: float) -> Candidate:
        return Candidate("gen." + kind + (".err" if ans in ERR_KINDS else ""), n, prop, mod="Gen",
                         cost=cost * (1 + _rat_digits(*a, ans) / 16))

    if op == "predowner" and len(a) == 2:
        last, n = p_nat(a[0]), p_nat(a[1])
        need(n != 0)
        return cand("predowner", n, f"KC.genPredOwner {last} {n} = {p_nat(ans)}", .05)
    if op == "cheerpick" and len(a) == 2:
        draws = p_list(a[1], p_nat)
        return cand("cheerpick", len(draws), f"KC.genCheerPick {p_nat(a[0])} {l_nats(draws)} = {'none' if ans == 'none' else f'some {p_nat(ans)}'}", .05)
    if op == "cycle" and len(a) == 1:
        perm = p_list(a[0], p_nat)
        need(len(perm) <= MAX_N["gen"])
        m, v = fields(ans, "M", "V")
        return cand("cycle", len(perm), f"KC.genCycle {l_nats(perm)}\n  = ({qs_text(m)},\n     {qs_text(v)})", 3 * GEN_COST[len(perm)])
    need(len(a) >= 1)
    n = p_nat(a[0])
    need(n <= MAX_N["gen"])
    base = GEN_COST[n]
    if op == "factory" and len(a) == 4:
        owner, ws = p_nat(a[1]), p_list(a[2], p_rat)
        need(len(ws) == n and owner < n and a[3] in ("id", "one", "sq"))
        return cand("factory." + a[3], n, f"KC.genFactory {n} {owner} {m_rats(ws)} {('id', 'one', 'sq').index(a[3])}\n  = {vq(ans)}", base)
    if op == "cheer" and len(a) == 3:
        return cand("cheer", n, f"KC.genCheer {n} {p_nat(a[1])} {p_nat(a[2])} = {vq(ans)}", base)
    if op == "cheerkey" and len(a) == 3:
        return cand("cheerkey", n, f"KC.genCheerKey {n} {p_nat(a[1])} {p_nat(a[2])} = {except_ans(ans, vq)}", base)
    if op == "cheernext" and len(a) == 2:
        need(n != 0)
        return cand("cheernext", n, f"KC.genCheerNext {n} {p_nat(a[1])} = {except_ans(ans, vq)}", base)
    if op == "graph" and len(a) == 2:
        mat = p_list(a[1], p_rat)
        need(len(mat) == n * n)
        return cand("graph", n, f"KC.genGraph {n} {m_rats(mat)}\n  = {vq(ans)}", 2 * base)
    if op == "additive" and len(a) == 2:
        ws = p_list(a[1], p_rat)
        need(len(ws) == n)
        return cand("additive", n, f"KC.genAdditive {n} {m_rats(ws)}\n  = {vq(ans)}", base)
    if op == "xos" and len(a) == 5:
        k, ws = p_nat(a[1]), p_list(a[2], p_rat)
        need(len(ws) == k * n and k <= 40)
        return cand("xos", n, f"KC.genXos {n} {k} {m_rats(ws)} {p_bool01(a[3])} {p_bool01(a[4])}\n  = {except_ans(ans, vq)}", base * (1 + k))
    if op == "xs" and len(a) == 2:
        ss = p_list(a[1], p_rat)
        need(len(ss) == n)
        return cand("xs", n, f"KC.genXs {n} {m_rats(ss)}\n  = {vq(ans)}", base)
    if op == "xsud" and len(a) == 3:
        ps, xv = p_list(a[1], p_nat), p_list(a[2], p_rat)
        need(len(ps) == len(xv) and all(p < n for p in ps) and len(ps) <= 40)
        sg, v = fields(ans, "S", "V")
        return cand("xsud", n, f"KC.genXsud {n} {l_nats(ps)} {m_rats(xv)}\n  = ({qs_text(sg)},\n     {qs_text(v)})", base * (1 + len(ps) / 4))
    if op == "applyor" and len(a) == 3:
        x, y = p_list(a[1], p_rat), p_list(a[2], p_rat)
        need(len(x) == 2 ** n and len(y) == 2 ** n and n <= MAX_N["gen.oxs"])
        return cand("applyor", n, f"KC.genApplyOr {n} {m_rats(x)}\n    {m_rats(y)}\n  = {vq(ans)}", GEN_OXS_COST[n])
    if op == "oxs" and len(a) == 4:
        k, ss = p_nat(a[1]), p_list(a[2], p_rat)
        need(len(ss) == k * n and n <= MAX_N["gen.oxs"] and k <= 12)
        return cand("oxs", n, f"KC.genOxs {n} {k} {m_rats(ss)} {p_bool01(a[3])}\n  = {except_ans(ans, vq)}", GEN_OXS_COST[n] * max(1, k - 1) + base)
    if op == "kbudget" and len(a) == 2:
        return cand("kbudget", n, f"KC.genKBudget {n} {p_nat(a[1])} = {vq(ans)}", base)
    if op == "coverage" and len(a) == 3:
        mult, idx = p_nat(a[1]), p_list(a[2], p_nat)
        need(mult * n <= MAX_N["gen.coverage.universe"] and len(idx) <= 40)
        return cand("coverage", n, f"KC.genCoverage {n} {mult} {l_nats(idx)} = {except_ans(ans, vq)}", base + 2 ** (mult * n) / 500)
    raise Unsupported("gen operation")


STATELESS = {"bits": lambda w, ans: _bits_candidate(w, ans), "shp": lambda w, ans: _shp_candidate(w, ans),
             "gen": lambda w, ans: _gen_candidate(w, ans), "codec": lambda w, ans: _codec_candidate(w, ans),
             "norm": lambda w, ans: _norm_candidate(w, ans),
             "store": lambda w, ans: _store_crash_candidate(w, ans) if w[1] == "crash" else None}


STATEFUL = [_store_candidates, _srch_candidates, _env_candidates, _rgt_candidates]


def candidates_from_batches(batches) -> list[Candidate]:
    """every statement this module can make from the recorded batches (before any sampling)"""
    out: list[Candidate] = []
    for lines, answers in batches:
        k = min(len(lines), len(answers))
        lines, answers = lines[:k], answers[:k]
        _tab_candidates(lines, answers, out)
        for stateful in STATEFUL:
            stateful(lines, answers, out)
        for ln, ans in zip(lines, answers):
            if ans == "bad-op":
                continue
            w = [x for x in ln.split(" ") if x]
            if len(w) < 2 or w[0] not in STATELESS or len(ln) > MAX_LINE:
                continue
            try:
                c = STATELESS[w[0]](w, ans)
            except (Unsupported, ValueError, KeyError, IndexError):
                continue
            if c is None:
                continue
            c.source = [(ln, ans)]
            if w[0] in ("bits", "shp"):
                if c.kind in _FLAT_COST:
                    c.cost = 0.1          # `n` is a bit length / list length there, the statement is cheap whatever it is
                else:
                    c.cost = small_cost(c.n, 3.0 if c.kind in ("bits.issa", "bits.issam", "bits.supermod") or c.kind.startswith("shp.") else 1.0)
            out.append(c)
    return out


def select(cands: list[Candidate], max_statements: int, budget_s: float = 240.0) -> list[Candidate]:
    """A deterministic sample spread over the statement kinds: duplicates removed; round robin over the kinds (the
    bound computers first, then the kinds of the other domains, `bits` last); inside a kind the largest size first,
    then evenly spread over the rest; a statement is skipped when its estimated kernel time no longer fits
    into `budget_s` (so that a thorough run stays within its time limit whatever the batches contain)."""
    seen, by_kind = set(), {}
    for c in cands:
        if c.prop not in seen:
            seen.add(c.prop)
            by_kind.setdefault(c.kind, []).append(c)
    order = []
    for kind in sorted(by_kind):
        cs = sorted(by_kind[kind], key=lambda c: -c.n)           # stable: batch order inside one size
        m = len(cs)
        step = next(s for s in (7919, 104729, 1299709) if math.gcd(s, m) == 1) if m > 1 else 1
        order.append([cs[(j * step) % m] for j in range(m)])      # j = 0 is the largest one
    order.sort(key=lambda p: (0 if p[0].kind.startswith("tab.compute") else 2 if p[0].kind.startswith("bits") else 1,
                              p[0].kind))
    sel: list[Candidate] = []
    left = budget_s
    r = 0
    while len(sel) < max_statements and any(r < len(p) for p in order):
        for p in order:
            if r < len(p) and len(sel) < max_statements and p[r].cost <= left:
                sel.append(p[r])
                left -= p[r].cost
        r += 1
    return sel


def statements_from_batches(batches) -> list[str]:
    """Lean statements (`theorem kc_i : … := by decide +kernel`) for every supported line / segment of the batches"""
    return [c.theorem(f"kc_{i}") for i, c in enumerate(candidates_from_batches(batches))]


# ----------------------------------------------------------------------------------------------
# running Lean

MODULES = ("Basic", "Norm", "Store", "Srch", "Gen", "Env", "Rgt", "Codec")      # ICG/KernelCheck/<m>.lean


def header(mods) -> list[str]:
    """the head of a generated file: imports exactly the ICG.KernelCheck modules its statements need"""
    need = set(mods) | {"Basic"}
    mods = [m for m in MODULES if m in need]
    return [f"import ICG.KernelCheck.{m}" for m in mods] + [
        "-- generated by harness/kernelcheck.py; do not edit, do not import",
        "-- every statement: the Lean kernel evaluates the model definitions on an input the compiled driver was given",
        "-- and finds the output the compiled driver printed (`decide +kernel`: no native code, no interpreter)",
        "open ICG",
        "set_option maxRecDepth 100000",
        "",
        "theorem kc_start : (2 : Nat) + 2 = 4 := by decide +kernel     -- progress marker: imports are loaded",
        "#print axioms kc_start",
        ""]


def render(named: list[tuple[str, Candidate]], negate: bool = False) -> tuple[str, dict[str, tuple[int, int]]]:
    """the generated file and, per statement name, its (first, last) line number; every statement is followed by its
    `#print axioms`, which is also the progress marker (Lean checks the commands of a file one after the other)"""
    lines = header(c.mod for _, c in named)
    spans = {}
    for name, c in named:
        first = len(lines) + 1
        lines.extend(c.theorem(name, negate).split("\n"))
        lines.append(f"#print axioms {name}")
        spans[name] = (first, len(lines))
        lines.append("")
    return "\n".join(lines), spans


def _run_lean(args: list[str], timeout: float, stdin_text: str | None = None, markers: list[str] | None = None,
              write: tuple[Path, str] | None = None):
    """`lake env lean <args>` in its own process group (killed as a group on time-out: `lake env` does not exec),
    output unbuffered through `stdbuf` when available so that progress survives a kill.
    Returns (rc, output, timed_out, {marker: seconds since start when it appeared})."""
    import leanside
    cmd = ["lake", "env", "lean", *args]
    if shutil.which("stdbuf"):
        cmd = ["stdbuf", "-o0", "-e0", *cmd]
    seen: dict[str, float] = {}
    with leanside.Lock(), tempfile.TemporaryFile() as fo, tempfile.TemporaryFile() as fi:
        if write is not None:           # under the lock: concurrent checks share the one generated file
            write[0].parent.mkdir(parents=True, exist_ok=True)
            write[0].write_text(write[1])
        if stdin_text is not None:
            fi.write(stdin_text.encode())
            fi.seek(0)
        t0 = time.time()
        p = subprocess.Popen(cmd, cwd=LEAN, stdin=fi if stdin_text is not None else subprocess.DEVNULL, stdout=fo,
                             stderr=subprocess.STDOUT, start_new_session=True)
        timed_out = False
        pos = 0
        buf = ""
        while True:
            try:
                p.wait(timeout=0.1)
                done = True
            except subprocess.TimeoutExpired:
                done = False
            if markers:
                fo.seek(pos)
                chunk = fo.read()
                pos += len(chunk)
                buf += chunk.decode(errors="replace")
                now = time.time() - t0
                for m in markers:
                    if m not in seen and f"'{m}'" in buf:
                        seen[m] = now
                buf = buf[-200:]
            if done:
                break
            if time.time() - t0 > timeout:
                timed_out = True
                try:
                    os.killpg(p.pid, signal.SIGKILL)
                except ProcessLookupError:
                    pass
                p.wait()
                break
        fo.seek(0)
        out = fo.read().decode(errors="replace")
    return (124 if timed_out else p.returncode), out, timed_out, seen


def parse_output(out: str, spans: dict[str, tuple[int, int]]) -> dict:
    """split Lean's output into per-statement errors and `#print axioms` lines"""
    errors: dict[str, str] = {}
    other: list[str] = []
    cur = None
    for ln in out.splitlines():
        m = re.match(r"^(?:\S*Generated\.lean|<stdin>|\S*\.lean):(\d+):(\d+): (error|warning)(?:\([^)]*\))?: (.*)$", ln)
        if m:
            line_no = int(m.group(1))
            cur = None
            if m.group(3) == "error":
                for name, (a, b) in spans.items():
                    if a <= line_no <= b:
                        cur = name
                        errors[name] = (errors.get(name, "") + "\n" + m.group(4)).strip()
                        break
                else:
                    other.append(ln)
            continue
        if re.match(r"^'[\w.]+' (depends on axioms|does not depend)", ln):
            cur = None
        if cur is not None and len(errors[cur]) < 4000:
            errors[cur] += "\n" + ln
    flat = re.sub(r"\s+", " ", out)
    axioms: dict[str, list[str]] = {}
    for name in spans:
        m = re.search(rf"'{re.escape(name)}' depends on axioms: \[([^\]]*)\]", flat)
        if m:
            axioms[name] = [a.strip() for a in m.group(1).split(",") if a.strip()]
        elif re.search(rf"'{re.escape(name)}' does not depend on any axioms", flat):
            axioms[name] = []
    return {"errors": errors, "axioms": axioms, "other": other}


def _short(msg: str, k: int = 700) -> str:
    """Lean prints the whole stuck `Decidable` instance: keep the head (the proposition) only"""
    cut = msg.find("Reduction got stuck")
    if cut > 0:
        msg = msg[:cut].rstrip()
    return msg if len(msg) <= k else msg[:k] + " …"


def check_candidates(cands: list[Candidate], timeout: float = 600.0) -> dict:
    """Write Generated.lean for exactly these statements (cheapest first), run Lean on it, classify every statement:

      proved     the kernel accepted `kc_i`, and `kc_i` depends on no axiom beyond propext / Classical.choice / Quot.sound
      refuted    the kernel rejected `kc_i` AND accepted `¬ (statement)` (second pass, `decide +kernel` again): the
                 compiled driver printed something the model definitions do not evaluate to
      undecided  rejected, but the negation was not accepted either (malformed statement, a definition the kernel cannot
                 unfold, resource limit) — the Lean error is reported
      timed_out  Lean was stopped by the wall clock while checking it (`running`) or before reaching it (`not reached`)
    """
    t0 = time.time()
    cands = sorted(cands, key=lambda c: c.cost)
    named = [(f"kc_{i}", c) for i, c in enumerate(cands)]
    res = {"statements": len(cands), "proved": 0, "refuted": 0, "failed": [], "timed_out": [], "errors": [],
           "axioms": {}, "axioms_union": [], "n_failed": 0, "n_timed_out": 0, "by_kind": {}, "wall_s": 0.0,
           "file": str(LEAN / GENERATED)}
    for c in cands:
        a = res["by_kind"].setdefault(f"{c.kind} n={c.n}", {"statements": 0, "kernel_s": 0.0, "max_s": 0.0})
        a["statements"] += 1
    if not cands:
        return res
    import leanside
    targets = ["ICG.KernelCheck." + m for m in MODULES if m in {c.mod for c in cands} | {"Basic"}]
    with leanside.Lock():
        p = subprocess.run(["lake", "build", *targets], cwd=LEAN, capture_output=True, text=True)
    if p.returncode != 0:
        res["errors"].append({"what": f"lake build {' '.join(targets)} failed", "log": (p.stdout + p.stderr)[-1500:]})
        res["wall_s"] = round(time.time() - t0, 2)
        return res
    text, spans = render(named)
    rc, out, wall_to, seen = _run_lean([GENERATED], max(5.0, timeout - (time.time() - t0)),
                                       markers=["kc_start"] + [n for n, _ in named], write=(LEAN / GENERATED, text))
    po = parse_output(out, spans)
    # per-statement kernel time: distance between consecutive progress markers
    prev = "kc_start" if "kc_start" in seen else None
    for name, c in named:
        if name in seen:
            dt = seen[name] - (seen[prev] if prev else 0.0)
            a = res["by_kind"][f"{c.kind} n={c.n}"]
            a["kernel_s"] = round(a["kernel_s"] + dt, 2)
            a["max_s"] = round(max(a["max_s"], dt), 2)
            c.measured = round(dt, 2)
            prev = name
    rejected: list[tuple[str, Candidate]] = []
    failed, timed = [], []
    running_marked = False
    for name, c in named:
        entry = {"statement": name, "kind": c.kind, "n": c.n, "source": c.shown(), "lean": c.theorem(name)[:2500]}
        if name in po["errors"]:
            entry["lean_error"] = _short(po["errors"][name])
            entry["verdict"] = "undecided"
            failed.append(entry)
            rejected.append((name, c))
        elif name in po["axioms"]:
            ax = po["axioms"][name]
            if set(ax) <= STD_AXIOMS:
                res["proved"] += 1
            else:
                entry["verdict"] = "axioms"
                entry["lean_error"] = f"depends on axioms {ax}"
                failed.append(entry)
        else:
            entry["verdict"] = "timed out (not reached)" if running_marked else "timed out (running when the time was up)"
            entry["lean_error"] = f"Lean was stopped after {timeout} s" if wall_to else f"no result (lean rc={rc})"
            running_marked = True
            timed.append(entry)
    # second pass: is the negation of a rejected statement a kernel theorem?  (refuted vs. merely not evaluated)
    if rejected:
        neg = [(f"{name}_refuted", c) for name, c in rejected]
        ntext, nspans = render(neg, negate=True)
        budget = max(30.0, min(300.0, timeout - (time.time() - t0)))
        _, nout, _, _ = _run_lean(["--stdin"], budget, stdin_text=ntext)
        npo = parse_output(nout, nspans)
        for entry in failed:
            nn = entry["statement"] + "_refuted"
            if nn in npo["axioms"] and nn not in npo["errors"] and set(npo["axioms"][nn]) <= STD_AXIOMS:
                entry["verdict"] = "refuted"
                entry["refutation"] = f"the kernel accepted `theorem {nn} : ¬ (…) := by decide +kernel` (axioms: {npo['axioms'][nn]})"
                res["refuted"] += 1
            elif nn in npo["errors"]:
                entry["negation_error"] = _short(npo["errors"][nn], 300)
    ax_all = [po["axioms"][n] for n, _ in named if n in po["axioms"] and n not in po["errors"]]
    res["axioms"] = {n: po["axioms"][n] for n, _ in named[:5] if n in po["axioms"]}
    res["axioms_union"] = sorted({a for v in ax_all for a in v})
    if po["other"]:
        res["errors"].append({"what": "Lean messages outside the statements", "log": "\n".join(po["other"])[:1500]})
    if rc not in (0, 1) and not wall_to:
        res["errors"].append({"what": f"lean exited with {rc}", "log": out[-1500:]})
    res["n_failed"], res["n_timed_out"] = len(failed), len(timed)
    res["failed"] = failed[:5]
    res["timed_out"] = timed[:5]
    res["wall_s"] = round(time.time() - t0, 2)
    return res


def check(batches, max_statements: int = 40, timeout: float = 600.0) -> dict:
    """Sample ≤ `max_statements` statements from the recorded driver batches (estimated kernel time ≤ timeout / 2,
    at most 240 s) and have the kernel decide them.  `ok` ⇔ nothing was refuted, left undecided or malformed."""
    cands = candidates_from_batches(batches)
    sel = select(cands, max_statements, budget_s=min(240.0, timeout / 2))
    res = check_candidates(sel, timeout)
    res["candidates"] = len(cands)
    res["ok"] = not res["failed"] and not res["errors"]
    return res


# ----------------------------------------------------------------------------------------------
# self-test

def _own_lines(rnd) -> list[str]:
    """a few hundred protocol lines over the three supported domains (own generator: does not need /repo)"""
    from common import nlist, rlist, rs
    L: list[str] = []
    fr = lambda a, b: Fraction(rnd.randint(a, b), rnd.choice([1, 1, 2, 3, 4, 8]))      # noqa: E731
    k = 0
    for n in (1, 2, 3, 3, 3, 4, 4, 4, 4, 5):
        for comp in ("sa", "sac", f"sam:{rnd.randint(0, 3)}"):
            N = 2 ** n
            k += 1
            g = f"g{k}"
            v = [Fraction(0)] + [Fraction(bin(c).count("1") ** 2 * 4) + fr(0, 6) for c in range(1, N)]
            must = {0, N - 1} | {1 << i for i in range(n)}
            K = sorted(must | {c for c in range(N) if rnd.random() < 0.35})
            if rnd.random() < 0.15:                         # a precondition failure: the computers raise
                K = sorted(set(K) - {rnd.choice(sorted(must))})
            L.append(f"tab new {g} {n}")
            if rnd.random() < 0.5:                          # stale bounds everywhere first
                L.append(f"tab bounds {g} lo none {rlist([fr(-9, 9) for _ in range(N)])}")
                L.append(f"tab bounds {g} hi none {rlist([fr(-9, 9) for _ in range(N)])}")
            L.append(f"tab setvalues {g} {nlist(K)} {rlist([v[c] for c in K])}")
            L.append(f"tab compute {g} {comp}")
            L.append(f"tab dump {g}")
            if n <= 4:
                c = rnd.randrange(N)
                L.append(f"tab reveal {g} {c} {rs(v[c])}")   # err:assert when already known
                L.append(f"tab getvalue {g} {c}")
                L.append(f"tab compute {g} {comp}")
                L.append(f"tab getknowns {g}")
                L.append(f"tab unreveal {g} {c}")
                L.append(f"tab set {g} {N + 3} 1")            # err:index
                L.append(f"tab getvalues {g} {nlist(K[:3])}")
                L.append(f"tab dump {g}")
    for n in (1, 2, 3, 4, 5, 6):
        N = 2 ** n
        for _ in range(2):
            v = [Fraction(0)] + [fr(-20, 40) for _ in range(N - 1)]
            lo = [Fraction(0)] + [fr(-20, 40) for _ in range(N - 1)]
            hi = [a + abs(fr(0, 30)) for a in lo]
            kn = "".join("1" if (c in (0, N - 1) or rnd.random() < 0.6) else "0" for c in range(N))
            i = rnd.randrange(n)
            L += [f"shp contrib {n}", f"shp shapley {n} {rlist(v)}", f"shp shapley1 {n} {i} {rlist(v)}",
                  f"shp tshapley {n} {'1' * N} {rlist(v)}", f"shp tshapley {n} {kn} {rlist(v)}",
                  f"shp tshapley1 {n} {i} {kn} {rlist(v)}", f"shp maxgain {n} {i} {rlist(lo)} {rlist(hi)}",
                  f"shp expl {n} {kn} {rlist(lo)} {rlist(hi)}", f"shp expl {n} {'1' * N} {rlist(lo)} {rlist(hi)}",
                  f"shp norms {n} {rlist(lo)} {rlist(hi)}"]
    rt = rs(Fraction(1e-9))
    for n in (1, 2, 3, 4, 5, 6):
        N = 2 ** n
        for _ in range(2):
            c, d, p = rnd.randrange(N), rnd.randrange(N), rnd.randrange(n)
            v = [Fraction(0)] + [Fraction(bin(x).count("1") ** 2) + Fraction(rnd.randint(0, 1), 2) for x in range(1, N)]
            L += [f"bits size {c}", f"bits players {c}", f"bits from {nlist([p, rnd.randrange(n), p])}", f"bits single {p}",
                  f"bits grand {n}", f"bits all {n}", f"bits and {c} {d}", f"bits or {c} {d}", f"bits sub {c} {d}",
                  f"bits contains {c} {d}", f"bits eq {c} {d}", f"bits disjoint {c} {d}", f"bits andp {c} {p}",
                  f"bits orp {c} {p}", f"bits subp {c} {p}", f"bits addp {c} {p}", f"bits hasplayer {c} {p}",
                  f"bits inverted {c} {n}", f"bits subobj {c}", f"bits superobj {c} {n}", f"bits subid {c} {n}",
                  f"bits superid {c} {n}", f"bits subid {N + c} {n}", f"bits playersid {c} {n}", f"bits sizeid {N + c} {n}",
                  f"bits sizeid {c} {n}", f"bits struct {n} {c}", f"bits sorted {n}", f"bits minimal {n}",
                  f"bits exclude {c} {nlist(range(N))}", f"bits issa {n} {rt} 0 {rlist(v)}", f"bits ismono {n} {rlist(v)}",
                  f"bits issam {n} {rt} 0 {rlist(v)}", f"bits supermod {n} 0 {rlist(v)}"]
    return L


def _own_lines_more(rnd) -> list[str]:
    """protocol lines over the domains norm / store / srch / gen / env / rgt / codec (own generator: does not need /repo)"""
    from common import nlist, rlist, rs
    L: list[str] = []
    fr = lambda a, b: Fraction(rnd.randint(a, b), rnd.choice([1, 1, 2, 4, 8]))      # noqa: E731
    hx = lambda s: s.encode().hex()                                                 # noqa: E731
    # ---- norm
    for n in (1, 2, 3, 4, 5, 6):
        N = 2 ** n
        v = [Fraction(0)] + [Fraction(bin(c).count("1") ** 2) + fr(0, 9) for c in range(1, N)]
        add = [sum((Fraction(i + 1, 2) for i in range(n) if c >> i & 1), Fraction(0)) for c in range(N)]     # additive: the guard
        mat = [fr(0, 9) for _ in range(n * n)]
        ids = sorted({0, N - 1} | {1 << i for i in range(n)} | {c for c in range(N) if rnd.random() < 0.5})
        L += [f"norm icg {n} {rlist(v)}", f"norm icg {n} {rlist(add)}", f"norm icg {n} {rlist(v)} 1/1000",
              f"norm closed {n} {rlist(v)}", f"norm closed {n} {rlist(add)} 1/1000",
              f"norm icgpart {n} {nlist(ids)} {rlist([v[c] for c in ids])}",
              f"norm icgpart {n} {nlist(ids[:-1])} {rlist([v[c] for c in ids[:-1]])}",
              f"norm denorm {n} {rs(fr(1, 9))} {rlist([fr(0, 5) for _ in range(n)])} {rlist(v)}",
              f"norm denorm {n} 2 {rlist([fr(0, 5) for _ in range(n - 1)])} {rlist(v)}",
              f"norm graph {n} {rlist(mat)}", f"norm gtable {n} {rlist(mat)}", f"norm gdenorm {n} {rs(fr(1, 9))} {rlist(mat)}"]
    # ---- store (C19)
    tok = lambda k: "h" + "".join(rnd.choice("0123456789abcdef") for _ in range(k))     # noqa: E731
    def entry():
        r, c = rnd.randint(1, 2), rnd.randint(1, 3)
        cells = ",".join(rnd.choice(["nan", "f" + tok(15)[1:], "i" + str(rnd.randint(0, 40))]) for _ in range(r * c))
        meta = ",".join(f"{tok(6)}={tok(rnd.choice([4, 12, 60]))}" for _ in range(rnd.randint(0, 3))) or "-"
        return f"{r}x{c}:{cells};1x{r}:{','.join('i' + str(rnd.randint(0, 30)) for _ in range(r))};{meta}"
    for s_ in ("s1", "s2"):
        names = [tok(rnd.choice([8, 30, 90])) for _ in range(4)]
        L.append(f"store reset {s_}")
        for step in range(10):
            nm = rnd.choice(names)
            L += [f"store save {s_} {nm} {entry()}", f"store lookup {s_} {rnd.choice(names)}"]
            if step % 3 == 2:
                L += [f"store names {s_}", f"store dump {s_}"]
        L += [f"store lookup {s_} {tok(5)}", f"store dump {s_}"]
    # ---- store (C20)
    old, new = hx('{"a": 1}'), hx('{"a": 1, "b": [2.5, NaN]}')
    t = "data.json"
    L += [f"store crash {t} {t}={old} or:{t} c:{t} ot:{t}.tmp w:{t}.tmp:{new[:10]} w:{t}.tmp:{new[10:]} fs:{t}.tmp c:{t}.tmp mv:{t}.tmp:{t}",
          f"store crash {t} {t}={old} or:{t} c:{t} ot:{t} w:{t}:{new[:10]} w:{t}:{new[10:]} c:{t}",
          f"store crash {t} - ox:{t}.tmp w:{t}.tmp:{new} c:{t}.tmp mv:{t}.tmp:{t} rm:{t}.tmp",
          f"store crash {t} {t}={old},{t}.tmp={hx('stale')} ot:{t}.tmp w:{t}.tmp:{new} c:{t}.tmp mv:{t}.tmp:{t} w:{t}.tmp:{hx('x')}",
          f"store crash {t} {t}={old} or:{t} c:{t}", f"store crash {t} {t}={old} rm:{t} ok:{t} w:{t}:{new} x:{t}",
          f"store crash {t} {t}={tok(3000)[1:]}{'61' * 300} ot:{t}.tmp w:{t}.tmp:{tok(3000)[1:]}{'62' * 300} c:{t}.tmp mv:{t}.tmp:{t}"]
    # ---- srch
    for n, reps in ((3, 2), (4, 1)):
        N = 2 ** n
        start = sorted({0, N - 1} | {1 << i for i in range(n)})
        unk = [c for c in range(N) if c not in start]
        if n == 4:
            unk = unk[:4]
            start = [c for c in range(N) if c not in unk]
        g = f"g{n}"
        L.append(f"srch gt new {g} {n} {reps}")
        for m in range(2 ** len(unk)):
            ks = start + [u for i, u in enumerate(unk) if m >> i & 1]
            L.append(f"srch gt put {g} {nlist(ks)} {rlist([fr(0, 40) + (len(unk) - bin(m).count('1')) for _ in range(reps)])}")
        L += [f"srch seqs {nlist(unk)} none", f"srch seqs {nlist(unk)} 2", f"srch chunks {2 ** len(unk)} 2", "srch chunks 9 0",
              f"srch expl {g} 1 {nlist(start)} none 2 0", f"srch expl {g} {reps} {nlist(start)} 2 1 7",
              f"srch stack {g} {nlist(start)} {nlist(unk[:2])} 1 5", f"srch best {g} {nlist(start)} 2 1",
              f"srch meta {g} 1 3 7", f"srch meta {g} 1 {2 ** 12} 0",
              f"srch greedy {g} {nlist(start)} {nlist(unk)} 1 1 {nlist(unk)};{nlist(unk[1:])}",
              f"srch greedy {g} {nlist(start)} {nlist(unk)} 1 1 {nlist(unk[1:])};-"]
    L += ["srch evalone 3 -7/2 -3:0:13;-5/2:0:14;-1:1:3", "srch evalone 4 -1 -1/2:0:5;-1/4:1:6", "srch evalone 2 -1 -",
          "srch pooldraws 2 2 5 1", "srch pooldraws 2 2 5 2", "srch pooldraws 3 1 4 0"]
    # ---- gen
    for n in (3, 4, 5):
        N = 2 ** n
        ws = [fr(1, 9) for _ in range(n)]
        L += [f"gen factory {n} 1 {rlist(ws)} id", f"gen factory {n} 0 {rlist(ws)} sq", f"gen factory {n} 2 {rlist([1] * n)} one",
              f"gen predowner {n - 1} {n}", f"gen cheerpick 1 1,1,{n - 1},0", "gen cheerpick 2 2,2", f"gen cheer {n} 0 1",
              f"gen cheerkey {n} 0 1", f"gen cheernext {n} {n - 1}", f"gen graph {n} {rlist([fr(0, 9) for _ in range(n * n)])}",
              f"gen cycle {nlist(rnd.sample(range(n), n))}", f"gen additive {n} {rlist(ws)}",
              f"gen xos {n} 3 {rlist([fr(1, 9) for _ in range(3 * n)])} 1 1", f"gen xos {n} 2 {rlist([fr(1, 9) for _ in range(2 * n)])} 0 0",
              f"gen xos {n} 0 - 1 0", f"gen xs {n} {rlist(ws)}", f"gen xsud {n} 0,1,0 {rlist([fr(1, 9) for _ in range(3)])}",
              f"gen kbudget {n} 2", f"gen coverage {n} 2 {nlist([rnd.randrange(1, 2 ** (2 * n) - 1) for _ in range(n)])}",
              f"gen coverage {n} 1 {nlist(range(n - 1))}"]
        if n <= 4:
            a_ = [Fraction(0)] + [-fr(1, 9) for _ in range(N - 1)]
            b_ = [Fraction(0)] + [-fr(1, 9) for _ in range(N - 1)]
            L += [f"gen applyor {n} {rlist(a_)} {rlist(b_)}", f"gen oxs {n} 3 {rlist([fr(1, 9) for _ in range(3 * n)])} 1", f"gen oxs {n} 0 - 0"]
    # ---- env: the model's own computers and gap (`sa l1`), then an oracle-fed one (`ext ext`)
    for n, comp in ((3, "sa"), (3, "sam:1"), (4, "sac")):
        N = 2 ** n
        e = f"e{n}{comp[:3]}"
        full = [Fraction(0)] + [Fraction(bin(c).count("1") ** 2 * 2) + fr(0, 3) for c in range(1, N)]
        norm = [x / full[-1] for x in full]
        init = nlist([0, N - 1] + [1 << i for i in range(n)])
        L += [f"env new {e} {n} {comp} l1 2 {init} {rlist(full)} {rlist(norm)}", f"env info {e}", f"env snap {e}", f"env mask {e}",
              f"env step {e} 0", f"env state {e}", f"env reward {e}", f"env done {e}", f"env steps {e}", f"env snap {e}",
              f"env solve {e} largest", f"env random {e} 1", f"env step {e} -1", f"env step {e} 0", f"env dump {e}", f"env snap {e}",
              f"env unstep {e} 0", f"env linsizes {e}", f"env linmask {e}", f"env linstate {e}", f"env lincands {e} 2", f"env snap {e}",
              f"env linstep {e} 2 1", f"env linstep {e} {n} 0", f"env step {e} 99", f"env snap {e}",
              f"env reset {e} {rlist(full[::-1][:1] * 0 + full)} {rlist(norm)}", f"env snap {e}"]
        if n == 3:
            L += [f"env solve {e} greedy", f"env solve {e} greedy_worst", f"env snap {e}"]
        L += [f"env linreset {e} {rlist(full)} {rlist(norm)}", f"env snap {e}", f"env drop {e}"]
    K0 = "11101001"
    lo0, up0 = "0,1,1,2,1,2,2,5", "0,1,1,4,1,4,4,5"
    L += [f"env oracle x1 {K0} {lo0} {up0} 6", f"env oracle x1 11111001 0,1,1,3,1,2,2,5 0,1,1,3,1,4,4,5 4",
          "env oracle x1 11101101 err:value - err:value", "env new x1 3 ext ext none 0,7,1,2,4 0,1,1,3,1,3,3,5 0,1/5,1/5,3/5,1/5,3/5,3/5,1",
          "env info x1", "env snap x1", "env step x1 0", "env snap x1", "env unstep x1 0", "env step x1 1", "env snap x1", "env step x1 2",
          "env snap x1", "env oracle-clear x1", "env reward x1", "env snap x1", "env drop x1"]
    # ---- rgt
    L += ["rgt cup 3 2", "rgt cup 10 3", "rgt metaids 3 2", "rgt metaids 4 2", "rgt pidmap 3", "rgt pidmap 4", "rgt new r0 1 1 0",
          "rgt new r1 3 2 0", "rgt info r1", "rgt ranks r1", "rgt table r1", "rgt metaid r1 3,5", "rgt metaid r1 7,3", "rgt strategy r1 0",
          "rgt strategy r1 99", "rgt strategyc r1 3", "rgt avg r1 3", "rgt regret r1", "rgt cumstrat r1",
          "rgt iter r1 1,2,3 3,5;3,6;5,6", "rgt regret r1", "rgt cumstrat r1", "rgt strategy r1 1", "rgt avg r1 5",
          "rgt iter r1 3/2,1/4,2 3,5;3,6;5,6", "rgt regret r1", "rgt cumstrat r1", "rgt saveload r1 r2", "rgt info r2",
          "rgt iter r2 1 3,5", "rgt regret r2", "rgt cumstrat r2", "rgt strategyc r2 5",
          "rgt new r3 3 2 1 7 2", "rgt iter r3 1,2,3 3,5;3,6;5,6", "rgt iter r3 2,2,1 3,5;3,6;5,6", "rgt regret r3", "rgt cumstrat r3",
          "rgt avg r3 -", "rgt new r4 4 1 1", "rgt new r4 4 1 1 513 1", "rgt info r4", "rgt iter r4 1,2,3,4,5,6,7,8,9,10 3;5;6;7;9;10;11;12;13;14", "rgt regret r4",
          "rgt cumstrat r4", "rgt strategyc r4 -", "rgt avg r4 -", "rgt new r5 4 2 0 769 2", "rgt iter r5 1,2,3 3,5;3,6;5,6",
          "rgt regret r5", "rgt cumstrat r5", "rgt iter r5 3,1,2 3,5;3,6;5,6", "rgt avg r5 3", "rgt strategyc r5 3,5"]
    # ---- codec
    func = "A" + hx("func") + " O" + hx("<function eval_func at 0x7f>")
    seed = "A" + hx("seed") + " i5"
    misc = "A" + hx("misc") + " { ks" + hx("k") + " ( i1 F1/2 N ) ki7 [ t f ] kN P" + hx("/x/y") + " }"
    entry_json = ("{ k" + hx("data") + " [ [ i1 F1/2 ] [ n t ] ] k" + hx("actions") + " [ i2 i3 ] k" + hx("metadata")
                  + " { k" + hx("run_type") + " s" + hx("eval") + " k" + hx("seed") + " i5 } }")
    L += [f"codec tree f:1x2:F1,F-0 i:1x1:i3 {func} {seed} {misc}", f"codec saveload f:1x2:F1,F-0 i:1x1:i3 {func} {seed} {misc}",
          f"codec tree f:1x2:F1,F2 i:1x1:i3 {seed}", f"codec saveload f:2x1:Fnan,Finf o:1x2:n,i4 {func} A" + hx("k") + " { kO i1 }",
          f"codec load {entry_json}", "codec load { k" + hx("data") + " [ ] }", f"codec outputs {{ k{hx('run-0')} {entry_json} k{hx('run-1')} {entry_json} }}",
          "codec outputs { }", "codec nparray f [ [ i1 n ] [ t F1/2 ] ]", "codec nparray f [ [ i1 ] [ i2 i3 ] ]", "codec nparray a [ i1 i2 t ]",
          "codec nparray a [ ]", "codec nparray a [ i1 n ]", f"codec nparray f [ i{10 ** 400} ]", f"codec nparray f [ i{2 ** 60 + 1} ]",
          "codec nparray a [ s" + hx("x") + " ]", "codec tolist f:2x2:F1,F2,Fnan,F-0", "codec tolist i:-:i7", "codec tolist f:2x0:-", "codec tolist f:2x2:F1",
          "codec reload { k" + hx("a") + " i1 k" + hx("b") + " [ { k" + hx("a") + " n } ] k" + hx("a") + " i2 }",
          "codec dumps { ki1 s" + hx("one") + " ks" + hx("1") + " s" + hx("uno") + " kN [ ( i1 ) P" + hx("/x") + " ] kF" + hx("1.5") + " t }",
          "codec dumps { kO i1 }", "codec stringify ( i1 { kt N kf [ F-inf s" + hx("ü中") + " ] } )", "codec stringify O" + hx("<object>")]
    return L


def _flip_digit(ans: str) -> str:
    """change the last decimal digit of an answer line"""
    for i in range(len(ans) - 1, -1, -1):
        if ans[i].isdigit():
            return ans[:i] + str((int(ans[i]) + 1) % 10) + ans[i + 1:]
    raise ValueError("no digit to flip")


def _summary(tag: str, r: dict) -> None:
    print(f"[{tag}] statements={r['statements']} proved={r['proved']} refuted={r['refuted']} "
          f"failed={r.get('n_failed', 0)} timed_out={r.get('n_timed_out', 0)} errors={len(r['errors'])} wall={r['wall_s']} s "
          f"axioms={r.get('axioms_union')}")
    for key in sorted(r["by_kind"]):
        a = r["by_kind"][key]
        print(f"    {key:24s} {a['statements']:3d} statement(s)  kernel {a['kernel_s']:6.2f} s  (max {a['max_s']:.2f} s)")
    for f in r["failed"]:
        print(f"    FAILED {f['statement']} [{f['kind']} n={f['n']}] verdict={f['verdict']}")
        for s_ in f["source"]:
            print(f"        {s_[:200]}")
        print("        lean: " + f.get("lean_error", "").replace("\n", "\n              ")[:900])
        if f.get("refutation"):
            print("        " + f["refutation"])
    for f in r["timed_out"]:
        print(f"    TIMED OUT {f['statement']} [{f['kind']} n={f['n']}] {f['verdict']}")
    for e in r["errors"]:
        print("    ERROR", e)


STREAMS = (("corr_bounds", "C02"), ("corr_bits", "C18"), ("corr_shapley", "C05"), ("corr_normalize", "C15"),
           ("corr_store", "C19"), ("corr_store", "C20"), ("corr_search", "C11"), ("corr_search", "C12"),
           ("corr_search", "C13greedy"), ("corr_generators", "C10"), ("corr_env", "C09"), ("corr_env", "C13"),
           ("corr_env", "C16"), ("corr_regret", "C14"), ("corr_codec", "C19"))
# one statement kind per domain (and per interesting operation) for the non-vacuity demonstration
DEMO_KINDS = ("tab.compute.sa", "tab.compute.sac", "tab.compute.sam", "shp.shapley", "shp.expl", "bits.subobj", "bits.struct",
              "norm.icg", "norm.graph", "norm.denorm", "store.ops", "store.crash", "srch.expl", "srch.best", "srch.greedy",
              "srch.evalone", "gen.xos", "gen.oxs", "gen.coverage", "env.step", "env.solve", "env.lin", "rgt.iter", "rgt.metaids",
              "codec.saveload", "codec.nparray.f", "codec.dumps")


def corrupt(batches, c: Candidate):
    """flip the last decimal digit of the answer to the last protocol line `c` was made of; returns (line, answer, flipped
    answer, the statement made of the corrupted batch) or None when that cannot be done unambiguously"""
    ln, ans = c.source[-1]
    if "err:" in ans or not any(ch.isdigit() for ch in ans):
        return None
    for bi, (lines, answers) in enumerate(batches):
        hits = [i for i, (x, y) in enumerate(zip(lines, answers)) if x == ln and y == ans]
        if len(hits) != 1:
            continue
        an2 = list(answers)
        an2[hits[0]] = _flip_digit(ans)
        cc = [x for x in candidates_from_batches([(lines, an2)]) if x.kind == c.kind and x.source and x.source[-1] == (ln, an2[hits[0]])]
        if len(cc) == 1 and cc[0].prop != c.prop:
            return ln, ans, an2[hits[0]], cc[0]
    return None


def main(argv: list[str]) -> int:
    import argparse
    import importlib
    import random
    ap = argparse.ArgumentParser(description="self-test of the kernel cross-check")
    ap.add_argument("--max", type=int, default=40, help="statements per check")
    ap.add_argument("--timeout", type=float, default=600.0)
    ap.add_argument("--no-streams", action="store_true", help="own generator only (do not import the correspondence streams)")
    ap.add_argument("--streams", default="", help="comma separated stream modules to run (default: all), e.g. corr_store,corr_env")
    ap.add_argument("--stream-budget", type=float, default=25.0, help="seconds per stream")
    ap.add_argument("--seed", type=int, default=common.SEED)
    args = ap.parse_args(argv)
    rnd = random.Random(f"kernelcheck:{args.seed}")
    bad = 0

    # 1. own generator -> compiled driver -> statements -> kernel: one statement of every kind at least
    own = []
    for lines in (_own_lines(rnd), _own_lines_more(rnd)):
        common.DRIVER_SAMPLES.clear()
        outs = common.run_driver(lines)
        own += list(common.DRIVER_SAMPLES)
        assert own[-1][1] == outs[:3000]
        nbad = sum(1 for o in outs if o == "bad-op")
        print(f"own generator: {len(lines)} protocol lines through {common.DRIVER_EXE} ({nbad} bad-op)")
    cands = candidates_from_batches(own)
    kinds = {c.kind for c in cands}
    print(f"{len(cands)} statements can be made, {len(kinds)} kinds, domains {sorted({k.split('.')[0] for k in kinds})}")
    r = check(own, max(args.max, len(kinds) + 10), max(args.timeout, 900.0))
    _summary("own", r)
    bad += (not r["ok"]) or r["proved"] != r["statements"] or r["statements"] == 0

    # 2. the correspondence streams' own batches, as the thorough tier will record them
    if not args.no_streams:
        want = {x for x in args.streams.split(",") if x}
        for mod, arg in STREAMS:
            if want and mod not in want:
                continue
            try:
                m = importlib.import_module(mod)
                common.DRIVER_SAMPLES.clear()
                sr = m.run("quick", common.Budget(args.stream_budget), common.rng(f"kernelcheck:{mod}"), arg)
            except Exception as e:      # noqa: BLE001
                print(f"[{mod}/{arg}] stream not run: {type(e).__name__}: {e}")
                continue
            batches = list(common.DRIVER_SAMPLES)
            print(f"{mod}({arg}): {sr.evaluations} cases, {len(sr.disagreements)} disagreements, "
                  f"{len(batches)} recorded batch(es), {sum(len(b[0]) for b in batches)} lines")
            r = check(batches, args.max, 300.0)
            _summary(f"{mod}/{arg}", r)
            print(f"    {r['candidates']} statements could be made of the batches")
            bad += (not r["ok"]) or r["proved"] != r["statements"] or r["statements"] == 0

    # 3. not vacuous: flip one digit of an observed answer -> the kernel must refute exactly that statement
    corrupted, originals = [], []
    for kind in DEMO_KINDS:
        done = False
        for c in [c for c in cands if c.kind == kind and c.cost < 20][:8]:
            got = corrupt(own, c)
            if got is None:
                continue
            ln, ans, ans2, cc = got
            print(f"corrupting [{c.kind} n={c.n}]  {ln[:110]}\n     observed: {ans[-110:]}\n     flipped : {ans2[-110:]}")
            corrupted.append(cc)
            originals.append(c)
            done = True
            break
        if not done:
            print(f"corruption demo: no statement of kind {kind} could be corrupted")
            bad += 1
    r = check_candidates(originals + corrupted, max(args.timeout, 900.0))
    r["failed"] = []          # listed one by one below
    _summary("corrupted", r)
    ok_demo = r["proved"] == len(originals) and r["refuted"] == len(corrupted) and r["n_failed"] == len(corrupted) and corrupted
    print(f"corruption demo: {len(originals)} originals, {r['proved']} proved; {len(corrupted)} flipped answers, {r['refuted']} refuted by the kernel:",
          "as expected" if ok_demo else "UNEXPECTED")
    bad += not ok_demo
    print("self-test", "FAILED" if bad else "passed")
    return 1 if bad else 0


if __name__ == "__main__":
    sys.exit(main(sys.argv[1:]))
