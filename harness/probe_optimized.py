"""Probe run in a FRESH interpreter started with `python -O` (assert statements compiled away) and, for comparison, without:
the properties do not depend on how the interpreter was started.  Prints one line `PROBE <json list of failures>`.

  trajectory : evaluate() with the deterministic solvers on small hidden games — the recorded ids are distinct explorable
               coalitions and the gap column is the fresh recomputation of that trajectory (C12)
  solvers    : from a position with revealed coalitions, next_step of every registered solver leaves the environment as it
               found it and returns a valid action; greedy / greedy_worst return an action with extremal immediate reward (C13)
"""
import json
import sys

import numpy as np


def main(mode: str, seed: int) -> list:
    from incomplete_cooperative.bounds import BOUNDS
    from incomplete_cooperative.coalitions import Coalition, minimal_game_coalitions
    from incomplete_cooperative.evaluation import evaluate
    from incomplete_cooperative.game import IncompleteCooperativeGame
    from incomplete_cooperative.icg_gym import ICG_Gym
    from incomplete_cooperative.norms import l1_norm
    from incomplete_cooperative.solvers import SOLVERS
    rng = np.random.default_rng(seed)
    bad = []
    n = 4
    N = 2 ** n
    minimal = {0, N - 1} | {1 << i for i in range(n)}
    explorable = [c for c in range(N) if c not in minimal]

    def table():
        w = rng.integers(1, 6, size=n)
        return np.array([float(sum(w[i] for i in range(n) if c >> i & 1) ** 2) for c in range(N)])

    def full(t):
        g = IncompleteCooperativeGame(n)
        g.set_values(t)
        return g

    def fresh_gap(t, known):
        g = IncompleteCooperativeGame(n, BOUNDS["superadditive_cached"])
        ks = sorted(known)
        g.set_known_values([float(t[k]) for k in ks], [Coalition(k) for k in ks])
        g.compute_bounds()
        return float(l1_norm(g))

    def make_env(t, limit=None):
        return ICG_Gym(IncompleteCooperativeGame(n, BOUNDS["superadditive_cached"]), lambda: full(t), minimal_game_coalitions(n), l1_norm,
                       done_after_n_actions=limit)
    def mk_solver(name):
        import types
        try:
            return SOLVERS[name]()
        except TypeError:
            return SOLVERS[name](types.SimpleNamespace(seed=seed))
    if mode == "game":
        # reveal / un-reveal / compute on the game object itself (C01, C17): a revealed coalition is known with lower = upper = value,
        # an un-revealed one is unknown again, the bounds contain the true value
        t_pos = table()
        t_neg = np.array([float(bin(c).count("1") ** 2 - 9 * bin(c).count("1")) for c in range(N)])      # convex, every value < 0
        for comp, t in [(c_, t_) for c_ in ("superadditive", "superadditive_cached") for t_ in (t_pos, t_neg)]:
            g = IncompleteCooperativeGame(n, BOUNDS[comp])
            ks = sorted(minimal)
            g.set_known_values([float(t[k]) for k in ks], [Coalition(k) for k in ks])
            pair, triple = explorable[0], [c for c in explorable if bin(c).count("1") == 3][0]
            g.reveal_value(float(t[pair]), Coalition(pair))
            g.compute_bounds()
            g.reveal_value(float(t[triple]), Coalition(triple))
            g.unreveal_value(Coalition(pair))
            g.compute_bounds()
            kn = [bool(x) for x in g.are_values_known()]
            lo, hi = np.array(g.get_lower_bounds()), np.array(g.get_upper_bounds())
            if not kn[triple] or lo[triple] != t[triple] or hi[triple] != t[triple]:
                bad.append(f"{comp}: coalition {triple} was revealed with value {t[triple]} but is known={kn[triple]} with interval [{lo[triple]}, {hi[triple]}]")
            if kn[pair]:
                bad.append(f"{comp}: coalition {pair} was un-revealed but is still known")
            if kn != [c in minimal or c == triple for c in range(N)]:
                bad.append(f"{comp}: known coalitions are not minimal + the revealed one")
            if not (np.all(lo <= t) and np.all(t <= hi)):
                bad.append(f"{comp}: the bounds do not contain the true game")
        return bad
    if mode == "trajectory":
        for solver in ("largest", "greedy"):
            t = table()
            limit = 4
            e, a = evaluate(mk_solver(solver).next_step, lambda: make_env(t, limit), 2, limit, l1_norm, 1)
            for j in range(2):
                ids = [int(x) for x in a[:, j]]
                if len(set(ids)) != len(ids) or not set(ids) <= set(explorable):
                    bad.append(f"{solver}: recorded ids {ids} are not distinct explorable coalitions")
                    continue
                known = set(minimal)
                want = [fresh_gap(t, known)]
                for c in ids:
                    known.add(c)
                    want.append(fresh_gap(t, known))
                if [float(x) for x in e[:, j]] != want:
                    bad.append(f"{solver}: gap column {[float(x) for x in e[:, j]]} is not the gaps {want} of the recorded reveals {ids}")
    else:
        for solver in sorted(SOLVERS):
            t = table()
            env = make_env(t)
            env.reset()
            for c in (explorable[2], explorable[5]):
                env.step(explorable.index(c))
            before = (np.array(env.incomplete_game.are_values_known()).copy(), np.array(env.incomplete_game.get_lower_bounds()).copy(),
                      np.array(env.incomplete_game.get_upper_bounds()).copy(), env.steps_taken)
            act = int(mk_solver(solver).next_step(env))
            after = (np.array(env.incomplete_game.are_values_known()), np.array(env.incomplete_game.get_lower_bounds()),
                     np.array(env.incomplete_game.get_upper_bounds()), env.steps_taken)
            if not all(np.array_equal(x, y) for x, y in zip(before[:3], after[:3])) or before[3] != after[3]:
                bad.append(f"{solver}: next_step changed the environment (known flags / bounds / step counter)")
                continue
            mask = [bool(x) for x in env.action_masks()]
            if not (0 <= act < len(mask) and mask[act]):
                bad.append(f"{solver}: next_step returned action {act}, which is not a valid action")
                continue
            if solver in ("greedy", "greedy_worst"):
                rewards = {}
                for i, ok in enumerate(mask):
                    if ok:
                        rewards[i] = float(env.step(i)[1])
                        env.unstep(i)
                best = (max if solver == "greedy" else min)(rewards.values())
                if rewards[act] != best:
                    bad.append(f"{solver}: returned action {act} with immediate reward {rewards[act]}, the extremal one is {best}")
    return bad


if __name__ == "__main__":
    try:
        out = main(sys.argv[1], int(sys.argv[2]))
    except Exception as e:      # noqa: BLE001
        out = [f"raised {type(e).__name__}: {e}"]
    print("PROBE " + json.dumps({"optimize": sys.flags.optimize, "failures": out}))
