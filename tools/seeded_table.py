#!/usr/bin/env python3
"""Regenerate DESIGN.md's Appendix B (seeded changes) from seeded/*/meta.json."""
import json
import re
from pathlib import Path

root = Path(__file__).resolve().parent.parent
rows = []
for d in sorted((root / "seeded").iterdir()):
    m = json.load(open(d / "meta.json"))
    def one(s, n):
        s = re.sub(r"\s+", " ", str(s or "")).replace("|", "/")
        return s if len(s) <= n else s[: n - 1] + "…"
    rows.append(f"| `{d.name}` | {one(m['summary'], 260)} | {one(m['needs'], 220)} | {', '.join(m['caught_by']) or '—'} | {one(m.get('strengthened'), 240)} |")
text = """## Appendix B — seeded changes the checks were tested against

Each change below was written by a fresh sub-agent that worked in its own scratch worktree of /repo and saw the text of
one property — nothing of /verif's code, checks, evidence or results. Rounds a–d got exactly that. To get *different and
harder* changes the later rounds were told more, none of it about what the checks can detect: from round e on the prompt
listed one-line summaries of the changes earlier sub-agents had made for the same property ("do not repeat these"), and
from round g on it also said, in general terms, that a strong randomised differential tester with direct oracles exists
(small player counts, random histories, 1–16 processes, the usual value kinds) and asked for changes such a tester is
likely to miss (interactions of two features, thresholds, argument forms, aliasing, first-use order, numeric edge
values); round i–j added "also consider helper modules outside the obvious file". I kept a change only after confirming (tools/confirm_seeded.py) that its demonstration
passes on the clean tree and fails with the change, and that the existing suite still passes with it (pinned command;
the PPO-training modules, ~17 of the suite's 20 minutes, deselected). `seeded/<id>/` holds `patch.diff`, `demo.py`
and `meta.json` (what it needs to manifest, what was run, which checks fire). "Strengthened" says what the check was
missing when it first met the change; every such gap was closed by changing the input generator or adding an oracle
clause on the real code, never by loosening anything. Re-run with `tools/run_seeded.sh seeded/<id>`.

| id | change | needs, in order to manifest | caught by | strengthened |
|---|---|---|---|---|
""" + "\n".join(rows) + "\n"
p = root / "DESIGN.md"
s = p.read_text()
i = s.find("## Appendix B — seeded changes")
s = (s[:i] if i >= 0 else s.rstrip() + "\n\n\n") + text
p.write_text(s)
print(len(rows), "rows")
