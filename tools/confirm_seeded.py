#!/usr/bin/env python3
"""Confirm a seeded change before it is kept under /verif/seeded:
   usage: tools/confirm_seeded.py <dir with patch.diff, demo.py, meta.json> [--full]

 1. demo.py exits 0 on a clean scratch worktree of /repo's HEAD,
 2. the patch applies, and demo.py exits non-zero with it,
 3. the existing test-suite still passes with it: every test of /root/.vp/BASELINE.json's stable_pass list that is
    run must pass (default: everything except the PPO-training modules test_run_learn / test_icg_gym_linear, which take
    ~17 of the suite's 20 minutes; --full runs the pinned command unchanged).
Writes <dir>/confirm.json and prints a one-line verdict. The scratch worktree is removed afterwards.
"""
import json
import subprocess
import sys
import tempfile
import xml.etree.ElementTree as ET
from pathlib import Path

d = Path(sys.argv[1]).resolve()
full = "--full" in sys.argv
base = json.load(open("/root/.vp/BASELINE.json"))
stable = set(base["stable_pass"])
tree = Path(tempfile.mkdtemp(prefix="seedconf.", dir="/tmp"))
tree.rmdir()
out = {"dir": str(d), "full_suite": full}


def sh(cmd, cwd=None, timeout=7200):
    p = subprocess.run(cmd, shell=True, cwd=cwd, capture_output=True, text=True, timeout=timeout)
    return p.returncode, (p.stdout + p.stderr)


try:
    rc, o = sh(f"git -C /repo worktree add -q --detach {tree} HEAD")
    assert rc == 0, o
    rc0, o0 = sh(f"PYTHONPATH={tree} /venv/bin/python {d}/demo.py", cwd=tree, timeout=1800)
    out["demo_clean_rc"] = rc0
    rc, o = sh(f"git -C {tree} apply {d}/patch.diff")
    out["patch_applies"] = rc == 0
    if rc != 0:
        out["error"] = o[-500:]
    else:
        rc1, o1 = sh(f"PYTHONPATH={tree} /venv/bin/python {d}/demo.py", cwd=tree, timeout=1800)
        out["demo_patched_rc"] = rc1
        out["demo_patched_tail"] = o1[-400:]
        junit = tree / "junit.xml"
        sel = "" if full else "--deselect incomplete_cooperative/tests/test_run_learn.py --deselect incomplete_cooperative/tests/test_icg_gym_linear.py::TestICGGymLinear::test_ppo_maskable"
        rc, o = sh(f"/venv/bin/python -m pytest -q -p no:cacheprovider --timeout=900 --continue-on-collection-errors {sel} --junitxml={junit}",
                   cwd=tree, timeout=6000)
        out["pytest_tail"] = o.strip().splitlines()[-1] if o.strip() else ""
        passed, failed = set(), set()
        for tc in ET.parse(junit).getroot().iter("testcase"):
            tid = f"{tc.get('classname')}::{tc.get('name')}"
            bad = any(ch.tag in ("failure", "error") for ch in tc)
            skipped = any(ch.tag == "skipped" for ch in tc)
            if bad:
                failed.add(tid)
            elif not skipped:
                passed.add(tid)
        # BASELINE ids look like module::test or module.Class::test; normalise by dropping the class separator differences
        def norm(t):
            return t.replace("::", ".")
        stable_n = {norm(t) for t in stable}
        broken = sorted(t for t in failed if norm(t) in stable_n)
        out["stable_tests_run_and_passed"] = len([t for t in passed if norm(t) in stable_n])
        out["stable_tests_broken"] = broken
    ok = (out.get("demo_clean_rc") == 0 and out.get("patch_applies") and out.get("demo_patched_rc", 0) != 0
          and not out.get("stable_tests_broken", ["x"]))
    out["confirmed"] = bool(ok)
finally:
    sh(f"git -C /repo worktree remove --force {tree}")
(d / "confirm.json").write_text(json.dumps(out, indent=1))
print(f"{d.parent.name}/{d.name}: confirmed={out.get('confirmed')} demo clean rc={out.get('demo_clean_rc')} patched rc={out.get('demo_patched_rc')} "
      f"stable passed={out.get('stable_tests_run_and_passed')} broken={out.get('stable_tests_broken')} [{out.get('pytest_tail')}]")
