#!/usr/bin/env python3
"""Regenerate DESIGN.md section 5A (what each registered check consists of now) from harness/props.py, the Props files and
the committed evidence."""
import json
import sys
from pathlib import Path

root = Path(__file__).resolve().parent.parent
sys.path.insert(0, str(root / "harness"))
import leanside  # noqa: E402
import props  # noqa: E402
from manifest_text import LEVEL_TEXT  # noqa: E402

rows = []
for pid in sorted(props.PROPS):
    sp = props.PROPS[pid]
    mods = sp["lean"] if isinstance(sp["lean"], list) else [sp["lean"]]
    nthm = sum(len(leanside.theorems_of(m)) for m in mods)
    ev = {}
    f = root / "evidence" / f"{pid}.json"
    if f.exists():
        ev = json.load(open(f))
    cov = ev.get("coverage", {})
    streams = ", ".join(f"`{m}`/{a}" for m, a in sp["streams"])
    rows.append(f"| {pid} | {', '.join('`' + m.replace('ICG.', '') + '`' for m in mods)} | {nthm} | {streams} | "
                f"{cov.get('evaluations', '—')} / {cov.get('distinct_nontrivial', '—')} | {ev.get('wall_s', '—')} |")
text = """## 5A. What each registered check consists of now (generated: tools/design_tables.py)

Every check is `harness/check.py <id>`: proof side (build + forbidden-token grep over the import closure + `#print axioms`
of every theorem of the listed modules), then the listed correspondence streams (each also runs the property's own oracle
on the real code). Theorem names per property: docs/THEOREMS.md. "cases" are the quick-tier numbers of the last committed
evidence (evaluations / distinct non-trivial), "s" its wall time.

| id | Lean modules audited | theorems | streams (module/arg) | quick cases | s |
|---|---|---|---|---|---|
""" + "\n".join(rows) + "\n\n"
p = root / "DESIGN.md"
s = p.read_text()
a = s.find("## 5A. What each registered check")
b = s.find("## 6. When a proof or a correspondence breaks")
if a >= 0:
    s = s[:a] + text + s[b:]
else:
    s = s[:b] + text + "\n" + s[b:]
p.write_text(s)
print("ok", len(rows))
