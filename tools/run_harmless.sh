#!/bin/bash
# for every harmless refactoring: run the quick checks of the properties anchored in the touched files; all must stay silent
cd /verif
for d in /verif/harmless/*/; do
  k=$(basename $d)
  files=$(python3 -c "import json;print(' '.join(json.load(open('$d/meta.json'))['files']) if isinstance(json.load(open('$d/meta.json'))['files'],list) else json.load(open('$d/meta.json'))['files'])")
  ids=$(python3 - "$files" <<'PY'
import json,sys
files=sys.argv[1].split()
out=[]
for l in open('/verif/properties.jsonl'):
    p=json.loads(l)
    if any(any(f.endswith(a) or a.endswith(f) for a in p['anchors']['files']) for f in files): out.append(p['id'])
print(' '.join(out))
PY
)
  echo '{"property":"NONE"}' > $d/meta2.json
  tree=$(mktemp -d /tmp/harmrun.XXXXXX); rmdir $tree
  git -C /repo worktree add -q --detach $tree HEAD
  git -C $tree apply $d/patch.diff || { echo "$k: patch does not apply"; git -C /repo worktree remove --force $tree; continue; }
  for id in $ids; do
    out=$(VERIF_OUT=/tmp/harm_out/$k VERIF_REPO=$tree /venv/bin/python harness/check.py $id --tier quick --skip-lean 2>&1); rc=$?
    echo "harmless=$k files=[$files] check=$id rc=$rc $(echo "$out" | grep -E '^VIOLATION|^violation|held' | head -2 | tr '\n' ' ' | cut -c1-260)"
  done
  git -C /repo worktree remove --force $tree
done
