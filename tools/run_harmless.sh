#!/bin/bash
# usage: tools/run_harmless.sh [ids…]   (default: all)    env JOBS=4
# for every harmless refactoring: run the quick checks of the properties anchored in the touched files; all must stay silent
cd /verif
ids=${@:-$(ls harmless)}
one() {
  k=$1; d=/verif/harmless/$k
  files=$(python3 -c "import json;f=json.load(open('$d/meta.json'))['files'];print(' '.join(f) if isinstance(f,list) else f)")
  props=$(python3 - "$files" <<'PY'
import json,sys
files=sys.argv[1].split()
out=[]
for l in open('/verif/properties.jsonl'):
    p=json.loads(l)
    if any(any(f.endswith(a) or a.endswith(f) for a in p['anchors']['files']) for f in files): out.append(p['id'])
print(' '.join(out))
PY
)
  tree=$(mktemp -d /tmp/harmrun.XXXXXX); rmdir $tree
  git -C /repo worktree add -q --detach $tree HEAD
  git -C $tree apply $d/patch.diff || { echo "harmless=$k: patch does not apply"; git -C /repo worktree remove --force $tree; return; }
  for id in $props; do
    out=$(VERIF_SEED=${VERIF_SEED:-0} VERIF_OUT=/tmp/harm_out/$k VERIF_REPO=$tree /venv/bin/python harness/check.py $id --tier quick --skip-lean 2>&1); rc=$?
    echo "harmless=$k files=[$files] check=$id rc=$rc $(echo "$out" | grep -E '^VIOLATION|^violation|held|infrastructure' | head -2 | tr '\n' ' ' | cut -c1-260)"
  done
  git -C /repo worktree remove --force $tree
}
export -f one
printf "%s\n" $ids | xargs -P ${JOBS:-4} -I{} bash -c 'one {}'
