#!/usr/bin/env python3
"""Re-run the quick checks against a kept seeded change and record the outcome in its meta.json:
   usage: tools/mark_caught.py <seeded id, e.g. C01-i> [checks …] --note "what had to be strengthened"
(the checks default to the property the change breaks)."""
import json
import re
import subprocess
import sys
from pathlib import Path

args = sys.argv[1:]
note = None
if "--note" in args:
    i = args.index("--note")
    note = args[i + 1]
    args = args[:i] + args[i + 2:]
sid, checks = args[0], args[1:]
d = Path("/verif/seeded") / sid
m = json.load(open(d / "meta.json"))
checks = checks or [m["property"]]
out = subprocess.run(["/verif/tools/run_seeded.sh", str(d), *checks], capture_output=True, text=True).stdout
results = {}
for line in out.splitlines():
    mm = re.search(r"check=(\S+) rc=(\d+)(.*)", line)
    if mm:
        txt = mm.group(3).strip()
        txt = re.sub(r"KNOWN-FINDING:.*?(?=VIOLATION|$)", "", txt).strip()
        results[mm.group(1)] = {"rc": int(mm.group(2)), "output": txt[:400]}
m["checks_run"] = {"command": f"tools/run_seeded.sh seeded/{sid} {' '.join(checks)}", "results": results}
m["caught_by"] = sorted(k for k, v in results.items() if v["rc"] == 1)
if note is not None:
    m["strengthened"] = note
(d / "meta.json").write_text(json.dumps(m, indent=1, ensure_ascii=False))
print(sid, "caught_by", m["caught_by"], {k: v["output"][:140] for k, v in results.items()})
