#!/usr/bin/env python3
"""Regression over every kept seeded change: apply it to a scratch worktree, run the quick checks recorded in its meta.json
(`caught_by`; the property's own check when none is recorded) and report the changes no recorded check fires on any more.
   usage: tools/regress_seeded.py [--jobs 3] [--seeds 0] [ids …]
With several seeds (e.g. --seeds 0,1,2) a change counts as caught when a check fires for at least one seed; the per-seed outcome
is printed, so flaky detection shows."""
import json
import os
import subprocess
import sys
import tempfile
from concurrent.futures import ThreadPoolExecutor
from pathlib import Path

args = sys.argv[1:]
jobs, seeds = 3, ["0"]
if "--jobs" in args:
    i = args.index("--jobs"); jobs = int(args[i + 1]); args = args[:i] + args[i + 2:]
if "--seeds" in args:
    i = args.index("--seeds"); seeds = args[i + 1].split(","); args = args[:i] + args[i + 2:]
root = Path("/verif/seeded")
ids = args or sorted(p.name for p in root.iterdir())


def one(sid: str):
    d = root / sid
    m = json.load(open(d / "meta.json"))
    checks = m.get("caught_by") or [m["property"]]
    tree = Path(tempfile.mkdtemp(prefix="seedreg.", dir="/tmp"))
    tree.rmdir()
    subprocess.run(["git", "-C", "/repo", "worktree", "add", "-q", "--detach", str(tree), "HEAD"], check=True)
    out = {}
    try:
        if subprocess.run(["git", "-C", str(tree), "apply", str(d / "patch.diff")]).returncode != 0:
            return sid, checks, {"patch": "does not apply"}, False
        for seed in seeds:
            for c in checks:
                env = dict(os.environ, VERIF_SEED=seed, VERIF_OUT=f"/tmp/seedreg_out/{sid}", VERIF_REPO=str(tree))
                p = subprocess.run(["/venv/bin/python", "harness/check.py", c, "--tier", "quick", "--skip-lean"], cwd="/verif",
                                   capture_output=True, text=True, env=env)
                out[f"{c}@{seed}"] = p.returncode
    finally:
        subprocess.run(["git", "-C", "/repo", "worktree", "remove", "--force", str(tree)])
    return sid, checks, out, any(v == 1 for v in out.values())


with ThreadPoolExecutor(max_workers=jobs) as ex:
    missed = []
    for sid, checks, out, ok in ex.map(one, ids):
        flaky = ok and any(v != 1 for v in out.values())
        print(f"{sid}: {'caught' if ok else 'MISSED'}{' (not by every check/seed)' if flaky else ''} {out}", flush=True)
        if not ok:
            missed.append(sid)
print("MISSED:", missed)
