#!/bin/bash
# usage: tools/run_seeded.sh <seeded dir (with patch.diff, meta.json)> [check ids…]   (env SEED_INPLACE=1: apply to /repo itself)
# Applies the seeded change to a scratch worktree of /repo (or to /repo with SEED_INPLACE=1), runs the quick checks of the
# property it breaks (or the given ids) against it, prints one line per check, and removes / undoes the change.
set -u
d=$(realpath "$1"); shift
prop=$(python3 -c "import json,sys;print(json.load(open('$d/meta.json'))['property'])")
ids=${@:-$prop}
if [ "${SEED_INPLACE:-0}" = 1 ]; then
  tree=/repo; git -C /repo apply "$d/patch.diff" || { echo "patch does not apply"; exit 2; }
else
  tree=$(mktemp -d /tmp/seedrun.XXXXXX); rmdir "$tree"
  git -C /repo worktree add -q --detach "$tree" HEAD || exit 2
  git -C "$tree" apply "$d/patch.diff" || { echo "patch does not apply"; git -C /repo worktree remove --force "$tree"; exit 2; }
fi
for id in $ids; do
  out=$(cd /verif && VERIF_OUT=/tmp/seedrun_out VERIF_REPO=$tree /venv/bin/python harness/check.py $id --tier quick --skip-lean 2>&1); rc=$?
  line=$(echo "$out" | grep -E "^VIOLATION|held|KNOWN-FINDING" | tr '\n' ' ')
  what=$(echo "$out" | grep -E "^violation:" | head -1 | cut -c1-200)
  echo "seeded=$(basename $(dirname $d))/$(basename $d) check=$id rc=$rc $line $what"
done
if [ "${SEED_INPLACE:-0}" = 1 ]; then git -C /repo checkout -- .; else git -C /repo worktree remove --force "$tree"; fi
