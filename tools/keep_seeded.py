#!/usr/bin/env python3
"""Keep a confirmed seeded change under /verif/seeded/<Cxx>-<tag>/:
   usage: tools/keep_seeded.py <src dir> [--note "what had to be strengthened"] [--checks C01 C03 …]

Requires <src>/confirm.json with confirmed=true (tools/confirm_seeded.py). Runs the quick check(s) against the change
(scratch worktree, VERIF_REPO) and records which fire, then copies patch.diff, demo.py and a merged meta.json."""
import json
import re
import shutil
import subprocess
import sys
from pathlib import Path

src = Path(sys.argv[1]).resolve()
note = ""
checks = []
args = sys.argv[2:]
while args:
    a = args.pop(0)
    if a == "--note":
        note = args.pop(0)
    elif a == "--checks":
        checks = args
        args = []
meta = json.load(open(src / "meta.json"))
conf = json.load(open(src / "confirm.json"))
if not conf.get("confirmed"):
    print("not confirmed:", conf)
    sys.exit(1)
prop = meta["property"]
checks = checks or [prop]
out = subprocess.run(["/verif/tools/run_seeded.sh", str(src), *checks], capture_output=True, text=True).stdout
results = {}
for line in out.splitlines():
    m = re.search(r"check=(\S+) rc=(\d+)(.*)", line)
    if m:
        results[m.group(1)] = {"rc": int(m.group(2)), "output": m.group(3).strip()[:400]}
dst = Path("/verif/seeded") / f"{prop}-{src.name}"
dst.mkdir(parents=True, exist_ok=True)
shutil.copy(src / "patch.diff", dst / "patch.diff")
shutil.copy(src / "demo.py", dst / "demo.py")
merged = {
    "property": prop,
    "summary": meta.get("summary"),
    "needs": meta.get("needs"),
    "author_tests_run": meta.get("tests_run"),
    "demo": meta.get("demo"),
    "confirmed_by_me": {
        "how": "tools/confirm_seeded.py: demo.py exits 0 on a clean scratch worktree of /repo HEAD and non-zero with the patch; the existing "
               "suite (pinned command; PPO-training modules test_run_learn / test_ppo_maskable deselected unless full_suite) run with the patch: "
               "no test of BASELINE.json's stable_pass list fails",
        **{k: conf[k] for k in ("demo_clean_rc", "demo_patched_rc", "full_suite", "stable_tests_run_and_passed", "stable_tests_broken", "pytest_tail") if k in conf},
    },
    "checks_run": {"command": f"tools/run_seeded.sh {dst.relative_to('/verif')} {' '.join(checks)}", "results": results},
    "caught_by": sorted(k for k, v in results.items() if v["rc"] == 1),
    "strengthened": note,
}
(dst / "meta.json").write_text(json.dumps(merged, indent=1))
print(dst.name, "caught_by", merged["caught_by"], "| note:", note[:80])
