#!/usr/bin/env python3
"""Systematic mutation campaign against the registered checks (development tool, not a registered check).

  tools/mutate.py list  <repo-relative file>                 list the mutation sites of a file
  tools/mutate.py run   [--files f …] [--max N] [--jobs J] [--out DIR] [--seed S] [--props C01 …] [--tests]

Every mutant is a one-token / one-statement change of an anchored source file (comparison, arithmetic and bit operators,
boolean connectives, small integer constants, max/min and friends, a dropped `not`, a deleted statement).  It is applied
to a scratch copy of /repo's package under DIR (never to /repo), the quick checks of every property anchored in that
file are run against the copy (`VERIF_REPO`, `--skip-lean`, evidence redirected with `VERIF_OUT`) until one fires, and a
line is appended to DIR/results.jsonl: {file, line, kind, before, after, diff, caught_by | null, tests: "pass"/"fail"/null}.
With --tests the package's own related test modules are run on every SURVIVOR (a mutant no check caught), so that
survivors the existing suite already kills are told apart from the ones that matter (survive the suite AND the checks).
Survivors are either equivalent mutants (no observable change) or holes in the streams; DESIGN.md Appendix D reports the
triage.
"""
from __future__ import annotations

import argparse
import ast
import difflib
import json
import os
import random
import shutil
import subprocess
import sys
import time
from concurrent.futures import ThreadPoolExecutor
from pathlib import Path

VERIF = Path(__file__).resolve().parent.parent
REPO = Path("/repo")

CMP = {ast.Lt: ["<="], ast.LtE: ["<"], ast.Gt: [">="], ast.GtE: [">"], ast.Eq: ["!="], ast.NotEq: ["=="],
       ast.Is: ["is not"], ast.IsNot: ["is"], ast.In: ["not in"], ast.NotIn: ["in"]}
CMP_TXT = {ast.Lt: "<", ast.LtE: "<=", ast.Gt: ">", ast.GtE: ">=", ast.Eq: "==", ast.NotEq: "!=", ast.Is: "is",
           ast.IsNot: "is not", ast.In: "in", ast.NotIn: "not in"}
BIN = {ast.Add: ["-"], ast.Sub: ["+"], ast.Mult: ["+"], ast.FloorDiv: ["/"], ast.Div: ["*"], ast.BitOr: ["&", "^"],
       ast.BitAnd: ["|"], ast.BitXor: ["|", "&"], ast.LShift: [">>"], ast.RShift: ["<<"], ast.Pow: ["*"], ast.Mod: ["//"]}
BIN_TXT = {ast.Add: "+", ast.Sub: "-", ast.Mult: "*", ast.FloorDiv: "//", ast.Div: "/", ast.BitOr: "|", ast.BitAnd: "&",
           ast.BitXor: "^", ast.LShift: "<<", ast.RShift: ">>", ast.Pow: "**", ast.Mod: "%"}
NAME_SWAP = {"max": "min", "min": "max", "any": "all", "all": "any", "argmax": "argmin", "argmin": "argmax",
             "amax": "amin", "amin": "amax", "maximum": "minimum", "minimum": "maximum", "logical_and": "logical_or",
             "logical_or": "logical_and", "sum": "max", "True": "False", "False": "True", "floor": "ceil", "ceil": "floor",
             "get_lower_bounds": "get_upper_bounds", "get_upper_bounds": "get_lower_bounds",
             "get_lower_bound": "get_upper_bound", "get_upper_bound": "get_lower_bound",
             "set_lower_bound": "set_upper_bound", "set_upper_bound": "set_lower_bound",
             "sub_coalitions": "super_coalitions", "super_coalitions": "sub_coalitions"}

TESTS_FOR = {
    "bounds.py": ["test_bounds.py", "test_game.py", "test_gym.py", "test_gameplay.py"],
    "game.py": ["test_game.py", "test_bounds.py", "test_gym.py", "test_normalize.py", "test_gameplay.py"],
    "coalitions.py": ["test_coalitions.py", "test_game.py", "test_bounds.py", "test_shapley.py", "test_gym.py", "test_regret.py"],
    "coalition_ids.py": ["test_coalition_ids.py", "test_bounds.py", "test_game_properties.py"],
    "functoolz.py": ["test_coalitions.py", "test_bounds.py"],
    "shapley.py": ["test_shapley.py", "test_exploitability.py"],
    "exploitability.py": ["test_exploitability.py", "test_gym.py"],
    "norms.py": ["test_norms.py"],
    "icg_gym.py": ["test_gym.py", "test_solvers.py", "test_icg_gym_linear.py::TestICGGymLinear", "test_run.py"],
    "icg_gym_linear.py": ["test_icg_gym_linear.py"],
    "normalize.py": ["test_normalize.py", "test_gym.py", "test_graph_game.py"],
    "graph_game.py": ["test_graph_game.py", "test_normalize.py", "test_generators.py"],
    "generators.py": ["test_generators.py", "test_graph_game.py", "test_run.py"],
    "game_properties.py": ["test_game_properties.py", "test_generators.py"],
    "supermodularity_check.py": ["test_meta_game.py", "test_game_properties.py"],
    "gameplay.py": ["test_gameplay.py", "test_run_best_states.py"],
    "meta_game.py": ["test_meta_game.py"],
    "evaluation.py": ["test_run.py", "test_solvers.py"],
    "regret.py": ["test_regret.py"],
    "protocols.py": ["test_game.py"],
    "greedy.py": ["test_solvers.py", "test_run.py"],
    "largest_coalition.py": ["test_solvers.py"],
    "random.py": ["test_solvers.py"],
    "__init__.py": ["test_solvers.py"],
    "solve.py": ["test_run.py"],
    "model.py": ["test_run.py", "test_main.py"],
    "save.py": ["test_run_save.py", "test_run.py"],
    "best_states.py": ["test_run_best_states.py"],
    "eval.py": ["test_run.py"],
}


def anchor_map() -> dict[str, list[str]]:
    out: dict[str, list[str]] = {}
    for line in (VERIF / "properties.jsonl").read_text().splitlines():
        if line.strip():
            p = json.loads(line)
            for f in p["anchors"]["files"]:
                out.setdefault(f, []).append(p["id"])
    return out


def offset(lines: list[str], lineno: int, col: int) -> int:
    """byte-accurate offset (ast columns are utf-8 byte offsets) → index in the text"""
    pre = sum(len(ln) for ln in lines[:lineno - 1])
    return pre + len(lines[lineno - 1].encode()[:col].decode())


class Site:
    def __init__(self, kind, lineno, start, end, before, after):
        self.kind, self.lineno, self.start, self.end, self.before, self.after = kind, lineno, start, end, before, after


def sites_of(src: str) -> list[Site]:
    tree = ast.parse(src)
    lines = src.splitlines(keepends=True)
    out: list[Site] = []

    def off(node, end=False):
        return offset(lines, node.end_lineno if end else node.lineno, node.end_col_offset if end else node.col_offset)

    def between(a_end: int, b_start: int, token: str):
        seg = src[a_end:b_start]
        i = seg.find(token)
        return (a_end + i, a_end + i + len(token)) if i >= 0 else None

    docstrings = set()
    for node in ast.walk(tree):
        if isinstance(node, (ast.FunctionDef, ast.ClassDef, ast.Module, ast.AsyncFunctionDef)) and node.body \
                and isinstance(node.body[0], ast.Expr) and isinstance(getattr(node.body[0], "value", None), ast.Constant) \
                and isinstance(node.body[0].value.value, str):
            docstrings.add(id(node.body[0]))
    # skip annotations and decorators: collect their node ids
    skip = set()
    for node in ast.walk(tree):
        for fld in ("annotation", "returns"):
            a = getattr(node, fld, None)
            if a is not None:
                skip.update(id(x) for x in ast.walk(a))
        if isinstance(node, ast.AnnAssign):
            skip.update(id(x) for x in ast.walk(node.annotation))

    for node in ast.walk(tree):
        if id(node) in skip:
            continue
        if isinstance(node, ast.Compare):
            left = node.left
            for op, right in zip(node.ops, node.comparators):
                t = CMP_TXT.get(type(op))
                if t:
                    span = between(off(left, True), off(right), t)
                    if span:
                        for rep in CMP.get(type(op), []):
                            out.append(Site("cmp", node.lineno, span[0], span[1], t, rep))
                left = right
        elif isinstance(node, ast.BinOp):
            t = BIN_TXT.get(type(node.op))
            if t:
                span = between(off(node.left, True), off(node.right), t)
                if span:
                    for rep in BIN.get(type(node.op), []):
                        out.append(Site("bin", node.lineno, span[0], span[1], t, rep))
        elif isinstance(node, ast.AugAssign):
            t = BIN_TXT.get(type(node.op))
            if t:
                span = between(off(node.target, True), off(node.value), t + "=")
                if span:
                    for rep in BIN.get(type(node.op), []):
                        out.append(Site("aug", node.lineno, span[0], span[1], t + "=", rep + "="))
        elif isinstance(node, ast.BoolOp):
            t = "and" if isinstance(node.op, ast.And) else "or"
            for a, b in zip(node.values, node.values[1:]):
                span = between(off(a, True), off(b), t)
                if span:
                    out.append(Site("bool", node.lineno, span[0], span[1], t, "or" if t == "and" else "and"))
        elif isinstance(node, ast.UnaryOp) and isinstance(node.op, ast.Not):
            s = off(node)
            if src[s:s + 3] == "not":
                out.append(Site("not", node.lineno, s, s + 4 if src[s + 3] == " " else s + 3, "not ", ""))
        elif isinstance(node, ast.UnaryOp) and isinstance(node.op, ast.USub) and not isinstance(node.operand, ast.Constant):
            s = off(node)
            if src[s] == "-":
                out.append(Site("neg", node.lineno, s, s + 1, "-", ""))
        elif isinstance(node, ast.Constant) and isinstance(node.value, (int,)) and not isinstance(node.value, bool):
            s, e = off(node), off(node, True)
            txt = src[s:e]
            if txt.isdigit() and node.value <= 64:
                for rep in {node.value + 1, max(0, node.value - 1)} - {node.value}:
                    out.append(Site("const", node.lineno, s, e, txt, str(rep)))
        elif isinstance(node, ast.Constant) and isinstance(node.value, bool):
            s, e = off(node), off(node, True)
            out.append(Site("bool-const", node.lineno, s, e, src[s:e], str(not node.value)))
        elif isinstance(node, ast.Name) and node.id in NAME_SWAP and isinstance(node.ctx, ast.Load):
            s, e = off(node), off(node, True)
            out.append(Site("name", node.lineno, s, e, node.id, NAME_SWAP[node.id]))
        elif isinstance(node, ast.Attribute) and node.attr in NAME_SWAP:
            e = off(node, True)
            s = e - len(node.attr)
            if src[s:e] == node.attr:
                out.append(Site("attr", node.lineno, s, e, node.attr, NAME_SWAP[node.attr]))
        elif isinstance(node, (ast.Expr, ast.Assign, ast.AugAssign, ast.Return)) and id(node) not in docstrings:
            if isinstance(node, ast.Return) and node.value is None:
                continue
            if isinstance(node, ast.Expr) and not isinstance(node.value, ast.Call):
                continue
            if isinstance(node, (ast.Expr, ast.AugAssign)) or (isinstance(node, ast.Assign) and any(
                    isinstance(t, (ast.Subscript, ast.Attribute)) for t in node.targets)):
                s, e = off(node), off(node, True)
                out.append(Site("del-stmt", node.lineno, s, e, src[s:e], "pass"))
        elif isinstance(node, ast.Slice):
            for part, name in ((node.lower, "lo"), (node.upper, "hi")):
                if isinstance(part, ast.Constant) and isinstance(part.value, int):
                    pass            # covered by const
    # de-duplicate identical edits
    seen, uniq = set(), []
    for s in out:
        k = (s.start, s.end, s.after)
        if k not in seen:
            seen.add(k)
            uniq.append(s)
    uniq.sort(key=lambda s: (s.lineno, s.start, s.after))
    return uniq


def mutate(src: str, s: Site) -> str | None:
    new = src[:s.start] + s.after + src[s.end:]
    try:
        ast.parse(new)
    except SyntaxError:
        return None
    return new


def sh(cmd: str, env: dict | None = None, timeout: float = 1800, cwd: str | None = None) -> tuple[int, str]:
    e = dict(os.environ)
    e.update(env or {})
    try:
        p = subprocess.run(cmd, shell=True, capture_output=True, text=True, timeout=timeout, env=e, cwd=cwd)
        return p.returncode, p.stdout + p.stderr
    except subprocess.TimeoutExpired:
        return 124, "timeout"


def one(job):
    idx, rel, site, new_src, outdir, props, do_tests, seed = job
    w = outdir / f"w{idx}"
    if w.exists():
        shutil.rmtree(w)
    w.mkdir(parents=True)
    shutil.copytree(REPO / "incomplete_cooperative", w / "incomplete_cooperative",
                    ignore=shutil.ignore_patterns("__pycache__"))
    for extra in ("setup.cfg", "setup.py"):
        if (REPO / extra).exists():
            shutil.copy(REPO / extra, w / extra)
    old_src = (w / rel).read_text()
    (w / rel).write_text(new_src)
    diff = "".join(difflib.unified_diff(old_src.splitlines(True), new_src.splitlines(True), "a/" + rel, "b/" + rel, n=1))
    rec = {"idx": idx, "file": rel, "line": site.lineno, "kind": site.kind, "before": site.before[:80], "after": site.after,
           "diff": diff, "caught_by": None, "checks": {}, "tests": None}
    t0 = time.time()
    # import smoke: a mutant that cannot be imported is not interesting
    rc, o = sh(f"/venv/bin/python -c 'import incomplete_cooperative.{Path(rel).stem if rel.count('/') == 1 else 'run.' + Path(rel).stem if '/run/' in rel else 'solvers.' + Path(rel).stem}'",
               {"PYTHONPATH": str(w), "PYTHONDONTWRITEBYTECODE": "1"}, cwd=str(w), timeout=120)
    if rc != 0:
        rec["caught_by"] = "import-error"
    else:
        for p in props:
            rc, o = sh(f"/venv/bin/python harness/check.py {p} --tier quick --skip-lean",
                       {"VERIF_REPO": str(w), "VERIF_OUT": str(w / "out"), "VERIF_SEED": str(seed)}, cwd=str(VERIF), timeout=1500)
            line = next((ln for ln in o.splitlines() if ln.startswith("VIOLATION")), "")
            what = next((ln for ln in o.splitlines() if ln.startswith("violation:")), "")[:200]
            rec["checks"][p] = {"rc": rc, "line": line, "what": what}
            if rc == 1:
                rec["caught_by"] = p
                break
            if rc not in (0, 1):
                rec["checks"][p]["tail"] = o[-600:]
    if rec["caught_by"] is None and do_tests:
        mods = TESTS_FOR.get(Path(rel).name, [])
        if mods:
            sel = " ".join("incomplete_cooperative/tests/" + m for m in mods)
            rc, o = sh(f"/venv/bin/python -m pytest -q -x -p no:cacheprovider --timeout=600 "
                       f"--deselect incomplete_cooperative/tests/test_icg_gym_linear.py::TestICGGymLinear::test_ppo_maskable "
                       f"-k 'not Convex and not convex and not cached_nocached' {sel}",
                       {"PYTHONPATH": str(w), "PYTHONDONTWRITEBYTECODE": "1"}, cwd=str(w), timeout=2400)
            rec["tests"] = "pass" if rc == 0 else "fail"
            rec["tests_tail"] = o.strip().splitlines()[-1][:200] if o.strip() else ""
    rec["wall_s"] = round(time.time() - t0, 1)
    shutil.rmtree(w, ignore_errors=True)
    with open(outdir / "results.jsonl", "a") as f:
        f.write(json.dumps(rec) + "\n")
    print(f"[{idx}] {rel}:{site.lineno} {site.kind} {site.before[:30]!r}->{site.after!r} caught_by={rec['caught_by']} tests={rec['tests']} {rec['wall_s']}s",
          flush=True)
    return rec


def main():
    ap = argparse.ArgumentParser()
    ap.add_argument("cmd", choices=["list", "run"])
    ap.add_argument("file", nargs="?")
    ap.add_argument("--files", nargs="*")
    ap.add_argument("--max", type=int, default=0, help="sample at most this many mutants per file (0 = all)")
    ap.add_argument("--jobs", type=int, default=6)
    ap.add_argument("--out", default="/tmp/mut")
    ap.add_argument("--seed", type=int, default=0)
    ap.add_argument("--props", nargs="*")
    ap.add_argument("--tests", action="store_true")
    ap.add_argument("--kinds", nargs="*")
    ap.add_argument("--lines", nargs="*", type=int, help="restrict to these source lines")
    a = ap.parse_args()
    amap = anchor_map()
    if a.cmd == "list":
        src = (REPO / a.file).read_text()
        for s in sites_of(src):
            print(f"{a.file}:{s.lineno} {s.kind:9} {s.before[:50]!r} -> {s.after!r}")
        return
    files = a.files or sorted(amap)
    rnd = random.Random(a.seed)
    outdir = Path(a.out)
    outdir.mkdir(parents=True, exist_ok=True)
    done = set()
    if (outdir / "results.jsonl").exists():
        for ln in (outdir / "results.jsonl").read_text().splitlines():
            r = json.loads(ln)
            done.add((r["file"], r["line"], r["kind"], r["before"], r["after"]))
    jobs = []
    idx = len(done)
    for rel in files:
        src = (REPO / rel).read_text()
        ss = sites_of(src)
        if a.kinds:
            ss = [s for s in ss if s.kind in a.kinds]
        if a.lines:
            ss = [s for s in ss if s.lineno in a.lines]
        if a.max and len(ss) > a.max:
            ss = rnd.sample(ss, a.max)
            ss.sort(key=lambda s: (s.lineno, s.start))
        props = a.props or amap.get(rel, [])
        for s in ss:
            if (rel, s.lineno, s.kind, s.before[:80], s.after) in done:
                continue
            new = mutate(src, s)
            if new is None:
                continue
            jobs.append((idx, rel, s, new, outdir, props, a.tests, a.seed))
            idx += 1
    print(f"{len(jobs)} mutants over {len(files)} files, {a.jobs} jobs", flush=True)
    with ThreadPoolExecutor(a.jobs) as ex:
        recs = list(ex.map(one, jobs))
    surv = [r for r in recs if r["caught_by"] is None]
    print(f"done: {len(recs)} mutants, {len(recs) - len(surv)} caught, {len(surv)} survivors "
          f"({sum(1 for r in surv if r['tests'] == 'pass')} of them also pass the related tests)")


if __name__ == "__main__":
    main()
