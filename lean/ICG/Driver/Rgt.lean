/-
  ICG.Driver.Rgt — line protocol of domain `rgt` (the regret minimiser, ICG.Model.Regret at `Rat`).

    rgt cup <m> <k>                               coalitions_up_to(m, k)                       → nat
    rgt metaids <n> <limit>                       metacoalition_ids_by_coalition_size          → nats | err
    rgt pidmap <n>                                get_coalition_player_id_map                  → ints
    rgt new <name> <n> <limit> <plus:0|1>         constructor, allocation policy of the current tree
    rgt new <name> <n> <limit> <plus> <tableLen> <storedLimit>
                                                  constructor with the observed allocation     → ok | err
    rgt info <name>                               n= m= limit= plus= V= R= tlen= it=
    rgt ranks <name>                              ids=<rank→id> inv=<id→rank at those ids>
    rgt table <name>                              the whole id→rank table
    rgt metaid <name> <coalitions>                get_metacoalition_id                         → nat | err
    rgt strategy <name> <metaId>                  regret_matching_strategy(int)                → rats | err
    rgt strategyc <name> <coalitions>             regret_matching_strategy(list)               → rats | err
    rgt avg <name> <coalitions>                   get_average_strategy                         → rats | err
    rgt iter <name> <terminal losses> <lists>     regret_min_iteration; lists `a,b;c,d;e` (`e` = empty list)
    rgt regret <name> / rgt cumstrat <name>       rows separated by `;`
    rgt saveload <name> <new> [<tableLen> <storedLimit>]
                                                  new := load(save(name)) (constructor re-run under the policy)
-/
import ICG.Model.Regret
import ICG.Driver.Proto
namespace ICG.Driver.Rgt
open ICG ICG.Proto ICG.Regret

abbrev State := List (String × RM Rat)
def init : State := []

def get? (s : State) (name : String) : Option (RM Rat) := (s.find? (·.1 == name)).map (·.2)
def put (s : State) (name : String) (t : RM Rat) : State := (name, t) :: s.filter (·.1 != name)

def showInts (l : List Int) : String := showList toString l
def showRows (l : List (List Rat)) : String :=
  if l.isEmpty then "-" else ";".intercalate (l.map showRats)

def parseLists? (s : String) : Option (List (List Nat)) :=
  if s = "-" || s = "" then some []
  else (s.splitOn ";").mapM (fun g => if g = "e" then some [] else parseNats? g)

def answer {β} (f : β → String) : Except Err β → String
  | .ok x => f x
  | .error e => toString e

def parsePolicy? : List String → Option Policy
  | [] => some Policy.current
  | [a, b] => do
    let a ← a.toNat?
    let b ← b.toNat?
    pure (Policy.explicit a b)
  | _ => none

def parseBool? (s : String) : Option Bool :=
  if s = "1" then some true else if s = "0" then some false else none

def withRM (s : State) (name : String) (f : RM Rat → String) : State × String :=
  match get? s name with
  | some rm => (s, f rm)
  | none => (s, "bad-op")

def handle (s : State) : List String → State × String
  | ["cup", m, k] =>
    match m.toNat?, k.toNat? with
    | some m, some k => (s, toString (coalitionsUpTo m k))
    | _, _ => (s, "bad-op")
  | ["metaids", n, limit] =>
    match n.toNat?, limit.toNat? with
    | some n, some limit => (s, answer showNats (metaIdsArr (numCoalitions n) limit))
    | _, _ => (s, "bad-op")
  | ["pidmap", n] =>
    match n.toNat? with
    | some n => (s, showInts (coalitionPlayerIdMap n))
    | _ => (s, "bad-op")
  | "new" :: name :: n :: limit :: plus :: pol =>
    match n.toNat?, limit.toNat?, parseBool? plus, parsePolicy? pol with
    | some n, some limit, some plus, some p =>
      match RM.new (α := Rat) p n limit plus with
      | .ok rm => (put s name rm, "ok")
      | .error e => (s, toString e)
    | _, _, _, _ => (s, "bad-op")
  | ["info", name] =>
    withRM s name (fun rm =>
      s!"n={rm.n} m={rm.m} limit={rm.limit} plus={if rm.plus then 1 else 0} V={rm.V} R={rm.R} tlen={rm.idToRank.size} it={rm.iteration}")
  | ["ranks", name] =>
    withRM s name (fun rm =>
      let inv := rm.rankToId.map (fun id => match rm.idToRank[id]? with | some r => toString r | none => "x")
      s!"ids={showNats rm.rankToId} inv={showList id inv}")
  | ["table", name] => withRM s name (fun rm => showNats rm.idToRank.toList)
  | ["metaid", name, cs] =>
    match parseNats? cs with
    | some cs => withRM s name (fun rm => answer toString (rm.getMetacoalitionId cs))
    | none => (s, "bad-op")
  | ["strategy", name, mid] =>
    match mid.toNat? with
    | some mid => withRM s name (fun rm => answer showRats (rm.regretMatching mid))
    | none => (s, "bad-op")
  | ["strategyc", name, cs] =>
    match parseNats? cs with
    | some cs => withRM s name (fun rm => answer showRats (rm.regretMatchingOf cs))
    | none => (s, "bad-op")
  | ["avg", name, cs] =>
    match parseNats? cs with
    | some cs => withRM s name (fun rm => answer showRats (rm.averageStrategy cs))
    | none => (s, "bad-op")
  | ["iter", name, term, lists] =>
    match parseRats? term, parseLists? lists, get? s name with
    | some term, some lists, some rm =>
      match rm.iterate term lists with
      | .ok rm' => (put s name rm', "ok")
      | .error e => (s, toString e)
    | _, _, _ => (s, "bad-op")
  | ["regret", name] => withRM s name (fun rm => showRows rm.regret)
  | ["cumstrat", name] => withRM s name (fun rm => showRows rm.strategy)
  | "saveload" :: name :: new :: pol =>
    match get? s name, parsePolicy? pol with
    | some rm, some p =>
      match RM.load p rm.save with
      | .ok rm' => (put s new rm', "ok")
      | .error e => (s, toString e)
    | _, _ => (s, "bad-op")
  | _ => (s, "bad-op")

end ICG.Driver.Rgt
