/-
  ICG.Driver.Rgt — line protocol of domain `rgt` (stub: to be filled in by the domain's owner).
-/
import ICG.Driver.Proto
namespace ICG.Driver.Rgt
open ICG ICG.Proto

abbrev State := Unit
def init : State := ()

def handle (s : State) : List String → State × String
  | _ => (s, "bad-op")

end ICG.Driver.Rgt
