/-
  ICG.Driver.Proto — line-protocol helpers shared by the driver's domains (import-free).
  Numbers travel as exact rationals `p/q` (or integers `p`); lists are comma separated; `-` is the
  empty list; `none` stands for Python `None`.
-/
import ICG.Model.Basic
namespace ICG.Proto

def parseRat? (s : String) : Option Rat :=
  match s.splitOn "/" with
  | [p] => p.toInt?.map (fun i => (i : Rat))
  | [p, q] => do
    let a ← p.toInt?
    let b ← q.toNat?
    if b = 0 then none else some (mkRat a b)
  | _ => none

def showRat (r : Rat) : String :=
  if r.den = 1 then toString r.num else s!"{r.num}/{r.den}"

def parseList? {β} (f : String → Option β) (s : String) : Option (List β) :=
  if s = "-" || s = "" then some [] else (s.splitOn ",").mapM f

def parseNats? (s : String) : Option (List Nat) := parseList? String.toNat? s
def parseRats? (s : String) : Option (List Rat) := parseList? parseRat? s

/-- `none` ↦ Python None, otherwise a list of naturals -/
def parseOptNats? (s : String) : Option (Option (List Nat)) :=
  if s = "none" then some none else (parseNats? s).map some

def showList {β} (f : β → String) (l : List β) : String :=
  if l.isEmpty then "-" else ",".intercalate (l.map f)

def showRats (l : List Rat) : String := showList showRat l
def showNats (l : List Nat) : String := showList toString l
def showBools (l : List Bool) : String := String.ofList (l.map (fun b => if b then '1' else '0'))

def showOptRat : Option Rat → String
  | some r => showRat r
  | none => "none"

def words (line : String) : List String :=
  (line.splitOn " ").filter (fun w => w ≠ "")

end ICG.Proto
