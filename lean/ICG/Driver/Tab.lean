/-
  ICG.Driver.Tab — line protocol for the value table and the bound computers (domain `tab`).
-/
import ICG.Model.Bounds
import ICG.Spec.Bounds
import ICG.Driver.Proto
namespace ICG.Driver.Tab
open ICG ICG.Proto

abbrev State := List (String × Table Rat)

def init : State := []

def get? (s : State) (name : String) : Option (Table Rat) := (s.find? (·.1 == name)).map (·.2)
def put (s : State) (name : String) (t : Table Rat) : State :=
  (name, t.compactT) :: s.filter (·.1 != name)

def dump (t : Table Rat) : String :=
  s!"K={showBools t.areValuesKnown} L={showRats t.getLowerBounds} U={showRats t.getUpperBounds}"

def parseComputer? (s : String) : Option Computer :=
  if s = "sa" then some .sa
  else if s = "sac" then some .sac
  else match s.splitOn ":" with
    | ["sam", r] => r.toNat?.map Computer.sam
    | _ => none

/-- apply a table-to-table operation that may raise -/
def upd (s : State) (name : String) (f : Table Rat → Except Err (Table Rat)) : State × String :=
  match get? s name with
  | none => (s, "bad-op")
  | some t =>
    match f t with
    | .ok t' => (put s name t', "ok")
    | .error e => (s, toString e)

def handle (s : State) : List String → State × String
  | ["new", name, n] =>
    match n.toNat? with
    | some n => (put s name (Table.init n), "ok")
    | none => (s, "bad-op")
  | ["set", name, c, v] =>
    match c.toNat?, parseRat? v with
    | some c, some v => upd s name (·.setValue v c)
    | _, _ => (s, "bad-op")
  | ["unset", name, c] =>
    match c.toNat? with
    | some c => upd s name (·.unsetValue c)
    | _ => (s, "bad-op")
  | ["reveal", name, c, v] =>
    match c.toNat?, parseRat? v with
    | some c, some v => upd s name (·.reveal v c)
    | _, _ => (s, "bad-op")
  | ["unreveal", name, c] =>
    match c.toNat? with
    | some c => upd s name (·.unreveal c)
    | _ => (s, "bad-op")
  | ["setlo", name, c, v] =>
    match c.toNat?, parseRat? v with
    | some c, some v => upd s name (·.setLowerBound v c)
    | _, _ => (s, "bad-op")
  | ["sethi", name, c, v] =>
    match c.toNat?, parseRat? v with
    | some c, some v => upd s name (·.setUpperBound v c)
    | _, _ => (s, "bad-op")
  | ["setvalues", name, cs, vals] =>
    match parseOptNats? cs, parseRats? vals with
    | some cs, some vals => upd s name (·.setValues vals cs)
    | _, _ => (s, "bad-op")
  | ["setknown", name, cs, vals] =>
    match parseOptNats? cs, parseRats? vals, get? s name with
    | some cs, some vals, some t =>
      match t.setKnownValues vals cs with
      | .ok t' => (put s name t', "ok")
      | .error (e, t0) => (put s name t0, toString e)
    | _, _, _ => (s, "bad-op")
  | ["bounds", name, which, cs, vals] =>
    match parseOptNats? cs, parseRats? vals with
    | some cs, some vals =>
      if which = "hi" then upd s name (·.setBounds true vals cs)
      else if which = "lo" then upd s name (·.setBounds false vals cs)
      else (s, "bad-op")
    | _, _ => (s, "bad-op")
  | ["copy", src, dst] =>
    match get? s src with
    | some t => (put s dst t, "ok")
    | none => (s, "bad-op")
  | ["neg", src, dst] =>
    match get? s src with
    | some t => (put s dst t.neg, "ok")
    | none => (s, "bad-op")
  | ["add", a, b, dst] =>
    match get? s a, get? s b with
    | some t, some u =>
      match t.add u with
      | .ok r => (put s dst r, "ok")
      | .error e => (s, toString e)
    | _, _ => (s, "bad-op")
  | ["eq", a, b] =>
    match get? s a, get? s b with
    | some t, some u =>
      match t.eqv u with
      | .ok r => (s, if r then "1" else "0")
      | .error e => (s, toString e)
    | _, _ => (s, "bad-op")
  | ["compute", name, comp] =>
    match parseComputer? comp with
    | some c => upd s name c.run
    | none => (s, "bad-op")
  | ["spec", name, comp] =>
    -- the mathematical spec (ICG.Spec.Bounds) evaluated on the table's knowledge; exponential, small n only
    match get? s name, parseComputer? comp with
    | some t, some c =>
      let ids := List.range t.rows
      let (lo, up) : (Nat → Rat) × (Nat → Rat) := match c with
        | .sam r => (samB t.n t.known t.lo r, samUp t.n t.known t.lo r)
        | _ => (loSpec t.known t.lo, upSpec t.n t.known t.lo)
      (s, s!"L={showRats (ids.map lo)} U={showRats (ids.map up)}")
    | _, _ => (s, "bad-op")
  | ["dump", name] =>
    match get? s name with
    | some t => (s, dump t)
    | none => (s, "bad-op")
  | ["known", name, c] =>
    match c.toNat?, get? s name with
    | some c, some t =>
      (s, match t.isValueKnown c with | .ok b => (if b then "1" else "0") | .error e => toString e)
    | _, _ => (s, "bad-op")
  | ["getvalue", name, c] =>
    match c.toNat?, get? s name with
    | some c, some t =>
      (s, match t.getValue c with | .ok v => showRat v | .error e => toString e)
    | _, _ => (s, "bad-op")
  | ["getvalues", name, cs] =>
    match parseOptNats? cs, get? s name with
    | some cs, some t =>
      (s, match t.getValues cs with | .ok v => showRats v | .error e => toString e)
    | _, _ => (s, "bad-op")
  | ["getknown", name, c] =>
    match c.toNat?, get? s name with
    | some c, some t =>
      (s, match t.getKnownValue c with | .ok v => showOptRat v | .error e => toString e)
    | _, _ => (s, "bad-op")
  | ["getknowns", name] =>
    match get? s name with
    | some t => (s, showList showOptRat t.getKnownValues)
    | none => (s, "bad-op")
  | ["full", name] =>
    match get? s name with
    | some t => (s, if t.full then "1" else "0")
    | none => (s, "bad-op")
  | ["drop", name] => (s.filter (·.1 != name), "ok")
  | _ => (s, "bad-op")

end ICG.Driver.Tab
