/-
  ICG.Driver.Mul — line protocol of domain `mul` (multiplicative factors, Max-XOS approximation).

  Numbers are exact rationals `p/q`.  A table `<T>` is four tokens `<n> <known> <lo> <hi>`: the number of
  players, `2^n` characters `0`/`1`, two vectors of `2^n` rationals (a complete game: `known` all `1`,
  `lo = hi`).  Answers are canonical text, or `err:<kind>` where the Python call raises.

    mul factor <num> <den>                     → value | err:…     raw vectors of any length, entries may be `nan`
    mul toapprox <T game> <T approx>           → value | err:…     mul_factor_to_approximation
    mul upperapprox <T approx> <T incomplete>  → value | err:…     mul_factor_upper_to_approximation
    mul tolower <T game> <T incomplete>        → value | err:…     mul_factor_to_lower_bound
    mul lowerupper <T incomplete>              → value | err:…     mul_factor_lower_upper_bound
    mul kr <n>                                 → `<exponents k of the entries 2^k·√n> <r values>`   (the final
                                                 k-value `n` is implicit)
    mul xos <T> <coalition>                    → `<additive vector, n entries> <queried ids>` | err:…
    mul maxsub <T> <coalition> <sq> <eps>      → `<constructed> <queried ids>` | err:…
                                                 `sq` = size² (the test is `(len+1)² ≥ sq`; size ≤ 0: `0`)
    mul cands <T> <alpha> <beta> <eps>         → `<candidate array> <unique queried ids>` | err:…
    mul approx <T> <alpha> <beta> <array>      → values (2^n entries) | err:…
    mul maxxos <T> <alpha> <beta> <eps>        → `<unique queried ids> <values>` | err:…

  A candidate array is rows `;` cells `|` ids `,` with `-` for an empty cell.
-/
import ICG.Model.Mul
import ICG.Driver.Proto
namespace ICG.Driver.Mul
open ICG ICG.Proto

abbrev State := Unit
def init : State := ()

def parseVec? (n : Nat) (s : String) : Option (Nat → Rat) := do
  let l ← parseRats? s
  if l.length = 2 ^ n then
    let a := l.toArray
    some (fun c => a[c]?.getD 0)          -- rows ≥ 2^n are never read (`Table.getValue` checks the id first)
  else none

def parseKnown? (n : Nat) (s : String) : Option (Nat → Bool) :=
  let l := s.toList
  if l.length = 2 ^ n ∧ l.all (fun ch => ch == '0' || ch == '1') then
    let a := l.toArray
    some (fun c => a[c]?.getD '0' == '1')
  else none

def parseTable? (n known lo hi : String) : Option (Table Rat) := do
  let n ← n.toNat?
  let k ← parseKnown? n known
  let l ← parseVec? n lo
  let h ← parseVec? n hi
  some { n := n, known := k, lo := l, hi := h }

def parseRatN? (s : String) : Option (Option Rat) :=
  if s = "nan" then some none else (parseRat? s).map some

def parseRatsN? (s : String) : Option (List (Option Rat)) := parseList? parseRatN? s

def showE {β} (f : β → String) : Except Err β → String
  | .ok x => f x
  | .error e => toString e

def showCell (c : List Nat) : String := showNats c
def showRow (row : List (List Nat)) : String := "|".intercalate (row.map showCell)
def showArray (a : List (List (List Nat))) : String := ";".intercalate (a.map showRow)

def parseArray? (s : String) : Option (List (List (List Nat))) :=
  (s.splitOn ";").mapM (fun row => (row.splitOn "|").mapM parseNats?)

def handle (s : State) : List String → State × String
  | ["factor", num, den] =>
    match parseRatsN? num, parseRatsN? den with
    | some a, some b => (s, showE showRat (Mul.AtRat.factorN a b))
    | _, _ => (s, "bad-op")
  | ["toapprox", n1, k1, l1, h1, n2, k2, l2, h2] =>
    match parseTable? n1 k1 l1 h1, parseTable? n2 k2 l2 h2 with
    | some g, some a => (s, showE showRat (Mul.AtRat.toApproximation g a))
    | _, _ => (s, "bad-op")
  | ["upperapprox", n1, k1, l1, h1, n2, k2, l2, h2] =>
    match parseTable? n1 k1 l1 h1, parseTable? n2 k2 l2 h2 with
    | some a, some i => (s, showE showRat (Mul.AtRat.upperToApproximation a i))
    | _, _ => (s, "bad-op")
  | ["tolower", n1, k1, l1, h1, n2, k2, l2, h2] =>
    match parseTable? n1 k1 l1 h1, parseTable? n2 k2 l2 h2 with
    | some g, some i => (s, showE showRat (Mul.AtRat.toLowerBound g i))
    | _, _ => (s, "bad-op")
  | ["lowerupper", n, k, l, h] =>
    match parseTable? n k l h with
    | some i => (s, showE showRat (Mul.AtRat.lowerUpperBound i))
    | none => (s, "bad-op")
  | ["kr", n] =>
    match n.toNat? with
    | some n => (s, s!"{showNats (Mul.kExps n)} {showNats (Mul.rVals n)}")
    | none => (s, "bad-op")
  | ["xos", n, k, l, h, c] =>
    match parseTable? n k l h, c.toNat? with
    | some t, some c =>
      (s, showE (fun (r : List (Nat × Rat) × List Nat) => s!"{showRats (Mul.avVector t.n r.1)} {showNats r.2}")
            (Mul.AtRat.approxXos t c))
    | _, _ => (s, "bad-op")
  | ["maxsub", n, k, l, h, c, sq, eps] =>
    match parseTable? n k l h, c.toNat?, parseRat? sq, parseRat? eps with
    | some t, some c, some sq, some eps =>
      (s, showE (fun (r : Nat × List Nat) => s!"{r.1} {showNats r.2}")
            (Mul.AtRat.maxSubroutine t c (fun m => decide (sq ≤ ((m * m : Nat) : Rat))) eps))
    | _, _, _, _ => (s, "bad-op")
  | ["cands", n, k, l, h, alpha, beta, eps] =>
    match parseTable? n k l h, parseRat? alpha, parseRat? beta, parseRat? eps with
    | some t, some a, some b, some e =>
      (s, showE (fun (r : List (List (List Nat)) × List Nat) => s!"{showArray r.1} {showNats r.2}")
            (Mul.AtRat.candidates t a b e))
    | _, _, _, _ => (s, "bad-op")
  | ["approx", n, k, l, h, alpha, beta, arr] =>
    match parseTable? n k l h, parseRat? alpha, parseRat? beta, parseArray? arr with
    | some t, some a, some b, some cands => (s, showE showRats (Mul.AtRat.computeApproximation t cands a b))
    | _, _, _, _ => (s, "bad-op")
  | ["maxxos", n, k, l, h, alpha, beta, eps] =>
    match parseTable? n k l h, parseRat? alpha, parseRat? beta, parseRat? eps with
    | some t, some a, some b, some e =>
      (s, showE (fun (r : List Nat × List Rat) => s!"{showNats r.1} {showRats r.2}") (Mul.AtRat.maxXos t a b e))
    | _, _, _, _ => (s, "bad-op")
  | _ => (s, "bad-op")

end ICG.Driver.Mul
