/-
  ICG.Driver.Mul — line protocol of domain `mul` (stub; to be replaced by the domain owner).
-/
import ICG.Driver.Proto
namespace ICG.Driver.Mul
open ICG ICG.Proto

abbrev State := Unit
def init : State := ()

def handle (s : State) (_ : List String) : State × String := (s, "bad-op")

end ICG.Driver.Mul
