/-
  ICG.Driver.Shp — line protocol of domain `shp` (Shapley value, exploitability, norms).

  Vectors have exactly `2^n` entries (anything else is `bad-op`); `<known>` is a string of `2^n`
  characters `0`/`1`.  Answers are exact rationals, or `err:<kind>` where the Python call raises.

    shp contrib <n>                          → comma list  s!(n−s−1)!
    shp shapley <n> <values>                 → comma list  (complete game given by its values)
    shp shapley1 <n> <i> <values>            → value       (single-player entry point)
    shp tshapley <n> <known> <values>        → comma list | err:value   (real incomplete-game class)
    shp tshapley1 <n> <i> <known> <values>   → value | err:value | err:index
    shp maxgain <n> <i> <lo> <hi>            → comma list  (MaxGainGame(i).get_values())
    shp expl <n> <known> <lo> <hi>           → value | err:value        (compute_exploitability)
    shp norms <n> <lo> <hi>                  → `l1 l2sq linf`
-/
import ICG.Model.Shapley
import ICG.Driver.Proto
namespace ICG.Driver.Shp
open ICG ICG.Proto

abbrev State := Unit
def init : State := ()

def vecFn (l : List Rat) : Nat → Rat := (compactFn l.length (fun c => l[c]?.getD 0)).f

def parseVec? (n : Nat) (s : String) : Option (Nat → Rat) := do
  let l ← parseRats? s
  if l.length = 2 ^ n then some (vecFn l) else none

def parseKnown? (n : Nat) (s : String) : Option (Nat → Bool) :=
  let l := s.toList
  if l.length = 2 ^ n ∧ l.all (fun ch => ch == '0' || ch == '1') then
    let a := l.toArray
    some (fun c => a[c]?.getD '0' == '1')
  else none

def showE {β} (f : β → String) : Except Err β → String
  | .ok x => f x
  | .error e => toString e

def mkTable (n : Nat) (known : Nat → Bool) (lo hi : Nat → Rat) : Table Rat :=
  { n := n, known := known, lo := lo, hi := hi }

def handle (s : State) : List String → State × String
  | ["contrib", n] =>
    match n.toNat? with
    | some n => (s, showNats (contributions n))
    | none => (s, "bad-op")
  | ["shapley", n, vals] =>
    match n.toNat? with
    | some n =>
      match parseVec? n vals with
      | some v => (s, showE showRats (AtRat.shapley n v))
      | none => (s, "bad-op")
    | none => (s, "bad-op")
  | ["shapley1", n, i, vals] =>
    match n.toNat?, i.toNat? with
    | some n, some i =>
      match parseVec? n vals with
      | some v => if i < n then (s, showE showRat (AtRat.shapleyForPlayer n v i)) else (s, "bad-op")
      | none => (s, "bad-op")
    | _, _ => (s, "bad-op")
  | ["tshapley", n, known, vals] =>
    match n.toNat? with
    | some n =>
      match parseKnown? n known, parseVec? n vals with
      | some k, some v => (s, showE showRats (AtRat.tableShapley (mkTable n k v v)))
      | _, _ => (s, "bad-op")
    | none => (s, "bad-op")
  | ["tshapley1", n, i, known, vals] =>
    match n.toNat?, i.toNat? with
    | some n, some i =>
      match parseKnown? n known, parseVec? n vals with
      | some k, some v => (s, showE showRat (AtRat.tableShapleyForPlayer (mkTable n k v v) i))
      | _, _ => (s, "bad-op")
    | _, _ => (s, "bad-op")
  | ["maxgain", n, i, lo, hi] =>
    match n.toNat?, i.toNat? with
    | some n, some i =>
      match parseVec? n lo, parseVec? n hi with
      | some lo, some hi => (s, showRats (AtRat.maxGain n i lo hi))
      | _, _ => (s, "bad-op")
    | _, _ => (s, "bad-op")
  | ["expl", n, known, lo, hi] =>
    match n.toNat? with
    | some n =>
      match parseKnown? n known, parseVec? n lo, parseVec? n hi with
      | some k, some lo, some hi => (s, showE showRat (AtRat.exploitability (mkTable n k lo hi)))
      | _, _, _ => (s, "bad-op")
    | none => (s, "bad-op")
  | ["norms", n, lo, hi] =>
    match n.toNat? with
    | some n =>
      match parseVec? n lo, parseVec? n hi with
      | some lo, some hi =>
        (s, s!"{showRat (AtRat.l1 n lo hi)} {showRat (AtRat.l2sq n lo hi)} {showE showRat (AtRat.linf n lo hi)}")
      | _, _ => (s, "bad-op")
    | none => (s, "bad-op")
  | _ => (s, "bad-op")

end ICG.Driver.Shp
