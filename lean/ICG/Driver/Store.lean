/-
  ICG.Driver.Store — line protocol of domain `store` (C19 store of saved results, C20 crash model).

  C19 (several stores, addressed by an id):
    store reset  <sid>                  → ok
    store save   <sid> <name> <entry>   → added | kept          (`save`)
    store lookup <sid> <name>           → <entry> | none        (`lookup`)
    store names  <sid>                  → n1,n2,… | -           (`names`)
    store dump   <sid>                  → n1=<entry> n2=<entry> … | -
  <entry> = <arr>;<arr>;<meta>     data ; actions ; metadata
  <arr>   = <shape>:<cells>        shape `2x3` (`-` for a 0-dimensional array), cells `t1,t2,…` or `-`
  <meta>  = k1=v1,k2=v2,… | -      names, keys and values are opaque tokens (the harness sends `h<hex>`)

  C20:
    store crash <target> <init> <op>*   → atomic=<0|1> <class_0> … <class_N>     (N = number of ops)
  <init>  = - | p1=<hex>,p2=<hex>,…   files that exist before the save (content in hex, may be empty)
  <op>    = or:p | ot:p | ox:p | ok:p | w:p:<hex> | c:p | fs:p | mv:src:dst | rm:p | x:p
  <class_k> = content of <target> after the first k operations (`crashAfter k`):
            old (= content before the save, also when both are absent) | new (= content after all
            operations) | absent | lit:<hex>
  Contents stay hex strings inside the model: concatenation of hex strings is concatenation of bytes.
-/
import ICG.Model.Store
import ICG.Driver.Proto
namespace ICG.Driver.Store
open ICG ICG.Proto ICG.Store

abbrev State := List (String × Store Entry)
def init : State := []

def get? (s : State) (sid : String) : Option (Store Entry) := (s.find? (·.1 == sid)).map (·.2)
def put (s : State) (sid : String) (t : Store Entry) : State := (sid, t) :: s.filter (·.1 != sid)

def parseArr? (s : String) : Option Arr :=
  match s.splitOn ":" with
  | [sh, cells] => do
    let shape ← if sh = "-" then some [] else (sh.splitOn "x").mapM String.toNat?
    let cs := if cells = "-" then [] else cells.splitOn ","
    some ⟨shape, cs⟩
  | _ => none

def parseMeta? (s : String) : Option (List (String × String)) :=
  if s = "-" then some [] else
    (s.splitOn ",").mapM (fun kv => match kv.splitOn "=" with
      | [k, v] => some (k, v)
      | _ => none)

def parseEntry? (s : String) : Option Entry :=
  match s.splitOn ";" with
  | [d, a, m] => do
    let d ← parseArr? d
    let a ← parseArr? a
    let m ← parseMeta? m
    some ⟨d, a, m⟩
  | _ => none

def showArr (a : Arr) : String :=
  (if a.shape.isEmpty then "-" else "x".intercalate (a.shape.map toString)) ++ ":" ++
  (if a.cells.isEmpty then "-" else ",".intercalate a.cells)

def showMeta (m : List (String × String)) : String :=
  if m.isEmpty then "-" else ",".intercalate (m.map (fun kv => kv.1 ++ "=" ++ kv.2))

def showEntry (e : Entry) : String := showArr e.data ++ ";" ++ showArr e.actions ++ ";" ++ showMeta e.metadata

def parseOp? (s : String) : Option FsOp :=
  match s.splitOn ":" with
  | ["or", p] => some (.openRead p)
  | ["ot", p] => some (.openTrunc p)
  | ["ox", p] => some (.openExcl p)
  | ["ok", p] => some (.openKeep p)
  | ["w", p, c] => some (.write p c)
  | ["c", p] => some (.close p)
  | ["fs", p] => some (.fsync p)
  | ["mv", a, b] => some (.rename a b)
  | ["rm", p] => some (.unlink p)
  | ["x", p] => some (.other p)
  | _ => none

def parseInit? (s : String) : Option Fs :=
  if s = "-" then some (fun _ => none) else do
    let kvs ← (s.splitOn ",").mapM (fun kv => match kv.splitOn "=" with
      | [k, v] => some (k, v)
      | _ => none)
    some (fun q => (kvs.find? (·.1 == q)).map (·.2))

def classOf (old new cur : Option String) : String :=
  if cur = old then "old"
  else if cur = new then "new"
  else match cur with
    | none => "absent"
    | some c => "lit:" ++ c

def crashLine (target : String) (fs : Fs) (ops : List FsOp) : String :=
  let old := fs target
  let new := run ops fs target
  let classes := (List.range (ops.length + 1)).map (fun k => classOf old new (crashAfter k ops fs target))
  s!"atomic={if atomicB target ops then 1 else 0} " ++ " ".intercalate classes

def handle (s : State) : List String → State × String
  | ["reset", sid] => (put s sid [], "ok")
  | ["save", sid, name, entry] =>
    match get? s sid, parseEntry? entry with
    | some t, some e => (put s sid (save t name e), if has t name then "kept" else "added")
    | _, _ => (s, "bad-op")
  | ["lookup", sid, name] =>
    match get? s sid with
    | some t => (s, match lookup t name with
      | some e => showEntry e
      | none => "none")
    | none => (s, "bad-op")
  | ["names", sid] =>
    match get? s sid with
    | some t => (s, showList id (names t))
    | none => (s, "bad-op")
  | ["dump", sid] =>
    match get? s sid with
    | some t => (s, if t.isEmpty then "-" else " ".intercalate (t.map (fun p => p.1 ++ "=" ++ showEntry p.2)))
    | none => (s, "bad-op")
  | "crash" :: target :: initS :: opsS =>
    match parseInit? initS, opsS.mapM parseOp? with
    | some fs, some ops => (s, crashLine target fs ops)
    | _, _ => (s, "bad-op")
  | _ => (s, "bad-op")

end ICG.Driver.Store
