/-
  ICG.Driver.Codec — line protocol of domain `codec` (C19: the entry codec of run/save.py, ICG.Model.Codec).
  Finite floats are opaque tokens (`φ := String`): the harness sends the exact rational `p/q` of the double, `-0` for
  the negative zero; the model only moves them around (and creates them from ints, `ofIntS`).

    codec tree     <arr> <arr> <arg>*   → <json>                     the tree json.dump writes for output.json
                                                                      (`entryTree`; repeated keys as written) | err:<kind>
    codec saveload <arr> <arr> <arg>*   → data=<arr> actions=<arr> args= <arg>*      (`saveLoad`)  | err:<kind>
    codec load     <json>               → data=… actions=… args= …    `Output.from_json(json.loads(text))` = `fromJson ∘ reload` | err:<kind>
    codec outputs  <json>               → <name> data=… ; <name> data=… ; …   `get_outputs(json.loads(text))` (`-` when empty) | err:<kind>
    codec nparray  f|a <json>           → <arr>                       `np.array(t, dtype=float)` | `np.array(t)`   | err:<kind>
    codec tolist   <arr>                → <json>                      `ndarray.tolist()`
    codec reload   <json>               → <json>                      `json.loads(json.dumps(t))`
    codec dumps    <pyval>              → <json>                      the tree `json.dumps(v, default=json_serializer)` writes | err:type
    codec stringify <pyval>             → <pyval>                     `json.loads(json.dumps(v, default=json_serializer))` | err:type

  <arr>    = <dtype>:<shape>:<cells>    dtype f|i|b|o ; shape `2x3` | `-` (0-d) ; cells `c1,c2,…` | `-`
  <cell>   = n | t | f | i<int> | F<float>          <float> = nan | inf | -inf | -0 | p | p/q
  <json>   = words: n | t | f | i<int> | F<float> | s<hex> | [ <json>* ] | { (k<hex> <json>)* }
  <pyval>  = words: N | t | f | i<int> | F<float> | s<hex> | [ <pyval>* ] | ( <pyval>* ) | { (<key> <pyval>)* } | P<hex> | O<hex>
  <key>    = ks<hex> | ki<int> | kt | kf | kN | kF<hex of the key text> | kO
  <arg>    = A<hex of the attribute name> <pyval>
  strings are UTF-8 in hex.  err kinds: err:value err:type err:key err:overflow err:not-array unmodelled
-/
import ICG.Model.Codec
import ICG.Driver.Proto
namespace ICG.Driver.Codec
open ICG ICG.Proto ICG.Codec

abbrev State := Unit
def init : State := ()

abbrev J := Json String
abbrev P := PyVal String

/-! ### hex -/

def hexDigit (n : Nat) : Char := if n < 10 then Char.ofNat (48 + n) else Char.ofNat (87 + n)

def hexVal? (c : Char) : Option Nat :=
  if '0' ≤ c ∧ c ≤ '9' then some (c.toNat - 48)
  else if 'a' ≤ c ∧ c ≤ 'f' then some (c.toNat - 87)
  else none

def toHex (s : String) : String :=
  String.ofList (s.toUTF8.toList.flatMap (fun b => [hexDigit (b.toNat / 16), hexDigit (b.toNat % 16)]))

def unhexBytes : List Char → Option (List UInt8)
  | [] => some []
  | [_] => none
  | a :: b :: r => do
    let x ← hexVal? a
    let y ← hexVal? b
    let rest ← unhexBytes r
    some (UInt8.ofNat (x * 16 + y) :: rest)

def unhex? (cs : List Char) : Option String := do
  let bs ← unhexBytes cs
  String.fromUTF8? (ByteArray.mk bs.toArray)

/-! ### scalars and arrays -/

def ofIntS (i : Int) : Except CErr (FCell String) :=
  match roundInt i with
  | some r => .ok (.fin (toString r))
  | none => .error .overflow

def parseFloat? (s : String) : Option (FCell String) :=
  if s = "nan" then some .nan else if s = "inf" then some .pinf else if s = "-inf" then some .ninf
  else if s = "" then none else some (.fin s)

def showFloat : FCell String → String
  | .nan => "nan" | .pinf => "inf" | .ninf => "-inf" | .fin s => s

def parseScalar? (w : String) : Option (Scalar String) :=
  match w.toList with
  | ['n'] => some .null
  | ['t'] => some (.bool true)
  | ['f'] => some (.bool false)
  | 'i' :: cs => (String.ofList cs).toInt?.map .int
  | 'F' :: cs => (parseFloat? (String.ofList cs)).map .float
  | _ => none

def showScalar : Scalar String → String
  | .null => "n" | .bool true => "t" | .bool false => "f" | .int i => s!"i{i}" | .float c => "F" ++ showFloat c

def parseDType? (s : String) : Option DType :=
  if s = "f" then some .f64 else if s = "i" then some .i64 else if s = "b" then some .bool
  else if s = "o" then some .obj else none

def showDType : DType → String
  | .f64 => "f" | .i64 => "i" | .bool => "b" | .obj => "o"

def parseArr? (s : String) : Option (Nd String) :=
  match s.splitOn ":" with
  | [dt, sh, cells] => do
    let dt ← parseDType? dt
    let shape ← if sh = "-" then some [] else (sh.splitOn "x").mapM String.toNat?
    let cs ← if cells = "-" then some [] else (cells.splitOn ",").mapM parseScalar?
    some ⟨dt, shape, cs⟩
  | _ => none

def showArr (a : Nd String) : String :=
  showDType a.dtype ++ ":" ++ (if a.shape.isEmpty then "-" else "x".intercalate (a.shape.map toString)) ++ ":" ++
    (if a.cells.isEmpty then "-" else ",".intercalate (a.cells.map showScalar))

/-! ### JSON and Python values as word lists -/

mutual
def parseJson : Nat → List String → Option (J × List String)
  | 0, _ => none
  | _, [] => none
  | fuel + 1, w :: ws =>
    if w = "[" then
      match parseJsonSeq fuel ws with
      | some (l, rest) => some (.arr l, rest)
      | none => none
    else if w = "{" then
      match parseJsonObj fuel ws with
      | some (l, rest) => some (.obj l, rest)
      | none => none
    else
      match w.toList with
      | 's' :: cs => (unhex? cs).map (fun s => (.str s, ws))
      | _ => (parseScalar? w).map (fun x => (x.toJson, ws))
def parseJsonSeq : Nat → List String → Option (List J × List String)
  | 0, _ => none
  | _, [] => none
  | fuel + 1, w :: ws =>
    if w = "]" then some ([], ws)
    else
      match parseJson fuel (w :: ws) with
      | some (x, rest) =>
        match parseJsonSeq fuel rest with
        | some (xs, rest') => some (x :: xs, rest')
        | none => none
      | none => none
def parseJsonObj : Nat → List String → Option (List (String × J) × List String)
  | 0, _ => none
  | _, [] => none
  | fuel + 1, w :: ws =>
    if w = "}" then some ([], ws)
    else
      match w.toList with
      | 'k' :: cs =>
        match unhex? cs, parseJson fuel ws with
        | some k, some (v, rest) =>
          match parseJsonObj fuel rest with
          | some (kvs, rest') => some ((k, v) :: kvs, rest')
          | none => none
        | _, _ => none
      | _ => none
end

mutual
def jsonWords : J → List String
  | .null => ["n"] | .bool true => ["t"] | .bool false => ["f"] | .int i => [s!"i{i}"]
  | .float c => ["F" ++ showFloat c] | .str s => ["s" ++ toHex s]
  | .arr l => "[" :: (jsonSeqWords l ++ ["]"])
  | .obj kvs => "{" :: (jsonObjWords kvs ++ ["}"])
def jsonSeqWords : List J → List String
  | [] => []
  | x :: xs => jsonWords x ++ jsonSeqWords xs
def jsonObjWords : List (String × J) → List String
  | [] => []
  | (k, v) :: kvs => ("k" ++ toHex k) :: (jsonWords v ++ jsonObjWords kvs)
end

def showJson (j : J) : String := " ".intercalate (jsonWords j)

def parseKey? (w : String) : Option PyKey :=
  match w.toList with
  | 'k' :: 's' :: cs => (unhex? cs).map .str
  | 'k' :: 'i' :: cs => (String.ofList cs).toInt?.map .int
  | ['k', 't'] => some (.bool true)
  | ['k', 'f'] => some (.bool false)
  | ['k', 'N'] => some .none
  | 'k' :: 'F' :: cs => (unhex? cs).map .float
  | ['k', 'O'] => some .other
  | _ => none

mutual
def parsePy : Nat → List String → Option (P × List String)
  | 0, _ => none
  | _, [] => none
  | fuel + 1, w :: ws =>
    if w = "[" then
      match parsePySeq "]" fuel ws with
      | some (l, rest) => some (.list l, rest)
      | none => none
    else if w = "(" then
      match parsePySeq ")" fuel ws with
      | some (l, rest) => some (.tuple l, rest)
      | none => none
    else if w = "{" then
      match parsePyDict fuel ws with
      | some (l, rest) => some (.dict l, rest)
      | none => none
    else
      match w.toList with
      | ['N'] => some (.none, ws)
      | ['t'] => some (.bool true, ws)
      | ['f'] => some (.bool false, ws)
      | 'i' :: cs => (String.ofList cs).toInt?.map (fun i => (.int i, ws))
      | 'F' :: cs => (parseFloat? (String.ofList cs)).map (fun c => (.float c, ws))
      | 's' :: cs => (unhex? cs).map (fun s => (.str s, ws))
      | 'P' :: cs => (unhex? cs).map (fun s => (.path s, ws))
      | 'O' :: cs => (unhex? cs).map (fun s => (.other s, ws))
      | _ => none
def parsePySeq (close : String) : Nat → List String → Option (List P × List String)
  | 0, _ => none
  | _, [] => none
  | fuel + 1, w :: ws =>
    if w = close then some ([], ws)
    else
      match parsePy fuel (w :: ws) with
      | some (x, rest) =>
        match parsePySeq close fuel rest with
        | some (xs, rest') => some (x :: xs, rest')
        | none => none
      | none => none
def parsePyDict : Nat → List String → Option (List (PyKey × P) × List String)
  | 0, _ => none
  | _, [] => none
  | fuel + 1, w :: ws =>
    if w = "}" then some ([], ws)
    else
      match parseKey? w, parsePy fuel ws with
      | some k, some (v, rest) =>
        match parsePyDict fuel rest with
        | some (kvs, rest') => some ((k, v) :: kvs, rest')
        | none => none
      | _, _ => none
end

def showKey : PyKey → String
  | .str s => "ks" ++ toHex s | .int i => s!"ki{i}" | .bool true => "kt" | .bool false => "kf"
  | .none => "kN" | .float t => "kF" ++ toHex t | .other => "kO"

mutual
def pyWords : P → List String
  | .none => ["N"] | .bool true => ["t"] | .bool false => ["f"] | .int i => [s!"i{i}"]
  | .float c => ["F" ++ showFloat c] | .str s => ["s" ++ toHex s]
  | .list l => "[" :: (pySeqWords l ++ ["]"])
  | .tuple l => "(" :: (pySeqWords l ++ [")"])
  | .dict kvs => "{" :: (pyDictWords kvs ++ ["}"])
  | .path s => ["P" ++ toHex s]
  | .other r => ["O" ++ toHex r]
def pySeqWords : List P → List String
  | [] => []
  | x :: xs => pyWords x ++ pySeqWords xs
def pyDictWords : List (PyKey × P) → List String
  | [] => []
  | (k, v) :: kvs => showKey k :: (pyWords v ++ pyDictWords kvs)
end

def parseArgs : Nat → List String → Option (List (String × P))
  | _, [] => some []
  | 0, _ => none
  | fuel + 1, w :: ws =>
    match w.toList with
    | 'A' :: cs =>
      match unhex? cs, parsePy (ws.length + 1) ws with
      | some k, some (v, rest) => (parseArgs fuel rest).map ((k, v) :: ·)
      | _, _ => none
    | _ => none

def argsWords : List (String × P) → List String
  | [] => []
  | (k, v) :: r => ("A" ++ toHex k) :: (pyWords v ++ argsWords r)

def showOutput (o : Output String) : String :=
  " ".intercalate (["data=" ++ showArr o.data, "actions=" ++ showArr o.actions, "args="] ++ argsWords o.args)

def parseWholeJson (ws : List String) : Option J :=
  match parseJson (ws.length + 1) ws with
  | some (j, []) => some j
  | _ => none

def parseWholePy (ws : List String) : Option P :=
  match parsePy (ws.length + 1) ws with
  | some (v, []) => some v
  | _ => none

def showE {α} (f : α → String) : Except CErr α → String
  | .ok a => f a
  | .error e => toString e

def handle (s : State) : List String → State × String
  | "tree" :: d :: a :: args =>
    match parseArr? d, parseArr? a, parseArgs (args.length + 1) args with
    | some d, some a, some args => (s, showE showJson (entryTree ⟨d, a, args⟩))
    | _, _, _ => (s, "bad-op")
  | "saveload" :: d :: a :: args =>
    match parseArr? d, parseArr? a, parseArgs (args.length + 1) args with
    | some d, some a, some args => (s, showE showOutput (saveLoad ofIntS ⟨d, a, args⟩))
    | _, _, _ => (s, "bad-op")
  | "load" :: ws =>
    match parseWholeJson ws with
    | some j => (s, showE showOutput (fromJson ofIntS j.reload))
    | none => (s, "bad-op")
  | "outputs" :: ws =>
    match parseWholeJson ws with
    | some j =>
      match j.reload with
      | .obj kvs =>
        (s, showE (fun os => if os.isEmpty then "-" else
            " ; ".intercalate (os.map (fun p => "s" ++ toHex p.1 ++ " " ++ showOutput p.2))) (getOutputs ofIntS kvs))
      | _ => (s, "bad-op")
    | none => (s, "bad-op")
  | "nparray" :: mode :: ws =>
    match parseWholeJson ws with
    | some j =>
      if mode = "f" then (s, showE showArr (npArrayFloat ofIntS j))
      else if mode = "a" then (s, showE showArr (npArrayInfer ofIntS j))
      else (s, "bad-op")
    | none => (s, "bad-op")
  | ["tolist", a] =>
    match parseArr? a with
    | some a => (s, showE showJson a.tolist)
    | none => (s, "bad-op")
  | "reload" :: ws =>
    match parseWholeJson ws with
    | some j => (s, showJson j.reload)
    | none => (s, "bad-op")
  | "dumps" :: ws =>
    match parseWholePy ws with
    | some v => (s, showE showJson v.toJson)
    | none => (s, "bad-op")
  | "stringify" :: ws =>
    match parseWholePy ws with
    | some v => (s, showE (fun w => " ".intercalate (pyWords w)) v.stringify)
    | none => (s, "bad-op")
  | _ => (s, "bad-op")

end ICG.Driver.Codec
