/-
  ICG.Driver.Codec — line protocol of domain `codec` (stub; to be replaced by the domain owner).
-/
import ICG.Driver.Proto
namespace ICG.Driver.Codec
open ICG ICG.Proto

abbrev State := Unit
def init : State := ()

def handle (s : State) (_ : List String) : State × String := (s, "bad-op")

end ICG.Driver.Codec
