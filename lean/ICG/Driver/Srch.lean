/-
  ICG.Driver.Srch — line protocol of domain `srch` (exhaustive search, best-states, meta-game,
  expected-greedy, evaluate and the process pool; model: ICG.Model.Search).

  The bound computer and the gap function are PARAMETERS of the model.  The driver instantiates them so
  that the model decides the state-machine part only: hidden game number j (1, 2, …) is the constant
  game `c ↦ j`, `compute` is the identity, and `gap t` looks the pair (j, set of known coalitions of t)
  up in a *gap table* that the harness has filled with the REAL gap of a FRESH real game holding
  exactly that knowledge.  So an answer of the model is "the real gap of the knowledge set the model
  says the code evaluates".

  Operations (answers: one line):
    seqs <unknown ids> <k|none>                     → `;`-separated sequences (`-` = empty sequence)
    chunks <len> <procs>                            → chunk lengths of Pool.starmap | err:value
    gt new <name> <n> <reps>                        → ok        (a gap table for `reps` sampled games)
    gt put <name> <known ids> <gaps, one per game>  → ok
    expl <name> <j> <start ids> <k|none> <procs> <poison>   → `seq=gap;…`   (get_exploitabilities_of_action_sequences)
    stack <name> <start ids> <seq> <procs> <poison>         → gaps, one per game (get_exploitabilities_of_action_sequence)
    best <name> <start ids> <maxsteps> <procs>      → `row|row|…#acts|acts|…`  (get_best_exploitability)
    meta <name> <j> <m> <poison>                    → gap          (MetaGame.get_value(Coalition(m)))
    greedy <name> <start ids> <explorable ids> <maxsteps> <procs> <orders>  → `row|…#acts`
        orders: `;`-separated candidate orders, entry i = iteration order of the candidate set when i
        actions have been chosen
    evalone <limit> <reward after reset> <reward:done:chosen;…>   → `gaps#ids`      (eval_one)
    pooldraws <ctor draws> <limit> <reps> <procs>   → `gaps#ids;…` per repetition: generator draw index
        (row 0) and solver draw indices under the CURRENT sharing structure of evaluate()
-/
import ICG.Model.Search
import ICG.Driver.Proto
namespace ICG.Driver.Srch
open ICG ICG.Proto ICG.Search

structure GapTab where
  n : Nat
  reps : Nat
  entries : List (Nat × List Rat)      -- key = Σ 2^c over the known coalitions c

abbrev State := List (String × GapTab)
def init : State := []

def get? (s : State) (name : String) : Option GapTab := (s.find? (·.1 == name)).map (·.2)
def put (s : State) (name : String) (g : GapTab) : State := (name, g) :: s.filter (·.1 != name)

def keyOf (ids : List Nat) : Nat := ids.eraseDups.foldl (fun k c => k + 2 ^ c) 0

/-- the opaque gap: (hidden game number read off the table, known set) ↦ harness-supplied real gap -/
def gapOf (g : GapTab) (t : Table Rat) : Except Err Rat :=
  let known := knownOf t
  let j := (known.map t.hi).foldl max 0
  match g.entries.find? (·.1 == keyOf known) with
  | none => .error .other
  | some (_, vals) =>
    if j.den = 1 ∧ 1 ≤ j.num then
      match vals[j.num.toNat - 1]? with
      | some x => .ok x
      | none => .error .other
    else .error .other

def computeId (t : Table Rat) : Except Err (Table Rat) := .ok t
def gameNo (j : Nat) : Nat → Rat := fun _ => (j : Rat)

/-- the scratch game handed to the search: knows `start`, with stale values and stale bounds -/
def scratch (n : Nat) (start : List Nat) (poison : Rat) : Table Rat :=
  { n := n, known := fun c => start.contains c,
    lo := fun c => if poison = 0 then 0 else poison - c,
    hi := fun c => if poison = 0 then 0 else poison + c }

def showSeq (l : List Nat) : String := showNats l
def showSeqs (l : List (List Nat)) : String := ";".intercalate (l.map showSeq)
def showRows (l : List (List Rat)) : String := "|".intercalate (l.map showRats)

def parseK? (s : String) : Option (Option Nat) := if s = "none" then some none else s.toNat?.map some

def parseOrders? (s : String) : Option (List (List Nat)) := (s.splitOn ";").mapM parseNats?

def parseStep? (s : String) : Option (Rat × Bool × Nat) :=
  match s.splitOn ":" with
  | [r, d, c] => do
    let r ← parseRat? r
    let c ← c.toNat?
    if d = "1" then some (r, true, c) else if d = "0" then some (r, false, c) else none
  | _ => none

def isPerm (a b : List Nat) : Bool := a.length == b.length && a.all b.contains && b.all a.contains

/-- scripted environment for `evalone`: the env's answers are inputs -/
def scriptEnv : EnvOps (Rat × List (Rat × Bool × Nat)) Unit Rat :=
  { reset := fun e r => (e, r), reward := fun e => e.1,
    step := fun e _ => match e.2 with
      | [] => .error .other
      | (r, d, c) :: rest => .ok ((r, rest), r, d, c) }

def showEval (r : List Rat × List Nat) : String := s!"{showRats r.1}#{showNats r.2}"

def handle (s : State) : List String → State × String
  | ["seqs", unk, k] =>
    match parseNats? unk, parseK? k with
    | some unk, some k => (s, showSeqs (possibleSeqs unk k))
    | _, _ => (s, "bad-op")
  | ["chunks", len, procs] =>
    match len.toNat?, procs.toNat? with
    | some len, some procs =>
      if procs = 0 then (s, toString Err.value)
      else (s, showNats ((poolChunks (List.range len) procs).map List.length))
    | _, _ => (s, "bad-op")
  | ["gt", "new", name, n, reps] =>
    match n.toNat?, reps.toNat? with
    | some n, some reps => (put s name { n := n, reps := reps, entries := [] }, "ok")
    | _, _ => (s, "bad-op")
  | ["gt", "put", name, ids, vals] =>
    match get? s name, parseNats? ids, parseRats? vals with
    | some g, some ids, some vals => (put s name { g with entries := (keyOf ids, vals) :: g.entries }, "ok")
    | _, _, _ => (s, "bad-op")
  | ["expl", name, j, start, k, procs, poison] =>
    match get? s name, j.toNat?, parseNats? start, parseK? k, procs.toNat?, parseRat? poison with
    | some g, some j, some start, some k, some procs, some poison =>
      match getExploitabilities computeId (gapOf g) (scratch g.n start poison) (gameNo j) k procs with
      | .ok res => (s, ";".intercalate (res.map (fun p => s!"{showSeq p.1}={showRat p.2}")))
      | .error e => (s, toString e)
    | _, _, _, _, _, _ => (s, "bad-op")
  | ["stack", name, start, seq, procs, poison] =>
    match get? s name, parseNats? start, parseNats? seq, procs.toNat?, parseRat? poison with
    | some g, some start, some seq, some procs, some poison =>
      let games := (List.range g.reps).map (fun j => gameNo (j + 1))
      match getExploitabilitiesOfSeq computeId (gapOf g) (scratch g.n start poison) games seq procs with
      | .ok res => (s, showRats res)
      | .error e => (s, toString e)
    | _, _, _, _, _ => (s, "bad-op")
  | ["best", name, start, maxSteps, procs] =>
    match get? s name, parseNats? start, maxSteps.toNat?, procs.toNat? with
    | some g, some start, some maxSteps, some procs =>
      match getBestExploitability computeId (gapOf g) (scratch g.n start 0) (fun i => gameNo (i + 1))
              maxSteps g.reps procs with
      | .ok (_, b) => (s, s!"{showRows (b.map (·.1))}#{"|".intercalate (b.map (fun r => showNats r.2))}")
      | .error e => (s, toString e)
    | _, _, _, _ => (s, "bad-op")
  | ["meta", name, j, m, poison] =>
    match get? s name, j.toNat?, m.toNat?, parseRat? poison with
    | some g, some j, some m, some poison =>
      match metaValue computeId (gapOf g) (gameNo j) (scratch g.n [] poison) m with
      | .ok (_, x) => (s, showRat x)
      | .error e => (s, toString e)
    | _, _, _, _ => (s, "bad-op")
  | ["greedy", name, start, expl, maxSteps, procs, orders] =>
    match get? s name, parseNats? start, parseNats? expl, maxSteps.toNat?, procs.toNat?, parseOrders? orders with
    | some g, some start, some expl, some maxSteps, some procs, some orders =>
      let games := (List.range g.reps).map (fun j => gameNo (j + 1))
      let order : List Nat → List Nat → List Nat := fun acts _ => (orders[acts.length]?).getD []
      match expectedGreedy computeId (gapOf g) order (scratch g.n start 0) games expl maxSteps procs with
      | .ok (rows, acts) =>
        -- the supplied orders must be iteration orders of the sets the model actually had
        let okOrders := (List.range acts.length).all (fun i =>
          isPerm ((orders[i]?).getD []) (expl.eraseDups.filter (fun c => !(acts.take i).contains c)))
        if okOrders then (s, s!"{showRows rows}#{showNats acts}") else (s, "bad-order")
      | .error e => (s, toString e)
    | _, _, _, _, _, _ => (s, "bad-op")
  | ["evalone", limit, r0, steps] =>
    match limit.toNat?, parseRat? r0, parseList? parseStep? (steps.replace ";" ",") with
    | some limit, some r0, some steps =>
      match evalOne scriptEnv (fun (u : Unit) _ => .ok (u, 0)) limit ((), ()) (r0, steps) with
      | .ok (_, r) => (s, showEval r)
      | .error e => (s, toString e)
    | _, _, _ => (s, "bad-op")
  | ["pooldraws", ctor, limit, reps, procs] =>
    match ctor.toNat?, limit.toNat?, reps.toNat?, procs.toNat? with
    | some ctor, some limit, some reps, some procs =>
      match poolDraws ctor limit reps procs with
      | .ok res => (s, ";".intercalate (res.map (fun r => s!"{showList toString r.1}#{showNats r.2}")))
      | .error e => (s, toString e)
    | _, _, _, _ => (s, "bad-op")
  | ["gt", "drop", name] => (s.filter (·.1 != name), "ok")
  | _ => (s, "bad-op")

end ICG.Driver.Srch
