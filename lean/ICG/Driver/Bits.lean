/-
  ICG.Driver.Bits — line protocol of domain `bits`: every operator and enumeration of
  ICG.Model.Bits and the predicates of ICG.Model.Predicates.  Stateless.

    bits size c | players c | from <players> | single p | grand n | all n
    bits and a b | or a b | sub a b | contains a b | eq a b | disjoint a b
    bits andp a p | orp a p | subp a p | addp a p | hasplayer a p          (int operand = a player)
    bits inverted c n
    bits subobj c | superobj c n | subid c n | superid c n | playersid c n | sizeid c n
    bits struct n c | sorted n | minimal n | exclude ex <coalitions>
    bits issa n rtol atol <values> | ismono n <values> | issam n rtol atol <values> | supermod n tol <values>

  Answers: naturals, `0/1` for booleans, comma separated lists (`-` empty), `err:<kind>`;
  `supermod` answers `none` or `T,S,i`.
-/
import ICG.Model.Predicates
import ICG.Driver.Proto
namespace ICG.Driver.Bits
open ICG ICG.Proto

abbrev State := Unit
def init : State := ()

def showBool (b : Bool) : String := if b then "1" else "0"
def showInts (l : List Int) : String := showList toString l

def showE {β} (f : β → String) : Except Err β → String
  | .ok x => f x
  | .error e => toString e

/-- values of a complete game on `n` players: exactly `2^n` numbers (anything else is not an input the
    real predicates can see — `get_values()` always has 2^n rows). Rows `≥ 2^n` are never read. -/
def valuesFn? (n : Nat) (vals : List Rat) : Option (Nat → Rat) :=
  if vals.length = 2 ^ n then
    let a := vals.toArray
    some (fun i => if h : i < a.size then a[i] else 0)
  else none

def nat1 (s : State) (a : String) (f : Nat → String) : State × String :=
  match a.toNat? with
  | some a => (s, f a)
  | none => (s, "bad-op")

def nat2 (s : State) (a b : String) (f : Nat → Nat → String) : State × String :=
  match a.toNat?, b.toNat? with
  | some a, some b => (s, f a b)
  | _, _ => (s, "bad-op")

def handle (s : State) : List String → State × String
  | ["size", c] => nat1 s c fun c => toString (size c)
  | ["players", c] => nat1 s c fun c => showNats (players c)
  | ["from", ps] =>
    match parseNats? ps with
    | some l => (s, toString (fromPlayers l))
    | none => (s, "bad-op")
  | ["single", p] => nat1 s p fun p => toString (singleton p)
  | ["grand", n] => nat1 s n fun n => toString (grand n)
  | ["all", n] => nat1 s n fun n => showNats (allCoalitions n)
  | ["and", a, b] => nat2 s a b fun a b => toString (inter a b)
  | ["or", a, b] => nat2 s a b fun a b => toString (union a b)
  | ["sub", a, b] => nat2 s a b fun a b => toString (diff a b)
  | ["contains", a, b] => nat2 s a b fun a b => showBool (contains a b)
  | ["eq", a, b] => nat2 s a b fun a b => showBool (a == b)
  | ["disjoint", a, b] => nat2 s a b fun a b => showBool (disjoint a b)
  | ["andp", a, p] => nat2 s a p fun a p => toString (inter a (singleton p))
  | ["orp", a, p] => nat2 s a p fun a p => toString (union a (singleton p))
  | ["subp", a, p] => nat2 s a p fun a p => toString (removePlayer a p)
  | ["addp", a, p] => nat2 s a p fun a p => toString (addPlayer a p)
  | ["hasplayer", a, p] => nat2 s a p fun a p => showBool (hasPlayer a p)
  | ["inverted", c, n] => nat2 s c n fun c n => toString (inverted c n)
  | ["subobj", c] => nat1 s c fun c => showNats (subCoalitionsObj c)
  | ["superobj", c, n] => nat2 s c n fun c n => showNats (superCoalitionsObj c n)
  | ["subid", c, n] => nat2 s c n fun c n => showE showNats (subCoalitionsId c n)
  | ["superid", c, n] => nat2 s c n fun c n => showE showNats (superCoalitionsId c n)
  | ["playersid", c, n] => nat2 s c n fun c n => showE showNats (Pred.playersIdE c n)
  | ["sizeid", c, n] => nat2 s c n fun c n => showE toString (Pred.sizeIdE c n)
  | ["struct", n, c] => nat2 s n c fun n c => showInts ((allCoalitions n).map (coalStructure n c))
  | ["sorted", n] => nat1 s n fun n => showNats (allSorted n)
  | ["minimal", n] => nat1 s n fun n => showNats (minimalCoalitions n)
  | ["exclude", ex, l] =>
    match ex.toNat?, parseNats? l with
    | some ex, some l => (s, showNats (excludeCoalition ex l))
    | _, _ => (s, "bad-op")
  | ["issa", n, rtol, atol, vals] =>
    match n.toNat?, parseRat? rtol, parseRat? atol, parseRats? vals with
    | some n, some rtol, some atol, some vals =>
      match valuesFn? n vals with
      | some v => (s, showE showBool (Pred.isSuperadditive n v rtol atol))
      | none => (s, "bad-op")
    | _, _, _, _ => (s, "bad-op")
  | ["ismono", n, vals] =>
    match n.toNat?, parseRats? vals with
    | some n, some vals =>
      match valuesFn? n vals with
      | some v => (s, showE showBool (Pred.isMonotoneDecreasing n v))
      | none => (s, "bad-op")
    | _, _ => (s, "bad-op")
  | ["issam", n, rtol, atol, vals] =>
    match n.toNat?, parseRat? rtol, parseRat? atol, parseRats? vals with
    | some n, some rtol, some atol, some vals =>
      match valuesFn? n vals with
      | some v => (s, showE showBool (Pred.isSam n v rtol atol))
      | none => (s, "bad-op")
    | _, _, _, _ => (s, "bad-op")
  | ["supermod", n, tol, vals] =>
    match n.toNat?, parseRat? tol, parseRats? vals with
    | some n, some tol, some vals =>
      match valuesFn? n vals with
      | some v =>
        (s, match Pred.checkSupermodularity n v tol with
            | none => "none"
            | some (T, S, i) => s!"{T},{S},{i}")
      | none => (s, "bad-op")
    | _, _, _ => (s, "bad-op")
  | _ => (s, "bad-op")

end ICG.Driver.Bits
