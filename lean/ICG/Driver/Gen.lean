/-
  ICG.Driver.Gen — line protocol of domain `gen` (generators.py), stateless.  Every answer is
  `V=<values of coalitions 0 .. 2^n-1>` unless noted; errors `err:<kind>`; unparsable `bad-op`.

    gen factory <n> <owner> <weights> <id|one|sq>     (for `exp` the harness asks for `id` and applies exp itself)
    gen predowner <last> <n>                          → next owner of `predictible_factory`
    gen cheerpick <owner> <draws>                     → the accepted cheerleader, or `none`
    gen cheer <n> <owner> <cheer>                     intended cheerleader construction
    gen cheerkey <n> <owner> <cheer>                  registry key `factory_cheerleader` as the CURRENT code behaves
    gen cheernext <n> <owner>
    gen graph <n> <matrix row-major>
    gen cycle <perm>                                  → `M=<polished matrix of the game> V=<values>`
    gen additive <n> <weights>
    gen xos <n> <k> <k·n weights> <normalize 0|1> <normalize_additive 0|1>
    gen xs <n> <singles>
    gen xsud <n> <players> <values>                   the `num_unit_demand` variant → `S=<singletons> V=…`
    gen applyor <n> <values1> <values2>
    gen oxs <n> <k> <k·n singles> <normalize 0|1>
    gen kbudget <n> <k>
    gen coverage <n> <mult> <indices>
-/
import ICG.Model.Generators
import ICG.Driver.Proto
namespace ICG.Driver.Gen
open ICG ICG.Proto ICG.Norm ICG.Gen

abbrev State := Unit
def init : State := ()

def vecOf (l : List Rat) : Nat → Rat :=
  let a := l.toArray
  fun i => if h : i < a.size then a[i] else 0

def matOf (n : Nat) (l : List Rat) : Nat → Nat → Rat :=
  let a := l.toArray
  fun r c => if h : r * n + c < a.size then a[r * n + c] else 0

def chunks {β} (n : Nat) : Nat → List β → List (List β)
  | 0, _ => []
  | k + 1, l => l.take n :: chunks n k (l.drop n)

def showVals (n : Nat) (v : Nat → Rat) : String := s!"V={showRats ((allCoalitions n).map v)}"
def showIntVals (n : Nat) (v : Nat → Int) : String := s!"V={showRats ((allCoalitions n).map (fun c => (v c : Rat)))}"

def answer (n : Nat) (r : Except Err (Nat → Rat)) : String :=
  match r with
  | .ok v => showVals n v
  | .error e => toString e

def answerInt (n : Nat) (r : Except Err (Nat → Int)) : String :=
  match r with
  | .ok v => showIntVals n v
  | .error e => toString e

def parseBool? (s : String) : Option Bool :=
  if s = "1" then some true else if s = "0" then some false else none

def handle (s : State) : List String → State × String
  | ["factory", n, owner, ws, fn] =>
    match n.toNat?, owner.toNat?, parseRats? ws with
    | some n, some owner, some ws =>
      if ws.length = n ∧ owner < n then
        let w := vecOf ws
        if fn = "id" then (s, showVals n (factory owner w fnId))
        else if fn = "one" then (s, showVals n (factory owner w fnOne))
        else if fn = "sq" then (s, showVals n (factory owner w fnSq))
        else (s, "bad-op")
      else (s, "bad-op")
    | _, _, _ => (s, "bad-op")
  | ["predowner", last, n] =>
    match last.toNat?, n.toNat? with
    | some last, some n => if n = 0 then (s, "bad-op") else (s, toString (predictibleOwner last n))
    | _, _ => (s, "bad-op")
  | ["cheerpick", owner, draws] =>
    match owner.toNat?, parseNats? draws with
    | some owner, some draws =>
      (s, match cheerPick owner draws with | some c => toString c | none => "none")
    | _, _ => (s, "bad-op")
  | ["cheer", n, owner, cheer] =>
    match n.toNat?, owner.toNat?, cheer.toNat? with
    | some n, some owner, some cheer => (s, showIntVals n (factoryCheerleader owner cheer))
    | _, _, _ => (s, "bad-op")
  | ["cheerkey", n, owner, cheer] =>
    match n.toNat?, owner.toNat?, cheer.toNat? with
    | some n, some owner, some cheer => (s, answerInt n (factoryCheerleaderKey owner cheer))
    | _, _, _ => (s, "bad-op")
  | ["cheernext", n, owner] =>
    match n.toNat?, owner.toNat? with
    | some n, some owner => if n = 0 then (s, "bad-op") else (s, answerInt n (factoryCheerleaderNext n owner))
    | _, _ => (s, "bad-op")
  | ["graph", n, mat] =>
    match n.toNat?, parseRats? mat with
    | some n, some mat =>
      if mat.length = n * n then (s, showVals n (graphGame n (matOf n mat))) else (s, "bad-op")
    | _, _ => (s, "bad-op")
  | ["cycle", perm] =>
    match parseNats? perm with
    | some perm =>
      let n := perm.length
      let m : Nat → Nat → Rat := (GraphGame.ofMatrix n (cycleMatrix perm)).m   -- as exposed by the game: polished
      let ml := (List.range n).flatMap (fun r => (List.range n).map (fun c => m r c))
      (s, s!"M={showRats ml} {showVals n (cycle perm)}")
    | none => (s, "bad-op")
  | ["additive", n, ws] =>
    match n.toNat?, parseRats? ws with
    | some n, some ws => if ws.length = n then (s, showVals n (additive (vecOf ws))) else (s, "bad-op")
    | _, _ => (s, "bad-op")
  | ["xos", n, k, ws, nrm, nadd] =>
    match n.toNat?, k.toNat?, parseRats? ws, parseBool? nrm, parseBool? nadd with
    | some n, some k, some ws, some nrm, some nadd =>
      if ws.length = k * n then
        (s, answer n (xos n ((chunks n k ws).map vecOf) nrm nadd))
      else (s, "bad-op")
    | _, _, _, _, _ => (s, "bad-op")
  | ["xs", n, ss] =>
    match n.toNat?, parseRats? ss with
    | some n, some ss => if ss.length = n then (s, showVals n (xs (vecOf ss))) else (s, "bad-op")
    | _, _ => (s, "bad-op")
  | ["xsud", n, ps, xs_] =>
    match n.toNat?, parseNats? ps, parseRats? xs_ with
    | some n, some ps, some xv =>
      if ps.length = xv.length ∧ ps.all (· < n) then
        let sg : Nat → Rat := unitDemandSingles (ps.zip xv)
        (s, s!"S={showRats ((List.range n).map sg)} {showVals n (xsUnitDemand (ps.zip xv))}")
      else (s, "bad-op")
    | _, _, _ => (s, "bad-op")
  | ["applyor", n, a, b] =>
    match n.toNat?, parseRats? a, parseRats? b with
    | some n, some a, some b =>
      if a.length = 2 ^ n ∧ b.length = 2 ^ n then
        let o := applyOrFn (vecOf a) (vecOf b) n      -- `applyOr … = o.f`
        (s, showVals n o.f)
      else (s, "bad-op")
    | _, _, _ => (s, "bad-op")
  | ["oxs", n, k, ss, nrm] =>
    match n.toNat?, k.toNat?, parseRats? ss, parseBool? nrm with
    | some n, some k, some ss, some nrm =>
      if ss.length = k * n then
        (s, answer n (oxsOfSingles n ((chunks n k ss).map vecOf) nrm))
      else (s, "bad-op")
    | _, _, _, _ => (s, "bad-op")
  | ["kbudget", n, k] =>
    match n.toNat?, k.toNat? with
    | some n, some k => (s, showIntVals n (kBudget k))
    | _, _ => (s, "bad-op")
  | ["coverage", n, mult, idx] =>
    match n.toNat?, mult.toNat?, parseNats? idx with
    | some n, some mult, some idx => (s, answerInt n (coverage n mult idx))
    | _, _, _ => (s, "bad-op")
  | _ => (s, "bad-op")

end ICG.Driver.Gen
