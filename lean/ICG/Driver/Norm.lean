/-
  ICG.Driver.Norm — line protocol of domain `norm` (normalize.py / graph_game.py), stateless.

    norm icg <n> <values> [<rtol>]         table `IncompleteCooperativeGame(n); set_values(values)`, then `normalize_game`
                                           → `I=<grand − Σ singletons> S=<singleton values> L=<lower column> U=<upper column>`
    norm icgpart <n> <ids> <values> [<rtol>]  `set_known_values(values, ids)` then `normalize_game` (error kinds of unknown rows)
    norm closed <n> <values> [<rtol>]      the closed form `normVal` → `V=<values>`
    norm graph <n> <matrix row-major>      `GraphCooperativeGame(matrix)`, `normalize_game`
                                           → `I=… S=… M=<matrix after> V=<values after>`
    norm gtable <n> <matrix row-major>     values of the graph game before normalisation → `V=…`
    norm denorm <n> <g> <singles> <values> `denormalize_game` on the full table of `values` → `L=… U=…`
    norm gdenorm <n> <g> <matrix>          `_denormalize_graph_game` → `M=… V=…`
  errors: `err:<kind>`; anything unparsable: `bad-op`.

  `icg`, `icgpart` and `closed` take an optional last argument `<rtol>`: the relative tolerance of the additivity
  guard of `_normalize_icg`.  Without it they use `ICG.Norm.defaultRtol`, the exact rational value of the
  code's float literal `1e-9` (4835703278458517 / 2^82).
-/
import ICG.Model.Normalize
import ICG.Driver.Proto
namespace ICG.Driver.Norm
open ICG ICG.Proto ICG.Norm

abbrev State := Unit
def init : State := ()

def matOf (n : Nat) (l : List Rat) : Nat → Nat → Rat :=
  let a := l.toArray
  fun r c => if h : r * n + c < a.size then a[r * n + c] else 0

def matList (n : Nat) (m : Nat → Nat → Rat) : List Rat :=
  (List.range n).flatMap (fun r => (List.range n).map (fun c => m r c))

def showInfo (info : Rat × List Rat) : String := s!"I={showRat info.1} S={showRats info.2}"

def showTable (t : Table Rat) : String := s!"L={showRats t.getLowerBounds} U={showRats t.getUpperBounds}"

def answer (r : Except Err String) : String :=
  match r with
  | .ok s => s
  | .error e => toString e

/-- `normalize_game` on `IncompleteCooperativeGame(n); set_values(vals)` -/
def opIcg (rtol : Rat) (n vals : String) : String :=
  match n.toNat?, parseRats? vals with
  | some n, some vals =>
    answer do
      let t ← (Table.init (α := Rat) n).setValues vals none
      let (info, t') ← normalizeGame rtol t.compactT
      pure s!"{showInfo info} {showTable t'}"
  | _, _ => "bad-op"

/-- `normalize_game` after `set_known_values(vals, ids)` -/
def opIcgPart (rtol : Rat) (n ids vals : String) : String :=
  match n.toNat?, parseNats? ids, parseRats? vals with
  | some n, some ids, some vals =>
    answer do
      let t ← match (Table.init (α := Rat) n).setKnownValues vals (some ids) with
        | .ok t => pure t
        | .error (e, _) => throw e
      let (info, t') ← normalizeGame rtol t.compactT
      pure s!"{showInfo info} {showTable t'}"
  | _, _, _ => "bad-op"

/-- the closed form `normVal` -/
def opClosed (rtol : Rat) (n vals : String) : String :=
  match n.toNat?, parseRats? vals with
  | some n, some vals =>
    if vals.length = 2 ^ n then
      let a := vals.toArray
      let v : Nat → Rat := fun c => if h : c < a.size then a[c] else 0
      s!"V={showRats ((allCoalitions n).map (normVal n rtol v))}"
    else "bad-op"
  | _, _ => "bad-op"

def handle (s : State) : List String → State × String
  | ["icg", n, vals] => (s, opIcg defaultRtol n vals)
  | ["icg", n, vals, rtol] =>
    match parseRat? rtol with
    | some rtol => (s, opIcg rtol n vals)
    | none => (s, "bad-op")
  | ["icgpart", n, ids, vals] => (s, opIcgPart defaultRtol n ids vals)
  | ["icgpart", n, ids, vals, rtol] =>
    match parseRat? rtol with
    | some rtol => (s, opIcgPart rtol n ids vals)
    | none => (s, "bad-op")
  | ["closed", n, vals] => (s, opClosed defaultRtol n vals)
  | ["closed", n, vals, rtol] =>
    match parseRat? rtol with
    | some rtol => (s, opClosed rtol n vals)
    | none => (s, "bad-op")
  | ["graph", n, mat] =>
    match n.toNat?, parseRats? mat with
    | some n, some mat =>
      if mat.length = n * n then
        let g := GraphGame.ofMatrix n (matOf n mat)
        let (info, g') := normalizeGameGraph g
        (s, s!"{showInfo info} M={showRats (matList n g'.m)} V={showRats (graphValues g')}")
      else (s, "bad-op")
    | _, _ => (s, "bad-op")
  | ["gtable", n, mat] =>
    match n.toNat?, parseRats? mat with
    | some n, some mat =>
      if mat.length = n * n then
        (s, s!"V={showRats (graphValues (GraphGame.ofMatrix n (matOf n mat)))}")
      else (s, "bad-op")
    | _, _ => (s, "bad-op")
  | ["denorm", n, g, singles, vals] =>
    match n.toNat?, parseRat? g, parseRats? singles, parseRats? vals with
    | some n, some g, some singles, some vals =>
      (s, answer do
        let t ← (Table.init (α := Rat) n).setValues vals none
        let t' ← denormalize t.compactT (g, singles)
        pure (showTable t'))
    | _, _, _, _ => (s, "bad-op")
  | ["gdenorm", n, g, mat] =>
    match n.toNat?, parseRat? g, parseRats? mat with
    | some n, some g, some mat =>
      if mat.length = n * n then
        let gm := denormalizeGraph (GraphGame.ofMatrix n (matOf n mat)) (g, [])
        (s, s!"M={showRats (matList n gm.m)} V={showRats (graphValues gm)}")
      else (s, "bad-op")
    | _, _, _ => (s, "bad-op")
  | _ => (s, "bad-op")

end ICG.Driver.Norm
