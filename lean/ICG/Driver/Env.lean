/-
  ICG.Driver.Env — line protocol of domain `env`: the reveal environment, the solvers and the
  size-aggregated environment (ICG.Model.Env) at `α := Rat`.

  The bound computer and the gap function are parameters of the model.  The driver instantiates them
  per environment, chosen at `new`:
    computer  `sa` | `sac` | `sam:<r>`   the model's own `Computer.run` (ICG.Model.Bounds)
              `ext`                      an *oracle table* fed through the protocol: the bounds the REAL
                                         computer produced on a fresh real game holding a given knowledge
    gap       `l1`                       Σ (upper − lower) over all rows, computed here
              `ext`                      the gap the REAL gap function returned for that knowledge
  Oracle entries are keyed by the knowledge bit string (`K=` of a dump) of the table the MODEL is in when it
  calls `compute` / `gap`, so the model — not the harness — decides which knowledge each call sees.
  A missing entry answers `err:nan` (never produced otherwise in this domain).

  Lines (after the leading `env`):
    oracle <name> <Kbits> <L|err:kind> <U|-> <gap|err:kind>     register / overwrite one oracle entry
    oracle-clear <name>
    new <name> <n> <computer> <gapkind> <budget|none> <initial ids> <full values> <norm values>
    info <name>                 ik=<sorted ids> ex=<ids in list order> n=<n> steps=<int> budget=<..>
    reset <name> <full values> <norm values>        obs=<..>            | err:kind
    step <name> <int> / unstep <name> <int>         obs=.. r=.. done=0|1 c=<id>  | err:kind
    mask / state / reward / done / steps / dump <name>
    snap <name>                 mask=.. state=.. r=.. done=.. steps=.. K=.. L=.. U=..
    solve <name> greedy|greedy_worst|largest        a=<index>           | err:kind
    random <name> <index>                           1 | 0   (is this a result `RandomSolver` can return?)
    linsizes / linmask / linstate <name>
    lincands <name> <k>
    linreset <name> <full values> <norm values>     obs=<..>            | err:kind
    linstep <name> <k> <chosen index>               obs=.. r=.. done=.. c=..  | err:kind | illegal-choice
    drop <name>
-/
import ICG.Model.Env
import ICG.Model.Bounds
import ICG.Driver.Proto
namespace ICG.Driver.Env
open ICG ICG.Proto

inductive Comp where
  | model (c : Computer)
  | ext

inductive GapKind where
  | l1 | ext

structure Entry where
  key : String
  bounds : Except Err (Array Rat × Array Rat)
  gap : Except Err Rat

structure Slot where
  comp : Comp
  gapk : GapKind
  env : Env Rat

structure State where
  envs : List (String × Slot) := []
  oracles : List (String × List Entry) := []

def init : State := {}

def getSlot? (s : State) (name : String) : Option Slot := (s.envs.find? (·.1 == name)).map (·.2)
def getOracle (s : State) (name : String) : List Entry :=
  match s.oracles.find? (·.1 == name) with | some p => p.2 | none => []

def compactEnv (e : Env Rat) : Env Rat := { e with table := e.table.compactT }

def putSlot (s : State) (name : String) (sl : Slot) : State :=
  { s with envs := (name, { sl with env := compactEnv sl.env }) :: s.envs.filter (·.1 != name) }

def keyOf (t : Table Rat) : String := showBools t.areValuesKnown

def oracleCompute (o : List Entry) (t : Table Rat) : Except Err (Table Rat) :=
  match o.find? (·.key == keyOf t) with
  | none => .error .nan
  | some en =>
    match en.bounds with
    | .error err => .error err
    | .ok (L, U) =>
      .ok { t with lo := fun c => if h : c < L.size then L[c] else t.lo c,
                   hi := fun c => if h : c < U.size then U[c] else t.hi c }

def oracleGap (o : List Entry) (t : Table Rat) : Except Err Rat :=
  match o.find? (·.key == keyOf t) with
  | none => .error .nan
  | some en => en.gap

def l1Gap (t : Table Rat) : Except Err Rat :=
  .ok (listSum ((List.range t.rows).map (fun c => t.hi c - t.lo c)))

def computeOf (o : List Entry) : Comp → Table Rat → Except Err (Table Rat)
  | .model c => fun t => (c.run t).map Table.compactT
  | .ext => oracleCompute o

def gapOf (o : List Entry) : GapKind → Table Rat → Except Err Rat
  | .l1 => l1Gap
  | .ext => oracleGap o

def parseComp? (s : String) : Option Comp :=
  if s = "ext" then some .ext
  else if s = "sa" then some (.model .sa)
  else if s = "sac" then some (.model .sac)
  else match s.splitOn ":" with
    | ["sam", r] => r.toNat?.map (fun r => .model (.sam r))
    | _ => none

def parseGap? (s : String) : Option GapKind :=
  if s = "ext" then some .ext else if s = "l1" then some .l1 else none

def parseBudget? (s : String) : Option (Option Nat) :=
  if s = "none" then some none else s.toNat?.map some

def parseErr? (s : String) : Option Err :=
  if s = "err:assert" then some .assert else if s = "err:value" then some .value
  else if s = "err:index" then some .index else if s = "err:attr" then some .attr
  else if s = "err:nan" then some .nan else if s = "err:other" then some .other else none

def fnOf (l : List Rat) : Nat → Rat :=
  let a := l.toArray
  fun c => if h : c < a.size then a[c] else 0

def showOut (o : StepOut Rat) : String :=
  s!"obs={showRats o.obs} r={showRat o.reward} done={if o.done then "1" else "0"} c={o.chosen}"

def dump (t : Table Rat) : String :=
  s!"K={showBools t.areValuesKnown} L={showRats t.getLowerBounds} U={showRats t.getUpperBounds}"

/-- run an operation that returns a new environment or an error carrying the environment left behind -/
def updE {β} (s : State) (name : String) (sl : Slot)
    (r : Except (Err × Env Rat) (Env Rat × β)) (show_ : β → String) : State × String :=
  match r with
  | .ok (e', b) => (putSlot s name { sl with env := e' }, show_ b)
  | .error (err, e') => (putSlot s name { sl with env := e' }, toString err)

def handle (s : State) : List String → State × String
  | ["oracle", name, key, l, u, g] =>
    let bounds? : Option (Except Err (Array Rat × Array Rat)) :=
      match parseErr? l with
      | some err => some (.error err)
      | none => match parseRats? l, parseRats? u with
        | some L, some U => some (.ok (L.toArray, U.toArray))
        | _, _ => none
    let gap? : Option (Except Err Rat) :=
      match parseErr? g with
      | some err => some (.error err)
      | none => (parseRat? g).map .ok
    match bounds?, gap? with
    | some b, some g =>
      let o := getOracle s name
      let o' := { key := key, bounds := b, gap := g : Entry } :: o.filter (·.key != key)
      ({ s with oracles := (name, o') :: s.oracles.filter (·.1 != name) }, "ok")
    | _, _ => (s, "bad-op")
  | ["oracle-clear", name] => ({ s with oracles := s.oracles.filter (·.1 != name) }, "ok")
  | ["new", name, n, comp, gapk, budget, initial, full, norm] =>
    match n.toNat?, parseComp? comp, parseGap? gapk, parseBudget? budget, parseNats? initial,
          parseRats? full, parseRats? norm with
    | some n, some comp, some gapk, some budget, some initial, some full, some norm =>
      let o := getOracle s name
      match Env.mkEnv (computeOf o comp) n initial budget (fnOf full) (fnOf norm) with
      | .ok e => (putSlot s name { comp := comp, gapk := gapk, env := e }, "ok")
      | .error err => ({ s with envs := s.envs.filter (·.1 != name) }, toString err)
    | _, _, _, _, _, _, _ => (s, "bad-op")
  | ["info", name] =>
    match getSlot? s name with
    | some sl =>
      let e := sl.env
      (s, s!"ik={showNats (sortedIds e.initiallyKnown)} ex={showNats e.explorable} n={e.table.n} steps={e.steps} budget={match e.budget with | some b => toString b | none => "none"}")
    | none => (s, "bad-op")
  | ["reset", name, full, norm] =>
    match getSlot? s name, parseRats? full, parseRats? norm with
    | some sl, some full, some norm =>
      updE s name sl (Env.reset (computeOf (getOracle s name) sl.comp) sl.env (fnOf full) (fnOf norm))
        (fun obs => s!"obs={showRats obs}")
    | _, _, _ => (s, "bad-op")
  | ["step", name, a] =>
    match getSlot? s name, a.toInt? with
    | some sl, some a =>
      let o := getOracle s name
      updE s name sl (Env.step (computeOf o sl.comp) (gapOf o sl.gapk) sl.env a) showOut
    | _, _ => (s, "bad-op")
  | ["unstep", name, a] =>
    match getSlot? s name, a.toInt? with
    | some sl, some a =>
      let o := getOracle s name
      updE s name sl (Env.unstep (computeOf o sl.comp) (gapOf o sl.gapk) sl.env a) showOut
    | _, _ => (s, "bad-op")
  | ["mask", name] =>
    match getSlot? s name with
    | some sl => (s, showBools sl.env.actionMasks)
    | none => (s, "bad-op")
  | ["state", name] =>
    match getSlot? s name with
    | some sl => (s, showRats sl.env.state)
    | none => (s, "bad-op")
  | ["reward", name] =>
    match getSlot? s name with
    | some sl =>
      (s, match sl.env.reward (gapOf (getOracle s name) sl.gapk) with
          | .ok r => showRat r | .error err => toString err)
    | none => (s, "bad-op")
  | ["done", name] =>
    match getSlot? s name with
    | some sl => (s, if sl.env.done then "1" else "0")
    | none => (s, "bad-op")
  | ["steps", name] =>
    match getSlot? s name with
    | some sl => (s, toString sl.env.steps)
    | none => (s, "bad-op")
  | ["dump", name] =>
    match getSlot? s name with
    | some sl => (s, dump sl.env.table)
    | none => (s, "bad-op")
  | ["snap", name] =>
    match getSlot? s name with
    | some sl =>
      let e := sl.env
      let r := match e.reward (gapOf (getOracle s name) sl.gapk) with
        | .ok r => showRat r | .error err => toString err
      (s, s!"mask={showBools e.actionMasks} state={showRats e.state} r={r} done={if e.done then "1" else "0"} steps={e.steps} {dump e.table}")
    | none => (s, "bad-op")
  | ["solve", name, which] =>
    match getSlot? s name with
    | some sl =>
      let o := getOracle s name
      if which = "greedy" || which = "greedy_worst" then
        updE s name sl (Env.greedy (computeOf o sl.comp) (gapOf o sl.gapk) (which = "greedy_worst") sl.env)
          (fun a => s!"a={a}")
      else if which = "largest" then
        (s, match sl.env.largest with | .ok a => s!"a={a}" | .error err => toString err)
      else (s, "bad-op")
    | none => (s, "bad-op")
  | ["random", name, a] =>
    match getSlot? s name, a.toNat? with
    | some sl, some a => (s, if sl.env.randomOk a then "1" else "0")
    | _, _ => (s, "bad-op")
  | ["linsizes", name] =>
    match getSlot? s name with
    | some sl => (s, showNats sl.env.subsetSizes)
    | none => (s, "bad-op")
  | ["linmask", name] =>
    match getSlot? s name with
    | some sl => (s, match sl.env.linMask with | .ok l => showBools l | .error err => toString err)
    | none => (s, "bad-op")
  | ["linstate", name] =>
    match getSlot? s name with
    | some sl => (s, match sl.env.linState with | .ok l => showRats l | .error err => toString err)
    | none => (s, "bad-op")
  | ["lincands", name, k] =>
    match getSlot? s name, k.toNat? with
    | some sl, some k => (s, showNats (sl.env.linCandidates k))
    | _, _ => (s, "bad-op")
  | ["linreset", name, full, norm] =>
    match getSlot? s name, parseRats? full, parseRats? norm with
    | some sl, some full, some norm =>
      updE s name sl (Env.linReset (computeOf (getOracle s name) sl.comp) sl.env (fnOf full) (fnOf norm))
        (fun obs => s!"obs={showRats obs}")
    | _, _, _ => (s, "bad-op")
  | ["linstep", name, k, chosen] =>
    match getSlot? s name, k.toInt?, chosen.toNat? with
    | some sl, some k, some chosen =>
      let o := getOracle s name
      match Env.linStep (computeOf o sl.comp) (gapOf o sl.gapk) sl.env k chosen with
      | some r => updE s name sl r showOut
      | none => (s, "illegal-choice")
    | _, _, _ => (s, "bad-op")
  | ["drop", name] =>
    ({ envs := s.envs.filter (·.1 != name), oracles := s.oracles.filter (·.1 != name) }, "ok")
  | _ => (s, "bad-op")

end ICG.Driver.Env
