/-
  ICG.Driver.Env — line protocol of domain `env` (stub: to be filled in by the domain's owner).
-/
import ICG.Driver.Proto
namespace ICG.Driver.Env
open ICG ICG.Proto

abbrev State := Unit
def init : State := ()

def handle (s : State) : List String → State × String
  | _ => (s, "bad-op")

end ICG.Driver.Env
