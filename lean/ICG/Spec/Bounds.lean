/-
  ICG.Spec.Bounds — what the bound properties (C01–C04, C07, C08) talk about, as plain mathematics
  over bit masks (core Lean only; no table, no passes, no order of evaluation).

  * `SA n v`, `MonoDec n v`      : the two game classes
  * `MinInfo n known`            : ∅, N and every singleton are known
  * `Completion n known val w`   : `w` is a superadditive game agreeing with the known values
  * `splitSpec / loSpec`         : lower bound by recursion over proper two-part splits
  * `upSpec`                     : upper bound, min over known proper supersets
  * `closeSpec`, `samB`, `samUp` : the sequence computed by the SAM approximation
-/
import ICG.Model.Basic
namespace ICG

variable {α : Type}

/-- `x` is a sub-mask of `c` -/
def isSub (x c : Nat) : Bool := x &&& c == x

/-- proper non-empty sub-masks of `c`, in id order -/
def properSubs (c : Nat) : List Nat :=
  (List.range (c + 1)).filter (fun x => isSub x c && x != 0 && x != c)

theorem mem_properSubs {c x : Nat} : x ∈ properSubs c ↔ x &&& c = x ∧ x ≠ 0 ∧ x ≠ c := by
  simp only [properSubs, isSub, List.mem_filter, List.mem_range, Bool.and_eq_true, beq_iff_eq,
    bne_iff_ne, ne_eq]
  constructor
  · rintro ⟨_, ⟨h1, h2⟩, h3⟩; exact ⟨h1, h2, h3⟩
  · rintro ⟨h1, h2, h3⟩
    refine ⟨?_, ⟨h1, h2⟩, h3⟩
    have : x ≤ c := by rw [← h1]; exact Nat.and_le_right
    omega

theorem properSubs_lt {c x : Nat} (hx : x ∈ properSubs c) : x < c ∧ c - x < c := by
  obtain ⟨h1, h2, h3⟩ := mem_properSubs.mp hx
  have : x ≤ c := by rw [← h1]; exact Nat.and_le_right
  omega

/-! ### game classes and knowledge -/

section classes
variable [Add α] [LE α]

/-- superadditive on `n` players -/
def SA (n : Nat) (v : Nat → α) : Prop :=
  ∀ a b, a < 2 ^ n → b < 2 ^ n → a &&& b = 0 → v a + v b ≤ v (a ||| b)

/-- monotone non-increasing along inclusion -/
def MonoDec (n : Nat) (v : Nat → α) : Prop :=
  ∀ x c, c < 2 ^ n → x &&& c = x → v c ≤ v x

/-- minimal information: ∅, the grand coalition and every singleton are known -/
def MinInfo (n : Nat) (known : Nat → Bool) : Prop :=
  known 0 = true ∧ known (2 ^ n - 1) = true ∧ ∀ i, i < n → known (2 ^ i) = true

/-- `w` is a superadditive completion of the partial game `(known, val)` -/
def Completion (n : Nat) (known : Nat → Bool) (val : Nat → α) (w : Nat → α) : Prop :=
  SA n w ∧ ∀ c, c < 2 ^ n → known c = true → w c = val c
end classes

/-! ### lower bounds -/

section lower
variable [Add α] [Max α]

/-- lower bound by recursion over proper two-part splits, with optional extra candidates per coalition
    (`extra = fun _ => []` for the plain superadditive bound).  For an unknown coalition without any
    candidate (∅ or a singleton — excluded by `MinInfo`) the value is the junk `v c`. -/
def splitSpec (known : Nat → Bool) (v : Nat → α) (extra : Nat → List α) (c : Nat) : α :=
  if known c then v c else
    match listMax? (extra c ++ (properSubs c).attach.map fun ⟨x, hx⟩ =>
        have := (properSubs_lt hx).1
        have := (properSubs_lt hx).2
        splitSpec known v extra x + splitSpec known v extra (c - x)) with
    | some m => m
    | none => v c
termination_by c

/-- the superadditive lower bound: known ↦ value, unknown ↦ max over proper splits -/
def loSpec (known : Nat → Bool) (v : Nat → α) : Nat → α := splitSpec known v (fun _ => [])

/-- monotone closure of a lower-bound vector: unknown ↦ max over all supersets within `n` (itself included) -/
def closeSpec (n : Nat) (known : Nat → Bool) (v : Nat → α) (A : Nat → α) (c : Nat) : α :=
  if known c then v c else
    match listMax? (((List.range (2 ^ n)).filter (fun T => isSub c T)).map A) with
    | some m => m
    | none => v c

/-- lower bounds of the SAM approximation after round `i` (rounds are numbered from 0) -/
def samB (n : Nat) (known : Nat → Bool) (v : Nat → α) : Nat → Nat → α
  | 0 => closeSpec n known v (loSpec known v)
  | i + 1 => closeSpec n known v (splitSpec known v (fun c => [samB n known v i c + v 0]))
end lower

/-! ### upper bounds -/

section upper
variable [Add α] [Sub α] [Max α] [Min α]

/-- known proper supersets of `c` within `n` players, id order -/
def knownSupers (n : Nat) (known : Nat → Bool) (c : Nat) : List Nat :=
  (List.range (2 ^ n)).filter (fun T => isSub c T && T != c && known T)

/-- known proper non-empty sub-coalitions of `c`, id order -/
def knownSubs (known : Nat → Bool) (c : Nat) : List Nat := (properSubs c).filter known

/-- upper bound against a given lower-bound vector `lo`: min over known proper supersets `T` of
    `v T − lo (T ∖ c)` -/
def upAgainst (n : Nat) (known : Nat → Bool) (v : Nat → α) (lo : Nat → α) (c : Nat) : α :=
  if known c then v c else
    match listMin? ((knownSupers n known c).map fun T => v T - lo (T - c)) with
    | some m => m
    | none => v c

/-- the superadditive upper bound -/
def upSpec (n : Nat) (known : Nat → Bool) (v : Nat → α) : Nat → α :=
  upAgainst n known v (loSpec known v)

/-- the SAM approximation's upper bound with `r` repetitions -/
def samUp (n : Nat) (known : Nat → Bool) (v : Nat → α) (r : Nat) (c : Nat) : α :=
  if known c then v c else
    match listMin? ((knownSupers n known c).map fun T => v T - samB n known v r (T - c)),
          listMin? ((knownSubs known c).map v) with
    | some a, some b => min a b
    | _, _ => v c
end upper

end ICG
