/-
  ICG.Spec.EnumFacts — the interface between the enumeration lemmas (C18: the model's object-style and
  id-style enumerations of sub- and super-coalitions list exactly the subsets and supersets) and the bounds refinement
  (which only needs *membership* in those enumerations).  `ICG.Lemmas.Enum` proves `enumFacts : EnumFacts`;
  `ICG.Lemmas.Refine*` take `EnumFacts` as a hypothesis.
-/
import ICG.Model.Bounds
import ICG.Spec.Bounds
namespace ICG

structure EnumFacts : Prop where
  /-- `[x for x in get_sub_coalitions(c) if x != c and x != ∅]` lists exactly the proper non-empty sub-masks -/
  saSubs : ∀ c x, x ∈ saSubs c ↔ (x &&& c = x ∧ x ≠ 0 ∧ x ≠ c)
  /-- `get_super_coalitions(c, n)` lists exactly the supersets within `n` players (c itself included) -/
  superObj : ∀ n c T, c < 2 ^ n → (T ∈ superCoalitionsObj c n ↔ (T < 2 ^ n ∧ c &&& T = c))
  /-- the per-n relation table of bounds.py, for a non-empty coalition -/
  struct : ∀ n c d, c < 2 ^ n → d < 2 ^ n → c ≠ 0 →
    coalStructure n c d =
      if d = 0 then -2 else if d = c then 0 else if c &&& d = c then 2 else if d &&& c = d then 1 else -1
  /-- `Coalition.__len__` is strictly monotone along proper inclusion -/
  size_lt : ∀ x c, x &&& c = x → x ≠ c → size x < size c
  /-- and bounded by the number of players -/
  size_le : ∀ n c, c < 2 ^ n → size c ≤ n

end ICG
