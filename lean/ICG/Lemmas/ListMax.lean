/-
  ICG.Lemmas.ListMax — `listMax?` / `listMin?` over a linear order: characterisation by membership.
-/
import ICG.Model.Basic
import Mathlib.Order.Lattice
import Mathlib.Order.MinMax

namespace ICG
variable {α : Type} [LinearOrder α]

theorem foldl_max_ge (l : List α) (a : α) : a ≤ l.foldl max a := by
  induction l generalizing a with
  | nil => exact le_rfl
  | cons y l ih => exact le_trans (le_max_left a y) (ih (max a y))

theorem foldl_max_mem_ge (l : List α) (a x : α) (hx : x ∈ l) : x ≤ l.foldl max a := by
  induction l generalizing a with
  | nil => cases hx
  | cons y l ih =>
    simp only [List.foldl]
    rcases List.mem_cons.mp hx with rfl | h
    · exact le_trans (le_max_right a x) (foldl_max_ge l _)
    · exact ih _ h

theorem foldl_max_mem (l : List α) (a : α) : l.foldl max a = a ∨ l.foldl max a ∈ l := by
  induction l generalizing a with
  | nil => exact Or.inl rfl
  | cons y l ih =>
    simp only [List.foldl]
    rcases ih (max a y) with h | h
    · rcases max_choice a y with h' | h'
      · left; rw [h, h']
      · right; rw [h, h']; exact List.mem_cons_self
    · right; exact List.mem_cons_of_mem _ h

theorem listMax?_eq_none {l : List α} : listMax? l = none ↔ l = [] := by
  cases l <;> simp [listMax?]

theorem listMax?_isSome {l : List α} (h : l ≠ []) : ∃ m, listMax? l = some m := by
  cases l with
  | nil => exact absurd rfl h
  | cons a l => exact ⟨_, rfl⟩

theorem listMax?_mem {l : List α} {m : α} (h : listMax? l = some m) : m ∈ l := by
  cases l with
  | nil => simp [listMax?] at h
  | cons a l =>
    simp only [listMax?, Option.some.injEq] at h
    subst h
    rcases foldl_max_mem l a with h | h
    · rw [h]; exact List.mem_cons_self
    · exact List.mem_cons_of_mem _ h

theorem le_listMax? {l : List α} {m x : α} (h : listMax? l = some m) (hx : x ∈ l) : x ≤ m := by
  cases l with
  | nil => cases hx
  | cons a l =>
    simp only [listMax?, Option.some.injEq] at h
    subst h
    rcases List.mem_cons.mp hx with rfl | hx
    · exact foldl_max_ge l x
    · exact foldl_max_mem_ge l a x hx

theorem listMax?_le {l : List α} {m b : α} (h : listMax? l = some m) (hb : ∀ x ∈ l, x ≤ b) : m ≤ b :=
  hb m (listMax?_mem h)

/-- the maximum is determined by membership: any member that dominates the list is the result -/
theorem listMax?_eq_some_of {l : List α} {m : α} (hm : m ∈ l) (hub : ∀ x ∈ l, x ≤ m) :
    listMax? l = some m := by
  obtain ⟨m', h'⟩ := listMax?_isSome (l := l) (by rintro rfl; cases hm)
  rw [h']
  exact congrArg some (le_antisymm (hub m' (listMax?_mem h')) (le_listMax? h' hm))

theorem listMax?_eq_some_iff {l : List α} {m : α} :
    listMax? l = some m ↔ m ∈ l ∧ ∀ x ∈ l, x ≤ m :=
  ⟨fun h => ⟨listMax?_mem h, fun _ hx => le_listMax? h hx⟩, fun ⟨h1, h2⟩ => listMax?_eq_some_of h1 h2⟩

/-- lists with the same members have the same maximum -/
theorem listMax?_congr {l l' : List α} (h : ∀ x, x ∈ l ↔ x ∈ l') : listMax? l = listMax? l' := by
  cases hl : listMax? l with
  | none =>
    have : l = [] := listMax?_eq_none.mp hl
    subst this
    have : l' = [] := by
      cases l' with
      | nil => rfl
      | cons a t => exact absurd ((h a).mpr List.mem_cons_self) (by simp)
    subst this; rfl
  | some m =>
    obtain ⟨h1, h2⟩ := listMax?_eq_some_iff.mp hl
    exact (listMax?_eq_some_of ((h m).mp h1) (fun x hx => h2 x ((h x).mpr hx))).symm

/-! ### minimum (order dual) -/

theorem foldl_min_le (l : List α) (a : α) : l.foldl min a ≤ a := by
  induction l generalizing a with
  | nil => exact le_rfl
  | cons y l ih => exact le_trans (ih (min a y)) (min_le_left a y)

theorem foldl_min_mem_le (l : List α) (a x : α) (hx : x ∈ l) : l.foldl min a ≤ x := by
  induction l generalizing a with
  | nil => cases hx
  | cons y l ih =>
    simp only [List.foldl]
    rcases List.mem_cons.mp hx with rfl | h
    · exact le_trans (foldl_min_le l _) (min_le_right a x)
    · exact ih _ h

theorem foldl_min_mem (l : List α) (a : α) : l.foldl min a = a ∨ l.foldl min a ∈ l := by
  induction l generalizing a with
  | nil => exact Or.inl rfl
  | cons y l ih =>
    simp only [List.foldl]
    rcases ih (min a y) with h | h
    · rcases min_choice a y with h' | h'
      · left; rw [h, h']
      · right; rw [h, h']; exact List.mem_cons_self
    · right; exact List.mem_cons_of_mem _ h

theorem listMin?_eq_none {l : List α} : listMin? l = none ↔ l = [] := by
  cases l <;> simp [listMin?]

theorem listMin?_isSome {l : List α} (h : l ≠ []) : ∃ m, listMin? l = some m := by
  cases l with
  | nil => exact absurd rfl h
  | cons a l => exact ⟨_, rfl⟩

theorem listMin?_mem {l : List α} {m : α} (h : listMin? l = some m) : m ∈ l := by
  cases l with
  | nil => simp [listMin?] at h
  | cons a l =>
    simp only [listMin?, Option.some.injEq] at h
    subst h
    rcases foldl_min_mem l a with h | h
    · rw [h]; exact List.mem_cons_self
    · exact List.mem_cons_of_mem _ h

theorem listMin?_le {l : List α} {m x : α} (h : listMin? l = some m) (hx : x ∈ l) : m ≤ x := by
  cases l with
  | nil => cases hx
  | cons a l =>
    simp only [listMin?, Option.some.injEq] at h
    subst h
    rcases List.mem_cons.mp hx with rfl | hx
    · exact foldl_min_le l x
    · exact foldl_min_mem_le l a x hx

theorem le_listMin? {l : List α} {m b : α} (h : listMin? l = some m) (hb : ∀ x ∈ l, b ≤ x) : b ≤ m :=
  hb m (listMin?_mem h)

theorem listMin?_eq_some_of {l : List α} {m : α} (hm : m ∈ l) (hlb : ∀ x ∈ l, m ≤ x) :
    listMin? l = some m := by
  obtain ⟨m', h'⟩ := listMin?_isSome (l := l) (by rintro rfl; cases hm)
  rw [h']
  exact congrArg some (le_antisymm (listMin?_le h' hm) (hlb m' (listMin?_mem h')))

theorem listMin?_eq_some_iff {l : List α} {m : α} :
    listMin? l = some m ↔ m ∈ l ∧ ∀ x ∈ l, m ≤ x :=
  ⟨fun h => ⟨listMin?_mem h, fun _ hx => listMin?_le h hx⟩, fun ⟨h1, h2⟩ => listMin?_eq_some_of h1 h2⟩

theorem listMin?_congr {l l' : List α} (h : ∀ x, x ∈ l ↔ x ∈ l') : listMin? l = listMin? l' := by
  cases hl : listMin? l with
  | none =>
    have : l = [] := listMin?_eq_none.mp hl
    subst this
    have : l' = [] := by
      cases l' with
      | nil => rfl
      | cons a t => exact absurd ((h a).mpr List.mem_cons_self) (by simp)
    subst this; rfl
  | some m =>
    obtain ⟨h1, h2⟩ := listMin?_eq_some_iff.mp hl
    exact (listMin?_eq_some_of ((h m).mp h1) (fun x hx => h2 x ((h x).mpr hx))).symm

end ICG
