/-
  ICG.Lemmas.ExpectedGreedy — the expected-greedy search of run/greedy.py (`get_greedy_rewards`,
  model: ICG.Model.Search.expectedGreedyWith), for property C13:

  "The expected-greedy search extends its sequence by a coalition minimising the mean gap over the sampled
  games, never repeats a coalition, and its gap curve is non-increasing, never below the exhaustive optimum
  and equal to it for zero and one reveals."

  `evalSeq seq` is the vector of gaps of the sequence on the sampled games (a pool call per sequence in the
  code; by C11 it depends on the *set* of the sequence only).  `order acts s` is the iteration order of the
  Python set `possible_actions` — an arbitrary permutation of its contents.
-/
import ICG.Props.C11

namespace ICG.ExpectedGreedy
open ICG ICG.Search

set_option linter.unusedSectionVars false

/-! ### generalities -/

theorem nodup_eraseDups : ∀ (n : Nat) (l : List Nat), l.length ≤ n → l.eraseDups.Nodup := by
  intro n
  induction n with
  | zero => intro l hl; simp only [Nat.le_zero, List.length_eq_zero_iff] at hl; subst hl; simp
  | succ n ih =>
    intro l hl
    cases l with
    | nil => simp
    | cons a as =>
      rw [List.eraseDups_cons, List.nodup_cons]
      refine ⟨?_, ih _ (le_trans (List.length_filter_le _ _) (by simpa using hl))⟩
      intro hmem
      rw [List.mem_eraseDups, List.mem_filter] at hmem
      simp at hmem

theorem mapE_forall₂ {τ ρ ε : Type} (g : τ → Except ε ρ) : ∀ (l : List τ) (rs : List ρ),
    mapE g l = .ok rs → List.Forall₂ (fun t r => g t = .ok r) l rs := by
  intro l
  induction l with
  | nil => intro rs h; simp only [mapE, Except.ok.injEq] at h; subst h; exact .nil
  | cons t ts ih =>
    intro rs h
    simp only [mapE] at h
    cases hg : g t with
    | error e => rw [hg] at h; cases h
    | ok r =>
      rw [hg] at h
      simp only at h
      cases hm : mapE g ts with
      | error e => rw [hm] at h; cases h
      | ok rs' =>
        rw [hm] at h
        simp only [Except.ok.injEq] at h
        subst h
        exact .cons hg (ih rs' hm)

section
variable {α : Type} [Field α] [LinearOrder α] [IsStrictOrderedRing α]

theorem argminGo_spec : ∀ (xs : List α) (i bi : Nat) (bv : α),
    (argminGo xs i bi bv = bi ∧ ∀ x ∈ xs, bv ≤ x) ∨
    (∃ j, ∃ h : j < xs.length, argminGo xs i bi bv = i + j ∧ xs[j] < bv ∧ ∀ x ∈ xs, xs[j] ≤ x) := by
  intro xs
  induction xs with
  | nil => intro i bi bv; left; exact ⟨rfl, by simp⟩
  | cons x xs ih =>
    intro i bi bv
    simp only [argminGo]
    by_cases hx : x < bv
    · simp only [hx, ↓reduceIte]
      right
      rcases ih (i + 1) i x with ⟨h1, h2⟩ | ⟨j, hj, h1, h2, h3⟩
      · refine ⟨0, by simp, by simpa using h1, by simpa using hx, ?_⟩
        intro y hy
        rcases List.mem_cons.mp hy with rfl | hy
        · simp
        · simpa using h2 y hy
      · refine ⟨j + 1, by simpa using hj, by rw [h1]; omega, ?_, ?_⟩
        · simpa using lt_trans h2 hx
        · intro y hy
          rcases List.mem_cons.mp hy with rfl | hy
          · simpa using le_of_lt h2
          · simpa using h3 y hy
    · simp only [hx, ↓reduceIte]
      have hbx : bv ≤ x := not_lt.mp hx
      rcases ih (i + 1) bi bv with ⟨h1, h2⟩ | ⟨j, hj, h1, h2, h3⟩
      · left
        refine ⟨h1, ?_⟩
        intro y hy
        rcases List.mem_cons.mp hy with rfl | hy
        · exact hbx
        · exact h2 y hy
      · right
        refine ⟨j + 1, by simpa using hj, by rw [h1]; omega, by simpa using h2, ?_⟩
        intro y hy
        rcases List.mem_cons.mp hy with rfl | hy
        · simpa using le_trans (le_of_lt h2) hbx
        · simpa using h3 y hy

/-- `np.argmin` returns an index of a minimal element -/
theorem argmin_spec {l : List α} {r : Nat} (h : argmin l = some r) :
    ∃ hr : r < l.length, ∀ x ∈ l, l[r] ≤ x := by
  cases l with
  | nil => simp [argmin] at h
  | cons a l =>
    simp only [argmin, Option.some.injEq] at h
    rcases argminGo_spec l 1 0 a with ⟨h1, h2⟩ | ⟨j, hj, h1, h2, h3⟩
    · rw [h1] at h; subst h
      refine ⟨by simp, ?_⟩
      intro y hy
      rcases List.mem_cons.mp hy with rfl | hy
      · simp
      · simpa using h2 y hy
    · rw [h1] at h; subst h
      refine ⟨by simp only [List.length_cons]; omega, ?_⟩
      have : (a :: l)[1 + j]'(by simp only [List.length_cons]; omega) = l[j] := by
        simp [Nat.add_comm 1 j]
      intro y hy
      rw [this]
      rcases List.mem_cons.mp hy with rfl | hy
      · exact le_of_lt h2
      · exact h3 y hy

/-! ### the loop invariant -/

variable (evalSeq : List Nat → Except Err (List α)) (order : List Nat → List Nat → List Nat)

/-- what holds of the loop state of `get_greedy_rewards` before every pass; `E` = the explorable coalitions -/
structure GInv (E : List Nat) (maxSteps : Nat) (st : GState α) : Prop where
  rowsLen : st.rows.length = maxSteps + 1
  actsLen : st.acts.length ≤ maxSteps
  actsNodup : st.acts.Nodup
  possNodup : st.possible.Nodup
  actsE : ∀ a ∈ st.acts, a ∈ E ∧ a ∉ st.possible
  possE : ∀ c ∈ st.possible, c ∈ E
  cover : ∀ c ∈ E, c ∈ st.acts ∨ c ∈ st.possible
  pnas : (st.pnas = [[]] ∧ st.acts = []) ∨ st.pnas = (order st.acts st.possible).map (fun a => st.acts ++ [a])
  rowsOk : ∀ i, i ≤ st.acts.length → ∃ r, evalSeq (st.acts.take i) = .ok r ∧ st.rows[i]? = some r
  minOk : ∀ i, i < st.acts.length → ∀ c ∈ E, c ∉ st.acts.take i →
    ∃ r rc, evalSeq (st.acts.take (i + 1)) = .ok r ∧ evalSeq (st.acts.take i ++ [c]) = .ok rc ∧ mean r ≤ mean rc

/-- number of passes still to come -/
def need (maxSteps : Nat) (st : GState α) : Nat :=
  maxSteps - st.acts.length + (if st.pnas = [[]] then 1 else 0)

theorem pnas_ne (acts l : List Nat) : l.map (fun a => acts ++ [a]) ≠ [[]] := by
  intro h
  cases l with
  | nil => simp at h
  | cons a l => simp at h

theorem greedyIter_inv (hperm : ∀ acts s, (order acts s).Perm s) (E : List Nat) (maxSteps reps : Nat)
    (st st' : GState α) (hinv : GInv evalSeq order E maxSteps st) (hlt : st.acts.length < maxSteps)
    (hiter : greedyIter evalSeq order reps st = .ok st') :
    GInv evalSeq order E maxSteps st' ∧ need maxSteps st' + 1 = need maxSteps st := by
  simp only [greedyIter] at hiter
  cases hm : mapE evalSeq st.pnas with
  | error e => rw [hm] at hiter; cases hiter
  | ok expected =>
    rw [hm] at hiter
    simp only at hiter
    split at hiter
    · cases hiter
    split at hiter
    · cases hiter
    cases hidx : argmin (expected.map mean) with
    | none => rw [hidx] at hiter; cases hiter
    | some idx =>
      rw [hidx] at hiter
      simp only at hiter
      have hF := mapE_forall₂ evalSeq _ _ hm
      have hFlen : st.pnas.length = expected.length := hF.length_eq
      obtain ⟨hidxlt, hmin⟩ := argmin_spec hidx
      simp only [List.length_map] at hidxlt
      have hseq : st.pnas[idx]? = some (st.pnas[idx]'(by omega)) := List.getElem?_eq_getElem (by omega)
      have hrow : expected[idx]? = some expected[idx] := List.getElem?_eq_getElem hidxlt
      split at hiter
      case h_2 => cases hiter
      case h_1 seq row hs hr =>
      have hseq' : seq = st.pnas[idx]'(by omega) := by rw [hseq] at hs; exact (Option.some.inj hs).symm
      have hrow' : row = expected[idx] := by rw [hrow] at hr; exact (Option.some.inj hr).symm
      subst hseq' hrow'
      have hevalIdx : evalSeq (st.pnas[idx]'(by omega)) = .ok expected[idx] := by
        have := (List.forall₂_iff_get.mp hF).2 idx (by omega) hidxlt
        simpa using this
      have hminRow : ∀ j (hj : j < expected.length), mean expected[idx] ≤ mean expected[j] := by
        intro j hj
        have := hmin (mean expected[j]) (List.mem_map.mpr ⟨_, List.getElem_mem hj, rfl⟩)
        simpa using this
      rcases hinv.pnas with ⟨hp1, hp2⟩ | hp
      · -- first pass: the only candidate is the empty sequence
        have hi0 : idx = 0 := by
          have : idx < st.pnas.length := by omega
          rw [hp1] at this; simpa using this
        subst hi0
        have hs0 : st.pnas[0]'(by omega) = [] := by simp [hp1]
        rw [hs0] at hiter hevalIdx
        simp only [List.getLast?_nil] at hiter
        have hlen : st.acts.length < st.rows.length := by
          by_contra hc; simp [hc] at hiter
        simp only [hlen, ↓reduceIte, Except.ok.injEq] at hiter
        subst hiter
        refine ⟨?_, ?_⟩
        · refine ⟨by simp [hinv.rowsLen], hinv.actsLen, hinv.actsNodup, hinv.possNodup, hinv.actsE, hinv.possE,
            hinv.cover, Or.inr rfl, ?_, ?_⟩
          · intro i hi
            simp only [hp2, List.length_nil, Nat.le_zero] at hi
            subst hi
            refine ⟨expected[0], by simpa [hp2] using hevalIdx, ?_⟩
            simp only [hp2, List.length_nil]
            rw [List.getElem?_set_self (by rw [hinv.rowsLen]; omega)]
          · intro i hi; simp [hp2] at hi
        · simp only [need, hp1, hp2, List.length_nil, ↓reduceIte, pnas_ne, Nat.add_zero]
      · -- a regular pass: the candidates are `acts ++ [a]`, `a` ranging over the remaining coalitions
        have hidx' : idx < (order st.acts st.possible).length := by
          have : idx < st.pnas.length := by omega
          rw [hp] at this; simpa using this
        have hsidx : st.pnas[idx]'(by omega) = st.acts ++ [(order st.acts st.possible)[idx]] := by
          simp [hp]
        set a := (order st.acts st.possible)[idx] with ha
        have haposs : a ∈ st.possible := (hperm st.acts st.possible).mem_iff.mp (List.getElem_mem hidx')
        have hanot : a ∉ st.acts := fun h => (hinv.actsE a h).2 haposs
        rw [hsidx] at hiter hevalIdx
        simp only [List.getLast?_append, List.getLast?_singleton, Option.some_or] at hiter
        have hlen : st.acts.length + 1 < st.rows.length := by
          by_contra hc; simp [hc] at hiter
        simp only [List.length_append, List.length_singleton, hlen, ↓reduceIte, Except.ok.injEq] at hiter
        subst hiter
        have hlen1 : (st.acts ++ [a]).length = st.acts.length + 1 := by simp
        refine ⟨?_, ?_⟩
        · refine ⟨by simp [hinv.rowsLen], by rw [hlen1]; omega, ?_, hinv.possNodup.erase a, ?_, ?_, ?_, Or.inr rfl, ?_, ?_⟩
          · exact List.nodup_append.mpr ⟨hinv.actsNodup, by simp, by
              intro x hx y hy; simp only [List.mem_singleton] at hy; subst hy; intro hxy; subst hxy; exact hanot hx⟩
          · intro x hx
            rcases List.mem_append.mp hx with hx | hx
            · exact ⟨(hinv.actsE x hx).1, fun h => (hinv.actsE x hx).2 (List.mem_of_mem_erase h)⟩
            · simp only [List.mem_singleton] at hx; subst hx
              exact ⟨hinv.possE _ haposs, hinv.possNodup.not_mem_erase⟩
          · intro c hc; exact hinv.possE c (List.mem_of_mem_erase hc)
          · intro c hc
            rcases hinv.cover c hc with h | h
            · exact Or.inl (List.mem_append_left _ h)
            · by_cases hca : c = a
              · exact Or.inl (by simp [hca])
              · exact Or.inr ((List.mem_erase_of_ne hca).mpr h)
          · intro i hi
            simp only at hi ⊢
            rw [hlen1] at hi
            by_cases hile : i ≤ st.acts.length
            · obtain ⟨r, h1, h2⟩ := hinv.rowsOk i hile
              refine ⟨r, by rw [List.take_append_of_le_length hile]; exact h1, ?_⟩
              rw [List.getElem?_set_ne (by omega)]; exact h2
            · have hieq : i = st.acts.length + 1 := by omega
              subst hieq
              refine ⟨expected[idx], ?_, ?_⟩
              · rw [List.take_of_length_le (by rw [hlen1])]; exact hevalIdx
              · rw [List.getElem?_set_self hlen]
          · intro i hi c hc hcn
            simp only at hi hcn ⊢
            rw [hlen1] at hi
            by_cases hilt : i < st.acts.length
            · rw [List.take_append_of_le_length (by omega)] at hcn ⊢
              rw [List.take_append_of_le_length (by omega)]
              exact hinv.minOk i hilt c hc hcn
            · have hieq : i = st.acts.length := by omega
              subst hieq
              rw [List.take_append_of_le_length (le_refl _), List.take_length] at hcn ⊢
              rw [List.take_of_length_le (by rw [hlen1])]
              have hcposs : c ∈ st.possible := (hinv.cover c hc).resolve_left hcn
              have hcord : c ∈ order st.acts st.possible := (hperm st.acts st.possible).mem_iff.mpr hcposs
              obtain ⟨j, hj, hjc⟩ := List.getElem_of_mem hcord
              have hjp : j < st.pnas.length := by rw [hp]; simpa using hj
              have hevj : evalSeq (st.acts ++ [c]) = .ok (expected[j]'(by omega)) := by
                have := (List.forall₂_iff_get.mp hF).2 j hjp (by omega)
                simpa [hp, hjc] using this
              exact ⟨expected[idx], expected[j]'(by omega), hevalIdx, hevj, hminRow j (by omega)⟩
        · have h1 : st.pnas ≠ [[]] := by rw [hp]; exact pnas_ne _ _
          simp only [need, hlen1, h1, ↓reduceIte, pnas_ne, Nat.add_zero]
          omega

theorem greedyLoop_inv (hperm : ∀ acts s, (order acts s).Perm s) (E : List Nat) (maxSteps reps : Nat) :
    ∀ (f : Nat) (st st' : GState α), GInv evalSeq order E maxSteps st → need maxSteps st ≤ f →
      greedyLoop evalSeq order reps maxSteps f st = .ok st' →
      GInv evalSeq order E maxSteps st' ∧ st'.acts.length = maxSteps := by
  intro f
  induction f with
  | zero =>
    intro st st' hinv hneed h
    simp only [greedyLoop, Except.ok.injEq] at h
    subst h
    refine ⟨hinv, ?_⟩
    have := hinv.actsLen
    simp only [need, Nat.le_zero, Nat.add_eq_zero_iff] at hneed
    omega
  | succ f ih =>
    intro st st' hinv hneed h
    simp only [greedyLoop] at h
    by_cases hlt : st.acts.length < maxSteps
    · simp only [hlt, ↓reduceIte] at h
      cases hit : greedyIter evalSeq order reps st with
      | error e => rw [hit] at h; cases h
      | ok st1 =>
        rw [hit] at h
        simp only at h
        obtain ⟨hinv1, hneed1⟩ := greedyIter_inv evalSeq order hperm E maxSteps reps st st1 hinv hlt hit
        exact ih st1 st' hinv1 (by omega) h
    · simp only [hlt, ↓reduceIte, Except.ok.injEq] at h
      subst h
      exact ⟨hinv, by have := hinv.actsLen; omega⟩

/-! ### the facts of property C13 about the expected-greedy search -/

/-- **never repeats / minimises / rows are the gaps of its own prefixes.**  If `get_greedy_rewards`
    returns `(rows, acts)` then: it took exactly `maxSteps` coalitions, all explorable and pairwise
    different; row `i` is the gap vector of its first `i` coalitions on the sampled games; and its
    `i`-th extension has a mean gap not larger than that of ANY other extension of the same prefix by a
    coalition not yet taken. -/
theorem greedy_spec (hperm : ∀ acts s, (order acts s).Perm s) (explorable : List Nat) (maxSteps reps : Nat)
    (rows : List (List α)) (acts : List Nat)
    (h : expectedGreedyWith evalSeq order explorable maxSteps reps = .ok (rows, acts)) :
    acts.length = maxSteps ∧ acts.Nodup ∧ (∀ a ∈ acts, a ∈ explorable) ∧ rows.length = maxSteps + 1 ∧
    (∀ i, i ≤ maxSteps → ∃ r, evalSeq (acts.take i) = .ok r ∧ rows[i]? = some r) ∧
    (∀ i, i < maxSteps → ∀ c ∈ explorable, c ∉ acts.take i →
      ∃ r rc, evalSeq (acts.take (i + 1)) = .ok r ∧ evalSeq (acts.take i ++ [c]) = .ok rc ∧ mean r ≤ mean rc) := by
  simp only [expectedGreedyWith] at h
  cases h0 : evalSeq [] with
  | error e => rw [h0] at h; cases h
  | ok row0 =>
    rw [h0] at h
    simp only at h
    cases hl : greedyLoop evalSeq order reps maxSteps (maxSteps + 1)
        { rows := (List.replicate (maxSteps + 1) (List.replicate reps (-1 : α))).set 0 row0, acts := [],
          possible := explorable.eraseDups, pnas := [[]] } with
    | error e => rw [hl] at h; cases h
    | ok st =>
      rw [hl] at h
      simp only [Except.ok.injEq, Prod.mk.injEq] at h
      obtain ⟨rfl, rfl⟩ := h
      have hinit : GInv evalSeq order explorable.eraseDups maxSteps
          { rows := (List.replicate (maxSteps + 1) (List.replicate reps (-1 : α))).set 0 row0, acts := [],
            possible := explorable.eraseDups, pnas := [[]] } := by
        refine ⟨by simp, by simp, by simp, nodup_eraseDups _ _ (le_refl _), by simp, fun c hc => hc,
          fun c hc => Or.inr hc, Or.inl ⟨rfl, rfl⟩, ?_, by simp⟩
        intro i hi
        simp only [List.length_nil, Nat.le_zero] at hi
        subst hi
        exact ⟨row0, by simpa using h0, by rw [List.getElem?_set_self (by simp)]⟩
      obtain ⟨hinv, hlen⟩ := greedyLoop_inv evalSeq order hperm explorable.eraseDups maxSteps reps (maxSteps + 1)
        _ st hinit (by simp [need]) hl
      refine ⟨hlen, hinv.actsNodup, fun a ha => List.mem_eraseDups.mp (hinv.actsE a ha).1, hinv.rowsLen, ?_, ?_⟩
      · intro i hi; exact hinv.rowsOk i (by omega)
      · intro i hi c hc hcn; exact hinv.minOk i (by omega) c (List.mem_eraseDups.mpr hc) hcn

/-- **curve non-increasing**, under the hypothesis on the gap that revealing one more coalition does not
    increase the mean gap over the sampled games (C07 on every sampled game). -/
theorem greedy_mono (hperm : ∀ acts s, (order acts s).Perm s) (explorable : List Nat) (maxSteps reps : Nat)
    (rows : List (List α)) (acts : List Nat)
    (h : expectedGreedyWith evalSeq order explorable maxSteps reps = .ok (rows, acts))
    (hmono : ∀ S c r rc, evalSeq S = .ok r → evalSeq (S ++ [c]) = .ok rc → mean rc ≤ mean r) :
    ∀ i, i < maxSteps → ∃ r1 r2, rows[i]? = some r1 ∧ rows[i + 1]? = some r2 ∧ mean r2 ≤ mean r1 := by
  obtain ⟨hlen, _, _, _, hrows, _⟩ := greedy_spec evalSeq order hperm explorable maxSteps reps rows acts h
  intro i hi
  obtain ⟨r1, he1, hr1⟩ := hrows i (by omega)
  obtain ⟨r2, he2, hr2⟩ := hrows (i + 1) (by omega)
  refine ⟨r1, r2, hr1, hr2, hmono (acts.take i) (acts[i]'(by omega)) r1 r2 he1 ?_⟩
  rw [← he2]
  congr 1
  rw [List.take_add_one, List.getElem?_eq_getElem (by omega)]
  rfl

/-- **never below the exhaustive optimum, equal for 0 and 1 reveals.**  `cands` are the sets best-states
    enumerated (every sub-list of the duplicate-free list `unknown` of explorable coalitions of length
    ≤ `maxSteps`) with their gap vectors from the SAME evaluation function, which depends on the set of
    a sequence only (C11 `value`).  `b` is the result of best-states. -/
theorem greedy_ge_best (hperm : ∀ acts s, (order acts s).Perm s) (unknown : List Nat) (hnd : unknown.Nodup)
    (maxSteps reps : Nat) (hreps : 0 < reps) (rows : List (List α)) (acts : List Nat)
    (h : expectedGreedyWith evalSeq order unknown maxSteps reps = .ok (rows, acts))
    (hset : ∀ S T : List Nat, (∀ c, c ∈ S ↔ c ∈ T) → evalSeq S = evalSeq T)
    (col : List Nat → List α) (hcol : ∀ q ∈ possibleSeqs unknown (some maxSteps), evalSeq q = .ok (col q))
    (hne : ∀ q ∈ possibleSeqs unknown (some maxSteps), mean (col q) ≠ -1)
    (b : List (BestRow α))
    (hb : bestStates maxSteps reps ((possibleSeqs unknown (some maxSteps)).map (fun q => (q, col q))) = .ok b) :
    (∀ i, i ≤ maxSteps → ∃ rg rb ab, rows[i]? = some rg ∧ b[i]? = some (rb, ab) ∧ mean rb ≤ mean rg) ∧
    (∀ i, i ≤ maxSteps → i ≤ 1 → ∃ rg rb ab, rows[i]? = some rg ∧ b[i]? = some (rb, ab) ∧ mean rb = mean rg) := by
  obtain ⟨hlen, hnodup, hexp, _, hrows, hminG⟩ := greedy_spec evalSeq order hperm unknown maxSteps reps rows acts h
  set cands := (possibleSeqs unknown (some maxSteps)).map (fun q => (q, col q)) with hcands
  have hclen : ∀ p ∈ cands, p.1.length ≤ maxSteps := by
    intro p hp
    simp only [hcands, List.mem_map] at hp
    obtain ⟨q, hq, rfl⟩ := hp
    exact ((C11.enum_mem unknown (some maxSteps) q).mp hq).2
  have hcne : ∀ p ∈ cands, mean p.2 ≠ -1 := by
    intro p hp
    simp only [hcands, List.mem_map] at hp
    obtain ⟨q, hq, rfl⟩ := hp
    exact hne q hq
  -- the greedy prefix of length i, as a set, is one of the enumerated sets
  have hprefix : ∀ i, i ≤ maxSteps → ∃ q ∈ possibleSeqs unknown (some maxSteps), q.length = i ∧
      ∀ c, c ∈ q ↔ c ∈ acts.take i := by
    intro i hi
    have hmem : ∀ c, c ∈ unknown.filter (fun c => decide (c ∈ acts.take i)) ↔ c ∈ acts.take i := by
      intro c
      simp only [List.mem_filter, decide_eq_true_eq, and_iff_right_iff_imp]
      exact fun hc => hexp c (List.mem_of_mem_take hc)
    have hlenq : (unknown.filter (fun c => decide (c ∈ acts.take i))).length = i := by
      have hp : (unknown.filter (fun c => decide (c ∈ acts.take i))).Perm (acts.take i) :=
        (List.perm_ext_iff_of_nodup (hnd.filter _) (hnodup.sublist (List.take_sublist i acts))).mpr hmem
      rw [hp.length_eq, List.length_take]; omega
    exact ⟨_, (C11.enum_mem unknown (some maxSteps) _).mpr ⟨List.filter_sublist, by simp only [C11.bound]; omega⟩,
      hlenq, hmem⟩
  -- for every i the greedy row is the column of an enumerated set of size i, and best-states is minimal there
  have hkey : ∀ i, i ≤ maxSteps → ∃ rg p, rows[i]? = some rg ∧ evalSeq (acts.take i) = .ok rg ∧ p ∈ cands ∧
      p.1.length = i ∧ b[i]? = some (p.2, p.1) ∧ mean p.2 ≤ mean rg := by
    intro i hi
    obtain ⟨rg, herg, hrg⟩ := hrows i hi
    obtain ⟨q, hq, hqlen, hqmem⟩ := hprefix i hi
    have hcq : col q = rg := by
      have h1 := hcol q hq
      rw [hset q (acts.take i) hqmem, herg] at h1
      exact (Except.ok.inj h1).symm
    have hqc : (q, col q) ∈ cands := List.mem_map.mpr ⟨q, hq, rfl⟩
    have hex : C11.ofSize cands i ≠ [] := by
      intro hnil
      have : (q, col q) ∈ C11.ofSize cands i := by simp [C11.ofSize, List.mem_filter, hqc, hqlen]
      rw [hnil] at this; cases this
    obtain ⟨b', p, hb', hp, hps, hbi, hmin⟩ := C11.best_is_min maxSteps reps hreps cands hclen hcne i hi hex
    have hbb : b' = b := by rw [hb] at hb'; exact (Except.ok.inj hb').symm
    subst hbb
    exact ⟨rg, p, hrg, herg, hp, hps, hbi, by rw [← hcq]; exact hmin (q, col q) hqc hqlen⟩
  refine ⟨fun i hi => ?_, fun i hi hi1 => ?_⟩
  · obtain ⟨rg, p, h1, _, _, _, h5, h6⟩ := hkey i hi
    exact ⟨rg, p.2, p.1, h1, h5, h6⟩
  · obtain ⟨rg, p, h1, herg, hp, hps, h5, h6⟩ := hkey i hi
    refine ⟨rg, p.2, p.1, h1, h5, le_antisymm h6 ?_⟩
    simp only [hcands, List.mem_map] at hp
    obtain ⟨q', hq', rfl⟩ := hp
    simp only at hps ⊢
    have hq'sub := ((C11.enum_mem unknown (some maxSteps) q').mp hq').1
    have hcq' := hcol q' hq'
    rcases Nat.le_one_iff_eq_zero_or_eq_one.mp hi1 with rfl | rfl
    · -- zero reveals: the only set is the empty one
      have : q' = [] := List.length_eq_zero_iff.mp hps
      subst this
      rw [List.take_zero, hcq'] at herg
      rw [Except.ok.inj herg]
    · -- one reveal: greedy's first choice is a minimiser over all single coalitions
      obtain ⟨c, rfl⟩ := List.length_eq_one_iff.mp hps
      have hcu : c ∈ unknown := hq'sub.subset (by simp)
      obtain ⟨r, rc, h1', h2', h3'⟩ := hminG 0 (by omega) c hcu (by simp)
      simp only [List.take_zero, List.nil_append, Nat.zero_add] at h1' h2'
      rw [herg] at h1'
      rw [hcq'] at h2'
      rw [← Except.ok.inj h1', ← Except.ok.inj h2'] at h3'
      exact h3'

end
/-! ### non-vacuity: three explorable coalitions, two sampled games, candidate set iterated as 6, 5, 3 -/

/-- gap vector of a set on two sampled games (any function of the SET of the sequence) -/
def demoEval (seq : List Nat) : Except Err (List Rat) :=
  let has (c : Nat) : Bool := seq.contains c
  .ok (match has 3, has 5, has 6 with
    | false, false, false => [10, 20]
    | true, false, false => [5, 6]
    | false, true, false => [5, 4]
    | false, false, true => [7, 1]
    | true, true, false => [2, 2]
    | true, false, true => [3, 0]
    | false, true, true => [1, 1]
    | true, true, true => [0, 0])

def demoOrder (_acts s : List Nat) : List Nat := s.reverse

example : expectedGreedyWith demoEval demoOrder [3, 5, 6] 3 2 =
    .ok ([[10, 20], [7, 1], [1, 1], [0, 0]], [6, 5, 3]) := by decide +kernel

/-- more steps than explorable coalitions: the AxisError of the code (domain note, not a violation) -/
example : expectedGreedyWith demoEval demoOrder [3, 5, 6] 4 2 = .error .other := by decide +kernel

example : ∀ acts s, (demoOrder acts s).Perm s := fun _ s => List.reverse_perm s

end ICG.ExpectedGreedy
