/-
  ICG.Lemmas.ComposeCore — helper lemmas for ICG/Props/Compose.lean (the composition of the upstream
  properties C01–C08 with the downstream ones C09, C11, C13, C16).

  * `run_n`            every registered computer keeps the number of players, on EVERY input table (no `Inv`, no
                       `MinInfo`): the hypothesis `hn` of C11 `schedule_free` / `search_result`
  * `gapL1`, `gapLinf`, `gapL2sq`, `gapExpl`
                       the four gap functions of the package (ICG.Model.Shapley) as `Table α → Except Err α`, the
                       type of the `gap` parameter of ICG.Model.Env / ICG.Model.Search (`gap_func(incomplete_game)`)
  * `GapFacts gap side` what C07 proves about a gap function, packaged: reads rows only; on tables computed from
                       minimal information about a game `v` of the class with `side v` it is defined and
                       non-negative, does not grow when the intervals shrink row-wise, and is zero when every
                       coalition is known
  * `gapL1_facts`, `gapLinf_facts`      (ordered abelian groups),
    `gapL2sq_facts`, `gapExpl_facts`    (ordered fields; exploitability with `side v := v ∅ = 0`)
  * `Inv.source`, `Inv.computed`, `Inv.nested`
                       the bridge from C09's invariant to the hypotheses of C01/C04/C07: the table of a reachable
                       environment is the real computer's output on a table that agrees with the hidden game,
                       hence sound (C01/C04); more revealed coalitions give nested tables (C07)
  * the generic environment theorems `reward_nonpos_of`, `reward_zero_of`, `reward_mono_of`,
    `step_succeeds_of`, `unstep_succeeds_of`, `mkEnvWith_succeeds`
-/
import ICG.Props.C07Gaps
import ICG.Props.C09
import ICG.Props.C13
import ICG.Props.C16

set_option linter.unusedSectionVars false

namespace ICG.Compose
open ICG Table Env ICG.Refine ICG.BoundsCommon ICG.SpecSA

variable {α : Type}

/-! ### the computers keep `n` unconditionally -/

theorem bind_ok {ε β γ : Type} {x : Except ε β} {f : β → Except ε γ} {y : γ}
    (h : (x >>= f) = .ok y) : ∃ b, x = .ok b ∧ f b = .ok y := by
  cases x with
  | error e => cases h
  | ok b => exact ⟨b, rfl, h⟩

theorem sweepM_n (f : Table α → Nat → Except Err α) (put : Table α → Nat → α → Table α)
    (hput : ∀ s c v, (put s c v).n = s.n) :
    ∀ (order : List Nat) (t t' : Table α), sweepM f put order t = .ok t' → t'.n = t.n := by
  intro order
  induction order with
  | nil => intro t t' h; rw [sweepM_nil] at h; cases h; rfl
  | cons c l ih =>
    intro t t' h
    rw [sweepM_cons] at h
    cases hf : f t c with
    | error e => rw [hf] at h; cases h
    | ok v => rw [hf] at h; exact (ih _ _ h).trans (hput t c v)

theorem sweepLo_n (f : Table α → Nat → Except Err α) {order : List Nat} {t t' : Table α}
    (h : sweepM f putLo order t = .ok t') : t'.n = t.n := sweepM_n f putLo (fun _ _ _ => rfl) _ _ _ h

theorem sweepHi_n (f : Table α → Nat → Except Err α) {order : List Nat} {t t' : Table α}
    (h : sweepM f putHi order t = .ok t') : t'.n = t.n := sweepM_n f putHi (fun _ _ _ => rfl) _ _ _ h

section run_n
variable [Add α] [Sub α] [Max α] [Min α]

theorem sa_n {t t' : Table α} (h : sa t = .ok t') : t'.n = t.n := by
  unfold sa at h
  split at h
  · obtain ⟨t1, h1, h⟩ := bind_ok h
    obtain ⟨t2, h2, h⟩ := bind_ok h
    cases h
    rw [compactT_eq] at h2 ⊢
    rw [sweepHi_n _ h2, sweepLo_n _ h1]
  · cases h

theorem sac_n {t t' : Table α} (h : sac t = .ok t') : t'.n = t.n := by
  unfold sac at h
  split at h
  · obtain ⟨t1, h1, h⟩ := bind_ok h
    obtain ⟨t2, h2, h⟩ := bind_ok h
    cases h
    rw [compactT_eq] at h2 ⊢
    rw [sweepHi_n _ h2, sweepLo_n _ h1]
  · cases h

theorem samRound_n {order : List Nat} {first : Bool} {t t' : Table α}
    (h : samRound order first t = .ok t') : t'.n = t.n := by
  unfold samRound at h
  obtain ⟨t1, h1, h⟩ := bind_ok h
  obtain ⟨t2, h2, h⟩ := bind_ok h
  cases h
  rw [compactT_eq] at h2 ⊢
  rw [sweepLo_n _ h2, sweepLo_n _ h1]

theorem samRounds_n {order : List Nat} : ∀ (r : Nat) {t t' : Table α},
    samRounds order r t = .ok t' → t'.n = t.n
  | 0, t, t', h => by cases h; rfl
  | r + 1, t, t', h => by
    unfold samRounds at h
    obtain ⟨t1, h1, h⟩ := bind_ok h
    rw [samRounds_n r h, samRound_n h1]

theorem sam_n {r : Nat} {t t' : Table α} (h : sam r t = .ok t') : t'.n = t.n := by
  unfold sam at h
  split at h
  · obtain ⟨t0, h0, h⟩ := bind_ok h
    obtain ⟨t1, h1, h⟩ := bind_ok h
    obtain ⟨t2, h2, h⟩ := bind_ok h
    cases h
    rw [compactT_eq, sweepHi_n _ h2, samRounds_n r h1, samRound_n h0]
  · cases h

/-- every registered computer returns a table for the same players — on EVERY input (no `Inv`, no `MinInfo`
    assumed).  This is literally the hypothesis `hn` of C11 `seqGap_stateFree` / `schedule_free` /
    `search_result`. -/
theorem run_n (k : Computer) {t t' : Table α} (h : k.run t = .ok t') : t'.n = t.n := by
  cases k with
  | sa => exact sa_n h
  | sac => exact sac_n h
  | sam r => exact sam_n h

end run_n

/-! ### the gap functions of the package as `gap` parameters -/

/-- `l1_norm(game)`: `np.linalg.norm(upper − lower, 1)` -/
def gapL1 [Add α] [Sub α] [Zero α] [Max α] [Neg α] (t : Table α) : Except Err α := .ok (l1 t.n t.lo t.hi)

/-- `linf_norm(game)`: `np.linalg.norm(upper − lower, inf)` (ValueError on an empty vector) -/
def gapLinf [Sub α] [Max α] [Neg α] (t : Table α) : Except Err α := linf t.n t.lo t.hi

/-- the square of `l2_norm(game)` (the executable model stops at the square; the norm itself is in
    `Props/C07L2` over ℝ) -/
def gapL2sq [Add α] [Sub α] [Mul α] [Zero α] (t : Table α) : Except Err α := .ok (l2sq t.n t.lo t.hi)

/-- `compute_exploitability(game)` (ValueError when the grand coalition is unknown) -/
def gapExpl [Add α] [Sub α] [Mul α] [Div α] [Zero α] [NatCast α] [One α] (t : Table α) : Except Err α :=
  t.exploitability

/-- `t` has minimal information, agrees with nothing in particular, and `s` is a sound result for the game
    `v` (the conclusion of C01 / C04) -/
def Computed [LinearOrder α] (t s : Table α) (v : Nat → α) : Prop := MinInfo t.n t.known ∧ SoundFor t s v

/-- what C07 (`Props/C07Gaps`) proves about a gap function.  `side v` is the side condition on the hidden
    game (`True` for the norms, `v ∅ = 0` for exploitability). -/
structure GapFacts [LinearOrder α] [Zero α] (gap : Table α → Except Err α) (side : (Nat → α) → Prop) : Prop where
  /-- reads the rows of the table only (the hypothesis `RowsOnly` of `env_undo`, C13 `Hyps`) -/
  rows : RowsOnly gap
  /-- defined and never negative on a computed table (the hypothesis of C09 `reward_nonpos`) -/
  nonneg : ∀ {t s : Table α} {v : Nat → α}, side v → Computed t s v → ∃ x, gap s = .ok x ∧ 0 ≤ x
  /-- non-increasing when the intervals shrink (the hypotheses of C11 `best_mono` / `ext_of_monotone` and of
      `ExpectedGreedy.greedy_mono`) -/
  mono : ∀ {t s t' s' : Table α} {v : Nat → α}, side v → Computed t s v → Computed t' s' v → C07.Nested s s' →
    ∃ x x', gap s = .ok x ∧ gap s' = .ok x' ∧ x' ≤ x
  /-- zero at full knowledge: on a table (∅ and N known) whose every row is the point `v c`; no game class needed -/
  zero : ∀ {s : Table α} {v : Nat → α}, side v → s.known 0 = true → s.known (grand s.n) = true →
    (∀ c, c < 2 ^ s.n → s.lo c = v c ∧ s.hi c = v c) → gap s = .ok 0

theorem degenerate_of_point {s : Table α} {v : Nat → α} (h : ∀ c, c < 2 ^ s.n → s.lo c = v c ∧ s.hi c = v c) :
    GapMono.Degenerate s.n s.lo s.hi := fun c hc => by rw [(h c hc).1, (h c hc).2]

theorem widths_congr [Sub α] {t1 t2 : Table α} (h : SameRows t1 t2) :
    widths t1.n t1.lo t1.hi = widths t2.n t2.lo t2.hi := by
  obtain ⟨hn, _, hr⟩ := h
  unfold widths allCoalitions
  rw [← hn]
  apply List.map_congr_left
  intro c hc
  have := hr c (List.mem_range.mp hc)
  rw [this.1, this.2]

section group
variable [AddCommGroup α] [LinearOrder α] [IsOrderedAddMonoid α]

theorem gapL1_facts : GapFacts (gapL1 (α := α)) (fun _ => True) where
  rows := ⟨fun h => by simp only [gapL1, l1, widths_congr h]⟩
  nonneg := fun _ _ => ⟨_, rfl, GapMono.l1_nonneg _ _ _⟩
  mono := by
    intro t s t' s' v _ _ _ hn
    refine ⟨_, _, rfl, rfl, ?_⟩
    rw [hn.1]
    exact GapMono.l1_mono hn.toGapMono
  zero := by
    intro s v _ _ _ hpt
    simp only [gapL1, GapMono.l1_zero (degenerate_of_point hpt)]

theorem gapLinf_facts : GapFacts (gapLinf (α := α)) (fun _ => True) where
  rows := ⟨fun h => by simp only [gapLinf, linf, widths_congr h]⟩
  nonneg := fun _ _ => GapMono.linf_nonneg _ _ _
  mono := by
    intro t s t' s' v _ _ _ hn
    obtain ⟨m, m', a, b, c⟩ := GapMono.linf_mono hn.toGapMono
    rw [← hn.1] at b
    exact ⟨m, m', a, b, c⟩
  zero := fun _ _ _ hpt => GapMono.linf_zero (degenerate_of_point hpt)

end group

section field
variable [Field α] [LinearOrder α] [IsStrictOrderedRing α]

theorem gapL2sq_facts : GapFacts (gapL2sq (α := α)) (fun _ => True) where
  rows := ⟨fun h => by simp only [gapL2sq, l2sq, widths_congr h]⟩
  nonneg := fun _ _ => ⟨_, rfl, GapMono.l2sq_nonneg _ _ _⟩
  mono := by
    intro t s t' s' v _ _ _ hn
    refine ⟨_, _, rfl, rfl, ?_⟩
    rw [hn.1]
    exact GapMono.l2sq_mono hn.toGapMono
  zero := by
    intro s v _ _ _ hpt
    simp only [gapL2sq, GapMono.l2sq_zero (degenerate_of_point hpt)]

theorem weightedGap_congr {t1 t2 : Table α} (h : SameRows t1 t2) :
    C05.weightedGap t1.n t1.lo t1.hi = C05.weightedGap t2.n t2.lo t2.hi := by
  obtain ⟨hn, _, hr⟩ := h
  unfold C05.weightedGap
  rw [← hn]
  apply Finset.sum_congr rfl
  intro c hc
  have := hr c (Finset.mem_range.mp hc)
  rw [this.1, this.2]

/-- exploitability reads rows `< 2^n` only — also in its error behaviour (through the C05 identity) -/
theorem gapExpl_rowsOnly : RowsOnly (gapExpl (α := α)) where
  congr := by
    intro t1 t2 h
    have hn := h.1
    have hk : t1.known (grand t1.n) = t2.known (grand t2.n) := by rw [h.2.1, hn]
    have h0 : t1.hi 0 = t2.hi 0 := (h.2.2 0 (Nat.two_pow_pos _)).2
    unfold gapExpl
    cases hk1 : t1.known (grand t1.n) with
    | true =>
      rw [C05.identity t1 hk1, C05.identity t2 (hk ▸ hk1), weightedGap_congr h, h0]
    | false =>
      rw [C05.undefined t1 hk1, C05.undefined t2 (hk ▸ hk1)]

theorem gapExpl_facts : GapFacts (gapExpl (α := α)) (fun v => v 0 = 0) where
  rows := gapExpl_rowsOnly
  nonneg := by
    intro t s v hv0 hc
    obtain ⟨a1, a2⟩ := C07.expl_side t s v hv0 hc.1 hc.2
    refine GapMono.expl_nonneg s a1 a2 ?_
    intro c hcl
    rw [hc.2.1] at hcl
    exact (hc.2.2.2 c hcl).2.2.1
  mono := by
    intro t s t' s' v hv0 hc hc' hn
    obtain ⟨a1, a2⟩ := C07.expl_side t s v hv0 hc.1 hc.2
    obtain ⟨b1, b2⟩ := C07.expl_side t' s' v hv0 hc'.1 hc'.2
    exact GapMono.expl_mono s s' hn.1 a1 b1 a2 b2 hn.toGapMono
  zero := by
    intro s v hv0 _ hkg hpt
    exact GapMono.expl_zero s hkg (degenerate_of_point hpt) (by rw [(hpt 0 (Nat.two_pow_pos _)).2, hv0])

end field

/-! ### from C09's invariant to the hypotheses of C01 / C04 / C07 -/

section bridge
variable [AddCommGroup α] [LinearOrder α] [IsOrderedAddMonoid α]
variable {k : Computer} {P : C09.Params} {e e' : Env α} {s s' : C09.Spec α}

/-- the table of an environment in abstract state `s` is the computer's output on a table of `P.n` players
    that knows exactly `initial ∪ revealed`, agrees with the hidden game, and has minimal information -/
theorem Inv.source (hmin : P.Minimal) (h : C09.Inv (k.run : Table α → _) P e s) :
    ∃ t0 : Table α, t0.n = P.n ∧ (∀ c, t0.known c = s.knows P c) ∧ t0.Agree s.full ∧
      MinInfo t0.n t0.known ∧ k.run t0 = .ok e.table := by
  obtain ⟨t0, hsk, _, hcomp⟩ := h.fresh
  have hn : t0.n = P.n := hsk.1.trans h.n
  have hkn : ∀ c, t0.known c = s.knows P c := fun c => (hsk.2.1 c).trans (h.known c)
  have hik : ∀ c ∈ P.ik, t0.known c = true := fun c hc => by
    rw [hkn c]; simp [C09.Spec.knows, hc]
  refine ⟨t0, hn, hkn, ?_, ?_, hcomp⟩
  · intro c _ hc
    have hk : e.table.known c = true := by rw [← hsk.2.1 c]; exact hc
    have := hsk.2.2 c hc
    rw [this.1, this.2]; exact h.vals c hk
  · rw [hn]
    exact ⟨hik 0 hmin.1, hik _ hmin.2.1, fun i hi => hik _ (hmin.2.2 i hi)⟩

/-- **C01 / C04 at a reachable state**: for a hidden game of the class the environment's table is sound -/
theorem Inv.computed (hmin : P.Minimal) (h : C09.Inv (k.run : Table α → _) P e s) (hsa : SA P.n s.full)
    (hmd : k.NeedsMono → MonoDec P.n s.full) :
    ∃ t0 : Table α, t0.n = P.n ∧ (∀ c, t0.known c = s.knows P c) ∧ k.run t0 = .ok e.table ∧
      Computed t0 e.table s.full := by
  obtain ⟨t0, hn, hkn, hag, hmi, hrun⟩ := Inv.source hmin h
  obtain ⟨t', h1, h2⟩ := run_sound k t0 (by rw [hn]; exact hsa) (by rw [hn]; exact hmd) hmi hag
  rw [hrun] at h1
  cases h1
  exact ⟨t0, hn, hkn, hrun, hmi, h2⟩

/-- the hidden value lies inside every interval of a reachable environment (C01 / C04, row by row) -/
theorem Inv.sound (hmin : P.Minimal) (h : C09.Inv (k.run : Table α → _) P e s) (hsa : SA P.n s.full)
    (hmd : k.NeedsMono → MonoDec P.n s.full) :
    ∀ c, c < 2 ^ P.n → e.table.lo c ≤ s.full c ∧ s.full c ≤ e.table.hi c := by
  obtain ⟨t0, hn, _, _, _, hs⟩ := Inv.computed hmin h hsa hmd
  intro c hc
  have := hs.2.2 c (by rw [hn]; exact hc)
  exact ⟨this.1, this.2.1⟩

/-- **C07 between two reachable states of the same hidden game**: if `s'` has revealed at least what `s` has,
    the intervals of `e'` are nested in those of `e` -/
theorem Inv.nested (hmin : P.Minimal) (h : C09.Inv (k.run : Table α → _) P e s)
    (h' : C09.Inv (k.run : Table α → _) P e' s') (hfull : s'.full = s.full)
    (hle : ∀ c, s.revealed c = true → s'.revealed c = true) (hsa : SA P.n s.full)
    (hmd : k.NeedsMono → MonoDec P.n s.full) :
    ∃ t0 t0' : Table α, Computed t0 e.table s.full ∧ Computed t0' e'.table s.full ∧
      C07.Nested e.table e'.table := by
  obtain ⟨t0, hn, hkn, hag, hmi, hrun⟩ := Inv.source hmin h
  obtain ⟨t0', hn', hkn', hag', hmi', hrun'⟩ := Inv.source hmin h'
  rw [hfull] at hag'
  have hkle : KnownLe t0.known t0'.known := by
    intro c hc
    rw [hkn c] at hc
    rw [hkn' c]
    simp only [C09.Spec.knows, Bool.or_eq_true] at hc ⊢
    rcases hc with hc | hc
    · exact Or.inl hc
    · exact Or.inr (hle c hc)
  obtain ⟨r, r', h1, h2, h3, h4, h5⟩ := C07.mono_full k t0 t0' s.full (hn'.trans hn.symm) hkle hag hag'
    (by rw [hn]; exact hsa) (by rw [hn]; exact hmd) hmi
  rw [hrun] at h1
  rw [hrun'] at h2
  cases h1
  cases h2
  exact ⟨t0, t0', ⟨hmi, h4⟩, ⟨hmi', h5⟩, h3⟩

end bridge

/-! ### the environment clauses with their hypotheses discharged (generic in a gap with `GapFacts`) -/

section env
variable [AddCommGroup α] [LinearOrder α] [IsOrderedAddMonoid α]
variable {k : Computer} {P : C09.Params} {e e' : Env α} {s s' : C09.Spec α}
variable {gap : Table α → Except Err α} {side : (Nat → α) → Prop}

/-- the gap of a reachable environment is defined and non-negative -/
theorem gap_nonneg_of (hg : GapFacts gap side) (hmin : P.Minimal)
    (h : C09.Inv (k.run : Table α → _) P e s) (hsa : SA P.n s.full)
    (hmd : k.NeedsMono → MonoDec P.n s.full) (hside : side s.full) :
    ∃ x, gap e.table = .ok x ∧ 0 ≤ x := by
  obtain ⟨t0, _, _, _, hc⟩ := Inv.computed hmin h hsa hmd
  exact hg.nonneg hside hc

/-- **never positive** (C09 `reward_nonpos` with `0 ≤ gap` discharged by C07; in addition the reward is defined) -/
theorem reward_nonpos_of (hg : GapFacts gap side) (hmin : P.Minimal)
    (h : C09.Inv (k.run : Table α → _) P e s) (hsa : SA P.n s.full)
    (hmd : k.NeedsMono → MonoDec P.n s.full) (hside : side s.full) :
    ∃ r, e.reward gap = .ok r ∧ r ≤ 0 := by
  obtain ⟨x, hx, h0⟩ := gap_nonneg_of hg hmin h hsa hmd hside
  exact ⟨-x, by simp only [reward, hx], neg_nonpos.mpr h0⟩

/-- **zero when nothing is left to reveal** (whatever the hidden game: no class assumption is needed here) -/
theorem reward_zero_of (hg : GapFacts gap side) (hmin : P.Minimal)
    (h : C09.Inv (k.run : Table α → _) P e s) (hside : side s.full)
    (hall : ∀ c ∈ P.explorable, s.revealed c = true) : e.reward gap = .ok 0 := by
  have hik : ∀ c ∈ P.ik, e.table.known c = true := fun c hc => by
    rw [h.known c]; simp [C09.Spec.knows, hc]
  have : gap e.table = .ok 0 := by
    apply hg.zero hside (hik 0 hmin.1) (by rw [h.n]; exact hik _ hmin.2.1)
    intro c hcl
    apply h.vals c
    rw [h.known c]
    simp only [C09.Spec.knows, Bool.or_eq_true, List.contains_iff_mem]
    by_cases hc : c ∈ P.ik
    · exact Or.inl hc
    · exact Or.inr (hall c (C09.mem_explorable.mpr ⟨by rw [← h.n]; exact hcl, hc⟩))
  simp only [reward, this, neg_zero]

/-- **more revealed, reward not smaller** (C07 at the level of the environment) -/
theorem reward_mono_of (hg : GapFacts gap side) (hmin : P.Minimal)
    (h : C09.Inv (k.run : Table α → _) P e s) (h' : C09.Inv (k.run : Table α → _) P e' s')
    (hfull : s'.full = s.full) (hle : ∀ c, s.revealed c = true → s'.revealed c = true)
    (hsa : SA P.n s.full) (hmd : k.NeedsMono → MonoDec P.n s.full) (hside : side s.full) :
    ∃ r r', e.reward gap = .ok r ∧ e'.reward gap = .ok r' ∧ r ≤ r' ∧ r' ≤ 0 := by
  obtain ⟨t0, t0', hc, hc', hn⟩ := Inv.nested hmin h h' hfull hle hsa hmd
  obtain ⟨x, x', hx, hx', hxx⟩ := hg.mono hside hc hc' hn
  obtain ⟨y, hy, hy0⟩ := hg.nonneg hside hc'
  rw [hx'] at hy
  cases hy
  exact ⟨-x, -x', by simp only [reward, hx], by simp only [reward, hx'], neg_le_neg hxx, neg_nonpos.mpr hy0⟩

/-! #### progress without `GapTotal` (exploitability is not total, but it is defined at every reachable state) -/

/-- the gap is defined on the table any valid `step` / `unstep` / `reset` produces: stated for a table `t1` that
    holds the knowledge `K ⊇ initial` of the hidden game -/
theorem gap_defined_after (hg : GapFacts gap side) (hmin : P.Minimal) {t1 : Table α} {v : Nat → α}
    (hn : t1.n = P.n) (hik : ∀ c ∈ P.ik, t1.known c = true) (hag : t1.Agree v) (hsa : SA P.n v)
    (hmd : k.NeedsMono → MonoDec P.n v) (hside : side v) :
    ∃ t2 x, k.run t1 = .ok t2 ∧ gap t2 = .ok x := by
  have hmi : MinInfo t1.n t1.known := by
    rw [hn]; exact ⟨hik 0 hmin.1, hik _ hmin.2.1, fun i hi => hik _ (hmin.2.2 i hi)⟩
  obtain ⟨t2, h1, h2⟩ := run_sound k t1 (by rw [hn]; exact hsa) (by rw [hn]; exact hmd) hmi hag
  obtain ⟨x, hx, _⟩ := hg.nonneg hside ⟨hmi, h2⟩
  exact ⟨t2, x, h1, hx⟩

/-- a valid `step` never raises (C09 `step_succeeds` with `ComputeTotal` and `GapTotal` discharged; for
    exploitability `GapTotal` is false, definedness at reachable states is what holds) -/
theorem step_succeeds_of (hg : GapFacts gap side) (hmin : P.Minimal)
    (h : C09.Inv (k.run : Table α → _) P e s) (hsa : SA P.n s.full)
    (hmd : k.NeedsMono → MonoDec P.n s.full) (hside : side s.full) {a : Nat}
    (hv : C09.validStep P s a = true) : ∃ e' out, step k.run gap e a = .ok (e', out) := by
  unfold C09.validStep at hv
  cases hc : P.explorable[a]? with
  | none => simp [hc] at hv
  | some c =>
    simp only [hc, Bool.not_eq_true'] at hv
    have hcm : c ∈ P.explorable := List.mem_of_getElem? hc
    have hlt : c < 2 ^ e.table.n := by rw [h.n]; exact (C09.mem_explorable.mp hcm).1
    have hnik : c ∉ P.ik := (C09.mem_explorable.mp hcm).2
    have hk : e.table.known c = false := by rw [h.known c]; simp [C09.Spec.knows, hnik, hv]
    have hag : (e.table.putValue c (e.full c)).Agree s.full := by
      intro d _ hd
      by_cases hdc : d = c
      · subst hdc; simp [putValue, h.full]
      · have hd' : e.table.known d = true := by simpa [putValue, hdc] using hd
        simpa [putValue, hdc] using h.vals d hd'
    obtain ⟨t2, x, ht2, hx⟩ := gap_defined_after (k := k) hg hmin (t1 := e.table.putValue c (e.full c)) h.n
      (fun d hd => by
        have : e.table.known d = true := by rw [h.known d]; simp [C09.Spec.knows, hd]
        simp [putValue, this]) hag hsa hmd hside
    exact ⟨_, _, step_ok k.run gap (h.ex ▸ hc) hlt hk ht2 hx⟩

/-- a valid `unstep` never raises -/
theorem unstep_succeeds_of (hg : GapFacts gap side) (hmin : P.Minimal)
    (h : C09.Inv (k.run : Table α → _) P e s) (hsa : SA P.n s.full)
    (hmd : k.NeedsMono → MonoDec P.n s.full) (hside : side s.full) {a : Nat}
    (hv : C09.validUnstep P s a = true) : ∃ e' out, unstep k.run gap e a = .ok (e', out) := by
  unfold C09.validUnstep at hv
  cases hc : P.explorable[a]? with
  | none => simp [hc] at hv
  | some c =>
    simp only [hc] at hv
    have hcm : c ∈ P.explorable := List.mem_of_getElem? hc
    have hlt : c < 2 ^ e.table.n := by rw [h.n]; exact (C09.mem_explorable.mp hcm).1
    have hnik : c ∉ P.ik := (C09.mem_explorable.mp hcm).2
    have hk : e.table.known c = true := by rw [h.known c]; simp [C09.Spec.knows, hv]
    have hag : (e.table.clearRow c).Agree s.full := by
      intro d _ hd
      by_cases hdc : d = c
      · subst hdc; simp [clearRow] at hd
      · have hd' : e.table.known d = true := by simpa [clearRow, hdc] using hd
        simpa [clearRow, hdc] using h.vals d hd'
    obtain ⟨t2, x, ht2, hx⟩ := gap_defined_after (k := k) hg hmin (t1 := e.table.clearRow c) h.n
      (fun d hd => by
        have : e.table.known d = true := by rw [h.known d]; simp [C09.Spec.knows, hd]
        have hdc : d ≠ c := fun hh => hnik (hh ▸ hd)
        simp [clearRow, this, hdc]) hag hsa hmd hside
    exact ⟨_, _, unstep_ok k.run gap (h.ex ▸ hc) hlt hk ht2 hx⟩


/-! #### undo (C08, environment clause) and the constructor -/

/-- **step-then-unstep restores everything observable** (`env_undo` with `ComputeOK`, `KnowledgeOnly` discharged
    by `EnvReal` and `RowsOnly` by `GapFacts.rows`) -/
theorem env_undo_of (hg : GapFacts gap side) (h : C09.Inv (k.run : Table α → _) P e s) {a : Nat}
    {e1 e2 : Env α} {o1 o2 : StepOut α} (h1 : step k.run gap e a = .ok (e1, o1))
    (h2 : unstep k.run gap e1 a = .ok (e2, o2)) :
    EnvEq e2 e ∧ e2.actionMasks = e.actionMasks ∧ e2.state = e.state ∧ e2.done = e.done ∧
      o2.obs = e.state ∧ o2.done = e.done ∧ o2.chosen = o1.chosen ∧ e.reward gap = .ok o2.reward := by
  obtain ⟨a1, a2, a3, a4, a5, a6, a7, a8⟩ := env_undo (computer_ok k) (computer_knowledgeOnly k) h.fresh h1 h2
  exact ⟨a1, a2, a3, a4, a5, a6, a7, a8 hg.rows⟩

/-- for a hidden game of the class the round trip never raises either -/
theorem roundtrip_succeeds_of (hg : GapFacts gap side) (hmin : P.Minimal)
    (h : C09.Inv (k.run : Table α → _) P e s) (hsa : SA P.n s.full)
    (hmd : k.NeedsMono → MonoDec P.n s.full) (hside : side s.full) {a : Nat}
    (hv : C09.validStep P s a = true) :
    ∃ e1 o1 e2 o2, step k.run gap e a = .ok (e1, o1) ∧ unstep k.run gap e1 a = .ok (e2, o2) ∧
      C09.Inv (k.run : Table α → _) P e2 s := by
  obtain ⟨e1, o1, h1⟩ := step_succeeds_of hg hmin h hsa hmd hside hv
  obtain ⟨c, hc, hrev, hinv1, _⟩ := C09.step_spec (computer_ok k) h h1
  have hv2 : C09.validUnstep P (s.step c) a = true := by simp [C09.validUnstep, hc, C09.Spec.step]
  obtain ⟨e2, o2, h2⟩ := unstep_succeeds_of (s := s.step c) hg hmin hinv1 hsa hmd hside hv2
  obtain ⟨c', hc', _, hinv2, _⟩ := C09.unstep_spec (computer_ok k) hinv1 h2
  rw [hc] at hc'
  cases hc'
  rw [C09.unstep_step s c hrev] at hinv2
  exact ⟨e1, o1, e2, o2, h1, h2, hinv2⟩

/-- the constructor never raises for the registered computers when the initial knowledge contains the minimal
    information and something is left to explore (`ComputeTotal` discharged for the constructor's own reset) -/
theorem mkEnvWith_succeeds (k : Computer) {t0 : Table α} (hn : t0.n = P.n) (hP : P.WF) (hmin : P.Minimal)
    (hex : P.explorable ≠ []) (f g : Nat → α) :
    ∃ e, mkEnvWith (k.run : Table α → _) t0 P.ik P.budget f g = .ok e := by
  have hik' : ∀ c ∈ P.ik, c < 2 ^ t0.n := by rw [hn]; exact hP.2
  obtain ⟨t1, hset, hn1, hk1, _, _⟩ := setKnownValues_ik t0 f P.ik hik'
  have hmi : MinInfo t1.n t1.known := by
    rw [hn1, hn]
    have hk : ∀ c ∈ P.ik, t1.known c = true := fun c hc => by rw [hk1 c]; simp [hc]
    exact ⟨hk 0 hmin.1, hk _ hmin.2.1, fun i hi => hk _ (hmin.2.2 i hi)⟩
  obtain ⟨t2, ht2⟩ := computer_total k t1 hmi
  have hall : (P.ik.all fun x => decide (x < t0.rows)) = true :=
    List.all_eq_true.mpr (fun x hx => decide_eq_true (by simpa [Table.rows] using hik' x hx))
  have hexl : ((allCoalitions t0.n).filter (fun c => !P.ik.contains c)).length ≠ 0 := by
    rw [hn]
    exact fun h0 => hex (List.length_eq_zero_iff.mp h0)
  refine ⟨{ full := f, norm := g, table := t2, steps := 0, budget := P.budget, initiallyKnown := P.ik,
            explorable := (allCoalitions t0.n).filter (fun c => !P.ik.contains c) }, ?_⟩
  simp only [mkEnvWith, reset, hall, if_true, hset, ht2, hexl, if_false]


/-! #### the solvers (C13) and the size-aggregated environment (C16) -/

/-- C13's `Hyps` for a registered computer and a gap with `GapFacts` that is defined on the tables the environment
    hands it (`C13.GapDefined`; implied by `GapTotal`, and true for exploitability as soon as N is initially known):
    every field is a theorem (`ok`, `ko`, `tot` from `EnvReal` / C08, `ro` from `GapFacts.rows`) -/
theorem hyps_of (hg : GapFacts gap side) (hgd : C13.GapDefined gap P) (k : Computer) (hP : P.WF)
    (hmin : P.Minimal) : C13.Hyps (k.run : Table α → _) gap P :=
  C13.real_hyps_defined k hg.rows hgd hP hmin

/-- **C16 step, end to end**: at a reachable state of a hidden game of the class, for every size `k < n` and every
    choice the sampler can make, the linear step succeeds, reveals a previously unknown explorable coalition of
    size `k`, and returns the inner environment's reward, which is never positive -/
theorem linStep_of (hg : GapFacts gap side) (hmin : P.Minimal)
    (h : C09.Inv (k.run : Table α → _) P e s) (hsa : SA P.n s.full)
    (hmd : k.NeedsMono → MonoDec P.n s.full) (hside : side s.full) {sz chosen : Nat} (hk : sz < P.n)
    (hc : chosen ∈ e.linCandidates sz) :
    ∃ (e' : Env α) (out : StepOut α) (lin : List α) (c : Nat), linStep k.run gap e sz chosen = some (.ok (e', { out with obs := lin })) ∧
      P.explorable[chosen]? = some c ∧ size c = sz ∧ s.revealed c = false ∧
      C09.Inv (k.run : Table α → _) P e' (s.step c) ∧ out.chosen = c ∧
      e'.reward gap = .ok out.reward ∧ out.reward ≤ 0 ∧ out.done = e'.done ∧ e'.linState = .ok lin := by
  obtain ⟨c, hce, hsz, hkc⟩ := C16.mem_linCandidates.mp hc
  rw [h.ex] at hce
  have hv : C09.validStep P s chosen = true := by
    have := h.known c
    rw [hkc] at this
    simp only [C09.Spec.knows, Bool.false_eq, Bool.or_eq_false_iff] at this
    simp [C09.validStep, hce, this.2]
  obtain ⟨e', out, hstep⟩ := step_succeeds_of hg hmin h hsa hmd hside hv
  obtain ⟨lin, c', h1, h2, h3, h4, h5, h6, h7, h8, h9⟩ := C16.linStep_spec (computer_ok k) h hk hc hstep
  obtain ⟨r, hr, hr0⟩ := reward_nonpos_of (s := s.step c') hg hmin h5 hsa hmd hside
  rw [h7] at hr
  cases hr
  exact ⟨e', out, lin, c', h1, h2, h3, h4, h5, h6, h7, hr0, h8, h9⟩

end env

end ICG.Compose
