/-
  ICG.Lemmas.Sweep — the generic in-place sweep lemma for `sweepM` and the facts about the
  enumerations of unknown coalitions (`unknownIds`, `unknownSorted`, `sortByKey`).

  * `sweepM_inv`     : invariant rule for `sweepM` (any step function, any `put`).
  * `sweepM_putLo`   : a lower-column sweep whose step computes `P c` whenever the rows written so far
                       hold `P` and all other rows hold their initial content ends with `lo = P` on the
                       swept rows and the initial content elsewhere.
  * `sweepM_putHi`   : the same for the upper column.
  * `UnknownOrder`   : a size-sorted duplicate-free enumeration of the unknown coalitions; the three
                       orders used by the model are instances.
-/
import ICG.Model.Bounds
import ICG.Spec.Bounds
import ICG.Spec.EnumFacts

namespace ICG.Refine
open Table

variable {α : Type}

/-! ### the sweep as a fold -/

theorem sweepM_nil (f : Table α → Nat → Except Err α) (put : Table α → Nat → α → Table α)
    (t : Table α) : sweepM f put [] t = .ok t := rfl

theorem sweepM_cons (f : Table α → Nat → Except Err α) (put : Table α → Nat → α → Table α)
    (c : Nat) (l : List Nat) (t : Table α) :
    sweepM f put (c :: l) t =
      (match f t c with
       | .ok v => sweepM f put l (put t c v)
       | .error e => .error e) := by
  simp only [sweepM, List.foldlM_cons, bind, Except.bind, pure, Except.pure]
  cases f t c <;> rfl

/-- invariant rule: `I pre t` holds before the element following the prefix `pre` is processed. -/
theorem sweepM_inv (f : Table α → Nat → Except Err α) (put : Table α → Nat → α → Table α)
    (I : List Nat → Table α → Prop) :
    ∀ (rest pre : List Nat) (t : Table α), I pre t →
      (∀ (p : List Nat) (c : Nat) (q : List Nat) (s : Table α), pre ++ rest = p ++ c :: q → I p s →
        ∃ v, f s c = .ok v ∧ I (p ++ [c]) (put s c v)) →
      ∃ t', sweepM f put rest t = .ok t' ∧ I (pre ++ rest) t' := by
  intro rest
  induction rest with
  | nil => intro pre t h _; exact ⟨t, rfl, by simpa using h⟩
  | cons c rest ih =>
    intro pre t h hstep
    obtain ⟨v, hv, hI⟩ := hstep pre c rest t rfl h
    obtain ⟨t', ht', hI'⟩ := ih (pre ++ [c]) (put t c v) hI (by
      intro p d q s hsplit hs
      exact hstep p d q s (by simpa using hsplit) hs)
    refine ⟨t', ?_, by simpa using hI'⟩
    rw [sweepM_cons, hv]; exact ht'

/-- a sweep that succeeds ran its step successfully at every element -/
theorem sweepM_ok_step (f : Table α → Nat → Except Err α) (put : Table α → Nat → α → Table α) :
    ∀ (order : List Nat) (t t' : Table α), sweepM f put order t = .ok t' →
      ∀ c ∈ order, ∃ s v, f s c = .ok v := by
  intro order
  induction order with
  | nil => intro t t' _ c hc; cases hc
  | cons d l ih =>
    intro t t' h c hc
    rw [sweepM_cons] at h
    cases hd : f t d with
    | error e => rw [hd] at h; cases h
    | ok v =>
      rw [hd] at h
      rcases List.mem_cons.mp hc with rfl | hc
      · exact ⟨t, v, hd⟩
      · exact ih _ _ h c hc

/-- lower-column sweep -/
theorem sweepM_putLo (f : Table α → Nat → Except Err α) (order : List Nat) (t0 : Table α)
    (P : Nat → α)
    (hstep : ∀ (pre : List Nat) (c : Nat) (post : List Nat) (t : Table α),
      order = pre ++ c :: post → t.n = t0.n → t.known = t0.known → t.hi = t0.hi →
      (∀ d, t.lo d = if d ∈ pre then P d else t0.lo d) → f t c = .ok (P c)) :
    ∃ t', sweepM f putLo order t0 = .ok t' ∧ t'.n = t0.n ∧ t'.known = t0.known ∧ t'.hi = t0.hi ∧
      ∀ d, t'.lo d = if d ∈ order then P d else t0.lo d := by
  have := sweepM_inv f putLo
    (fun pre t => t.n = t0.n ∧ t.known = t0.known ∧ t.hi = t0.hi ∧
      ∀ d, t.lo d = if d ∈ pre then P d else t0.lo d)
    order [] t0 ⟨rfl, rfl, rfl, fun d => by simp⟩ (by
      intro p c q s hsplit ⟨h1, h2, h3, h4⟩
      refine ⟨P c, hstep p c q s (by simpa using hsplit) h1 h2 h3 h4, h1, h2, h3, ?_⟩
      intro d
      simp only [putLo, List.mem_append, List.mem_singleton]
      by_cases hd : d = c
      · simp [hd]
      · simp only [hd, if_false, or_false]; exact h4 d)
  simpa using this

/-- upper-column sweep -/
theorem sweepM_putHi (f : Table α → Nat → Except Err α) (order : List Nat) (t0 : Table α)
    (P : Nat → α)
    (hstep : ∀ (pre : List Nat) (c : Nat) (post : List Nat) (t : Table α),
      order = pre ++ c :: post → t.n = t0.n → t.known = t0.known → t.lo = t0.lo →
      (∀ d, t.hi d = if d ∈ pre then P d else t0.hi d) → f t c = .ok (P c)) :
    ∃ t', sweepM f putHi order t0 = .ok t' ∧ t'.n = t0.n ∧ t'.known = t0.known ∧ t'.lo = t0.lo ∧
      ∀ d, t'.hi d = if d ∈ order then P d else t0.hi d := by
  have := sweepM_inv f putHi
    (fun pre t => t.n = t0.n ∧ t.known = t0.known ∧ t.lo = t0.lo ∧
      ∀ d, t.hi d = if d ∈ pre then P d else t0.hi d)
    order [] t0 ⟨rfl, rfl, rfl, fun d => by simp⟩ (by
      intro p c q s hsplit ⟨h1, h2, h3, h4⟩
      refine ⟨P c, hstep p c q s (by simpa using hsplit) h1 h2 h3 h4, h1, h2, h3, ?_⟩
      intro d
      simp only [putHi, List.mem_append, List.mem_singleton]
      by_cases hd : d = c
      · simp [hd]
      · simp only [hd, if_false, or_false]; exact h4 d)
  simpa using this

/-! ### size-sorted enumerations of the unknown coalitions -/

/-- `order` enumerates exactly the unknown coalitions of `t`, without repetition, by ascending size -/
structure UnknownOrder (n : Nat) (known : Nat → Bool) (order : List Nat) : Prop where
  mem : ∀ c, c ∈ order ↔ c < 2 ^ n ∧ known c = false
  sorted : order.Pairwise (fun a b => size a ≤ size b)
  nodup : order.Nodup

theorem mem_sortByKey {β} (key : β → Nat) (m : Nat) (l : List β) (x : β) :
    x ∈ sortByKey key m l ↔ x ∈ l ∧ key x ≤ m := by
  simp only [sortByKey, List.mem_flatMap, List.mem_range, List.mem_filter, beq_iff_eq]
  constructor
  · rintro ⟨k, hk, hx, rfl⟩; exact ⟨hx, by omega⟩
  · rintro ⟨hx, hk⟩; exact ⟨key x, by omega, hx, rfl⟩

theorem sortByKey_sorted {β} (key : β → Nat) (m : Nat) (l : List β) :
    (sortByKey key m l).Pairwise (fun a b => key a ≤ key b) := by
  unfold sortByKey
  rw [List.pairwise_flatMap]
  constructor
  · intro k _
    apply List.Pairwise.imp_of_mem (R := fun _ _ => True)
    · intro a b ha hb _
      simp only [List.mem_filter, beq_iff_eq] at ha hb
      omega
    · exact List.pairwise_of_forall (fun _ _ => trivial)
  · apply List.Pairwise.imp (R := fun a b => a < b)
    · intro a b hab x hx y hy
      simp only [List.mem_filter, beq_iff_eq] at hx hy
      omega
    · exact List.pairwise_lt_range

theorem sortByKey_nodup {β} (key : β → Nat) (m : Nat) (l : List β) (h : l.Nodup) :
    (sortByKey key m l).Nodup := by
  unfold sortByKey List.Nodup
  rw [List.pairwise_flatMap]
  constructor
  · intro k _; exact List.Pairwise.filter _ h
  · apply List.Pairwise.imp (R := fun a b => a < b)
    · intro a b hab x hx y hy
      simp only [List.mem_filter, beq_iff_eq] at hx hy
      rintro rfl
      omega
    · exact List.pairwise_lt_range

theorem mem_unknownIds (t : Table α) (c : Nat) :
    c ∈ unknownIds t ↔ c < 2 ^ t.n ∧ t.known c = false := by
  simp [unknownIds, allCoalitions]

theorem unknownIds_nodup (t : Table α) : (unknownIds t).Nodup :=
  List.Pairwise.filter _ List.nodup_range

/-- the order of the reference computer's lower pass -/
theorem unknownOrder_sa (E : EnumFacts) (t : Table α) :
    UnknownOrder t.n t.known (sortByKey size t.n (unknownIds t)) where
  mem c := by
    rw [mem_sortByKey, mem_unknownIds]
    constructor
    · exact fun h => h.1
    · exact fun h => ⟨h, E.size_le _ _ h.1⟩
  sorted := sortByKey_sorted _ _ _
  nodup := sortByKey_nodup _ _ _ (unknownIds_nodup t)

/-- the order of the cached computers -/
theorem unknownOrder_sac (E : EnumFacts) (t : Table α) :
    UnknownOrder t.n t.known (unknownSorted t) where
  mem c := by
    simp only [unknownSorted, allSorted, List.mem_filter, mem_sortByKey, allCoalitions, List.mem_range,
      Bool.not_eq_eq_eq_not, Bool.not_true]
    constructor
    · exact fun h => ⟨h.1.1, h.2⟩
    · exact fun h => ⟨⟨h.1, E.size_le _ _ h.1⟩, h.2⟩
  sorted := List.Pairwise.filter _ (sortByKey_sorted _ _ _)
  nodup := List.Pairwise.filter _ (sortByKey_nodup _ _ _ List.nodup_range)

/-- any size-sorted permutation of an `UnknownOrder` is one -/
theorem UnknownOrder.of_perm {n : Nat} {known : Nat → Bool} {o o' : List Nat}
    (h : UnknownOrder n known o) (hp : o'.Perm o)
    (hs : o'.Pairwise (fun a b => size a ≤ size b)) : UnknownOrder n known o' where
  mem c := by rw [hp.mem_iff]; exact h.mem c
  sorted := hs
  nodup := hp.nodup_iff.mpr h.nodup

section splits
variable {n : Nat} {known : Nat → Bool} {order pre post : List Nat} {c : Nat}

/-- in a size-sorted order, a scheduled coalition of strictly smaller size has already been processed -/
theorem UnknownOrder.smaller_mem_pre (h : UnknownOrder n known order)
    (hsplit : order = pre ++ c :: post) {x : Nat} (hx : x ∈ order) (hlt : size x < size c) :
    x ∈ pre := by
  have hs := h.sorted
  rw [hsplit] at hs hx
  rcases List.mem_append.mp hx with hx | hx
  · exact hx
  · exfalso
    have hs' := (List.pairwise_append.mp hs).2.1
    rcases List.mem_cons.mp hx with rfl | hx
    · omega
    · have := (List.pairwise_cons.mp hs').1 x hx; omega

/-- a scheduled coalition of strictly larger size has not been processed yet -/
theorem UnknownOrder.larger_not_mem_pre (h : UnknownOrder n known order)
    (hsplit : order = pre ++ c :: post) {x : Nat} (hlt : size c < size x) : x ∉ pre := by
  intro hx
  have hs := h.sorted
  rw [hsplit] at hs
  have := (List.pairwise_append.mp hs).2.2 x hx c List.mem_cons_self
  omega

/-- the coalition being processed has not been processed before -/
theorem UnknownOrder.self_not_mem_pre (h : UnknownOrder n known order)
    (hsplit : order = pre ++ c :: post) : c ∉ pre := by
  intro hx
  have hs := h.nodup
  rw [hsplit] at hs
  exact (List.nodup_append.mp hs).2.2 c hx c List.mem_cons_self rfl

theorem UnknownOrder.cur_mem (_h : UnknownOrder n known order)
    (hsplit : order = pre ++ c :: post) : c ∈ order := by
  rw [hsplit]; simp

theorem UnknownOrder.pre_sub (_h : UnknownOrder n known order)
    (hsplit : order = pre ++ c :: post) {x : Nat} (hx : x ∈ pre) : x ∈ order := by
  rw [hsplit]; simp [hx]

end splits

end ICG.Refine
