/-
  ICG.Lemmas.RefineCor — consequences of the refinement theorems.

  * domain: `sa_defined_iff`, `sac_defined_iff`, `sam_defined_iff` — each computer succeeds exactly on
    the `MinInfo` tables (for every `n`, including `n = 0`), and `sa` fails with `.assert` otherwise
  * `sa_sac_agree`          : reference and cached computer return the same table
  * `compute_idempotent`    : running a computer on its own output returns that output
  * `compute_knowledge_only`: the result depends only on `n`, `known` and the known values
  * `compute_output_inv`    : the output satisfies `MinInfo` and `Inv`
  (the last three for every `k : Computer`, i.e. `sa`, `sac`, `sam r`)
-/
import ICG.Lemmas.RefineSam

namespace ICG.Refine
open Table

variable {α : Type}

theorem table_ext {t s : Table α} (hn : t.n = s.n) (hk : t.known = s.known)
    (hlo : ∀ c, t.lo c = s.lo c) (hhi : ∀ c, t.hi c = s.hi c) : t = s := by
  cases t; cases s
  simp only at hn hk hlo hhi
  simp only [Table.mk.injEq]
  exact ⟨hn, hk, funext hlo, funext hhi⟩

/-! ### domain -/

/-- a successful lower-column sweep ran its step successfully at every element, on a table with the
    same `n` and `known` -/
theorem sweepM_putLo_ok_step (f : Table α → Nat → Except Err α) :
    ∀ (order : List Nat) (t t' : Table α), sweepM f putLo order t = .ok t' →
      ∀ c ∈ order, ∃ s v, s.n = t.n ∧ s.known = t.known ∧ f s c = .ok v := by
  intro order
  induction order with
  | nil => intro t t' _ c hc; cases hc
  | cons d l ih =>
    intro t t' h c hc
    rw [sweepM_cons] at h
    cases hd : f t d with
    | error e => rw [hd] at h; cases h
    | ok v =>
      rw [hd] at h
      rcases List.mem_cons.mp hc with rfl | hc
      · exact ⟨t, v, rfl, rfl, hd⟩
      · obtain ⟨s, w, h1, h2, h3⟩ := ih _ _ h c hc
        exact ⟨s, w, h1, h2, h3⟩

/-- the sub-masks of a singleton are ∅ and the singleton -/
theorem sub_two_pow {d i : Nat} (h : d &&& 2 ^ i = d) : d = 0 ∨ d = 2 ^ i := by
  by_cases h0 : d = 0
  · exact Or.inl h0
  · right
    obtain ⟨j, hj⟩ := Nat.exists_testBit_of_ne_zero h0
    have := sub_testBit h j hj
    rw [Nat.testBit_two_pow] at this
    have hij : i = j := by simpa using this
    subst hij
    have h1 := Nat.ge_two_pow_of_testBit hj
    have h2 := sub_le h
    omega

section domain
variable [Add α] [Sub α] [LinearOrder α]

omit [Sub α] in
/-- `np.max([])`: the cached lower step raises ValueError at a singleton, whatever the table holds -/
theorem sacLowerStep_singleton (E : EnumFacts) (s : Table α) {i : Nat} (hi : i < s.n) :
    sacLowerStep s (2 ^ i) = .error .value := by
  have hc : 2 ^ i < 2 ^ s.n := Nat.pow_lt_pow_right (by omega) hi
  have h0 : 2 ^ i ≠ 0 := Nat.ne_of_gt (Nat.two_pow_pos i)
  have : structSel s.n (2 ^ i) 1 = [] := by
    apply List.eq_nil_iff_forall_not_mem.mpr
    intro d hd
    obtain ⟨h1, h2, h3⟩ := (mem_structSel_one E hc h0).mp hd
    rcases sub_two_pow h1 with h | h
    · exact h2 h
    · exact h3 h
  unfold sacLowerStep
  simp only [this, List.map_nil]
  rfl

omit [Sub α] in
/-- a successful lower sweep of the cached computer over the unknown coalitions: all singletons known -/
theorem singletons_known_of_sweep (E : EnumFacts) (t t1 : Table α)
    (h : sweepM sacLowerStep putLo (unknownSorted t) t = .ok t1) :
    ∀ i, i < t.n → t.known (2 ^ i) = true := by
  intro i hi
  cases hk : t.known (2 ^ i) with
  | true => rfl
  | false =>
    exfalso
    have hmem : 2 ^ i ∈ unknownSorted t :=
      ((unknownOrder_sac E t).mem _).mpr ⟨Nat.pow_lt_pow_right (by omega) hi, hk⟩
    obtain ⟨s, v, hn, _, hs⟩ := sweepM_putLo_ok_step sacLowerStep _ t t1 h _ hmem
    rw [sacLowerStep_singleton E s (by rw [hn]; exact hi)] at hs
    cases hs

/-- the reference computer raises AssertionError outside `MinInfo` -/
theorem _root_.ICG.sa_not_minInfo (t : Table α) (h : ¬ MinInfo t.n t.known) : sa t = .error .assert := by
  unfold sa
  rw [if_neg (fun hp => h ((saPrecond_iff t).mp hp))]

/-- **domain of `sa`**: the reference computer succeeds exactly on `MinInfo` tables -/
theorem _root_.ICG.sa_defined_iff (E : EnumFacts) (t : Table α) :
    (∃ t', sa t = .ok t') ↔ MinInfo t.n t.known := by
  constructor
  · rintro ⟨t', h⟩
    by_contra hn
    rw [sa_not_minInfo t hn] at h; cases h
  · intro hmin
    obtain ⟨t', h, _⟩ := sa_core E t hmin
    exact ⟨t', h⟩

/-- **domain of `sac`**: the cached computer succeeds exactly on `MinInfo` tables (outside, it raises
    AssertionError when ∅ or N is unknown, and otherwise fails in the lower pass — `np.max([])` raises
    ValueError at the first unknown singleton reached) -/
theorem _root_.ICG.sac_defined_iff (E : EnumFacts) (t : Table α) :
    (∃ t', sac t = .ok t') ↔ MinInfo t.n t.known := by
  constructor
  · rintro ⟨t', h⟩
    unfold sac at h
    cases hp : sacPrecond t with
    | false => rw [hp] at h; cases h
    | true =>
      rw [hp, if_pos rfl] at h
      have hp' := hp
      simp only [sacPrecond, grand, Bool.and_eq_true] at hp'
      refine ⟨hp'.1, hp'.2, ?_⟩
      cases h1 : sweepM sacLowerStep putLo (unknownSorted t) t with
      | error e => simp only [h1, bind, Except.bind] at h; cases h
      | ok t1 => exact singletons_known_of_sweep E t t1 h1
  · intro hmin
    obtain ⟨t', h, _⟩ := sac_core E t hmin
    exact ⟨t', h⟩

/-- **domain of `sam r`** -/
theorem _root_.ICG.sam_defined_iff (E : EnumFacts) (r : Nat) (t : Table α) :
    (∃ t', sam r t = .ok t') ↔ MinInfo t.n t.known := by
  constructor
  · rintro ⟨t', h⟩
    unfold sam at h
    cases hp : sacPrecond t with
    | false => rw [hp] at h; cases h
    | true =>
      rw [hp, if_pos rfl] at h
      have hp' := hp
      simp only [sacPrecond, grand, Bool.and_eq_true] at hp'
      refine ⟨hp'.1, hp'.2, ?_⟩
      cases h1 : sweepM sacLowerStep putLo (unknownSorted t) t with
      | error e =>
        simp only [samRound, samSplitStep_true, h1, bind, Except.bind] at h; cases h
      | ok t1 => exact singletons_known_of_sweep E t t1 h1
  · intro hmin
    obtain ⟨t', h, _⟩ := sam_core E r t hmin
    exact ⟨t', h⟩

end domain

/-! ### a common frame for the three computers -/

section frame
variable [Add α] [Sub α] [LinearOrder α]

/-- `run` computes the row-wise specification `(LO, UP)` on `MinInfo` tables satisfying `Inv`, and the
    specification reads its value argument on known rows only -/
structure _root_.ICG.RefinesTo (run : Table α → Except Err (Table α))
    (LO UP : Nat → (Nat → Bool) → (Nat → α) → Nat → α) : Prop where
  run_ok : ∀ t : Table α, MinInfo t.n t.known → t.Inv →
    ∃ t', run t = .ok t' ∧ t'.n = t.n ∧ t'.known = t.known ∧
      (∀ c, c < 2 ^ t.n → t'.lo c = LO t.n t.known t.lo c ∧ t'.hi c = UP t.n t.known t.lo c) ∧
      (∀ c, 2 ^ t.n ≤ c → t'.lo c = t.lo c ∧ t'.hi c = t.hi c)
  lo_known : ∀ n known v c, known c = true → LO n known v c = v c
  up_known : ∀ n known v c, known c = true → UP n known v c = v c
  lo_congr : ∀ n known (v v' : Nat → α), MinInfo n known →
    (∀ c, c < 2 ^ n → known c = true → v c = v' c) → ∀ c, c < 2 ^ n → LO n known v c = LO n known v' c
  up_congr : ∀ n known (v v' : Nat → α), MinInfo n known →
    (∀ c, c < 2 ^ n → known c = true → v c = v' c) → ∀ c, c < 2 ^ n → UP n known v c = UP n known v' c

theorem _root_.ICG.sa_refines (E : EnumFacts) :
    RefinesTo (sa : Table α → _) (fun _ => loSpec) upSpec where
  run_ok t hmin hinv := sa_eq_spec E t hmin hinv
  lo_known _ _ _ _ h := loSpec_known h
  up_known _ _ _ _ h := upSpec_known h
  lo_congr _ _ _ _ hmin hv := loSpec_congr hmin hv
  up_congr _ _ _ _ hmin hv := upSpec_congr hmin hv

theorem _root_.ICG.sac_refines (E : EnumFacts) :
    RefinesTo (sac : Table α → _) (fun _ => loSpec) upSpec where
  run_ok t hmin hinv := sac_eq_spec E t hmin hinv
  lo_known _ _ _ _ h := loSpec_known h
  up_known _ _ _ _ h := upSpec_known h
  lo_congr _ _ _ _ hmin hv := loSpec_congr hmin hv
  up_congr _ _ _ _ hmin hv := upSpec_congr hmin hv

theorem _root_.ICG.sam_refines (E : EnumFacts) (r : Nat) :
    RefinesTo (sam r : Table α → _) (fun n known v => samB n known v r)
      (fun n known v => samUp n known v r) where
  run_ok t hmin hinv := sam_eq_spec E r t hmin hinv
  lo_known _ _ _ _ h := samB_known h r
  up_known _ _ _ _ h := samUp_known h
  lo_congr _ _ _ _ hmin hv := samB_congr hmin hv r
  up_congr _ _ _ _ hmin hv := samUp_congr hmin hv r

variable {run : Table α → Except Err (Table α)} {LO UP : Nat → (Nat → Bool) → (Nat → α) → Nat → α}

omit [Add α] [Sub α] [LinearOrder α] in
/-- the output of a computer satisfies `MinInfo` and `Inv` again -/
theorem _root_.ICG.RefinesTo.output_inv (h : RefinesTo run LO UP) (t : Table α) (hmin : MinInfo t.n t.known)
    (hinv : t.Inv) {t' : Table α} (hr : run t = .ok t') : MinInfo t'.n t'.known ∧ t'.Inv := by
  obtain ⟨t'', h1, h2, h3, h4, _⟩ := h.run_ok t hmin hinv
  rw [hr] at h1; cases h1
  refine ⟨by rw [h2, h3]; exact hmin, ?_⟩
  intro c hc hk
  rw [h2] at hc; rw [h3] at hk
  rw [(h4 c hc).1, (h4 c hc).2, h.lo_known _ _ _ _ hk, h.up_known _ _ _ _ hk]

omit [Add α] [Sub α] [LinearOrder α] in
/-- running a computer on its own output returns that output -/
theorem _root_.ICG.RefinesTo.idempotent (h : RefinesTo run LO UP) (t : Table α) (hmin : MinInfo t.n t.known)
    (hinv : t.Inv) {t' : Table α} (hr : run t = .ok t') : run t' = .ok t' := by
  obtain ⟨hmin', hinv'⟩ := h.output_inv t hmin hinv hr
  obtain ⟨t'', h1, h2, h3, h4, h5⟩ := h.run_ok t hmin hinv
  rw [hr] at h1; cases h1
  obtain ⟨s, g1, g2, g3, g4, g5⟩ := h.run_ok t' hmin' hinv'
  rw [g1]
  congr 1
  have hagree : ∀ d, d < 2 ^ t.n → t.known d = true → t'.lo d = t.lo d := by
    intro d hd hkd; rw [(h4 d hd).1, h.lo_known _ _ _ _ hkd]
  apply table_ext g2 g3
  · intro c
    by_cases hc : c < 2 ^ t.n
    · rw [(g4 c (by rw [h2]; exact hc)).1, h2, h3, (h4 c hc).1]
      exact h.lo_congr _ _ _ _ hmin hagree c hc
    · exact (g5 c (by rw [h2]; omega)).1
  · intro c
    by_cases hc : c < 2 ^ t.n
    · rw [(g4 c (by rw [h2]; exact hc)).2, h2, h3, (h4 c hc).2]
      exact h.up_congr _ _ _ _ hmin hagree c hc
    · exact (g5 c (by rw [h2]; omega)).2

omit [Add α] [Sub α] [LinearOrder α] in
/-- the result depends on the known values only: stale content of unknown rows is irrelevant -/
theorem _root_.ICG.RefinesTo.knowledge_only (h : RefinesTo run LO UP) (t s : Table α)
    (hn : t.n = s.n) (hk : t.known = s.known)
    (hv : ∀ c, c < 2 ^ t.n → t.known c = true → t.lo c = s.lo c)
    (hmin : MinInfo t.n t.known) (hinvt : t.Inv) (hinvs : s.Inv) :
    ∃ t' s', run t = .ok t' ∧ run s = .ok s' ∧ t'.n = s'.n ∧ t'.known = s'.known ∧
      ∀ c, c < 2 ^ t.n → t'.lo c = s'.lo c ∧ t'.hi c = s'.hi c := by
  obtain ⟨t', h1, h2, h3, h4, _⟩ := h.run_ok t hmin hinvt
  obtain ⟨s', g1, g2, g3, g4, _⟩ := h.run_ok s (by rw [← hn, ← hk]; exact hmin) hinvs
  refine ⟨t', s', h1, g1, by rw [h2, g2, hn], by rw [h3, g3, hk], ?_⟩
  intro c hc
  rw [(h4 c hc).1, (h4 c hc).2, (g4 c (by rw [← hn]; exact hc)).1,
    (g4 c (by rw [← hn]; exact hc)).2, ← hn, ← hk]
  exact ⟨h.lo_congr _ _ _ _ hmin hv c hc, h.up_congr _ _ _ _ hmin hv c hc⟩

end frame

/-! ### the corollaries, for the registry of computers -/

section corollaries
variable [Add α] [Sub α] [LinearOrder α]

/-- lower-bound specification of a registered computer -/
def _root_.ICG.Computer.specLo : Computer → Nat → (Nat → Bool) → (Nat → α) → Nat → α
  | .sa => fun _ => loSpec
  | .sac => fun _ => loSpec
  | .sam r => fun n known v => samB n known v r

/-- upper-bound specification of a registered computer -/
def _root_.ICG.Computer.specUp : Computer → Nat → (Nat → Bool) → (Nat → α) → Nat → α
  | .sa => upSpec
  | .sac => upSpec
  | .sam r => fun n known v => samUp n known v r

theorem _root_.ICG.Computer.refines (E : EnumFacts) (k : Computer) :
    RefinesTo (k.run : Table α → _) k.specLo k.specUp := by
  cases k with
  | sa => exact sa_refines E
  | sac => exact sac_refines E
  | sam r => exact sam_refines E r

/-- every registered computer computes its specification -/
theorem _root_.ICG.compute_eq_spec (E : EnumFacts) (k : Computer) (t : Table α) (hmin : MinInfo t.n t.known)
    (hinv : t.Inv) :
    ∃ t', k.run t = .ok t' ∧ t'.n = t.n ∧ t'.known = t.known ∧
      (∀ c, c < 2 ^ t.n → t'.lo c = k.specLo t.n t.known t.lo c ∧
        t'.hi c = k.specUp t.n t.known t.lo c) ∧
      (∀ c, 2 ^ t.n ≤ c → t'.lo c = t.lo c ∧ t'.hi c = t.hi c) :=
  (k.refines E).run_ok t hmin hinv

/-- **sa_sac_agree**: reference and cached computer return the same table -/
theorem _root_.ICG.sa_sac_agree (E : EnumFacts) (t : Table α) (hmin : MinInfo t.n t.known) (hinv : t.Inv) :
    ∃ t', sa t = .ok t' ∧ sac t = .ok t' := by
  obtain ⟨t1, h1, h2, h3, h4, h5⟩ := sa_eq_spec E t hmin hinv
  obtain ⟨t2, g1, g2, g3, g4, g5⟩ := sac_eq_spec E t hmin hinv
  refine ⟨t1, h1, ?_⟩
  rw [g1]
  congr 1
  apply table_ext (by rw [g2, h2]) (by rw [g3, h3])
  · intro c
    by_cases hc : c < 2 ^ t.n
    · rw [(g4 c hc).1, (h4 c hc).1]
    · rw [(g5 c (by omega)).1, (h5 c (by omega)).1]
  · intro c
    by_cases hc : c < 2 ^ t.n
    · rw [(g4 c hc).2, (h4 c hc).2]
    · rw [(g5 c (by omega)).2, (h5 c (by omega)).2]

/-- row-wise form of `sa_sac_agree` -/
theorem _root_.ICG.sa_sac_agree_rows (E : EnumFacts) (t : Table α) (hmin : MinInfo t.n t.known)
    (hinv : t.Inv) :
    ∃ t1 t2, sa t = .ok t1 ∧ sac t = .ok t2 ∧
      ∀ c, c < 2 ^ t.n → t1.lo c = t2.lo c ∧ t1.hi c = t2.hi c := by
  obtain ⟨t', h1, h2⟩ := sa_sac_agree E t hmin hinv
  exact ⟨t', t', h1, h2, fun _ _ => ⟨rfl, rfl⟩⟩

/-- **compute_output_inv**: the output of a computer is again a `MinInfo` table satisfying `Inv` -/
theorem _root_.ICG.compute_output_inv (E : EnumFacts) (k : Computer) (t : Table α)
    (hmin : MinInfo t.n t.known) (hinv : t.Inv) {t' : Table α} (hr : k.run t = .ok t') :
    MinInfo t'.n t'.known ∧ t'.Inv :=
  (k.refines E).output_inv t hmin hinv hr

/-- **compute_idempotent**: running a computer on its own output returns that output unchanged -/
theorem _root_.ICG.compute_idempotent (E : EnumFacts) (k : Computer) (t : Table α)
    (hmin : MinInfo t.n t.known) (hinv : t.Inv) {t' : Table α} (hr : k.run t = .ok t') :
    k.run t' = .ok t' :=
  (k.refines E).idempotent t hmin hinv hr

/-- **compute_knowledge_only**: two tables with the same `n`, the same `known` and the same values on
    known rows (stale unknown rows arbitrary) give row-wise equal results -/
theorem _root_.ICG.compute_knowledge_only (E : EnumFacts) (k : Computer) (t s : Table α)
    (hn : t.n = s.n) (hk : t.known = s.known)
    (hv : ∀ c, c < 2 ^ t.n → t.known c = true → t.lo c = s.lo c)
    (hmin : MinInfo t.n t.known) (hinvt : t.Inv) (hinvs : s.Inv) :
    ∃ t' s', k.run t = .ok t' ∧ k.run s = .ok s' ∧ t'.n = s'.n ∧ t'.known = s'.known ∧
      ∀ c, c < 2 ^ t.n → t'.lo c = s'.lo c ∧ t'.hi c = s'.hi c :=
  (k.refines E).knowledge_only t s hn hk hv hmin hinvt hinvs

/-- every registered computer succeeds exactly on `MinInfo` tables -/
theorem _root_.ICG.compute_defined_iff (E : EnumFacts) (k : Computer) (t : Table α) :
    (∃ t', k.run t = .ok t') ↔ MinInfo t.n t.known := by
  cases k with
  | sa => exact sa_defined_iff E t
  | sac => exact sac_defined_iff E t
  | sam r => exact sam_defined_iff E r t

end corollaries

end ICG.Refine
