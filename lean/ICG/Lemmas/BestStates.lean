/-
  ICG.Lemmas.BestStates — the per-size selection of `get_best_exploitability` (ICG.Model.Search.bestStates):
  each row of the result is a left fold, over the candidates of that size in enumeration order, of
  "replace when the current mean is the placeholder −1 or strictly larger"; that fold returns the first
  minimiser.  Plus the order facts about `mean` and the sub-list extension lemma used for monotonicity.
-/
import ICG.Model.Search
import Mathlib.Algebra.Order.Field.Basic
import Mathlib.Tactic.Linarith
import Mathlib.Tactic.FieldSimp
import Mathlib.Tactic.Ring

set_option linter.unusedSectionVars false

namespace ICG.Search
open ICG

section
variable {α : Type} [Field α] [LinearOrder α] [IsStrictOrderedRing α]

theorem foldl_add_replicate (x a : α) (r : Nat) : (List.replicate r x).foldl (· + ·) a = a + r * x := by
  induction r generalizing a with
  | zero => simp
  | succ r ih => simp only [List.replicate_succ, List.foldl_cons, ih, Nat.cast_succ]; ring

theorem mean_replicate (x : α) {r : Nat} (hr : 0 < r) : mean (List.replicate r x) = x := by
  have : (r : α) ≠ 0 := Nat.cast_ne_zero.mpr (by omega)
  simp only [mean, listSum, foldl_add_replicate, List.length_replicate, zero_add]
  field_simp

theorem foldl_add_le (l1 l2 : List α) (a b : α) (hab : a ≤ b) (h : List.Forall₂ (· ≤ ·) l1 l2) :
    l1.foldl (· + ·) a ≤ l2.foldl (· + ·) b := by
  induction h generalizing a b with
  | nil => exact hab
  | cons hxy _ ih => exact ih _ _ (add_le_add hab hxy)

/-- pointwise smaller gaps on the same sampled games ⇒ smaller mean -/
theorem mean_le_mean (l1 l2 : List α) (h : List.Forall₂ (· ≤ ·) l1 l2) : mean l1 ≤ mean l2 := by
  have hl : l1.length = l2.length := h.length_eq
  simp only [mean, listSum, hl]
  exact div_le_div_of_nonneg_right (foldl_add_le l1 l2 0 0 le_rfl h) (Nat.cast_nonneg _)

/-- the update rule of one row -/
def upd (cur : BestRow α) (p : List Nat × List α) : BestRow α :=
  if mean cur.1 = -1 ∨ mean p.2 < mean cur.1 then (p.2, p.1) else cur

theorem bestUpdate_eq (b : List (BestRow α)) (seq : List Nat) (col : List α) (h : seq.length < b.length) :
    bestUpdate b seq col = .ok (b.set seq.length (upd b[seq.length] (seq, col))) := by
  simp only [bestUpdate, List.getElem?_eq_getElem h, upd]
  split
  · rfl
  · rw [List.set_getElem_self]

/-- every row of the result is the fold of `upd` over the candidates of its size, in order -/
theorem bestFold_rows : ∀ (cands : List (List Nat × List α)) (b : List (BestRow α)),
    (∀ p ∈ cands, p.1.length < b.length) →
    ∃ b', bestFold b cands = .ok b' ∧ b'.length = b.length ∧
      ∀ s (hs : s < b.length), b'[s]? = some ((cands.filter (fun p => p.1.length == s)).foldl upd b[s]) := by
  intro cands
  induction cands with
  | nil => intro b _; exact ⟨b, rfl, rfl, fun s hs => by simp [List.getElem?_eq_getElem hs]⟩
  | cons p cands ih =>
    intro b hb
    obtain ⟨seq, col⟩ := p
    have hlt : seq.length < b.length := hb (seq, col) List.mem_cons_self
    simp only [bestFold, bestUpdate_eq b seq col hlt]
    obtain ⟨b', h1, h2, h3⟩ := ih (b.set seq.length (upd b[seq.length] (seq, col)))
      (fun p hp => by rw [List.length_set]; exact hb p (List.mem_cons_of_mem _ hp))
    refine ⟨b', h1, by rw [h2, List.length_set], fun s hs => ?_⟩
    rw [h3 s (by rw [List.length_set]; exact hs)]
    congr 1
    by_cases hss : seq.length = s
    · subst hss
      simp
    · have : (seq.length == s) = false := by simp [hss]
      simp only [List.filter_cons, this, Bool.false_eq_true, ↓reduceIte]
      congr 1
      rw [List.getElem_set_ne hss]

/-- while scanning candidates that are all strictly worse than `p`, the current row stays "placeholder or
    strictly worse than `p`" -/
theorem foldl_upd_pre (p : List Nat × List α) : ∀ (pre : List (List Nat × List α)) (cur : BestRow α),
    (mean cur.1 = -1 ∨ mean p.2 < mean cur.1) → (∀ q ∈ pre, mean p.2 < mean q.2) →
    mean (pre.foldl upd cur).1 = -1 ∨ mean p.2 < mean (pre.foldl upd cur).1 := by
  intro pre
  induction pre with
  | nil => intro cur h _; exact h
  | cons q pre ih =>
    intro cur h hpre
    simp only [List.foldl_cons]
    apply ih _ _ (fun q' hq' => hpre q' (List.mem_cons_of_mem _ hq'))
    unfold upd
    split
    · exact Or.inr (hpre q List.mem_cons_self)
    · exact h

/-- once the row holds `p` (mean ≠ −1), candidates that are not strictly better leave it alone -/
theorem foldl_upd_post (cur : BestRow α) (hne : mean cur.1 ≠ -1) : ∀ (post : List (List Nat × List α)),
    (∀ q ∈ post, mean cur.1 ≤ mean q.2) → post.foldl upd cur = cur := by
  intro post
  induction post with
  | nil => intro _; rfl
  | cons q post ih =>
    intro h
    have hq := h q List.mem_cons_self
    have : upd cur q = cur := by
      unfold upd
      rw [if_neg]
      rintro (h1 | h1)
      · exact hne h1
      · exact absurd h1 (not_lt.mpr hq)
    simp only [List.foldl_cons, this]
    exact ih (fun q' hq' => h q' (List.mem_cons_of_mem _ hq'))

/-- the fold returns the FIRST minimiser -/
theorem foldl_upd_firstMin (cur : BestRow α) (pre post : List (List Nat × List α)) (p : List Nat × List α)
    (hcur : mean cur.1 = -1) (hp : mean p.2 ≠ -1)
    (hpre : ∀ q ∈ pre, mean p.2 < mean q.2) (hpost : ∀ q ∈ post, mean p.2 ≤ mean q.2) :
    (pre ++ p :: post).foldl upd cur = (p.2, p.1) := by
  rw [List.foldl_append, List.foldl_cons]
  have h1 := foldl_upd_pre p pre cur (Or.inl hcur) hpre
  have h2 : upd (pre.foldl upd cur) p = (p.2, p.1) := if_pos h1
  rw [h2]
  exact foldl_upd_post (p.2, p.1) hp post hpost

/-- a non-empty list has a first minimiser of any key -/
theorem exists_firstMin {β : Type} (f : β → α) : ∀ (l : List β), l ≠ [] →
    ∃ pre p post, l = pre ++ p :: post ∧ (∀ q ∈ pre, f p < f q) ∧ (∀ q ∈ post, f p ≤ f q) := by
  intro l
  induction l with
  | nil => intro h; exact absurd rfl h
  | cons a l ih =>
    intro _
    by_cases hl : l = []
    · subst hl; exact ⟨[], a, [], rfl, by simp, by simp⟩
    · obtain ⟨pre, p, post, rfl, h1, h2⟩ := ih hl
      by_cases hap : f a ≤ f p
      · refine ⟨[], a, pre ++ p :: post, rfl, by simp, ?_⟩
        intro q hq
        rcases List.mem_append.mp hq with hq | hq
        · exact le_trans hap (le_of_lt (h1 q hq))
        · rcases List.mem_cons.mp hq with rfl | hq
          · exact hap
          · exact le_trans hap (h2 q hq)
      · refine ⟨a :: pre, p, post, rfl, ?_, h2⟩
        intro q hq
        rcases List.mem_cons.mp hq with rfl | hq
        · exact not_le.mp hap
        · exact h1 q hq

end

/-- a sub-list that is not the whole list can be extended by one element inside the list -/
theorem sublist_extend {β : Type} {s l : List β} (h : s.Sublist l) (hlt : s.length < l.length) :
    ∃ t, s.Sublist t ∧ t.Sublist l ∧ t.length = s.length + 1 := by
  induction h with
  | slnil => simp at hlt
  | @cons s l a hsl ih =>
    by_cases hlen : s.length < l.length
    · obtain ⟨t, h1, h2, h3⟩ := ih hlen
      exact ⟨t, h1, h2.cons a, h3⟩
    · have heq : s = l := hsl.eq_of_length_le (by omega)
      subst heq
      exact ⟨a :: s, List.sublist_cons_self a s, List.Sublist.refl _, rfl⟩
  | @cons_cons s l a hsl ih =>
    obtain ⟨t, h1, h2, h3⟩ := ih (by simpa using hlt)
    exact ⟨a :: t, h1.cons_cons a, h2.cons_cons a, by simp [h3]⟩

end ICG.Search
