/-
  ICG.Lemmas.SpecSA — the mathematics of the superadditive bound specification (`ICG.Spec.Bounds`),
  for every number of players `n` and every ordered abelian group of values.
  Everything lives in `namespace ICG.SpecSA` (so that short names such as `loSpec_known` cannot collide with
  the refinement lemmas in `namespace ICG`); use `open ICG.SpecSA` or qualified names.

  part 1 (`SpecSA1`): A unfolding / no junk under `MinInfo`  (`loSpec_known`, `loSpec_unknown`, `upSpec_known`,
                        `upSpec_unknown`, `properSubs_ne_nil`, `knownSupers_ne_nil`, `loSpec_split_le`,
                        `upSpec_le_cand`, `…_attained`)
                      B congruence                           (`loSpec_congr`, `upSpec_congr`)
                      C soundness, C01                       (`soundness`, `loSpec_le_upSpec`)
  part 2 (`SpecSA2`): D lower tightness, C02                 (`loSpec_SA`, `loSpec_completion`, `loSpec_isLeast`)
                      E upper tightness, C02                 (`extremeUpper_SA`, `upSpec_attained`, `upSpec_isGreatest`)
                      F best partition formula, C02          (`partition_sum_le_loSpec`, `exists_partition_eq_loSpec`,
                                                              `loSpec_isGreatest_partition`)
  part 3 (`SpecSA3`): G monotonicity in knowledge, C07       (`loSpec_mono_knowledge`, `upSpec_anti_knowledge`,
                                                              `interval_nested`, `reveal_chain_nested`)
                      H gaps                                 (`gap_anti_knowledge`, `gap_nonneg`, `gap_full_knowledge`)
                      a concrete 3-player instance over `Int` satisfying all hypotheses
-/
import ICG.Lemmas.SpecSA1
import ICG.Lemmas.SpecSA2
import ICG.Lemmas.SpecSA3
