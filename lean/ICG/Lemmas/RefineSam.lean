/-
  ICG.Lemmas.RefineSam — the refinement for the approximate superadditive-monotone computer `sam r`.

  * `samUpG`       : `samUp` with the three columns it reads kept apart (`samUp_eq_samUpG`)
  * `samRound_spec`: one round (split pass + superset-max pass) computes
                     `closeSpec (splitSpec … extra)`; in rounds `i ≥ 1` the extra candidate of row `c`
                     is `lo c + lo ∅` read from the table at the start of the round
  * `sam_core`     : `sam r` succeeds on every `MinInfo` table; lower column `samB … r`
  * `sam_eq_spec`  : with `Inv`, upper column `samUp … r`
-/
import ICG.Lemmas.Refine

namespace ICG.Refine
open Table

variable {α : Type}

/-! ### `samUp` with separate columns -/

section samUpG
variable [Add α] [Sub α] [Max α] [Min α]

/-- `samUp` reading the known values of supersets from `V`, the lower bounds from `L` and the known
    values of sub-coalitions from `H` -/
def samUpG (n : Nat) (known : Nat → Bool) (V L H : Nat → α) (c : Nat) : α :=
  if known c then V c else
    match listMin? ((knownSupers n known c).map fun T => V T - L (T - c)),
          listMin? ((knownSubs known c).map H) with
    | some a, some b => min a b
    | _, _ => V c

theorem samUp_eq_samUpG (n : Nat) (known : Nat → Bool) (v : Nat → α) (r : Nat) :
    samUp n known v r = samUpG n known v (samB n known v r) v := rfl

omit [Add α] [Max α] in
theorem samUpG_known {n : Nat} {known : Nat → Bool} {V L H : Nat → α} {c : Nat}
    (h : known c = true) : samUpG n known V L H c = V c := by
  rw [samUpG, if_pos h]

omit [Add α] [Max α] in
theorem samUpG_unknown {n : Nat} {known : Nat → Bool} {V L H : Nat → α} {c : Nat} {a b : α}
    (h : known c = false)
    (ha : listMin? ((knownSupers n known c).map fun T => V T - L (T - c)) = some a)
    (hb : listMin? ((knownSubs known c).map H) = some b) :
    samUpG n known V L H c = min a b := by
  rw [samUpG, if_neg (by simp [h]), ha, hb]

end samUpG

section samUpGcongr
variable [Add α] [Sub α] [LinearOrder α]

omit [Add α] [Sub α] in
theorem subs_list_isSome {n : Nat} {known : Nat → Bool} (hmin : MinInfo n known) {c : Nat}
    (hc : c < 2 ^ n) (hk : known c = false) (g : Nat → α) :
    ∃ m, listMin? ((knownSubs known c).map g) = some m := by
  apply listMin?_isSome
  intro hnil
  have h2 := List.map_eq_nil_iff.mp hnil
  obtain ⟨x, hx⟩ := minInfo_exists_known_sub hmin hc hk
  have : x ∈ knownSubs known c := mem_knownSubs.mpr hx
  rw [h2] at this; cases this

omit [Add α] in
theorem samUpG_congr {n : Nat} {known : Nat → Bool} (hmin : MinInfo n known)
    {V V' L L' H H' : Nat → α}
    (hV : ∀ c, c < 2 ^ n → known c = true → V c = V' c)
    (hL : ∀ c, c < 2 ^ n → L c = L' c)
    (hH : ∀ c, c < 2 ^ n → known c = true → H c = H' c) :
    ∀ c, c < 2 ^ n → samUpG n known V L H c = samUpG n known V' L' H' c := by
  intro c hc
  unfold samUpG
  cases hk : known c with
  | true => simp only [if_true]; exact hV c hc hk
  | false =>
    simp only [Bool.false_eq_true, if_false]
    have h1 : listMin? ((knownSupers n known c).map fun T => V T - L (T - c)) =
        listMin? ((knownSupers n known c).map fun T => V' T - L' (T - c)) := by
      apply listMin?_map_congr (fun _ => Iff.rfl)
      intro T hT
      obtain ⟨h1, _, _, h4⟩ := mem_knownSupers.mp hT
      rw [hV T h1 h4, hL (T - c) (by omega)]
    have h2 : listMin? ((knownSubs known c).map H) = listMin? ((knownSubs known c).map H') := by
      apply listMin?_map_congr (fun _ => Iff.rfl)
      intro x hx
      obtain ⟨⟨hs, _, _⟩, hkx⟩ := mem_knownSubs.mp hx
      exact hH x (sub_lt_two_pow hs hc) hkx
    rw [h1, h2]
    obtain ⟨a, ha⟩ := supers_list_isSome hmin hc hk (fun T => V' T - L' (T - c))
    obtain ⟨b, hb⟩ := subs_list_isSome hmin hc hk H'
    rw [ha, hb]

theorem samUp_congr {n : Nat} {known : Nat → Bool} (hmin : MinInfo n known) {v v' : Nat → α}
    (hv : ∀ c, c < 2 ^ n → known c = true → v c = v' c) (r : Nat) :
    ∀ c, c < 2 ^ n → samUp n known v r c = samUp n known v' r c := by
  intro c hc
  rw [samUp_eq_samUpG, samUp_eq_samUpG]
  exact samUpG_congr hmin hv (samB_congr hmin hv r) hv c hc

end samUpGcongr

/-! ### the steps -/

section steps
variable [Add α] [Sub α] [LinearOrder α]

omit [Sub α] in
theorem samSplitStep_true :
    samSplitStep true = (sacLowerStep : Table α → Nat → Except Err α) := by
  funext t c; rfl

omit [Sub α] in
/-- split step of a round `i ≥ 1`: the candidates are the proper splits and `lo c + lo ∅` -/
theorem samSplitStep_false_ok (E : EnumFacts) (t : Table α) (c : Nat) (L : Nat → α) (e : α)
    (hc : c < 2 ^ t.n) (h0 : c ≠ 0)
    (hlo : ∀ x, x &&& c = x → x ≠ 0 → x ≠ c → t.lo x = L x)
    (he : t.lo c + t.lo 0 = e) :
    ∃ m, listMax? ([e] ++ (properSubs c).map fun x => L x + L (c - x)) = some m ∧
      samSplitStep false t c = .ok m := by
  obtain ⟨m, hm⟩ := listMax?_isSome
    (l := [e] ++ (properSubs c).map fun x => L x + L (c - x)) (by simp)
  refine ⟨m, hm, ?_⟩
  unfold samSplitStep
  simp only [Bool.false_eq_true, if_false]
  apply npMax_of
  rw [← hm]
  apply listMax?_congr
  intro y
  simp only [List.mem_map, List.mem_filter, allCoalitions, List.mem_range, Bool.or_eq_true,
    beq_iff_eq, List.mem_append, List.mem_singleton, mem_properSubs]
  constructor
  · rintro ⟨d, ⟨hd, hd'⟩, rfl⟩
    rcases hd' with h | h
    · obtain ⟨h1, h2, h3⟩ := (coalStructure_eq_one E hc h0 hd).mp h
      obtain ⟨g1, g2, g3⟩ := compl_proper h1 h2 h3
      right
      exact ⟨d, ⟨h1, h2, h3⟩, by rw [xor_eq_sub_of_sub h1, hlo d h1 h2 h3, hlo (c - d) g1 g2 g3]⟩
    · have := (coalStructure_eq_zero E hc h0 hd).mp h
      subst this
      left; rw [Nat.xor_self, he]
  · rintro (rfl | ⟨d, ⟨h1, h2, h3⟩, rfl⟩)
    · exact ⟨c, ⟨hc, Or.inr ((coalStructure_eq_zero E hc h0 hc).mpr rfl)⟩, by
        rw [Nat.xor_self, he]⟩
    · have hd : d < 2 ^ t.n := sub_lt_two_pow h1 hc
      obtain ⟨g1, g2, g3⟩ := compl_proper h1 h2 h3
      exact ⟨d, ⟨hd, Or.inl ((coalStructure_eq_one E hc h0 hd).mpr ⟨h1, h2, h3⟩)⟩, by
        rw [xor_eq_sub_of_sub h1, hlo d h1 h2 h3, hlo (c - d) g1 g2 g3]⟩

omit [Add α] [Sub α] in
/-- superset-max step -/
theorem samSuperStep_ok (E : EnumFacts) (t : Table α) (c : Nat) (A : Nat → α)
    (hc : c < 2 ^ t.n) (h0 : c ≠ 0)
    (hlo : ∀ T, T < 2 ^ t.n → c &&& T = c → t.lo T = A T) :
    ∃ m, listMax? (((List.range (2 ^ t.n)).filter (fun T => isSub c T)).map A) = some m ∧
      samSuperStep t c = .ok m := by
  obtain ⟨m, hm⟩ := listMax?_isSome
    (l := ((List.range (2 ^ t.n)).filter (fun T => isSub c T)).map A) (by
      intro hnil
      have h2 := List.map_eq_nil_iff.mp hnil
      have : c ∈ (List.range (2 ^ t.n)).filter (fun T => isSub c T) :=
        mem_supersets.mpr ⟨hc, Nat.and_self c⟩
      rw [h2] at this; cases this)
  refine ⟨m, hm, ?_⟩
  unfold samSuperStep
  apply npMax_of
  rw [← hm]
  have hmem : ∀ T, T ∈ (allCoalitions t.n).filter
        (fun d => coalStructure t.n c d == 2 || coalStructure t.n c d == 0) ↔
      T ∈ (List.range (2 ^ t.n)).filter (fun T => isSub c T) := by
    intro T
    rw [mem_supersets]
    simp only [List.mem_filter, allCoalitions, List.mem_range, Bool.or_eq_true, beq_iff_eq]
    constructor
    · rintro ⟨hT, h | h⟩
      · exact ⟨hT, ((coalStructure_eq_two E hc h0 hT).mp h).1⟩
      · rw [(coalStructure_eq_zero E hc h0 hT).mp h]; exact ⟨hc, Nat.and_self c⟩
    · rintro ⟨hT, h⟩
      refine ⟨hT, ?_⟩
      by_cases hTc : T = c
      · exact Or.inr ((coalStructure_eq_zero E hc h0 hT).mpr hTc)
      · exact Or.inl ((coalStructure_eq_two E hc h0 hT).mpr ⟨h, hTc⟩)
  apply listMax?_map_congr hmem
  intro T hT
  obtain ⟨h1, h2⟩ := mem_supersets.mp ((hmem T).mp hT)
  exact hlo T h1 h2

omit [Add α] in
/-- final upper step -/
theorem samUpperStep_ok (E : EnumFacts) (t : Table α) (c : Nat) (V L H : Nat → α)
    (hmin : MinInfo t.n t.known) (hc : c < 2 ^ t.n) (hk : t.known c = false)
    (hV : ∀ T, T < 2 ^ t.n → t.known T = true → t.lo T = V T)
    (hL : ∀ x, x < 2 ^ t.n → t.lo x = L x)
    (hH : ∀ x, x < 2 ^ t.n → t.known x = true → t.hi x = H x) :
    samUpperStep t c = .ok (samUpG t.n t.known V L H c) := by
  obtain ⟨a, ha⟩ := supers_list_isSome hmin hc hk (fun T => V T - L (T - c))
  obtain ⟨b, hb⟩ := subs_list_isSome hmin hc hk H
  rw [samUpG_unknown hk ha hb]
  have h0 := minInfo_ne_zero hmin hk
  have hmem : ∀ T, T ∈ (structSel t.n c 2).filter t.known ↔ T ∈ knownSupers t.n t.known c := by
    intro T
    rw [List.mem_filter, mem_structSel_two E hc h0, mem_knownSupers]
    constructor
    · rintro ⟨⟨h1, h2, h3⟩, h4⟩; exact ⟨h1, h2, h3, h4⟩
    · rintro ⟨h1, h2, h3, h4⟩; exact ⟨⟨h1, h2, h3⟩, h4⟩
  have hmem' : ∀ x, x ∈ (structSel t.n c 1).filter t.known ↔ x ∈ knownSubs t.known c := by
    intro x
    rw [List.mem_filter, mem_structSel_one E hc h0, mem_knownSubs]
  have e1 : npMin (((structSel t.n c 2).filter t.known).map (fun x => t.lo x - t.lo (c ^^^ x))) =
      .ok a := by
    apply npMin_of
    rw [← ha]
    apply listMin?_map_congr hmem
    intro T hT
    obtain ⟨h1, h2, _, h4⟩ := mem_knownSupers.mp ((hmem T).mp hT)
    rw [xor_eq_sub_of_sup h2, hV T h1 h4, hL (T - c) (by omega)]
  have e2 : npMin (((structSel t.n c 1).filter t.known).map t.hi) = .ok b := by
    apply npMin_of
    rw [← hb]
    apply listMin?_map_congr hmem'
    intro x hx
    obtain ⟨⟨hs, _, _⟩, hkx⟩ := mem_knownSubs.mp ((hmem' x).mp hx)
    exact hH x (sub_lt_two_pow hs hc) hkx
  unfold samUpperStep
  simp only [e1, e2, bind, Except.bind, pure, Except.pure]

end steps

/-! ### rounds -/

section rounds
variable [Add α] [Sub α] [LinearOrder α]

/-- the extra candidates of a split pass: none in round 0, `lo c + lo ∅` afterwards -/
def samExtra (first : Bool) (lo : Nat → α) : Nat → List α :=
  if first then fun _ => [] else fun c => [lo c + lo 0]

omit [Sub α] in
/-- one round: split pass, then superset-max pass -/
theorem samRound_spec (E : EnumFacts) (t0 : Table α) (hmin : MinInfo t0.n t0.known)
    (order : List Nat) (ho : UnknownOrder t0.n t0.known order) (first : Bool) :
    ∃ t2, samRound order first t0 = .ok t2 ∧ t2.n = t0.n ∧ t2.known = t0.known ∧ t2.hi = t0.hi ∧
      ∀ c, t2.lo c = if c < 2 ^ t0.n then
          closeSpec t0.n t0.known t0.lo (splitSpec t0.known t0.lo (samExtra first t0.lo)) c
        else t0.lo c := by
  obtain ⟨t1, h1, h1n, h1k, h1h, h1l⟩ :=
    splitPass E t0 hmin (samExtra first t0.lo) order ho (samSplitStep first) (by
      intro s c L hn hc hk hsub hself hzero
      cases first with
      | true =>
        rw [samSplitStep_true]
        exact sacLowerStep_ok E s c L (by rw [hn]; exact hc) (minInfo_ne_zero hmin hk)
          (minInfo_exists_proper_sub hmin hc hk) hsub
      | false =>
        exact samSplitStep_false_ok E s c L _ (by rw [hn]; exact hc) (minInfo_ne_zero hmin hk) hsub
          (by rw [hself, hzero]))
  obtain ⟨t2, h2, h2n, h2k, h2h, h2l⟩ :=
    closePass E t1 order (by rw [h1n, h1k]; exact ho) samSuperStep (by
      intro s c hn hc hk hsup
      rw [← hn]
      have hk0 : t0.known c = false := by rw [← h1k]; exact hk
      exact samSuperStep_ok E s c t1.lo (by rw [hn]; exact hc) (minInfo_ne_zero hmin hk0)
        (fun T hT hcT => hsup T (by rw [← hn]; exact hT) hcT))
  refine ⟨t2, ?_, by rw [h2n, h1n], by rw [h2k, h1k], by rw [h2h, h1h], ?_⟩
  · simp only [samRound, h1, compactT_eq, h2, bind, Except.bind, pure, Except.pure]
  · intro c
    rw [h2l c, h1n, h1k]
    by_cases hc : c < 2 ^ t0.n
    · rw [if_pos hc, if_pos hc]
      apply closeSpec_congr _ _ c hc
      · intro d hd hkd; rw [h1l d, if_pos hd, splitSpec_known hkd]
      · intro d hd; rw [h1l d, if_pos hd]
    · rw [if_neg hc, if_neg hc, h1l c, if_neg hc]

omit [Sub α] in
/-- rounds `i+1 … i+r`, started from a table holding `samB … i` -/
theorem samRounds_spec (E : EnumFacts) (t : Table α) (hmin : MinInfo t.n t.known)
    (order : List Nat) (ho : UnknownOrder t.n t.known order) :
    ∀ (r i : Nat) (t0 : Table α), t0.n = t.n → t0.known = t.known → t0.hi = t.hi →
      (∀ c, t0.lo c = if c < 2 ^ t.n then samB t.n t.known t.lo i c else t.lo c) →
      ∃ t', samRounds order r t0 = .ok t' ∧ t'.n = t.n ∧ t'.known = t.known ∧ t'.hi = t.hi ∧
        ∀ c, t'.lo c = if c < 2 ^ t.n then samB t.n t.known t.lo (i + r) c else t.lo c := by
  intro r
  induction r with
  | zero => intro i t0 hn hk hh hl; exact ⟨t0, rfl, hn, hk, hh, hl⟩
  | succ r ih =>
    intro i t0 hn hk hh hl
    obtain ⟨t1, h1, h1n, h1k, h1h, h1l⟩ := samRound_spec E t0 (by rw [hn, hk]; exact hmin) order
      (by rw [hn, hk]; exact ho) false
    have hpos : 0 < 2 ^ t.n := Nat.two_pow_pos _
    obtain ⟨t', h2, h2n, h2k, h2h, h2l⟩ := ih (i + 1) t1 (by rw [h1n, hn]) (by rw [h1k, hk])
      (by rw [h1h, hh]) (by
        intro c
        rw [h1l c, hn, hk]
        by_cases hc : c < 2 ^ t.n
        · rw [if_pos hc, if_pos hc]
          simp only [samB]
          apply closeSpec_congr _ _ c hc
          · intro d hd hkd; rw [hl d, if_pos hd, samB_known hkd]
          · apply splitSpec_congr hmin
            · intro d hd hkd; rw [hl d, if_pos hd, samB_known hkd]
            · intro d hd _
              simp only [samExtra, Bool.false_eq_true, if_false]
              rw [hl d, if_pos hd, hl 0, if_pos hpos, samB_known hmin.1]
        · rw [if_neg hc, if_neg hc, hl c, if_neg hc])
    refine ⟨t', ?_, h2n, h2k, h2h, ?_⟩
    · simp only [samRounds, h1, h2, bind, Except.bind]
    · intro c; rw [h2l c, Nat.add_assoc, Nat.add_comm 1 r]

/-! ### the computer -/

/-- `sam r` succeeds on every `MinInfo` table; nothing is assumed about unknown rows or the upper
    column. -/
theorem _root_.ICG.sam_core (E : EnumFacts) (r : Nat) (t : Table α) (hmin : MinInfo t.n t.known) :
    ∃ t', sam r t = .ok t' ∧ t'.n = t.n ∧ t'.known = t.known ∧
      (∀ c, c < 2 ^ t.n → t'.lo c = samB t.n t.known t.lo r c ∧
        t'.hi c = if t.known c then t.hi c
                  else samUpG t.n t.known t.lo (samB t.n t.known t.lo r) t.hi c) ∧
      (∀ c, 2 ^ t.n ≤ c → t'.lo c = t.lo c ∧ t'.hi c = t.hi c) := by
  have ho := unknownOrder_sac E t
  obtain ⟨t0, h0, h0n, h0k, h0h, h0l⟩ := samRound_spec E t hmin _ ho true
  obtain ⟨t1, h1, h1n, h1k, h1h, h1l⟩ := samRounds_spec E t hmin _ ho r 0 t0 h0n h0k h0h (by
    intro c; rw [h0l c]; rfl)
  rw [Nat.zero_add] at h1l
  have hmin1 : MinInfo t1.n t1.known := by rw [h1n, h1k]; exact hmin
  obtain ⟨t2, h2, h2n, h2k, h2l, h2h⟩ := hiPass t1 (unknownSorted t)
    (by intro c; rw [ho.mem, h1n, h1k])
    (samUpG t1.n t1.known t1.lo t1.lo t1.hi) samUpperStep (by
      intro s c hn hk hl hc hkc hhi
      have := samUpperStep_ok E s c t1.lo t1.lo t1.hi (by rw [hn, hk]; exact hmin1)
        (by rw [hn]; exact hc) (by rw [hk]; exact hkc) (fun T _ _ => by rw [hl])
        (fun x _ => by rw [hl]) (fun x _ hx => hhi x (by rw [← hk]; exact hx))
      rw [this, hn, hk])
  refine ⟨t2, ?_, by rw [h2n, h1n], by rw [h2k, h1k], ?_, ?_⟩
  · unfold sam
    rw [if_pos (sacPrecond_of_minInfo hmin)]
    simp only [h0, h1, compactT_eq, h2, bind, Except.bind, pure, Except.pure]
  · intro c hc
    constructor
    · rw [h2l, h1l c, if_pos hc]
    · rw [h2h c, h1n, h1k, h1h]
      cases hk : t.known c with
      | true => simp
      | false =>
        simp only [hc, true_and, if_true, Bool.false_eq_true, if_false]
        apply samUpG_congr hmin _ _ (fun _ _ _ => rfl) c hc
        · intro x hx hkx; rw [h1l x, if_pos hx, samB_known hkx]
        · intro x hx; rw [h1l x, if_pos hx]
  · intro c hc
    constructor
    · rw [h2l, h1l c, if_neg (by omega)]
    · rw [h2h c, h1n, if_neg (by omega), h1h]

/-- **sam_eq_spec**: the approximate computer with `r` repetitions computes `samB … r` / `samUp … r`. -/
theorem _root_.ICG.sam_eq_spec (E : EnumFacts) (r : Nat) (t : Table α) (hmin : MinInfo t.n t.known)
    (hinv : t.Inv) :
    ∃ t', sam r t = .ok t' ∧ t'.n = t.n ∧ t'.known = t.known ∧
      (∀ c, c < 2 ^ t.n → t'.lo c = samB t.n t.known t.lo r c ∧
        t'.hi c = samUp t.n t.known t.lo r c) ∧
      (∀ c, 2 ^ t.n ≤ c → t'.lo c = t.lo c ∧ t'.hi c = t.hi c) := by
  obtain ⟨t', h1, h2, h3, h4, h5⟩ := sam_core E r t hmin
  refine ⟨t', h1, h2, h3, ?_, h5⟩
  intro c hc
  refine ⟨(h4 c hc).1, ?_⟩
  rw [(h4 c hc).2]
  cases hk : t.known c with
  | true => rw [if_pos rfl, samUp_known hk, hinv c hc hk]
  | false =>
    rw [if_neg (by simp), samUp_eq_samUpG]
    exact samUpG_congr hmin (fun _ _ _ => rfl) (fun _ _ => rfl)
      (fun d hd hkd => (hinv d hd hkd).symm) c hc

end rounds

end ICG.Refine
