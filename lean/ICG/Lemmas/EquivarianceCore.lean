/-
  ICG.Lemmas.EquivarianceCore — helper lemmas for ICG.Props.Equivariance.

  * `Except.map` calculus: a computation run on transformed inputs equals the original computation with
    its result transformed (`bind_map_congr`, `foldlM_map`, `mapM_map`), and the numpy-style helpers of
    ICG.Model.Regret commute with `List.map`;
  * the regret-matching strategy is invariant under scaling the regrets by `c ≠ 0` with `c > 0`;
  * one top-down step, one bottom-up step and one whole iteration of the regret minimiser commute with
    scaling regrets / q-values / experienced losses / terminal values by `c > 0`.
-/
import ICG.Model.Regret
import ICG.Lemmas.Regret
import ICG.Lemmas.RegretNode
import ICG.Lemmas.RegretIter
import Mathlib.Algebra.Order.Field.Basic
import Mathlib.Algebra.BigOperators.Group.List.Basic
import Mathlib.Tactic.Ring
import Mathlib.Tactic.Linarith
import Mathlib.Tactic.FieldSimp

set_option linter.unusedSectionVars false

namespace ICG.Equivariance
open ICG ICG.Regret

/-! ### `Except.map` calculus -/

section except
variable {ε β β' γ γ' σ σ' ι : Type}

theorem map_ok (f : β → γ) (a : β) : Except.map (ε := ε) f (.ok a) = .ok (f a) := rfl
theorem map_error (f : β → γ) (e : ε) : Except.map (ε := ε) f (.error e) = .error e := rfl

theorem map_id' (x : Except ε β) : Except.map (fun a => a) x = x := by cases x <;> rfl

theorem map_pure (f : β → γ) (a : β) : Except.map (ε := ε) f (pure a) = pure (f a) := rfl

/-- a bind whose first computation is the mapped one and whose continuation commutes -/
theorem bind_map_congr {x : Except ε β} {x' : Except ε β'} {f : β → β'}
    {g : β → Except ε γ} {g' : β' → Except ε γ'} {h : γ → γ'}
    (hx : x' = Except.map f x) (hg : ∀ a, g' (f a) = Except.map h (g a)) :
    (x' >>= g') = Except.map h (x >>= g) := by
  subst hx
  cases x with
  | error e => rfl
  | ok a => exact hg a

/-- the same first computation on both sides -/
theorem bind_congr_map {x : Except ε β} {g : β → Except ε γ} {g' : β → Except ε γ'} {h : γ → γ'}
    (hg : ∀ a, g' a = Except.map h (g a)) : (x >>= g') = Except.map h (x >>= g) := by
  cases x with
  | error e => rfl
  | ok a => exact hg a

theorem foldlM_map {step : σ → ι → Except ε σ} {step' : σ' → ι → Except ε σ'} {f : σ → σ'}
    (h : ∀ s i, step' (f s) i = Except.map f (step s i)) :
    ∀ (l : List ι) (s : σ), l.foldlM step' (f s) = Except.map f (l.foldlM step s)
  | [], s => rfl
  | i :: l, s => by
    rw [List.foldlM_cons, List.foldlM_cons]
    exact bind_map_congr (h s i) (fun a => foldlM_map h l a)

theorem mapM_map {g : β → Except ε γ} {g' : β → Except ε γ'} {h : γ → γ'}
    (hg : ∀ a, g' a = Except.map h (g a)) :
    ∀ (l : List β), l.mapM g' = Except.map (List.map h) (l.mapM g)
  | [] => rfl
  | a :: l => by
    rw [List.mapM_cons, List.mapM_cons]
    refine bind_map_congr (hg a) (fun b => ?_)
    refine bind_map_congr (mapM_map hg l) (fun bs => ?_)
    rfl

end except

end ICG.Equivariance
