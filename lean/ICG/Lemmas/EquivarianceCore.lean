/-
  ICG.Lemmas.EquivarianceCore — helper lemmas for ICG.Props.Equivariance.

  * `Except.map` calculus: a computation run on transformed inputs equals the original computation with
    its result transformed (`bind_map_congr`, `foldlM_map`, `mapM_map`), and the numpy-style helpers of
    ICG.Model.Regret commute with `List.map`;
  * the regret-matching strategy is invariant under scaling the regrets by `c > 0`;
  * one top-down step, one bottom-up step and one whole iteration of the regret minimiser commute with
    scaling regrets / q-values / experienced losses / terminal values by `c > 0`;
  * monotone (families of) maps commute with `splitSpec` / `loSpec` / `upSpec` / `samB` / `samUp`, and a
    row-wise transformation that commutes with a computer's specification commutes with the computer.
-/
import ICG.Model.Regret
import ICG.Lemmas.Regret
import ICG.Lemmas.RegretNode
import ICG.Lemmas.RegretIter
import ICG.Lemmas.BoundsCommon
import ICG.Lemmas.NormFacts
import Mathlib.Order.MinMax
import Mathlib.Algebra.Order.Field.Basic
import Mathlib.Algebra.BigOperators.Group.List.Basic
import Mathlib.Tactic.Ring
import Mathlib.Tactic.Linarith
import Mathlib.Tactic.FieldSimp

set_option linter.unusedSectionVars false

namespace ICG.Equivariance
open ICG ICG.Regret

/-! ### `Except.map` calculus -/

section except
variable {ε β β' γ γ' σ σ' ι : Type}

theorem map_ok (f : β → γ) (a : β) : Except.map (ε := ε) f (.ok a) = .ok (f a) := rfl
theorem map_error (f : β → γ) (e : ε) : Except.map (ε := ε) f (.error e) = .error e := rfl

theorem map_id' (x : Except ε β) : Except.map (fun a => a) x = x := by cases x <;> rfl

theorem map_pure (f : β → γ) (a : β) : Except.map (ε := ε) f (pure a) = pure (f a) := rfl

/-- a bind whose first computation is the mapped one and whose continuation commutes -/
theorem bind_map_congr {x : Except ε β} {x' : Except ε β'} {f : β → β'}
    {g : β → Except ε γ} {g' : β' → Except ε γ'} {h : γ → γ'}
    (hx : x' = Except.map f x) (hg : ∀ a, g' (f a) = Except.map h (g a)) :
    (x' >>= g') = Except.map h (x >>= g) := by
  subst hx
  cases x with
  | error e => rfl
  | ok a => exact hg a

/-- the same first computation on both sides -/
theorem bind_congr_map {x : Except ε β} {g : β → Except ε γ} {g' : β → Except ε γ'} {h : γ → γ'}
    (hg : ∀ a, g' a = Except.map h (g a)) : (x >>= g') = Except.map h (x >>= g) := by
  cases x with
  | error e => rfl
  | ok a => exact hg a

theorem foldlM_map {step : σ → ι → Except ε σ} {step' : σ' → ι → Except ε σ'} {f : σ → σ'}
    (h : ∀ s i, step' (f s) i = Except.map f (step s i)) :
    ∀ (l : List ι) (s : σ), l.foldlM step' (f s) = Except.map f (l.foldlM step s)
  | [], s => rfl
  | i :: l, s => by
    rw [List.foldlM_cons, List.foldlM_cons]
    exact bind_map_congr (h s i) (fun a => foldlM_map h l a)

theorem mapM_map {g : β → Except ε γ} {g' : β → Except ε γ'} {h : γ → γ'}
    (hg : ∀ a, g' a = Except.map h (g a)) :
    ∀ (l : List β), l.mapM g' = Except.map (List.map h) (l.mapM g)
  | [] => rfl
  | a :: l => by
    rw [List.mapM_cons, List.mapM_cons]
    refine bind_map_congr (hg a) (fun b => ?_)
    refine bind_map_congr (mapM_map hg l) (fun bs => ?_)
    rfl

end except

/-! ### the numpy-style helpers commute with `List.map` -/

section helpers
variable {β γ : Type}

theorem getIdx_map (f : β → γ) (l : List β) (i : Nat) :
    getIdx (l.map f) i = Except.map f (getIdx l i) := by
  unfold getIdx
  rw [List.getElem?_map]
  cases l[i]? <;> rfl

theorem setIdx_map (f : β → γ) (l : List β) (i : Nat) (v : β) :
    setIdx (l.map f) i (f v) = Except.map (List.map f) (setIdx l i v) := by
  unfold setIdx
  rw [List.length_map]
  split
  · rw [map_ok, List.map_set]
  · rfl

theorem foldl_set_map (f : β → γ) : ∀ (ps : List (Nat × β)) (a : List β),
    (ps.map (fun p => (p.1, f p.2))).foldl (fun a p => a.set p.1 p.2) (a.map f) =
      (ps.foldl (fun a p => a.set p.1 p.2) a).map f
  | [], a => rfl
  | p :: ps, a => by
    rw [List.map_cons, List.foldl_cons, List.foldl_cons, ← List.map_set]
    exact foldl_set_map f ps _

theorem zip_map_right' (f : β → γ) : ∀ (idx : List Nat) (vals : List β),
    idx.zip (vals.map f) = (idx.zip vals).map (fun p => (p.1, f p.2))
  | [], _ => rfl
  | _ :: _, [] => rfl
  | i :: idx, v :: vals => by
    rw [List.map_cons, List.zip_cons_cons, List.zip_cons_cons, List.map_cons, zip_map_right' f idx vals]

theorem assignMany_map (f : β → γ) (a : List β) (idx : List Nat) (vals : List β) :
    assignMany (a.map f) idx (vals.map f) = Except.map (List.map f) (assignMany a idx vals) := by
  unfold assignMany
  rw [List.length_map]
  split
  · rw [map_ok, zip_map_right', foldl_set_map]
  · rfl

theorem broadcastTo_map (f : β → γ) (rhs : List β) (k : Nat) :
    broadcastTo (rhs.map f) k = Except.map (List.map f) (broadcastTo rhs k) := by
  unfold broadcastTo
  rw [List.length_map]
  split
  · rfl
  · match rhs with
    | [] => rfl
    | [x] => simp [map_ok]
    | _ :: _ :: _ => rfl

end helpers

/-! ### regret matching is invariant under positive scaling -/

section rowscale
variable {α : Type} [Field α] [LinearOrder α] [IsStrictOrderedRing α]

theorem posPart_mul {c : α} (hc : 0 < c) (x : α) : Regret.posPart (c * x) = c * Regret.posPart x := by
  unfold Regret.posPart
  by_cases hx : 0 < x
  · rw [if_pos hx, if_pos (mul_pos hc hx)]
  · rw [if_neg hx, if_neg (fun h => hx ((mul_pos_iff_of_pos_left hc).mp h)), mul_zero]

theorem map_posPart_scale {c : α} (hc : 0 < c) (row : List α) :
    (row.map (c * ·)).map Regret.posPart = (row.map Regret.posPart).map (c * ·) := by
  rw [List.map_map, List.map_map]
  exact List.map_congr_left (fun x _ => posPart_mul hc x)

theorem listSum_scale (c : α) (l : List α) : listSum (l.map (c * ·)) = c * listSum l := by
  rw [listSum_eq_sum, listSum_eq_sum]
  induction l with
  | nil => simp
  | cons x l ih => rw [List.map_cons, List.sum_cons, List.sum_cons, ih, mul_add]

/-- `v / v.sum()` does not see a common non-zero factor (the outcome, error or not, is the same) -/
theorem normalize_scale {c : α} (hc : c ≠ 0) (l : List α) : normalize (l.map (c * ·)) = normalize l := by
  unfold normalize
  simp only [listSum_scale, mul_eq_zero, hc, false_or, List.isEmpty_map]
  by_cases hs : listSum l = 0
  · rw [if_pos hs, if_pos hs]
  · rw [if_neg hs, if_neg hs, List.map_map]
    congr 1
    exact List.map_congr_left (fun x _ => mul_div_mul_left x _ hc)

/-- **key lemma**: the regret-matching strategy of `c • r` is that of `r` for `c > 0` — same value, and
    the same error when there is one (0/0 at a node without an unrevealed coalition). -/
theorem regretMatchingRow_scale {c : α} (hc : 0 < c) (m : Nat) (row : List α) (used : List Nat) :
    regretMatchingRow m (row.map (c * ·)) used = regretMatchingRow m row used := by
  unfold regretMatchingRow
  simp only [map_posPart_scale hc, listSum_scale, mul_eq_zero, hc.ne', false_or, normalize_scale hc.ne']

end rowscale

/-! ### scaling the state of the regret minimiser -/

section scaling
variable {α : Type}

/-- every entry of a matrix multiplied by `c` -/
def scaleRows [Mul α] (c : α) (l : List (List α)) : List (List α) := l.map (List.map (c * ·))

/-- the minimiser with every cumulative regret multiplied by `c` (everything else untouched, in
    particular the cumulative strategy and the iteration counter) -/
def scaleRM [Mul α] (c : α) (rm : RM α) : RM α := { rm with regret := scaleRows c rm.regret }

/-- the bottom-up state with q-values and experienced losses multiplied by `c` -/
def scaleUp [Mul α] (c : α) (st : Up α) : Up α :=
  { q := scaleRows c st.q, exp := st.exp.map (c * ·), strategy := st.strategy }

variable [Field α] [LinearOrder α] [IsStrictOrderedRing α]

theorem zeros_scale (c : α) (k : Nat) : (zeros (α := α) k).map (c * ·) = zeros k := by
  unfold zeros
  rw [List.map_replicate, mul_zero]

theorem zeros2_scale (c : α) (r k : Nat) : scaleRows c (zeros2 (α := α) r k) = zeros2 r k := by
  unfold zeros2 scaleRows
  rw [List.map_replicate, zeros_scale]

theorem getIdx_scaleRows (c : α) (l : List (List α)) (i : Nat) :
    getIdx (scaleRows c l) i = Except.map (List.map (c * ·)) (getIdx l i) := getIdx_map _ l i

/-- **(b) same current strategy**: `regret_matching_strategy` at every node (existing or not) of the
    minimiser with scaled regrets returns what the original returns. -/
theorem regretMatching_scale {c : α} (hc : 0 < c) (rm : RM α) (mc : Nat) :
    (scaleRM c rm).regretMatching mc = rm.regretMatching mc := by
  unfold RM.regretMatching
  refine (bind_congr_map (h := fun a => a) (fun rank => ?_)).trans (map_id' _)
  rw [map_id']
  refine (bind_map_congr (h := fun a => a) (getIdx_scaleRows c rm.regret rank) (fun row => ?_)).trans (map_id' _)
  rw [map_id']
  exact regretMatchingRow_scale hc rm.m row (players mc)

end scaling

section except2
variable {ε β β' γ : Type}

theorem bind_congr_eq {x : Except ε β} {g g' : β → Except ε γ} (hg : ∀ a, g' a = g a) :
    (x >>= g') = (x >>= g) := by
  cases x with
  | error e => rfl
  | ok a => exact hg a

theorem bind_map_eq {x : Except ε β} {x' : Except ε β'} {f : β → β'}
    {g : β → Except ε γ} {g' : β' → Except ε γ} (hx : x' = Except.map f x) (hg : ∀ a, g' (f a) = g a) :
    (x' >>= g') = (x >>= g) := by
  subst hx
  cases x with
  | error e => rfl
  | ok a => exact hg a

end except2

section steps
variable {α : Type} [Field α] [LinearOrder α] [IsStrictOrderedRing α]

theorem nodeInfo_scale (c : α) (rm : RM α) (i : Nat) : (scaleRM c rm).nodeInfo i = rm.nodeInfo i := rfl

/-- the top-down pass does not see the scaling: the reach probabilities are the same -/
theorem topDownStep_scale {c : α} (hc : 0 < c) (rm : RM α) (reach : List α) (i : Nat) :
    (scaleRM c rm).topDownStep reach i = rm.topDownStep reach i := by
  unfold RM.topDownStep
  rw [nodeInfo_scale]
  refine bind_congr_eq (fun info => ?_)
  obtain ⟨mc, nextPids, nextRanks⟩ := info
  dsimp only
  rw [regretMatching_scale hc]

theorem topDown_scale {c : α} (hc : 0 < c) (rm : RM α) (l : List Nat) (reach : List α) :
    l.foldlM (scaleRM c rm).topDownStep reach = l.foldlM rm.topDownStep reach := by
  have : (scaleRM c rm).topDownStep = rm.topDownStep := by
    funext reach i; exact topDownStep_scale hc rm reach i
  rw [this]

end steps

section steps2
variable {α : Type} [Field α] [LinearOrder α] [IsStrictOrderedRing α]

theorem dot_scale (c : α) : ∀ (q σ : List α),
    listSum (List.zipWith (· * ·) (q.map (c * ·)) σ) = c * listSum (List.zipWith (· * ·) q σ) := by
  intro q σ
  rw [listSum_eq_sum, listSum_eq_sum]
  induction q generalizing σ with
  | nil => simp
  | cons x q ih =>
    cases σ with
    | nil => simp
    | cons s σ =>
      rw [List.map_cons, List.zipWith_cons_cons, List.zipWith_cons_cons, List.sum_cons, List.sum_cons, ih,
        mul_add, mul_assoc]

/-- one bottom-up step commutes with scaling q-values and experienced losses; the cumulative strategy is
    updated identically -/
theorem bottomUpStep_scale {c : α} (hc : 0 < c) (rm : RM α) (w : α) (reach : List α) (st : Up α) (i : Nat) :
    (scaleRM c rm).bottomUpStep w reach (scaleUp c st) i =
      Except.map (scaleUp c) (rm.bottomUpStep w reach st i) := by
  unfold RM.bottomUpStep
  rw [nodeInfo_scale]
  refine bind_congr_map (fun info => ?_)
  obtain ⟨mc, nextPids, nextRanks⟩ := info
  dsimp only
  refine bind_map_congr (f := List.map (c * ·))
    (mapM_map (fun a => getIdx_map (c * ·) st.exp a) nextRanks) (fun vals => ?_)
  refine bind_map_congr (getIdx_scaleRows c st.q i) (fun qrow0 => ?_)
  refine bind_map_congr (assignMany_map (c * ·) qrow0 nextPids vals) (fun qrow => ?_)
  rw [regretMatching_scale hc]
  refine bind_congr_map (fun sigma => ?_)
  rw [dot_scale]
  refine bind_map_congr (setIdx_map (c * ·) st.exp i _) (fun exp' => ?_)
  refine bind_congr_map (fun ri => ?_)
  refine bind_congr_map (fun srow => ?_)
  refine bind_congr_map (fun strategy' => ?_)
  refine bind_map_congr (f := scaleRows c) (setIdx_map (List.map (c * ·)) st.q i qrow) (fun q' => ?_)
  rfl

theorem bottomUp_scale {c : α} (hc : 0 < c) (rm : RM α) (w : α) (reach : List α) (l : List Nat) (st : Up α) :
    l.foldlM ((scaleRM c rm).bottomUpStep w reach) (scaleUp c st) =
      Except.map (scaleUp c) (l.foldlM (rm.bottomUpStep w reach) st) :=
  foldlM_map (fun s i => bottomUpStep_scale hc rm w reach s i) l st

end steps2

section iter
variable {α : Type} [Field α] [LinearOrder α] [IsStrictOrderedRing α]

theorem update_scale (c e : α) : ∀ (r q : List α),
    List.zipWith (fun r q => r + (q - c * e)) (r.map (c * ·)) (q.map (c * ·)) =
      (List.zipWith (fun r q => r + (q - e)) r q).map (c * ·)
  | [], _ => rfl
  | _ :: _, [] => rfl
  | x :: r, y :: q => by
    rw [List.map_cons, List.map_cons, List.zipWith_cons_cons, List.zipWith_cons_cons, List.map_cons,
      update_scale c e r q]
    congr 1
    ring

theorem assignMany_zeros_scale (c : α) (k : Nat) (idx : List Nat) (vals : List α) :
    assignMany (zeros (α := α) k) idx (vals.map (c * ·)) =
      Except.map (List.map (c * ·)) (assignMany (zeros k) idx vals) := by
  rw [← assignMany_map, zeros_scale]

theorem scaleRows_posPart {c : α} (hc : 0 < c) (l : List (List α)) :
    (scaleRows c l).map (·.map Regret.posPart) = scaleRows c (l.map (·.map Regret.posPart)) := by
  unfold scaleRows
  rw [List.map_map, List.map_map]
  exact List.map_congr_left (fun row _ => map_posPart_scale hc row)

/-- **one iteration commutes with scaling** (plain and plus): from the state whose cumulative regrets are
    `c •` those of `rm` (same cumulative strategy, same counter), the iteration with terminal values
    `c • t` fails exactly when the iteration of `rm` with `t` fails, with the same error, and otherwise
    ends in the state of `rm` with every cumulative regret multiplied by `c`. -/
theorem iterate_scale {c : α} (hc : 0 < c) (rm : RM α) (t : List α) (u : List (List Nat)) :
    (scaleRM c rm).iterate (t.map (c * ·)) u = Except.map (scaleRM c) (rm.iterate t u) := by
  unfold RM.iterate
  dsimp only
  refine bind_congr_map (fun usedRanks => ?_)
  refine bind_map_congr (broadcastTo_map (c * ·) t usedRanks.length) (fun rhs => ?_)
  refine bind_map_congr (assignMany_zeros_scale c rm.V usedRanks rhs) (fun exp0 => ?_)
  refine bind_congr_map (fun reach0 => ?_)
  rw [topDown_scale hc]
  refine bind_congr_map (fun reach => ?_)
  have hup : scaleUp c ({ q := zeros2 rm.R rm.m, exp := exp0, strategy := rm.strategy } : Up α) =
      { q := zeros2 rm.R rm.m, exp := exp0.map (c * ·), strategy := rm.strategy } := by
    unfold scaleUp; rw [zeros2_scale]
  have hb := bottomUp_scale hc rm (if rm.plus = true then ((rm.iteration + 1 : Nat) : α) else 1) reach
    (List.range rm.R).reverse { q := zeros2 rm.R rm.m, exp := exp0, strategy := rm.strategy }
  rw [hup] at hb
  refine bind_map_congr hb (fun up => ?_)
  refine bind_map_congr (f := scaleRows c) (mapM_map (fun i => ?_) (List.range rm.R)) (fun regret' => ?_)
  · refine bind_map_congr (getIdx_scaleRows c rm.regret i) (fun r => ?_)
    refine bind_map_congr (getIdx_scaleRows c up.q i) (fun q => ?_)
    refine bind_map_congr (getIdx_map (c * ·) up.exp i) (fun e => ?_)
    exact congrArg pure (update_scale c e r q)
  · show Except.ok _ = Except.ok _
    refine congrArg Except.ok ?_
    simp only [scaleRM, scaleUp]
    rw [apply_ite (scaleRows c), scaleRows_posPart hc]
    rfl

end iter

/-! ## bounds: monotone maps commute with the max / min of the specification -/

section family
variable {α : Type} [Add α] [LinearOrder α]

theorem foldl_max_map {f : α → α} (hf : Monotone f) : ∀ (l : List α) (a : α),
    (l.map f).foldl max (f a) = f (l.foldl max a)
  | [], _ => rfl
  | b :: l, a => by
    rw [List.map_cons, List.foldl_cons, List.foldl_cons, ← hf.map_max]
    exact foldl_max_map hf l _

theorem foldl_min_map {f : α → α} (hf : Monotone f) : ∀ (l : List α) (a : α),
    (l.map f).foldl min (f a) = f (l.foldl min a)
  | [], _ => rfl
  | b :: l, a => by
    rw [List.map_cons, List.foldl_cons, List.foldl_cons, ← hf.map_min]
    exact foldl_min_map hf l _

theorem listMax?_map {f : α → α} (hf : Monotone f) (l : List α) :
    listMax? (l.map f) = (listMax? l).map f := by
  cases l with
  | nil => rfl
  | cons a l => exact congrArg some (foldl_max_map hf l a)

theorem listMin?_map {f : α → α} (hf : Monotone f) (l : List α) :
    listMin? (l.map f) = (listMin? l).map f := by
  cases l with
  | nil => rfl
  | cons a l => exact congrArg some (foldl_min_map hf l a)

/-- **lower bound, general form**: a family of monotone maps `F c` (one per coalition) that is compatible
    with the proper splits — `F x p + F (c∖x) q = F c (p + q)` — commutes with `splitSpec` (hence with
    `loSpec`).  `F c = (k * ·)` gives homogeneity, `F c = (· + a c)` for an additive `a` gives the shift. -/
theorem splitSpec_family (F : Nat → α → α) (hmono : ∀ c, Monotone (F c)) (known : Nat → Bool)
    (v : Nat → α) (extra : Nat → List α)
    (hsplit : ∀ c x, x ∈ properSubs c → ∀ p q, F x p + F (c - x) q = F c (p + q)) :
    ∀ c, splitSpec known (fun c => F c (v c)) (fun c => (extra c).map (F c)) c =
      F c (splitSpec known v extra c) := by
  intro c
  induction c using Nat.strong_induction_on with
  | _ c ih =>
    rw [Refine.splitSpec_unfold known (fun c => F c (v c)), Refine.splitSpec_unfold known v]
    by_cases hk : known c = true
    · rw [if_pos hk, if_pos hk]
    · rw [if_neg hk, if_neg hk]
      have hl : ((extra c).map (F c) ++ (properSubs c).map fun x =>
            splitSpec known (fun c => F c (v c)) (fun c => (extra c).map (F c)) x +
            splitSpec known (fun c => F c (v c)) (fun c => (extra c).map (F c)) (c - x)) =
          (extra c ++ (properSubs c).map fun x =>
            splitSpec known v extra x + splitSpec known v extra (c - x)).map (F c) := by
        rw [List.map_append, List.map_map]
        congr 1
        apply List.map_congr_left
        intro x hx
        have hlt := properSubs_lt hx
        rw [ih x hlt.1, ih (c - x) hlt.2, hsplit c x hx]
        rfl
      rw [hl, listMax?_map (hmono c)]
      cases listMax? (extra c ++ (properSubs c).map fun x =>
            splitSpec known v extra x + splitSpec known v extra (c - x)) <;> rfl

theorem loSpec_family (F : Nat → α → α) (hmono : ∀ c, Monotone (F c)) (known : Nat → Bool) (v : Nat → α)
    (hsplit : ∀ c x, x ∈ properSubs c → ∀ p q, F x p + F (c - x) q = F c (p + q)) (c : Nat) :
    loSpec known (fun c => F c (v c)) c = F c (loSpec known v c) :=
  splitSpec_family F hmono known v (fun _ => []) hsplit c

variable [Sub α]

/-- **upper bound, general form** -/
theorem upAgainst_family (F : Nat → α → α) (hmono : ∀ c, Monotone (F c)) (n : Nat) (known : Nat → Bool)
    (v lo : Nat → α)
    (hsup : ∀ c T, T ∈ knownSupers n known c → ∀ p q, F T p - F (T - c) q = F c (p - q)) (c : Nat) :
    upAgainst n known (fun c => F c (v c)) (fun c => F c (lo c)) c = F c (upAgainst n known v lo c) := by
  unfold upAgainst
  by_cases hk : known c = true
  · rw [if_pos hk, if_pos hk]
  · rw [if_neg hk, if_neg hk]
    have hl : ((knownSupers n known c).map fun T => F T (v T) - F (T - c) (lo (T - c))) =
        ((knownSupers n known c).map fun T => v T - lo (T - c)).map (F c) := by
      rw [List.map_map]
      apply List.map_congr_left
      intro T hT
      rw [hsup c T hT]
      rfl
    rw [hl, listMin?_map (hmono c)]
    cases listMin? ((knownSupers n known c).map fun T => v T - lo (T - c)) <;> rfl

theorem upSpec_family (F : Nat → α → α) (hmono : ∀ c, Monotone (F c)) (n : Nat) (known : Nat → Bool)
    (v : Nat → α)
    (hsplit : ∀ c x, x ∈ properSubs c → ∀ p q, F x p + F (c - x) q = F c (p + q))
    (hsup : ∀ c T, T ∈ knownSupers n known c → ∀ p q, F T p - F (T - c) q = F c (p - q)) (c : Nat) :
    upSpec n known (fun c => F c (v c)) c = F c (upSpec n known v c) := by
  unfold upSpec
  have : loSpec known (fun c => F c (v c)) = fun c => F c (loSpec known v c) :=
    funext (loSpec_family F hmono known v hsplit)
  rw [this]
  exact upAgainst_family F hmono n known v _ hsup c

end family

/-! ### one monotone additive map (homogeneity), including the SAM approximation -/

section uniform
variable {α : Type} [Add α] [Sub α] [LinearOrder α]

/-- a monotone map that commutes with `+` and `-` -/
structure OrdHom (f : α → α) : Prop where
  mono : Monotone f
  add : ∀ a b, f (a + b) = f a + f b
  sub : ∀ a b, f (a - b) = f a - f b

variable {f : α → α}

theorem splitSpec_hom (hf : OrdHom f) (known : Nat → Bool) (v : Nat → α) (extra : Nat → List α) (c : Nat) :
    splitSpec known (fun c => f (v c)) (fun c => (extra c).map f) c = f (splitSpec known v extra c) :=
  splitSpec_family (fun _ => f) (fun _ => hf.mono) known v extra (fun _ _ _ p q => (hf.add p q).symm) c

theorem loSpec_hom (hf : OrdHom f) (known : Nat → Bool) (v : Nat → α) (c : Nat) :
    loSpec known (fun c => f (v c)) c = f (loSpec known v c) :=
  splitSpec_hom hf known v (fun _ => []) c

theorem upSpec_hom (hf : OrdHom f) (n : Nat) (known : Nat → Bool) (v : Nat → α) (c : Nat) :
    upSpec n known (fun c => f (v c)) c = f (upSpec n known v c) :=
  upSpec_family (fun _ => f) (fun _ => hf.mono) n known v (fun _ _ _ p q => (hf.add p q).symm)
    (fun _ _ _ p q => (hf.sub p q).symm) c

theorem closeSpec_hom (hf : OrdHom f) (n : Nat) (known : Nat → Bool) (v A : Nat → α) (c : Nat) :
    closeSpec n known (fun c => f (v c)) (fun c => f (A c)) c = f (closeSpec n known v A c) := by
  unfold closeSpec
  by_cases hk : known c = true
  · rw [if_pos hk, if_pos hk]
  · rw [if_neg hk, if_neg hk]
    have hl : (((List.range (2 ^ n)).filter (fun T => isSub c T)).map fun c => f (A c)) =
        (((List.range (2 ^ n)).filter (fun T => isSub c T)).map A).map f := by
      rw [List.map_map]; rfl
    rw [hl, listMax?_map hf.mono]
    cases listMax? (((List.range (2 ^ n)).filter (fun T => isSub c T)).map A) <;> rfl

theorem samB_hom (hf : OrdHom f) (n : Nat) (known : Nat → Bool) (v : Nat → α) :
    ∀ (i c : Nat), samB n known (fun c => f (v c)) i c = f (samB n known v i c)
  | 0, c => by
    unfold samB
    have : loSpec known (fun c => f (v c)) = fun c => f (loSpec known v c) :=
      funext (loSpec_hom hf known v)
    rw [this]
    exact closeSpec_hom hf n known v _ c
  | i + 1, c => by
    unfold samB
    have hex : (fun c => [samB n known (fun c => f (v c)) i c + f (v 0)]) =
        fun c => ((fun c => [samB n known v i c + v 0]) c).map f := by
      funext d
      rw [samB_hom hf n known v i d, ← hf.add]
      rfl
    have : splitSpec known (fun c => f (v c)) (fun c => [samB n known (fun c => f (v c)) i c + f (v 0)]) =
        fun c => f (splitSpec known v (fun c => [samB n known v i c + v 0]) c) := by
      rw [hex]
      exact funext (splitSpec_hom hf known v _)
    rw [this]
    exact closeSpec_hom hf n known v _ c

theorem samUp_hom (hf : OrdHom f) (n : Nat) (known : Nat → Bool) (v : Nat → α) (r c : Nat) :
    samUp n known (fun c => f (v c)) r c = f (samUp n known v r c) := by
  unfold samUp
  by_cases hk : known c = true
  · rw [if_pos hk, if_pos hk]
  · rw [if_neg hk, if_neg hk]
    have h1 : ((knownSupers n known c).map fun T => f (v T) - samB n known (fun c => f (v c)) r (T - c)) =
        ((knownSupers n known c).map fun T => v T - samB n known v r (T - c)).map f := by
      rw [List.map_map]
      apply List.map_congr_left
      intro T _
      rw [samB_hom hf, ← hf.sub]
      rfl
    have h2 : ((knownSubs known c).map fun c => f (v c)) = ((knownSubs known c).map v).map f := by
      rw [List.map_map]; rfl
    rw [h1, h2, listMin?_map hf.mono, listMin?_map hf.mono]
    cases listMin? ((knownSupers n known c).map fun T => v T - samB n known v r (T - c)) with
    | none => rfl
    | some a =>
      cases listMin? ((knownSubs known c).map v) with
      | none => rfl
      | some b => exact (hf.mono.map_min).symm

end uniform

/-! ### the additive game `a(S) = Σ_{i ∈ S, i < n} w i` and the shift by it -/

section shift
open Finset

theorem bsum_split {α : Type} [AddCommMonoid α] (n : Nat) (w : Nat → α) {x c : Nat} (h : x &&& c = x) :
    Norm.bsum n w x + Norm.bsum n w (c - x) = Norm.bsum n w c := by
  unfold Norm.bsum
  rw [← Finset.sum_add_distrib]
  apply Finset.sum_congr rfl
  intro i _
  rw [sub_eq_xor_of_sub h, Nat.testBit_xor]
  have := sub_testBit h i
  cases hx : x.testBit i <;> cases hc : c.testBit i <;> simp_all

variable {α : Type} [AddCommGroup α] [LinearOrder α] [IsOrderedAddMonoid α]

theorem shift_mono (k : α) : Monotone (fun p : α => p + k) := fun _ _ h => add_le_add_left h k

theorem shift_split (n : Nat) (w : Nat → α) (c x : Nat) (hx : x ∈ properSubs c) (p q : α) :
    (p + Norm.bsum n w x) + (q + Norm.bsum n w (c - x)) = (p + q) + Norm.bsum n w c := by
  rw [← bsum_split n w (mem_properSubs.mp hx).1]
  abel

theorem shift_sup (n : Nat) (w : Nat → α) {c T : Nat} (h : c &&& T = c) (p q : α) :
    (p + Norm.bsum n w T) - (q + Norm.bsum n w (T - c)) = (p - q) + Norm.bsum n w c := by
  rw [← bsum_split n w h]
  abel

/-- **additive shift, lower bound**: for every knowledge (no side condition at all) -/
theorem loSpec_shift (n : Nat) (w : Nat → α) (known : Nat → Bool) (v : Nat → α) (c : Nat) :
    loSpec known (fun c => v c + Norm.bsum n w c) c = loSpec known v c + Norm.bsum n w c :=
  loSpec_family (fun c p => p + Norm.bsum n w c) (fun _ => shift_mono _) known v (shift_split n w) c

/-- **additive shift, upper bound** -/
theorem upSpec_shift (n : Nat) (w : Nat → α) (m : Nat) (known : Nat → Bool) (v : Nat → α) (c : Nat) :
    upSpec m known (fun c => v c + Norm.bsum n w c) c = upSpec m known v c + Norm.bsum n w c :=
  upSpec_family (fun c p => p + Norm.bsum n w c) (fun _ => shift_mono _) m known v (shift_split n w)
    (fun _ _ hT p q => shift_sup n w (SpecSA.mem_knownSupers.mp hT).2.1 p q) c

end shift

/-! ### from the specification to the computers -/

section computers
variable {α : Type} [Add α] [Sub α] [LinearOrder α]

/-- both bound columns transformed row by row -/
def mapTable (F : Nat → α → α) (t : Table α) : Table α :=
  { t with lo := fun c => F c (t.lo c), hi := fun c => F c (t.hi c) }

/-- if a row-wise transformation commutes with the specification of a computer, it commutes with the
    computer (on tables with the minimal information whose known rows carry one value) -/
theorem run_mapTable (k : Computer) (F : Nat → α → α) (t : Table α) (hmin : MinInfo t.n t.known)
    (hinv : t.Inv)
    (hlo : ∀ c, k.specLo t.n t.known (fun c => F c (t.lo c)) c = F c (k.specLo t.n t.known t.lo c))
    (hup : ∀ c, k.specUp t.n t.known (fun c => F c (t.lo c)) c = F c (k.specUp t.n t.known t.lo c)) :
    ∃ t', k.run t = .ok t' ∧ k.run (mapTable F t) = .ok (mapTable F t') := by
  obtain ⟨t', h1, h2, h3, h4, h5⟩ := BoundsCommon.run_spec k t hmin hinv
  have hinv' : (mapTable F t).Inv := fun c hc hk => congrArg (F c) (hinv c hc hk)
  obtain ⟨t'', g1, g2, g3, g4, g5⟩ := BoundsCommon.run_spec k (mapTable F t) hmin hinv'
  refine ⟨t', h1, ?_⟩
  rw [g1]
  refine congrArg Except.ok (Refine.table_ext (g2.trans h2.symm) (g3.trans h3.symm) ?_ ?_)
  · intro c
    by_cases hc : c < 2 ^ t.n
    · exact (g4 c hc).1.trans ((hlo c).trans (congrArg (F c) (h4 c hc).1.symm))
    · exact (g5 c (Nat.le_of_not_lt hc)).1.trans (congrArg (F c) (h5 c (by omega)).1.symm)
  · intro c
    by_cases hc : c < 2 ^ t.n
    · exact (g4 c hc).2.trans ((hup c).trans (congrArg (F c) (h4 c hc).2.symm))
    · exact (g5 c (Nat.le_of_not_lt hc)).2.trans (congrArg (F c) (h5 c (by omega)).2.symm)

end computers

end ICG.Equivariance
