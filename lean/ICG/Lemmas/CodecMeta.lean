/-
  ICG.Lemmas.CodecMeta — metadata side of the entry codec (ICG.Model.Codec): dict assignment, `json.load`'s treatment of
  repeated keys, `json.dump` of a loaded value.  Core Lean only.
-/
import ICG.Model.Codec

namespace ICG.Codec
variable {φ : Type} {α β : Type}

def keys (l : List (String × α)) : List String := l.map (·.1)

/-! ### `d[k] = v`, `d.pop(k)`, `d[k]` -/

theorem keys_setKey_of_mem (l : List (String × α)) (k : String) (v : α) (h : k ∈ keys l) :
    keys (setKey l k v) = keys l := by
  induction l with
  | nil => simp [keys] at h
  | cons p r ih =>
    obtain ⟨k', v'⟩ := p
    by_cases hk : k' = k
    · simp [setKey, hk, keys]
    · have : k ∈ keys r := by
        simp only [keys, List.map_cons, List.mem_cons] at h
        rcases h with h | h
        · exact absurd h.symm hk
        · exact h
      simp only [setKey, hk, if_false, keys, List.map_cons, List.cons.injEq, true_and]
      exact ih this

theorem setKey_of_not_mem (l : List (String × α)) (k : String) (v : α) (h : k ∉ keys l) :
    setKey l k v = l ++ [(k, v)] := by
  induction l with
  | nil => rfl
  | cons p r ih =>
    obtain ⟨k', v'⟩ := p
    simp only [keys, List.map_cons, List.mem_cons, not_or] at h
    have hk : ¬ k' = k := fun e => h.1 e.symm
    simp only [setKey, hk, if_false, List.cons_append, List.cons.injEq, true_and]
    exact ih h.2

theorem keys_setKey_nodup (l : List (String × α)) (k : String) (v : α) (h : (keys l).Nodup) :
    (keys (setKey l k v)).Nodup := by
  by_cases hk : k ∈ keys l
  · rw [keys_setKey_of_mem l k v hk]; exact h
  · rw [setKey_of_not_mem l k v hk]
    simp only [keys, List.map_append, List.map_cons, List.map_nil]
    rw [List.nodup_append]
    refine ⟨h, by simp, ?_⟩
    intro a ha b hb
    simp only [List.mem_singleton] at hb
    subst hb
    exact fun e => hk (e ▸ ha)

theorem mem_setKey (l : List (String × α)) (k : String) (v : α) (p : String × α) (h : p ∈ setKey l k v) :
    p ∈ l ∨ p = (k, v) := by
  induction l with
  | nil => simp only [setKey, List.mem_singleton] at h; exact Or.inr h
  | cons q r ih =>
    obtain ⟨k', v'⟩ := q
    by_cases hk : k' = k
    · simp only [setKey, hk, if_true, List.mem_cons] at h
      rcases h with h | h
      · exact Or.inr h
      · exact Or.inl (by simp [h])
    · simp only [setKey, hk, if_false, List.mem_cons] at h
      rcases h with h | h
      · exact Or.inl (by simp [h])
      · rcases ih h with h | h
        · exact Or.inl (by simp [h])
        · exact Or.inr h

theorem lookupKey_setKey_same (l : List (String × α)) (k : String) (v : α) :
    lookupKey (setKey l k v) k = some v := by
  induction l with
  | nil => simp [setKey, lookupKey]
  | cons p r ih =>
    obtain ⟨k', v'⟩ := p
    by_cases hk : k' = k
    · simp [setKey, hk, lookupKey]
    · simp [setKey, hk, lookupKey, ih]

theorem lookupKey_setKey_other (l : List (String × α)) (k k₂ : String) (v : α) (h : k ≠ k₂) :
    lookupKey (setKey l k v) k₂ = lookupKey l k₂ := by
  induction l with
  | nil => simp [setKey, lookupKey, h]
  | cons p r ih =>
    obtain ⟨k', v'⟩ := p
    by_cases hk : k' = k
    · subst hk; simp [setKey, lookupKey, h]
    · simp only [setKey, hk, if_false, lookupKey, ih]

theorem lookupKey_eraseKey_same (l : List (String × α)) (k : String) : lookupKey (eraseKey l k) k = none := by
  induction l with
  | nil => rfl
  | cons p r ih =>
    obtain ⟨k', v'⟩ := p
    by_cases hk : k' = k
    · simp [eraseKey, hk, ih]
    · simp [eraseKey, hk, lookupKey, ih]

theorem lookupKey_eraseKey_other (l : List (String × α)) (k k₂ : String) (h : k ≠ k₂) :
    lookupKey (eraseKey l k) k₂ = lookupKey l k₂ := by
  induction l with
  | nil => rfl
  | cons p r ih =>
    obtain ⟨k', v'⟩ := p
    by_cases hk : k' = k
    · subst hk; simp [eraseKey, lookupKey, h, ih]
    · simp only [eraseKey, hk, if_false, lookupKey, ih]

theorem lookupKey_isSome_iff (l : List (String × α)) (k : String) : (lookupKey l k).isSome = true ↔ k ∈ keys l := by
  induction l with
  | nil => simp [lookupKey, keys]
  | cons p r ih =>
    obtain ⟨k', v'⟩ := p
    by_cases hk : k' = k
    · simp [lookupKey, hk, keys]
    · have : ¬ k = k' := fun e => hk e.symm
      simp only [lookupKey, hk, if_false, keys, List.map_cons, List.mem_cons, this, false_or]
      simpa [keys] using ih

theorem keys_eraseKey_not_mem (l : List (String × α)) (k : String) : k ∉ keys (eraseKey l k) := by
  intro h
  have := (lookupKey_isSome_iff _ _).2 h
  simp [lookupKey_eraseKey_same] at this

theorem keys_eraseKey_nodup (l : List (String × α)) (k : String) (h : (keys l).Nodup) :
    (keys (eraseKey l k)).Nodup := by
  induction l with
  | nil => simp [eraseKey, keys]
  | cons p r ih =>
    obtain ⟨k', v'⟩ := p
    simp only [keys, List.map_cons, List.nodup_cons] at h
    by_cases hk : k' = k
    · simp only [eraseKey, hk, if_true]; exact ih h.2
    · simp only [eraseKey, hk, if_false, keys, List.map_cons, List.nodup_cons]
      refine ⟨?_, ih h.2⟩
      intro hm
      apply h.1
      clear ih h
      induction r with
      | nil => simp [eraseKey] at hm
      | cons q r ih =>
        obtain ⟨k₂, v₂⟩ := q
        by_cases hk2 : k₂ = k
        · simp only [eraseKey, hk2, if_true] at hm
          simp only [List.map_cons, List.mem_cons]; exact Or.inr (ih hm)
        · simp only [eraseKey, hk2, if_false, List.map_cons, List.mem_cons] at hm ⊢
          rcases hm with hm | hm
          · exact Or.inl hm
          · exact Or.inr (ih hm)

/-! ### `dict(pairs)` -/

theorem keys_dedupFrom_nodup (acc l : List (String × α)) (h : (keys acc).Nodup) : (keys (dedupFrom acc l)).Nodup := by
  induction l generalizing acc with
  | nil => exact h
  | cons p r ih =>
    obtain ⟨k, v⟩ := p
    exact ih _ (keys_setKey_nodup acc k v h)

theorem keys_dedup_nodup (l : List (String × α)) : (keys (dedup l)).Nodup :=
  keys_dedupFrom_nodup [] l (by simp [keys])

theorem dedupFrom_of_nodup (acc l : List (String × α)) (h : (keys (acc ++ l)).Nodup) : dedupFrom acc l = acc ++ l := by
  induction l generalizing acc with
  | nil => simp [dedupFrom]
  | cons p r ih =>
    obtain ⟨k, v⟩ := p
    have hk : k ∉ keys acc := by
      simp only [keys, List.map_append, List.map_cons] at h
      rw [List.nodup_append] at h
      intro hm
      exact h.2.2 k hm k (by simp) rfl
    rw [dedupFrom, setKey_of_not_mem acc k v hk, ih]
    · simp
    · simpa using h

/-- a list of pairs without repeated keys is the dict it denotes -/
theorem dedup_of_nodup (l : List (String × α)) (h : (keys l).Nodup) : dedup l = l := by
  simpa [dedup] using dedupFrom_of_nodup [] l (by simpa using h)

theorem dedup_idem (l : List (String × α)) : dedup (dedup l) = dedup l :=
  dedup_of_nodup _ (keys_dedup_nodup l)

theorem mem_dedupFrom (acc l : List (String × α)) (p : String × α) (h : p ∈ dedupFrom acc l) : p ∈ acc ∨ p ∈ l := by
  induction l generalizing acc with
  | nil => exact Or.inl h
  | cons q r ih =>
    obtain ⟨k, v⟩ := q
    rcases ih _ h with h | h
    · rcases mem_setKey acc k v p h with h | h
      · exact Or.inl h
      · exact Or.inr (by simp [h])
    · exact Or.inr (by simp [h])

theorem mem_dedup (l : List (String × α)) (p : String × α) (h : p ∈ dedup l) : p ∈ l := by
  rcases mem_dedupFrom [] l p h with h | h
  · simp at h
  · exact h

/-! ### loaded JSON values -/

mutual
/-- no object of the value repeats a key (what `json.load` returns) -/
def Json.loaded : Json φ → Bool
  | .arr l => loadedList l
  | .obj kvs => decide ((kvs.map (·.1)).Nodup) && loadedItems kvs
  | .null => true | .bool _ => true | .int _ => true | .float _ => true | .str _ => true
def loadedList : List (Json φ) → Bool
  | [] => true
  | x :: xs => Json.loaded x && loadedList xs
def loadedItems : List (String × Json φ) → Bool
  | [] => true
  | (_, v) :: kvs => Json.loaded v && loadedItems kvs
end

theorem loadedItems_iff (kvs : List (String × Json φ)) : loadedItems kvs = true ↔ ∀ p ∈ kvs, p.2.loaded = true := by
  induction kvs with
  | nil => simp [loadedItems]
  | cons p r ih =>
    obtain ⟨k, v⟩ := p
    simp [loadedItems, ih]

theorem keys_reloadItems (kvs : List (String × Json φ)) : keys (reloadItems kvs) = keys kvs := by
  induction kvs with
  | nil => rfl
  | cons p r ih =>
    obtain ⟨k, v⟩ := p
    simp only [reloadItems, keys, List.map_cons, List.cons.injEq, true_and]
    exact ih

mutual
/-- a loaded value is written and read back unchanged -/
theorem reload_of_loaded : ∀ j : Json φ, j.loaded = true → j.reload = j
  | .arr l, h => by
    simp only [Json.loaded] at h
    simp [Json.reload, reloadList_of_loaded l h]
  | .obj kvs, h => by
    simp only [Json.loaded, Bool.and_eq_true, decide_eq_true_eq] at h
    rw [Json.reload, reloadItems_of_loaded kvs h.2, dedup_of_nodup kvs h.1]
  | .null, _ => rfl | .bool _, _ => rfl | .int _, _ => rfl | .float _, _ => rfl | .str _, _ => rfl
theorem reloadList_of_loaded : ∀ l : List (Json φ), loadedList l = true → reloadList l = l
  | [], _ => rfl
  | x :: xs, h => by
    simp only [loadedList, Bool.and_eq_true] at h
    simp [reloadList, reload_of_loaded x h.1, reloadList_of_loaded xs h.2]
theorem reloadItems_of_loaded : ∀ kvs : List (String × Json φ), loadedItems kvs = true → reloadItems kvs = kvs
  | [], _ => rfl
  | (k, v) :: kvs, h => by
    simp only [loadedItems, Bool.and_eq_true] at h
    simp [reloadItems, reload_of_loaded v h.1, reloadItems_of_loaded kvs h.2]
end

mutual
/-- what `json.load` returns has no repeated keys -/
theorem loaded_reload : ∀ j : Json φ, j.reload.loaded = true
  | .arr l => by simp [Json.reload, Json.loaded, loadedList_reload l]
  | .obj kvs => by
    simp only [Json.reload, Json.loaded, Bool.and_eq_true, decide_eq_true_eq]
    refine ⟨keys_dedup_nodup _, ?_⟩
    rw [loadedItems_iff]
    intro p hp
    exact (loadedItems_iff _).1 (loadedItems_reload kvs) p (mem_dedup _ p hp)
  | .null => rfl | .bool _ => rfl | .int _ => rfl | .float _ => rfl | .str _ => rfl
theorem loadedList_reload : ∀ l : List (Json φ), loadedList (reloadList l) = true
  | [] => rfl
  | x :: xs => by simp [reloadList, loadedList, loaded_reload x, loadedList_reload xs]
theorem loadedItems_reload : ∀ kvs : List (String × Json φ), loadedItems (reloadItems kvs) = true
  | [] => rfl
  | (k, v) :: kvs => by simp [reloadItems, loadedItems, loaded_reload v, loadedItems_reload kvs]
end

/-- writing and reading a second time changes nothing -/
theorem reload_idem (j : Json φ) : j.reload.reload = j.reload := reload_of_loaded _ (loaded_reload j)

/-! ### `json.dump` of a loaded value -/

mutual
theorem toJson_toPy : ∀ j : Json φ, j.toPy.toJson = .ok j
  | .arr l => by simp [Json.toPy, PyVal.toJson, toJsonList_toPyList l]
  | .obj kvs => by simp [Json.toPy, PyVal.toJson, toJsonItems_toPyItems kvs]
  | .null => rfl | .bool _ => rfl | .int _ => rfl | .float _ => rfl | .str _ => rfl
theorem toJsonList_toPyList : ∀ l : List (Json φ), toJsonList (toPyList l) = .ok l
  | [] => rfl
  | x :: xs => by simp [toPyList, toJsonList, toJson_toPy x, toJsonList_toPyList xs]
theorem toJsonItems_toPyItems : ∀ kvs : List (String × Json φ), toJsonItems (toPyItems kvs) = .ok kvs
  | [] => rfl
  | (k, v) :: kvs => by simp [toPyItems, toJsonItems, PyKey.toStr, toJson_toPy v, toJsonItems_toPyItems kvs]
end

theorem toJsonMeta_toPyMeta (kvs : List (String × Json φ)) : toJsonMeta (toPyMeta kvs) = .ok kvs := by
  induction kvs with
  | nil => rfl
  | cons p r ih =>
    obtain ⟨k, v⟩ := p
    simp [toPyMeta, toJsonMeta, toJson_toPy, ih]

theorem toPyMeta_eq_map (kvs : List (String × Json φ)) : toPyMeta kvs = kvs.map (fun p => (p.1, p.2.toPy)) := by
  induction kvs with
  | nil => rfl
  | cons p r ih => obtain ⟨k, v⟩ := p; simp [toPyMeta, ih]

/-! ### the metadata dict through dump and load -/

/-- every metadata value stringified, keys (attribute names) kept -/
def stringifyMeta : List (String × PyVal φ) → Except CErr (List (String × PyVal φ))
  | [] => .ok []
  | (k, v) :: r =>
    match v.stringify with
    | .error e => .error e
    | .ok w =>
      match stringifyMeta r with
      | .error e => .error e
      | .ok ws => .ok ((k, w) :: ws)

theorem stringifyMeta_eq (kvs : List (String × PyVal φ)) :
    stringifyMeta kvs = match toJsonMeta kvs with
      | .ok m => .ok (toPyMeta (reloadItems m))
      | .error e => .error e := by
  induction kvs with
  | nil => rfl
  | cons p r ih =>
    obtain ⟨k, v⟩ := p
    simp only [stringifyMeta, toJsonMeta, PyVal.stringify, ih]
    cases v.toJson with
    | error e => rfl
    | ok j =>
      cases toJsonMeta r with
      | error e => rfl
      | ok js => simp [reloadItems, toPyMeta]

theorem keys_toJsonMeta (kvs : List (String × PyVal φ)) (m : List (String × Json φ)) (h : toJsonMeta kvs = .ok m) :
    keys m = keys kvs := by
  induction kvs generalizing m with
  | nil => simp only [toJsonMeta, Except.ok.injEq] at h; subst h; rfl
  | cons p r ih =>
    obtain ⟨k, v⟩ := p
    simp only [toJsonMeta] at h
    cases hv : v.toJson with
    | error e => simp [hv] at h
    | ok j =>
      cases hr : toJsonMeta r with
      | error e => simp [hv, hr] at h
      | ok js =>
        simp only [hv, hr, Except.ok.injEq] at h
        subst h
        simp only [keys, List.map_cons, List.cons.injEq, true_and]
        exact ih js hr

theorem lookupKey_toJsonMeta (kvs : List (String × PyVal φ)) (m : List (String × Json φ)) (h : toJsonMeta kvs = .ok m)
    (k : String) (v : PyVal φ) (hk : lookupKey kvs k = some v) :
    ∃ j, v.toJson = .ok j ∧ lookupKey m k = some j := by
  induction kvs generalizing m with
  | nil => simp [lookupKey] at hk
  | cons p r ih =>
    obtain ⟨k', v'⟩ := p
    simp only [toJsonMeta] at h
    cases hv : v'.toJson with
    | error e => simp [hv] at h
    | ok j =>
      cases hr : toJsonMeta r with
      | error e => simp [hv, hr] at h
      | ok js =>
        simp only [hv, hr, Except.ok.injEq] at h
        subst h
        by_cases hkk : k' = k
        · simp only [lookupKey, hkk, if_true, Option.some.injEq] at hk ⊢
          subst hk
          exact ⟨j, hv, rfl⟩
        · simp only [lookupKey, hkk, if_false] at hk ⊢
          exact ih js hr hk

theorem lookupKey_reloadItems (m : List (String × Json φ)) (k : String) :
    lookupKey (reloadItems m) k = (lookupKey m k).map Json.reload := by
  induction m with
  | nil => rfl
  | cons p r ih =>
    obtain ⟨k', v'⟩ := p
    by_cases hkk : k' = k
    · simp [reloadItems, lookupKey, hkk]
    · simp [reloadItems, lookupKey, hkk, ih]

theorem mem_keys_setKey (l : List (String × α)) (k : String) (v : α) (x : String) (h : x ∈ keys (setKey l k v)) :
    x ∈ keys l ∨ x = k := by
  simp only [keys, List.mem_map] at h
  obtain ⟨p, hp, rfl⟩ := h
  rcases mem_setKey l k v p hp with h | h
  · exact Or.inl (List.mem_map.2 ⟨p, h, rfl⟩)
  · exact Or.inr (by simp [h])

/-- assigning the value a key already has changes nothing -/
theorem setKey_of_lookupKey (l : List (String × α)) (k : String) (v : α) (h : lookupKey l k = some v) :
    setKey l k v = l := by
  induction l with
  | nil => simp [lookupKey] at h
  | cons p r ih =>
    obtain ⟨k', v'⟩ := p
    by_cases hk : k' = k
    · simp only [lookupKey, hk, if_true, Option.some.injEq] at h
      simp [setKey, hk, h]
    · simp only [lookupKey, hk, if_false] at h
      simp [setKey, hk, ih h]

theorem eraseKey_of_not_mem (l : List (String × α)) (k : String) (h : k ∉ keys l) : eraseKey l k = l := by
  induction l with
  | nil => rfl
  | cons p r ih =>
    obtain ⟨k', v'⟩ := p
    simp only [keys, List.map_cons, List.mem_cons, not_or] at h
    have hk : ¬ k' = k := fun e => h.1 e.symm
    simp [eraseKey, hk, ih h.2]

theorem eraseKey_append_singleton (l : List (String × α)) (k : String) (v : α) (h : k ∉ keys l) :
    eraseKey (l ++ [(k, v)]) k = l := by
  induction l with
  | nil => simp [eraseKey]
  | cons p r ih =>
    obtain ⟨k', v'⟩ := p
    simp only [keys, List.map_cons, List.mem_cons, not_or] at h
    have hk : ¬ k' = k := fun e => h.1 e.symm
    simp [eraseKey, hk, ih h.2]

theorem lookupKey_append_singleton (l : List (String × α)) (k : String) (v : α) (h : k ∉ keys l) :
    lookupKey (l ++ [(k, v)]) k = some v := by
  induction l with
  | nil => simp [lookupKey]
  | cons p r ih =>
    obtain ⟨k', v'⟩ := p
    simp only [keys, List.map_cons, List.mem_cons, not_or] at h
    have hk : ¬ k' = k := fun e => h.1 e.symm
    simp [lookupKey, hk, ih h.2]

theorem lookupKey_append_of_some (l t : List (String × α)) (k : String) (v : α) (h : lookupKey l k = some v) :
    lookupKey (l ++ t) k = some v := by
  induction l with
  | nil => simp [lookupKey] at h
  | cons p r ih =>
    obtain ⟨k', v'⟩ := p
    by_cases hk : k' = k
    · simpa [lookupKey, hk] using h
    · simp only [List.cons_append, lookupKey, hk, if_false] at h ⊢
      exact ih h

theorem lookupKey_toPyMeta (m : List (String × Json φ)) (k : String) :
    lookupKey (toPyMeta m) k = (lookupKey m k).map Json.toPy := by
  induction m with
  | nil => rfl
  | cons p r ih =>
    obtain ⟨k', v'⟩ := p
    by_cases hkk : k' = k
    · simp [toPyMeta, lookupKey, hkk]
    · simp [toPyMeta, lookupKey, hkk, ih]

theorem keys_toPyMeta (m : List (String × Json φ)) : keys (toPyMeta m) = keys m := by
  induction m with
  | nil => rfl
  | cons p r ih =>
    obtain ⟨k, v⟩ := p
    simp only [toPyMeta, keys, List.map_cons, List.cons.injEq, true_and]
    exact ih

theorem reloadItems_idem (m : List (String × Json φ)) : reloadItems (reloadItems m) = reloadItems m := by
  induction m with
  | nil => rfl
  | cons p r ih => obtain ⟨k, v⟩ := p; simp [reloadItems, reload_idem, ih]

theorem keys_stringifyMeta (md sm : List (String × PyVal φ)) (h : stringifyMeta md = .ok sm) : keys sm = keys md := by
  rw [stringifyMeta_eq] at h
  cases hm : toJsonMeta md with
  | error e => simp [hm] at h
  | ok m =>
    simp only [hm, Except.ok.injEq] at h
    rw [← h, keys_toPyMeta, keys_reloadItems, keys_toJsonMeta md m hm]

theorem lookupKey_stringifyMeta (md sm : List (String × PyVal φ)) (h : stringifyMeta md = .ok sm) (k : String)
    (v : PyVal φ) (hk : lookupKey md k = some v) : ∃ w, v.stringify = .ok w ∧ lookupKey sm k = some w := by
  rw [stringifyMeta_eq] at h
  cases hm : toJsonMeta md with
  | error e => simp [hm] at h
  | ok m =>
    simp only [hm, Except.ok.injEq] at h
    obtain ⟨j, hj1, hj2⟩ := lookupKey_toJsonMeta md m hm k v hk
    exact ⟨j.reload.toPy, by simp [PyVal.stringify, hj1],
      by simp [← h, lookupKey_toPyMeta, lookupKey_reloadItems, hj2]⟩

theorem stringifyMeta_idem (md sm : List (String × PyVal φ)) (h : stringifyMeta md = .ok sm) :
    stringifyMeta sm = .ok sm := by
  rw [stringifyMeta_eq] at h
  cases hm : toJsonMeta md with
  | error e => simp [hm] at h
  | ok m =>
    simp only [hm, Except.ok.injEq] at h
    rw [← h, stringifyMeta_eq, toJsonMeta_toPyMeta]
    simp [reloadItems_idem]

/-! ### JSON stringification, defined directly on Python values -/

def strKeyed (l : List (String × PyVal φ)) : List (PyKey × PyVal φ) := l.map (fun p => (PyKey.str p.1, p.2))

mutual
/-- "up to JSON stringification", written down directly: tuples become lists, a Path its string, any other non-JSON
    object its repr, dict keys strings (a key that occurs twice afterwards keeps its first position and last value);
    a dict key that is none of str / int / float / bool / None is a TypeError -/
def PyVal.norm : PyVal φ → Except CErr (PyVal φ)
  | .none => .ok .none
  | .bool b => .ok (.bool b)
  | .int i => .ok (.int i)
  | .float c => .ok (.float c)
  | .str s => .ok (.str s)
  | .list l => match normList l with | .ok ws => .ok (.list ws) | .error e => .error e
  | .tuple l => match normList l with | .ok ws => .ok (.list ws) | .error e => .error e
  | .dict kvs => match normItems kvs with | .ok ws => .ok (.dict (strKeyed (dedup ws))) | .error e => .error e
  | .path s => .ok (.str s)
  | .other r => .ok (.str r)
def normList : List (PyVal φ) → Except CErr (List (PyVal φ))
  | [] => .ok []
  | v :: vs =>
    match PyVal.norm v with
    | .error e => .error e
    | .ok w =>
      match normList vs with
      | .error e => .error e
      | .ok ws => .ok (w :: ws)
def normItems : List (PyKey × PyVal φ) → Except CErr (List (String × PyVal φ))
  | [] => .ok []
  | (k, v) :: kvs =>
    match k.toStr with
    | .error e => .error e
    | .ok ks =>
      match PyVal.norm v with
      | .error e => .error e
      | .ok w =>
        match normItems kvs with
        | .error e => .error e
        | .ok ws => .ok ((ks, w) :: ws)
end

theorem toPyItems_eq (l : List (String × Json φ)) : toPyItems l = strKeyed (toPyMeta l) := by
  induction l with
  | nil => rfl
  | cons p r ih => obtain ⟨k, v⟩ := p; simp [toPyItems, toPyMeta, strKeyed, ih]

theorem toPyMeta_setKey (l : List (String × Json φ)) (k : String) (v : Json φ) :
    toPyMeta (setKey l k v) = setKey (toPyMeta l) k v.toPy := by
  induction l with
  | nil => rfl
  | cons p r ih =>
    obtain ⟨k', v'⟩ := p
    by_cases hk : k' = k
    · simp [setKey, toPyMeta, hk]
    · simp [setKey, toPyMeta, hk, ih]

theorem toPyMeta_dedupFrom (acc l : List (String × Json φ)) :
    toPyMeta (dedupFrom acc l) = dedupFrom (toPyMeta acc) (toPyMeta l) := by
  induction l generalizing acc with
  | nil => rfl
  | cons p r ih => obtain ⟨k, v⟩ := p; simp [dedupFrom, toPyMeta, ih, toPyMeta_setKey]

theorem toPyMeta_dedup (l : List (String × Json φ)) : toPyMeta (dedup l) = dedup (toPyMeta l) :=
  toPyMeta_dedupFrom [] l

mutual
theorem norm_eq : ∀ v : PyVal φ,
    v.norm = match v.toJson with | .ok j => .ok j.reload.toPy | .error e => .error e
  | .list l => by
    simp only [PyVal.norm, PyVal.toJson, normList_eq l]
    cases toJsonList l <;> simp [Json.reload, Json.toPy]
  | .tuple l => by
    simp only [PyVal.norm, PyVal.toJson, normList_eq l]
    cases toJsonList l <;> simp [Json.reload, Json.toPy]
  | .dict kvs => by
    simp only [PyVal.norm, PyVal.toJson, normItems_eq kvs]
    cases toJsonItems kvs <;> simp [Json.reload, Json.toPy, toPyItems_eq, toPyMeta_dedup]
  | .none => rfl | .bool _ => rfl | .int _ => rfl | .float _ => rfl | .str _ => rfl | .path _ => rfl | .other _ => rfl
theorem normList_eq : ∀ l : List (PyVal φ),
    normList l = match toJsonList l with | .ok js => .ok (toPyList (reloadList js)) | .error e => .error e
  | [] => rfl
  | v :: vs => by
    simp only [normList, toJsonList, norm_eq v, normList_eq vs]
    cases v.toJson with
    | error e => rfl
    | ok j => cases toJsonList vs <;> simp [reloadList, toPyList]
theorem normItems_eq : ∀ kvs : List (PyKey × PyVal φ),
    normItems kvs = match toJsonItems kvs with | .ok js => .ok (toPyMeta (reloadItems js)) | .error e => .error e
  | [] => rfl
  | (k, v) :: kvs => by
    simp only [normItems, toJsonItems, norm_eq v, normItems_eq kvs]
    cases k.toStr with
    | error e => rfl
    | ok ks =>
      cases v.toJson with
      | error e => rfl
      | ok j => cases toJsonItems kvs <;> simp [reloadItems, toPyMeta]
end

/-! ### the run type survives: `"eval" in repr("eval")`, not in `repr("learn")` -/

theorem hasEval_eval : hasEval "eval" = true := by decide
theorem hasEval_learn : hasEval "learn" = false := by decide

theorem runTypeOf_str_runTypeOf (f : PyVal φ) : runTypeOf (PyVal.str (runTypeOf f) : PyVal φ) = runTypeOf f := by
  unfold runTypeOf
  by_cases h : f.reprHasEval = true
  · simp [h, PyVal.reprHasEval, hasEval_eval]
  · simp [h, PyVal.reprHasEval, hasEval_learn]

end ICG.Codec
