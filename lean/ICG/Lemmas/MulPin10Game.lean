/-
  ICG.Lemmas.MulPin10Game — the game of the FINDING about `compute_max_xos_approximation`, decided by the kernel for the DEFAULT parameters
  (alpha = 3.7844223824, beta = 1, eps = 0.05 — the exact rationals of these float64 numbers).

  `pin10` is a 10-player game that is monotone and subadditive with `v(∅) = 0` and every singleton ≥ 1 (the hypotheses
  the docstring states); the approximated game that the model of `compute_max_xos_approximation` returns for it has the
  value `5/alpha = 1.3212…` on the coalition {0, 2, 4, 6, 8} (id 341), whose value in the game is 1256/1024 = 1.2265625:
  the result is not a lower bound.  harness/corr_mul.py runs the real code on the same numbers (`PIN10_ACTIVE`).

  This file: the game and its properties; ICG/Lemmas/MulPin10.lean: what the approximation does on it.

  The 512 values of the 9 active players (ids 0..8), in units of 1/1024, are packed 16 bits apiece into one numeral
  (`pin10Packed`) so that the kernel reads a value with one shift; player 9 adds nothing to a non-empty coalition.
-/
import ICG.Lemmas.MulCompose
import Mathlib.Algebra.Order.Field.Rat
namespace ICG.Mul
open ICG

def pin10Packed : Nat := 0x5ce858a446e846bf58a4587b466e427b46e842a430e830bf46bf427b30bf309658a4587b42a4427b587b5852427b425242a4427b3096306e427b42522c7b2c5246e842a430e830bf42a442a4306e306e30e830bf1ae81abf30bf30961abf1a9642a4427b30962c7b427b42522c7b2c7b2ccd2ccd1abf1a6e2ca42c521a6e1a6e58a4587b466e466e587b585246454252469642a43096306e427b425230963045587b5852427b42525852582942524229427b425230452c52425242292c522c2942a4427b306e306e427b4252306e2c5230bf30961abf1a962c7b2c521a961a45427b42522c7b2c52425242292c522c292c7b2c521a4516522c522c291652162946e8469630e830bf4696469630bf309630e830bf1ae81abf30bf30961abf1a9642a442a43096306e427b4252306e306e3096306e1abf1a6e2c7b2c7b1a6e1a6e30e830bf1ae81abf30bf30961abf1a961ae81abf04e804bf1abf1a9604bf04962ca42ca41a961a962c7b2c521a6e1a6e1a961a9604bf04961a96167b0496046e4696469630963096427b42523096301c309630961a961a96306e306e1a961a6e427b427b3096306e425242292c522c292c7b2c7b1a961a6e2c7b2c7b1a6e1a45309630961a961a962c7b2c521a961a451abf1a9604bf04961a6e1a6e0496046e2ca42c7b1a961a6e2c522c291a6e1a451a96167b0496046e167b167b046e044558a4587b466e466e587b5852466e425242a4427b30bf3096427b4252306e3045587b5852427b427b585258294252422942a442523096306e425242522c522c5242a4427b306e306e427b4252306e306e30bf30961abf1a962c7b2c521a6e1a6e427b42522c7b2c7b425242522c522c522ccd2c521a961a6e2c522c5216521652587b5852466e42525852582942524252427b427b3096306e425242523045304558525829425242295829580042294200425242292c522c29422942002c292c00427b427b306e306e427b42292c7b2c522c7b2c7b1a961a6e2c7b2c521a451a45425242292c522c29422942002c292c002c522c29165216522c292c001652160046bf469630bf3096469642a43096306e30bf30961abf1a963096306e1a961a6e42a442523096306e425242292c522c2930962c7b1a961a6e2c7b2c7b1a6e1a4530bf30961abf1a9630962ca41a961a6e1abf1a9604bf04961a961a6e0496046e2ca42c521a961a6e2c7b2c521a4516521a9616a40496046e167b167b046e0445427b427b30963045427b4229301c301c306e306e1a961a6e306e2c521a6e1a45425242292c522c29422942002c292c002c7b2c7b1a451a452c292c001a4516003096306e1a961a6e2c7b2c521a6e1a451a961a6e0496046e1a6e1a45046e04452c522c291a6e16292c292c001a4516001a6e167b046e04451629160004450000

/-- value of the coalition `c` in units of 1/1024 -/
def pin10N (c : Nat) : Nat :=
  if c % 512 = 0 then (if c = 0 then 0 else 1024) else (pin10Packed >>> (16 * (c % 512))) % 65536

/-- value of the coalition `c` of the 10-player game -/
def pin10 (c : Nat) : Rat := (pin10N c : Rat) / 1024

/-- alpha = 3.7844223824 and eps = 0.05 as float64 -/
def alpha0 : Rat := 4260880807797301 / 1125899906842624
def eps0 : Rat := 3602879701896397 / 72057594037927936

/-! ### the game is monotone and subadditive -/

/-- all masks whose bits lie in the list of players -/
def subsOf : List Nat → List Nat
  | [] => [0]
  | p :: ps => subsOf ps ++ (subsOf ps).map (· ||| 2 ^ p)

theorem mem_subsOf : ∀ (ps : List Nat) (x : Nat), (∀ i, x.testBit i = true → i ∈ ps) → x ∈ subsOf ps
  | [], x, h => by
    have : x = 0 := by
      apply Nat.eq_of_testBit_eq
      intro i
      rw [Nat.zero_testBit]
      cases hx : x.testBit i with
      | false => rfl
      | true => exact absurd (h i hx) (by simp)
    subst this
    simp [subsOf]
  | p :: ps, x, h => by
    have hx' : removePlayer x p ∈ subsOf ps := by
      apply mem_subsOf ps
      intro i hi
      rw [removePlayer_testBit'] at hi
      have h1 : x.testBit i = true := by cases hxi : x.testBit i <;> simp_all
      have h2 : ¬ p = i := by intro hpi; simp [hpi] at hi
      rcases List.mem_cons.mp (h i h1) with rfl | hm
      · exact absurd rfl h2
      · exact hm
    rw [subsOf, List.mem_append]
    cases hp : x.testBit p with
    | false =>
      left
      have : removePlayer x p = x := by
        apply Nat.eq_of_testBit_eq
        intro i
        rw [removePlayer_testBit']
        by_cases hpi : p = i
        · subst hpi; simp [hp]
        · simp [hpi]
      rwa [this] at hx'
    | true =>
      right
      refine List.mem_map.mpr ⟨removePlayer x p, hx', ?_⟩
      apply Nat.eq_of_testBit_eq
      intro i
      rw [Nat.testBit_or, removePlayer_testBit', Nat.testBit_two_pow]
      by_cases hpi : p = i
      · subst hpi; simp [hp]
      · simp [hpi]

def monotoneN (n : Nat) (w : Nat → Nat) : Bool :=
  (List.range (2 ^ n)).all fun c => (List.range n).all fun i => Nat.ble (w c) (w (c ||| 2 ^ i))

/-- `w(a ∪ b) ≤ w(a) + w(b)` for every `a < 2^n` and every `b` inside the complement of `a` -/
def subadditiveN (n : Nat) (w : Nat → Nat) : Bool :=
  (List.range (2 ^ n)).all fun a =>
    (subsOf ((List.range n).filter (fun i => !a.testBit i))).all fun b => Nat.ble (w (a ||| b)) (w a + w b)

theorem monotoneN_spec {n : Nat} {w : Nat → Nat} (h : monotoneN n w = true) {c i : Nat} (hc : c < 2 ^ n) (hi : i < n) :
    w c ≤ w (c ||| 2 ^ i) :=
  Nat.le_of_ble_eq_true
    (List.all_eq_true.mp (List.all_eq_true.mp h c (List.mem_range.mpr hc)) i (List.mem_range.mpr hi))

theorem subadditiveN_spec {n : Nat} {w : Nat → Nat} (h : subadditiveN n w = true) {a b : Nat} (ha : a < 2 ^ n)
    (hb : b < 2 ^ n) (hab : a &&& b = 0) : w (a ||| b) ≤ w a + w b := by
  have h1 := List.all_eq_true.mp h a (List.mem_range.mpr ha)
  have hmem : b ∈ subsOf ((List.range n).filter (fun i => !a.testBit i)) := by
    apply mem_subsOf
    intro i hi
    rw [List.mem_filter, List.mem_range]
    refine ⟨player_lt_of_lt hb hi, ?_⟩
    have : (a &&& b).testBit i = false := by rw [hab]; exact Nat.zero_testBit i
    rw [Nat.testBit_and, hi] at this
    simpa using this
  exact Nat.le_of_ble_eq_true (List.all_eq_true.mp h1 b hmem)

set_option maxRecDepth 1000000 in
theorem pin10N_monotone : monotoneN 10 pin10N = true := by decide +kernel

set_option maxRecDepth 1000000 in
theorem pin10N_subadditive : subadditiveN 10 pin10N = true := by decide +kernel

theorem pin10_le {a b : Nat} (h : pin10N a ≤ pin10N b) : pin10 a ≤ pin10 b := by
  unfold pin10
  exact div_le_div_of_nonneg_right (Nat.cast_le.mpr h) (by norm_num)

/-- monotone: adding a player never decreases the value -/
theorem pin10_monotone {c i : Nat} (hc : c < 2 ^ 10) (hi : i < 10) : pin10 c ≤ pin10 (c ||| 2 ^ i) :=
  pin10_le (monotoneN_spec pin10N_monotone hc hi)

/-- subadditive: `v(a ∪ b) ≤ v(a) + v(b)` for disjoint coalitions -/
theorem pin10_subadditive {a b : Nat} (ha : a < 2 ^ 10) (hb : b < 2 ^ 10) (hab : a &&& b = 0) :
    pin10 (a ||| b) ≤ pin10 a + pin10 b := by
  have := subadditiveN_spec pin10N_subadditive ha hb hab
  unfold pin10
  rw [← add_div]
  apply div_le_div_of_nonneg_right _ (by norm_num)
  exact_mod_cast this

/-- every singleton is worth at least 1, the empty coalition 0 -/
theorem pin10_singletons : (∀ p, p < 10 → 1 ≤ pin10 (singleton p)) ∧ pin10 0 = 0 := by
  constructor
  · intro p hp
    have : ((List.range 10).all fun p => decide (1 ≤ pin10 (singleton p))) = true := by decide +kernel
    exact of_decide_eq_true (List.all_eq_true.mp this p (List.mem_range.mpr hp))
  · decide +kernel

end ICG.Mul
