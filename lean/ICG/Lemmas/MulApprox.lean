/-
  ICG.Lemmas.MulApprox — `_compute_approximation` (ICG.Model.Mul) on a complete game: the value written for a
  coalition is the maximum of a list; lower bound for monotone submodular games.
-/
import ICG.Lemmas.MulXos

namespace ICG.Mul
open ICG

theorem mapE_ok_of {β γ : Type} (g : β → Except Err γ) (f : β → γ) :
    ∀ (l : List β), (∀ x ∈ l, g x = .ok (f x)) → mapE g l = .ok (l.map f)
  | [], _ => rfl
  | a :: l, h => by
    show (match g a with
          | .error e => Except.error e
          | .ok c => match mapE g l with
            | .error e => Except.error e
            | .ok cs => Except.ok (c :: cs)) = _
    rw [h a List.mem_cons_self, mapE_ok_of g f l (fun x hx => h x (List.mem_cons_of_mem _ hx))]
    rfl

section approx
set_option linter.unusedSectionVars false
variable {α : Type} [Field α] [LinearOrder α] [IsStrictOrderedRing α]

/-- `len(cand & coalition) * r / (4αβ)` with `u = 4αβ` -/
def newValue (u : α) (c r cand : Nat) : α := ((size (inter cand c) * r : Nat) : α) / u

/-- the new values of one row of the candidate array, the r-index counting from `r0` -/
def rowValues (u : α) (c : Nat) : Nat → List (List Nat) → List α
  | _, [] => []
  | r, cell :: row => cell.map (newValue u c r) ++ rowValues u c (r + 1) row

/-- all new values the triple loop forms for the coalition `c` -/
def allValues (u : α) (cands : List (List (List Nat))) (c : Nat) : List α := cands.flatMap (rowValues u c 0)

theorem step_eq_max (m x : α) : (if m < x then x else m) = max m x := by
  rcases lt_or_ge m x with h | h
  · rw [if_pos h, max_eq_right h.le]
  · rw [if_neg (not_lt.mpr h), max_eq_left h]

theorem foldCell_eq (u : α) (c r : Nat) (cell : List Nat) (m : α) :
    foldCell u c r cell m = (cell.map (newValue u c r)).foldl max m := by
  unfold foldCell
  induction cell generalizing m with
  | nil => rfl
  | cons a l ih =>
    simp only [List.foldl_cons, List.map_cons]
    rw [ih]
    congr 1
    exact step_eq_max _ _

theorem foldRow_eq (u : α) (c : Nat) : ∀ (row : List (List Nat)) (r : Nat) (m : α),
    foldRow u c r row m = (rowValues u c r row).foldl max m
  | [], _, _ => rfl
  | cell :: row, r, m => by
    rw [foldRow, rowValues, List.foldl_append, foldRow_eq u c row (r + 1), foldCell_eq]

theorem approxValue_eq (u : α) (cands : List (List (List Nat))) (c : Nat) (ms : α) :
    approxValue u cands c ms = (allValues u cands c).foldl max ms := by
  unfold approxValue allValues
  induction cands generalizing ms with
  | nil => rfl
  | cons row cands ih =>
    rw [List.foldl_cons, List.flatMap_cons, List.foldl_append, ih, foldRow_eq]

/-- the value written is the maximum of the largest singleton and all new values -/
theorem approxValue_isMax (u : α) (cands : List (List (List Nat))) (c : Nat) (ms : α) :
    listMax? (ms :: allValues u cands c) = some (approxValue u cands c ms) := by
  rw [approxValue_eq]; rfl

/-- `cand` sits in cell number `r` of some row of the candidate array -/
def InCell (cands : List (List (List Nat))) (r cand : Nat) : Prop :=
  ∃ row ∈ cands, ∃ cell, row[r]? = some cell ∧ cand ∈ cell

theorem mem_rowValues (u : α) (c : Nat) (x : α) : ∀ (row : List (List Nat)) (r0 : Nat),
    x ∈ rowValues u c r0 row ↔ ∃ j cell cand, row[j]? = some cell ∧ cand ∈ cell ∧ x = newValue u c (r0 + j) cand
  | [], r0 => by simp [rowValues]
  | cell :: row, r0 => by
    rw [rowValues, List.mem_append, mem_rowValues u c x row (r0 + 1)]
    constructor
    · rintro (h | ⟨j, cell', cand, h1, h2, h3⟩)
      · obtain ⟨cand, hc, rfl⟩ := List.mem_map.mp h
        exact ⟨0, cell, cand, rfl, hc, rfl⟩
      · exact ⟨j + 1, cell', cand, by simpa using h1, h2, by rw [h3]; congr 1; omega⟩
    · rintro ⟨j, cell', cand, h1, h2, h3⟩
      cases j with
      | zero =>
        left
        simp only [List.getElem?_cons_zero, Option.some.injEq] at h1
        subst h1
        exact List.mem_map.mpr ⟨cand, h2, h3.symm⟩
      | succ j =>
        right
        exact ⟨j, cell', cand, by simpa using h1, h2, by rw [h3]; congr 1; omega⟩

theorem mem_allValues (u : α) (cands : List (List (List Nat))) (c : Nat) (x : α) :
    x ∈ allValues u cands c ↔ ∃ r cand, InCell cands r cand ∧ x = newValue u c r cand := by
  unfold allValues InCell
  rw [List.mem_flatMap]
  constructor
  · rintro ⟨row, hrow, hx⟩
    obtain ⟨j, cell, cand, h1, h2, h3⟩ := (mem_rowValues u c x row 0).mp hx
    exact ⟨j, cand, ⟨row, hrow, cell, h1, h2⟩, by simpa using h3⟩
  · rintro ⟨r, cand, ⟨row, hrow, cell, h1, h2⟩, h3⟩
    exact ⟨row, hrow, (mem_rowValues u c x row 0).mpr ⟨r, cell, cand, h1, h2, by simpa using h3⟩⟩

theorem le_approxValue_self (u : α) (cands : List (List (List Nat))) (c : Nat) (ms : α) :
    ms ≤ approxValue u cands c ms :=
  le_listMax? (approxValue_isMax u cands c ms) List.mem_cons_self

theorem newValue_le_approxValue (u : α) (cands : List (List (List Nat))) (c : Nat) (ms : α) {r cand : Nat}
    (h : InCell cands r cand) : newValue u c r cand ≤ approxValue u cands c ms :=
  le_listMax? (approxValue_isMax u cands c ms)
    (List.mem_cons_of_mem _ ((mem_allValues u cands c _).mpr ⟨r, cand, h, rfl⟩))

theorem approxValue_cases (u : α) (cands : List (List (List Nat))) (c : Nat) (ms : α) :
    approxValue u cands c ms = ms ∨ ∃ r cand, InCell cands r cand ∧ approxValue u cands c ms = newValue u c r cand := by
  have := listMax?_mem (approxValue_isMax u cands c ms)
  rcases List.mem_cons.mp this with h | h
  · exact Or.inl h
  · obtain ⟨r, cand, h1, h2⟩ := (mem_allValues u cands c _).mp h
    exact Or.inr ⟨r, cand, h1, h2⟩

/-- an upper bound of the largest singleton and of every new value bounds the written value -/
theorem approxValue_le (u : α) (cands : List (List (List Nat))) (c : Nat) (ms b : α) (hms : ms ≤ b)
    (hnew : ∀ r cand, InCell cands r cand → newValue u c r cand ≤ b) : approxValue u cands c ms ≤ b := by
  rcases approxValue_cases u cands c ms with h | ⟨r, cand, h1, h2⟩
  · rw [h]; exact hms
  · rw [h2]; exact hnew r cand h1

theorem inter_testBit' (a b i : Nat) : (inter a b).testBit i = (a.testBit i && b.testBit i) := by
  unfold inter; exact Nat.testBit_and a b i

theorem newValue_mono {u : α} (hu : 0 < u) {c c' : Nat} (h : c &&& c' = c) (r cand : Nat) :
    newValue u c r cand ≤ newValue u c' r cand := by
  unfold newValue
  apply div_le_div_of_nonneg_right _ hu.le
  apply Nat.cast_le.mpr
  apply Nat.mul_le_mul_right
  apply size_le_of_sub
  apply sub_of_testBit
  intro i hi
  rw [inter_testBit'] at hi ⊢
  have := sub_testBit h i
  cases hc : c.testBit i <;> cases ha : cand.testBit i <;> simp_all

/-- monotone under inclusion (for `4αβ > 0`), given that the largest singleton is -/
theorem approxValue_mono {u : α} (hu : 0 < u) (cands : List (List (List Nat))) {c c' : Nat} (h : c &&& c' = c)
    {ms ms' : α} (hms : ms ≤ ms') : approxValue u cands c ms ≤ approxValue u cands c' ms' := by
  apply approxValue_le
  · exact le_trans hms (le_approxValue_self u cands c' ms')
  · intro r cand hin
    exact le_trans (newValue_mono hu h r cand) (newValue_le_approxValue u cands c' ms' hin)

/-! ### the whole function on a complete game -/

/-- the largest singleton value inside a non-empty coalition (`0` for the empty one, never used) -/
def msOf (v : Nat → α) (c : Nat) : α :=
  match players c with
  | [] => 0
  | p :: ps => (ps.map (fun p => v (singleton p))).foldl max (v (singleton p))

theorem players_ne_nil {c : Nat} (hc : c ≠ 0) : players c ≠ [] := by
  intro h
  have := size_eq_length_players c
  rw [h] at this
  exact hc (size_eq_zero_iff.mp (by simpa using this))

theorem msOf_isMax (v : Nat → α) {c : Nat} (hc : c ≠ 0) :
    listMax? ((players c).map (fun p => v (singleton p))) = some (msOf v c) := by
  unfold msOf
  cases h : players c with
  | nil => exact absurd h (players_ne_nil hc)
  | cons p ps => rfl

theorem le_msOf (v : Nat → α) {c p : Nat} (hp : c.testBit p = true) : v (singleton p) ≤ msOf v c := by
  have hc : c ≠ 0 := by rintro rfl; simp at hp
  exact le_listMax? (msOf_isMax v hc) (List.mem_map.mpr ⟨p, mem_players.mpr hp, rfl⟩)

theorem msOf_mem (v : Nat → α) {c : Nat} (hc : c ≠ 0) : ∃ p, c.testBit p = true ∧ msOf v c = v (singleton p) := by
  obtain ⟨p, hp, he⟩ := List.mem_map.mp (listMax?_mem (msOf_isMax v hc))
  exact ⟨p, mem_players.mp hp, he.symm⟩

theorem msOf_mono (v : Nat → α) {c c' : Nat} (h : c &&& c' = c) (hc : c ≠ 0) : msOf v c ≤ msOf v c' := by
  obtain ⟨p, hp, he⟩ := msOf_mem v hc
  rw [he]
  exact le_msOf v (sub_testBit h p hp)

theorem player_lt_of_lt {c n p : Nat} (hc : c < 2 ^ n) (hp : c.testBit p = true) : p < n := by
  by_contra h
  have : c < 2 ^ p := lt_of_lt_of_le hc (Nat.pow_le_pow_right (by omega) (by omega))
  rw [Nat.testBit_lt_two_pow this] at hp
  cases hp

/-- `_compute_approximation` on a complete game with singletons ≥ 1 and `4αβ ≠ 0`: the vector it returns -/
theorem computeApproximation_okGet (v : Nat → α) (n : Nat) (cands : List (List (List Nat))) (alpha beta : α)
    (h1 : ∀ p, p < n → 1 ≤ v (singleton p)) (hu : ((4 : Nat) : α) * alpha * beta ≠ 0) :
    computeApproximation (okGet v) n cands alpha beta =
      .ok ((allCoalitions n).map (fun c =>
        if c = 0 then 0 else approxValue (((4 : Nat) : α) * alpha * beta) cands c (msOf v c))) := by
  unfold computeApproximation
  rw [singles_okGet]
  dsimp only
  have hall : ((List.range n).map (fun p => v (singleton p))).all (fun s => decide (1 ≤ s)) = true := by
    rw [List.all_eq_true]
    intro x hx
    obtain ⟨p, hp, rfl⟩ := List.mem_map.mp hx
    exact decide_eq_true (h1 p (List.mem_range.mp hp))
  rw [if_pos hall, if_neg (fun h => hu h.2.2)]
  apply mapE_ok_of
  intro c hc
  have hc : c < 2 ^ n := List.mem_range.mp hc
  by_cases h0 : c = 0
  · simp [h0]
  · simp only [if_neg h0]
    have hin : mapE (lookupE ((List.range n).map (fun p => v (singleton p)))) (players c)
        = .ok ((players c).map (fun p => v (singleton p))) := by
      apply mapE_ok_of
      intro p hp
      have hpn : p < n := player_lt_of_lt hc (mem_players.mp hp)
      simp [lookupE, hpn]
    rw [hin]
    dsimp only
    rw [msOf_isMax v h0]

/-- singleton below 1: AssertionError -/
theorem computeApproximation_assert (v : Nat → α) (n : Nat) (cands : List (List (List Nat))) (alpha beta : α)
    (h1 : ∃ p, p < n ∧ v (singleton p) < 1) :
    computeApproximation (okGet v) n cands alpha beta = .error .assert := by
  unfold computeApproximation
  rw [singles_okGet]
  dsimp only
  have hall : ¬ ((List.range n).map (fun p => v (singleton p))).all (fun s => decide (1 ≤ s)) = true := by
    rw [List.all_eq_true]
    intro h
    obtain ⟨p, hp, hlt⟩ := h1
    have := h _ (List.mem_map.mpr ⟨p, List.mem_range.mpr hp, rfl⟩)
    exact absurd (of_decide_eq_true this) (not_le.mpr hlt)
  rw [if_neg hall]

/-! ### lower bound for monotone submodular games -/

/-- monotone, submodular (decreasing marginal contributions), `v(∅) ≥ 0` — on the coalitions of `n` players -/
structure MonoSubmod (n : Nat) (v : Nat → α) : Prop where
  mono : ∀ a b, a &&& b = a → b < 2 ^ n → v a ≤ v b
  submod : ∀ a b p, a &&& b = a → b < 2 ^ n → p < n → b.testBit p = false →
    v (addPlayer b p) - v b ≤ v (addPlayer a p) - v a
  empty : 0 ≤ v 0

/-- marginal contribution of player `p` along the id order of `C` (entry `p` of the additive vector) -/
def marginal (v : Nat → α) (C p : Nat) : α := v (C % 2 ^ (p + 1)) - v (C % 2 ^ p)

/-- every candidate of cell `r` is contained in a coalition along whose id order each of its players has a
    marginal contribution of at least `r / u` -/
def Witnessed (n : Nat) (v : Nat → α) (u : α) (cands : List (List (List Nat))) : Prop :=
  ∀ r cand, InCell cands r cand →
    ∃ C, C < 2 ^ n ∧ cand &&& C = cand ∧ ∀ p, cand.testBit p = true → (r : α) / u ≤ marginal v C p

theorem length_mul_le_sum {β : Type} (l : List β) (f : β → α) (t : α) (h : ∀ x ∈ l, t ≤ f x) :
    (l.length : α) * t ≤ (l.map f).sum := by
  induction l with
  | nil => simp
  | cons a l ih =>
    have := ih (fun x hx => h x (List.mem_cons_of_mem _ hx))
    have ha := h a List.mem_cons_self
    simp only [List.length_cons, List.map_cons, List.sum_cons, Nat.cast_succ]
    nlinarith

theorem sum_map_le_sum_map {β : Type} (l : List β) (f g : β → α) (h : ∀ x ∈ l, f x ≤ g x) :
    (l.map f).sum ≤ (l.map g).sum := by
  induction l with
  | nil => simp
  | cons a l ih =>
    have := ih (fun x hx => h x (List.mem_cons_of_mem _ hx))
    have ha := h a List.mem_cons_self
    simp only [List.map_cons, List.sum_cons]
    linarith

theorem mod_sub_mod {X C p : Nat} (h : X &&& C = X) : (X % 2 ^ p) &&& (C % 2 ^ p) = X % 2 ^ p := by
  apply sub_of_testBit
  intro i hi
  rw [Nat.testBit_mod_two_pow] at hi ⊢
  have := sub_testBit h i
  cases hlt : decide (i < p) <;> simp_all

/-- decreasing marginals: along a sub-coalition every player contributes at least what it contributes along `C` -/
theorem marginal_anti {n : Nat} {v : Nat → α} (hv : MonoSubmod n v) {X C p : Nat} (hXC : X &&& C = X)
    (hC : C < 2 ^ n) (hp : X.testBit p = true) : marginal v C p ≤ marginal v X p := by
  have hCp : C.testBit p = true := sub_testBit hXC p hp
  have hpn : p < n := player_lt_of_lt hC hCp
  have hb : (C % 2 ^ p) < 2 ^ n := lt_of_le_of_lt (Nat.mod_le _ _) hC
  have hbp : (C % 2 ^ p).testBit p = false := by rw [Nat.testBit_mod_two_pow]; simp
  have := hv.submod (X % 2 ^ p) (C % 2 ^ p) p (mod_sub_mod hXC) hb hpn hbp
  rw [addPlayer_mod_two_pow hCp, addPlayer_mod_two_pow hp] at this
  exact this

/-- the marginals along `C` of the players of a sub-coalition `X` sum to at most `v(X) − v(∅)` -/
theorem sum_marginals_le {n : Nat} {v : Nat → α} (hv : MonoSubmod n v) {X C : Nat} (hXC : X &&& C = X)
    (hC : C < 2 ^ n) : ((players X).map (marginal v C)).sum ≤ v X - v 0 := by
  rw [← marginals_sum_players v X]
  exact sum_map_le_sum_map _ _ _ (fun p hp => marginal_anti hv hXC hC (mem_players.mp hp))

/-- a witnessed candidate's new value is at most the value of the coalition -/
theorem newValue_le_of_witnessed {n : Nat} {v : Nat → α} (hv : MonoSubmod n v) {u : α}
    {cands : List (List (List Nat))} (hw : Witnessed n v u cands) {c : Nat} (hc : c < 2 ^ n) {r cand : Nat}
    (hin : InCell cands r cand) : newValue u c r cand ≤ v c := by
  obtain ⟨C, hC, hsub, hmarg⟩ := hw r cand hin
  -- X = cand ∩ c
  have hXcand : inter cand c &&& cand = inter cand c := by
    apply sub_of_testBit; intro i hi; rw [inter_testBit'] at hi
    cases h : cand.testBit i <;> simp_all
  have hXc : inter cand c &&& c = inter cand c := by
    apply sub_of_testBit; intro i hi; rw [inter_testBit'] at hi
    cases h : c.testBit i <;> simp_all
  have hXC : inter cand c &&& C = inter cand c := sub_trans hXcand hsub
  have h1 : ((players (inter cand c)).length : α) * ((r : α) / u) ≤ ((players (inter cand c)).map (marginal v C)).sum :=
    length_mul_le_sum _ _ _ (fun p hp => hmarg p (sub_testBit hXcand p (mem_players.mp hp)))
  have h2 := sum_marginals_le hv hXC hC
  have h3 : v (inter cand c) ≤ v c := hv.mono _ _ hXc hc
  have h4 : newValue u c r cand = ((players (inter cand c)).length : α) * ((r : α) / u) := by
    unfold newValue
    rw [size_eq_length_players, Nat.cast_mul, mul_div_assoc]
  rw [h4]
  have := hv.empty
  linarith

/-- LOWER BOUND: on a monotone submodular game with `v(∅) ≥ 0`, every value `_compute_approximation` writes for
    witnessed candidates is at most the value of the game -/
theorem approxValue_le_game {n : Nat} {v : Nat → α} (hv : MonoSubmod n v) {u : α}
    {cands : List (List (List Nat))} (hw : Witnessed n v u cands) {c : Nat} (hc : c < 2 ^ n) (h0 : c ≠ 0) :
    approxValue u cands c (msOf v c) ≤ v c := by
  apply approxValue_le
  · obtain ⟨p, hp, he⟩ := msOf_mem v h0
    rw [he]
    apply hv.mono _ _ _ hc
    apply sub_of_testBit
    intro i hi
    unfold singleton at hi
    rw [Nat.testBit_two_pow] at hi
    have : p = i := of_decide_eq_true hi
    exact this ▸ hp
  · intro r cand hin
    exact newValue_le_of_witnessed hv hw hc hin

end approx
end ICG.Mul
