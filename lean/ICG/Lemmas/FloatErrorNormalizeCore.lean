/-
  ICG.Lemmas.FloatErrorNormalizeCore — the arithmetic behind ICG.Props.FloatErrorNormalize, free of the game
  model: what the STANDARD relative-error model of rounded arithmetic

      op' a b = (a ∘ b)·(1 + ε),  |ε| ≤ u        i.e.   |op' a b − (a ∘ b)| ≤ u·|a ∘ b|

  gives for (1) a left fold of rounded additions / subtractions, (2) one rounded division of two perturbed
  operands, (3) one rounded multiplication of two perturbed operands, and (4) the growth factor
  `(1+u)^m − 1 ≤ m·u / (1 − m·u)` (`≤ 2·m·u` when `m·u ≤ 1/2`).

  Values live in an ordered field; the primed operations are ARBITRARY functions `α → α → α` (no algebraic law
  is assumed of them).
-/
import Mathlib.Algebra.Order.Field.Basic
import Mathlib.Algebra.Order.Ring.Abs
import Mathlib.Algebra.Order.Ring.Pow
import Mathlib.Algebra.BigOperators.Group.List.Basic
import Mathlib.Tactic.Ring
import Mathlib.Tactic.Linarith
import Mathlib.Tactic.Positivity
import Mathlib.Tactic.FieldSimp
import Mathlib.Tactic.GCongr

namespace ICG.ApproxNormalize

variable {α : Type} [Field α] [LinearOrder α] [IsStrictOrderedRing α]

/-! ### 0. the growth factor `(1+u)^k` -/

theorem one_le_growth {u : α} (hu : 0 ≤ u) (k : Nat) : 1 ≤ (1 + u) ^ k :=
  one_le_pow₀ (by linarith)

theorem growth_sub_one_nonneg {u : α} (hu : 0 ≤ u) (k : Nat) : 0 ≤ (1 + u) ^ k - 1 :=
  sub_nonneg.mpr (one_le_growth hu k)

theorem growth_mono {u : α} (hu : 0 ≤ u) {k m : Nat} (h : k ≤ m) : (1 + u) ^ k ≤ (1 + u) ^ m :=
  pow_le_pow_right₀ (by linarith) h

theorem le_growth_sub_one {u : α} (hu : 0 ≤ u) {k : Nat} (hk : 1 ≤ k) : u ≤ (1 + u) ^ k - 1 := by
  have := growth_mono hu hk
  rw [pow_one] at this
  linarith

omit [LinearOrder α] [IsStrictOrderedRing α] in
/-- with `u = 0` nothing grows -/
theorem growth_zero (k : Nat) : ((1 : α) + 0) ^ k - 1 = 0 := by simp

/-- **`γ_m`.**  `(1+u)^m − 1 ≤ m·u / (1 − m·u)` whenever `m·u < 1` (Bernoulli on `(1−u)^m`). -/
theorem growth_sub_one_le_gamma {u : α} (hu : 0 ≤ u) (m : Nat) (hm : (m : α) * u < 1) :
    (1 + u) ^ m - 1 ≤ (m : α) * u / (1 - (m : α) * u) := by
  have hpos : 0 < 1 - (m : α) * u := by linarith
  -- Bernoulli: 1 − m u ≤ (1 − u)^m
  have hu1 : u ≤ 1 ∨ m = 0 := by
    rcases Nat.eq_zero_or_pos m with h | h
    · exact Or.inr h
    · left
      have : (1 : α) ≤ m := by exact_mod_cast h
      nlinarith
  rcases hu1 with hu1 | rfl
  · have hb : 1 + (m : α) * (-u) ≤ (1 + -u) ^ m := one_add_mul_le_pow (by linarith) m
    have hprod : (1 + u) ^ m * (1 + -u) ^ m ≤ 1 := by
      rw [← mul_pow]
      apply pow_le_one₀
      · nlinarith
      · nlinarith
    have hg := one_le_growth hu m
    have h1 : (1 + u) ^ m * (1 - (m : α) * u) ≤ 1 := by
      have : (1 + u) ^ m * (1 + (m : α) * (-u)) ≤ (1 + u) ^ m * (1 + -u) ^ m :=
        mul_le_mul_of_nonneg_left hb (by linarith)
      have e : (1 : α) + (m : α) * (-u) = 1 - (m : α) * u := by ring
      rw [e] at this
      linarith
    rw [le_div_iff₀ hpos]
    nlinarith
  · simp

/-- first-order form: `(1+u)^m − 1 ≤ 2·m·u` whenever `m·u ≤ 1/2` -/
theorem growth_sub_one_le_linear {u : α} (hu : 0 ≤ u) (m : Nat) (hm : (m : α) * u ≤ 1 / 2) :
    (1 + u) ^ m - 1 ≤ 2 * ((m : α) * u) := by
  have h1 : (m : α) * u < 1 := by linarith
  refine le_trans (growth_sub_one_le_gamma hu m h1) ?_
  have hpos : 0 < 1 - (m : α) * u := by linarith
  have hmu : 0 ≤ (m : α) * u := mul_nonneg (Nat.cast_nonneg m) hu
  rw [div_le_iff₀ hpos]
  nlinarith

/-! ### 1. a left fold of rounded additions (`f = id`) or subtractions (`f = −·`)

`op'` is the rounded form of `a, b ↦ a + f b`.  Started from a perturbed value `a'` of `a` and run over `l`, the
fold differs from `a + Σ f x` by at most `(1+u)^k·|a' − a| + ((1+u)^k − 1)·(|a| + Σ|f x|)`, `k = |l|`. -/

theorem foldl_rel_error {op' : α → α → α} {f : α → α} {u : α} (hu : 0 ≤ u)
    (hop : ∀ a b, |op' a b - (a + f b)| ≤ u * |a + f b|) :
    ∀ (l : List α) (a' a : α),
      |l.foldl op' a' - (a + (l.map f).sum)| ≤
        (1 + u) ^ l.length * |a' - a| +
          ((1 + u) ^ l.length - 1) * (|a| + (l.map (fun x => |f x|)).sum) := by
  intro l
  induction l with
  | nil => intro a' a; simp
  | cons x l ih =>
    intro a' a
    have hS : 0 ≤ (l.map (fun x => |f x|)).sum :=
      List.sum_nonneg (by intro y hy; obtain ⟨z, _, rfl⟩ := List.mem_map.mp hy; exact abs_nonneg _)
    have hp := one_le_growth hu l.length
    set p := (1 + u) ^ l.length with hpdef
    set S := (l.map (fun x => |f x|)).sum with hSdef
    -- one rounded step from a perturbed operand
    have h1 : |op' a' x - (a + f x)| ≤ u * |a + f x| + (1 + u) * |a' - a| := by
      have e : op' a' x - (a + f x) = (op' a' x - (a' + f x)) + (a' - a) := by ring
      have t1 : |a' + f x| ≤ |a + f x| + |a' - a| := by
        have : a' + f x = (a + f x) + (a' - a) := by ring
        rw [this]; exact abs_add_le _ _
      calc |op' a' x - (a + f x)| = |(op' a' x - (a' + f x)) + (a' - a)| := by rw [e]
        _ ≤ |op' a' x - (a' + f x)| + |a' - a| := abs_add_le _ _
        _ ≤ u * |a' + f x| + |a' - a| := by linarith [hop a' x]
        _ ≤ u * (|a + f x| + |a' - a|) + |a' - a| := by
            have := mul_le_mul_of_nonneg_left t1 hu; linarith
        _ = u * |a + f x| + (1 + u) * |a' - a| := by ring
    have ht : |a + f x| ≤ |a| + |f x| := abs_add_le _ _
    have hd : 0 ≤ |a' - a| := abs_nonneg _
    have h2 := ih (op' a' x) (a + f x)
    have e2 : a + ((x :: l).map f).sum = a + f x + (l.map f).sum := by
      rw [List.map_cons, List.sum_cons]; ring
    have e3 : ((x :: l).map (fun x => |f x|)).sum = |f x| + S := by
      rw [List.map_cons, List.sum_cons]
    rw [List.foldl_cons, e2, e3, List.length_cons, pow_succ]
    refine le_trans h2 ?_
    -- p·(u t + (1+u) d) + (p−1)(t + S) ≤ p(1+u) d + (p(1+u) − 1)(|a| + |f x| + S)
    have k1 : p * |op' a' x - (a + f x)| ≤ p * (u * |a + f x| + (1 + u) * |a' - a|) :=
      mul_le_mul_of_nonneg_left h1 (by linarith)
    have hq : 0 ≤ p * (1 + u) - 1 := by nlinarith
    have k2 : (p * (1 + u) - 1) * |a + f x| ≤ (p * (1 + u) - 1) * (|a| + |f x|) :=
      mul_le_mul_of_nonneg_left ht hq
    have k3 : (p - 1) * S ≤ (p * (1 + u) - 1) * S := by
      apply mul_le_mul_of_nonneg_right _ hS
      nlinarith
    calc p * |op' a' x - (a + f x)| + (p - 1) * (|a + f x| + S)
        ≤ p * (u * |a + f x| + (1 + u) * |a' - a|) + (p - 1) * (|a + f x| + S) := by linarith
      _ = p * (1 + u) * |a' - a| + (p * (1 + u) - 1) * |a + f x| + (p - 1) * S := by ring
      _ ≤ p * (1 + u) * |a' - a| + (p * (1 + u) - 1) * (|a| + |f x|) + (p * (1 + u) - 1) * S := by
          linarith
      _ = p * (1 + u) * |a' - a| + (p * (1 + u) - 1) * (|a| + (|f x| + S)) := by ring

/-- rounded subtractions `((a − x₁) − x₂) − …`, exact start -/
theorem foldl_sub_error {sub' : α → α → α} {u : α} (hu : 0 ≤ u)
    (hsub : ∀ a b, |sub' a b - (a - b)| ≤ u * |a - b|) (l : List α) (a : α) :
    |l.foldl sub' a - (a - l.sum)| ≤ ((1 + u) ^ l.length - 1) * (|a| + (l.map (fun x => |x|)).sum) := by
  have e : ∀ l : List α, (l.map (fun b => -b)).sum = -l.sum := by
    intro l
    induction l with
    | nil => simp
    | cons x l ih => rw [List.map_cons, List.sum_cons, List.sum_cons, ih]; ring
  have h := foldl_rel_error (op' := sub') (f := fun b => -b) hu
    (by intro a b; simpa [sub_eq_add_neg] using hsub a b) l a a
  simpa [e, sub_eq_add_neg] using h

/-- rounded additions `((a' + x₁) + x₂) + …` from a perturbed start `a'` of `a` -/
theorem foldl_add_error {add' : α → α → α} {u : α} (hu : 0 ≤ u)
    (hadd : ∀ a b, |add' a b - (a + b)| ≤ u * |a + b|) (l : List α) (a' a : α) :
    |l.foldl add' a' - (a + l.sum)| ≤
      (1 + u) ^ l.length * |a' - a| + ((1 + u) ^ l.length - 1) * (|a| + (l.map (fun x => |x|)).sum) := by
  have h := foldl_rel_error (op' := add') (f := fun b => b) hu hadd l a' a
  simpa using h

/-! ### 2. one rounded division of perturbed operands -/

/-- `a' ≈ a` (error `ea`), `b' ≈ b` (error `eb < |b|`): the rounded divisor is not 0 and the rounded quotient
    `div' a' b'` is within `u·|a/b| + (1+u)·(ea + |a/b|·eb)/(|b| − eb)` of `a/b`. -/
theorem div_rel_error {div' : α → α → α} {u : α} (hu : 0 ≤ u)
    (hdiv : ∀ a b, b ≠ 0 → |div' a b - a / b| ≤ u * |a / b|)
    {a' a b' b ea eb : α} (ha : |a' - a| ≤ ea) (hb : |b' - b| ≤ eb) (hlt : eb < |b|) :
    b' ≠ 0 ∧ |div' a' b' - a / b| ≤ u * |a / b| + (1 + u) * ((ea + |a / b| * eb) / (|b| - eb)) := by
  have hbpos : 0 < |b| - eb := by linarith
  have hb' : |b| - eb ≤ |b'| := by
    have : |b| ≤ |b'| + |b' - b| := by
      have e : b = b' - (b' - b) := by ring
      calc |b| = |b' - (b' - b)| := by rw [← e]
        _ ≤ |b'| + |b' - b| := abs_sub _ _
    linarith
  have hb'pos : 0 < |b'| := lt_of_lt_of_le hbpos hb'
  have hb'ne : b' ≠ 0 := abs_pos.mp hb'pos
  have hbne : b ≠ 0 := by
    have : 0 < |b| := lt_of_le_of_lt (le_trans (abs_nonneg _) hb) hlt
    exact abs_pos.mp this
  refine ⟨hb'ne, ?_⟩
  have hea : 0 ≤ ea := le_trans (abs_nonneg _) ha
  have heb : 0 ≤ eb := le_trans (abs_nonneg _) hb
  -- the exact quotient of the perturbed operands
  have e : a' / b' - a / b = ((a' - a) - a / b * (b' - b)) / b' := by
    field_simp
    ring
  have hnum : |(a' - a) - a / b * (b' - b)| ≤ ea + |a / b| * eb := by
    calc |(a' - a) - a / b * (b' - b)| ≤ |a' - a| + |a / b * (b' - b)| := abs_sub _ _
      _ = |a' - a| + |a / b| * |b' - b| := by rw [abs_mul]
      _ ≤ ea + |a / b| * eb := by
          have := mul_le_mul_of_nonneg_left hb (abs_nonneg (a / b)); linarith
  have hnn : 0 ≤ ea + |a / b| * eb := add_nonneg hea (mul_nonneg (abs_nonneg _) heb)
  have hq : |a' / b' - a / b| ≤ (ea + |a / b| * eb) / (|b| - eb) := by
    rw [e, abs_div]
    calc |(a' - a) - a / b * (b' - b)| / |b'| ≤ (ea + |a / b| * eb) / |b'| :=
          div_le_div_of_nonneg_right hnum hb'pos.le
      _ ≤ (ea + |a / b| * eb) / (|b| - eb) := div_le_div_of_nonneg_left hnn hbpos hb'
  have hq' : |a' / b'| ≤ |a / b| + |a' / b' - a / b| := by
    have e2 : a' / b' = a / b + (a' / b' - a / b) := by ring
    calc |a' / b'| = |a / b + (a' / b' - a / b)| := by rw [← e2]
      _ ≤ _ := abs_add_le _ _
  have e3 : div' a' b' - a / b = (div' a' b' - a' / b') + (a' / b' - a / b) := by ring
  calc |div' a' b' - a / b| = |(div' a' b' - a' / b') + (a' / b' - a / b)| := by rw [e3]
    _ ≤ |div' a' b' - a' / b'| + |a' / b' - a / b| := abs_add_le _ _
    _ ≤ u * |a' / b'| + |a' / b' - a / b| := by linarith [hdiv a' b' hb'ne]
    _ ≤ u * (|a / b| + |a' / b' - a / b|) + |a' / b' - a / b| := by
        have := mul_le_mul_of_nonneg_left hq' hu; linarith
    _ = u * |a / b| + (1 + u) * |a' / b' - a / b| := by ring
    _ ≤ u * |a / b| + (1 + u) * ((ea + |a / b| * eb) / (|b| - eb)) := by
        have := mul_le_mul_of_nonneg_left hq (by linarith : (0 : α) ≤ 1 + u); linarith

/-! ### 3. one rounded multiplication of perturbed operands -/

/-- `q' ≈ q` (error `eq`), `g ≈ W` (error `eg`): `mul' q' g` is within
    `u·|q·W| + (1+u)·(eq·(|W| + eg) + |q|·eg)` of `q·W`. -/
theorem mul_rel_error {mul' : α → α → α} {u : α} (hu : 0 ≤ u)
    (hmul : ∀ a b, |mul' a b - a * b| ≤ u * |a * b|)
    {q' q g W eq eg : α} (hq : |q' - q| ≤ eq) (hg : |g - W| ≤ eg) :
    |mul' q' g - q * W| ≤ u * |q * W| + (1 + u) * (eq * (|W| + eg) + |q| * eg) := by
  have heq : 0 ≤ eq := le_trans (abs_nonneg _) hq
  have hg1 : |g| ≤ |W| + eg := by
    have e : g = W + (g - W) := by ring
    calc |g| = |W + (g - W)| := by rw [← e]
      _ ≤ |W| + |g - W| := abs_add_le _ _
      _ ≤ |W| + eg := by linarith
  have hD : |q' * g - q * W| ≤ eq * (|W| + eg) + |q| * eg := by
    have e : q' * g - q * W = (q' - q) * g + q * (g - W) := by ring
    calc |q' * g - q * W| = |(q' - q) * g + q * (g - W)| := by rw [e]
      _ ≤ |(q' - q) * g| + |q * (g - W)| := abs_add_le _ _
      _ = |q' - q| * |g| + |q| * |g - W| := by rw [abs_mul, abs_mul]
      _ ≤ eq * (|W| + eg) + |q| * eg := by
          have h1 : |q' - q| * |g| ≤ eq * (|W| + eg) := mul_le_mul hq hg1 (abs_nonneg _) heq
          have h2 := mul_le_mul_of_nonneg_left hg (abs_nonneg q)
          linarith
  have hP : |q' * g| ≤ |q * W| + |q' * g - q * W| := by
    have e : q' * g = q * W + (q' * g - q * W) := by ring
    calc |q' * g| = |q * W + (q' * g - q * W)| := by rw [← e]
      _ ≤ _ := abs_add_le _ _
  have e3 : mul' q' g - q * W = (mul' q' g - q' * g) + (q' * g - q * W) := by ring
  calc |mul' q' g - q * W| = |(mul' q' g - q' * g) + (q' * g - q * W)| := by rw [e3]
    _ ≤ |mul' q' g - q' * g| + |q' * g - q * W| := abs_add_le _ _
    _ ≤ u * |q' * g| + |q' * g - q * W| := by linarith [hmul q' g]
    _ ≤ u * (|q * W| + |q' * g - q * W|) + |q' * g - q * W| := by
        have := mul_le_mul_of_nonneg_left hP hu; linarith
    _ = u * |q * W| + (1 + u) * |q' * g - q * W| := by ring
    _ ≤ u * |q * W| + (1 + u) * (eq * (|W| + eg) + |q| * eg) := by
        have := mul_le_mul_of_nonneg_left hD (by linarith : (0 : α) ≤ 1 + u); linarith

/-- `|Σ x| ≤ Σ |x|` over a list -/
theorem list_abs_sum_le (l : List α) : |l.sum| ≤ (l.map (fun x => |x|)).sum := by
  induction l with
  | nil => simp
  | cons x l ih =>
    rw [List.sum_cons, List.map_cons, List.sum_cons]
    exact le_trans (abs_add_le _ _) (by linarith)

theorem list_sum_abs_nonneg (l : List α) : 0 ≤ (l.map (fun x => |x|)).sum :=
  List.sum_nonneg (by intro y hy; obtain ⟨z, _, rfl⟩ := List.mem_map.mp hy; exact abs_nonneg _)

/-- a rounded sum followed by one rounded subtraction: `sub' A (Σ' l)` against `A − Σ l` -/
theorem sub_foldl_add_error {add' sub' : α → α → α} {u : α} (hu : 0 ≤ u)
    (hadd : ∀ a b, |add' a b - (a + b)| ≤ u * |a + b|)
    (hsub : ∀ a b, |sub' a b - (a - b)| ≤ u * |a - b|) (l : List α) (A : α) :
    |sub' A (l.foldl add' 0) - (A - l.sum)| ≤
      ((1 + u) ^ (l.length + 1) - 1) * (|A| + (l.map (fun x => |x|)).sum) := by
  have hp := one_le_growth hu l.length
  have hS := list_sum_abs_nonneg l
  have hs := list_abs_sum_le l
  set p := (1 + u) ^ l.length
  set S := (l.map (fun x => |x|)).sum
  set s' := l.foldl add' 0
  have es : |s' - l.sum| ≤ (p - 1) * S := by
    have := foldl_add_error hu hadd l 0 0
    simpa using this
  have e1 : sub' A s' - (A - l.sum) = (sub' A s' - (A - s')) - (s' - l.sum) := by ring
  have t1 : |A - s'| ≤ |A - l.sum| + |s' - l.sum| := by
    have e : A - s' = (A - l.sum) - (s' - l.sum) := by ring
    rw [e]; exact abs_sub _ _
  have t2 : |A - l.sum| ≤ |A| + S := le_trans (abs_sub _ _) (by linarith)
  have hA : 0 ≤ |A| := abs_nonneg _
  have hq : u ≤ p * (1 + u) - 1 := by nlinarith
  calc |sub' A s' - (A - l.sum)| = |(sub' A s' - (A - s')) - (s' - l.sum)| := by rw [e1]
    _ ≤ |sub' A s' - (A - s')| + |s' - l.sum| := abs_sub _ _
    _ ≤ u * |A - s'| + |s' - l.sum| := by linarith [hsub A s']
    _ ≤ u * (|A - l.sum| + |s' - l.sum|) + |s' - l.sum| := by
        have := mul_le_mul_of_nonneg_left t1 hu; linarith
    _ = u * |A - l.sum| + (1 + u) * |s' - l.sum| := by ring
    _ ≤ u * (|A| + S) + (1 + u) * ((p - 1) * S) := by
        have a1 := mul_le_mul_of_nonneg_left t2 hu
        have a2 := mul_le_mul_of_nonneg_left es (by linarith : (0 : α) ≤ 1 + u)
        linarith
    _ = u * |A| + (p * (1 + u) - 1) * S := by ring
    _ ≤ (p * (1 + u) - 1) * |A| + (p * (1 + u) - 1) * S := by
        have := mul_le_mul_of_nonneg_right hq hA; linarith
    _ = ((1 + u) ^ (l.length + 1) - 1) * (|A| + S) := by rw [pow_succ]; ring

/-! ### 4. what the relative model forces at 0 -/

/-- a relative-error operation returns exactly 0 where the exact result is 0 -/
theorem eq_zero_of_rel {r s u : α} (h : |r - s| ≤ u * |s|) (hs : s = 0) : r = 0 := by
  subst hs
  rw [abs_zero, mul_zero, sub_zero] at h
  exact abs_eq_zero.mp (le_antisymm h (abs_nonneg _))

/-! ### 5. the uniform round-trip bound and its first-order form -/

/-- the round-trip bound for a superadditive game: all first-stage errors `≤ E < W`, magnitudes `≤ M` -/
def rtBoundSA (u : α) (n : Nat) (M W E : α) : α :=
  (1 + u) ^ n * (u * W + (1 + u) * ((u + (1 + u) * (2 * E / (W - E))) * (W + E) + E)) +
    ((1 + u) ^ n - 1) * (W + M)

omit [LinearOrder α] [IsStrictOrderedRing α] in
/-- with `u = 0` (and then `E = 0`) the uniform bound vanishes -/
theorem rtBoundSA_zero (n : Nat) (M W : α) : rtBoundSA 0 n M W 0 = 0 := by
  simp [rtBoundSA]

/-- **linear in `u`.**  With `x = (n+1)·u ≤ 1/2`, `E ≤ 2·x·M` and `4·x·M ≤ W ≤ M`:
    `rtBoundSA u n M W E ≤ 71·x·M`. -/
theorem rtBoundSA_le_linear {u M W E : α} (n : Nat) (hu : 0 ≤ u) (hx : ((n + 1 : ℕ) : α) * u ≤ 1 / 2)
    (hW : 0 < W) (hWM : W ≤ M) (hE0 : 0 ≤ E) (hE : E ≤ 2 * (((n + 1 : ℕ) : α) * u) * M)
    (hL : 4 * (((n + 1 : ℕ) : α) * u) * M ≤ W) :
    rtBoundSA u n M W E ≤ 71 * (((n + 1 : ℕ) : α) * u) * M := by
  have hM : 0 < M := lt_of_lt_of_le hW hWM
  have hn1 : (1 : α) ≤ ((n + 1 : ℕ) : α) := by exact_mod_cast Nat.succ_le_succ (Nat.zero_le n)
  have hnn : (n : α) ≤ ((n + 1 : ℕ) : α) := by exact_mod_cast Nat.le_succ n
  set x := ((n + 1 : ℕ) : α) * u with hxdef
  have hux : u ≤ x := by
    have := mul_le_mul_of_nonneg_right hn1 hu
    rwa [one_mul] at this
  have hx0 : 0 ≤ x := le_trans hu hux
  have hnu : (n : α) * u ≤ x := mul_le_mul_of_nonneg_right hnn hu
  have hu2 : u ≤ 1 / 2 := le_trans hux hx
  -- the growth factor
  have hp1 := one_le_growth hu n
  have hp2 : (1 + u) ^ n - 1 ≤ 2 * x := by
    have := growth_sub_one_le_linear hu n (le_trans hnu hx)
    linarith
  set p := (1 + u) ^ n with hpdef
  have hp3 : p ≤ 2 := by linarith
  -- E ≤ W/2
  have hEW : 2 * E ≤ W := by linarith
  have hden : 0 < W - E := by linarith
  -- r = 2E/(W−E) ≤ 4E/W
  set r := 2 * E / (W - E) with hrdef
  have hr0 : 0 ≤ r := div_nonneg (by linarith) hden.le
  have hrW : r * W ≤ 4 * E := by
    have e : r * (W - E) = 2 * E := div_mul_cancel₀ _ hden.ne'
    rw [mul_sub] at e
    -- r·W = 2E + r·E and r·E ≤ r·W/2
    have : r * (2 * E) ≤ r * W := mul_le_mul_of_nonneg_left hEW hr0
    have e2 : r * (2 * E) = 2 * (r * E) := by ring
    linarith
  have hr2 : r ≤ 2 := by
    rw [hrdef, div_le_iff₀ hden]
    linarith
  -- sl·(W + E) ≤ 1.5·u·W + 9·E
  have hslWE : (u + (1 + u) * r) * (W + E) ≤ 3 / 2 * (u * W) + 9 * E := by
    have h1 : (u + (1 + u) * r) * (W + E) ≤ (u + (1 + u) * r) * (3 / 2 * W) :=
      mul_le_mul_of_nonneg_left (by linarith) (add_nonneg hu (mul_nonneg (by linarith) hr0))
    have h2 : (1 + u) * (r * W) ≤ 3 / 2 * (4 * E) :=
      mul_le_mul (by linarith) hrW (mul_nonneg hr0 hW.le) (by norm_num)
    have e : (u + (1 + u) * r) * (3 / 2 * W) = 3 / 2 * (u * W) + 3 / 2 * ((1 + u) * (r * W)) := by ring
    linarith
  have hsl0 : 0 ≤ (u + (1 + u) * r) * (W + E) :=
    mul_nonneg (add_nonneg hu (mul_nonneg (by linarith) hr0)) (by linarith)
  -- I ≤ 3.25·u·W + 15·E
  have huW : 0 ≤ u * W := mul_nonneg hu hW.le
  have hI : u * W + (1 + u) * ((u + (1 + u) * r) * (W + E) + E) ≤ 13 / 4 * (u * W) + 15 * E := by
    have h1 : (1 + u) * ((u + (1 + u) * r) * (W + E) + E) ≤ 3 / 2 * (3 / 2 * (u * W) + 9 * E + E) :=
      mul_le_mul (by linarith) (by linarith) (by linarith) (by norm_num)
    linarith
  have hI0 : 0 ≤ u * W + (1 + u) * ((u + (1 + u) * r) * (W + E) + E) :=
    add_nonneg huW (mul_nonneg (by linarith) (by linarith))
  have hpI : p * (u * W + (1 + u) * ((u + (1 + u) * r) * (W + E) + E)) ≤ 2 * (13 / 4 * (u * W) + 15 * E) :=
    mul_le_mul hp3 hI hI0 (by norm_num)
  have hlast : (p - 1) * (W + M) ≤ 2 * x * (2 * M) :=
    mul_le_mul hp2 (by linarith) (by linarith) (by linarith)
  have huWM : u * W ≤ x * M := mul_le_mul hux hWM hW.le hx0
  unfold rtBoundSA
  rw [← hpdef, ← hrdef]
  have hxM : 0 ≤ x * M := mul_nonneg hx0 hM.le
  linarith

end ICG.ApproxNormalize
