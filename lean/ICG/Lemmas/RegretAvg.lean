/-
  ICG.Lemmas.RegretAvg — the average strategy of one node (`get_average_strategy`) is a distribution over
  coalition ids, zero on non-viable and on already revealed coalitions.
-/
import ICG.Model.Regret
import ICG.Lemmas.Regret
import ICG.Lemmas.RegretNode
import ICG.Lemmas.RegretIter

set_option linter.unusedSectionVars false

namespace ICG.Regret
open ICG

/-- the player-id map lists `0 .. m-1` in order on the viable coalitions (−1 elsewhere) -/
def PidMapOK (pm : List Int) (m : Nat) : Prop :=
  pm.filter (fun p => decide (0 ≤ p)) = (List.range m).map Int.ofNat

theorem pidMapOK_3 : PidMapOK (coalitionPlayerIdMap 3) (numCoalitions 3) := by unfold PidMapOK; decide +kernel
theorem pidMapOK_4 : PidMapOK (coalitionPlayerIdMap 4) (numCoalitions 4) := by unfold PidMapOK; decide +kernel
theorem pidMapOK_5 : PidMapOK (coalitionPlayerIdMap 5) (numCoalitions 5) := by unfold PidMapOK; decide +kernel

theorem getIdx_ok {β} {l : List β} {i : Nat} (h : i < l.length) : getIdx l i = .ok l[i] := by
  unfold getIdx; simp [h]

theorem getIdx_eq_ok {β} {l : List β} {i : Nat} {x : β} (h : getIdx l i = .ok x) :
    ∃ hi : i < l.length, l[i] = x := by
  unfold getIdx at h
  cases hl : l[i]? with
  | none => simp [hl] at h
  | some y =>
    simp only [hl, Except.ok.injEq] at h
    obtain ⟨hi, hy⟩ := List.getElem?_eq_some_iff.mp hl
    exact ⟨hi, hy.trans h⟩

/-- `mapM` of a function that succeeds on every element -/
theorem mapM_ok {β γ} {f : β → Except Err γ} {g : β → γ} :
    ∀ (l : List β), (∀ x ∈ l, f x = .ok (g x)) → l.mapM f = .ok (l.map g)
  | [], _ => by simp [pure, Except.pure]
  | x :: xs, h => by
    rw [List.mapM_cons, h x List.mem_cons_self, mapM_ok xs (fun y hy => h y (List.mem_cons_of_mem _ hy))]
    rfl

theorem ok_bind {ε β γ} (a : β) (f : β → Except ε γ) : (Except.ok a >>= f) = f a := rfl

section avg
variable {α : Type} [Field α] [LinearOrder α] [IsStrictOrderedRing α]

/-- the masked re-indexing `cum[coalitions_to_player_ids] * (… > -0.5)` -/
theorem coals_eq {pm : List Int} {m : Nat} {cum : List α} (hpm : PidMapOK pm m) (hlen : cum.length = m)
    (hm : 0 < m) :
    pm.mapM (fun p => if p < 0 then (if cum.isEmpty then Except.error Err.index else pure (0 : α))
                      else getIdx cum p.toNat)
      = .ok (pm.map (fun p => if p < 0 then (0 : α) else cum.getD p.toNat 0)) := by
  apply mapM_ok
  intro p hp
  by_cases hneg : p < 0
  · have : cum.isEmpty = false := by
      cases cum with
      | nil => simp at hlen; omega
      | cons _ _ => rfl
    simp [hneg, this, pure, Except.pure]
  · simp only [hneg, if_false]
    have hmem : p ∈ pm.filter (fun p => decide (0 ≤ p)) := by
      rw [List.mem_filter]; exact ⟨hp, by simpa using (by omega : 0 ≤ p)⟩
    unfold PidMapOK at hpm
    rw [hpm, List.mem_map] at hmem
    obtain ⟨i, hi, hip⟩ := hmem
    rw [List.mem_range] at hi
    have hi' : p.toNat < cum.length := by rw [← hip, hlen]; simpa using hi
    rw [getIdx_ok hi']
    simp [List.getD_eq_getElem?_getD, hi']

/-- **average strategy of one node.**  Given the cumulative-strategy row of the node — entries ≥ 0, zero
    on the revealed coalitions — and an unrevealed viable coalition, `get_average_strategy` succeeds and
    returns a probability distribution over coalition ids that is zero on non-viable ids and on the
    coalitions already revealed at the node. -/
theorem averageStrategy_distribution {rm : RM α} {cs : List Nat} {mc rank : Nat} {row : List α}
    (hid : rm.getMetacoalitionId cs = .ok mc) (hrank : rm.rankOf mc = .ok rank)
    (hrow : getIdx rm.strategy rank = .ok row)
    (hlen : row.length = rm.m) (hnn : ∀ x ∈ row, 0 ≤ x)
    (hsupp : ∀ a ∈ players mc, row[a]? = some 0)
    (hused : ∀ a ∈ players mc, a < rm.m) (hfree : ∃ j, j < rm.m ∧ j ∉ players mc)
    (hpm : PidMapOK rm.pidMap rm.m) :
    ∃ avg, rm.averageStrategy cs = .ok avg ∧ avg.length = rm.pidMap.length ∧ (∀ x ∈ avg, 0 ≤ x) ∧
      avg.sum = 1 ∧
      ∀ c (hc : c < rm.pidMap.length), (rm.pidMap[c] < 0 ∨ rm.pidMap[c].toNat ∈ players mc) →
        avg[c]? = some 0 := by
  obtain ⟨j, hjm, hju⟩ := hfree
  have hm : 0 < rm.m := by omega
  -- the vector that is normalised, in both branches
  obtain ⟨cum, hcum, hclen, hcnn, hcpos, hczero⟩ :
      ∃ cum : List α,
        (if row.all (fun x => decide (x = 0)) then onesWithout rm.m (players mc) else pure row) = .ok cum ∧
        cum.length = rm.m ∧ (∀ x ∈ cum, 0 ≤ x) ∧ (∃ i, i < rm.m ∧ 0 < cum.getD i 0) ∧
        ∀ a ∈ players mc, cum.getD a 0 = 0 := by
    by_cases hall : row.all (fun x => decide (x = 0)) = true
    · refine ⟨_, by rw [if_pos hall, onesWithout_ok hused], by simp, ?_, ⟨j, hjm, ?_⟩, ?_⟩
      · intro x hx; rw [List.mem_map] at hx; obtain ⟨i, _, rfl⟩ := hx
        split <;> [exact le_refl _; exact zero_le_one]
      · simp [List.getD_eq_getElem?_getD, hjm, hju]
      · intro a ha; simp [List.getD_eq_getElem?_getD, hused a ha, ha]
    · refine ⟨row, by rw [if_neg hall]; rfl, hlen, hnn, ?_, ?_⟩
      · simp only [List.all_eq_true, decide_eq_true_eq, not_forall] at hall
        obtain ⟨x, hx, hx0⟩ := hall
        obtain ⟨i, hi, rfl⟩ := List.getElem_of_mem hx
        refine ⟨i, by omega, ?_⟩
        simp only [List.getD_eq_getElem?_getD, List.getElem?_eq_getElem hi, Option.getD_some]
        exact lt_of_le_of_ne (hnn _ hx) (Ne.symm hx0)
      · intro a ha; simp [List.getD_eq_getElem?_getD, hsupp a ha]
  set coals : List α := rm.pidMap.map (fun p => if p < 0 then (0 : α) else cum.getD p.toNat 0) with hcoals
  have hcnn' : ∀ x ∈ coals, 0 ≤ x := by
    intro x hx; rw [hcoals, List.mem_map] at hx; obtain ⟨p, _, rfl⟩ := hx
    split
    · exact le_refl _
    · rw [List.getD_eq_getElem?_getD]
      cases h : cum[p.toNat]? with
      | none => simp
      | some y => simpa using hcnn y (List.mem_of_getElem? h)
  have hcpos' : ∃ x ∈ coals, 0 < x := by
    obtain ⟨i, him, hi0⟩ := hcpos
    have hmem : Int.ofNat i ∈ rm.pidMap := by
      have : Int.ofNat i ∈ rm.pidMap.filter (fun p => decide (0 ≤ p)) := by
        unfold PidMapOK at hpm
        rw [hpm, List.mem_map]; exact ⟨i, List.mem_range.mpr him, rfl⟩
      exact (List.mem_filter.mp this).1
    refine ⟨cum.getD i 0, ?_, hi0⟩
    rw [hcoals, List.mem_map]
    exact ⟨Int.ofNat i, hmem, by simp⟩
  obtain ⟨avg, hok, havg, hs, hl, hnn', hsum⟩ := normalize_distribution hcnn' hcpos'
  refine ⟨avg, ?_, by rw [hl, hcoals]; simp, hnn', hsum, ?_⟩
  · unfold RM.averageStrategy
    rw [hid, ok_bind, hrank, ok_bind, hrow, ok_bind, hcum, ok_bind, coals_eq hpm hclen hm, ok_bind]
    exact hok
  · intro c hc hcase
    rw [havg, hcoals, List.getElem?_map, List.getElem?_map, List.getElem?_eq_getElem hc]
    simp only [Option.map_some]
    rcases hcase with hneg | hmem
    · rw [if_pos hneg, zero_div]
    · by_cases hneg : rm.pidMap[c] < 0
      · rw [if_pos hneg, zero_div]
      · rw [if_neg hneg, hczero _ hmem, zero_div]

end avg

section nodeupdate
variable {α : Type} [Field α] [LinearOrder α] [IsStrictOrderedRing α]

/-- regret matching at a node of the object (`regret_matching_strategy(int)`) -/
theorem node_strategy {rm : RM α} {mc i : Nat} {row : List α}
    (hrank : rm.rankOf mc = .ok i) (hrow : getIdx rm.regret i = .ok row) (hlen : row.length = rm.m)
    (hused : ∀ a ∈ players mc, a < rm.m) (hneg : ∀ a ∈ players mc, ∀ h : a < row.length, row[a] ≤ 0)
    (hfree : ∃ j, j < rm.m ∧ j ∉ players mc) :
    ∃ σ, rm.regretMatching mc = .ok σ ∧ σ.length = rm.m ∧ (∀ x ∈ σ, 0 ≤ x) ∧ σ.sum = 1 ∧
      ∀ a ∈ players mc, σ[a]? = some 0 := by
  obtain ⟨σ, h, rest⟩ := regretMatchingRow_distribution hlen hused hneg hfree
  refine ⟨σ, ?_, rest⟩
  unfold RM.regretMatching
  rw [hrank, ok_bind, hrow, ok_bind]
  exact h

/-- **one node, one iteration.**  `row` the cumulative regret, `σ` the strategy played (a distribution),
    `q` the q-values (≥ 0, and 0 on the revealed coalitions `used` — those entries are never assigned),
    `e = Σ q σ` the experienced loss.  The new row `row + (q − e)`: stays ≤ 0 on `used`; differs from the
    old one by a vector orthogonal to `σ`; and after plus-clipping is ≥ 0 everywhere and still ≤ 0
    (i.e. = 0) on `used`. -/
theorem node_update {m : Nat} {row σ q : List α} {used : List Nat}
    (hrow : row.length = m) (hσ : σ.length = m) (hq : q.length = m)
    (hσnn : ∀ x ∈ σ, 0 ≤ x) (hσ1 : σ.sum = 1) (hqnn : ∀ x ∈ q, 0 ≤ x)
    (hq0 : ∀ a ∈ used, ∀ h : a < q.length, q[a] = 0)
    (hneg : ∀ a ∈ used, ∀ h : a < row.length, row[a] ≤ 0) :
    let e := listSum (List.zipWith (· * ·) q σ)
    let new := List.zipWith (fun r q => r + (q - e)) row q
    new.length = m ∧
    (∀ a ∈ used, ∀ h : a < new.length, new[a] ≤ 0) ∧
    (List.zipWith (· * ·) σ (List.zipWith (fun r' r => r' - r) new row)).sum = 0 ∧
    (∀ x ∈ new.map posPart, 0 ≤ x) ∧
    (∀ a ∈ used, ∀ h : a < (new.map posPart).length, (new.map posPart)[a] ≤ 0) := by
  intro e new
  have he : 0 ≤ e := by
    show 0 ≤ listSum _
    rw [listSum_eq_sum]; exact dot_nonneg q σ hqnn hσnn
  have hnewlen : new.length = m := by simp [new, hrow, hq]
  have hused : ∀ a ∈ used, ∀ h : a < new.length, new[a] ≤ 0 := by
    intro a ha h
    have h1 : a < row.length := by omega
    have h2 : a < q.length := by omega
    show (List.zipWith (fun r q => r + (q - e)) row q)[a] ≤ 0
    rw [List.getElem_zipWith, hq0 a ha h2]
    exact used_regret_nonpos (hneg a ha h1) he
  refine ⟨hnewlen, hused, ?_, ?_, ?_⟩
  · show (List.zipWith (· * ·) σ (List.zipWith (fun r' r => r' - r)
        (List.zipWith (fun r q => r + (q - e)) row q) row)).sum = 0
    rw [regret_update_sub row q e (by omega)]
    exact update_orthogonal (by omega) hσ1
  · intro x hx
    rw [List.mem_map] at hx
    obtain ⟨y, _, rfl⟩ := hx
    exact posPart_nonneg y
  · intro a ha h
    have h' : a < new.length := by simpa using h
    rw [List.getElem_map, posPart_of_nonpos (hused a ha h')]

end nodeupdate

/-! ### which nodes have a regret minimiser -/

/-- the ranking for a smaller limit is a prefix of the ranking for a larger one -/
theorem metaIds_prefix {m k limit : Nat} (hk : k ≤ min m limit) :
    ∃ rest, metaIds m limit = metaIds m k ++ rest := by
  unfold metaIds
  have h1 : min m k = k := by omega
  obtain ⟨d, hd⟩ : ∃ d, min m limit + 1 = (k + 1) + d := ⟨min m limit - k, by omega⟩
  rw [h1, hd, List.range_add, List.flatMap_append]
  exact ⟨_, rfl⟩

/-- ranks below `coalitions_up_to(m, k)` (k ≤ min m limit) hold the coalition sets of size ≤ k -/
theorem size_of_rank_lt {m k limit i : Nat} (hk : k ≤ min m limit) (hi : i < coalitionsUpTo m k)
    (h : i < (metaIds m limit).length) :
    (metaIds m limit)[i] < 2 ^ m ∧ size (metaIds m limit)[i] ≤ k := by
  obtain ⟨rest, hrest⟩ := metaIds_prefix hk
  have hlen : (metaIds m k).length = coalitionsUpTo m k := by
    rw [length_metaIds]; congr 1; omega
  have hi' : i < (metaIds m k).length := by omega
  have : (metaIds m limit)[i] = (metaIds m k)[i] := by
    simp only [hrest]
    rw [List.getElem_append_left hi']
  rw [this]
  have hmem := List.getElem_mem hi'
  rw [mem_metaIds] at hmem
  exact ⟨hmem.1, by omega⟩

/-- a set of fewer than `m` of the `m` viable coalitions leaves one unused -/
theorem exists_unused {m c : Nat} (_hc : c < 2 ^ m) (hs : size c < m) : ∃ j, j < m ∧ j ∉ players c := by
  by_contra hcon
  push Not at hcon
  have hsub : List.range m ⊆ players c := fun j hj => hcon j (List.mem_range.mp hj)
  have := List.Nodup.length_le_of_subset List.nodup_range hsub
  rw [List.length_range, ← size_eq_length_players] at this
  omega

/-- **with the stored limit clipped to `m` (and ≥ 1) every node that has a regret minimiser has an unused
    viable coalition** — the hypothesis of `strategy_distribution` — and its coalitions are `< m`. -/
theorem minimiser_nodes_have_unused {α : Type} [Zero α] {p : Policy} {n limit : Nat} {plus : Bool} {rm : RM α}
    (hn : 2 ≤ n) (h : RM.new (α := α) p n limit plus = .ok rm)
    (hst : p.storedLimit (numCoalitions n) limit ≤ min (numCoalitions n) limit) :
    ∀ i (hi : i < rm.rankToId.length), i < rm.R →
      (∀ a ∈ players rm.rankToId[i], a < rm.m) ∧ ∃ j, j < rm.m ∧ j ∉ players rm.rankToId[i] := by
  obtain ⟨_, h2, h3, _, h5, _, _, h8, _⟩ := new_spec hn h
  intro i hi hiR
  rw [h8] at hiR
  unfold coalitionsBelow at hiR
  split at hiR
  · omega
  · rename_i hL
    have hk : rm.limit - 1 ≤ min rm.m limit := by rw [h3, h2]; omega
    have hi' : i < (metaIds rm.m limit).length := by rw [h2, ← h5]; exact hi
    have key := size_of_rank_lt hk hiR hi'
    have heq : rm.rankToId[i] = (metaIds rm.m limit)[i] := by simp only [h5, h2]
    rw [heq]
    have hLm : rm.limit ≤ rm.m := by rw [h3, h2]; omega
    have hsz : size (metaIds rm.m limit)[i] < rm.m := by have := key.2; omega
    refine ⟨?_, exists_unused key.1 hsz⟩
    intro a ha
    rw [mem_players] at ha
    by_contra hcon
    have := (lt_two_pow_iff_testBit.mp key.1) a (by omega)
    simp [ha] at this

/-- there are at most as many regret minimisers as ranks when the stored limit is clipped -/
theorem R_le_V {α : Type} [Zero α] {p : Policy} {n limit : Nat} {plus : Bool} {rm : RM α}
    (hn : 2 ≤ n) (h : RM.new (α := α) p n limit plus = .ok rm)
    (hst : p.storedLimit (numCoalitions n) limit ≤ min (numCoalitions n) limit) :
    rm.R ≤ rm.rankToId.length := by
  obtain ⟨_, h2, h3, _, h5, _, _, h8, _⟩ := new_spec hn h
  rw [h8]
  unfold coalitionsBelow
  split
  · omega
  · rename_i hL
    have hk : rm.limit - 1 ≤ min rm.m limit := by rw [h3, h2]; omega
    obtain ⟨rest, hrest⟩ := metaIds_prefix hk
    have hlen : (metaIds rm.m (rm.limit - 1)).length = coalitionsUpTo rm.m (rm.limit - 1) := by
      rw [length_metaIds]; congr 1; omega
    rw [h5, ← h2, hrest, List.length_append, hlen]
    omega

end ICG.Regret
