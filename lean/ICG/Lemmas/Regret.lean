/-
  ICG.Lemmas.Regret — lemmas behind property C14 (the regret minimiser, ICG.Model.Regret).
-/
import ICG.Model.Regret
import ICG.Lemmas.Enum
import Mathlib.Data.List.Sublists
import Mathlib.Data.List.Sort
import Mathlib.Data.Nat.Choose.Basic
import Mathlib.Algebra.Group.Defs
import Mathlib.Algebra.Group.Nat.Defs

namespace ICG.Regret
open ICG

/-! ### ranking -/

/-- a strictly increasing list of numbers `< m` is a sublist of `range m` -/
theorem sublist_range_of_pairwise {s : List Nat} {m : Nat} (hs : s.Pairwise (· < ·)) (hm : ∀ i ∈ s, i < m) :
    s.Sublist (List.range m) := by
  have : s = (List.range m).filter (fun i => decide (i ∈ s)) := by
    apply hs.eq_of_mem_iff ((List.pairwise_lt_range).filter _)
    intro a
    simp only [List.mem_filter, List.mem_range, decide_eq_true_eq]
    exact ⟨fun h => ⟨hm a h, h⟩, fun h => h.2⟩
  rw [this]
  exact List.filter_sublist

theorem sublist_range_iff {s : List Nat} {m : Nat} :
    s.Sublist (List.range m) ↔ s.Pairwise (· < ·) ∧ ∀ i ∈ s, i < m :=
  ⟨fun h => ⟨(List.pairwise_lt_range).sublist h, fun _ hi => List.mem_range.mp (h.subset hi)⟩,
   fun h => sublist_range_of_pairwise h.1 h.2⟩

/-- the block of size `k`: exactly the masks below `2^m` with `k` bits -/
theorem mem_block {m k x : Nat} :
    x ∈ (combos k (List.range m)).map fromPlayers ↔ x < 2 ^ m ∧ size x = k := by
  simp only [List.mem_map, mem_combos, sublist_range_iff]
  constructor
  · rintro ⟨s, ⟨⟨hs, hm⟩, hk⟩, rfl⟩
    refine ⟨?_, ?_⟩
    · rw [lt_two_pow_iff_testBit]
      intro i hi
      cases h : (fromPlayers s).testBit i
      · rfl
      · have := hm i (testBit_fromPlayers_iff.mp h); omega
    · rw [size_eq_length_players, players_fromPlayers hs, hk]
  · rintro ⟨hx, hk⟩
    refine ⟨players x, ⟨⟨players_pairwise x, ?_⟩, ?_⟩, fromPlayers_players x⟩
    · intro i hi
      rw [mem_players] at hi
      by_contra hcon
      have := (lt_two_pow_iff_testBit.mp hx) i (by omega)
      simp [hi] at this
    · rw [← size_eq_length_players, hk]

theorem block_nodup (m k : Nat) : ((combos k (List.range m)).map fromPlayers).Nodup := by
  apply List.Nodup.map_on _ (combos_nodup List.nodup_range)
  intro s hs t ht heq
  rw [mem_combos, sublist_range_iff] at hs ht
  rw [← players_fromPlayers hs.1.1, ← players_fromPlayers ht.1.1, heq]

theorem mem_metaIds {m limit x : Nat} :
    x ∈ metaIds m limit ↔ x < 2 ^ m ∧ size x ≤ min limit m := by
  unfold metaIds
  simp only [List.mem_flatMap, List.mem_range, mem_block]
  constructor
  · rintro ⟨k, hk, hx, rfl⟩; exact ⟨hx, by omega⟩
  · rintro ⟨hx, hs⟩; exact ⟨size x, by omega, hx, rfl⟩

theorem metaIds_nodup (m limit : Nat) : (metaIds m limit).Nodup := by
  unfold metaIds
  rw [List.nodup_flatMap]
  refine ⟨fun k _ => block_nodup m k, ?_⟩
  refine List.Pairwise.imp_of_mem ?_ (List.nodup_range (n := min m limit + 1))
  intro a b _ _ hab x hxa hxb
  rw [mem_block] at hxa hxb
  exact hab (hxa.2.symm.trans hxb.2)

theorem metaIds_sorted (m limit : Nat) : (metaIds m limit).Pairwise (fun a b => size a ≤ size b) := by
  unfold metaIds
  rw [List.pairwise_flatMap]
  constructor
  · intro k _
    rw [List.pairwise_iff_forall_sublist]
    intro a b hab
    have ha := hab.subset (List.mem_cons_self)
    have hb := hab.subset (List.mem_cons_of_mem _ List.mem_cons_self)
    rw [mem_block] at ha hb
    omega
  · refine List.Pairwise.imp ?_ (List.pairwise_lt_range (n := min m limit + 1))
    intro a b hab x hx y hy
    rw [mem_block] at hx hy
    omega

/-! ### counting -/

theorem foldl_add_eq {α} [AddMonoid α] : ∀ (l : List α) (a : α), l.foldl (· + ·) a = a + l.sum
  | [], a => by simp
  | x :: xs, a => by simp [foldl_add_eq xs, add_assoc]

theorem listSum_eq_sum {α} [AddMonoid α] (l : List α) : listSum l = l.sum := by
  unfold listSum
  rw [foldl_add_eq, zero_add]

theorem binom_eq_choose : ∀ n k, binom n k = Nat.choose n k
  | _, 0 => by simp [binom]
  | 0, k + 1 => by simp [binom]
  | n + 1, k + 1 => by
    simp [binom, Nat.choose_succ_succ, binom_eq_choose n k, binom_eq_choose n (k + 1)]

theorem length_combos {β} (k : Nat) (l : List β) : (combos k l).length = Nat.choose l.length k := by
  rw [(combos_perm k l).length_eq, List.length_sublistsLen]

theorem coalitionsUpTo_eq (m k : Nat) : coalitionsUpTo m k = ((List.range (k + 1)).map (Nat.choose m)).sum := by
  unfold coalitionsUpTo
  rw [listSum_eq_sum]
  congr 1
  apply List.map_congr_left
  intro a _
  exact binom_eq_choose m a

theorem length_metaIds (m limit : Nat) : (metaIds m limit).length = coalitionsUpTo m (min m limit) := by
  rw [coalitionsUpTo_eq]
  unfold metaIds
  rw [List.length_flatMap]
  congr 1
  apply List.map_congr_left
  intro a _
  rw [List.length_map, length_combos, List.length_range]

/-- `np.fromiter(.., count=..)` gets exactly as many ids as it asks for -/
theorem metaIdsArr_eq (m limit : Nat) : metaIdsArr m limit = .ok (metaIds m limit) := by
  unfold metaIdsArr
  simp only [length_metaIds, Nat.lt_irrefl, if_false]
  rw [← length_metaIds, List.take_length]

/-! ### the id → rank table as allocated -/

theorem fillTable_ok_iff {len : Nat} {ids : List Nat} :
    (∃ t, fillTable len ids = .ok t) ↔ ∀ id ∈ ids, id < len := by
  unfold fillTable
  by_cases h : ids.all (· < len) = true
  · simp only [h, if_true]
    simp only [List.all_eq_true, decide_eq_true_eq] at h
    exact ⟨fun _ => h, fun _ => ⟨_, rfl⟩⟩
  · simp only [h]
    simp only [List.all_eq_true, decide_eq_true_eq] at h
    constructor
    · rintro ⟨t, ht⟩; simp at ht
    · intro h'; exact absurd h' h

theorem fillTable_error_iff {len : Nat} {ids : List Nat} :
    fillTable len ids = .error .index ↔ ∃ id ∈ ids, len ≤ id := by
  unfold fillTable
  by_cases h : ids.all (· < len) = true
  · simp only [h, if_true]
    simp only [List.all_eq_true, decide_eq_true_eq] at h
    constructor
    · intro h'; simp at h'
    · rintro ⟨id, hid, hle⟩; have := h id hid; omega
  · simp only [h]
    simp only [List.all_eq_true, decide_eq_true_eq, not_forall, Nat.not_lt] at h
    obtain ⟨id, hid, hle⟩ := h
    exact ⟨fun _ => ⟨id, hid, hle⟩, fun _ => by simp⟩

/-- the fill loop, started at rank `k` -/
def fillFrom (a : Array Nat) (k : Nat) (ids : List Nat) : Array Nat :=
  (ids.zipIdx k).foldl (fun a p => a.setIfInBounds p.1 p.2) a

theorem fillFrom_cons (a : Array Nat) (k x : Nat) (xs : List Nat) :
    fillFrom a k (x :: xs) = fillFrom (a.setIfInBounds x k) (k + 1) xs := by
  simp [fillFrom, List.zipIdx_cons]

theorem size_fillFrom : ∀ (ids : List Nat) (a : Array Nat) (k : Nat), (fillFrom a k ids).size = a.size
  | [], a, k => by simp [fillFrom]
  | x :: xs, a, k => by rw [fillFrom_cons, size_fillFrom xs]; simp

theorem fillFrom_not_mem : ∀ (ids : List Nat) (a : Array Nat) (k y : Nat), y ∉ ids →
    (fillFrom a k ids)[y]? = a[y]?
  | [], a, k, y, _ => by simp [fillFrom]
  | x :: xs, a, k, y, h => by
    rw [fillFrom_cons, fillFrom_not_mem xs _ _ y (fun hm => h (List.mem_cons_of_mem _ hm))]
    have : x ≠ y := fun e => h (e ▸ List.mem_cons_self)
    simp [this]

theorem fillFrom_get : ∀ (ids : List Nat) (a : Array Nat) (k r : Nat) (hr : r < ids.length),
    ids.Nodup → ids[r] < a.size → (fillFrom a k ids)[ids[r]]? = some (k + r)
  | x :: xs, a, k, 0, _, hn, hlt => by
    rw [fillFrom_cons, List.getElem_cons_zero, fillFrom_not_mem xs _ _ x (List.nodup_cons.mp hn).1]
    simp only [List.getElem_cons_zero] at hlt
    simp [hlt]
  | x :: xs, a, k, r + 1, hr, hn, hlt => by
    rw [fillFrom_cons]
    simp only [List.getElem_cons_succ] at hlt ⊢
    rw [fillFrom_get xs _ (k + 1) r (by simpa using hr) (List.nodup_cons.mp hn).2 (by simpa using hlt)]
    congr 1; omega

/-- a successful fill inverts a duplicate-free id list -/
theorem fillTable_get {len : Nat} {ids : List Nat} {t : Array Nat} (h : fillTable len ids = .ok t)
    (hn : ids.Nodup) : t.size = len ∧ ∀ r (hr : r < ids.length), t[ids[r]]? = some r := by
  have hall : ∀ id ∈ ids, id < len := fillTable_ok_iff.mp ⟨t, h⟩
  unfold fillTable at h
  have hall' : ids.all (· < len) = true := by simpa using hall
  simp only [hall', if_true, Except.ok.injEq] at h
  have ht : t = fillFrom (Array.replicate len 0) 0 ids := by rw [← h]; simp [fillFrom]
  subst ht
  refine ⟨by rw [size_fillFrom]; simp, fun r hr => ?_⟩
  have := fillFrom_get ids (Array.replicate len 0) 0 r hr hn (by simpa using hall _ (List.getElem_mem hr))
  simpa using this

/-! ### the constructor -/

section ctor
variable {α : Type} [Zero α]

/-- the constructor, spelled out: the only step that can fail for `n ≥ 2` is the table fill -/
theorem new_eq (p : Policy) {n : Nat} (hn : 2 ≤ n) (limit : Nat) (plus : Bool) :
    RM.new (α := α) p n limit plus =
      (fillTable (p.tableLen (metaIds (numCoalitions n) limit)) (metaIds (numCoalitions n) limit)).map
        (fun table =>
          { n := n, m := numCoalitions n, limit := p.storedLimit (numCoalitions n) limit, plus := plus,
            rankToId := metaIds (numCoalitions n) limit, idToRank := table,
            R := coalitionsBelow (numCoalitions n) (p.storedLimit (numCoalitions n) limit),
            pidMap := coalitionPlayerIdMap n,
            regret := zeros2 (coalitionsBelow (numCoalitions n) (p.storedLimit (numCoalitions n) limit)) (numCoalitions n),
            strategy := zeros2 (coalitionsBelow (numCoalitions n) (p.storedLimit (numCoalitions n) limit)) (numCoalitions n),
            iteration := 0 }) := by
  unfold RM.new
  have : ¬ n < 2 := by omega
  simp only [this, if_false, metaIdsArr_eq, bind, Except.bind]
  cases fillTable (p.tableLen (metaIds (numCoalitions n) limit)) (metaIds (numCoalitions n) limit) <;> rfl

theorem new_ok_iff (p : Policy) {n : Nat} (hn : 2 ≤ n) (limit : Nat) (plus : Bool) :
    (∃ rm, RM.new (α := α) p n limit plus = .ok rm) ↔
      ∀ id ∈ metaIds (numCoalitions n) limit, id < p.tableLen (metaIds (numCoalitions n) limit) := by
  rw [new_eq p hn, ← fillTable_ok_iff]
  cases fillTable (p.tableLen (metaIds (numCoalitions n) limit)) (metaIds (numCoalitions n) limit) <;>
    simp [Except.map]

theorem new_error_iff (p : Policy) {n : Nat} (hn : 2 ≤ n) (limit : Nat) (plus : Bool) :
    RM.new (α := α) p n limit plus = .error .index ↔
      ∃ id ∈ metaIds (numCoalitions n) limit, p.tableLen (metaIds (numCoalitions n) limit) ≤ id := by
  rw [new_eq p hn, ← fillTable_error_iff]
  cases fillTable (p.tableLen (metaIds (numCoalitions n) limit)) (metaIds (numCoalitions n) limit) <;>
    simp [Except.map]

/-- what a successful construction built -/
theorem new_spec {p : Policy} {n limit : Nat} {plus : Bool} {rm : RM α} (hn : 2 ≤ n)
    (h : RM.new (α := α) p n limit plus = .ok rm) :
    rm.n = n ∧ rm.m = numCoalitions n ∧ rm.limit = p.storedLimit (numCoalitions n) limit ∧ rm.plus = plus ∧
    rm.rankToId = metaIds (numCoalitions n) limit ∧
    rm.idToRank.size = p.tableLen (metaIds (numCoalitions n) limit) ∧
    (∀ r (hr : r < rm.rankToId.length), rm.rankOf rm.rankToId[r] = .ok r) ∧
    rm.R = coalitionsBelow rm.m rm.limit ∧ rm.pidMap = coalitionPlayerIdMap n ∧
    rm.regret = zeros2 rm.R rm.m ∧ rm.strategy = zeros2 rm.R rm.m ∧ rm.iteration = 0 := by
  rw [new_eq p hn] at h
  cases hf : fillTable (p.tableLen (metaIds (numCoalitions n) limit)) (metaIds (numCoalitions n) limit) with
  | error e => rw [hf] at h; simp [Except.map] at h
  | ok t =>
    rw [hf] at h
    simp only [Except.map, Except.ok.injEq] at h
    subst h
    obtain ⟨hs, hg⟩ := fillTable_get hf (metaIds_nodup _ _)
    refine ⟨rfl, rfl, rfl, rfl, rfl, hs, ?_, rfl, rfl, rfl, rfl, rfl⟩
    intro r hr
    simp only [RM.rankOf]
    rw [hg r hr]

end ctor

end ICG.Regret
