/-
  ICG.Lemmas.RefineCheck — the refinement theorems specialise to the executable model instantiated with
  the *core* `Int` / `Rat` instances (the ones the driver runs), and `#print axioms` of the main theorems.
-/
import ICG.Lemmas.RefineCor
import Mathlib.Data.Int.Order.Basic
import Mathlib.Algebra.Order.Ring.Unbundled.Rat

namespace ICG.RefineCheck
open ICG ICG.Refine Table

/-- `sa_eq_spec` at the model instantiated with core `Int` instances -/
example (E : EnumFacts) (t : Table Int) (hmin : MinInfo t.n t.known) (hinv : t.Inv) :
    ∃ t', @sa Int Int.instAdd Int.instSub Int.instMax Int.instMin t = .ok t' ∧ t'.n = t.n ∧
      t'.known = t.known ∧
      (∀ c, c < 2 ^ t.n →
        t'.lo c = @loSpec Int Int.instAdd Int.instMax t.known t.lo c ∧
        t'.hi c = @upSpec Int Int.instAdd Int.instSub Int.instMax Int.instMin t.n t.known t.lo c) ∧
      (∀ c, 2 ^ t.n ≤ c → t'.lo c = t.lo c ∧ t'.hi c = t.hi c) :=
  sa_eq_spec E t hmin hinv

/-- `sam_eq_spec` at the model instantiated with core `Rat` instances -/
example (E : EnumFacts) (r : Nat) (t : Table Rat) (hmin : MinInfo t.n t.known) (hinv : t.Inv) :
    ∃ t', @sam Rat Rat.instAdd Rat.instSub Rat.instMax Rat.instMin r t = .ok t' ∧ t'.n = t.n ∧
      t'.known = t.known ∧
      (∀ c, c < 2 ^ t.n →
        t'.lo c = @samB Rat Rat.instAdd Rat.instMax t.n t.known t.lo r c ∧
        t'.hi c = @samUp Rat Rat.instAdd Rat.instSub Rat.instMax Rat.instMin t.n t.known t.lo r c) ∧
      (∀ c, 2 ^ t.n ≤ c → t'.lo c = t.lo c ∧ t'.hi c = t.hi c) :=
  sam_eq_spec E r t hmin hinv

/-- the hypotheses are satisfiable by a non-trivial table: 3 players, coalitions {0,1}, {0,2}, {1,2}
    unknown and holding stale values -/
def demo : Table Int :=
  { n := 3
    known := fun c => c == 0 || c == 1 || c == 2 || c == 4 || c == 7
    lo := fun c => if c == 7 then 10 else if c == 1 then 1 else if c == 2 then 2 else if c == 4 then 3
                   else if c == 0 then 0 else 99
    hi := fun c => if c == 7 then 10 else if c == 1 then 1 else if c == 2 then 2 else if c == 4 then 3
                   else if c == 0 then 0 else -99 }

example : MinInfo demo.n demo.known := by
  refine ⟨by decide, by decide, ?_⟩
  intro i hi
  have : i = 0 ∨ i = 1 ∨ i = 2 := by simp only [demo] at hi; omega
  rcases this with rfl | rfl | rfl <;> decide

example : demo.Inv := by
  intro c hc hk
  have hc' : c < 8 := hc
  have : c = 0 ∨ c = 1 ∨ c = 2 ∨ c = 3 ∨ c = 4 ∨ c = 5 ∨ c = 6 ∨ c = 7 := by omega
  rcases this with rfl | rfl | rfl | rfl | rfl | rfl | rfl | rfl <;> first | rfl | (exact absurd hk (by decide))

end ICG.RefineCheck

section axioms
open ICG ICG.Refine
#print axioms sa_eq_spec
#print axioms sac_eq_spec
#print axioms sam_eq_spec
#print axioms sa_core
#print axioms sac_core
#print axioms sam_core
#print axioms sa_defined_iff
#print axioms sac_defined_iff
#print axioms sam_defined_iff
#print axioms order_free
#print axioms order_free'
#print axioms sa_sac_agree
#print axioms compute_eq_spec
#print axioms compute_idempotent
#print axioms compute_knowledge_only
#print axioms compute_output_inv
#print axioms compute_defined_iff
#print axioms loSpec_congr
#print axioms upSpec_congr
#print axioms samB_congr
#print axioms samUp_congr
end axioms
