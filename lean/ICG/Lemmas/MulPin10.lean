/-
  ICG.Lemmas.MulPin10 — FINDING about `compute_max_xos_approximation` for the DEFAULT parameters, decided by the kernel
  (the game and its properties: ICG/Lemmas/MulPin10Game.lean).
-/
import ICG.Lemmas.MulPin10Game
namespace ICG.Mul
open ICG

/-! ### what the approximation does on it -/

set_option maxRecDepth 1000000 in
/-- the approximated game on the coalition {0,2,4,6,8}: `5·4/(4·alpha·beta) = 5/alpha` (cell index r = 4) -/
theorem pin10_approx_341 :
    (maxXos (okGet pin10) 10 alpha0 1 eps0 4100).map (fun r => r.2[341]?) = .ok (some (5 / alpha0)) := by
  decide +kernel

/-- FINDING, default parameters: monotone, subadditive, singletons ≥ 1, `v(∅) = 0` — and the approximated game exceeds
    the game on coalition 341: `5/alpha = 1.3212… > 1.2265625` -/
theorem lower_bound_fails_default_parameters :
    (∀ c i, c < 2 ^ 10 → i < 10 → pin10 c ≤ pin10 (c ||| 2 ^ i)) ∧
    (∀ a b, a < 2 ^ 10 → b < 2 ^ 10 → a &&& b = 0 → pin10 (a ||| b) ≤ pin10 a + pin10 b) ∧
    (∀ p, p < 10 → 1 ≤ pin10 (singleton p)) ∧ pin10 0 = 0 ∧
    ∃ q vals x, maxXos (okGet pin10) 10 alpha0 1 eps0 4100 = .ok (q, vals) ∧ vals[341]? = some x ∧ pin10 341 < x := by
  refine ⟨fun c i => pin10_monotone, fun a b => pin10_subadditive, pin10_singletons.1, pin10_singletons.2, ?_⟩
  have h := pin10_approx_341
  cases hm : maxXos (okGet pin10) 10 alpha0 1 eps0 4100 with
  | error e => rw [hm] at h; cases h
  | ok res =>
    obtain ⟨q, vals⟩ := res
    rw [hm] at h
    simp only [Except.map, Except.ok.injEq] at h
    exact ⟨q, vals, 5 / alpha0, rfl, h, by decide +kernel⟩

/-- the fuel 4100 used above is enough by the termination theorem: `10 < 4100·eps²` -/
example : (10 : Rat) < (4100 : Nat) * eps0 * eps0 := by decide +kernel

end ICG.Mul
