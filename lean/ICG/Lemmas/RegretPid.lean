/-
  ICG.Lemmas.RegretPid — `get_coalition_player_id_map(n)` numbers the `2^n − n − 2` viable coalitions
  `0 .. m-1` in id order, for every `n ≥ 2` (`PidMapOK`, the side condition of the average-strategy
  theorem).
-/
import ICG.Model.Regret
import ICG.Lemmas.Regret
import ICG.Lemmas.RegretAvg
import Mathlib.Data.Nat.Choose.Basic

namespace ICG.Regret
open ICG

/-- the masks below `2^m` with `k` bits: `C(m, k)` many -/
theorem length_filter_size (m k : Nat) :
    ((List.range (2 ^ m)).filter (fun c => size c == k)).length = Nat.choose m k := by
  have hperm : ((List.range (2 ^ m)).filter (fun c => size c == k)).Perm
      ((combos k (List.range m)).map fromPlayers) := by
    apply (List.perm_ext_iff_of_nodup (List.nodup_range.filter _) (block_nodup m k)).mpr
    intro x
    rw [mem_block]
    simp [List.mem_filter, List.mem_range]
  rw [hperm.length_eq, List.length_map, length_combos, List.length_range]

theorem length_filter_three {β} (p q r : β → Bool) (hpq : ∀ x, p x = true → q x = true → False)
    (hpr : ∀ x, p x = true → r x = true → False) (hqr : ∀ x, q x = true → r x = true → False) :
    ∀ (l : List β), (l.filter (fun x => !(p x || q x || r x))).length + (l.filter p).length +
      (l.filter q).length + (l.filter r).length = l.length
  | [] => rfl
  | x :: xs => by
    have ih := length_filter_three p q r hpq hpr hqr xs
    have h1 := hpq x
    have h2 := hpr x
    have h3 := hqr x
    simp only [List.filter_cons, List.length_cons]
    cases hp : p x <;> cases hq : q x <;> cases hr : r x <;> simp_all <;> omega

/-- the viable coalitions (`len(x) not in [0, 1, n]`) -/
def viableCoalitions (n : Nat) : List Nat :=
  (allCoalitions n).filter (fun c => !(size c == 0 || size c == 1 || size c == n))

theorem length_viableCoalitions {n : Nat} (hn : 2 ≤ n) : (viableCoalitions n).length = numCoalitions n := by
  have h := length_filter_three (fun c => size c == 0) (fun c => size c == 1) (fun c => size c == n)
    (by intro x h1 h2; simp only [beq_iff_eq] at h1 h2; omega)
    (by intro x h1 h2; simp only [beq_iff_eq] at h1 h2; omega)
    (by intro x h1 h2; simp only [beq_iff_eq] at h1 h2; omega) (List.range (2 ^ n))
  rw [length_filter_size, length_filter_size, length_filter_size, List.length_range,
    Nat.choose_zero_right, Nat.choose_one_right, Nat.choose_self] at h
  unfold viableCoalitions allCoalitions numCoalitions
  omega

/-- **the coalition → player-id map is as the code intends, for every `n ≥ 2`** -/
theorem pidMapOK_general {n : Nat} (hn : 2 ≤ n) : PidMapOK (coalitionPlayerIdMap n) (numCoalitions n) := by
  unfold PidMapOK coalitionPlayerIdMap
  show ((allCoalitions n).map (fun c => if c ∈ viableCoalitions n then ((viableCoalitions n).idxOf c : Int) else -1)).filter
      (fun p => decide (0 ≤ p)) = _
  rw [List.filter_map]
  have h1 : (allCoalitions n).filter ((fun p : Int => decide (0 ≤ p)) ∘
        (fun c => if c ∈ viableCoalitions n then ((viableCoalitions n).idxOf c : Int) else -1)) =
      viableCoalitions n := by
    unfold viableCoalitions
    apply List.filter_congr
    intro x hx
    by_cases hv : x ∈ (allCoalitions n).filter (fun c => !(size c == 0 || size c == 1 || size c == n))
    · simp only [Function.comp, hv, if_true]
      rw [List.mem_filter] at hv
      rw [hv.2]
      simp
    · simp only [Function.comp, hv, if_false]
      rw [List.mem_filter] at hv
      have : (!(size x == 0 || size x == 1 || size x == n)) = false := by
        cases h : (!(size x == 0 || size x == 1 || size x == n))
        · rfl
        · exact absurd ⟨hx, h⟩ hv
      rw [this]
      decide
  rw [h1]
  have hnd : (viableCoalitions n).Nodup := List.nodup_range.filter _
  apply List.ext_getElem
  · simp [length_viableCoalitions hn]
  · intro i h1 h2
    have hi : i < (viableCoalitions n).length := by simpa using h1
    simp only [List.getElem_map, List.getElem_range]
    rw [if_pos (List.getElem_mem hi), hnd.idxOf_getElem i hi]
    rfl

end ICG.Regret
