/-
  ICG.Lemmas.RefinePass — the three generic passes of the bound computers, each as one application of
  the sweep lemma: whatever the step function is, if it computes the right value from a table whose
  relevant rows are final, the in-place pass over a size-sorted enumeration of the unknown coalitions
  computes the specification — for every content of the rows it overwrites.

  * `splitPass` : lower column, `splitSpec known lo extra`   (sub-coalitions are processed earlier)
  * `closePass` : lower column, `closeSpec n known lo lo`    (supersets are processed later)
  * `hiPass`    : upper column, any row-wise target
-/
import ICG.Lemmas.RefineBase

namespace ICG.Refine
open Table

variable {α : Type}

section passes
variable [Add α] [LinearOrder α]

/-- the split pass: sub-coalitions of the coalition being processed already hold their final value;
    the row itself and row ∅ still hold their initial value. -/
theorem splitPass (E : EnumFacts) (t0 : Table α) (hmin : MinInfo t0.n t0.known)
    (extra : Nat → List α) (order : List Nat) (ho : UnknownOrder t0.n t0.known order)
    (f : Table α → Nat → Except Err α)
    (hf : ∀ (t : Table α) (c : Nat) (L : Nat → α), t.n = t0.n → c < 2 ^ t0.n → t0.known c = false →
      (∀ x, x &&& c = x → x ≠ 0 → x ≠ c → t.lo x = L x) → t.lo c = t0.lo c → t.lo 0 = t0.lo 0 →
      ∃ m, listMax? (extra c ++ (properSubs c).map fun x => L x + L (c - x)) = some m ∧
        f t c = .ok m) :
    ∃ t1, sweepM f putLo order t0 = .ok t1 ∧ t1.n = t0.n ∧ t1.known = t0.known ∧ t1.hi = t0.hi ∧
      ∀ c, t1.lo c = if c < 2 ^ t0.n then splitSpec t0.known t0.lo extra c else t0.lo c := by
  obtain ⟨t1, h1, h2, h3, h4, h5⟩ := sweepM_putLo f order t0 (splitSpec t0.known t0.lo extra) (by
    intro pre c post t hsplit hn _ _ hlo
    obtain ⟨hc, hk⟩ := (ho.mem c).mp (ho.cur_mem hsplit)
    have hsub : ∀ x, x &&& c = x → x ≠ 0 → x ≠ c → t.lo x = splitSpec t0.known t0.lo extra x := by
      intro x hx _ hxc
      rw [hlo x]
      cases hkx : t0.known x with
      | true =>
        have : x ∉ pre := fun hp => by
          have := ((ho.mem x).mp (ho.pre_sub hsplit hp)).2
          rw [hkx] at this; cases this
        rw [if_neg this, splitSpec_known hkx]
      | false =>
        have hxo : x ∈ order := (ho.mem x).mpr ⟨sub_lt_two_pow hx hc, hkx⟩
        rw [if_pos (ho.smaller_mem_pre hsplit hxo (E.size_lt x c hx hxc))]
    have hself : t.lo c = t0.lo c := by rw [hlo c, if_neg (ho.self_not_mem_pre hsplit)]
    have hzero : t.lo 0 = t0.lo 0 := by
      rw [hlo 0, if_neg]
      intro hp
      have := ((ho.mem 0).mp (ho.pre_sub hsplit hp)).2
      rw [hmin.1] at this; cases this
    obtain ⟨m, hm, hfm⟩ := hf t c _ hn hc hk hsub hself hzero
    rw [hfm, splitSpec_unknown hk hm])
  refine ⟨t1, h1, h2, h3, h4, ?_⟩
  intro c
  rw [h5 c]
  by_cases hc : c < 2 ^ t0.n
  · rw [if_pos hc]
    cases hk : t0.known c with
    | true =>
      rw [if_neg, splitSpec_known hk]
      intro hm; have := ((ho.mem c).mp hm).2; rw [hk] at this; cases this
    | false => rw [if_pos ((ho.mem c).mpr ⟨hc, hk⟩)]
  · rw [if_neg hc, if_neg]
    intro hm; exact hc ((ho.mem c).mp hm).1

omit [Add α] in
/-- the superset-max pass: supersets of the coalition being processed (itself included) still hold
    their initial value. -/
theorem closePass (E : EnumFacts) (t0 : Table α)
    (order : List Nat) (ho : UnknownOrder t0.n t0.known order)
    (f : Table α → Nat → Except Err α)
    (hf : ∀ (t : Table α) (c : Nat), t.n = t0.n → c < 2 ^ t0.n → t0.known c = false →
      (∀ T, T < 2 ^ t0.n → c &&& T = c → t.lo T = t0.lo T) →
      ∃ m, listMax? (((List.range (2 ^ t0.n)).filter (fun T => isSub c T)).map t0.lo) = some m ∧
        f t c = .ok m) :
    ∃ t1, sweepM f putLo order t0 = .ok t1 ∧ t1.n = t0.n ∧ t1.known = t0.known ∧ t1.hi = t0.hi ∧
      ∀ c, t1.lo c = if c < 2 ^ t0.n then closeSpec t0.n t0.known t0.lo t0.lo c else t0.lo c := by
  obtain ⟨t1, h1, h2, h3, h4, h5⟩ := sweepM_putLo f order t0
      (closeSpec t0.n t0.known t0.lo t0.lo) (by
    intro pre c post t hsplit hn _ _ hlo
    obtain ⟨hc, hk⟩ := (ho.mem c).mp (ho.cur_mem hsplit)
    have hsup : ∀ T, T < 2 ^ t0.n → c &&& T = c → t.lo T = t0.lo T := by
      intro T _ hcT
      rw [hlo T, if_neg]
      by_cases hTc : T = c
      · rw [hTc]; exact ho.self_not_mem_pre hsplit
      · exact ho.larger_not_mem_pre hsplit (E.size_lt c T hcT (Ne.symm hTc))
    obtain ⟨m, hm, hfm⟩ := hf t c hn hc hk hsup
    rw [hfm, closeSpec_unknown hk hm])
  refine ⟨t1, h1, h2, h3, h4, ?_⟩
  intro c
  rw [h5 c]
  by_cases hc : c < 2 ^ t0.n
  · rw [if_pos hc]
    cases hk : t0.known c with
    | true =>
      rw [if_neg, closeSpec_known hk]
      intro hm; have := ((ho.mem c).mp hm).2; rw [hk] at this; cases this
    | false => rw [if_pos ((ho.mem c).mpr ⟨hc, hk⟩)]
  · rw [if_neg hc, if_neg]
    intro hm; exact hc ((ho.mem c).mp hm).1

omit [Add α] [LinearOrder α] in
/-- an upper-column pass over any enumeration of the unknown coalitions: the lower column and the
    upper column of known rows are not touched. -/
theorem hiPass (t1 : Table α) (order : List Nat)
    (hmem : ∀ c, c ∈ order ↔ c < 2 ^ t1.n ∧ t1.known c = false)
    (Q : Nat → α) (f : Table α → Nat → Except Err α)
    (hf : ∀ (t : Table α) (c : Nat), t.n = t1.n → t.known = t1.known → t.lo = t1.lo →
      c < 2 ^ t1.n → t1.known c = false → (∀ x, t1.known x = true → t.hi x = t1.hi x) →
      f t c = .ok (Q c)) :
    ∃ t2, sweepM f putHi order t1 = .ok t2 ∧ t2.n = t1.n ∧ t2.known = t1.known ∧ t2.lo = t1.lo ∧
      ∀ c, t2.hi c = if c < 2 ^ t1.n ∧ t1.known c = false then Q c else t1.hi c := by
  obtain ⟨t2, h1, h2, h3, h4, h5⟩ := sweepM_putHi f order t1 Q (by
    intro pre c post t hsplit hn hkn hlo hhi
    obtain ⟨hc, hk⟩ := (hmem c).mp (by rw [hsplit]; simp)
    apply hf t c hn hkn hlo hc hk
    intro x hkx
    rw [hhi x, if_neg]
    intro hp
    have := ((hmem x).mp (by rw [hsplit]; simp [hp])).2
    rw [hkx] at this; cases this)
  refine ⟨t2, h1, h2, h3, h4, ?_⟩
  intro c
  rw [h5 c]
  by_cases hc : c < 2 ^ t1.n ∧ t1.known c = false
  · rw [if_pos hc, if_pos ((hmem c).mpr hc)]
  · rw [if_neg hc, if_neg (fun hm => hc ((hmem c).mp hm))]

end passes

end ICG.Refine
