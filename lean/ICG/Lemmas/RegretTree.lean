/-
  ICG.Lemmas.RegretTree — the induction over iterations for the whole tree of regret minimisers:
  the invariant `Inv` (regret ≤ 0 on revealed coalitions, cumulative strategy ≥ 0 and 0 on revealed
  coalitions, plus ⇒ regret ≥ 0) holds after construction and is preserved by every
  `regret_min_iteration` with non-negative terminal losses, which always succeeds.
-/
import ICG.Model.Regret
import ICG.Lemmas.Regret
import ICG.Lemmas.RegretNode
import ICG.Lemmas.RegretIter
import ICG.Lemmas.RegretAvg
import ICG.Lemmas.RegretPass
import Mathlib.Data.Nat.Cast.Order.Ring

set_option linter.unusedSectionVars false

namespace ICG.Regret
open ICG

section tree
variable {α : Type} [Field α] [LinearOrder α] [IsStrictOrderedRing α]

/-- the invariant of the mutable part of the object -/
structure Inv (rm : RM α) : Prop where
  regret_len : rm.regret.length = rm.R
  regret_row : ∀ row ∈ rm.regret, row.length = rm.m
  used_nonpos : ∀ (i mc : Nat) (row : List α), rm.rankToId[i]? = some mc → rm.regret[i]? = some row →
    ∀ a ∈ players mc, ∀ h : a < row.length, row[a] ≤ 0
  plus_nonneg : rm.plus = true → ∀ row ∈ rm.regret, ∀ x ∈ row, 0 ≤ x
  strategy_len : rm.strategy.length = rm.R
  strategy_row : ∀ row ∈ rm.strategy, row.length = rm.m ∧ ∀ x ∈ row, 0 ≤ x
  strategy_supp : ∀ (i mc : Nat) (row : List α), rm.rankToId[i]? = some mc → rm.strategy[i]? = some row →
    ∀ a ∈ players mc, row[a]? = some 0

/-- the invariant gives every node's current strategy -/
theorem Inv.strat {rm : RM α} (hs : Struct rm) (hI : Inv rm) : Strat rm := by
  intro i mc hi hmc
  have hiV : i < rm.rankToId.length := lt_of_lt_of_le hi hs.R_le_V
  have hir : i < rm.regret.length := by rw [hI.regret_len]; exact hi
  have hrank : rm.rankOf mc = .ok i := by
    obtain ⟨_, h⟩ := List.getElem?_eq_some_iff.mp hmc
    rw [← h]; exact hs.rank_id i hiV
  exact node_strategy hrank (getIdx_ok hir) (hI.regret_row _ (List.getElem_mem _))
    (hs.used_lt i mc hi hmc) (hI.used_nonpos i mc _ hmc (List.getElem?_eq_getElem hir)) (hs.unused i mc hi hmc)

theorem mem_zeros {k : Nat} {x : α} (h : x ∈ zeros (α := α) k) : x = 0 := by
  unfold zeros at h; exact (List.mem_replicate.mp h).2

theorem mem_zeros2 {r k : Nat} {row : List α} (h : row ∈ zeros2 (α := α) r k) : row = zeros k := by
  unfold zeros2 at h; exact (List.mem_replicate.mp h).2

theorem zeros_getElem? {k a : Nat} (h : a < k) : (zeros (α := α) k)[a]? = some 0 := by
  unfold zeros; rw [List.getElem?_replicate]; simp [h]

theorem zeros2_getElem? {r k i : Nat} {row : List α} (h : (zeros2 (α := α) r k)[i]? = some row) :
    i < r ∧ row = zeros k := by
  obtain ⟨hi, hrow⟩ := List.getElem?_eq_some_iff.mp h
  refine ⟨by simpa [zeros2] using hi, mem_zeros2 (r := r) ?_⟩
  rw [← hrow]; exact List.getElem_mem _

/-- base case: all-zero tables -/
theorem zero_inv {rm : RM α} (hs : Struct rm) (hr : rm.regret = zeros2 rm.R rm.m)
    (hst : rm.strategy = zeros2 rm.R rm.m) : Inv rm := by
  constructor
  · rw [hr]; simp [zeros2]
  · intro row hrow; rw [hr] at hrow; rw [mem_zeros2 hrow]; simp [zeros]
  · intro i mc row _ hrow a _ h
    rw [hr] at hrow
    obtain ⟨_, rfl⟩ := zeros2_getElem? hrow
    exact le_of_eq (mem_zeros (List.getElem_mem h))
  · intro _ row hrow x hx
    rw [hr] at hrow; rw [mem_zeros2 hrow] at hx
    exact le_of_eq (mem_zeros hx).symm
  · rw [hst]; simp [zeros2]
  · intro row hrow; rw [hst] at hrow; rw [mem_zeros2 hrow]
    exact ⟨by simp [zeros], fun x hx => le_of_eq (mem_zeros hx).symm⟩
  · intro i mc row hmc hrow a ha
    rw [hst] at hrow
    obtain ⟨hi, rfl⟩ := zeros2_getElem? hrow
    exact zeros_getElem? (hs.used_lt i mc hi hmc a ha)

/-- the structural facts do not depend on the mutable fields -/
theorem Struct.frame {rm : RM α} (hs : Struct rm) (r s : List (List α)) (k : Nat) :
    Struct { rm with regret := r, strategy := s, iteration := k } :=
  ⟨hs.V_pos, hs.R_le_V, hs.rank_id, hs.used_lt, hs.unused, hs.child⟩

/-- `experienced_losses[used_ranks] = terminal_losses`: same length or a single value -/
theorem broadcastTo_spec {t : List α} {k : Nat} (hlen : t.length = k ∨ t.length = 1)
    (hnn : ∀ x ∈ t, 0 ≤ x) : ∃ rhs, broadcastTo t k = .ok rhs ∧ ∀ x ∈ rhs, 0 ≤ x := by
  unfold broadcastTo
  by_cases h : t.length = k
  · exact ⟨t, by simp only [h, if_true], hnn⟩
  · rcases hlen with h' | h'
    · exact absurd h' h
    · match t, h' with
      | [x], _ =>
        refine ⟨List.replicate k x, by simp only [h, if_false], ?_⟩
        intro y hy
        rw [(List.mem_replicate.mp hy).2]
        exact hnn x List.mem_cons_self

/-- the regret row of rank `i` after the update, before clipping -/
def newRow (rm : RM α) (up : Up α) (i : Nat) : List α :=
  List.zipWith (fun r q => r + (q - up.exp.getD i 0)) (rm.regret.getD i []) (up.q.getD i [])

/-- the regret table after the update -/
def newRegret (rm : RM α) (up : Up α) : List (List α) :=
  if rm.plus then ((List.range rm.R).map (newRow rm up)).map (·.map posPart)
  else (List.range rm.R).map (newRow rm up)

/-- what inputs of `regret_min_iteration` are admissible: every used-action list is a ranked node; one
    terminal loss per list (or one for all); losses ≥ 0 -/
def ValidInput (rm : RM α) (terminal : List α) (used : List (List Nat)) : Prop :=
  (∀ x ∈ used, ∃ id, rm.getMetacoalitionId x = .ok id ∧ id ∈ rm.rankToId) ∧
  (terminal.length = used.length ∨ terminal.length = 1) ∧ ∀ x ∈ terminal, 0 ≤ x

/-- **the iteration succeeds**, and its result is described by the final state of the bottom-up pass -/
theorem iterate_ok {rm : RM α} (hs : Struct rm) (hI : Inv rm) {terminal : List α} {used : List (List Nat)}
    (hin : ValidInput rm terminal used) :
    ∃ up : Up α, UpInv rm (List.range rm.R) up ∧
      rm.iterate terminal used =
        .ok { rm with regret := newRegret rm up, strategy := up.strategy, iteration := rm.iteration + 1 } := by
  obtain ⟨hused, hlen, hnn⟩ := hin
  have hst := hI.strat hs
  -- used ranks
  obtain ⟨usedRanks, h1, hul, hult⟩ := mapM_exists
    (f := fun x => do let id ← rm.getMetacoalitionId x; rm.rankOf id)
    (P := fun r => r < rm.rankToId.length) used (by
      intro x hx
      obtain ⟨id, hid, hmem⟩ := hused x hx
      obtain ⟨r, hr, hrx⟩ := List.getElem_of_mem hmem
      refine ⟨r, ?_, hr⟩
      show (rm.getMetacoalitionId x >>= fun id => rm.rankOf id) = _
      rw [hid, ok_bind, ← hrx]; exact hs.rank_id r hr)
  obtain ⟨rhs, h2, hrhs⟩ := broadcastTo_spec (k := usedRanks.length) (by rw [hul]; exact hlen) hnn
  have hzl : (zeros (α := α) rm.V).length = rm.rankToId.length := by simp [zeros, RM.V]
  have hznn : ∀ x ∈ zeros (α := α) rm.V, 0 ≤ x := fun x hx => le_of_eq (mem_zeros hx).symm
  obtain ⟨exp0, h3, hel, heP, _⟩ := assignMany_spec (a := zeros (α := α) rm.V) (idx := usedRanks)
    (vals := rhs) (by rw [hzl]; exact hult)
  have h4 : setIdx (zeros (α := α) rm.V) 0 1 = .ok ((zeros (α := α) rm.V).set 0 1) :=
    setIdx_ok _ (by rw [hzl]; exact hs.V_pos)
  obtain ⟨reach, h5, hrl, hrnn⟩ := topDown_ok hs hst (reach0 := (zeros (α := α) rm.V).set 0 1)
    (by rw [List.length_set]; exact hzl) (by
      intro x hx
      rcases List.mem_or_eq_of_mem_set hx with h | rfl
      · exact hznn x h
      · exact zero_le_one)
  have hw : (0 : α) ≤ (if rm.plus then ((rm.iteration + 1 : Nat) : α) else 1) := by
    split
    · exact Nat.cast_nonneg _
    · exact zero_le_one
  obtain ⟨up, h6, hup⟩ := bottomUp_ok hs hst hw hrl hrnn
    (st := { q := zeros2 rm.R rm.m, exp := exp0, strategy := rm.strategy }) (by
      constructor
      · simp [zeros2]
      · intro row hrow
        rw [mem_zeros2 hrow]
        exact ⟨by simp [zeros], fun x hx => le_of_eq (mem_zeros hx).symm⟩
      · intro i mc row hmc hrow a ha
        obtain ⟨hi, rfl⟩ := zeros2_getElem? hrow
        exact zeros_getElem? (hs.used_lt i mc hi hmc a ha)
      · show exp0.length = _
        rw [hel, hzl]
      · exact heP (fun x => 0 ≤ x) hznn hrhs
      · exact hI.strategy_len
      · exact hI.strategy_row
      · exact hI.strategy_supp
      · intro i hi; simp at hi)
  have h7 : (List.range rm.R).mapM (fun i => do
        let r ← getIdx rm.regret i
        let q ← getIdx up.q i
        let e ← getIdx up.exp i
        pure (List.zipWith (fun r q => r + (q - e)) r q)) = .ok ((List.range rm.R).map (newRow rm up)) := by
    apply mapM_ok
    intro i hi
    rw [List.mem_range] at hi
    have hir : i < rm.regret.length := by rw [hI.regret_len]; exact hi
    have hiq : i < up.q.length := by rw [hup.q_len]; exact hi
    have hie : i < up.exp.length := by rw [hup.exp_len]; exact lt_of_lt_of_le hi hs.R_le_V
    rw [getIdx_ok hir, ok_bind, getIdx_ok hiq, ok_bind, getIdx_ok hie, ok_bind]
    unfold newRow
    simp [List.getD_eq_getElem?_getD, hir, hiq, hie, pure, Except.pure]
  refine ⟨up, hup, ?_⟩
  unfold RM.iterate
  simp only [bind_ok, pure_ok]
  exact ⟨_, h1, _, h2, _, h3, _, h4, _, h5, _, h6, _, h7, rfl⟩

/-- **one node after the passes**: the new regret row of node `i` is `row + (q − ⟨q, σ⟩)` for the
    distribution `σ` played at the node and q-values `q ≥ 0` that are 0 on the revealed coalitions -/
theorem newRow_spec {rm : RM α} (hs : Struct rm) (hI : Inv rm) {up : Up α}
    (hup : UpInv rm (List.range rm.R) up) {i mc : Nat} (hi : i < rm.R) (hmc : rm.rankToId[i]? = some mc) :
    ∃ σ row q : List α, rm.regretMatching mc = .ok σ ∧ rm.regret[i]? = some row ∧
      row.length = rm.m ∧ σ.length = rm.m ∧ q.length = rm.m ∧
      (∀ x ∈ σ, 0 ≤ x) ∧ σ.sum = 1 ∧ (∀ a ∈ players mc, σ[a]? = some 0) ∧
      (∀ x ∈ q, 0 ≤ x) ∧ (∀ a ∈ players mc, ∀ h : a < q.length, q[a] = 0) ∧
      (∀ a ∈ players mc, ∀ h : a < row.length, row[a] ≤ 0) ∧
      newRow rm up i = List.zipWith (fun r x => r + (x - listSum (List.zipWith (· * ·) q σ))) row q := by
  obtain ⟨σ, hσ, hσl, hσnn, hσ1, hσ0⟩ := hI.strat hs i mc hi hmc
  have hir : i < rm.regret.length := by rw [hI.regret_len]; exact hi
  have hiq : i < up.q.length := by rw [hup.q_len]; exact hi
  have hq := hup.q_row _ (List.getElem_mem hiq)
  have he := hup.exp_eq i (List.mem_range.mpr hi) mc σ _ hmc hσ (List.getElem?_eq_getElem hiq)
  refine ⟨σ, rm.regret[i], up.q[i], hσ, List.getElem?_eq_getElem hir, hI.regret_row _ (List.getElem_mem _),
    hσl, hq.1, hσnn, hσ1, hσ0, hq.2, ?_, hI.used_nonpos i mc _ hmc (List.getElem?_eq_getElem hir), ?_⟩
  · intro a ha h
    have := hup.q_used i mc _ hmc (List.getElem?_eq_getElem hiq) a ha
    rw [List.getElem?_eq_getElem h] at this
    exact Option.some.inj this
  · unfold newRow
    simp [List.getD_eq_getElem?_getD, hir, hiq, he]

/-- the rows of the new regret table -/
theorem newRegret_getElem? {rm : RM α} {up : Up α} {i : Nat} {row' : List α}
    (h : (newRegret rm up)[i]? = some row') :
    i < rm.R ∧ row' = if rm.plus then (newRow rm up i).map posPart else newRow rm up i := by
  unfold newRegret at h
  cases hp : rm.plus
  · simp only [hp, Bool.false_eq_true, if_false] at h ⊢
    rw [List.getElem?_map] at h
    cases hr : (List.range rm.R)[i]? with
    | none => simp [hr] at h
    | some j =>
      obtain ⟨hi, hj⟩ := List.getElem?_eq_some_iff.mp hr
      rw [List.getElem_range] at hj
      subst hj
      simp only [hr, Option.map_some, Option.some.injEq] at h
      exact ⟨by simpa using hi, h.symm⟩
  · simp only [hp, if_true] at h ⊢
    rw [List.getElem?_map, List.getElem?_map] at h
    cases hr : (List.range rm.R)[i]? with
    | none => simp [hr] at h
    | some j =>
      obtain ⟨hi, hj⟩ := List.getElem?_eq_some_iff.mp hr
      rw [List.getElem_range] at hj
      subst hj
      simp only [hr, Option.map_some, Option.some.injEq] at h
      exact ⟨by simpa using hi, h.symm⟩

theorem newRegret_length (rm : RM α) (up : Up α) : (newRegret rm up).length = rm.R := by
  unfold newRegret; split <;> simp

/-- **induction step for the whole tree**: one iteration with admissible inputs succeeds and preserves
    the structure and the invariant; the regret added at every node (before plus-clipping) is orthogonal
    to the strategy played there. -/
theorem iterate_inv {rm : RM α} (hs : Struct rm) (hI : Inv rm) {terminal : List α} {used : List (List Nat)}
    (hin : ValidInput rm terminal used) :
    ∃ rm', rm.iterate terminal used = .ok rm' ∧ Struct rm' ∧ Inv rm' ∧
      ∀ i mc, i < rm.R → rm.rankToId[i]? = some mc →
        ∃ σ row add : List α, rm.regretMatching mc = .ok σ ∧ rm.regret[i]? = some row ∧ add.length = rm.m ∧
          (List.zipWith (· * ·) σ add).sum = 0 ∧
          rm'.regret[i]? = some (if rm.plus then (List.zipWith (· + ·) row add).map posPart
                                 else List.zipWith (· + ·) row add) := by
  obtain ⟨up, hup, hok⟩ := iterate_ok hs hI hin
  refine ⟨_, hok, hs.frame _ _ _, ?_, ?_⟩
  · constructor
    · exact newRegret_length rm up
    · intro row' hrow'
      obtain ⟨i, hi, hget⟩ := List.getElem_of_mem hrow'
      obtain ⟨hiR, hrow⟩ := newRegret_getElem? ((List.getElem?_eq_getElem hi).trans (congrArg some hget))
      have hiV : i < rm.rankToId.length := lt_of_lt_of_le hiR hs.R_le_V
      obtain ⟨σ, row, q, _, _, hrl, hσl, hql, hσnn, hσ1, _, hqnn, hq0, hneg, hnew⟩ :=
        newRow_spec hs hI hup hiR (List.getElem?_eq_getElem hiV)
      have hl : (newRow rm up i).length = rm.m := by rw [hnew]; simp [hrl, hql]
      rw [hrow]; split <;> simp [hl]
    · intro i mc row' hmc hrow' a ha h
      obtain ⟨hiR, hrow⟩ := newRegret_getElem? hrow'
      obtain ⟨σ, row, q, _, _, hrl, hσl, hql, hσnn, hσ1, _, hqnn, hq0, hneg, hnew⟩ :=
        newRow_spec hs hI hup hiR hmc
      obtain ⟨_, h2, _, _, h5⟩ := node_update hrl hσl hql hσnn hσ1 hqnn hq0 hneg
      rw [← hnew] at h2 h5
      cases hp : rm.plus
      · simp only [hp, Bool.false_eq_true, if_false] at hrow
        subst hrow
        exact h2 a ha h
      · simp only [hp, if_true] at hrow
        subst hrow
        exact h5 a ha h
    · intro hp
      exact iterate_plus_nonneg (rm := rm) hp hok
    · exact hup.s_len
    · exact hup.s_row
    · exact hup.s_supp
  · intro i mc hi hmc
    obtain ⟨σ, row, q, hσ, hrow, hrl, hσl, hql, hσnn, hσ1, _, hqnn, hq0, hneg, hnew⟩ :=
      newRow_spec hs hI hup hi hmc
    refine ⟨σ, row, q.map (· - listSum (List.zipWith (· * ·) q σ)), hσ, hrow, by simp [hql],
      update_orthogonal (by rw [hσl, hql]) hσ1, ?_⟩
    have hi' : i < (newRegret rm up).length := by rw [newRegret_length]; exact hi
    have := newRegret_getElem? (List.getElem?_eq_getElem hi')
    show (newRegret rm up)[i]? = _
    rw [List.getElem?_eq_getElem hi', this.2, hnew, List.zipWith_map_right]

/-- `row' − row` of `row' = row + add` is `add` -/
theorem zipWith_add_sub_cancel : ∀ (row add : List α), row.length = add.length →
    List.zipWith (fun r' r => r' - r) (List.zipWith (· + ·) row add) row = add
  | [], [], _ => rfl
  | [], _ :: _, h => by simp at h
  | _ :: _, [], h => by simp at h
  | r :: row, a :: add, h => by
    simp only [List.zipWith_cons_cons]
    rw [zipWith_add_sub_cancel row add (by simpa using h)]
    congr 1
    exact add_sub_cancel_left r a

end tree

/-- `get_metacoalition_id` reads only the player count and the coalition → player-id map -/
def metaIdOf (n : Nat) (pidMap : List Int) (coalitions : List Nat) : Except Err Nat := do
  let kept := coalitions.filter (fun c => !(size c == 0 || size c == 1 || size c == 2 ^ n))
  let pids ← kept.mapM (getIdx pidMap)
  if pids.any (· < 0) then .error .value
  else pure (listSum (pids.map (fun p => 2 ^ p.toNat)))

theorem getMetacoalitionId_eq {α : Type} (rm : RM α) (cs : List Nat) :
    rm.getMetacoalitionId cs = metaIdOf rm.n rm.pidMap cs := rfl

end ICG.Regret
