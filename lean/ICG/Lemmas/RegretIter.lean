/-
  ICG.Lemmas.RegretIter — facts about a whole `regret_min_iteration` (ICG.Model.Regret.RM.iterate) and
  about save / load.
-/
import ICG.Model.Regret
import ICG.Lemmas.Regret
import ICG.Lemmas.RegretNode

set_option linter.unusedSectionVars false

namespace ICG.Regret
open ICG

theorem bind_ok {ε β γ} {x : Except ε β} {f : β → Except ε γ} {c : γ} :
    (x >>= f) = .ok c ↔ ∃ a, x = .ok a ∧ f a = .ok c := by
  cases x <;> simp [bind, Except.bind]

theorem pure_ok {ε β} {a b : β} : (pure a : Except ε β) = .ok b ↔ a = b := by
  simp [pure, Except.pure]

section iterate
variable {α : Type} [Field α] [LinearOrder α] [IsStrictOrderedRing α]

/-- what an iteration leaves untouched -/
theorem iterate_frame {rm rm' : RM α} {t : List α} {u : List (List Nat)} (h : rm.iterate t u = .ok rm') :
    rm' = { rm with regret := rm'.regret, strategy := rm'.strategy, iteration := rm.iteration + 1 } := by
  unfold RM.iterate at h
  simp only [bind_ok, pure_ok] at h
  obtain ⟨_, _, _, _, _, _, _, _, _, _, _, _, _, _, h⟩ := h
  subst h
  rfl

/-- **plus-clipping**: after an iteration of the `plus` variant every cumulative regret is ≥ 0 -/
theorem iterate_plus_nonneg {rm rm' : RM α} {t : List α} {u : List (List Nat)} (hp : rm.plus = true)
    (h : rm.iterate t u = .ok rm') : ∀ row ∈ rm'.regret, ∀ x ∈ row, 0 ≤ x := by
  unfold RM.iterate at h
  simp only [bind_ok, pure_ok] at h
  obtain ⟨_, _, _, _, _, _, _, _, _, _, _, _, regret', _, h⟩ := h
  subst h
  simp only [hp, if_true]
  intro row hrow x hx
  rw [List.mem_map] at hrow
  obtain ⟨r0, _, rfl⟩ := hrow
  rw [List.mem_map] at hx
  obtain ⟨y, _, rfl⟩ := hx
  exact posPart_nonneg y

end iterate

/-! ### save / load -/
section saveload
variable {α : Type} [Zero α]

/-- `rm` is a constructor result under policy `p` whose three mutable fields were replaced -/
def Built (p : Policy) (rm : RM α) : Prop :=
  ∃ rm0, RM.new (α := α) p rm.n rm.limit rm.plus = .ok rm0 ∧
    rm = { rm0 with regret := rm.regret, strategy := rm.strategy, iteration := rm.iteration }

/-- **a saved-then-loaded minimiser is the same object** (hence continues identically) -/
theorem load_save {p : Policy} {rm : RM α} (h : Built p rm) : RM.load p rm.save = .ok rm := by
  obtain ⟨rm0, h0, heq⟩ := h
  unfold RM.load RM.save
  simp only [h0, bind, Except.bind, pure, Except.pure]
  exact congrArg _ heq.symm

/-- re-running the constructor on the stored limit reproduces the tables -/
def Policy.Stable (p : Policy) (m limit : Nat) : Prop :=
  metaIds m (p.storedLimit m limit) = metaIds m limit ∧
  p.storedLimit m (p.storedLimit m limit) = p.storedLimit m limit

theorem Policy.current_stable (m limit : Nat) : Policy.current.Stable m limit := ⟨rfl, rfl⟩

theorem Policy.repaired_stable (m limit : Nat) : Policy.repaired.Stable m limit := by
  refine ⟨?_, ?_⟩
  · show metaIds m (min m limit) = metaIds m limit
    unfold metaIds
    have : min m (min m limit) = min m limit := by omega
    rw [this]
  · show min m (min m limit) = min m limit
    omega

theorem new_built {p : Policy} {n limit : Nat} {plus : Bool} {rm : RM α}
    (hs : p.Stable (numCoalitions n) limit) (h : RM.new (α := α) p n limit plus = .ok rm) : Built p rm := by
  have hn : 2 ≤ n := by
    by_contra hcon
    unfold RM.new at h
    have : n < 2 := by omega
    simp [this] at h
  obtain ⟨h1, h2, h3, h4, -⟩ := new_spec hn h
  refine ⟨rm, ?_, rfl⟩
  rw [h1, h3, h4, new_eq p hn, hs.1, hs.2]
  rw [new_eq p hn] at h
  exact h

end saveload

section iterate2
variable {α : Type} [Field α] [LinearOrder α] [IsStrictOrderedRing α]

theorem iterate_built {p : Policy} {rm rm' : RM α} {t : List α} {u : List (List Nat)} (hb : Built p rm)
    (h : rm.iterate t u = .ok rm') : Built p rm' := by
  obtain ⟨rm0, h0, heq⟩ := hb
  have hf := iterate_frame h
  refine ⟨rm0, ?_, ?_⟩
  · rw [hf]; exact h0
  · rw [hf, heq]

end iterate2

end ICG.Regret
