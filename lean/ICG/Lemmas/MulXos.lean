/-
  ICG.Lemmas.MulXos — `_approx_xos_subroutine` and `_max_subroutine` (ICG.Model.Mul) on a complete game.
-/
import ICG.Model.Mul
import ICG.Lemmas.Enum
import ICG.Lemmas.BitFacts
import ICG.Lemmas.ListMax
import Mathlib.Algebra.Order.Field.Basic
import Mathlib.Algebra.Order.Ring.Pow
import Mathlib.Algebra.BigOperators.Group.List.Basic
import Mathlib.Tactic.Linarith
import Mathlib.Tactic.Ring

namespace ICG.Mul
open ICG

/-! ### bit facts about prefixes `c % 2^p` -/

theorem addPlayer_testBit' (a p i : Nat) : (addPlayer a p).testBit i = (a.testBit i || decide (p = i)) := by
  unfold addPlayer
  rw [Nat.testBit_or, Nat.testBit_two_pow]

/-- no bit of `c` in `[b, p)`: the prefixes below `b` and below `p` coincide -/
theorem mod_two_pow_eq_of_gap {c b p : Nat} (hbp : b ≤ p) (h : ∀ i, b ≤ i → i < p → c.testBit i = false) :
    c % 2 ^ b = c % 2 ^ p := by
  apply Nat.eq_of_testBit_eq
  intro i
  rw [Nat.testBit_mod_two_pow, Nat.testBit_mod_two_pow]
  by_cases hib : i < b
  · have : i < p := by omega
    simp [hib, this]
  · by_cases hip : i < p
    · simp [hib, hip, h i (by omega) hip]
    · simp [hib, hip]

theorem addPlayer_mod_two_pow {c p : Nat} (h : c.testBit p = true) : addPlayer (c % 2 ^ p) p = c % 2 ^ (p + 1) := by
  apply Nat.eq_of_testBit_eq
  intro i
  rw [addPlayer_testBit', Nat.testBit_mod_two_pow, Nat.testBit_mod_two_pow]
  by_cases hip : i < p
  · have : i < p + 1 := by omega
    have hne : ¬ p = i := by omega
    simp [hip, this, hne]
  · by_cases hpi : p = i
    · subst hpi; simp [h]
    · have : ¬ i < p + 1 := by omega
      simp [hip, this, hpi]

theorem mod_two_pow_eq_self_of_no_high {c b : Nat} (h : ∀ i, b ≤ i → c.testBit i = false) : c % 2 ^ b = c :=
  Nat.mod_eq_of_lt (Nat.lt_pow_two_of_testBit c h)

section xos
variable {α : Type} [AddCommGroup α]

/-- `_approx_xos_subroutine` on the players `ps` = the players of `c` from position `b` on, having built `c % 2^b`. -/
theorem approxXosGo_okGet (v : Nat → α) (c : Nat) :
    ∀ (ps : List Nat) (b : Nat), ps.Pairwise (· < ·) → (∀ p ∈ ps, b ≤ p) →
      (∀ i, b ≤ i → (c.testBit i = true ↔ i ∈ ps)) →
      approxXosGo (okGet v) ps (c % 2 ^ b) =
        .ok (ps.map (fun p => (p, v (c % 2 ^ (p + 1)) - v (c % 2 ^ p))), ps.map (fun p => c % 2 ^ (p + 1))) := by
  intro ps
  induction ps with
  | nil => intro b _ _ _; rfl
  | cons p ps ih =>
    intro b hs hb hc
    have hbp : b ≤ p := hb p List.mem_cons_self
    have hcp : c.testBit p = true := (hc p hbp).mpr List.mem_cons_self
    have hgap : ∀ i, b ≤ i → i < p → c.testBit i = false := by
      intro i hbi hip
      cases hci : c.testBit i with
      | false => rfl
      | true =>
        have := (hc i hbi).mp hci
        rcases List.mem_cons.mp this with rfl | hmem
        · omega
        · have := (List.pairwise_cons.mp hs).1 i hmem
          omega
    have e1 : c % 2 ^ b = c % 2 ^ p := mod_two_pow_eq_of_gap hbp hgap
    have hs' := (List.pairwise_cons.mp hs)
    have ih' := ih (p + 1) hs'.2 (fun q hq => hs'.1 q hq) (by
      intro i hi
      constructor
      · intro hci
        rcases List.mem_cons.mp ((hc i (by omega)).mp hci) with rfl | hmem
        · omega
        · exact hmem
      · intro hmem
        exact (hc i (by omega)).mpr (List.mem_cons_of_mem _ hmem))
    simp only [approxXosGo, okGet, e1, addPlayer_mod_two_pow hcp]
    rw [ih']
    rfl

/-- the additive vector and the queried ids of `_approx_xos_subroutine`, in closed form -/
theorem approxXos_okGet (v : Nat → α) (c : Nat) :
    approxXos (okGet v) c =
      .ok ((players c).map (fun p => (p, v (c % 2 ^ (p + 1)) - v (c % 2 ^ p))),
           (players c).map (fun p => c % 2 ^ (p + 1))) := by
  have := approxXosGo_okGet v c (players c) 0 (players_pairwise c) (fun _ _ => Nat.zero_le _)
    (fun i _ => (mem_players (c := c) (i := i)).symm)
  simpa [approxXos, Nat.mod_one] using this

/-- telescoping along the players of `c` from position `b` on -/
theorem marginals_sum (v : Nat → α) (c : Nat) :
    ∀ (ps : List Nat) (b : Nat), ps.Pairwise (· < ·) → (∀ p ∈ ps, b ≤ p) →
      (∀ i, b ≤ i → (c.testBit i = true ↔ i ∈ ps)) →
      (ps.map (fun p => v (c % 2 ^ (p + 1)) - v (c % 2 ^ p))).sum = v c - v (c % 2 ^ b) := by
  intro ps
  induction ps with
  | nil =>
    intro b _ _ hc
    have : c % 2 ^ b = c := mod_two_pow_eq_self_of_no_high (by
      intro i hi
      cases hci : c.testBit i with
      | false => rfl
      | true => exact absurd ((hc i hi).mp hci) (by simp))
    simp [this]
  | cons p ps ih =>
    intro b hs hb hc
    have hbp : b ≤ p := hb p List.mem_cons_self
    have hgap : ∀ i, b ≤ i → i < p → c.testBit i = false := by
      intro i hbi hip
      cases hci : c.testBit i with
      | false => rfl
      | true =>
        have := (hc i hbi).mp hci
        rcases List.mem_cons.mp this with rfl | hmem
        · omega
        · have := (List.pairwise_cons.mp hs).1 i hmem
          omega
    have e1 : c % 2 ^ b = c % 2 ^ p := mod_two_pow_eq_of_gap hbp hgap
    have hs' := (List.pairwise_cons.mp hs)
    have ih' := ih (p + 1) hs'.2 (fun q hq => hs'.1 q hq) (by
      intro i hi
      constructor
      · intro hci
        rcases List.mem_cons.mp ((hc i (by omega)).mp hci) with rfl | hmem
        · omega
        · exact hmem
      · intro hmem
        exact (hc i (by omega)).mpr (List.mem_cons_of_mem _ hmem))
    rw [List.map_cons, List.sum_cons, ih', e1]
    abel

/-- the additive vector sums to `v(coalition) − v(∅)` -/
theorem marginals_sum_players (v : Nat → α) (c : Nat) :
    ((players c).map (fun p => v (c % 2 ^ (p + 1)) - v (c % 2 ^ p))).sum = v c - v 0 := by
  have := marginals_sum v c (players c) 0 (players_pairwise c) (fun _ _ => Nat.zero_le _)
    (fun i _ => (mem_players (c := c) (i := i)).symm)
  simpa [Nat.mod_one] using this

end xos
/-! ### `_max_subroutine` -/

theorem size_two_pow' : ∀ (j : Nat), size (2 ^ j) = 1
  | 0 => by rw [size_eq]; simp [size_zero]
  | j + 1 => by
    rw [size_eq, Nat.pow_succ, Nat.mul_mod_left, Nat.mul_div_cancel _ (by omega : 0 < 2), size_two_pow' j]

theorem size_addPlayer {c p : Nat} (h : c.testBit p = false) : size (addPlayer c p) = size c + 1 := by
  unfold addPlayer
  rw [size_or_of_disjoint, size_two_pow']
  apply Nat.eq_of_testBit_eq
  intro i
  rw [Nat.testBit_and, Nat.testBit_two_pow, Nat.zero_testBit]
  by_cases hpi : p = i
  · subst hpi; simp [h]
  · simp [hpi]

theorem sub_addPlayer (c p : Nat) : c &&& addPlayer c p = c := by
  apply Nat.eq_of_testBit_eq
  intro i
  rw [Nat.testBit_and, addPlayer_testBit']
  cases c.testBit i <;> simp

theorem mapE_okGet {α : Type} (v : Nat → α) (f : Nat → Nat) :
    ∀ (l : List Nat), mapE (fun p => okGet v (f p)) l = .ok (l.map (fun p => v (f p)))
  | [] => rfl
  | a :: l => by
    have ih := mapE_okGet v f l
    show (match okGet v (f a) with
          | .error e => Except.error e
          | .ok c => match mapE (fun p => okGet v (f p)) l with
            | .error e => Except.error e
            | .ok cs => Except.ok (c :: cs)) = _
    rw [ih]; rfl

section maxsub
set_option linter.unusedSectionVars false
variable {α : Type} [Field α] [LinearOrder α] [IsStrictOrderedRing α]

/-- one pass of the `for` loop on a complete game: it returns, and what it returns -/
theorem maxPass_okGet (v : Nat → α) (reached : Nat → Bool) (limit : α) :
    ∀ (ps : List Nat) (c : Nat), (∀ p ∈ ps, c.testBit p = false) → ps.Nodup →
      ∃ r qs stop, maxPass (okGet v) reached limit ps c = .ok (r, qs, stop) ∧
        c &&& r = c ∧ (∀ i, r.testBit i = true → c.testBit i = true ∨ i ∈ ps) ∧
        (r = c ∨ reached (size r) = false) ∧
        (∀ x ∈ qs, ∃ c' p, c &&& c' = c ∧ c' &&& r = c' ∧ p ∈ ps ∧ c'.testBit p = false ∧ x = addPlayer c' p) := by
  intro ps
  induction ps with
  | nil =>
    intro c _ _
    exact ⟨c, [], false, rfl, Nat.and_self c, fun i h => Or.inl h, Or.inl rfl, fun x hx => by cases hx⟩
  | cons p ps ih =>
    intro c hc hnd
    have hcp : c.testBit p = false := hc p List.mem_cons_self
    have hnd' := List.nodup_cons.mp hnd
    by_cases hr : reached (size c + 1) = true
    · refine ⟨c, [], true, ?_, Nat.and_self c, fun i h => Or.inl h, Or.inl rfl, fun x hx => by cases hx⟩
      simp [maxPass, hr]
    · -- the player is examined
      let c2 := if limit ≤ v (addPlayer c p) - v c then addPlayer c p else c
      have hc2 : ∀ p' ∈ ps, c2.testBit p' = false := by
        intro p' hp'
        have hne : ¬ p = p' := fun h => hnd'.1 (h ▸ hp')
        have := hc p' (List.mem_cons_of_mem _ hp')
        show (if limit ≤ v (addPlayer c p) - v c then addPlayer c p else c).testBit p' = false
        split
        · rw [addPlayer_testBit']; simp [this, hne]
        · exact this
      have hcc2 : c &&& c2 = c := by
        show c &&& (if limit ≤ v (addPlayer c p) - v c then addPlayer c p else c) = c
        split
        · exact sub_addPlayer c p
        · exact Nat.and_self c
      have hc2bits : ∀ i, c2.testBit i = true → c.testBit i = true ∨ i = p := by
        intro i
        show (if limit ≤ v (addPlayer c p) - v c then addPlayer c p else c).testBit i = true → _
        split
        · rw [addPlayer_testBit']
          intro h
          rcases Bool.or_eq_true_iff.mp h with h | h
          · exact Or.inl h
          · exact Or.inr (of_decide_eq_true h).symm
        · exact fun h => Or.inl h
      have hc2size : c2 = c ∨ reached (size c2) = false := by
        show (if limit ≤ v (addPlayer c p) - v c then addPlayer c p else c) = c ∨
          reached (size (if limit ≤ v (addPlayer c p) - v c then addPlayer c p else c)) = false
        split
        · right; rw [size_addPlayer hcp]; simpa using hr
        · left; rfl
      obtain ⟨r, qs, stop, hpass, hsub, hbits, hsize, hq⟩ := ih c2 hc2 hnd'.2
      refine ⟨r, addPlayer c p :: qs, stop, ?_, ?_, ?_, ?_, ?_⟩
      · simp only [maxPass, hr, okGet]
        show (match maxPass (okGet v) reached limit ps c2 with
              | .error e => Except.error e
              | .ok (r, qs, stop) => Except.ok (r, addPlayer c p :: qs, stop)) = _
        rw [hpass]
      · exact sub_trans hcc2 hsub
      · intro i hi
        rcases hbits i hi with h | h
        · rcases hc2bits i h with h | h
          · exact Or.inl h
          · exact Or.inr (h ▸ List.mem_cons_self)
        · exact Or.inr (List.mem_cons_of_mem _ h)
      · rcases hsize with h | h
        · rcases hc2size with h2 | h2
          · left; rw [h, h2]
          · right; rw [h]; exact h2
        · exact Or.inr h
      · intro x hx
        rcases List.mem_cons.mp hx with rfl | hx
        · exact ⟨c, p, Nat.and_self c, sub_trans hcc2 hsub, List.mem_cons_self, hcp, rfl⟩
        · obtain ⟨c', p', h1, h2, h3, h4, h5⟩ := hq x hx
          exact ⟨c', p', sub_trans hcc2 h1, h2, List.mem_cons_of_mem _ h3, h4, h5⟩

/-- the player list of a pass: players of the coalition not yet constructed -/
theorem passPlayers_ok (coalition c : Nat) :
    (∀ p ∈ players (diff coalition c), c.testBit p = false) ∧ (players (diff coalition c)).Nodup ∧
    (∀ p ∈ players (diff coalition c), coalition.testBit p = true) := by
  refine ⟨?_, players_nodup _, ?_⟩
  · intro p hp
    have := mem_players.mp hp
    rw [diff_testBit] at this
    cases hc : c.testBit p <;> simp_all
  · intro p hp
    have := mem_players.mp hp
    rw [diff_testBit] at this
    cases hc : coalition.testBit p <;> simp_all

theorem maxLoop_zero (get : Nat → Except Err α) (coalition : Nat) (reached : Nat → Bool) (thr q limit : α) (c : Nat) :
    maxLoop get coalition reached thr q 0 limit c = if thr ≤ limit then .error .other else .ok (c, []) := rfl

theorem maxLoop_succ (get : Nat → Except Err α) (coalition : Nat) (reached : Nat → Bool) (thr q limit : α)
    (fuel c : Nat) :
    maxLoop get coalition reached thr q (fuel + 1) limit c =
      if thr ≤ limit then
        match maxPass get reached limit (players (diff coalition c)) c with
        | .error e => .error e
        | .ok (c', qs, stop) =>
          if stop then .ok (c', qs)
          else
            match maxLoop get coalition reached thr q fuel (limit * q) c' with
            | .error e => .error e
            | .ok (r, qs') => .ok (r, qs ++ qs')
      else .ok (c, []) := rfl

/-- what the `while` loop returns on a complete game -/
theorem maxLoop_okGet (v : Nat → α) (coalition : Nat) (reached : Nat → Bool) (thr q : α) :
    ∀ (fuel : Nat) (limit : α) (c : Nat), c &&& coalition = c → (c = 0 ∨ reached (size c) = false) →
      ∀ r qs, maxLoop (okGet v) coalition reached thr q fuel limit c = .ok (r, qs) →
        c &&& r = c ∧ r &&& coalition = r ∧ (r = 0 ∨ reached (size r) = false) ∧
        (∀ x ∈ qs, ∃ c' p, c' &&& r = c' ∧ coalition.testBit p = true ∧ c'.testBit p = false ∧
          x = addPlayer c' p) := by
  intro fuel
  induction fuel with
  | zero =>
    intro limit c hc hs r qs h
    rw [maxLoop_zero] at h
    split at h
    · cases h
    · simp only [Except.ok.injEq, Prod.mk.injEq] at h
      obtain ⟨rfl, rfl⟩ := h
      exact ⟨Nat.and_self _, hc, hs, fun x hx => by cases hx⟩
  | succ fuel ih =>
    intro limit c hc hs r qs h
    rw [maxLoop_succ] at h
    split at h
    · obtain ⟨hp1, hp2, hp3⟩ := passPlayers_ok coalition c
      obtain ⟨r1, qs1, stop, hpass, hsub, hbits, hsize, hq⟩ :=
        maxPass_okGet v reached limit (players (diff coalition c)) c hp1 hp2
      rw [hpass] at h
      have hr1c : r1 &&& coalition = r1 := by
        apply sub_of_testBit
        intro i hi
        rcases hbits i hi with h' | h'
        · exact sub_testBit hc i h'
        · exact hp3 i h'
      have hr1s : r1 = 0 ∨ reached (size r1) = false := by
        rcases hsize with h' | h'
        · rw [h']; exact hs
        · exact Or.inr h'
      have hq1 : ∀ x ∈ qs1, ∃ c' p, c' &&& r1 = c' ∧ coalition.testBit p = true ∧ c'.testBit p = false ∧
          x = addPlayer c' p := by
        intro x hx
        obtain ⟨c', p, -, h2, h3, h4, h5⟩ := hq x hx
        exact ⟨c', p, h2, hp3 p h3, h4, h5⟩
      dsimp only at h
      split at h
      · simp only [Except.ok.injEq, Prod.mk.injEq] at h
        obtain ⟨rfl, rfl⟩ := h
        exact ⟨hsub, hr1c, hr1s, hq1⟩
      · cases hrec : maxLoop (okGet v) coalition reached thr q fuel (limit * q) r1 with
        | error e => rw [hrec] at h; cases h
        | ok res =>
          obtain ⟨r2, qs2⟩ := res
          rw [hrec] at h
          simp only [Except.ok.injEq, Prod.mk.injEq] at h
          obtain ⟨rfl, rfl⟩ := h
          obtain ⟨g1, g2, g3, g4⟩ := ih (limit * q) r1 hr1c hr1s r2 qs2 hrec
          refine ⟨sub_trans hsub g1, g2, g3, ?_⟩
          intro x hx
          rcases List.mem_append.mp hx with hx | hx
          · obtain ⟨c', p, h2, h3, h4, h5⟩ := hq1 x hx
            exact ⟨c', p, sub_trans h2 g1, h3, h4, h5⟩
          · exact g4 x hx
    · simp only [Except.ok.injEq, Prod.mk.injEq] at h
      obtain ⟨rfl, rfl⟩ := h
      exact ⟨Nat.and_self _, hc, hs, fun x hx => by cases hx⟩

/-- TERMINATION, abstractly: if the geometric schedule falls below the bound within `fuel` steps, the loop
    returns -/
theorem maxLoop_ok (v : Nat → α) (coalition : Nat) (reached : Nat → Bool) (thr q : α) :
    ∀ (fuel : Nat) (limit : α) (c : Nat), (∃ j, j ≤ fuel ∧ limit * q ^ j < thr) →
      ∃ res, maxLoop (okGet v) coalition reached thr q fuel limit c = .ok res := by
  intro fuel
  induction fuel with
  | zero =>
    intro limit c ⟨j, hj, hlt⟩
    have : j = 0 := by omega
    subst this
    rw [maxLoop_zero, if_neg (by simpa using hlt)]
    exact ⟨_, rfl⟩
  | succ fuel ih =>
    intro limit c ⟨j, hj, hlt⟩
    rw [maxLoop_succ]
    by_cases hthr : thr ≤ limit
    · rw [if_pos hthr]
      obtain ⟨hp1, hp2, -⟩ := passPlayers_ok coalition c
      obtain ⟨r1, qs1, stop, hpass, -⟩ := maxPass_okGet v reached limit (players (diff coalition c)) c hp1 hp2
      rw [hpass]
      dsimp only
      cases stop with
      | true => exact ⟨_, rfl⟩
      | false =>
        have hj0 : j ≠ 0 := by
          rintro rfl
          simp at hlt
          exact absurd hthr (not_le.mpr hlt)
        obtain ⟨j', rfl⟩ := Nat.exists_eq_succ_of_ne_zero hj0
        obtain ⟨res, hres⟩ := ih (limit * q) r1 ⟨j', by omega, by rw [mul_assoc, ← pow_succ']; exact hlt⟩
        rw [hres]
        exact ⟨_, rfl⟩
    · rw [if_neg hthr]
      exact ⟨_, rfl⟩

/-- more fuel does not change an answer -/
theorem maxLoop_fuel_succ (get : Nat → Except Err α) (coalition : Nat) (reached : Nat → Bool) (thr q : α) :
    ∀ (fuel : Nat) (limit : α) (c : Nat) (res : Nat × List Nat),
      maxLoop get coalition reached thr q fuel limit c = .ok res →
      maxLoop get coalition reached thr q (fuel + 1) limit c = .ok res := by
  intro fuel
  induction fuel with
  | zero =>
    intro limit c res h
    rw [maxLoop_zero] at h
    rw [maxLoop_succ]
    split at h
    · cases h
    · rename_i hthr; rw [if_neg hthr]; exact h
  | succ fuel ih =>
    intro limit c res h
    rw [maxLoop_succ] at h
    rw [maxLoop_succ]
    by_cases hthr : thr ≤ limit
    · rw [if_pos hthr] at h ⊢
      cases hpass : maxPass get reached limit (players (diff coalition c)) c with
      | error e => rw [hpass] at h; cases h
      | ok pr =>
        obtain ⟨c', qs, stop⟩ := pr
        rw [hpass] at h
        dsimp only at h ⊢
        cases stop with
        | true => exact h
        | false =>
          simp only [Bool.false_eq_true, if_false] at h ⊢
          cases hrec : maxLoop get coalition reached thr q fuel (limit * q) c' with
          | error e => rw [hrec] at h; cases h
          | ok r2 =>
            rw [ih (limit * q) c' r2 hrec]
            rw [hrec] at h
            exact h
    · rw [if_neg hthr] at h ⊢; exact h

theorem maxLoop_fuel_le (get : Nat → Except Err α) (coalition : Nat) (reached : Nat → Bool) (thr q : α)
    {fuel fuel' : Nat} (hle : fuel ≤ fuel') (limit : α) (c : Nat) (res : Nat × List Nat)
    (h : maxLoop get coalition reached thr q fuel limit c = .ok res) :
    maxLoop get coalition reached thr q fuel' limit c = .ok res := by
  induction hle with
  | refl => exact h
  | step _ ih => exact maxLoop_fuel_succ get coalition reached thr q _ limit c res ih

/-- the geometric schedule falls below `eps·init/n` within `fuel` steps as soon as `n < fuel·eps²` -/
theorem schedule_below {eps init : α} {n fuel : Nat} (heps : 0 < eps) (hinit : 0 < init) (hn : n ≠ 0)
    (hfuel : (n : α) < fuel * eps * eps) :
    ∃ j, j ≤ fuel ∧ init * (1 - eps) ^ j < eps * init / (n : α) := by
  have hnpos : (0 : α) < n := Nat.cast_pos.mpr (Nat.pos_of_ne_zero hn)
  have hthr : 0 < eps * init / (n : α) := div_pos (mul_pos heps hinit) hnpos
  by_cases h1 : eps ≤ 1
  · refine ⟨fuel, le_rfl, ?_⟩
    have hq0 : 0 ≤ 1 - eps := by linarith
    have hB : 1 + (fuel : α) * eps ≤ (1 + eps) ^ fuel := one_add_mul_le_pow (by linarith) fuel
    have hprod : (1 - eps) ^ fuel * (1 + eps) ^ fuel ≤ 1 := by
      rw [← mul_pow]
      apply pow_le_one₀
      · exact mul_nonneg hq0 (by linarith)
      · nlinarith
    have hqf : 0 ≤ (1 - eps) ^ fuel := pow_nonneg hq0 _
    have hfe : 0 < 1 + (fuel : α) * eps := by
      have : 0 ≤ (fuel : α) * eps := mul_nonneg (Nat.cast_nonneg _) heps.le
      linarith
    have h2 : (1 - eps) ^ fuel * (1 + (fuel : α) * eps) ≤ 1 :=
      le_trans (mul_le_mul_of_nonneg_left hB hqf) hprod
    -- n·q^f·(1 + f·eps) ≤ n < eps·(1 + f·eps)
    have h3 : (n : α) * (1 - eps) ^ fuel < eps := by
      have hlt : (n : α) < eps * (1 + (fuel : α) * eps) := by nlinarith
      have : (n : α) * (1 - eps) ^ fuel * (1 + (fuel : α) * eps) < eps * (1 + (fuel : α) * eps) := by
        calc (n : α) * (1 - eps) ^ fuel * (1 + (fuel : α) * eps)
            = (n : α) * ((1 - eps) ^ fuel * (1 + (fuel : α) * eps)) := by ring
          _ ≤ (n : α) * 1 := mul_le_mul_of_nonneg_left h2 hnpos.le
          _ = n := mul_one _
          _ < eps * (1 + (fuel : α) * eps) := hlt
      exact lt_of_mul_lt_mul_right this hfe.le
    rw [lt_div_iff₀ hnpos]
    calc init * (1 - eps) ^ fuel * (n : α) = init * ((n : α) * (1 - eps) ^ fuel) := by ring
      _ < init * eps := mul_lt_mul_of_pos_left h3 hinit
      _ = eps * init := mul_comm _ _
  · have h1 : 1 < eps := not_le.mp h1
    have hf : fuel ≠ 0 := by
      rintro rfl
      simp at hfuel
      exact absurd hfuel (not_lt.mpr hnpos.le)
    refine ⟨1, Nat.one_le_iff_ne_zero.mpr hf, ?_⟩
    have : init * (1 - eps) ^ 1 < 0 := by
      rw [pow_one]; exact mul_neg_of_pos_of_neg hinit (by linarith)
    linarith

theorem singles_okGet (v : Nat → α) (l : List Nat) :
    mapE (fun p => okGet v (singleton p)) l = .ok (l.map (fun p => v (singleton p))) := mapE_okGet v singleton l

/-- `_max_subroutine` on a complete game whose singletons inside the coalition are ≥ 1 -/
theorem maxSubroutine_okGet (v : Nat → α) (n coalition : Nat) (reached : Nat → Bool) (eps : α) (fuel : Nat)
    (hc : coalition ≠ 0) (hn : n ≠ 0) (h1 : ∀ p ∈ players coalition, 1 ≤ v (singleton p)) :
    ∃ init, listMax? ((players coalition).map (fun p => v (singleton p))) = some init ∧ 1 ≤ init ∧
      maxSubroutine (okGet v) n coalition reached eps fuel =
        maxLoop (okGet v) coalition reached (eps * init / (n : α)) (1 - eps) fuel init 0 := by
  have hne : (players coalition).map (fun p => v (singleton p)) ≠ [] := by
    intro h
    have : players coalition = [] := List.map_eq_nil_iff.mp h
    have := size_eq_length_players coalition
    rw [‹players coalition = []›] at this
    exact hc (size_eq_zero_iff.mp (by simpa using this))
  obtain ⟨init, hinit⟩ := listMax?_isSome hne
  have hmem := listMax?_mem hinit
  obtain ⟨p0, hp0, hp0e⟩ := List.mem_map.mp hmem
  refine ⟨init, hinit, hp0e ▸ h1 p0 hp0, ?_⟩
  unfold maxSubroutine
  rw [if_neg hc, singles_okGet]
  dsimp only
  have hall : ((players coalition).map (fun p => v (singleton p))).all (fun s => decide (1 ≤ s)) = true := by
    rw [List.all_eq_true]
    intro x hx
    obtain ⟨p, hp, rfl⟩ := List.mem_map.mp hx
    exact decide_eq_true (h1 p hp)
  rw [if_pos hall, hinit]
  dsimp only
  rw [if_neg hn]

/-- a singleton value below 1 inside the coalition: AssertionError -/
theorem maxSubroutine_assert (v : Nat → α) (n coalition : Nat) (reached : Nat → Bool) (eps : α) (fuel : Nat)
    (hc : coalition ≠ 0) (h1 : ∃ p ∈ players coalition, v (singleton p) < 1) :
    maxSubroutine (okGet v) n coalition reached eps fuel = .error .assert := by
  unfold maxSubroutine
  rw [if_neg hc, singles_okGet]
  dsimp only
  have hall : ¬ ((players coalition).map (fun p => v (singleton p))).all (fun s => decide (1 ≤ s)) = true := by
    rw [List.all_eq_true]
    intro h
    obtain ⟨p, hp, hlt⟩ := h1
    have := h _ (List.mem_map.mpr ⟨p, hp, rfl⟩)
    exact absurd (of_decide_eq_true this) (not_le.mpr hlt)
  rw [if_neg hall]

end maxsub
end ICG.Mul
