/-
  ICG.Lemmas.SpecSA3 — pure mathematics on the bound specification, part 3 (C07):

  G. monotonicity in knowledge: revealing more values of one superadditive game `v` can only shrink
     `[loSpec, upSpec]`; chain version for reveals made one at a time
  H. consequences for the gap `upSpec − loSpec`
  +  a concrete 3-player instance over `Int` showing that the hypotheses of C, D, E, F, G, H are satisfiable
-/
import ICG.Lemmas.SpecSA2

namespace ICG.SpecSA

/-- `known'` knows at least what `known` knows -/
def KnownLe (known known' : Nat → Bool) : Prop := ∀ c, known c = true → known' c = true

theorem KnownLe.refl (known : Nat → Bool) : KnownLe known known := fun _ h => h

theorem KnownLe.trans {k1 k2 k3 : Nat → Bool} (h12 : KnownLe k1 k2) (h23 : KnownLe k2 k3) : KnownLe k1 k3 :=
  fun c h => h23 c (h12 c h)

theorem minInfo_mono {n : Nat} {known known' : Nat → Bool} (hmin : MinInfo n known)
    (hle : KnownLe known known') : MinInfo n known' :=
  ⟨hle _ hmin.1, hle _ hmin.2.1, fun i hi => hle _ (hmin.2.2 i hi)⟩

theorem knownSupers_mono {n : Nat} {known known' : Nat → Bool} (hle : KnownLe known known') {c T : Nat}
    (hT : T ∈ knownSupers n known c) : T ∈ knownSupers n known' c := by
  obtain ⟨h0, h1, h2, h3⟩ := mem_knownSupers.mp hT
  exact mem_knownSupers.mpr ⟨h0, h1, h2, hle T h3⟩

variable {α : Type} [AddCommGroup α] [LinearOrder α] [IsOrderedAddMonoid α]

/-! ### G. monotonicity in knowledge -/

/-- **C07 (lower).**  More knowledge about the same superadditive game gives a larger lower bound. -/
theorem loSpec_mono_knowledge {n : Nat} {known known' : Nat → Bool} (hmin : MinInfo n known)
    (hle : KnownLe known known') {v : Nat → α} (hv : SA n v) :
    ∀ c, c < 2 ^ n → loSpec known v c ≤ loSpec known' v c := by
  have hmin' := minInfo_mono hmin hle
  intro c
  induction c using Nat.strong_induction_on with
  | _ c ih =>
    intro hc
    cases hk' : known' c with
    | true =>
      rw [loSpec_known known' v hk']
      exact loSpec_le_completion hmin (completion_self known hv) c hc
    | false =>
      have hk : known c = false := by
        cases h : known c with
        | false => rfl
        | true => rw [hle c h] at hk'; cases hk'
      obtain ⟨x, hx, he⟩ := loSpec_unknown_attained hmin v hc hk
      have hlt := properSubs_lt hx
      rw [he]
      exact le_trans (add_le_add (ih x hlt.1 (by omega)) (ih (c - x) hlt.2 (by omega)))
        (loSpec_split_le known' v hk' hx)

/-- **C07 (upper).**  More knowledge about the same superadditive game gives a smaller upper bound. -/
theorem upSpec_anti_knowledge {n : Nat} {known known' : Nat → Bool} (hmin : MinInfo n known)
    (hle : KnownLe known known') {v : Nat → α} (hv : SA n v) :
    ∀ c, c < 2 ^ n → upSpec n known' v c ≤ upSpec n known v c := by
  have hmin' := minInfo_mono hmin hle
  intro c hc
  cases hk' : known' c with
  | true =>
    rw [upSpec_known n known' v hk']
    exact completion_le_upSpec hmin (completion_self known hv) c hc
  | false =>
    have hk : known c = false := by
      cases h : known c with
      | false => rfl
      | true => rw [hle c h] at hk'; cases hk'
    obtain ⟨T, hT, he⟩ := upSpec_unknown_attained hmin v hc hk
    have hT0 := (mem_knownSupers.mp hT).1
    rw [he]
    exact le_trans (upSpec_le_cand n known' v hk' (knownSupers_mono hle hT))
      (sub_le_sub_left (loSpec_mono_knowledge hmin hle hv (T - c) (by omega)) _)

/-- **C07.**  The interval after learning more is nested in the interval before, and still contains `v`. -/
theorem interval_nested {n : Nat} {known known' : Nat → Bool} (hmin : MinInfo n known)
    (hle : KnownLe known known') {v : Nat → α} (hv : SA n v) {c : Nat} (hc : c < 2 ^ n) :
    loSpec known v c ≤ loSpec known' v c ∧ loSpec known' v c ≤ v c ∧
      v c ≤ upSpec n known' v c ∧ upSpec n known' v c ≤ upSpec n known v c :=
  ⟨loSpec_mono_knowledge hmin hle hv c hc,
   loSpec_le_completion (minInfo_mono hmin hle) (completion_self known' hv) c hc,
   completion_le_upSpec (minInfo_mono hmin hle) (completion_self known' hv) c hc,
   upSpec_anti_knowledge hmin hle hv c hc⟩

/-! ### G, chain version: reveals made one at a time -/

/-- reveal the value of coalition `m` -/
def revealMask (known : Nat → Bool) (m : Nat) : Nat → Bool := fun c => known c || c == m

/-- reveal a list of coalitions one at a time, left to right -/
def revealMasks (known : Nat → Bool) (ms : List Nat) : Nat → Bool := ms.foldl revealMask known

theorem knownLe_reveal (known : Nat → Bool) (m : Nat) : KnownLe known (revealMask known m) := by
  intro c h; simp [revealMask, h]

theorem knownLe_revealL (known : Nat → Bool) (ms : List Nat) : KnownLe known (revealMasks known ms) := by
  unfold revealMasks
  induction ms generalizing known with
  | nil => exact KnownLe.refl known
  | cons m ms ih => exact (knownLe_reveal known m).trans (ih (revealMask known m))

theorem revealL_append (known : Nat → Bool) (ms ms' : List Nat) :
    revealMasks known (ms ++ ms') = revealMasks (revealMasks known ms) ms' := by
  simp [revealMasks, List.foldl_append]

/-- **C07, chain.**  Along any sequence of reveals of values of one superadditive game the intervals are
    nested: the interval after `ms ++ ms'` lies inside the interval after `ms`. -/
theorem reveal_chain_nested {n : Nat} {known : Nat → Bool} (hmin : MinInfo n known) {v : Nat → α}
    (hv : SA n v) (ms ms' : List Nat) {c : Nat} (hc : c < 2 ^ n) :
    loSpec (revealMasks known ms) v c ≤ loSpec (revealMasks known (ms ++ ms')) v c ∧
      upSpec n (revealMasks known (ms ++ ms')) v c ≤ upSpec n (revealMasks known ms) v c := by
  rw [revealL_append]
  have hm := minInfo_mono hmin (knownLe_revealL known ms)
  exact ⟨loSpec_mono_knowledge hm (knownLe_revealL _ ms') hv c hc,
    upSpec_anti_knowledge hm (knownLe_revealL _ ms') hv c hc⟩

/-! ### H. gaps -/

/-- the gap is non-negative for a partial game of a superadditive `v` -/
theorem gap_nonneg {n : Nat} {known : Nat → Bool} (hmin : MinInfo n known) {v : Nat → α} (hv : SA n v)
    {c : Nat} (hc : c < 2 ^ n) : 0 ≤ upSpec n known v c - loSpec known v c :=
  sub_nonneg.mpr (loSpec_le_upSpec hmin ⟨v, completion_self known hv⟩ c hc)

/-- **H.**  Learning more never widens a gap; both gaps are non-negative. -/
theorem gap_anti_knowledge {n : Nat} {known known' : Nat → Bool} (hmin : MinInfo n known)
    (hle : KnownLe known known') {v : Nat → α} (hv : SA n v) {c : Nat} (hc : c < 2 ^ n) :
    upSpec n known' v c - loSpec known' v c ≤ upSpec n known v c - loSpec known v c ∧
      0 ≤ upSpec n known' v c - loSpec known' v c ∧ 0 ≤ upSpec n known v c - loSpec known v c :=
  ⟨sub_le_sub (upSpec_anti_knowledge hmin hle hv c hc) (loSpec_mono_knowledge hmin hle hv c hc),
   gap_nonneg (minInfo_mono hmin hle) hv hc, gap_nonneg hmin hv hc⟩

omit [IsOrderedAddMonoid α] in
/-- **H.**  With full knowledge the gap is zero (indeed both bounds are the value). -/
theorem gap_full_knowledge {n : Nat} {known : Nat → Bool} (val : Nat → α)
    (hall : ∀ c, c < 2 ^ n → known c = true) {c : Nat} (hc : c < 2 ^ n) :
    loSpec known val c = val c ∧ upSpec n known val c = val c ∧
      upSpec n known val c - loSpec known val c = 0 := by
  have hk := hall c hc
  rw [loSpec_known known val hk, upSpec_known n known val hk]
  exact ⟨rfl, rfl, sub_self _⟩

/-! ### a concrete 3-player instance: the hypotheses are satisfiable -/

section example3

/-- decidable reformulation of `SA` -/
theorem SA_iff_bounded {β : Type} [Add β] [LE β] (n : Nat) (v : Nat → β) :
    SA n v ↔ ∀ a, a < 2 ^ n → ∀ b, b < 2 ^ n → a &&& b = 0 → v a + v b ≤ v (a ||| b) :=
  ⟨fun h a ha b hb => h a b ha hb, fun h a b ha hb => h a ha b hb⟩

/-- a strictly superadditive 3-player game (ids 0..7) -/
def exV : Nat → Int := fun c => [0, 1, 2, 4, 1, 3, 5, 9].getD c 0

/-- minimal information: ∅, the singletons 1, 2, 4 and the grand coalition 7 -/
def exKnown : Nat → Bool := fun c => c == 0 || c == 1 || c == 2 || c == 4 || c == 7

/-- additionally the pair {0,1} (id 3) -/
def exKnown' : Nat → Bool := revealMask exKnown 3

theorem exV_SA : SA 3 exV := by rw [SA_iff_bounded]; decide

theorem exKnown_minInfo : MinInfo 3 exKnown := by unfold MinInfo; decide

theorem exKnown_le : KnownLe exKnown exKnown' := knownLe_reveal exKnown 3

theorem ex_completion : Completion 3 exKnown exV exV := completion_self exKnown exV_SA

/-- hypotheses of C are satisfiable -/
example : ∀ c, c < 2 ^ 3 → loSpec exKnown exV c ≤ exV c ∧ exV c ≤ upSpec 3 exKnown exV c :=
  soundness exKnown_minInfo ex_completion

/-- hypotheses of D are satisfiable -/
example : Completion 3 exKnown exV (loSpec exKnown exV) :=
  loSpec_completion exKnown_minInfo ⟨exV, ex_completion⟩

/-- hypotheses of E are satisfiable (coalition 3 = {0,1} is unknown) -/
example : ∃ w, Completion 3 exKnown exV w ∧ w 3 = upSpec 3 exKnown exV 3 :=
  upSpec_attained exKnown_minInfo ⟨exV, ex_completion⟩ (by decide) (by decide)

/-- hypotheses of F are satisfiable -/
example : (∃ ps, IsPartition exKnown 3 ps ∧ (ps.map exV).sum = loSpec exKnown exV 3) ∧
    ∀ ps, IsPartition exKnown 3 ps → (ps.map exV).sum ≤ loSpec exKnown exV 3 :=
  loSpec_isGreatest_partition exKnown_minInfo ⟨exV, ex_completion⟩ (by decide) (by decide)

/-- hypotheses of G are satisfiable -/
example : ∀ c, c < 2 ^ 3 → loSpec exKnown exV c ≤ loSpec exKnown' exV c ∧
    upSpec 3 exKnown' exV c ≤ upSpec 3 exKnown exV c :=
  fun c hc => ⟨loSpec_mono_knowledge exKnown_minInfo exKnown_le exV_SA c hc,
    upSpec_anti_knowledge exKnown_minInfo exKnown_le exV_SA c hc⟩

/-- hypotheses of H are satisfiable -/
example : upSpec 3 exKnown' exV 5 - loSpec exKnown' exV 5 ≤ upSpec 3 exKnown exV 5 - loSpec exKnown exV 5 :=
  (gap_anti_knowledge exKnown_minInfo exKnown_le exV_SA (by decide)).1

/-- the instance is not degenerate: at the unknown coalition 3 = {0,1} the bounds are
    `lo = v{0} + v{1} = 3 < v = 4 < up = v(N) − v{2} = 8` -/
example : loSpec exKnown exV 3 = 3 ∧ upSpec 3 exKnown exV 3 = 8 := by
  have hk : exKnown 3 = false := by decide
  constructor
  · apply le_antisymm
    · obtain ⟨x, hx, he⟩ := loSpec_unknown_attained exKnown_minInfo exV (by decide : 3 < 2 ^ 3) hk
      have hx' : x = 1 ∨ x = 2 := by
        have : x ∈ [1, 2] := by
          have h : properSubs 3 = [1, 2] := by decide
          rwa [h] at hx
        simpa using this
      rcases hx' with rfl | rfl
      · rw [he, loSpec_known exKnown exV (by decide : exKnown 1 = true),
          loSpec_known exKnown exV (by decide : exKnown (3 - 1) = true)]
        decide
      · rw [he, loSpec_known exKnown exV (by decide : exKnown 2 = true),
          loSpec_known exKnown exV (by decide : exKnown (3 - 2) = true)]
        decide
    · have h := loSpec_split_le exKnown exV hk (x := 1) (by decide)
      rw [loSpec_known exKnown exV (by decide : exKnown 1 = true),
        loSpec_known exKnown exV (by decide : exKnown (3 - 1) = true)] at h
      exact h
  · obtain ⟨T, hT, he⟩ := upSpec_unknown_attained exKnown_minInfo exV (by decide : 3 < 2 ^ 3) hk
    have hT' : T = 7 := by
      have h : knownSupers 3 exKnown 3 = [7] := by decide
      rw [h] at hT
      simpa using hT
    subst hT'
    rw [he, loSpec_known exKnown exV (by decide : exKnown (7 - 3) = true)]
    decide

end example3

end ICG.SpecSA
