/-
  ICG.Lemmas.SpecSA2 — pure mathematics on the bound specification, part 2 (C02, tightness):

  D. if the partial game has a superadditive completion at all, the lower game `loSpec` is one
  E. for every unknown coalition `c` some completion attains `upSpec` at `c` (extreme upper completion)
  F. best-partition characterisation of `loSpec`
-/
import ICG.Lemmas.SpecSA1

namespace ICG.SpecSA

variable {α : Type} [AddCommGroup α] [LinearOrder α] [IsOrderedAddMonoid α]

/-! ### D. the lower game is a completion -/

/-- a superadditive game is non-positive at ∅ -/
theorem sa_zero_le {n : Nat} {w : Nat → α} (hw : SA n w) : w 0 ≤ 0 := by
  have h := hw 0 0 (Nat.two_pow_pos n) (Nat.two_pow_pos n) (by simp)
  simp only [Nat.or_self] at h
  have : w 0 + w 0 ≤ w 0 + 0 := by rwa [add_zero]
  exact le_of_add_le_add_left this

/-- `loSpec ∅ ≤ 0` whenever a completion exists -/
theorem loSpec_zero_le {n : Nat} {known : Nat → Bool} (hmin : MinInfo n known) {val : Nat → α}
    (hex : ∃ w, Completion n known val w) : loSpec known val 0 ≤ 0 := by
  obtain ⟨w, hw⟩ := hex
  rw [loSpec_known known val hmin.1, ← hw.2 0 (Nat.two_pow_pos n) hmin.1]
  exact sa_zero_le hw.1

/-- superadditivity of the lower game (needs one completion to exist: for a *known* union the inequality
    `lo a + lo b ≤ val (a ∪ b)` is a consistency condition on the data) -/
theorem loSpec_SA {n : Nat} {known : Nat → Bool} (hmin : MinInfo n known) {val : Nat → α}
    (hex : ∃ w, Completion n known val w) : SA n (loSpec known val) := by
  intro a b ha hb hab
  by_cases ha0 : a = 0
  · subst ha0
    have h0 := loSpec_zero_le hmin hex
    rw [Nat.zero_or]
    calc loSpec known val 0 + loSpec known val b ≤ 0 + loSpec known val b := add_le_add h0 le_rfl
      _ = loSpec known val b := zero_add _
  by_cases hb0 : b = 0
  · subst hb0
    have h0 := loSpec_zero_le hmin hex
    rw [Nat.or_zero]
    calc loSpec known val a + loSpec known val 0 ≤ loSpec known val a + 0 := add_le_add le_rfl h0
      _ = loSpec known val a := add_zero _
  have hadd := add_eq_or_of_and_eq_zero a b hab
  have hc : a ||| b < 2 ^ n := Nat.or_lt_two_pow ha hb
  cases hk : known (a ||| b) with
  | true =>
    obtain ⟨w, hw⟩ := hex
    rw [loSpec_known known val hk, ← hw.2 _ hc hk]
    exact le_trans (add_le_add (loSpec_le_completion hmin hw a ha) (loSpec_le_completion hmin hw b hb))
      (hw.1 a b ha hb hab)
  | false =>
    have hmem : a ∈ properSubs (a ||| b) :=
      mem_properSubs.mpr ⟨left_sub_or a b, ha0, by omega⟩
    have := loSpec_split_le known val hk hmem
    rwa [or_sub_left_of_disj hab] at this

/-- **C02 (lower tightness).**  If the partial game has any superadditive completion, the lower game is one;
    so the minimum over completions is attained simultaneously at every coalition. -/
theorem loSpec_completion {n : Nat} {known : Nat → Bool} (hmin : MinInfo n known) {val : Nat → α}
    (hex : ∃ w, Completion n known val w) : Completion n known val (loSpec known val) :=
  ⟨loSpec_SA hmin hex, fun _ _ hk => loSpec_known known val hk⟩

/-- `loSpec c` is the least value any completion takes at `c` -/
theorem loSpec_isLeast {n : Nat} {known : Nat → Bool} (hmin : MinInfo n known) {val : Nat → α}
    (hex : ∃ w, Completion n known val w) {c : Nat} (hc : c < 2 ^ n) :
    (∃ w, Completion n known val w ∧ w c = loSpec known val c) ∧
      ∀ w, Completion n known val w → loSpec known val c ≤ w c :=
  ⟨⟨_, loSpec_completion hmin hex, rfl⟩, fun _ hw => loSpec_le_completion hmin hw c hc⟩

/-! ### E. the extreme upper completion -/

/-- `lo` with the value at ∅ replaced by `0` -/
def zeroAt (lo : Nat → α) (T : Nat) : α := if T = 0 then 0 else lo T

/-- candidate extreme completion for the upper bound `u` of coalition `c` (probe P12).  The complement term
    uses `zeroAt lo`, so that no assumption `val ∅ = 0` is needed. -/
def extremeUpper (lo : Nat → α) (c : Nat) (u : α) (T : Nat) : α :=
  if c &&& T = c then max (lo T) (u + zeroAt lo (T - c)) else lo T

theorem sup_or_left {c a b : Nat} (h : c &&& a = c) : c &&& (a ||| b) = c :=
  sub_trans h (left_sub_or a b)

theorem not_sup_of_disj {c a b : Nat} (hc : c ≠ 0) (h : c &&& a = c) (hab : a &&& b = 0) : ¬ c &&& b = c := by
  intro hb; apply hc; apply Nat.eq_of_testBit_eq; intro i
  have h1 := congrArg (·.testBit i) h; have h2 := congrArg (·.testBit i) hb
  have h3 := congrArg (·.testBit i) hab
  simp at h1 h2 h3 ⊢
  cases hc' : c.testBit i <;> cases ha : a.testBit i <;> cases hb' : b.testBit i <;> simp_all

theorem sub_or_disj {c a b : Nat} (h : c &&& a = c) (hab : a &&& b = 0) :
    (a - c) &&& b = 0 ∧ (a - c) ||| b = (a ||| b) - c := by
  rw [sub_eq_xor_of_sub h, sub_eq_xor_of_sub (sup_or_left (b := b) h)]
  constructor <;>
    (apply Nat.eq_of_testBit_eq; intro i
     have h1 := congrArg (·.testBit i) h; have h3 := congrArg (·.testBit i) hab
     simp at h1 h3 ⊢
     cases hc' : c.testBit i <;> cases ha : a.testBit i <;> cases hb' : b.testBit i <;> simp_all)

theorem zeroAt_mixed {n : Nat} {lo : Nat → α} (hlo : SA n lo) {a b : Nat} (ha : a < 2 ^ n) (hb : b < 2 ^ n)
    (hab : a &&& b = 0) : zeroAt lo a + lo b ≤ zeroAt lo (a ||| b) := by
  unfold zeroAt
  by_cases hb0 : b = 0
  · subst hb0
    rw [Nat.or_zero]
    calc _ ≤ (if a = 0 then 0 else lo a) + 0 := add_le_add le_rfl (sa_zero_le hlo)
      _ = _ := add_zero _
  by_cases ha0 : a = 0
  · subst ha0
    simp [hb0]
  · have : a ||| b ≠ 0 := by
      have := add_eq_or_of_and_eq_zero a b hab; omega
    simp only [ha0, this, if_false]
    exact hlo a b ha hb hab

theorem extremeUpper_SA {n : Nat} {lo : Nat → α} (hlo : SA n lo) {c : Nat} (hc : c ≠ 0) (u : α) :
    SA n (extremeUpper lo c u) := by
  intro a b ha hb hab
  have hba : b &&& a = 0 := by rw [Nat.and_comm]; exact hab
  unfold extremeUpper
  by_cases hca : c &&& a = c
  · have hcb : ¬ c &&& b = c := not_sup_of_disj hc hca hab
    have hcab : c &&& (a ||| b) = c := sup_or_left hca
    simp only [hca, hcb, hcab, if_true, if_false]
    obtain ⟨hd, he⟩ := sub_or_disj hca hab
    have h1 := hlo a b ha hb hab
    have h2 := zeroAt_mixed hlo (a := a - c) (b := b) (by omega) hb hd
    rw [he] at h2
    rcases le_total (lo a) (u + zeroAt lo (a - c)) with h | h
    · rw [max_eq_right h]
      calc u + zeroAt lo (a - c) + lo b = u + (zeroAt lo (a - c) + lo b) := by rw [add_assoc]
        _ ≤ u + zeroAt lo ((a ||| b) - c) := add_le_add le_rfl h2
        _ ≤ _ := le_max_right _ _
    · rw [max_eq_left h]; exact le_trans h1 (le_max_left _ _)
  · by_cases hcb : c &&& b = c
    · have hcab : c &&& (a ||| b) = c := by rw [Nat.or_comm]; exact sup_or_left hcb
      simp only [hca, hcb, hcab, if_true, if_false]
      obtain ⟨hd, he⟩ := sub_or_disj hcb hba
      have h1 := hlo a b ha hb hab
      have h2 := zeroAt_mixed hlo (a := b - c) (b := a) (by omega) ha hd
      rw [he, Nat.or_comm b a] at h2
      rcases le_total (lo b) (u + zeroAt lo (b - c)) with h | h
      · rw [max_eq_right h]
        calc lo a + (u + zeroAt lo (b - c)) = u + (zeroAt lo (b - c) + lo a) := by abel
          _ ≤ u + zeroAt lo ((a ||| b) - c) := add_le_add le_rfl h2
          _ ≤ _ := le_max_right _ _
      · rw [max_eq_left h]; exact le_trans h1 (le_max_left _ _)
    · simp only [hca, hcb, if_false]
      have h1 := hlo a b ha hb hab
      split
      · exact le_trans h1 (le_max_left _ _)
      · exact h1

/-- **C02 (upper tightness).**  For an unknown coalition `c` of a completable partial game there is a
    superadditive completion whose value at `c` is exactly `upSpec c`.  (No `val ∅ = 0` needed.) -/
theorem upSpec_attained {n : Nat} {known : Nat → Bool} (hmin : MinInfo n known) {val : Nat → α}
    (hex : ∃ w, Completion n known val w) {c : Nat} (hc : c < 2 ^ n) (hk : known c = false) :
    ∃ w, Completion n known val w ∧ w c = upSpec n known val c := by
  have hc0 : c ≠ 0 := minInfo_ne_zero hmin hk
  refine ⟨extremeUpper (loSpec known val) c (upSpec n known val c), ⟨?_, ?_⟩, ?_⟩
  · exact extremeUpper_SA (loSpec_SA hmin hex) hc0 _
  · intro T hT hkT
    unfold extremeUpper
    split
    · rename_i hcT
      have hne : T ≠ c := by rintro rfl; rw [hk] at hkT; cases hkT
      have hmem : T ∈ knownSupers n known c := mem_knownSupers.mpr ⟨hT, hcT, hne, hkT⟩
      have hle := upSpec_le_cand n known val hk hmem
      have hTc : T - c ≠ 0 := by have := sub_le hcT; omega
      rw [loSpec_known known val hkT, zeroAt, if_neg hTc]
      apply max_eq_left
      have := add_le_add hle (le_refl (loSpec known val (T - c)))
      rwa [sub_add_cancel] at this
    · exact loSpec_known known val hkT
  · unfold extremeUpper
    rw [if_pos (Nat.and_self c), Nat.sub_self, zeroAt, if_pos rfl, add_zero]
    exact max_eq_right (loSpec_le_upSpec hmin hex c hc)

/-- the same for *every* `c < 2^n` (for a known `c` every completion has `w c = val c = upSpec c`) -/
theorem upSpec_attained' {n : Nat} {known : Nat → Bool} (hmin : MinInfo n known) {val : Nat → α}
    (hex : ∃ w, Completion n known val w) {c : Nat} (hc : c < 2 ^ n) :
    ∃ w, Completion n known val w ∧ w c = upSpec n known val c := by
  cases hk : known c with
  | false => exact upSpec_attained hmin hex hc hk
  | true =>
    obtain ⟨w, hw⟩ := hex
    exact ⟨w, hw, by rw [upSpec_known n known val hk, hw.2 c hc hk]⟩

/-- `upSpec c` is the greatest value any completion takes at `c` -/
theorem upSpec_isGreatest {n : Nat} {known : Nat → Bool} (hmin : MinInfo n known) {val : Nat → α}
    (hex : ∃ w, Completion n known val w) {c : Nat} (hc : c < 2 ^ n) :
    (∃ w, Completion n known val w ∧ w c = upSpec n known val c) ∧
      ∀ w, Completion n known val w → w c ≤ upSpec n known val c :=
  ⟨upSpec_attained' hmin hex hc, fun _ hw => completion_le_upSpec hmin hw c hc⟩

/-! ### F. best-partition characterisation of the lower bound -/

/-- union of a list of masks -/
def unionL (ps : List Nat) : Nat := ps.foldl (· ||| ·) 0

/-- `ps` is a partition of `c` into known non-empty coalitions -/
def IsPartition (known : Nat → Bool) (c : Nat) (ps : List Nat) : Prop :=
  (∀ p ∈ ps, known p = true ∧ p ≠ 0) ∧ ps.Pairwise (fun a b => a &&& b = 0) ∧
    ps.foldl (· ||| ·) 0 = c

theorem foldl_or_eq (ps : List Nat) (a : Nat) : ps.foldl (· ||| ·) a = a ||| unionL ps := by
  unfold unionL
  induction ps generalizing a with
  | nil => simp
  | cons p ps ih =>
    simp only [List.foldl_cons, Nat.zero_or]
    rw [ih (a ||| p), ih p, Nat.or_assoc]

theorem unionL_nil : unionL [] = 0 := rfl

theorem unionL_cons (p : Nat) (ps : List Nat) : unionL (p :: ps) = p ||| unionL ps := by
  show (p :: ps).foldl (· ||| ·) 0 = _
  rw [List.foldl_cons, Nat.zero_or, foldl_or_eq]

theorem unionL_append (ps qs : List Nat) : unionL (ps ++ qs) = unionL ps ||| unionL qs := by
  induction ps with
  | nil => simp [unionL_nil]
  | cons p ps ih => rw [List.cons_append, unionL_cons, unionL_cons, ih, Nat.or_assoc]

theorem mem_sub_unionL {ps : List Nat} {p : Nat} (hp : p ∈ ps) : p &&& unionL ps = p := by
  induction ps with
  | nil => cases hp
  | cons q ps ih =>
    rw [unionL_cons]
    rcases List.mem_cons.mp hp with rfl | h
    · exact left_sub_or _ _
    · exact sub_trans (ih h) (right_sub_or _ _)

theorem disj_unionL {ps : List Nat} {a : Nat} (h : ∀ p ∈ ps, a &&& p = 0) : a &&& unionL ps = 0 := by
  induction ps with
  | nil => simp [unionL_nil]
  | cons q ps ih =>
    rw [unionL_cons, Nat.and_or_distrib_left, h q List.mem_cons_self,
      ih (fun p hp => h p (List.mem_cons_of_mem _ hp))]
    rfl

theorem disj_of_sub_of_disj {p q x y : Nat} (hp : p &&& x = p) (hq : q &&& y = q) (hxy : x &&& y = 0) :
    p &&& q = 0 := by
  apply Nat.eq_of_testBit_eq; intro i
  have h1 := congrArg (·.testBit i) hp; have h2 := congrArg (·.testBit i) hq
  have h3 := congrArg (·.testBit i) hxy
  simp at h1 h2 h3 ⊢
  cases hp' : p.testBit i <;> cases hq' : q.testBit i <;> cases hx' : x.testBit i <;>
    cases hy' : y.testBit i <;> simp_all

omit [LinearOrder α] [IsOrderedAddMonoid α] in
theorem sum_map_append (f : Nat → α) (ps qs : List Nat) :
    ((ps ++ qs).map f).sum = (ps.map f).sum + (qs.map f).sum := by
  induction ps with
  | nil => simp
  | cons p ps ih => simp only [List.cons_append, List.map_cons, List.sum_cons, ih, add_assoc]

/-- **F (i), core.**  The values of a *non-empty* family of known, pairwise disjoint coalitions sum to at
    most `loSpec` of their union.  Uses superadditivity of `loSpec`, hence a completion must exist. -/
theorem sum_le_loSpec_unionL {n : Nat} {known : Nat → Bool} (hmin : MinInfo n known) {val : Nat → α}
    (hex : ∃ w, Completion n known val w) :
    ∀ ps : List Nat, ps ≠ [] → (∀ p ∈ ps, known p = true) → ps.Pairwise (fun a b => a &&& b = 0) →
      unionL ps < 2 ^ n → (ps.map val).sum ≤ loSpec known val (unionL ps) := by
  intro ps
  induction ps with
  | nil => intro h; exact absurd rfl h
  | cons p ps ih =>
    intro _ hkn hpw hlt
    rw [unionL_cons] at hlt ⊢
    have hp : p < 2 ^ n := Nat.lt_of_le_of_lt Nat.left_le_or hlt
    have hU : unionL ps < 2 ^ n := Nat.lt_of_le_of_lt Nat.right_le_or hlt
    rw [List.map_cons, List.sum_cons]
    by_cases hnil : ps = []
    · subst hnil
      simp [unionL_nil, loSpec_known known val (hkn p List.mem_cons_self)]
    · have hpw' := List.pairwise_cons.mp hpw
      have h1 := ih hnil (fun q hq => hkn q (List.mem_cons_of_mem _ hq)) hpw'.2 hU
      have hd : p &&& unionL ps = 0 := disj_unionL hpw'.1
      have h2 := loSpec_SA hmin hex p (unionL ps) hp hU hd
      rw [← loSpec_known known val (hkn p List.mem_cons_self)]
      exact le_trans (add_le_add le_rfl h1) h2

/-- **F (i).**  Every partition of `c ≠ ∅` into known coalitions has total value at most `loSpec c`
    (a completion must exist).  For `c = ∅` the only partition is `[]`, with sum `0`, and the statement
    `0 ≤ loSpec ∅ = val ∅` holds exactly when `val ∅ = 0` (see `partition_sum_le_loSpec'`). -/
theorem partition_sum_le_loSpec {n : Nat} {known : Nat → Bool} (hmin : MinInfo n known) {val : Nat → α}
    (hex : ∃ w, Completion n known val w) {c : Nat} (hc : c < 2 ^ n) (hc0 : c ≠ 0) {ps : List Nat}
    (hps : IsPartition known c ps) : (ps.map val).sum ≤ loSpec known val c := by
  obtain ⟨h1, h2, h3⟩ := hps
  have hU : unionL ps = c := h3
  have hne : ps ≠ [] := by rintro rfl; exact hc0 h3.symm
  have := sum_le_loSpec_unionL hmin hex ps hne (fun p hp => (h1 p hp).1) h2 (by rw [hU]; exact hc)
  rwa [hU] at this

/-- **F (i)** for every `c < 2^n`, under the extra hypothesis `val ∅ = 0`. -/
theorem partition_sum_le_loSpec' {n : Nat} {known : Nat → Bool} (hmin : MinInfo n known) {val : Nat → α}
    (hex : ∃ w, Completion n known val w) (hzero : val 0 = 0) {c : Nat} (hc : c < 2 ^ n) {ps : List Nat}
    (hps : IsPartition known c ps) : (ps.map val).sum ≤ loSpec known val c := by
  by_cases hc0 : c = 0
  · subst hc0
    have : ps = [] := by
      cases ps with
      | nil => rfl
      | cons p ps =>
        exfalso
        have hU : unionL (p :: ps) = 0 := hps.2.2
        have h1 := mem_sub_unionL (ps := p :: ps) (p := p) List.mem_cons_self
        rw [hU, Nat.and_zero] at h1
        exact (hps.1 p List.mem_cons_self).2 h1.symm
    subst this
    simp [loSpec_known known val hmin.1, hzero]
  · exact partition_sum_le_loSpec hmin hex hc hc0 hps

omit [IsOrderedAddMonoid α] in
/-- **F (ii).**  For every `c ≠ ∅` the lower bound is the value of some partition of `c` into known
    coalitions (no completion needed; `MinInfo` excludes the junk branch). -/
theorem exists_partition_eq_loSpec {n : Nat} {known : Nat → Bool} (hmin : MinInfo n known) (val : Nat → α) :
    ∀ c, c < 2 ^ n → c ≠ 0 → ∃ ps, IsPartition known c ps ∧ (ps.map val).sum = loSpec known val c := by
  intro c
  induction c using Nat.strong_induction_on with
  | _ c ih =>
    intro hc hc0
    cases hk : known c with
    | true =>
      refine ⟨[c], ⟨?_, List.pairwise_singleton _ _, by simp⟩, ?_⟩
      · intro p hp; rw [List.mem_singleton.mp hp]; exact ⟨hk, hc0⟩
      · simp [loSpec_known known val hk]
    | false =>
      obtain ⟨x, hx, he⟩ := loSpec_unknown_attained hmin val hc hk
      obtain ⟨hsub, hx0, hxc⟩ := mem_properSubs.mp hx
      have hlt := properSubs_lt hx
      obtain ⟨ps, ⟨hp1, hp2, hp3⟩, hps⟩ := ih x hlt.1 (by omega) hx0
      obtain ⟨qs, ⟨hq1, hq2, hq3⟩, hqs⟩ := ih (c - x) hlt.2 (by omega) (by have := sub_le hsub; omega)
      have hUp : unionL ps = x := hp3
      have hUq : unionL qs = c - x := hq3
      have hd := sub_or_self hsub
      refine ⟨ps ++ qs, ⟨?_, ?_, ?_⟩, ?_⟩
      · intro p hp
        rcases List.mem_append.mp hp with h | h
        · exact hp1 p h
        · exact hq1 p h
      · rw [List.pairwise_append]
        refine ⟨hp2, hq2, fun p hp q hq => ?_⟩
        have h1 := mem_sub_unionL hp; rw [hUp] at h1
        have h2 := mem_sub_unionL hq; rw [hUq] at h2
        exact disj_of_sub_of_disj h1 h2 hd.2
      · show unionL (ps ++ qs) = c
        rw [unionL_append, hUp, hUq, hd.1]
      · rw [sum_map_append, hps, hqs, he]

omit [IsOrderedAddMonoid α] in
/-- **F (ii)** for every `c < 2^n`, under the extra hypothesis `val ∅ = 0` (the empty partition of ∅). -/
theorem exists_partition_eq_loSpec' {n : Nat} {known : Nat → Bool} (hmin : MinInfo n known) (val : Nat → α)
    (hzero : val 0 = 0) {c : Nat} (hc : c < 2 ^ n) :
    ∃ ps, IsPartition known c ps ∧ (ps.map val).sum = loSpec known val c := by
  by_cases hc0 : c = 0
  · subst hc0
    refine ⟨[], ⟨by simp, List.Pairwise.nil, rfl⟩, ?_⟩
    simp [loSpec_known known val hmin.1, hzero]
  · exact exists_partition_eq_loSpec hmin val c hc hc0

/-- **C02 (lower formula).**  For a completable partial game and `∅ ≠ c < 2^n`, `loSpec c` is the greatest
    total value of a partition of `c` into known coalitions. -/
theorem loSpec_isGreatest_partition {n : Nat} {known : Nat → Bool} (hmin : MinInfo n known) {val : Nat → α}
    (hex : ∃ w, Completion n known val w) {c : Nat} (hc : c < 2 ^ n) (hc0 : c ≠ 0) :
    (∃ ps, IsPartition known c ps ∧ (ps.map val).sum = loSpec known val c) ∧
      ∀ ps, IsPartition known c ps → (ps.map val).sum ≤ loSpec known val c :=
  ⟨exists_partition_eq_loSpec hmin val c hc hc0, fun _ hps => partition_sum_le_loSpec hmin hex hc hc0 hps⟩

end ICG.SpecSA
