/-
  ICG.Lemmas.Enum — the enumeration lemmas behind property C18 and the proof of `enumFacts : EnumFacts`.

  Every statement is for every mask and every player count (no bounded enumeration).
-/
import ICG.Model.Bits
import ICG.Model.Bounds
import ICG.Spec.EnumFacts
import ICG.Lemmas.BitFacts
import Mathlib.Data.List.Sublists
import Mathlib.Data.List.Sort

namespace ICG

/-! ### unfolding equations -/

theorem size_zero : size 0 = 0 := by rw [size]; simp

theorem size_of_ne_zero {c : Nat} (h : c ≠ 0) : size c = c % 2 + size (c / 2) := by
  rw [size]; simp [h]

theorem size_eq (c : Nat) : size c = c % 2 + size (c / 2) := by
  by_cases h : c = 0
  · subst h; simp [size_zero]
  · exact size_of_ne_zero h

theorem playersFrom_zero (i : Nat) : playersFrom i 0 = [] := by rw [playersFrom]; simp

theorem playersFrom_of_ne_zero {c : Nat} (i : Nat) (h : c ≠ 0) :
    playersFrom i c = (if c % 2 = 1 then [i] else []) ++ playersFrom (i + 1) (c / 2) := by
  rw [playersFrom]; simp [h]

theorem playersFrom_eq (i c : Nat) :
    playersFrom i c = (if c % 2 = 1 then [i] else []) ++ playersFrom (i + 1) (c / 2) := by
  by_cases h : c = 0
  · subst h; simp [playersFrom_zero]
  · exact playersFrom_of_ne_zero i h

/-! ### 1. `players` -/

theorem mem_playersFrom : ∀ (c i j : Nat), j ∈ playersFrom i c ↔ ∃ k, j = i + k ∧ c.testBit k = true := by
  intro c
  induction c using Nat.strongRecOn with
  | _ c ih =>
    intro i j
    by_cases hc : c = 0
    · subst hc; simp [playersFrom_zero]
    · rw [playersFrom_of_ne_zero i hc, List.mem_append, ih (c / 2) (by omega)]
      constructor
      · rintro (h | ⟨k, rfl, hk⟩)
        · by_cases h1 : c % 2 = 1
          · simp only [h1, if_true, List.mem_singleton] at h
            exact ⟨0, by omega, by simp [Nat.testBit_zero, h1]⟩
          · simp [h1] at h
        · exact ⟨k + 1, by omega, by rw [Nat.testBit_succ]; exact hk⟩
      · rintro ⟨k, rfl, hk⟩
        cases k with
        | zero =>
          left
          have : c % 2 = 1 := by simpa [Nat.testBit_zero] using hk
          simp [this]
        | succ k =>
          right
          exact ⟨k, by omega, by rw [Nat.testBit_succ] at hk; exact hk⟩

theorem mem_players {c i : Nat} : i ∈ players c ↔ c.testBit i = true := by
  unfold players
  rw [mem_playersFrom]
  constructor
  · rintro ⟨k, rfl, hk⟩; simpa using hk
  · intro h; exact ⟨i, by omega, h⟩

theorem playersFrom_pairwise : ∀ (c i : Nat), (playersFrom i c).Pairwise (· < ·) := by
  intro c
  induction c using Nat.strongRecOn with
  | _ c ih =>
    intro i
    by_cases hc : c = 0
    · subst hc; simp [playersFrom_zero]
    · rw [playersFrom_of_ne_zero i hc]
      have hrest := ih (c / 2) (by omega) (i + 1)
      by_cases h1 : c % 2 = 1
      · simp only [h1, if_true, List.singleton_append, List.pairwise_cons]
        refine ⟨?_, hrest⟩
        intro j hj
        rw [mem_playersFrom] at hj
        obtain ⟨k, rfl, _⟩ := hj
        omega
      · simpa [h1] using hrest

theorem players_pairwise (c : Nat) : (players c).Pairwise (· < ·) := playersFrom_pairwise c 0

theorem players_nodup (c : Nat) : (players c).Nodup :=
  (players_pairwise c).imp (fun h => Nat.ne_of_lt h)

/-! ### 2. `size` -/

theorem length_playersFrom : ∀ (c i : Nat), (playersFrom i c).length = size c := by
  intro c
  induction c using Nat.strongRecOn with
  | _ c ih =>
    intro i
    by_cases hc : c = 0
    · subst hc; simp [playersFrom_zero, size_zero]
    · rw [playersFrom_of_ne_zero i hc, size_of_ne_zero hc, List.length_append, ih (c / 2) (by omega)]
      by_cases h1 : c % 2 = 1
      · simp [h1]
      · have : c % 2 = 0 := by omega
        simp [this]

theorem size_eq_length_players (c : Nat) : size c = (players c).length :=
  (length_playersFrom c 0).symm

theorem size_or_of_disjoint : ∀ (a b : Nat), a &&& b = 0 → size (a ||| b) = size a + size b := by
  intro a
  induction a using Nat.strongRecOn with
  | _ a ih =>
    intro b h
    by_cases ha : a = 0
    · subst ha; simp [size_zero]
    · have hd := ih (a / 2) (by omega) (b / 2) (by rw [← Nat.and_div_two, h])
      rw [size_eq (a ||| b), size_eq a, size_eq b, Nat.or_div_two, hd]
      have hm : (a &&& b) % 2 = 0 := by rw [h]
      have hor : (a ||| b) % 2 = 1 ↔ a % 2 = 1 ∨ b % 2 = 1 := Nat.or_mod_two_eq_one
      have hand : (a &&& b) % 2 = 1 ↔ a % 2 = 1 ∧ b % 2 = 1 := Nat.and_mod_two_eq_one
      omega

theorem size_pos_of_ne_zero : ∀ (c : Nat), c ≠ 0 → 0 < size c := by
  intro c
  induction c using Nat.strongRecOn with
  | _ c ih =>
    intro hc
    rw [size_of_ne_zero hc]
    by_cases h1 : c % 2 = 1
    · omega
    · have := ih (c / 2) (by omega) (by omega)
      omega

theorem size_eq_zero_iff {c : Nat} : size c = 0 ↔ c = 0 := by
  constructor
  · intro h
    by_cases hc : c = 0
    · exact hc
    · have := size_pos_of_ne_zero c hc; omega
  · rintro rfl; exact size_zero

/-- `size` is additive over a sub-mask and its complement within `c` -/
theorem size_split {x c : Nat} (h : x &&& c = x) : size c = size x + size (c ^^^ x) := by
  rw [← size_or_of_disjoint x (c ^^^ x) (and_xor_self_of_sub h), or_xor_self_of_sub h]

theorem size_le_of_sub {x c : Nat} (h : x &&& c = x) : size x ≤ size c := by
  rw [size_split h]; omega

theorem size_lt {x c : Nat} (h : x &&& c = x) (hne : x ≠ c) : size x < size c := by
  rw [size_split h]
  have : c ^^^ x ≠ 0 := by
    intro h0
    apply hne
    have := or_xor_self_of_sub h
    rw [h0] at this
    simpa using this
  have := size_pos_of_ne_zero _ this
  omega

theorem size_le : ∀ (n c : Nat), c < 2 ^ n → size c ≤ n := by
  intro n
  induction n with
  | zero => intro c hc; have : c = 0 := by simpa using hc
            subst this; simp [size_zero]
  | succ n ih =>
    intro c hc
    rw [size_eq c]
    have := ih (c / 2) (by rw [Nat.pow_succ] at hc; omega)
    omega

/-! ### 3. `fromPlayers` -/

theorem nodup_eraseDups : ∀ (l : List Nat), l.eraseDups.Nodup := by
  intro l
  induction h : l.length using Nat.strongRecOn generalizing l with
  | _ m ih =>
    cases l with
    | nil => simp
    | cons a as =>
      rw [List.eraseDups_cons, List.nodup_cons]
      constructor
      · simp
      · apply ih _ _ _ rfl
        subst h
        exact Nat.lt_succ_of_le (List.length_filter_le _ _)

theorem eraseDups_of_nodup : ∀ (l : List Nat), l.Nodup → l.eraseDups = l := by
  intro l
  induction l with
  | nil => simp
  | cons a as ih =>
    intro h
    rw [List.nodup_cons] at h
    rw [List.eraseDups_cons]
    have : as.filter (fun b => !b == a) = as := by
      rw [List.filter_eq_self]
      intro b hb
      have : b ≠ a := fun e => h.1 (e ▸ hb)
      simp [this]
    rw [this, ih h.2]

theorem testBit_foldl_add_two_pow : ∀ (l : List Nat) (acc : Nat), l.Nodup →
    (∀ p ∈ l, acc.testBit p = false) → ∀ i,
    (l.foldl (fun id p => id + 2 ^ p) acc).testBit i = (acc.testBit i || decide (i ∈ l)) := by
  intro l
  induction l with
  | nil => simp
  | cons p l ih =>
    intro acc hnd hacc i
    rw [List.nodup_cons] at hnd
    have hp : acc.testBit p = false := hacc p (by simp)
    have hdisj : acc &&& 2 ^ p = 0 := by
      apply Nat.eq_of_testBit_eq; intro j
      simp only [Nat.testBit_and, Nat.testBit_two_pow, Nat.zero_testBit]
      by_cases hj : p = j
      · subst hj; simp [hp]
      · simp [hj]
    rw [List.foldl_cons, add_eq_or_of_and_eq_zero _ _ hdisj]
    rw [ih (acc ||| 2 ^ p) hnd.2 ?_ i]
    · simp only [Nat.testBit_or, Nat.testBit_two_pow, List.mem_cons]
      by_cases hi : p = i
      · subst hi; simp
      · have : ¬ i = p := fun e => hi e.symm
        simp [hi, this]
    · intro q hq
      have hqp : p ≠ q := fun e => hnd.1 (e ▸ hq)
      simp [Nat.testBit_or, hacc q (by simp [hq]), hqp]

/-- `Coalition.from_players`: bit `i` is set iff `i` is listed (duplicates are harmless) -/
theorem testBit_fromPlayers (l : List Nat) (i : Nat) : (fromPlayers l).testBit i = decide (i ∈ l) := by
  unfold fromPlayers
  rw [testBit_foldl_add_two_pow _ 0 (nodup_eraseDups l) (by simp) i]
  simp

theorem testBit_fromPlayers_iff {l : List Nat} {i : Nat} : (fromPlayers l).testBit i = true ↔ i ∈ l := by
  simp [testBit_fromPlayers]

theorem fromPlayers_players (c : Nat) : fromPlayers (players c) = c := by
  apply Nat.eq_of_testBit_eq; intro i
  rw [testBit_fromPlayers]
  cases h : c.testBit i
  · simp [mem_players, h]
  · simp [mem_players, h]

/-- a strictly increasing list is the player list of its mask -/
theorem players_fromPlayers {l : List Nat} (h : l.Pairwise (· < ·)) : players (fromPlayers l) = l :=
  (players_pairwise _).eq_of_mem_iff h (fun a => by rw [mem_players, testBit_fromPlayers_iff])

/-! ### 4. `combos`, `powerset`, `subCoalitionsObj` -/

theorem combos_perm {β} : ∀ (k : Nat) (l : List β), (combos k l).Perm (List.sublistsLen k l)
  | 0, l => by simp [combos]
  | k+1, [] => by simp [combos]
  | k+1, a :: l => by
    rw [combos, List.sublistsLen_succ_cons]
    exact (List.perm_append_comm).trans (List.Perm.append (combos_perm (k+1) l) ((combos_perm k l).map _))

theorem combos_nodup {β} {k : Nat} {l : List β} (h : l.Nodup) : (combos k l).Nodup :=
  (combos_perm k l).nodup_iff.mpr (List.nodup_sublistsLen k h)

theorem mem_combos {β} {k : Nat} {l s : List β} : s ∈ combos k l ↔ s.Sublist l ∧ s.length = k :=
  (combos_perm k l).mem_iff.trans List.mem_sublistsLen

theorem mem_powerset {β} {l s : List β} : s ∈ powerset l ↔ s.Sublist l := by
  unfold powerset
  simp only [List.mem_flatMap, List.mem_range, mem_combos]
  constructor
  · rintro ⟨r, _, h, _⟩; exact h
  · intro h; exact ⟨s.length, Nat.lt_succ_of_le h.length_le, h, rfl⟩

theorem powerset_nodup {β} {l : List β} (h : l.Nodup) : (powerset l).Nodup := by
  unfold powerset
  rw [List.nodup_flatMap]
  refine ⟨fun r _ => combos_nodup h, ?_⟩
  refine List.Pairwise.imp_of_mem ?_ (List.nodup_range (n := l.length + 1))
  intro a b _ _ hab s hsa hsb
  rw [mem_combos] at hsa hsb
  exact hab (hsa.2.symm.trans hsb.2)

theorem sublist_players_iff {s : List Nat} {c : Nat} :
    s.Sublist (players c) ↔ s.Pairwise (· < ·) ∧ ∀ i ∈ s, c.testBit i = true := by
  constructor
  · intro h
    exact ⟨(players_pairwise c).sublist h, fun i hi => mem_players.mp (h.subset hi)⟩
  · rintro ⟨hs, hmem⟩
    have : s = (players c).filter (fun i => decide (i ∈ s)) := by
      apply hs.eq_of_mem_iff ((players_pairwise c).filter _)
      intro a
      simp only [List.mem_filter, decide_eq_true_eq, mem_players]
      exact ⟨fun h => ⟨hmem a h, h⟩, fun h => h.2⟩
    rw [this]
    exact List.filter_sublist

theorem mem_subCoalitionsObj {x c : Nat} : x ∈ subCoalitionsObj c ↔ x &&& c = x := by
  unfold subCoalitionsObj
  simp only [List.mem_map, mem_powerset, sublist_players_iff]
  constructor
  · rintro ⟨s, ⟨_, hmem⟩, rfl⟩
    apply sub_of_testBit
    intro i hi
    exact hmem i (testBit_fromPlayers_iff.mp hi)
  · intro h
    exact ⟨players x, ⟨players_pairwise x, fun i hi => sub_testBit h i (mem_players.mp hi)⟩,
      fromPlayers_players x⟩

theorem subCoalitionsObj_nodup (c : Nat) : (subCoalitionsObj c).Nodup := by
  unfold subCoalitionsObj
  apply List.Nodup.map_on _ (powerset_nodup (players_nodup c))
  intro s hs t ht heq
  rw [mem_powerset, sublist_players_iff] at hs ht
  rw [← players_fromPlayers hs.1, ← players_fromPlayers ht.1, heq]

theorem mem_saSubs {x c : Nat} : x ∈ saSubs c ↔ x &&& c = x ∧ x ≠ 0 ∧ x ≠ c := by
  unfold saSubs
  simp only [List.mem_filter, mem_subCoalitionsObj, Bool.and_eq_true, bne_iff_ne, ne_eq]
  constructor
  · rintro ⟨h, h1, h2⟩; exact ⟨h, h2, h1⟩
  · rintro ⟨h, h1, h2⟩; exact ⟨h, h2, h1⟩

theorem saSubs_nodup (c : Nat) : (saSubs c).Nodup := (subCoalitionsObj_nodup c).filter _

/-! ### 5. `superCoalitionsObj` -/

theorem testBit_grand (n i : Nat) : (grand n).testBit i = decide (i < n) := by
  unfold grand; exact Nat.testBit_two_pow_sub_one n i

theorem lt_two_pow_iff_testBit {x n : Nat} : x < 2 ^ n ↔ ∀ i, n ≤ i → x.testBit i = false := by
  constructor
  · intro h i hi
    exact Nat.testBit_lt_two_pow (Nat.lt_of_lt_of_le h (Nat.pow_le_pow_right (by omega) hi))
  · intro h; exact Nat.lt_pow_two_of_testBit x h

/-- sub-masks of the complement, each joined with `c`, are exactly the supersets within `n` players -/
theorem super_iff_exists {c n T : Nat} (hc : c < 2 ^ n) :
    (∃ s, s &&& diff (grand n) c = s ∧ c ||| s = T) ↔ (T < 2 ^ n ∧ c &&& T = c) := by
  constructor
  · rintro ⟨s, hs, rfl⟩
    refine ⟨?_, ?_⟩
    · apply Nat.or_lt_two_pow hc
      rw [lt_two_pow_iff_testBit]
      intro i hi
      cases hsi : s.testBit i
      · rfl
      · have := sub_testBit hs i hsi
        rw [diff_testBit, testBit_grand] at this
        have hlt : ¬ i < n := by omega
        simp [hlt] at this
    · apply sub_of_testBit; intro i hi; simp [hi]
  · rintro ⟨hT, hcT⟩
    refine ⟨diff T c, ?_, ?_⟩
    · apply sub_of_testBit; intro i hi
      rw [diff_testBit] at hi ⊢
      rw [testBit_grand]
      simp only [Bool.and_eq_true, Bool.not_eq_true', decide_eq_true_eq] at hi ⊢
      refine ⟨?_, hi.2⟩
      by_contra hlt
      have := (lt_two_pow_iff_testBit.mp hT) i (by omega)
      rw [this] at hi; exact absurd hi.1 (by simp)
    · apply Nat.eq_of_testBit_eq; intro i
      rw [Nat.testBit_or, diff_testBit]
      have := congrArg (·.testBit i) hcT
      simp only [Nat.testBit_and] at this
      cases h1 : c.testBit i <;> cases h2 : T.testBit i <;> simp_all

theorem mem_superCoalitionsObj {c n T : Nat} (hc : c < 2 ^ n) :
    T ∈ superCoalitionsObj c n ↔ (T < 2 ^ n ∧ c &&& T = c) := by
  unfold superCoalitionsObj
  simp only [List.mem_map, mem_subCoalitionsObj]
  exact super_iff_exists hc

theorem or_injOn_disjoint {c s t : Nat} (hs : s &&& c = 0) (ht : t &&& c = 0) (h : c ||| s = c ||| t) :
    s = t := by
  apply Nat.eq_of_testBit_eq; intro i
  have h1 := congrArg (·.testBit i) hs
  have h2 := congrArg (·.testBit i) ht
  have h3 := congrArg (·.testBit i) h
  simp only [Nat.testBit_and, Nat.testBit_or, Nat.zero_testBit] at h1 h2 h3
  cases hc : c.testBit i <;> cases hs' : s.testBit i <;> cases ht' : t.testBit i <;> simp_all

theorem and_eq_zero_of_sub_diff {s g c : Nat} (hs : s &&& diff g c = s) : s &&& c = 0 := by
  apply Nat.eq_of_testBit_eq; intro i
  simp only [Nat.testBit_and, Nat.zero_testBit]
  cases hsi : s.testBit i
  · simp
  · have := sub_testBit hs i hsi
    rw [diff_testBit] at this
    simp only [Bool.and_eq_true, Bool.not_eq_true'] at this
    simp [this.2]

theorem superCoalitionsObj_nodup (c n : Nat) : (superCoalitionsObj c n).Nodup := by
  unfold superCoalitionsObj
  apply List.Nodup.map_on _ (subCoalitionsObj_nodup _)
  intro s hs t ht heq
  rw [mem_subCoalitionsObj] at hs ht
  exact or_injOn_disjoint (and_eq_zero_of_sub_diff hs) (and_eq_zero_of_sub_diff ht) heq

/-! ### 6. the id-array style -/

theorem two_pow_and_ne_zero_iff {i c : Nat} : (2 ^ i &&& c != 0) = c.testBit i := by
  cases h : c.testBit i
  · have : 2 ^ i &&& c = 0 := by
      apply Nat.eq_of_testBit_eq; intro j
      simp only [Nat.testBit_and, Nat.testBit_two_pow, Nat.zero_testBit]
      by_cases hj : i = j
      · subst hj; simp [h]
      · simp [hj]
    simp [this]
  · have : 2 ^ i &&& c ≠ 0 := by
      intro h0
      have := congrArg (·.testBit i) h0
      simp [Nat.testBit_and, h] at this
    simpa using this

theorem playersId_eq_filter (c n : Nat) : playersId c n = (List.range n).filter (fun i => c.testBit i) := by
  unfold playersId
  congr 1
  funext i
  exact two_pow_and_ne_zero_iff

theorem mem_playersId {c n i : Nat} : i ∈ playersId c n ↔ i < n ∧ c.testBit i = true := by
  rw [playersId_eq_filter]; simp

theorem playersId_pairwise (c n : Nat) : (playersId c n).Pairwise (· < ·) := by
  rw [playersId_eq_filter]; exact (List.pairwise_lt_range).filter _

/-- `coalition_ids.players(c, n)` is `Coalition(c).players`, for a mask within `n` players -/
theorem playersId_eq_players {c n : Nat} (hc : c < 2 ^ n) : playersId c n = players c := by
  apply (playersId_pairwise c n).eq_of_mem_iff (players_pairwise c)
  intro i
  rw [mem_playersId, mem_players]
  constructor
  · exact fun h => h.2
  · intro h
    refine ⟨?_, h⟩
    by_contra hlt
    have := (lt_two_pow_iff_testBit.mp hc) i (by omega)
    rw [this] at h; exact absurd h (by simp)

theorem sizeId_eq_length_playersId (c n : Nat) : sizeId c n = (playersId c n).length := rfl

theorem sizeId_eq_size {c n : Nat} (hc : c < 2 ^ n) : sizeId c n = size c := by
  rw [sizeId_eq_length_playersId, playersId_eq_players hc, size_eq_length_players]

theorem le_foldl_max : ∀ (l : List Nat) (a : Nat), a ≤ l.foldl max a ∧ ∀ x ∈ l, x ≤ l.foldl max a := by
  intro l
  induction l with
  | nil => simp
  | cons b l ih =>
    intro a
    rw [List.foldl_cons]
    have := ih (max a b)
    refine ⟨by omega, ?_⟩
    intro x hx
    rw [List.mem_cons] at hx
    rcases hx with rfl | hx
    · omega
    · exact this.2 x hx

/-- every set bit of `c` lies below `maxBitId c n` -/
theorem lt_maxBitId {c n i : Nat} (hc : c < 2 ^ n) (hi : c.testBit i = true) : i < maxBitId c n := by
  unfold maxBitId
  have hmem : i ∈ playersId c n := by rw [playersId_eq_players hc]; exact mem_players.mpr hi
  have := (le_foldl_max (playersId c n) 0).2 i hmem
  omega

theorem or_eq_iff_sub {x c : Nat} : x ||| c = c ↔ x &&& c = x := by
  constructor
  · intro h
    apply sub_of_testBit; intro i hi
    have := congrArg (·.testBit i) h
    simp only [Nat.testBit_or, hi, Bool.true_or] at this
    exact this.symm
  · intro h
    apply Nat.eq_of_testBit_eq; intro i
    rw [Nat.testBit_or]
    cases hx : x.testBit i
    · simp
    · simp [sub_testBit h i hx]

theorem sub_lt_two_pow_maxBitId {x c n : Nat} (hc : c < 2 ^ n) (h : x &&& c = x) : x < 2 ^ maxBitId c n := by
  rw [lt_two_pow_iff_testBit]
  intro i hi
  cases hx : x.testBit i
  · rfl
  · have := lt_maxBitId hc (sub_testBit h i hx)
    omega

/-- the list `coalition_ids.sub_coalitions(c, n)` returns when its assertion holds -/
def subIdList (c n : Nat) : List Nat := (List.range (2 ^ maxBitId c n)).filter (fun x => x ||| c == c)

theorem subCoalitionsId_ok {c n : Nat} (hc : c < 2 ^ n) : subCoalitionsId c n = .ok (subIdList c n) := by
  unfold subCoalitionsId subIdList
  rw [if_pos hc]

theorem subCoalitionsId_error {c n : Nat} (hc : 2 ^ n ≤ c) : subCoalitionsId c n = .error .assert := by
  unfold subCoalitionsId
  rw [if_neg (by omega)]

theorem mem_subIdList {c n x : Nat} (hc : c < 2 ^ n) : x ∈ subIdList c n ↔ x &&& c = x := by
  unfold subIdList
  simp only [List.mem_filter, List.mem_range, beq_iff_eq, or_eq_iff_sub]
  exact ⟨fun h => h.2, fun h => ⟨sub_lt_two_pow_maxBitId hc h, h⟩⟩

theorem subIdList_pairwise (c n : Nat) : (subIdList c n).Pairwise (· < ·) :=
  (List.pairwise_lt_range).filter _

theorem subIdList_nodup (c n : Nat) : (subIdList c n).Nodup :=
  (subIdList_pairwise c n).imp (fun h => Nat.ne_of_lt h)

/-- the list `coalition_ids.super_coalitions(c, n)` returns when its assertion holds -/
def superIdList (c n : Nat) : List Nat := (subIdList ((2 ^ n - 1) ^^^ c) n).map (fun x => x ||| c)

theorem opp_lt {c n : Nat} (hc : c < 2 ^ n) : (2 ^ n - 1) ^^^ c < 2 ^ n :=
  Nat.xor_lt_two_pow (by have := Nat.two_pow_pos n; omega) hc

theorem superCoalitionsId_ok {c n : Nat} (hc : c < 2 ^ n) : superCoalitionsId c n = .ok (superIdList c n) := by
  unfold superCoalitionsId superIdList
  rw [if_pos hc]
  simp only [subCoalitionsId_ok (opp_lt hc)]
  rfl

theorem superCoalitionsId_error {c n : Nat} (hc : 2 ^ n ≤ c) : superCoalitionsId c n = .error .assert := by
  unfold superCoalitionsId
  rw [if_neg (by omega)]

theorem opp_eq_diff {c n : Nat} (hc : c < 2 ^ n) : (2 ^ n - 1) ^^^ c = diff (grand n) c := by
  apply Nat.eq_of_testBit_eq; intro i
  rw [diff_testBit, testBit_grand, Nat.testBit_xor, Nat.testBit_two_pow_sub_one]
  by_cases hi : i < n
  · simp [hi]
  · have := (lt_two_pow_iff_testBit.mp hc) i (by omega)
    simp [hi, this]

theorem mem_superIdList {c n T : Nat} (hc : c < 2 ^ n) :
    T ∈ superIdList c n ↔ (T < 2 ^ n ∧ c &&& T = c) := by
  unfold superIdList
  have hopp := opp_lt hc
  rw [opp_eq_diff hc] at hopp
  simp only [List.mem_map, opp_eq_diff hc, mem_subIdList hopp]
  rw [← super_iff_exists hc]
  constructor
  · rintro ⟨s, hs, rfl⟩; exact ⟨s, hs, Nat.or_comm _ _⟩
  · rintro ⟨s, hs, rfl⟩; exact ⟨s, hs, Nat.or_comm _ _⟩

theorem superIdList_nodup {c n : Nat} (hc : c < 2 ^ n) : (superIdList c n).Nodup := by
  unfold superIdList
  apply List.Nodup.map_on _ (subIdList_nodup _ _)
  intro s hs t ht heq
  rw [mem_subIdList (opp_lt hc), opp_eq_diff hc] at hs ht
  apply or_injOn_disjoint (and_eq_zero_of_sub_diff hs) (and_eq_zero_of_sub_diff ht)
  rw [Nat.or_comm c s, Nat.or_comm c t]; exact heq

/-! ### 7. the two styles enumerate the same sets -/

theorem sub_enumerations_agree {c n : Nat} (hc : c < 2 ^ n) :
    ∃ l, subCoalitionsId c n = .ok l ∧ l.Nodup ∧ (subCoalitionsObj c).Nodup ∧
      ∀ x, x ∈ subCoalitionsObj c ↔ x ∈ l :=
  ⟨subIdList c n, subCoalitionsId_ok hc, subIdList_nodup c n, subCoalitionsObj_nodup c,
    fun x => by rw [mem_subCoalitionsObj, mem_subIdList hc]⟩

theorem super_enumerations_agree {c n : Nat} (hc : c < 2 ^ n) :
    ∃ l, superCoalitionsId c n = .ok l ∧ l.Nodup ∧ (superCoalitionsObj c n).Nodup ∧
      ∀ T, T ∈ superCoalitionsObj c n ↔ T ∈ l :=
  ⟨superIdList c n, superCoalitionsId_ok hc, superIdList_nodup hc, superCoalitionsObj_nodup c n,
    fun T => by rw [mem_superCoalitionsObj hc, mem_superIdList hc]⟩

/-- as lists the two enumerations are permutations of each other -/
theorem sub_enumerations_perm {c n : Nat} (hc : c < 2 ^ n) : (subCoalitionsObj c).Perm (subIdList c n) :=
  (List.perm_ext_iff_of_nodup (subCoalitionsObj_nodup c) (subIdList_nodup c n)).mpr
    (fun x => by rw [mem_subCoalitionsObj, mem_subIdList hc])

theorem super_enumerations_perm {c n : Nat} (hc : c < 2 ^ n) :
    (superCoalitionsObj c n).Perm (superIdList c n) :=
  (List.perm_ext_iff_of_nodup (superCoalitionsObj_nodup c n) (superIdList_nodup hc)).mpr
    (fun x => by rw [mem_superCoalitionsObj hc, mem_superIdList hc])

/-! ### 8. the relation table of bounds.py -/

theorem coalStructure_eq {n c d : Nat} (hc : c < 2 ^ n) (_hd : d < 2 ^ n) (_hc0 : c ≠ 0) :
    coalStructure n c d =
      if d = 0 then -2 else if d = c then 0 else if c &&& d = c then 2 else if d &&& c = d then 1 else -1 := by
  unfold coalStructure
  rw [superCoalitionsId_ok hc, subCoalitionsId_ok hc]
  simp only [List.contains_iff_mem, mem_superIdList hc, mem_subIdList hc, _hd, true_and]

theorem mem_structSel_one {n c d : Nat} (hc : c < 2 ^ n) (hc0 : c ≠ 0) :
    d ∈ structSel n c 1 ↔ (d < 2 ^ n ∧ d &&& c = d ∧ d ≠ 0 ∧ d ≠ c) := by
  unfold structSel allCoalitions
  rw [List.mem_filter, List.mem_range]
  constructor
  · rintro ⟨hd, h⟩
    rw [coalStructure_eq hc hd hc0] at h
    refine ⟨hd, ?_⟩
    split at h
    · simp at h
    · split at h
      · simp at h
      · split at h
        · simp at h
        · split at h
          · refine ⟨by assumption, by assumption, by assumption⟩
          · simp at h
  · rintro ⟨hd, hsub, h0, hne⟩
    refine ⟨hd, ?_⟩
    rw [coalStructure_eq hc hd hc0, if_neg h0, if_neg hne]
    have : ¬ c &&& d = c := by
      intro h
      apply hne
      rw [← hsub, Nat.and_comm, h]
    rw [if_neg this, if_pos hsub]; rfl

theorem mem_structSel_two {n c d : Nat} (hc : c < 2 ^ n) (hc0 : c ≠ 0) :
    d ∈ structSel n c 2 ↔ (d < 2 ^ n ∧ c &&& d = c ∧ d ≠ c) := by
  unfold structSel allCoalitions
  rw [List.mem_filter, List.mem_range]
  constructor
  · rintro ⟨hd, h⟩
    rw [coalStructure_eq hc hd hc0] at h
    refine ⟨hd, ?_⟩
    split at h
    · simp at h
    · split at h
      · simp at h
      · split at h
        · refine ⟨by assumption, by assumption⟩
        · split at h <;> simp at h
  · rintro ⟨hd, hsup, hne⟩
    refine ⟨hd, ?_⟩
    have h0 : d ≠ 0 := by
      rintro rfl
      apply hc0
      simpa using hsup.symm
    rw [coalStructure_eq hc hd hc0, if_neg h0, if_neg hne, if_pos hsup]; rfl

/-! ### 9. the interface -/

theorem enumFacts : EnumFacts where
  saSubs := fun _ _ => mem_saSubs
  superObj := fun _ _ _ hc => mem_superCoalitionsObj hc
  struct := fun _ _ _ hc hd hc0 => coalStructure_eq hc hd hc0
  size_lt := fun _ _ h hne => size_lt h hne
  size_le := size_le

end ICG
