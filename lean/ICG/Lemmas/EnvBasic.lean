/-
  ICG.Lemmas.EnvBasic — unfolding lemmas for ICG.Model.Env (core Lean only):
  Python indexing, what `reset` / `step` / `unstep` compute when they succeed, when they fail and what they
  leave behind, and the table `set_known_values` produces.
-/
import ICG.Model.Env
namespace ICG.Env
open ICG Table

variable {α : Type}

/-! ### Python list indexing -/

theorem pyIndex_nat {β} (l : List β) (a : Nat) :
    pyIndex l (a : Int) = match l[a]? with | some x => .ok x | none => .error .index := by
  have h1 : ¬ ((a : Int) < 0) := by omega
  unfold pyIndex
  simp only [h1, if_false, Int.toNat_natCast]
  cases l[a]? <;> rfl

theorem pyIndex_nat_some {β} {l : List β} {a : Nat} {x : β} (h : l[a]? = some x) :
    pyIndex l (a : Int) = .ok x := by rw [pyIndex_nat, h]

theorem pyIndex_nat_none {β} {l : List β} {a : Nat} (h : l.length ≤ a) :
    pyIndex l (a : Int) = .error .index := by
  rw [pyIndex_nat, List.getElem?_eq_none h]

/-- outside `-len ≤ a < len` Python raises IndexError -/
theorem pyIndex_out_of_range {β} (l : List β) (a : Int) (h : a < -(l.length : Int) ∨ (l.length : Int) ≤ a) :
    pyIndex l a = .error .index := by
  unfold pyIndex
  by_cases h0 : a < 0
  · simp only [h0, if_true]
    rcases h with h | h
    · have : a + (l.length : Int) < 0 := by omega
      simp [this]
    · omega
  · simp only [h0, if_false]
    rcases h with h | h
    · omega
    · have hl : l.length ≤ a.toNat := by omega
      simp [List.getElem?_eq_none hl]

/-! ### `sortedIds`: the de-duplicated initial list has the same members -/

theorem le_foldl_max_nat (l : List Nat) (a : Nat) : a ≤ l.foldl max a := by
  induction l generalizing a with
  | nil => exact Nat.le_refl _
  | cons y l ih => exact Nat.le_trans (Nat.le_max_left a y) (ih (max a y))

theorem mem_le_foldl_max_nat (l : List Nat) (a x : Nat) (hx : x ∈ l) : x ≤ l.foldl max a := by
  induction l generalizing a with
  | nil => cases hx
  | cons y l ih =>
    simp only [List.foldl]
    rcases List.mem_cons.mp hx with rfl | h
    · exact Nat.le_trans (Nat.le_max_right a x) (le_foldl_max_nat l _)
    · exact ih _ h

theorem mem_sortedIds (l : List Nat) (c : Nat) : c ∈ sortedIds l ↔ c ∈ l := by
  simp only [sortedIds, List.mem_filter, List.mem_range, List.contains_iff_mem]
  constructor
  · exact fun h => h.2
  · intro h
    exact ⟨Nat.lt_succ_of_le (mem_le_foldl_max_nat l 0 c h), h⟩

theorem nodup_sortedIds (l : List Nat) : (sortedIds l).Nodup :=
  List.Nodup.sublist List.filter_sublist List.nodup_range

/-! ### the table after `set_known_values(values of ik, ik)` -/

section tables
variable [Zero α]

omit [Zero α] in
theorem foldl_putValue_n (l : List (Nat × α)) (t : Table α) :
    (l.foldl (fun t (p : Nat × α) => t.putValue p.1 p.2) t).n = t.n := by
  induction l generalizing t with
  | nil => rfl
  | cons p l ih => simp only [List.foldl]; rw [ih]; rfl

omit [Zero α] in
/-- writing `f c` at every `c ∈ ids` (duplicates allowed: all writes of one row carry the same value) -/
theorem foldl_putValue_map (f : Nat → α) (ids : List Nat) (t : Table α) :
    let t' := (ids.zip (ids.map f)).foldl (fun t (p : Nat × α) => t.putValue p.1 p.2) t
    (∀ c, t'.known c = (ids.contains c || t.known c)) ∧
    (∀ c, c ∈ ids → t'.lo c = f c ∧ t'.hi c = f c) ∧
    (∀ c, c ∉ ids → t'.lo c = t.lo c ∧ t'.hi c = t.hi c) := by
  induction ids generalizing t with
  | nil => simp
  | cons a ids ih =>
    simp only [List.map_cons, List.zip_cons_cons, List.foldl_cons]
    obtain ⟨h1, h2, h3⟩ := ih (t.putValue a (f a))
    refine ⟨?_, ?_, ?_⟩
    · intro c
      rw [h1 c]
      by_cases hca : c = a
      · subst hca; simp [putValue]
      · have : (a == c) = false := by simp; exact fun h => hca h.symm
        simp [putValue, hca]
    · intro c hc
      by_cases hin : c ∈ ids
      · exact h2 c hin
      · have hca : c = a := by
          rcases List.mem_cons.mp hc with h | h
          · exact h
          · exact absurd h hin
        subst hca
        have := h3 c hin
        simp only [putValue, if_true] at this
        exact this
    · intro c hc
      have hca : c ≠ a := fun h => hc (h ▸ List.mem_cons_self)
      have hin : c ∉ ids := fun h => hc (List.mem_cons_of_mem _ h)
      have := h3 c hin
      simp only [putValue, hca, if_false] at this
      exact this

/-- `set_known_values(full.get_values(ik), ik)` on a table with `n` players -/
theorem setKnownValues_ik (t : Table α) (f : Nat → α) (ik : List Nat) (hik : ∀ c ∈ ik, c < 2 ^ t.n) :
    ∃ t1, t.setKnownValues (ik.map f) (some ik) = .ok t1 ∧ t1.n = t.n ∧
      (∀ c, t1.known c = (ik.contains c || c == 0)) ∧
      (∀ c, c ∈ ik → t1.lo c = f c ∧ t1.hi c = f c) ∧
      (∀ c, c ∉ ik → t1.lo c = 0 ∧ t1.hi c = 0) := by
  have hall : (ik.all fun x => decide (x < (Table.init (α := α) t.n).rows)) = true := by
    exact List.all_eq_true.mpr (fun x hx => decide_eq_true (by simpa [Table.rows, Table.init] using hik x hx))
  have hfi : fromiter ik (ik.map f).length = .ok ik := by
    simp [fromiter]
  obtain ⟨h1, h2, h3⟩ := foldl_putValue_map f ik (Table.init (α := α) t.n)
  refine ⟨_, ?_, ?_, h1, h2, ?_⟩
  · simp only [setKnownValues, setValues, hfi, bind, Except.bind, hall, if_true]
  · rw [foldl_putValue_n]; rfl
  · intro c hc
    have := h3 c hc
    simpa [Table.init] using this

end tables

/-! ### `step` / `unstep` / `reset`: the successful path and the failing ones -/

section core
variable [Zero α] [Neg α] [Sub α] [DecidableEq α]
variable (compute : Table α → Except Err (Table α)) (gap : Table α → Except Err α)

/-- the environment after a successful `step` on coalition `c` whose recomputed table is `t2` -/
def stepped (e : Env α) (t2 : Table α) : Env α := { e with table := t2, steps := e.steps + 1 }
def unstepped (e : Env α) (t2 : Table α) : Env α := { e with table := t2, steps := e.steps - 1 }

def outOf (e : Env α) (r : α) (c : Nat) : StepOut α := { obs := e.state, reward := r, done := e.done, chosen := c }

theorem observe_ok {e : Env α} {c : Nat} {g : α} (hg : gap e.table = .ok g) :
    observe gap e c = .ok (e, outOf e (-g) c) := by
  simp [observe, reward, hg, outOf]

theorem observe_inv {e e' : Env α} {c : Nat} {out : StepOut α} (h : observe gap e c = .ok (e', out)) :
    ∃ g, gap e.table = .ok g ∧ e' = e ∧ out = outOf e (-g) c := by
  unfold observe reward at h
  cases hg : gap e.table with
  | error err => simp [hg] at h
  | ok g =>
    simp only [hg, Except.ok.injEq, Prod.mk.injEq] at h
    exact ⟨g, rfl, h.1.symm, h.2.symm⟩

theorem step_ok {e : Env α} {a c : Nat} {t2 : Table α} {g : α}
    (hc : e.explorable[a]? = some c) (hlt : c < 2 ^ e.table.n) (hk : e.table.known c = false)
    (hcomp : compute (e.table.putValue c (e.full c)) = .ok t2) (hg : gap t2 = .ok g) :
    step compute gap e a = .ok (stepped e t2, outOf (stepped e t2) (-g) c) := by
  have hg' : gap (stepped e t2).table = .ok g := hg
  simp only [step, pyIndex_nat_some hc, Table.reveal, Table.rows, hlt, if_true, hk, Bool.false_eq_true, if_false,
    hcomp]
  exact observe_ok gap hg'

/-- inversion: a successful `step` with a natural-number action went through every stage -/
theorem step_inv {e e' : Env α} {a : Nat} {out : StepOut α}
    (h : step compute gap e a = .ok (e', out)) :
    ∃ c t2 g, e.explorable[a]? = some c ∧ c < 2 ^ e.table.n ∧ e.table.known c = false ∧
      compute (e.table.putValue c (e.full c)) = .ok t2 ∧ gap t2 = .ok g ∧
      e' = stepped e t2 ∧ out = outOf (stepped e t2) (-g) c := by
  unfold step at h
  rw [pyIndex_nat] at h
  cases hc : e.explorable[a]? with
  | none => simp [hc] at h
  | some c =>
    simp only [hc] at h
    unfold Table.reveal Table.rows at h
    by_cases hlt : c < 2 ^ e.table.n
    · simp only [hlt, if_true] at h
      cases hk : e.table.known c with
      | true => simp [hk] at h
      | false =>
        simp only [hk, Bool.false_eq_true, if_false] at h
        cases hcomp : compute (e.table.putValue c (e.full c)) with
        | error err => simp [hcomp] at h
        | ok t2 =>
          simp only [hcomp] at h
          obtain ⟨g, hg, he, ho⟩ := observe_inv gap h
          exact ⟨c, t2, g, rfl, hlt, hk, hcomp, hg, he, ho⟩
    · simp [hlt] at h

theorem unstep_ok {e : Env α} {a c : Nat} {t2 : Table α} {g : α}
    (hc : e.explorable[a]? = some c) (hlt : c < 2 ^ e.table.n) (hk : e.table.known c = true)
    (hcomp : compute (e.table.clearRow c) = .ok t2) (hg : gap t2 = .ok g) :
    unstep compute gap e a = .ok (unstepped e t2, outOf (unstepped e t2) (-g) c) := by
  have hg' : gap (unstepped e t2).table = .ok g := hg
  simp only [unstep, pyIndex_nat_some hc, Table.unreveal, Table.rows, hlt, if_true, hk, hcomp]
  exact observe_ok gap hg'

theorem unstep_inv {e e' : Env α} {a : Nat} {out : StepOut α}
    (h : unstep compute gap e a = .ok (e', out)) :
    ∃ c t2 g, e.explorable[a]? = some c ∧ c < 2 ^ e.table.n ∧ e.table.known c = true ∧
      compute (e.table.clearRow c) = .ok t2 ∧ gap t2 = .ok g ∧
      e' = unstepped e t2 ∧ out = outOf (unstepped e t2) (-g) c := by
  unfold unstep at h
  rw [pyIndex_nat] at h
  cases hc : e.explorable[a]? with
  | none => simp [hc] at h
  | some c =>
    simp only [hc] at h
    unfold Table.unreveal Table.rows at h
    by_cases hlt : c < 2 ^ e.table.n
    · simp only [hlt, if_true] at h
      cases hk : e.table.known c with
      | false => simp [hk] at h
      | true =>
        simp only [hk, if_true] at h
        cases hcomp : compute (e.table.clearRow c) with
        | error err => simp [hcomp] at h
        | ok t2 =>
          simp only [hcomp] at h
          obtain ⟨g, hg, he, ho⟩ := observe_inv gap h
          exact ⟨c, t2, g, rfl, hlt, hk, hcomp, hg, he, ho⟩
    · simp [hlt] at h

/-! failing calls and what they leave behind -/

/-- an action index outside `-len ≤ a < len`: IndexError, nothing changed -/
theorem step_index_error (e : Env α) (a : Int)
    (h : a < -(e.explorable.length : Int) ∨ (e.explorable.length : Int) ≤ a) :
    step compute gap e a = .error (.index, e) ∧ unstep compute gap e a = .error (.index, e) := by
  simp [step, unstep, pyIndex_out_of_range _ a h]

/-- stepping on an already known coalition: `reveal_value` asserts, nothing changed -/
theorem step_known_error {e : Env α} {a c : Nat} (hc : e.explorable[a]? = some c) (hlt : c < 2 ^ e.table.n)
    (hk : e.table.known c = true) : step compute gap e a = .error (.assert, e) := by
  simp [step, pyIndex_nat_some hc, Table.reveal, Table.rows, hlt, hk]

/-- un-stepping an unknown coalition: `unreveal_value` asserts, nothing changed -/
theorem unstep_unknown_error {e : Env α} {a c : Nat} (hc : e.explorable[a]? = some c) (hlt : c < 2 ^ e.table.n)
    (hk : e.table.known c = false) : unstep compute gap e a = .error (.assert, e) := by
  simp [unstep, pyIndex_nat_some hc, Table.unreveal, Table.rows, hlt, hk]

/-- a `step` whose `compute_bounds` raises has already revealed the value and has not counted the step -/
theorem step_compute_error {e : Env α} {a c : Nat} {err : Err} (hc : e.explorable[a]? = some c)
    (hlt : c < 2 ^ e.table.n) (hk : e.table.known c = false)
    (hcomp : compute (e.table.putValue c (e.full c)) = .error err) :
    step compute gap e a = .error (err, { e with table := e.table.putValue c (e.full c) }) := by
  simp [step, pyIndex_nat_some hc, Table.reveal, Table.rows, hlt, hk, hcomp]

/-- a `step` whose gap function raises has revealed, recomputed and counted -/
theorem step_gap_error {e : Env α} {a c : Nat} {err : Err} {t2 : Table α} (hc : e.explorable[a]? = some c)
    (hlt : c < 2 ^ e.table.n) (hk : e.table.known c = false)
    (hcomp : compute (e.table.putValue c (e.full c)) = .ok t2) (hg : gap t2 = .error err) :
    step compute gap e a = .error (err, stepped e t2) := by
  simp [step, pyIndex_nat_some hc, Table.reveal, Table.rows, hlt, hk, hcomp, observe, reward, hg, stepped]

omit [Neg α] [Sub α] [DecidableEq α] in
/-- `reset`: inversion of the successful path -/
theorem reset_inv {e e' : Env α} {f g : Nat → α} {obs : List α}
    (hik : ∀ c ∈ e.initiallyKnown, c < 2 ^ e.table.n)
    (h : reset compute e f g = .ok (e', obs)) :
    ∃ t1 t2, e.table.setKnownValues (e.initiallyKnown.map f) (some e.initiallyKnown) = .ok t1 ∧
      compute t1 = .ok t2 ∧
      e' = { e with full := f, norm := g, table := t2, steps := 0 } ∧ obs = e'.state := by
  unfold reset at h
  have hall : (e.initiallyKnown.all fun x => decide (x < e.table.rows)) = true := by
    exact List.all_eq_true.mpr (fun x hx => decide_eq_true (by simpa [Table.rows] using hik x hx))
  simp only [hall, if_true] at h
  cases h1 : e.table.setKnownValues (e.initiallyKnown.map f) (some e.initiallyKnown) with
  | error x => simp [h1] at h
  | ok t1 =>
    simp only [h1] at h
    cases h2 : compute t1 with
    | error x => simp [h2] at h
    | ok t2 =>
      simp only [h2, Except.ok.injEq, Prod.mk.injEq] at h
      refine ⟨t1, t2, rfl, h2, h.1.symm, ?_⟩
      rw [← h.2, ← h.1]

omit [Neg α] [Sub α] [DecidableEq α] in
/-- `reset` with an initially known id outside the table: IndexError before the table is touched
    (the new hidden game is already in place) -/
theorem reset_index_error {e : Env α} {f g : Nat → α} (h : ∃ c ∈ e.initiallyKnown, 2 ^ e.table.n ≤ c) :
    reset compute e f g = .error (.index, { e with full := f, norm := g }) := by
  obtain ⟨c, hc, hge⟩ := h
  have hall : (e.initiallyKnown.all fun x => decide (x < e.table.rows)) = false := by
    rw [List.all_eq_false]
    exact ⟨c, hc, fun h => absurd (of_decide_eq_true h) (Nat.not_lt.mpr hge)⟩
  simp [reset, hall]

end core
end ICG.Env
