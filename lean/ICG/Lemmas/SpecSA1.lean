/-
  ICG.Lemmas.SpecSA1 — pure mathematics on the bound specification (`ICG.Spec.Bounds`), part 1:

  A. unfolding of `loSpec` / `upSpec`; under `MinInfo` the junk (`none`) branches are never taken
  B. the bounds depend on the known values only (congruence)
  C. soundness (C01): every superadditive completion lies between `loSpec` and `upSpec`
-/
import ICG.Lemmas.ListMax
import ICG.Lemmas.BitFacts
import Mathlib.Algebra.Order.Group.Defs
import Mathlib.Order.Lattice
import Mathlib.Tactic.Linarith
import Mathlib.Tactic.Abel

namespace ICG.SpecSA

/-! ### bit facts used below -/

theorem and_two_pow_sub_one {c n : Nat} (hc : c < 2 ^ n) : c &&& (2 ^ n - 1) = c := by
  rw [Nat.and_two_pow_sub_one_eq_mod, Nat.mod_eq_of_lt hc]

theorem two_pow_and_of_testBit {c i : Nat} (h : c.testBit i = true) : 2 ^ i &&& c = 2 ^ i := by
  apply sub_of_testBit; intro j hj
  rw [Nat.testBit_two_pow] at hj
  have : i = j := by simpa using hj
  subst this; exact h

theorem lt_of_testBit_of_lt_two_pow {c n i : Nat} (hc : c < 2 ^ n) (h : c.testBit i = true) : i < n := by
  rcases Nat.lt_or_ge i n with hi | hi
  · exact hi
  · have : c < 2 ^ i := Nat.lt_of_lt_of_le hc (Nat.pow_le_pow_right (by omega) hi)
    rw [Nat.testBit_lt_two_pow this] at h; cases h

/-- disjoint union minus the left part is the right part -/
theorem or_sub_left_of_disj {a b : Nat} (h : a &&& b = 0) : (a ||| b) - a = b := by
  have := add_eq_or_of_and_eq_zero a b h; omega

theorem left_sub_or (a b : Nat) : a &&& (a ||| b) = a := by
  apply Nat.eq_of_testBit_eq; intro i
  simp only [Nat.testBit_and, Nat.testBit_or]
  cases a.testBit i <;> cases b.testBit i <;> rfl

theorem right_sub_or (a b : Nat) : b &&& (a ||| b) = b := by
  rw [Nat.or_comm]; exact left_sub_or b a

theorem mem_knownSupers {n : Nat} {known : Nat → Bool} {c T : Nat} :
    T ∈ knownSupers n known c ↔ T < 2 ^ n ∧ c &&& T = c ∧ T ≠ c ∧ known T = true := by
  simp only [knownSupers, isSub, List.mem_filter, List.mem_range, Bool.and_eq_true, beq_iff_eq,
    bne_iff_ne, ne_eq]
  constructor
  · rintro ⟨h0, ⟨h1, h2⟩, h3⟩; exact ⟨h0, h1, h2, h3⟩
  · rintro ⟨h0, h1, h2, h3⟩; exact ⟨h0, ⟨h1, h2⟩, h3⟩

/-! ### A. `MinInfo` excludes the junk branches -/

theorem minInfo_ne_zero {n : Nat} {known : Nat → Bool} (hmin : MinInfo n known) {c : Nat}
    (hk : known c = false) : c ≠ 0 := by
  rintro rfl; rw [hmin.1] at hk; cases hk

/-- under `MinInfo` an unknown coalition has a proper non-empty sub-coalition (a singleton) -/
theorem properSubs_ne_nil {n : Nat} {known : Nat → Bool} (hmin : MinInfo n known) {c : Nat}
    (hc : c < 2 ^ n) (hk : known c = false) : properSubs c ≠ [] := by
  obtain ⟨i, hi⟩ := Nat.exists_testBit_of_ne_zero (minInfo_ne_zero hmin hk)
  have hin : i < n := lt_of_testBit_of_lt_two_pow hc hi
  have hmem : 2 ^ i ∈ properSubs c := by
    refine mem_properSubs.mpr ⟨two_pow_and_of_testBit hi, Nat.pos_iff_ne_zero.mp (Nat.two_pow_pos i), ?_⟩
    intro h
    have := hmin.2.2 i hin
    rw [h, hk] at this; cases this
  intro h; rw [h] at hmem; cases hmem

/-- under `MinInfo` the grand coalition is a known proper superset of every unknown coalition -/
theorem grand_mem_knownSupers {n : Nat} {known : Nat → Bool} (hmin : MinInfo n known) {c : Nat}
    (hc : c < 2 ^ n) (hk : known c = false) : 2 ^ n - 1 ∈ knownSupers n known c := by
  refine mem_knownSupers.mpr ⟨Nat.sub_lt (Nat.two_pow_pos n) (by omega), and_two_pow_sub_one hc, ?_, hmin.2.1⟩
  intro h
  have := hmin.2.1
  rw [h, hk] at this; cases this

theorem knownSupers_ne_nil {n : Nat} {known : Nat → Bool} (hmin : MinInfo n known) {c : Nat}
    (hc : c < 2 ^ n) (hk : known c = false) : knownSupers n known c ≠ [] := by
  intro h
  have := grand_mem_knownSupers hmin hc hk
  rw [h] at this; cases this

variable {α : Type}

/-! ### A. unfolding equations (no order structure needed) -/

section unfold
variable [Add α] [Max α]

theorem loSpec_known (known : Nat → Bool) (val : Nat → α) {c : Nat} (hk : known c = true) :
    loSpec known val c = val c := by
  unfold loSpec; unfold splitSpec; simp [hk]

/-- the defining equation of `loSpec` at an unknown coalition -/
theorem loSpec_unknown_eq (known : Nat → Bool) (val : Nat → α) {c : Nat} (hk : known c = false) :
    loSpec known val c =
      match listMax? ((properSubs c).map fun x => loSpec known val x + loSpec known val (c - x)) with
      | some m => m
      | none => val c := by
  have hlist : ((properSubs c).attach.map fun (p : {x // x ∈ properSubs c}) =>
        splitSpec known val (fun _ => []) p.1 + splitSpec known val (fun _ => []) (c - p.1))
      = (properSubs c).map fun x => loSpec known val x + loSpec known val (c - x) := by
    rw [List.attach_map_val (f := fun x => splitSpec known val (fun _ => []) x +
      splitSpec known val (fun _ => []) (c - x))]
    rfl
  conv => lhs; unfold loSpec; unfold splitSpec
  simp only [hk, Bool.false_eq_true, if_false, List.nil_append]
  rw [← hlist]
  rfl

variable [Sub α] [Min α]

theorem upSpec_known (n : Nat) (known : Nat → Bool) (val : Nat → α) {c : Nat} (hk : known c = true) :
    upSpec n known val c = val c := by
  simp [upSpec, upAgainst, hk]

/-- the defining equation of `upSpec` at an unknown coalition -/
theorem upSpec_unknown_eq (n : Nat) (known : Nat → Bool) (val : Nat → α) {c : Nat} (hk : known c = false) :
    upSpec n known val c =
      match listMin? ((knownSupers n known c).map fun T => val T - loSpec known val (T - c)) with
      | some m => m
      | none => val c := by
  unfold upSpec upAgainst
  rw [if_neg (by simp [hk])]
  rfl

end unfold

/-! ### A. characterisation of the unknown rows over a linear order -/

section charact
variable [Add α] [LinearOrder α]

/-- the candidate list of an unknown row of `loSpec` -/
def loCands (known : Nat → Bool) (val : Nat → α) (c : Nat) : List α :=
  (properSubs c).map fun x => loSpec known val x + loSpec known val (c - x)

/-- **A (lower).**  Under `MinInfo`, at an unknown `c < 2^n` the `none` branch is not taken: `loSpec` is the
    maximum of the (non-empty) candidate list `{loSpec x + loSpec (c − x) | x ∈ properSubs c}`. -/
theorem loSpec_unknown {n : Nat} {known : Nat → Bool} (hmin : MinInfo n known) (val : Nat → α) {c : Nat}
    (hc : c < 2 ^ n) (hk : known c = false) :
    ∃ m, listMax? (loCands known val c) = some m ∧ loSpec known val c = m := by
  obtain ⟨m, hm⟩ := listMax?_isSome (l := loCands known val c)
    (by simpa [loCands] using properSubs_ne_nil hmin hc hk)
  refine ⟨m, hm, ?_⟩
  rw [loSpec_unknown_eq known val hk]
  unfold loCands at hm
  rw [hm]

/-- every proper split is a lower candidate (no `MinInfo` needed: the list is visibly non-empty) -/
theorem loSpec_split_le (known : Nat → Bool) (val : Nat → α) {c x : Nat} (hk : known c = false)
    (hx : x ∈ properSubs c) :
    loSpec known val x + loSpec known val (c - x) ≤ loSpec known val c := by
  have hmem : loSpec known val x + loSpec known val (c - x) ∈ loCands known val c :=
    List.mem_map.mpr ⟨x, hx, rfl⟩
  obtain ⟨m, hm⟩ := listMax?_isSome (l := loCands known val c) (by intro h; rw [h] at hmem; cases hmem)
  have : loSpec known val c = m := by
    rw [loSpec_unknown_eq known val hk]; unfold loCands at hm; rw [hm]
  rw [this]; exact le_listMax? hm hmem

/-- the maximum is attained by some proper split -/
theorem loSpec_unknown_attained {n : Nat} {known : Nat → Bool} (hmin : MinInfo n known) (val : Nat → α)
    {c : Nat} (hc : c < 2 ^ n) (hk : known c = false) :
    ∃ x ∈ properSubs c, loSpec known val c = loSpec known val x + loSpec known val (c - x) := by
  obtain ⟨m, hm, he⟩ := loSpec_unknown hmin val hc hk
  obtain ⟨x, hx, hxe⟩ := List.mem_map.mp (listMax?_mem hm)
  exact ⟨x, hx, by rw [he, hxe]⟩

variable [Sub α]

/-- the candidate list of an unknown row of `upSpec` -/
def upCands (n : Nat) (known : Nat → Bool) (val : Nat → α) (c : Nat) : List α :=
  (knownSupers n known c).map fun T => val T - loSpec known val (T - c)

/-- **A (upper).**  Under `MinInfo`, at an unknown `c < 2^n`, `upSpec` is the minimum of the (non-empty)
    candidate list `{val T − loSpec (T − c) | T known proper superset of c within n}`. -/
theorem upSpec_unknown {n : Nat} {known : Nat → Bool} (hmin : MinInfo n known) (val : Nat → α) {c : Nat}
    (hc : c < 2 ^ n) (hk : known c = false) :
    ∃ m, listMin? (upCands n known val c) = some m ∧ upSpec n known val c = m := by
  obtain ⟨m, hm⟩ := listMin?_isSome (l := upCands n known val c)
    (by simpa [upCands] using knownSupers_ne_nil hmin hc hk)
  refine ⟨m, hm, ?_⟩
  rw [upSpec_unknown_eq n known val hk]
  unfold upCands at hm
  rw [hm]

theorem upSpec_le_cand (n : Nat) (known : Nat → Bool) (val : Nat → α) {c T : Nat} (hk : known c = false)
    (hT : T ∈ knownSupers n known c) :
    upSpec n known val c ≤ val T - loSpec known val (T - c) := by
  have hmem : val T - loSpec known val (T - c) ∈ upCands n known val c :=
    List.mem_map.mpr ⟨T, hT, rfl⟩
  obtain ⟨m, hm⟩ := listMin?_isSome (l := upCands n known val c) (by intro h; rw [h] at hmem; cases hmem)
  have : upSpec n known val c = m := by
    rw [upSpec_unknown_eq n known val hk]; unfold upCands at hm; rw [hm]
  rw [this]; exact listMin?_le hm hmem

theorem upSpec_unknown_attained {n : Nat} {known : Nat → Bool} (hmin : MinInfo n known) (val : Nat → α)
    {c : Nat} (hc : c < 2 ^ n) (hk : known c = false) :
    ∃ T ∈ knownSupers n known c, upSpec n known val c = val T - loSpec known val (T - c) := by
  obtain ⟨m, hm, he⟩ := upSpec_unknown hmin val hc hk
  obtain ⟨T, hT, hTe⟩ := List.mem_map.mp (listMin?_mem hm)
  exact ⟨T, hT, by rw [he, hTe]⟩

end charact

variable [AddCommGroup α] [LinearOrder α] [IsOrderedAddMonoid α]

/-! ### B. the bounds depend on the known values only -/

omit [IsOrderedAddMonoid α] in
/-- **B (lower).** -/
theorem loSpec_congr {n : Nat} {known : Nat → Bool} (hmin : MinInfo n known) {val val' : Nat → α}
    (hv : ∀ c, c < 2 ^ n → known c = true → val c = val' c) :
    ∀ c, c < 2 ^ n → loSpec known val c = loSpec known val' c := by
  intro c
  induction c using Nat.strong_induction_on with
  | _ c ih =>
    intro hc
    cases hk : known c with
    | true => rw [loSpec_known known val hk, loSpec_known known val' hk, hv c hc hk]
    | false =>
      obtain ⟨m, hm, he⟩ := loSpec_unknown hmin val hc hk
      obtain ⟨m', hm', he'⟩ := loSpec_unknown hmin val' hc hk
      have hl : loCands known val c = loCands known val' c := by
        unfold loCands
        apply List.map_congr_left
        intro x hx
        have hlt := properSubs_lt hx
        rw [ih x hlt.1 (by omega), ih (c - x) hlt.2 (by omega)]
      rw [hl, hm'] at hm
      rw [he, he']; exact (Option.some.inj hm).symm

omit [IsOrderedAddMonoid α] in
/-- **B (upper).** -/
theorem upSpec_congr {n : Nat} {known : Nat → Bool} (hmin : MinInfo n known) {val val' : Nat → α}
    (hv : ∀ c, c < 2 ^ n → known c = true → val c = val' c) :
    ∀ c, c < 2 ^ n → upSpec n known val c = upSpec n known val' c := by
  intro c hc
  cases hk : known c with
  | true => rw [upSpec_known n known val hk, upSpec_known n known val' hk, hv c hc hk]
  | false =>
    obtain ⟨m, hm, he⟩ := upSpec_unknown hmin val hc hk
    obtain ⟨m', hm', he'⟩ := upSpec_unknown hmin val' hc hk
    have hl : upCands n known val c = upCands n known val' c := by
      unfold upCands
      apply List.map_congr_left
      intro T hT
      obtain ⟨hT0, _, _, hT3⟩ := mem_knownSupers.mp hT
      rw [hv T hT0 hT3, loSpec_congr hmin hv (T - c) (by omega)]
    rw [hl, hm'] at hm
    rw [he, he']; exact (Option.some.inj hm).symm

/-! ### C. soundness -/

/-- **C01 (lower half).** -/
theorem loSpec_le_completion {n : Nat} {known : Nat → Bool} (hmin : MinInfo n known) {val w : Nat → α}
    (hw : Completion n known val w) : ∀ c, c < 2 ^ n → loSpec known val c ≤ w c := by
  intro c
  induction c using Nat.strong_induction_on with
  | _ c ih =>
    intro hc
    cases hk : known c with
    | true => rw [loSpec_known known val hk, hw.2 c hc hk]
    | false =>
      obtain ⟨x, hx, he⟩ := loSpec_unknown_attained hmin val hc hk
      have hlt := properSubs_lt hx
      have hsub := (mem_properSubs.mp hx).1
      have h1 := ih x hlt.1 (by omega)
      have h2 := ih (c - x) hlt.2 (by omega)
      have h3 := hw.1 x (c - x) (by omega) (by omega) (sub_or_self hsub).2
      rw [(sub_or_self hsub).1] at h3
      rw [he]
      exact le_trans (add_le_add h1 h2) h3

/-- **C01 (upper half).** -/
theorem completion_le_upSpec {n : Nat} {known : Nat → Bool} (hmin : MinInfo n known) {val w : Nat → α}
    (hw : Completion n known val w) : ∀ c, c < 2 ^ n → w c ≤ upSpec n known val c := by
  intro c hc
  cases hk : known c with
  | true => rw [upSpec_known n known val hk, hw.2 c hc hk]
  | false =>
    obtain ⟨T, hT, he⟩ := upSpec_unknown_attained hmin val hc hk
    obtain ⟨hT0, hT1, _, hT3⟩ := mem_knownSupers.mp hT
    have hd := sub_or_self hT1
    have h1 := hw.1 c (T - c) hc (by omega) hd.2
    rw [hd.1, hw.2 T hT0 hT3] at h1
    have h2 := loSpec_le_completion hmin hw (T - c) (by omega)
    rw [he]
    have : w c + loSpec known val (T - c) ≤ val T := le_trans (add_le_add (le_refl (w c)) h2) h1
    exact le_sub_iff_add_le.mpr this

/-- **C01.**  Every superadditive completion of the partial game lies between the bounds. -/
theorem soundness {n : Nat} {known : Nat → Bool} (hmin : MinInfo n known) {val w : Nat → α}
    (hw : Completion n known val w) :
    ∀ c, c < 2 ^ n → loSpec known val c ≤ w c ∧ w c ≤ upSpec n known val c :=
  fun c hc => ⟨loSpec_le_completion hmin hw c hc, completion_le_upSpec hmin hw c hc⟩

/-- hence the bounds are ordered as soon as one completion exists -/
theorem loSpec_le_upSpec {n : Nat} {known : Nat → Bool} (hmin : MinInfo n known) {val : Nat → α}
    (hex : ∃ w, Completion n known val w) :
    ∀ c, c < 2 ^ n → loSpec known val c ≤ upSpec n known val c := by
  obtain ⟨w, hw⟩ := hex
  exact fun c hc => le_trans (loSpec_le_completion hmin hw c hc) (completion_le_upSpec hmin hw c hc)

omit [IsOrderedAddMonoid α] in
/-- a superadditive game is a completion of each of its own partial games -/
theorem completion_self {n : Nat} (known : Nat → Bool) {v : Nat → α} (hv : SA n v) :
    Completion n known v v := ⟨hv, fun _ _ _ => rfl⟩

end ICG.SpecSA
