/-
  ICG.Lemmas.ShapleySymmetry — relabelling the players by a permutation `σ` of `Fin n`.

  `permMask σ c` is the coalition `{σ j | j ∈ c}` as a bit mask (players `≥ n` are dropped).
  `phi_perm` : if `v' (permMask σ c) = v c` for every coalition `c` of the `n`-player game (i.e. `v'` is
  the relabelled game), then `phi n v' (σ i) = phi n v i`.
-/
import ICG.Lemmas.ShapleyBridge
import Mathlib.Logic.Equiv.Defs
import Mathlib.Logic.Equiv.Fin.Basic
import Mathlib.Algebra.BigOperators.Group.Finset.Basic
import Mathlib.Algebra.BigOperators.Fin
import Mathlib.Data.Fintype.BigOperators

namespace ICG
open Finset

/-- the image of coalition `c` under the relabelling `j ↦ σ j` of the players `0 .. n−1` -/
def permMask {n : Nat} (σ : Equiv.Perm (Fin n)) (c : Nat) : Nat :=
  Nat.ofBits (fun k : Fin n => c.testBit (σ.symm k))

theorem permMask_lt {n : Nat} (σ : Equiv.Perm (Fin n)) (c : Nat) : permMask σ c < 2 ^ n :=
  Nat.ofBits_lt_two_pow _

theorem testBit_permMask {n : Nat} (σ : Equiv.Perm (Fin n)) (c : Nat) (j : Fin n) :
    (permMask σ c).testBit (σ j) = c.testBit j := by
  unfold permMask
  rw [Nat.testBit_ofBits_lt _ _ (σ j).isLt]
  simp

theorem testBit_permMask_lt {n : Nat} (σ : Equiv.Perm (Fin n)) (c k : Nat) (hk : k < n) :
    (permMask σ c).testBit k = c.testBit (σ.symm ⟨k, hk⟩) := by
  unfold permMask
  rw [Nat.testBit_ofBits_lt _ _ hk]

theorem testBit_permMask_ge {n : Nat} (σ : Equiv.Perm (Fin n)) (c k : Nat) (hk : n ≤ k) :
    (permMask σ c).testBit k = false :=
  Nat.testBit_ofBits_ge _ _ hk

theorem permMask_symm_permMask {n : Nat} (σ : Equiv.Perm (Fin n)) {c : Nat} (hc : c < 2 ^ n) :
    permMask σ.symm (permMask σ c) = c := by
  apply Nat.eq_of_testBit_eq
  intro k
  by_cases hk : k < n
  · rw [testBit_permMask_lt _ _ _ hk, Equiv.symm_symm, testBit_permMask]
  · rw [testBit_permMask_ge _ _ _ (by omega), (lt_two_pow_iff_testBit.mp hc) k (by omega)]

theorem permMask_permMask_symm {n : Nat} (σ : Equiv.Perm (Fin n)) {c : Nat} (hc : c < 2 ^ n) :
    permMask σ (permMask σ.symm c) = c := by
  have := permMask_symm_permMask σ.symm hc
  rwa [Equiv.symm_symm] at this

theorem permMask_setBit {n : Nat} (σ : Equiv.Perm (Fin n)) (S : Nat) (i : Fin n) :
    permMask σ (S ||| 2 ^ (i : Nat)) = permMask σ S ||| 2 ^ ((σ i : Fin n) : Nat) := by
  apply Nat.eq_of_testBit_eq
  intro k
  by_cases hk : k < n
  · rw [Nat.testBit_or, testBit_permMask_lt _ _ _ hk, testBit_permMask_lt _ _ _ hk, Nat.testBit_or,
      Nat.testBit_two_pow, Nat.testBit_two_pow]
    congr 1
    have : ((i : Nat) = ((σ.symm ⟨k, hk⟩ : Fin n) : Nat)) ↔ (((σ i : Fin n) : Nat) = k) := by
      constructor
      · intro h
        have h' : i = σ.symm ⟨k, hk⟩ := Fin.ext h
        rw [h']; simp
      · intro h
        have h' : σ i = ⟨k, hk⟩ := Fin.ext h
        rw [← h']; simp
    exact decide_eq_decide.mpr this
  · rw [Nat.testBit_or, testBit_permMask_ge _ _ _ (by omega), testBit_permMask_ge _ _ _ (by omega),
      Nat.testBit_two_pow]
    have : ((σ i : Fin n) : Nat) ≠ k := by have := (σ i).isLt; omega
    simp [this]

theorem size_permMask {n : Nat} (σ : Equiv.Perm (Fin n)) {c : Nat} (hc : c < 2 ^ n) :
    size (permMask σ c) = size c := by
  rw [size_eq_card (permMask_lt σ c), size_eq_card hc, Finset.card_filter, Finset.card_filter,
    Finset.sum_range, Finset.sum_range]
  rw [← Equiv.sum_comp σ]
  apply Finset.sum_congr rfl
  intro j _
  rw [testBit_permMask]

section
variable {α : Type} [Field α]

/-- relabelling the players permutes the Shapley values (closed form) -/
theorem phi_perm {n : Nat} (σ : Equiv.Perm (Fin n)) (v v' : Nat → α)
    (hv : ∀ c, c < 2 ^ n → v' (permMask σ c) = v c) (i : Fin n) :
    phi n v' (σ i) = phi n v i := by
  unfold phi psi
  congr 1
  symm
  refine Finset.sum_nbij' (fun S => permMask σ S) (fun T => permMask σ.symm T) ?_ ?_ ?_ ?_ ?_
  · intro S hS
    simp only [mem_filter, mem_range] at hS ⊢
    exact ⟨permMask_lt σ S, by rw [testBit_permMask]; exact hS.2⟩
  · intro T hT
    simp only [mem_filter, mem_range] at hT ⊢
    refine ⟨permMask_lt _ T, ?_⟩
    have := testBit_permMask σ.symm T (σ i)
    rw [Equiv.symm_apply_apply] at this
    rw [this]; exact hT.2
  · intro S hS
    simp only [mem_filter, mem_range] at hS
    exact permMask_symm_permMask σ hS.1
  · intro T hT
    simp only [mem_filter, mem_range] at hT
    exact permMask_permMask_symm σ hT.1
  · intro S hS
    simp only [mem_filter, mem_range] at hS
    rw [size_permMask σ hS.1, ← permMask_setBit, hv _ (setBit_lt i.isLt hS.1), hv _ hS.1]

end
end ICG
