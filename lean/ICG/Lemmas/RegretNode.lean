/-
  ICG.Lemmas.RegretNode — what one regret minimiser (one node of the tree) does: regret matching yields a
  distribution on the unused coalitions, one update is orthogonal to the strategy played, clipping.
-/
import ICG.Model.Regret
import ICG.Lemmas.Regret
import Mathlib.Algebra.Order.Field.Basic
import Mathlib.Tactic.Linarith
import Mathlib.Tactic.Ring
import Mathlib.Tactic.FieldSimp

set_option linter.unusedSectionVars false

namespace ICG.Regret
open ICG

section lists
variable {α : Type} [Field α] [LinearOrder α] [IsStrictOrderedRing α]

theorem sum_nonneg' : ∀ (l : List α), (∀ x ∈ l, 0 ≤ x) → 0 ≤ l.sum
  | [], _ => by simp
  | x :: xs, h => by
    rw [List.sum_cons]
    have := sum_nonneg' xs (fun y hy => h y (List.mem_cons_of_mem _ hy))
    have := h x List.mem_cons_self
    linarith

theorem le_sum_of_mem' : ∀ (l : List α), (∀ x ∈ l, 0 ≤ x) → ∀ x ∈ l, x ≤ l.sum
  | [], _, x, hx => by simp at hx
  | y :: ys, h, x, hx => by
    rw [List.sum_cons]
    have h1 := sum_nonneg' ys (fun z hz => h z (List.mem_cons_of_mem _ hz))
    have h2 := h y List.mem_cons_self
    rcases List.mem_cons.mp hx with rfl | hx'
    · linarith
    · have := le_sum_of_mem' ys (fun z hz => h z (List.mem_cons_of_mem _ hz)) x hx'
      linarith

theorem sum_eq_zero_of_nonneg {l : List α} (h : ∀ x ∈ l, 0 ≤ x) (hs : l.sum = 0) : ∀ x ∈ l, x = 0 := by
  intro x hx
  have := le_sum_of_mem' l h x hx
  have := h x hx
  rw [hs] at *
  exact le_antisymm ‹x ≤ 0› ‹0 ≤ x›

theorem sum_map_div' (l : List α) (s : α) : (l.map (· / s)).sum = l.sum / s := by
  induction l with
  | nil => simp
  | cons x xs ih => simp only [List.map_cons, List.sum_cons, ih]; ring

theorem posPart_nonneg (x : α) : 0 ≤ posPart x := by
  unfold posPart; split <;> [exact le_of_lt ‹_›; exact le_refl _]

theorem posPart_of_nonpos {x : α} (h : x ≤ 0) : posPart x = 0 := by
  unfold posPart; rw [if_neg (not_lt.mpr h)]

/-- `v / v.sum()` when the sum is not zero -/
theorem normalize_ok {l : List α} (h : l.sum ≠ 0) : normalize l = .ok (l.map (· / l.sum)) := by
  unfold normalize
  simp only [listSum_eq_sum, h, if_false]

/-- normalising a non-negative vector with a positive entry gives a distribution -/
theorem normalize_distribution {l : List α} (hnn : ∀ x ∈ l, 0 ≤ x) (hpos : ∃ x ∈ l, 0 < x) :
    ∃ σ, normalize l = .ok σ ∧ σ = l.map (· / l.sum) ∧ 0 < l.sum ∧ σ.length = l.length ∧
      (∀ x ∈ σ, 0 ≤ x) ∧ σ.sum = 1 := by
  obtain ⟨x, hx, hx0⟩ := hpos
  have hs : 0 < l.sum := lt_of_lt_of_le hx0 (le_sum_of_mem' l hnn x hx)
  refine ⟨_, normalize_ok (ne_of_gt hs), rfl, hs, by simp, ?_, ?_⟩
  · intro y hy
    rw [List.mem_map] at hy
    obtain ⟨z, hz, rfl⟩ := hy
    exact div_nonneg (hnn z hz) (le_of_lt hs)
  · rw [sum_map_div', div_self (ne_of_gt hs)]

end lists

section node
variable {α : Type} [Field α] [LinearOrder α] [IsStrictOrderedRing α]

theorem onesWithout_ok {m : Nat} {used : List Nat} (h : ∀ i ∈ used, i < m) :
    onesWithout (α := α) m used = .ok ((List.range m).map (fun i => if i ∈ used then 0 else 1)) := by
  unfold onesWithout
  have : used.all (· < m) = true := by simpa using h
  simp only [this, if_true]

/-- **regret matching at one node.**  If the cumulative regret of every used (already revealed) coalition
    is ≤ 0 and some viable coalition is still unused, the strategy is a probability distribution that is
    zero on the used coalitions. -/
theorem regretMatchingRow_distribution {m : Nat} {row : List α} {used : List Nat}
    (hlen : row.length = m) (hused : ∀ i ∈ used, i < m)
    (hneg : ∀ i ∈ used, ∀ h : i < row.length, row[i] ≤ 0)
    (hfree : ∃ j, j < m ∧ j ∉ used) :
    ∃ σ, regretMatchingRow m row used = .ok σ ∧ σ.length = m ∧ (∀ x ∈ σ, 0 ≤ x) ∧ σ.sum = 1 ∧
      ∀ i ∈ used, σ[i]? = some 0 := by
  unfold regretMatchingRow
  have hposnn : ∀ x ∈ row.map posPart, 0 ≤ x := by
    intro x hx; rw [List.mem_map] at hx; obtain ⟨y, _, rfl⟩ := hx; exact posPart_nonneg y
  by_cases hz : listSum (row.map posPart) = 0
  · -- uniform fallback over the unused coalitions
    simp only [hz, if_true, onesWithout_ok hused, bind, Except.bind]
    set u : List α := (List.range m).map (fun i => if i ∈ used then 0 else 1) with hu
    have hunn : ∀ x ∈ u, 0 ≤ x := by
      intro x hx; rw [hu, List.mem_map] at hx; obtain ⟨i, _, rfl⟩ := hx
      split <;> [exact le_refl _; exact zero_le_one]
    obtain ⟨j, hjm, hju⟩ := hfree
    have hone : ∃ x ∈ u, 0 < x := ⟨1, by
      rw [hu, List.mem_map]; exact ⟨j, List.mem_range.mpr hjm, by simp [hju]⟩, zero_lt_one⟩
    obtain ⟨σ, hok, hσ, hs, hl, hnn, hsum⟩ := normalize_distribution hunn hone
    refine ⟨σ, hok, by rw [hl, hu]; simp, hnn, hsum, ?_⟩
    intro i hi
    have him := hused i hi
    rw [hσ, hu]
    simp [him, hi]
  · simp only [hz, if_false]
    have hne : (row.map posPart).sum ≠ 0 := by rwa [listSum_eq_sum] at hz
    have hpos : ∃ x ∈ row.map posPart, 0 < x := by
      by_contra hcon
      push Not at hcon
      apply hne
      have : ∀ x ∈ row.map posPart, x = 0 := fun x hx => le_antisymm (hcon x hx) (hposnn x hx)
      exact List.sum_eq_zero this
    obtain ⟨σ, hok, hσ, hs, hl, hnn, hsum⟩ := normalize_distribution hposnn hpos
    refine ⟨σ, hok, by rw [hl]; simp [hlen], hnn, hsum, ?_⟩
    intro i hi
    have him : i < row.length := by rw [hlen]; exact hused i hi
    rw [hσ]
    simp [him, posPart_of_nonpos (hneg i hi him)]

/-- `⟨σ, q⟩ = ⟨q, σ⟩` as the code computes it (`(q_values[i] * strategy).sum()`) -/
theorem dot_comm : ∀ (q σ : List α), (List.zipWith (· * ·) q σ).sum = (List.zipWith (· * ·) σ q).sum
  | [], _ => by simp
  | _ :: _, [] => by simp
  | a :: q, b :: σ => by simp [dot_comm q σ, mul_comm]

theorem dot_sub_const : ∀ (σ q : List α) (e : α), σ.length = q.length →
    (List.zipWith (· * ·) σ (q.map (· - e))).sum = (List.zipWith (· * ·) σ q).sum - e * σ.sum
  | [], [], e, _ => by simp
  | [], _ :: _, _, h => by simp at h
  | _ :: _, [], _, h => by simp at h
  | a :: σ, b :: q, e, h => by
    simp only [List.map_cons, List.zipWith_cons_cons, List.sum_cons]
    rw [dot_sub_const σ q e (by simpa using h)]
    ring

/-- **orthogonality of one update.**  With `e = Σ_b q_b σ_b` the experienced loss, the regret added,
    `q_a − e`, is orthogonal to the strategy `σ` played — because `σ` sums to one. -/
theorem update_orthogonal {σ q : List α} (hlen : σ.length = q.length) (hs : σ.sum = 1) :
    (List.zipWith (· * ·) σ (q.map (· - listSum (List.zipWith (· * ·) q σ)))).sum = 0 := by
  rw [dot_sub_const σ q _ hlen, listSum_eq_sum, hs, dot_comm q σ]
  ring

/-- the regret row after one update is the old one plus the added regret -/
theorem regret_update_sub : ∀ (r q : List α) (e : α), r.length = q.length →
    List.zipWith (fun r' r => r' - r) (List.zipWith (fun r q => r + (q - e)) r q) r = q.map (· - e)
  | [], [], _, _ => by simp
  | [], _ :: _, _, h => by simp at h
  | _ :: _, [], _, h => by simp at h
  | a :: r, b :: q, e, h => by
    simp only [List.zipWith_cons_cons, List.map_cons]
    rw [regret_update_sub r q e (by simpa using h)]
    congr 1; ring

/-- regret of a used coalition stays ≤ 0: its q-value is 0 and the experienced loss is ≥ 0 -/
theorem used_regret_nonpos {r e : α} (hr : r ≤ 0) (he : 0 ≤ e) : r + (0 - e) ≤ 0 := by linarith

/-- the experienced loss of a node is ≥ 0 when q-values and strategy are -/
theorem dot_nonneg : ∀ (q σ : List α), (∀ x ∈ q, 0 ≤ x) → (∀ x ∈ σ, 0 ≤ x) →
    0 ≤ (List.zipWith (· * ·) q σ).sum
  | [], _, _, _ => by simp
  | _ :: _, [], _, _ => by simp
  | a :: q, b :: σ, hq, hσ => by
    simp only [List.zipWith_cons_cons, List.sum_cons]
    have := dot_nonneg q σ (fun x hx => hq x (List.mem_cons_of_mem _ hx)) (fun x hx => hσ x (List.mem_cons_of_mem _ hx))
    have := mul_nonneg (hq a List.mem_cons_self) (hσ b List.mem_cons_self)
    linarith

end node

end ICG.Regret
