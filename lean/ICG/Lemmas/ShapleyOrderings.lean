/-
  ICG.Lemmas.ShapleyOrderings — the Shapley formula is the average marginal contribution over all
  orderings of the players, for EVERY number of players.

  Specification side (readable without the proofs):
  * `maskOf l`         : the coalition (bit mask) formed by the players in the list `l`;
  * `predMask σ i`     : the coalition of the players that come before `i` in the ordering `σ`;
  * `marginal v σ i`   : `v(pred ∪ {i}) − v(pred)`;
  * `shapleyOrd n v i` : `(Σ_{σ ∈ permutations [0,…,n−1]} marginal v σ i) / n!`
                         (`List.permutations` is Mathlib's; `List.mem_permutations`, `nodup_permutations`
                         and `length_permutations` say it lists every ordering exactly once, `n!` in all).

  Proof: `perm_sum` — for a duplicate-free list `R ∋ i` and any function `D` of the predecessor set,
      Σ_{τ ∈ perms R} D(P ∪ pred_τ(i)) = Σ_{S ⊆ R∖{i}} |S|! (|R|−|S|−1)! · D(P ∪ S)
  by induction on `|R|` (first-element decomposition of the orderings, design probe P6, and the
  re-indexing of (player, subset) pairs, design probe P5); then subsets of `{0..n−1}∖{i}` are put in
  bijection with the masks `< 2^n` that miss bit `i`.
-/
import ICG.Lemmas.ShapleyBridge
import Mathlib.Algebra.BigOperators.Group.Finset.Basic
import Mathlib.Algebra.BigOperators.Group.Finset.Sigma
import Mathlib.Algebra.BigOperators.Group.Finset.Piecewise
import Mathlib.Data.Finset.Powerset
import Mathlib.Data.List.Permutation
import Mathlib.Data.List.Perm.Basic
import Mathlib.Data.Nat.Factorial.Basic

namespace ICG
open Finset

/-! ### specification -/

/-- the coalition formed by the players in `l` -/
def maskOf (l : List Nat) : Nat := l.foldr (fun p m => 2 ^ p ||| m) 0

/-- the players before `i` in the ordering `σ`, as a coalition -/
def predMask (σ : List Nat) (i : Nat) : Nat := maskOf (σ.takeWhile (fun x => x != i))

section
variable {α : Type}

/-- marginal contribution of player `i` in the ordering `σ` -/
def marginal [Sub α] (v : Nat → α) (σ : List Nat) (i : Nat) : α :=
  v (predMask σ i ||| 2 ^ i) - v (predMask σ i)

/-- average marginal contribution of player `i` over all orderings of the players `0 .. n−1` -/
def shapleyOrd [Field α] (n : Nat) (v : Nat → α) (i : Nat) : α :=
  (((List.range n).permutations.map (fun σ => marginal v σ i)).sum) / (n.factorial : α)

end

/-! ### the two combinatorial ingredients (design probes P6, P5) -/

/-- first-element decomposition of the sum over all orderings of a non-empty list -/
theorem perms_decomp {M} [AddCommMonoid M] (R : List ℕ) (hne : R ≠ []) (f : List ℕ → M) :
    ∑ σ ∈ R.permutations.toFinset, f σ
  = ∑ x ∈ R.toFinset, ∑ τ ∈ (R.erase x).permutations.toFinset, f (x :: τ) := by
  rw [Finset.sum_sigma']
  symm
  refine Finset.sum_bij' (fun p _ => p.1 :: p.2) (fun σ _ => ⟨σ.headI, σ.tail⟩) ?_ ?_ ?_ ?_ ?_
  · rintro ⟨x, τ⟩ h
    simp only [mem_sigma, List.mem_toFinset, List.mem_permutations] at h ⊢
    exact List.cons_perm_iff_perm_erase.mpr ⟨h.1, h.2⟩
  · intro σ h
    simp only [mem_sigma, List.mem_toFinset, List.mem_permutations] at h ⊢
    cases σ with
    | nil => exact absurd (List.Perm.nil_eq h) (by simpa using hne.symm)
    | cons a σ =>
      simp only [List.headI_cons, List.tail_cons]
      exact List.cons_perm_iff_perm_erase.mp h
  · rintro ⟨x, τ⟩ _; simp
  · intro σ h
    simp only [List.mem_toFinset, List.mem_permutations] at h
    cases σ with
    | nil => exact absurd (List.Perm.nil_eq h) (by simpa using hne.symm)
    | cons a σ => simp
  · rintro ⟨x, τ⟩ _; rfl

/-- pairs (x, S') with x ∈ Q, S' ⊆ Q∖x  ↔  pairs (S, x) with S ⊆ Q, x ∈ S -/
theorem reindex_pairs {M} [AddCommMonoid M] (Q : Finset ℕ) (F : ℕ → Finset ℕ → M) :
    ∑ x ∈ Q, ∑ S' ∈ (Q.erase x).powerset, F x S'
  = ∑ S ∈ Q.powerset, ∑ x ∈ S, F x (S.erase x) := by
  rw [Finset.sum_sigma', Finset.sum_sigma']
  refine Finset.sum_bij' (fun p _ => ⟨insert p.1 p.2, p.1⟩) (fun q _ => ⟨q.2, q.1.erase q.2⟩) ?_ ?_ ?_ ?_ ?_
  · rintro ⟨x, S'⟩ h
    simp only [mem_sigma, Finset.mem_powerset] at h ⊢
    refine ⟨?_, mem_insert_self _ _⟩
    intro y hy
    rcases mem_insert.mp hy with rfl | hy
    · exact h.1
    · exact mem_of_mem_erase (h.2 hy)
  · rintro ⟨S, x⟩ h
    simp only [mem_sigma, Finset.mem_powerset] at h ⊢
    exact ⟨h.1 h.2, fun y hy => mem_erase.mpr ⟨(mem_erase.mp hy).1, h.1 (mem_erase.mp hy).2⟩⟩
  · rintro ⟨x, S'⟩ h
    simp only [mem_sigma, Finset.mem_powerset] at h
    have hx : x ∉ S' := fun hx => (mem_erase.mp (h.2 hx)).1 rfl
    simp [erase_insert hx]
  · rintro ⟨S, x⟩ h
    simp only [mem_sigma, Finset.mem_powerset] at h
    simp [insert_erase h.2]
  · rintro ⟨x, S'⟩ h
    simp only [mem_sigma, Finset.mem_powerset] at h
    have hx : x ∉ S' := fun hx => (mem_erase.mp (h.2 hx)).1 rfl
    simp [erase_insert hx]

theorem toFinset_erase_of_nodup {R : List ℕ} (hR : R.Nodup) (x : ℕ) :
    (R.erase x).toFinset = R.toFinset.erase x := by
  ext y
  simp [hR.mem_erase_iff]

theorem card_perms {R : List ℕ} (hR : R.Nodup) : R.permutations.toFinset.card = R.length.factorial := by
  rw [List.toFinset_card_of_nodup (List.nodup_permutations R hR), List.length_permutations]

/-! ### counting the orderings by the predecessor set -/
section
variable {α : Type} [Field α]

theorem perm_sum (i : ℕ) (D : Finset ℕ → α) :
    ∀ (r : ℕ) (R : List ℕ) (P : Finset ℕ), R.length = r → R.Nodup → i ∈ R →
      ∑ τ ∈ R.permutations.toFinset, D (P ∪ (τ.takeWhile (fun x => x != i)).toFinset)
      = ∑ S ∈ (R.toFinset.erase i).powerset,
          ((S.card.factorial * (r - S.card - 1).factorial : ℕ) : α) * D (P ∪ S) := by
  intro r
  induction r with
  | zero =>
    intro R P hlen _ hi
    rw [List.length_eq_zero_iff] at hlen
    subst hlen
    simp at hi
  | succ r ih =>
    intro R P hlen hnd hi
    have hne : R ≠ [] := by intro h; subst h; simp at hi
    have hiF : i ∈ R.toFinset := List.mem_toFinset.mpr hi
    rw [perms_decomp R hne, ← Finset.add_sum_erase _ _ hiF]
    -- the orderings that start with `i`
    have hfirst : ∑ τ ∈ (R.erase i).permutations.toFinset,
        D (P ∪ ((i :: τ).takeWhile (fun x => x != i)).toFinset) = ((r.factorial : ℕ) : α) * D P := by
      have : ∀ τ : List ℕ, D (P ∪ ((i :: τ).takeWhile (fun x => x != i)).toFinset) = D P := by
        intro τ; simp
      simp only [this, Finset.sum_const, nsmul_eq_mul]
      rw [card_perms (hnd.erase i), List.length_erase_of_mem hi, hlen, Nat.add_sub_cancel]
    -- the orderings that start with some `x ≠ i`: induction hypothesis
    have hrest : ∀ x ∈ R.toFinset.erase i,
        ∑ τ ∈ (R.erase x).permutations.toFinset, D (P ∪ ((x :: τ).takeWhile (fun y => y != i)).toFinset)
        = ∑ S' ∈ ((R.toFinset.erase i).erase x).powerset,
            ((S'.card.factorial * (r - S'.card - 1).factorial : ℕ) : α) * D (insert x P ∪ S') := by
      intro x hx
      have hxi : x ≠ i := (mem_erase.mp hx).1
      have hxR : x ∈ R := List.mem_toFinset.mp (mem_erase.mp hx).2
      have hlen' : (R.erase x).length = r := by rw [List.length_erase_of_mem hxR, hlen, Nat.add_sub_cancel]
      have hi' : i ∈ R.erase x := (hnd.mem_erase_iff).mpr ⟨fun h => hxi h.symm, hi⟩
      have := ih (R.erase x) (insert x P) hlen' (hnd.erase x) hi'
      rw [toFinset_erase_of_nodup hnd, Finset.erase_right_comm] at this
      rw [← this]
      apply Finset.sum_congr rfl
      intro τ _
      have htw : (x :: τ).takeWhile (fun y => y != i) = x :: τ.takeWhile (fun y => y != i) := by
        simp [hxi]
      rw [htw, List.toFinset_cons, Finset.union_insert, Finset.insert_union]
    rw [hfirst, Finset.sum_congr rfl hrest,
      reindex_pairs (R.toFinset.erase i)
        (fun x S' => ((S'.card.factorial * (r - S'.card - 1).factorial : ℕ) : α) * D (insert x P ∪ S'))]
    -- collect the terms of each predecessor set `S`
    have hinner : ∀ S ∈ (R.toFinset.erase i).powerset,
        ∑ x ∈ S, ((((S.erase x).card.factorial * (r - (S.erase x).card - 1).factorial : ℕ) : α)
            * D (insert x P ∪ S.erase x))
        = (S.card : α) * ((((S.card - 1).factorial * (r - (S.card - 1) - 1).factorial : ℕ) : α) * D (P ∪ S)) := by
      intro S _
      rw [← nsmul_eq_mul, ← Finset.sum_const]
      apply Finset.sum_congr rfl
      intro x hx
      rw [Finset.card_erase_of_mem hx]
      congr 2
      ext y
      simp only [mem_union, mem_insert, mem_erase]
      constructor
      · rintro ((rfl | h) | h)
        · exact Or.inr hx
        · exact Or.inl h
        · exact Or.inr h.2
      · rintro (h | h)
        · exact Or.inl (Or.inr h)
        · by_cases hyx : y = x
          · exact Or.inl (Or.inl hyx)
          · exact Or.inr ⟨hyx, h⟩
    rw [Finset.sum_congr rfl hinner]
    have hempty : (∅ : Finset ℕ) ∈ (R.toFinset.erase i).powerset := empty_mem_powerset _
    have hsplit : ((r.factorial : ℕ) : α) * D P
        = ∑ S ∈ (R.toFinset.erase i).powerset, (if S = ∅ then ((r.factorial : ℕ) : α) * D P else 0) := by
      rw [Finset.sum_ite_eq' _ _ (fun _ => ((r.factorial : ℕ) : α) * D P), if_pos hempty]
    rw [hsplit, ← Finset.sum_add_distrib]
    apply Finset.sum_congr rfl
    intro S _
    by_cases hS : S = ∅
    · subst hS
      simp
    · rw [if_neg hS, zero_add]
      have hpos : 0 < S.card := Finset.card_pos.mpr (Finset.nonempty_iff_ne_empty.mpr hS)
      obtain ⟨k, hk⟩ : ∃ k, S.card = k + 1 := ⟨S.card - 1, by omega⟩
      rw [hk, Nat.add_sub_cancel]
      have h1 : r - k - 1 = r + 1 - (k + 1) - 1 := by omega
      rw [← h1, Nat.factorial_succ]
      push_cast
      ring


end

/-! ### subsets of `{0..n−1}` ↔ masks `< 2^n` -/

/-- the mask of a set of players `< n` -/
def maskF (n : Nat) (S : Finset ℕ) : Nat := Nat.ofBits (fun k : Fin n => decide ((k : ℕ) ∈ S))

/-- the players `< n` of a mask -/
def bitsF (n : Nat) (T : Nat) : Finset ℕ := (range n).filter (fun j => T.testBit j = true)

theorem maskF_lt (n : Nat) (S : Finset ℕ) : maskF n S < 2 ^ n := Nat.ofBits_lt_two_pow _

theorem testBit_maskF_lt {n k : Nat} (S : Finset ℕ) (hk : k < n) :
    (maskF n S).testBit k = decide (k ∈ S) := by
  unfold maskF; rw [Nat.testBit_ofBits_lt _ _ hk]

theorem testBit_maskF_ge {n k : Nat} (S : Finset ℕ) (hk : n ≤ k) : (maskF n S).testBit k = false :=
  Nat.testBit_ofBits_ge _ _ hk

theorem bitsF_maskF {n : Nat} {S : Finset ℕ} (hS : S ⊆ range n) : bitsF n (maskF n S) = S := by
  ext j
  simp only [bitsF, mem_filter, mem_range]
  constructor
  · rintro ⟨hj, hb⟩
    rw [testBit_maskF_lt S hj] at hb
    simpa using hb
  · intro hj
    have hjn := mem_range.mp (hS hj)
    exact ⟨hjn, by rw [testBit_maskF_lt S hjn]; simpa using hj⟩

theorem maskF_bitsF {n T : Nat} (hT : T < 2 ^ n) : maskF n (bitsF n T) = T := by
  apply Nat.eq_of_testBit_eq
  intro k
  by_cases hk : k < n
  · rw [testBit_maskF_lt _ hk]
    simp only [bitsF, mem_filter, mem_range, hk, true_and]
    cases T.testBit k <;> simp
  · rw [testBit_maskF_ge _ (by omega), (lt_two_pow_iff_testBit.mp hT) k (by omega)]

theorem size_maskF {n : Nat} {S : Finset ℕ} (hS : S ⊆ range n) : size (maskF n S) = S.card := by
  rw [size_eq_card (maskF_lt n S)]
  have := bitsF_maskF hS
  unfold bitsF at this
  rw [this]

theorem testBit_maskOf (l : List Nat) (k : Nat) : (maskOf l).testBit k = decide (k ∈ l) := by
  induction l with
  | nil => simp [maskOf]
  | cons a l ih =>
    have : maskOf (a :: l) = 2 ^ a ||| maskOf l := rfl
    rw [this, Nat.testBit_or, ih, Nat.testBit_two_pow]
    by_cases h : a = k
    · subst h; simp
    · have h' : ¬ k = a := fun e => h e.symm
      simp [h, h']

theorem maskOf_eq_maskF {n : Nat} {l : List Nat} (hl : ∀ x ∈ l, x < n) : maskOf l = maskF n l.toFinset := by
  apply Nat.eq_of_testBit_eq
  intro k
  rw [testBit_maskOf]
  by_cases hk : k < n
  · rw [testBit_maskF_lt _ hk]; simp
  · rw [testBit_maskF_ge _ (by omega)]
    have : k ∉ l := fun h => hk (hl k h)
    simp [this]

/-! ### the theorem -/
section
variable {α : Type} [Field α]

/-- C06: the Shapley formula of shapley.py equals the average marginal contribution over all `n!`
    orderings of the players — for every `n` and every player `i < n`. -/
theorem phi_eq_shapleyOrd {n i : Nat} (hi : i < n) (v : Nat → α) : phi n v i = shapleyOrd n v i := by
  unfold shapleyOrd phi psi
  congr 1
  rw [← List.sum_toFinset _ (List.nodup_permutations _ List.nodup_range)]
  let D : Finset ℕ → α := fun S => v (maskF n S ||| 2 ^ i) - v (maskF n S)
  have hmarg : ∀ σ ∈ (List.range n).permutations.toFinset,
      marginal v σ i = D (∅ ∪ (σ.takeWhile (fun x => x != i)).toFinset) := by
    intro σ hσ
    have hperm : σ.Perm (List.range n) := List.mem_permutations.mp (List.mem_toFinset.mp hσ)
    have hlt : ∀ x ∈ σ.takeWhile (fun x => x != i), x < n := by
      intro x hx
      have := (List.takeWhile_sublist _).subset hx
      exact List.mem_range.mp (hperm.subset this)
    unfold marginal predMask
    rw [Finset.empty_union, maskOf_eq_maskF hlt]
  rw [Finset.sum_congr rfl hmarg,
    perm_sum i D n (List.range n) ∅ List.length_range List.nodup_range (List.mem_range.mpr hi)]
  have hrange : (List.range n).toFinset = range n := by ext x; simp
  rw [hrange]
  symm
  refine Finset.sum_nbij' (fun S => maskF n S) (fun T => bitsF n T) ?_ ?_ ?_ ?_ ?_
  · intro S hS
    have hS' := Finset.mem_powerset.mp hS
    simp only [mem_filter, mem_range]
    refine ⟨maskF_lt n S, ?_⟩
    rw [testBit_maskF_lt S hi]
    have : i ∉ S := fun h => (mem_erase.mp (hS' h)).1 rfl
    simp [this]
  · intro T hT
    simp only [mem_filter, mem_range] at hT
    apply Finset.mem_powerset.mpr
    intro j hj
    simp only [bitsF, mem_filter, mem_range] at hj
    refine mem_erase.mpr ⟨?_, mem_range.mpr hj.1⟩
    intro hji
    subst hji
    rw [hT.2] at hj
    exact absurd hj.2 (by simp)
  · intro S hS
    have hS' := Finset.mem_powerset.mp hS
    exact bitsF_maskF (fun j hj => (mem_erase.mp (hS' hj)).2)
  · intro T hT
    simp only [mem_filter, mem_range] at hT
    exact maskF_bitsF hT.1
  · intro S hS
    have hS' := Finset.mem_powerset.mp hS
    have hsub : S ⊆ range n := fun j hj => (mem_erase.mp (hS' hj)).2
    rw [size_maskF hsub, Finset.empty_union]
    rfl

end

/-! ### an executable enumeration of the orderings (first-element recursion) -/

/-- all orderings of `l`, choosing the first element in every possible way (`k` = fuel = length) -/
def orderingsAux : Nat → List Nat → List (List Nat)
  | 0, _ => [[]]
  | k + 1, l => l.flatMap (fun x => (orderingsAux k (l.erase x)).map (fun τ => x :: τ))

def orderings (l : List Nat) : List (List Nat) := orderingsAux l.length l

theorem mem_orderingsAux : ∀ (k : Nat) (l σ : List Nat), l.length = k → (σ ∈ orderingsAux k l ↔ σ.Perm l) := by
  intro k
  induction k with
  | zero =>
    intro l σ hl
    rw [List.length_eq_zero_iff] at hl
    subst hl
    simp [orderingsAux]
  | succ k ih =>
    intro l σ hl
    simp only [orderingsAux, List.mem_flatMap, List.mem_map]
    constructor
    · rintro ⟨x, hx, τ, hτ, rfl⟩
      have := (ih (l.erase x) τ (by rw [List.length_erase_of_mem hx, hl, Nat.add_sub_cancel])).mp hτ
      exact List.cons_perm_iff_perm_erase.mpr ⟨hx, this⟩
    · intro hσ
      cases σ with
      | nil =>
        have := hσ.length_eq
        simp [hl] at this
      | cons x τ =>
        obtain ⟨hx, hτ⟩ := List.cons_perm_iff_perm_erase.mp hσ
        exact ⟨x, hx, τ, (ih (l.erase x) τ (by rw [List.length_erase_of_mem hx, hl, Nat.add_sub_cancel])).mpr hτ, rfl⟩

theorem nodup_orderingsAux : ∀ (k : Nat) (l : List Nat), l.length = k → l.Nodup → (orderingsAux k l).Nodup := by
  intro k
  induction k with
  | zero => intro l _ _; simp [orderingsAux]
  | succ k ih =>
    intro l hl hnd
    simp only [orderingsAux]
    rw [List.nodup_flatMap]
    constructor
    · intro x hx
      apply List.Nodup.map
      · intro a b h; exact (List.cons.inj h).2
      · exact ih (l.erase x) (by rw [List.length_erase_of_mem hx, hl, Nat.add_sub_cancel]) (hnd.erase x)
    · apply hnd.pairwise_of_forall_ne
      intro x _ y _ hxy σ hσx hσy
      obtain ⟨_, _, rfl⟩ := List.mem_map.mp hσx
      obtain ⟨_, _, h⟩ := List.mem_map.mp hσy
      exact hxy (List.cons.inj h).1.symm

/-- summing over the executable enumeration = summing over Mathlib's `permutations` -/
theorem sum_orderings {M : Type} [AddCommMonoid M] {l : List Nat} (hl : l.Nodup) (f : List Nat → M) :
    ((orderings l).map f).sum = (l.permutations.map f).sum := by
  unfold orderings
  rw [← List.sum_toFinset f (nodup_orderingsAux _ l rfl hl),
    ← List.sum_toFinset f (List.nodup_permutations l hl)]
  congr 1
  ext σ
  simp only [List.mem_toFinset, List.mem_permutations]
  exact mem_orderingsAux _ l σ rfl

section
variable {α : Type} [Field α]

/-- `shapleyOrd` with the executable enumeration -/
def shapleyOrdE (n : Nat) (v : Nat → α) (i : Nat) : α :=
  (((orderings (List.range n)).map (fun σ => marginal v σ i)).sum) / (n.factorial : α)

theorem shapleyOrdE_eq (n : Nat) (v : Nat → α) (i : Nat) : shapleyOrdE n v i = shapleyOrd n v i := by
  unfold shapleyOrdE shapleyOrd
  rw [sum_orderings List.nodup_range]

end
end ICG
