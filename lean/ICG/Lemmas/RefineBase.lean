/-
  ICG.Lemmas.RefineBase — ingredients of the refinement "the bound computers compute the spec":

  * unfolding lemmas for `splitSpec` / `closeSpec` / `upAgainst` / `samUp` (no `attach`, no `match`)
  * the knowledge-only congruence lemmas (`splitSpec_congr`, `loSpec_congr`, `closeSpec_congr`,
    `samB_congr`, `upAgainst_congr`, `upSpec_congr`, `samUp_congr`)
  * `MinInfo` consequences on bit masks (an unknown coalition has a known proper non-empty sub-coalition
    and a known proper superset)
  * the three generic passes: `splitPass` (lower column, recursion over proper splits),
    `closePass` (lower column, max over supersets), `hiPass` (upper column)

  Namespaces: helper lemmas of the `Refine*` / `Sweep` files live in `ICG.Refine` (several short names —
  `samB_known`, `closeSpec_congr`, `mem_structSel_one`, … — also exist in `ICG` / `ICG.SpecSA`, proved
  by the spec-side files); the headline theorems (`sa_eq_spec`, `sac_eq_spec`, `sam_eq_spec`, `*_core`,
  `*_defined_iff`, `order_free`, `sa_sac_agree`, `compute_*`) and `Table.Inv`, `RefinesTo`,
  `Computer.specLo/specUp` live in `ICG`.

  Everything is stated over `[Add α] [Sub α] [LinearOrder α]`: the algebraic laws of the value type play
  no role in the refinement, so the theorems apply in particular to every
  `[AddCommGroup α] [LinearOrder α] [IsOrderedAddMonoid α]`.
-/
import ICG.Lemmas.Sweep
import ICG.Lemmas.ListMax
import ICG.Lemmas.BitFacts

namespace ICG.Refine
open Table

variable {α : Type}

/-! ### lists -/

section lists
variable [LinearOrder α]

theorem listMax?_map_congr {ι : Type} {l l' : List ι} {f g : ι → α} (hl : ∀ x, x ∈ l ↔ x ∈ l')
    (hf : ∀ x ∈ l, f x = g x) : listMax? (l.map f) = listMax? (l'.map g) := by
  apply listMax?_congr
  intro y
  simp only [List.mem_map]
  constructor
  · rintro ⟨x, hx, rfl⟩; exact ⟨x, (hl x).mp hx, (hf x hx).symm⟩
  · rintro ⟨x, hx, rfl⟩; exact ⟨x, (hl x).mpr hx, hf x ((hl x).mpr hx)⟩

theorem listMin?_map_congr {ι : Type} {l l' : List ι} {f g : ι → α} (hl : ∀ x, x ∈ l ↔ x ∈ l')
    (hf : ∀ x ∈ l, f x = g x) : listMin? (l.map f) = listMin? (l'.map g) := by
  apply listMin?_congr
  intro y
  simp only [List.mem_map]
  constructor
  · rintro ⟨x, hx, rfl⟩; exact ⟨x, (hl x).mp hx, (hf x hx).symm⟩
  · rintro ⟨x, hx, rfl⟩; exact ⟨x, (hl x).mpr hx, hf x ((hl x).mpr hx)⟩

theorem listMax?_append_map_congr {ι : Type} {e e' : List α} {l l' : List ι} {f g : ι → α}
    (he : ∀ y, y ∈ e ↔ y ∈ e') (hl : ∀ x, x ∈ l ↔ x ∈ l')
    (hf : ∀ x ∈ l, f x = g x) : listMax? (e ++ l.map f) = listMax? (e' ++ l'.map g) := by
  apply listMax?_congr
  intro y
  simp only [List.mem_append, List.mem_map]
  constructor
  · rintro (h | ⟨x, hx, rfl⟩)
    · exact Or.inl ((he y).mp h)
    · exact Or.inr ⟨x, (hl x).mp hx, (hf x hx).symm⟩
  · rintro (h | ⟨x, hx, rfl⟩)
    · exact Or.inl ((he y).mpr h)
    · exact Or.inr ⟨x, (hl x).mpr hx, hf x ((hl x).mpr hx)⟩

end lists

/-! ### unfolding the specification -/

section unfold
variable [Add α] [Max α]

theorem splitSpec_unfold (known : Nat → Bool) (v : Nat → α) (extra : Nat → List α) (c : Nat) :
    splitSpec known v extra c =
      if known c then v c else
        match listMax? (extra c ++ (properSubs c).map fun x =>
            splitSpec known v extra x + splitSpec known v extra (c - x)) with
        | some m => m
        | none => v c := by
  rw [splitSpec]
  have : ((properSubs c).attach.map fun (p : { x // x ∈ properSubs c }) =>
        splitSpec known v extra p.1 + splitSpec known v extra (c - p.1)) =
      (properSubs c).map fun x => splitSpec known v extra x + splitSpec known v extra (c - x) :=
    List.attach_map_val (l := properSubs c)
      (f := fun x => splitSpec known v extra x + splitSpec known v extra (c - x))
  rw [← this]
  rfl

theorem splitSpec_known {known : Nat → Bool} {v : Nat → α} {extra : Nat → List α} {c : Nat}
    (h : known c = true) : splitSpec known v extra c = v c := by
  rw [splitSpec_unfold, if_pos h]

theorem splitSpec_unknown {known : Nat → Bool} {v : Nat → α} {extra : Nat → List α} {c : Nat} {m : α}
    (h : known c = false)
    (hm : listMax? (extra c ++ (properSubs c).map fun x =>
            splitSpec known v extra x + splitSpec known v extra (c - x)) = some m) :
    splitSpec known v extra c = m := by
  rw [splitSpec_unfold, if_neg (by simp [h]), hm]

theorem loSpec_known {known : Nat → Bool} {v : Nat → α} {c : Nat} (h : known c = true) :
    loSpec known v c = v c := splitSpec_known h

omit [Add α] in
theorem closeSpec_known {n : Nat} {known : Nat → Bool} {v A : Nat → α} {c : Nat}
    (h : known c = true) : closeSpec n known v A c = v c := by
  rw [closeSpec, if_pos h]

omit [Add α] in
theorem closeSpec_unknown {n : Nat} {known : Nat → Bool} {v A : Nat → α} {c : Nat} {m : α}
    (h : known c = false)
    (hm : listMax? (((List.range (2 ^ n)).filter (fun T => isSub c T)).map A) = some m) :
    closeSpec n known v A c = m := by
  rw [closeSpec, if_neg (by simp [h]), hm]

theorem samB_known {n : Nat} {known : Nat → Bool} {v : Nat → α} {c : Nat} (h : known c = true)
    (i : Nat) : samB n known v i c = v c := by
  cases i <;> exact closeSpec_known h

end unfold

section unfoldUp
variable [Add α] [Sub α] [Max α] [Min α]

omit [Add α] [Max α] in
theorem upAgainst_known {n : Nat} {known : Nat → Bool} {v lo : Nat → α} {c : Nat}
    (h : known c = true) : upAgainst n known v lo c = v c := by
  rw [upAgainst, if_pos h]

omit [Add α] [Max α] in
theorem upAgainst_unknown {n : Nat} {known : Nat → Bool} {v lo : Nat → α} {c : Nat} {m : α}
    (h : known c = false)
    (hm : listMin? ((knownSupers n known c).map fun T => v T - lo (T - c)) = some m) :
    upAgainst n known v lo c = m := by
  rw [upAgainst, if_neg (by simp [h]), hm]

theorem upSpec_known {n : Nat} {known : Nat → Bool} {v : Nat → α} {c : Nat}
    (h : known c = true) : upSpec n known v c = v c := upAgainst_known h

theorem samUp_known {n : Nat} {known : Nat → Bool} {v : Nat → α} {r c : Nat}
    (h : known c = true) : samUp n known v r c = v c := by
  rw [samUp, if_pos h]

theorem samUp_unknown {n : Nat} {known : Nat → Bool} {v : Nat → α} {r c : Nat} {a b : α}
    (h : known c = false)
    (ha : listMin? ((knownSupers n known c).map fun T => v T - samB n known v r (T - c)) = some a)
    (hb : listMin? ((knownSubs known c).map v) = some b) :
    samUp n known v r c = min a b := by
  rw [samUp, if_neg (by simp [h]), ha, hb]

end unfoldUp

theorem mem_knownSupers {n : Nat} {known : Nat → Bool} {c T : Nat} :
    T ∈ knownSupers n known c ↔ T < 2 ^ n ∧ c &&& T = c ∧ T ≠ c ∧ known T = true := by
  simp only [knownSupers, List.mem_filter, List.mem_range, Bool.and_eq_true, isSub_iff, bne_iff_ne,
    ne_eq, and_assoc]

theorem mem_knownSubs {known : Nat → Bool} {c x : Nat} :
    x ∈ knownSubs known c ↔ (x &&& c = x ∧ x ≠ 0 ∧ x ≠ c) ∧ known x = true := by
  simp only [knownSubs, List.mem_filter, mem_properSubs]

theorem mem_supersets {n c T : Nat} :
    T ∈ (List.range (2 ^ n)).filter (fun T => isSub c T) ↔ T < 2 ^ n ∧ c &&& T = c := by
  simp only [List.mem_filter, List.mem_range, isSub_iff]

/-! ### consequences of `MinInfo` -/

theorem minInfo_ne_zero {n : Nat} {known : Nat → Bool} (h : MinInfo n known) {c : Nat}
    (hk : known c = false) : c ≠ 0 := by
  rintro rfl; rw [h.1] at hk; cases hk

/-- an unknown coalition contains a known singleton different from itself -/
theorem minInfo_exists_known_sub {n : Nat} {known : Nat → Bool} (h : MinInfo n known) {c : Nat}
    (hc : c < 2 ^ n) (hk : known c = false) :
    ∃ x, (x &&& c = x ∧ x ≠ 0 ∧ x ≠ c) ∧ known x = true := by
  obtain ⟨i, hi⟩ := Nat.exists_testBit_of_ne_zero (minInfo_ne_zero h hk)
  have hin : i < n := by
    by_contra hge
    have : c < 2 ^ i := Nat.lt_of_lt_of_le hc (Nat.pow_le_pow_right (by omega) (by omega))
    rw [Nat.testBit_lt_two_pow this] at hi; cases hi
  have hki := h.2.2 i hin
  refine ⟨2 ^ i, ⟨?_, ?_, ?_⟩, hki⟩
  · apply sub_of_testBit
    intro j hj
    rw [Nat.testBit_two_pow] at hj
    have : i = j := by simpa using hj
    subst this; exact hi
  · exact Nat.ne_of_gt (Nat.two_pow_pos i)
  · rintro heq; rw [heq, hk] at hki; cases hki

theorem minInfo_exists_proper_sub {n : Nat} {known : Nat → Bool} (h : MinInfo n known) {c : Nat}
    (hc : c < 2 ^ n) (hk : known c = false) : ∃ x, x &&& c = x ∧ x ≠ 0 ∧ x ≠ c :=
  let ⟨x, hx, _⟩ := minInfo_exists_known_sub h hc hk; ⟨x, hx⟩

theorem sub_grand {n c : Nat} (hc : c < 2 ^ n) : c &&& (2 ^ n - 1) = c := by
  rw [Nat.and_two_pow_sub_one_eq_mod, Nat.mod_eq_of_lt hc]

theorem grand_lt (n : Nat) : 2 ^ n - 1 < 2 ^ n := by
  have := Nat.two_pow_pos n; omega

/-- the grand coalition is a known proper superset of every unknown coalition -/
theorem minInfo_grand_mem_knownSupers {n : Nat} {known : Nat → Bool} (h : MinInfo n known) {c : Nat}
    (hc : c < 2 ^ n) (hk : known c = false) : 2 ^ n - 1 ∈ knownSupers n known c := by
  rw [mem_knownSupers]
  refine ⟨grand_lt n, sub_grand hc, ?_, h.2.1⟩
  rintro heq; have h21 := h.2.1; rw [heq, hk] at h21; cases h21

/-! ### the specification only reads known rows -/

section congr
variable [Add α] [LinearOrder α]

theorem splitSpec_congr {n : Nat} {known : Nat → Bool} (hmin : MinInfo n known) {v v' : Nat → α}
    {extra extra' : Nat → List α}
    (hv : ∀ c, c < 2 ^ n → known c = true → v c = v' c)
    (he : ∀ c, c < 2 ^ n → known c = false → extra c = extra' c) :
    ∀ c, c < 2 ^ n → splitSpec known v extra c = splitSpec known v' extra' c := by
  intro c
  induction c using Nat.strongRecOn with
  | _ c ih =>
    intro hc
    rw [splitSpec_unfold known v, splitSpec_unfold known v']
    cases hk : known c with
    | true => simp only [if_true]; exact hv c hc hk
    | false =>
      simp only [Bool.false_eq_true, if_false]
      have hlist : listMax? (extra c ++ (properSubs c).map fun x =>
            splitSpec known v extra x + splitSpec known v extra (c - x)) =
          listMax? (extra' c ++ (properSubs c).map fun x =>
            splitSpec known v' extra' x + splitSpec known v' extra' (c - x)) := by
        rw [he c hc hk]
        apply listMax?_append_map_congr (fun _ => Iff.rfl) (fun _ => Iff.rfl)
        intro x hx
        have hlt := properSubs_lt hx
        rw [ih x hlt.1 (by omega), ih (c - x) hlt.2 (by omega)]
      rw [hlist]
      obtain ⟨x, hx⟩ := minInfo_exists_proper_sub hmin hc hk
      obtain ⟨m, hm⟩ := listMax?_isSome
        (l := extra' c ++ (properSubs c).map fun x =>
            splitSpec known v' extra' x + splitSpec known v' extra' (c - x))
        (by
          intro hnil
          have := List.append_eq_nil_iff.mp hnil
          have h2 := List.map_eq_nil_iff.mp this.2
          have : x ∈ properSubs c := mem_properSubs.mpr hx
          rw [h2] at this; cases this)
      rw [hm]

theorem loSpec_congr {n : Nat} {known : Nat → Bool} (hmin : MinInfo n known) {v v' : Nat → α}
    (hv : ∀ c, c < 2 ^ n → known c = true → v c = v' c) :
    ∀ c, c < 2 ^ n → loSpec known v c = loSpec known v' c :=
  splitSpec_congr hmin hv (fun _ _ _ => rfl)

omit [Add α] in
theorem closeSpec_congr {n : Nat} {known : Nat → Bool} {v v' A A' : Nat → α}
    (hv : ∀ c, c < 2 ^ n → known c = true → v c = v' c)
    (hA : ∀ c, c < 2 ^ n → A c = A' c) :
    ∀ c, c < 2 ^ n → closeSpec n known v A c = closeSpec n known v' A' c := by
  intro c hc
  unfold closeSpec
  cases hk : known c with
  | true => simp only [if_true]; exact hv c hc hk
  | false =>
    simp only [Bool.false_eq_true, if_false]
    have hlist : listMax? (((List.range (2 ^ n)).filter (fun T => isSub c T)).map A) =
        listMax? (((List.range (2 ^ n)).filter (fun T => isSub c T)).map A') :=
      listMax?_map_congr (fun _ => Iff.rfl) (fun T hT => hA T (mem_supersets.mp hT).1)
    rw [hlist]
    obtain ⟨m, hm⟩ := listMax?_isSome
      (l := ((List.range (2 ^ n)).filter (fun T => isSub c T)).map A') (by
        intro hnil
        have h2 := List.map_eq_nil_iff.mp hnil
        have : c ∈ (List.range (2 ^ n)).filter (fun T => isSub c T) :=
          mem_supersets.mpr ⟨hc, Nat.and_self c⟩
        rw [h2] at this; cases this)
    rw [hm]

theorem samB_congr {n : Nat} {known : Nat → Bool} (hmin : MinInfo n known) {v v' : Nat → α}
    (hv : ∀ c, c < 2 ^ n → known c = true → v c = v' c) (i : Nat) :
    ∀ c, c < 2 ^ n → samB n known v i c = samB n known v' i c := by
  induction i with
  | zero => exact closeSpec_congr hv (loSpec_congr hmin hv)
  | succ i ih =>
    intro c hc
    simp only [samB]
    apply closeSpec_congr hv _ c hc
    apply splitSpec_congr hmin hv
    intro d hd _
    rw [ih d hd, hv 0 (Nat.two_pow_pos n) hmin.1]

end congr

section congrUp
variable [Add α] [Sub α] [LinearOrder α]

omit [Add α] in
theorem upAgainst_congr {n : Nat} {known : Nat → Bool} (hmin : MinInfo n known)
    {v v' lo lo' : Nat → α}
    (hv : ∀ c, c < 2 ^ n → known c = true → v c = v' c)
    (hlo : ∀ c, c < 2 ^ n → lo c = lo' c) :
    ∀ c, c < 2 ^ n → upAgainst n known v lo c = upAgainst n known v' lo' c := by
  intro c hc
  unfold upAgainst
  cases hk : known c with
  | true => simp only [if_true]; exact hv c hc hk
  | false =>
    simp only [Bool.false_eq_true, if_false]
    have hlist : listMin? ((knownSupers n known c).map fun T => v T - lo (T - c)) =
        listMin? ((knownSupers n known c).map fun T => v' T - lo' (T - c)) := by
      apply listMin?_map_congr (fun _ => Iff.rfl)
      intro T hT
      obtain ⟨h1, _, _, h4⟩ := mem_knownSupers.mp hT
      rw [hv T h1 h4, hlo (T - c) (by omega)]
    rw [hlist]
    obtain ⟨m, hm⟩ := listMin?_isSome
      (l := (knownSupers n known c).map fun T => v' T - lo' (T - c)) (by
        intro hnil
        have h2 := List.map_eq_nil_iff.mp hnil
        have := minInfo_grand_mem_knownSupers hmin hc hk
        rw [h2] at this; cases this)
    rw [hm]

theorem upSpec_congr {n : Nat} {known : Nat → Bool} (hmin : MinInfo n known) {v v' : Nat → α}
    (hv : ∀ c, c < 2 ^ n → known c = true → v c = v' c) :
    ∀ c, c < 2 ^ n → upSpec n known v c = upSpec n known v' c :=
  upAgainst_congr hmin hv (loSpec_congr hmin hv)

end congrUp

end ICG.Refine
