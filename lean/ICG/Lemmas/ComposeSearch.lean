/-
  ICG.Lemmas.ComposeSearch — helper lemmas for ICG/Props/Compose.lean, search part (C11, C13 / expected greedy).

  The theorems of C11 (`best_mono`, `ext_of_monotone`) and of Lemmas/ExpectedGreedy (`greedy_mono`,
  `greedy_ge_best`) are stated over an abstract column function / evaluation function with hypotheses
  "monotone under more knowledge", "depends on the set only", "defined", "mean ≠ −1".  Here:

  * `gapOfKnowledge_nonneg_of`, `gapOfKnowledge_mono_of`
        the reference quantity of C11 (`gapOfKnowledge`) for a registered computer and a gap with `GapFacts`:
        defined, non-negative, non-increasing under more knowledge (C01/C04 + C07)
  * `evalSeq_inrange`, `evalSeq_outrange`
        what `get_exploitabilities_of_action_sequence` (one pool task per sampled game) returns, for every
        number of processes: the sequential map of `gapOfKnowledge` over the games
  * `sampleRows_ok`, `columns_map`, `getBest_eq`
        what `get_best_exploitability` computes: `bestStates` on the enumeration with the column
        `q ↦ [gapOfKnowledge (game i) (start ∪ q)]_i`
  * `best_curve_of`, `best_min_of`, `greedy_curve_of`, `greedy_ge_best_of`
        C11 `best_mono` / `best_is_min` and ExpectedGreedy `greedy_mono` / `greedy_ge_best` with every hypothesis on
        the evaluation discharged, for a registered computer and any gap with `GapFacts`
-/
import ICG.Lemmas.ComposeCore
import ICG.Lemmas.ExpectedGreedy

set_option linter.unusedSectionVars false

namespace ICG.Compose
open ICG Table ICG.Search ICG.BoundsCommon ICG.SpecSA

variable {α : Type}

/-- the knowledge `start ∪ S` as the predicate C11 uses -/
abbrev Kof (start S : List Nat) : Nat → Bool := fun c => decide (c ∈ S ∨ c ∈ start)

/-- the value of a successful call (0 for a raising one; only ever used where the call succeeds) -/
def valOf [Zero α] : Except Err α → α
  | .ok x => x
  | .error _ => 0

/-! ### list and `mapE` generalities -/

theorem mapE_ok_of {τ ρ ε : Type} (g : τ → Except ε ρ) (f : τ → ρ) :
    ∀ (l : List τ), (∀ x ∈ l, g x = .ok (f x)) → Search.mapE g l = .ok (l.map f)
  | [], _ => rfl
  | x :: l, h => by
    simp only [Search.mapE, h x List.mem_cons_self,
      mapE_ok_of g f l (fun y hy => h y (List.mem_cons_of_mem _ hy)), List.map_cons]

/-- keep the gaps of a list of `(sequence, gap)` results -/
def sndE {ε ι ρ : Type} : Except ε (List (ι × ρ)) → Except ε (List ρ)
  | .error e => .error e
  | .ok rs => .ok (rs.map (·.2))

theorem mapE_pair_snd {τ ρ ε ι : Type} (G : τ → Except ε ρ) (q : ι) : ∀ (l : List τ),
    sndE (Search.mapE (fun v => (G v).map (fun g => (q, g))) l) = Search.mapE G l
  | [] => rfl
  | x :: l => by
    have ih := mapE_pair_snd G q l
    simp only [Search.mapE]
    cases hg : G x with
    | error e => rfl
    | ok r =>
      rw [← ih]
      cases Search.mapE (fun v => (G v).map (fun g => (q, g))) l <;> rfl

theorem zip_map_self {ι β : Type} (f : ι → β) : ∀ (l : List ι), l.zip (l.map f) = l.map (fun q => (q, f q))
  | [] => rfl
  | _ :: l => by simp only [List.map_cons, List.zip_cons_cons, zip_map_self f l]

theorem mapE_error_of {τ ρ ε : Type} (e : ε) : ∀ (l : List τ), l ≠ [] →
    Search.mapE (fun _ => (Except.error e : Except ε ρ)) l = .error e
  | [], h => absurd rfl h
  | _ :: _, _ => rfl

theorem zipWith_map_map {ι β γ δ : Type} (h : β → γ → δ) (a : ι → β) (b : ι → γ) : ∀ (l : List ι),
    List.zipWith h (l.map a) (l.map b) = l.map (fun q => h (a q) (b q))
  | [] => rfl
  | _ :: l => by simp only [List.map_cons, List.zipWith_cons_cons, zipWith_map_map h a b l]

/-- rows (one per game) to columns (one per sequence): a transposition -/
theorem columns_map {β δ ι : Type} (l : List ι) (f : δ → ι → β) : ∀ (gs : List δ),
    columns l.length (gs.map (fun v => l.map (f v))) = l.map (fun q => gs.map (fun v => f v q))
  | [] => by simp [columns]
  | v :: gs => by
    have ih := columns_map l f gs
    simp only [columns, List.map_cons, List.foldr_cons] at ih ⊢
    rw [ih, zipWith_map_map]

theorem cands_eq {β δ ι : Type} (seqs : List ι) (val : δ → ι → β) (games : List δ) :
    seqs.zip (columns seqs.length ((games.map (fun v => seqs.map (fun q => (q, val v q)))).map
      (fun r => r.map (·.2)))) = seqs.map (fun q => (q, games.map (fun v => val v q))) := by
  have : (games.map (fun v => seqs.map (fun q => (q, val v q)))).map (fun r => r.map (·.2)) =
      games.map (fun v => seqs.map (val v)) := by
    rw [List.map_map]
    apply List.map_congr_left
    intro v _
    simp only [Function.comp, List.map_map]
    rfl
  rw [this, columns_map, zip_map_self]

section mean
variable [Field α] [LinearOrder α] [IsStrictOrderedRing α]

theorem foldl_add_nonneg : ∀ (l : List α) (a : α), 0 ≤ a → (∀ x ∈ l, 0 ≤ x) → 0 ≤ l.foldl (· + ·) a
  | [], _, ha, _ => ha
  | x :: l, a, ha, h => foldl_add_nonneg l (a + x) (add_nonneg ha (h x List.mem_cons_self))
      (fun y hy => h y (List.mem_cons_of_mem _ hy))

/-- the mean of non-negative gaps is non-negative — in particular never the placeholder −1 of best-states -/
theorem mean_nonneg {l : List α} (h : ∀ x ∈ l, 0 ≤ x) : 0 ≤ mean l :=
  div_nonneg (foldl_add_nonneg l 0 le_rfl h) (Nat.cast_nonneg _)

theorem mean_ne_neg_one {l : List α} (h : ∀ x ∈ l, 0 ≤ x) : mean l ≠ -1 := by
  intro h1
  have := mean_nonneg h
  rw [h1] at this
  linarith

end mean

/-! ### `exactTable`, `knownOf`, `unknownOf` -/

section tables
variable [Zero α]

theorem exactTable_known {n : Nat} {v : Nat → α} {K : Nat → Bool} (h0 : K 0 = true) :
    (exactTable n v K).known = K := by
  funext c
  by_cases hc : c = 0
  · subst hc; simp [exactTable, h0]
  · simp [exactTable, hc]

theorem exactTable_agree {n : Nat} {v : Nat → α} {K : Nat → Bool} (h0 : K 0 = true) :
    (exactTable n v K).Agree v := by
  intro c _ hk
  have : K c = true := by rw [← exactTable_known (v := v) (n := n) h0]; exact hk
  simp [exactTable, this]

omit [Zero α] in
theorem mem_knownOf {t : Table α} {c : Nat} : c ∈ knownOf t ↔ c < 2 ^ t.n ∧ t.known c = true := by
  simp [knownOf, allCoalitions]

omit [Zero α] in
theorem mem_unknownOf {t : Table α} {c : Nat} : c ∈ unknownOf t ↔ c < 2 ^ t.n ∧ t.known c = false := by
  simp [unknownOf, allCoalitions]

omit [Zero α] in
theorem unknownOf_nodup (t : Table α) : (unknownOf t).Nodup :=
  List.Nodup.sublist List.filter_sublist List.nodup_range

omit [Zero α] in
theorem minInfo_Kof {t : Table α} (hmin : MinInfo t.n t.known) (S : List Nat) :
    MinInfo t.n (Kof (knownOf t) S) := by
  have hp := Nat.two_pow_pos t.n
  refine ⟨?_, ?_, fun i hi => ?_⟩ <;> simp only [Kof, decide_eq_true_eq, mem_knownOf]
  · exact Or.inr ⟨hp, hmin.1⟩
  · exact Or.inr ⟨by omega, hmin.2.1⟩
  · exact Or.inr ⟨Nat.pow_lt_pow_right (by omega) hi, hmin.2.2 i hi⟩

theorem known_exact (t0 : Table α) (h0 : t0.known 0 = true) (v : Nat → α) {c : Nat} (hc : c < 2 ^ t0.n) :
    (exactTable t0.n v (fun c => (knownOf t0).contains c)).known c = t0.known c := by
  rw [Bool.eq_iff_iff]
  simp only [exactTable, Bool.or_eq_true, beq_iff_eq, List.contains_iff_mem, mem_knownOf]
  constructor
  · rintro (rfl | h)
    · exact h0
    · exact h.2
  · exact fun h => Or.inr ⟨hc, h⟩

theorem knownOf_exact (t0 : Table α) (h0 : t0.known 0 = true) (v : Nat → α) :
    knownOf (exactTable t0.n v (fun c => (knownOf t0).contains c)) = knownOf t0 := by
  show (allCoalitions t0.n).filter (fun c => (exactTable t0.n v (fun c => (knownOf t0).contains c)).known c) =
    (allCoalitions t0.n).filter (fun c => t0.known c)
  apply List.filter_congr
  intro c hc
  exact known_exact t0 h0 v (List.mem_range.mp hc)

theorem unknownOf_exact (t0 : Table α) (h0 : t0.known 0 = true) (v : Nat → α) :
    unknownOf (exactTable t0.n v (fun c => (knownOf t0).contains c)) = unknownOf t0 := by
  show (allCoalitions t0.n).filter (fun c => !(exactTable t0.n v (fun c => (knownOf t0).contains c)).known c) =
    (allCoalitions t0.n).filter (fun c => !t0.known c)
  apply List.filter_congr
  intro c hc
  rw [known_exact t0 h0 v (List.mem_range.mp hc)]

end tables

/-! ### the reference quantity `gapOfKnowledge` for a registered computer and a real gap -/

section gok
variable [AddCommGroup α] [LinearOrder α] [IsOrderedAddMonoid α]
variable {k : Computer} {gap : Table α → Except Err α} {side : (Nat → α) → Prop}

/-- C01/C04 on the table C11 computes from: the computer succeeds and its result is sound -/
theorem exact_computed (k : Computer) {n : Nat} {v : Nat → α} {K : Nat → Bool} (hmin : MinInfo n K)
    (hsa : SA n v) (hmd : k.NeedsMono → MonoDec n v) :
    ∃ s, k.run (exactTable n v K) = .ok s ∧ Computed (exactTable n v K) s v := by
  have hmi : MinInfo (exactTable n v K).n (exactTable n v K).known := by
    rw [exactTable_known hmin.1]; exact hmin
  obtain ⟨s, h1, h2⟩ := run_sound k (exactTable n v K) hsa hmd hmi (exactTable_agree hmin.1)
  exact ⟨s, h1, hmi, h2⟩

/-- the gap of the game knowing `K ⊇` minimal information is defined and non-negative -/
theorem gapOfKnowledge_nonneg_of (hg : GapFacts gap side) {n : Nat} {v : Nat → α} {K : Nat → Bool}
    (hmin : MinInfo n K) (hsa : SA n v) (hmd : k.NeedsMono → MonoDec n v) (hside : side v) :
    ∃ x, C11.gapOfKnowledge k.run gap n v K = .ok x ∧ 0 ≤ x := by
  obtain ⟨s, h1, hc⟩ := exact_computed k hmin hsa hmd
  obtain ⟨x, hx, h0⟩ := hg.nonneg hside hc
  exact ⟨x, by simp only [C11.gapOfKnowledge, h1, hx], h0⟩

/-- **the gap does not increase under more knowledge** — the hypothesis of C11 `ext_of_monotone` / `best_mono`
    and of `ExpectedGreedy.greedy_mono`, from C07 (`mono_full`) -/
theorem gapOfKnowledge_mono_of (hg : GapFacts gap side) {n : Nat} {v : Nat → α} {K K' : Nat → Bool}
    (hmin : MinInfo n K) (hle : KnownLe K K') (hsa : SA n v) (hmd : k.NeedsMono → MonoDec n v)
    (hside : side v) :
    ∃ x x', C11.gapOfKnowledge k.run gap n v K = .ok x ∧ C11.gapOfKnowledge k.run gap n v K' = .ok x' ∧
      x' ≤ x ∧ 0 ≤ x' := by
  have hmin' : MinInfo n K' := minInfo_mono hmin hle
  have hmi : MinInfo (exactTable n v K).n (exactTable n v K).known := by
    rw [exactTable_known hmin.1]; exact hmin
  have hmi' : MinInfo (exactTable n v K').n (exactTable n v K').known := by
    rw [exactTable_known hmin'.1]; exact hmin'
  have hkle : KnownLe (exactTable n v K).known (exactTable n v K').known := by
    rw [exactTable_known hmin.1, exactTable_known hmin'.1]; exact hle
  obtain ⟨s, s', h1, h2, h3, h4, h5⟩ := C07.mono_full k (exactTable n v K) (exactTable n v K') v rfl hkle
    (exactTable_agree hmin.1) (exactTable_agree hmin'.1) hsa hmd hmi
  obtain ⟨x, x', hx, hx', hxx⟩ := hg.mono hside ⟨hmi, h4⟩ ⟨hmi', h5⟩ h3
  obtain ⟨y, hy, hy0⟩ := hg.nonneg hside ⟨hmi', h5⟩
  rw [hx'] at hy
  cases hy
  exact ⟨x, x', by simp only [C11.gapOfKnowledge, h1, hx], by simp only [C11.gapOfKnowledge, h2, hx'], hxx, hy0⟩

end gok

/-! ### `get_exploitabilities_of_action_sequence`: one pool task per sampled game -/

section evalseq
variable [Zero α] {γ : Type}
variable (compute : Table α → Except Err (Table α)) (gap : Table α → Except Err γ)

theorem getExploitabilitiesOfSeq_of_stateFree (t : Table α) (games : List (Nat → α)) (seq : List Nat)
    {procs : Nat} (hp : 0 < procs) (g : (Nat → α) → Except Err (List Nat × γ))
    (hsf : StateFree (fun t' v => seqGap compute gap v (knownOf t) t' seq) (fun t' => t'.n = t.n)
      (fun _ => True) g) :
    getExploitabilitiesOfSeq compute gap t games seq procs = sndE (Search.mapE g games) := by
  have hp' : procs ≠ 0 := by omega
  simp only [getExploitabilitiesOfSeq, starmap, hp', ↓reduceIte]
  rw [runPool_of_stateFree hsf t rfl _ (fun _ _ => trivial), poolChunks_flatten _ hp]
  cases Search.mapE g games <;> rfl

/-- all ids of the sequence are coalitions of the game: every pool task computes `gapOfKnowledge` of its game,
    whatever the chunking (number of processes) and whatever the shared scratch table holds -/
theorem evalSeq_inrange (hn : ∀ t t', compute t = .ok t' → t'.n = t.n) (t : Table α)
    (games : List (Nat → α)) (seq : List Nat) {procs : Nat} (hp : 0 < procs)
    (hr : ∀ c ∈ seq, c < 2 ^ t.n) :
    getExploitabilitiesOfSeq compute gap t games seq procs =
      Search.mapE (fun v => C11.gapOfKnowledge compute gap t.n v (Kof (knownOf t) seq)) games := by
  have hr' : ∀ c, c ∈ seq ∨ c ∈ knownOf t → c < 2 ^ t.n := by
    rintro c (hc | hc)
    · exact hr c hc
    · exact (mem_knownOf.mp hc).1
  rw [getExploitabilitiesOfSeq_of_stateFree compute gap t games seq hp
    (fun v => C11.seqResult compute gap t.n v (knownOf t) seq)
    (fun t' v ht' _ => C11.seqGap_stateFree compute gap hn t.n v (knownOf t) t' seq ht' hr')]
  exact mapE_pair_snd (fun v => C11.gapOfKnowledge compute gap t.n v (Kof (knownOf t) seq)) seq games

/-- an id outside the game: `full_game.get_values` raises IndexError in every task -/
theorem evalSeq_outrange (t : Table α) (games : List (Nat → α)) (seq : List Nat) {procs : Nat}
    (hp : 0 < procs) (hr : ¬ ∀ c ∈ seq, c < 2 ^ t.n) (hne : games ≠ []) :
    getExploitabilitiesOfSeq compute gap t games seq procs = .error .index := by
  rw [getExploitabilitiesOfSeq_of_stateFree compute gap t games seq hp (fun _ => .error .index)]
  · rw [mapE_error_of Err.index games hne]; rfl
  · intro t' v ht' _
    have : ¬ ∀ c ∈ seqIds seq (knownOf t), c < 2 ^ t'.n := by
      intro h
      apply hr
      intro c hc
      rw [← ht']
      exact h c ((mem_seqIds seq (knownOf t) c).mpr (Or.inl hc))
    simp only [seqGap, applySeq, applyIds_err t' v _ this]

end evalseq

/-! ### `get_best_exploitability` -/

section best
variable [Zero α] {γ : Type}
variable (compute : Table α → Except Err (Table α)) (gap : Table α → Except Err γ)

/-- the parent-side loop over the sampled games: one row per game, every row over the SAME enumeration, entry
    `(q, gapOfKnowledge (game) (start ∪ q))` — under the assumption that those quantities are defined
    (`val`), which `gapOfKnowledge_nonneg_of` provides for games of the class -/
theorem sampleRows_ok (hn : ∀ t t', compute t = .ok t' → t'.n = t.n) (ko : Option Nat) {procs : Nat}
    (hp : 0 < procs) (t0 : Table α) (h0 : t0.known 0 = true) (val : (Nat → α) → List Nat → γ) :
    ∀ (games : List (Nat → α)) (t : Table α), t.n = t0.n →
      (∀ v ∈ games, ∀ q ∈ possibleSeqs (unknownOf t0) ko,
        C11.gapOfKnowledge compute gap t0.n v (Kof (knownOf t0) q) = .ok (val v q)) →
      ∃ t', sampleRows compute gap (knownOf t0) ko procs t games =
        .ok (t', games.map (fun v => (possibleSeqs (unknownOf t0) ko).map (fun q => (q, val v q))))
  | [], t, _, _ => ⟨t, rfl⟩
  | v :: vs, t, ht, hval => by
    have hids : ∀ c ∈ knownOf t0, c < 2 ^ t.n := fun c hc => by rw [ht]; exact (mem_knownOf.mp hc).1
    have hsr := C11.search_result compute gap hn (exactTable t0.n v (fun c => (knownOf t0).contains c)) v ko
      procs hp
    rw [knownOf_exact t0 h0 v, unknownOf_exact t0 h0 v] at hsr
    have hrow : getExploitabilities compute gap (exactTable t0.n v (fun c => (knownOf t0).contains c)) v ko procs
        = .ok ((possibleSeqs (unknownOf t0) ko).map (fun q => (q, val v q))) := by
      rw [hsr]
      apply mapE_ok_of
      intro q hq
      have := hval v List.mem_cons_self q hq
      simp only [C11.seqResult, exactTable]
      rw [this]
      rfl
    obtain ⟨t', ih⟩ := sampleRows_ok hn ko hp t0 h0 val vs (exactTable t0.n v (fun c => (knownOf t0).contains c)) rfl
      (fun w hw => hval w (List.mem_cons_of_mem _ hw))
    refine ⟨t', ?_⟩
    simp only [sampleRows, applyIds_ok t v (knownOf t0) hids, ht, hrow, ih, List.map_cons]

end best

section best2
variable [Field α] [LinearOrder α] [IsStrictOrderedRing α]
variable (compute : Table α → Except Err (Table α)) (gap : Table α → Except Err α)

/-- `get_best_exploitability` = `bestStates` on the enumeration with the columns of per-game gaps -/
theorem getBest_eq (hn : ∀ t t', compute t = .ok t' → t'.n = t.n) {procs : Nat} (hp : 0 < procs)
    (t : Table α) (h0 : t.known 0 = true) (draw : Nat → (Nat → α)) (maxSteps : Nat) {reps : Nat}
    (hreps : 0 < reps) (val : (Nat → α) → List Nat → α)
    (hval : ∀ i, i < reps → ∀ q ∈ possibleSeqs (unknownOf t) (some maxSteps),
      C11.gapOfKnowledge compute gap t.n (draw i) (Kof (knownOf t) q) = .ok (val (draw i) q)) :
    ∃ t', ∀ b, bestStates maxSteps reps ((possibleSeqs (unknownOf t) (some maxSteps)).map
          (fun q => (q, ((List.range reps).map draw).map (fun v => val v q)))) = .ok b →
      getBestExploitability compute gap t draw maxSteps reps procs = .ok (t', b) := by
  have hmax : max 1 reps = reps := by omega
  obtain ⟨t', hrows⟩ := sampleRows_ok compute gap hn (some maxSteps) hp t h0 val ((List.range reps).map draw) t rfl
    (by
      intro v hv q hq
      obtain ⟨i, hi, rfl⟩ := List.mem_map.mp hv
      exact hval i (List.mem_range.mp hi) q hq)
  refine ⟨t', fun b hb => ?_⟩
  have hreps' : reps ≠ 0 := by omega
  revert hb
  simp only [getBestExploitability, sampleExploitabilities, hmax, hrows, hreps', ↓reduceIte]
  cases hg : (List.range reps).map draw with
  | nil =>
    have := congrArg List.length hg
    simp at this
    omega
  | cons g0 gs =>
    have hact : ((possibleSeqs (unknownOf t) (some maxSteps)).map (fun q => (q, val g0 q))).map (·.1) =
        possibleSeqs (unknownOf t) (some maxSteps) := by
      rw [List.map_map]; exact List.map_id _
    simp only [List.map_cons, hact]
    have hc := cands_eq (possibleSeqs (unknownOf t) (some maxSteps)) val (g0 :: gs)
    simp only [List.map_cons] at hc
    rw [hc]
    intro hb
    rw [hb]

end best2


/-! ### the search theorems with their hypotheses discharged (generic in a gap with `GapFacts`) -/

/-- the sampled games are of the class the computer `k` assumes, and satisfy the gap's side condition -/
def ClassGames [Add α] [LE α] (k : Computer) (side : (Nat → α) → Prop) (n : Nat) (games : List (Nat → α)) : Prop :=
  ∀ v ∈ games, SA n v ∧ (k.NeedsMono → MonoDec n v) ∧ side v

section searchreal
variable [Add α] [Sub α] [Max α] [Min α] [Zero α] {γ : Type}

/-- C11 `schedule_free` for the registered computers: its only hypothesis on the computer (`hn`) is `run_n` -/
theorem schedule_free_real (k : Computer) (gap : Table α → Except Err γ) (v : Nat → α) (start : List Nat)
    (scratch : Table α) (chunks : List (List (List Nat)))
    (hr : ∀ seq ∈ chunks.flatten, ∀ c, c ∈ seq ∨ c ∈ start → c < 2 ^ scratch.n) :
    runPool (seqGap k.run gap v start) scratch chunks =
      Search.mapE (C11.seqResult k.run gap scratch.n v start) chunks.flatten :=
  C11.schedule_free k.run gap (fun _ _ h => run_n k h) v start scratch chunks hr

/-- C11 `search_result` for the registered computers, any gap function, any number of processes -/
theorem search_result_real (k : Computer) (gap : Table α → Except Err γ) (t : Table α) (v : Nat → α)
    (ko : Option Nat) (procs : Nat) (hp : 0 < procs) :
    getExploitabilities k.run gap t v ko procs =
      Search.mapE (C11.seqResult k.run gap t.n v (knownOf t)) (possibleSeqs (unknownOf t) ko) :=
  C11.search_result k.run gap (fun _ _ h => run_n k h) t v ko procs hp

end searchreal

section curves
variable [Field α] [LinearOrder α] [IsStrictOrderedRing α]
variable {k : Computer} {gap : Table α → Except Err α} {side : (Nat → α) → Prop}

/-- the per-game gaps of the set `q` (added to the start knowledge of `t`) -/
def colOf (k : Computer) (gap : Table α → Except Err α) (t : Table α) (games : List (Nat → α)) (q : List Nat) :
    List α :=
  games.map (fun v => valOf (C11.gapOfKnowledge k.run gap t.n v (Kof (knownOf t) q)))

theorem gok_val (hg : GapFacts gap side) {t : Table α} (hmin : MinInfo t.n t.known) {games : List (Nat → α)}
    (hcl : ClassGames k side t.n games) {v : Nat → α} (hv : v ∈ games) (q : List Nat) :
    C11.gapOfKnowledge k.run gap t.n v (Kof (knownOf t) q) =
        .ok (valOf (C11.gapOfKnowledge k.run gap t.n v (Kof (knownOf t) q))) ∧
      0 ≤ valOf (C11.gapOfKnowledge k.run gap t.n v (Kof (knownOf t) q)) := by
  obtain ⟨hsa, hmd, hside⟩ := hcl v hv
  obtain ⟨x, hx, h0⟩ := gapOfKnowledge_nonneg_of (k := k) hg (minInfo_Kof hmin q) hsa hmd hside
  rw [hx]
  exact ⟨rfl, h0⟩

theorem colOf_nonneg (hg : GapFacts gap side) {t : Table α} (hmin : MinInfo t.n t.known)
    {games : List (Nat → α)} (hcl : ClassGames k side t.n games) (q : List Nat) :
    ∀ x ∈ colOf k gap t games q, 0 ≤ x := by
  intro x hx
  obtain ⟨v, hv, rfl⟩ := List.mem_map.mp hx
  exact (gok_val hg hmin hcl hv q).2

/-- **more knowledge, pointwise smaller gaps on the same sampled games** — the hypothesis `hmono` of C11
    `ext_of_monotone` -/
theorem colOf_mono (hg : GapFacts gap side) {t : Table α} (hmin : MinInfo t.n t.known)
    {games : List (Nat → α)} (hcl : ClassGames k side t.n games) {S T : List Nat} (hST : S ⊆ T) :
    List.Forall₂ (· ≤ ·) (colOf k gap t games T) (colOf k gap t games S) := by
  unfold colOf
  rw [List.forall₂_map_left_iff, List.forall₂_map_right_iff, List.forall₂_same]
  intro v hv
  obtain ⟨hsa, hmd, hside⟩ := hcl v hv
  have hle : KnownLe (Kof (knownOf t) S) (Kof (knownOf t) T) := by
    intro c hc
    simp only [Kof, decide_eq_true_eq] at hc ⊢
    exact hc.imp (fun h => hST h) id
  obtain ⟨x, x', hx, hx', hxx, _⟩ :=
    gapOfKnowledge_mono_of (k := k) hg (minInfo_Kof hmin S) hle hsa hmd hside
  rw [hx, hx']
  exact hxx

theorem possibleSeqs_inrange {t : Table α} {ko : Option Nat} {q : List Nat}
    (hq : q ∈ possibleSeqs (unknownOf t) ko) : ∀ c ∈ q, c < 2 ^ t.n := fun _ hc =>
  (mem_unknownOf.mp (((C11.enum_mem (unknownOf t) ko q).mp hq).1.subset hc)).1

/-- what the pool call of `get_greedy_rewards` returns for an enumerated set -/
theorem evalSeq_col (hg : GapFacts gap side) {t : Table α} (hmin : MinInfo t.n t.known)
    {games : List (Nat → α)} (hcl : ClassGames k side t.n games) {procs : Nat} (hp : 0 < procs)
    {q : List Nat} (hr : ∀ c ∈ q, c < 2 ^ t.n) :
    getExploitabilitiesOfSeq k.run gap t games q procs = .ok (colOf k gap t games q) := by
  rw [evalSeq_inrange k.run gap (fun _ _ h => run_n k h) t games q hp hr]
  exact mapE_ok_of _ _ games (fun v hv => (gok_val hg hmin hcl hv q).1)

theorem evalSeq_nil (compute : Table α → Except Err (Table α)) (gap : Table α → Except Err α) (t : Table α)
    (seq : List Nat) {procs : Nat} (hp : 0 < procs) :
    getExploitabilitiesOfSeq compute gap t [] seq procs = .ok [] := by
  have hp' : procs ≠ 0 := by omega
  simp [getExploitabilitiesOfSeq, starmap, hp', poolChunks, chunksOf, chunksGo, runPool]

/-- the candidates best-states works on, for the real computer and gap -/
def realCands (k : Computer) (gap : Table α → Except Err α) (t : Table α) (games : List (Nat → α))
    (maxSteps : Nat) : List (List Nat × List α) :=
  (possibleSeqs (unknownOf t) (some maxSteps)).map (fun q => (q, colOf k gap t games q))

/-- **C11, best-states, end to end**: for sampled games of the class `get_best_exploitability` with a registered
    computer and a real gap function succeeds, for every number of processes, and its curve of mean gaps is
    non-increasing as long as there is a coalition left to reveal (`best_mono` with `hne`, `hex`, `hext`
    discharged; `hext` through `ext_of_monotone` from C07) -/
theorem best_curve_of (hg : GapFacts gap side) (k : Computer) {procs : Nat} (hp : 0 < procs) (t : Table α)
    (hmin : MinInfo t.n t.known) (draw : Nat → (Nat → α)) (maxSteps : Nat) {reps : Nat} (hreps : 0 < reps)
    (hcl : ClassGames k side t.n ((List.range reps).map draw)) :
    ∃ t' b, getBestExploitability k.run gap t draw maxSteps reps procs = .ok (t', b) ∧
      bestStates maxSteps reps (realCands k gap t ((List.range reps).map draw) maxSteps) = .ok b ∧
      b.length = maxSteps + 1 ∧
      ∀ s, s + 1 ≤ maxSteps → s + 1 ≤ (unknownOf t).length →
        ∃ r1 a1 r2 a2, b[s]? = some (r1, a1) ∧ b[s + 1]? = some (r2, a2) ∧ mean r2 ≤ mean r1 := by
  set games := (List.range reps).map draw with hgames
  have hlen : ∀ p ∈ realCands k gap t games maxSteps, p.1.length ≤ maxSteps := by
    intro p hp'
    obtain ⟨q, hq, rfl⟩ := List.mem_map.mp hp'
    exact ((C11.enum_mem (unknownOf t) (some maxSteps) q).mp hq).2
  have hne : ∀ p ∈ realCands k gap t games maxSteps, mean p.2 ≠ -1 := by
    intro p hp'
    obtain ⟨q, _, rfl⟩ := List.mem_map.mp hp'
    exact mean_ne_neg_one (colOf_nonneg hg hmin hcl q)
  obtain ⟨b, hb, hbl, _⟩ := C11.best_min maxSteps reps hreps (realCands k gap t games maxSteps) hlen
  obtain ⟨t', hbest⟩ := getBest_eq k.run gap (fun _ _ h => run_n k h) hp t hmin.1 draw maxSteps hreps
    (fun v q => valOf (C11.gapOfKnowledge k.run gap t.n v (Kof (knownOf t) q)))
    (fun i hi q _ => (gok_val hg hmin hcl (List.mem_map.mpr ⟨i, List.mem_range.mpr hi, rfl⟩) q).1)
  refine ⟨t', b, hbest b hb, hb, hbl, fun s hs hs' => ?_⟩
  have hex : C11.ofSize (realCands k gap t games maxSteps) s ≠ [] := by
    have hmem : ((unknownOf t).take s, colOf k gap t games ((unknownOf t).take s)) ∈
        C11.ofSize (realCands k gap t games maxSteps) s := by
      simp only [C11.ofSize, List.mem_filter, beq_iff_eq, List.length_take]
      refine ⟨List.mem_map.mpr ⟨_, (C11.enum_mem _ _ _).mpr ⟨List.take_sublist _ _, ?_⟩, rfl⟩, by omega⟩
      simp only [C11.bound, List.length_take]; omega
    intro h0
    rw [h0] at hmem
    cases hmem
  have hext := C11.ext_of_monotone (unknownOf t) (some maxSteps) (colOf k gap t games)
    (fun S T hST _ => colOf_mono hg hmin hcl hST.subset) s (by simpa [C11.bound] using hs) hs'
  obtain ⟨b', r1, a1, r2, a2, hb', h1, h2, h3⟩ :=
    C11.best_mono maxSteps reps hreps (realCands k gap t games maxSteps) hlen hne s hs hex hext
  rw [hb] at hb'
  cases hb'
  exact ⟨r1, a1, r2, a2, h1, h2, h3⟩

/-- the entries of `colOf` are the real gaps: defined and non-negative -/
theorem colOf_spec (hg : GapFacts gap side) {t : Table α} (hmin : MinInfo t.n t.known)
    {games : List (Nat → α)} (hcl : ClassGames k side t.n games) (q : List Nat) :
    List.Forall₂ (fun v x => C11.gapOfKnowledge k.run gap t.n v (Kof (knownOf t) q) = .ok x ∧ 0 ≤ x) games
      (colOf k gap t games q) := by
  unfold colOf
  rw [List.forall₂_map_right_iff, List.forall₂_same]
  exact fun v hv => gok_val hg hmin hcl hv q

/-- **C11, best-states reports the minimum and a set attaining it, end to end** (`best_is_min` with `hne`
    discharged by C07's non-negativity): for every size `s` within the limit and the number of unknown coalitions
    the reported set `q` is a set of `s` unknown coalitions, the reported row is the vector of its real gaps on the
    sampled games, and no set of that size has a smaller mean gap -/
theorem best_min_of (hg : GapFacts gap side) (k : Computer) {procs : Nat} (hp : 0 < procs) (t : Table α)
    (hmin : MinInfo t.n t.known) (draw : Nat → (Nat → α)) (maxSteps : Nat) {reps : Nat} (hreps : 0 < reps)
    (hcl : ClassGames k side t.n ((List.range reps).map draw)) :
    ∃ t' b, getBestExploitability k.run gap t draw maxSteps reps procs = .ok (t', b) ∧
      ∀ s, s ≤ maxSteps → s ≤ (unknownOf t).length →
        ∃ q, q.Sublist (unknownOf t) ∧ q.length = s ∧
          b[s]? = some (colOf k gap t ((List.range reps).map draw) q, q) ∧
          ∀ q', q'.Sublist (unknownOf t) → q'.length = s →
            mean (colOf k gap t ((List.range reps).map draw) q) ≤
              mean (colOf k gap t ((List.range reps).map draw) q') := by
  obtain ⟨t', b, hbest, hb, _, _⟩ := best_curve_of hg k hp t hmin draw maxSteps hreps hcl
  refine ⟨t', b, hbest, fun s hs hs' => ?_⟩
  set games := (List.range reps).map draw with hgames
  have hlen : ∀ p ∈ realCands k gap t games maxSteps, p.1.length ≤ maxSteps := by
    intro p hp'
    obtain ⟨q, hq, rfl⟩ := List.mem_map.mp hp'
    exact ((C11.enum_mem (unknownOf t) (some maxSteps) q).mp hq).2
  have hne : ∀ p ∈ realCands k gap t games maxSteps, mean p.2 ≠ -1 := by
    intro p hp'
    obtain ⟨q, _, rfl⟩ := List.mem_map.mp hp'
    exact mean_ne_neg_one (colOf_nonneg hg hmin hcl q)
  have hex : C11.ofSize (realCands k gap t games maxSteps) s ≠ [] := by
    have hmem : ((unknownOf t).take s, colOf k gap t games ((unknownOf t).take s)) ∈
        C11.ofSize (realCands k gap t games maxSteps) s := by
      simp only [C11.ofSize, List.mem_filter, beq_iff_eq, List.length_take]
      refine ⟨List.mem_map.mpr ⟨_, (C11.enum_mem _ _ _).mpr ⟨List.take_sublist _ _, ?_⟩, rfl⟩, by omega⟩
      simp only [C11.bound, List.length_take]; omega
    intro h0
    rw [h0] at hmem
    cases hmem
  obtain ⟨b', p, hb', hp', hps, hbs, hminp⟩ :=
    C11.best_is_min maxSteps reps hreps (realCands k gap t games maxSteps) hlen hne s hs hex
  rw [hb] at hb'
  cases hb'
  obtain ⟨q, hq, rfl⟩ := List.mem_map.mp hp'
  refine ⟨q, ((C11.enum_mem _ _ q).mp hq).1, hps, hbs, fun q' hq' hl' => ?_⟩
  exact hminp (q', colOf k gap t games q')
    (List.mem_map.mpr ⟨q', (C11.enum_mem _ _ q').mpr ⟨hq', by simp only [C11.bound]; omega⟩, rfl⟩) hl'

/-- `get_greedy_rewards` with the real pool evaluation -/
theorem expectedGreedy_eq (order : List Nat → List Nat → List Nat) (t : Table α) (games : List (Nat → α))
    (explorable : List Nat) (maxSteps procs : Nat) :
    expectedGreedy k.run gap order t games explorable maxSteps procs =
      expectedGreedyWith (fun seq => getExploitabilitiesOfSeq k.run gap t games seq procs) order explorable
        maxSteps games.length := rfl

/-- the hypothesis `hmono` of `ExpectedGreedy.greedy_mono` for the real evaluation function -/
theorem evalSeq_mono (hg : GapFacts gap side) {t : Table α} (hmin : MinInfo t.n t.known)
    {games : List (Nat → α)} (hcl : ClassGames k side t.n games) {procs : Nat} (hp : 0 < procs)
    (S : List Nat) (c : Nat) (r rc : List α)
    (h1 : getExploitabilitiesOfSeq k.run gap t games S procs = .ok r)
    (h2 : getExploitabilitiesOfSeq k.run gap t games (S ++ [c]) procs = .ok rc) : mean rc ≤ mean r := by
  by_cases hgs : games = []
  · subst hgs
    rw [evalSeq_nil _ _ _ _ hp] at h1 h2
    cases h1; cases h2
    exact le_rfl
  by_cases hr : ∀ x ∈ S ++ [c], x < 2 ^ t.n
  · have hrS : ∀ x ∈ S, x < 2 ^ t.n := fun x hx => hr x (List.mem_append_left _ hx)
    rw [evalSeq_col hg hmin hcl hp hrS] at h1
    rw [evalSeq_col hg hmin hcl hp hr] at h2
    cases h1; cases h2
    exact mean_le_mean _ _ (colOf_mono hg hmin hcl (List.subset_append_left S [c]))
  · rw [evalSeq_outrange k.run gap t games (S ++ [c]) hp hr hgs] at h2
    cases h2

/-- the hypothesis `hset` of `ExpectedGreedy.greedy_ge_best` for the real evaluation function -/
theorem evalSeq_set {t : Table α} {games : List (Nat → α)} {procs : Nat} (hp : 0 < procs) (S T : List Nat)
    (hST : ∀ c, c ∈ S ↔ c ∈ T) :
    getExploitabilitiesOfSeq k.run gap t games S procs = getExploitabilitiesOfSeq k.run gap t games T procs := by
  by_cases hgs : games = []
  · subst hgs
    rw [evalSeq_nil _ _ _ _ hp, evalSeq_nil _ _ _ _ hp]
  by_cases hr : ∀ x ∈ S, x < 2 ^ t.n
  · have hr' : ∀ x ∈ T, x < 2 ^ t.n := fun x hx => hr x ((hST x).mpr hx)
    rw [evalSeq_inrange k.run gap (fun _ _ h => run_n k h) t games S hp hr,
      evalSeq_inrange k.run gap (fun _ _ h => run_n k h) t games T hp hr']
    have : Kof (knownOf t) S = Kof (knownOf t) T := by
      funext c
      simp only [Kof, hST c]
    rw [this]
  · have hr' : ¬ ∀ x ∈ T, x < 2 ^ t.n := fun h => hr (fun x hx => h x ((hST x).mp hx))
    rw [evalSeq_outrange k.run gap t games S hp hr hgs, evalSeq_outrange k.run gap t games T hp hr' hgs]

/-- **C13, expected greedy, curve non-increasing** (`greedy_mono` with `hmono` discharged from C07) -/
theorem greedy_curve_of (hg : GapFacts gap side) (k : Computer) {procs : Nat} (hp : 0 < procs)
    (order : List Nat → List Nat → List Nat) (hperm : ∀ acts s, (order acts s).Perm s) (t : Table α)
    (hmin : MinInfo t.n t.known) (games : List (Nat → α)) (hcl : ClassGames k side t.n games)
    (explorable : List Nat) (maxSteps : Nat) (rows : List (List α)) (acts : List Nat)
    (h : expectedGreedy k.run gap order t games explorable maxSteps procs = .ok (rows, acts)) :
    ∀ i, i < maxSteps → ∃ r1 r2, rows[i]? = some r1 ∧ rows[i + 1]? = some r2 ∧ mean r2 ≤ mean r1 :=
  ExpectedGreedy.greedy_mono _ order hperm explorable maxSteps games.length rows acts h
    (evalSeq_mono hg hmin hcl hp)

/-- **C13, expected greedy, never below the exhaustive optimum, equal for 0 and 1 reveals** (`greedy_ge_best`
    with `hset`, `hcol`, `hne` discharged; `b` is what `get_best_exploitability` returns on the same games) -/
theorem greedy_ge_best_of (hg : GapFacts gap side) (k : Computer) {procs procs' : Nat} (hp : 0 < procs)
    (hp' : 0 < procs') (order : List Nat → List Nat → List Nat) (hperm : ∀ acts s, (order acts s).Perm s)
    (t : Table α) (hmin : MinInfo t.n t.known) (draw : Nat → (Nat → α)) (maxSteps : Nat) {reps : Nat}
    (hreps : 0 < reps) (hcl : ClassGames k side t.n ((List.range reps).map draw))
    (rows : List (List α)) (acts : List Nat)
    (h : expectedGreedy k.run gap order t ((List.range reps).map draw) (unknownOf t) maxSteps procs =
      .ok (rows, acts)) :
    ∃ t' b, getBestExploitability k.run gap t draw maxSteps reps procs' = .ok (t', b) ∧
      (∀ i, i ≤ maxSteps → ∃ rg rb ab, rows[i]? = some rg ∧ b[i]? = some (rb, ab) ∧ mean rb ≤ mean rg) ∧
      (∀ i, i ≤ maxSteps → i ≤ 1 →
        ∃ rg rb ab, rows[i]? = some rg ∧ b[i]? = some (rb, ab) ∧ mean rb = mean rg) := by
  obtain ⟨t', b, hbest, hb, _, _⟩ := best_curve_of hg k hp' t hmin draw maxSteps hreps hcl
  have hlen : ((List.range reps).map draw).length = reps := by simp
  rw [expectedGreedy_eq, hlen] at h
  have := ExpectedGreedy.greedy_ge_best _ order hperm (unknownOf t) (unknownOf_nodup t) maxSteps reps hreps rows acts
    h (evalSeq_set hp) (colOf k gap t ((List.range reps).map draw))
    (fun q hq => evalSeq_col hg hmin hcl hp (possibleSeqs_inrange hq))
    (fun q _ => mean_ne_neg_one (colOf_nonneg hg hmin hcl q)) b hb
  exact ⟨t', b, hbest, this.1, this.2⟩

end curves

end ICG.Compose
