/-
  ICG.Lemmas.SpecSAM — the mathematics of the SAM sequence `samB` / `samUp` of `ICG.Spec.Bounds`
  (property C04, and C07 for the SAM bounds), for every number of players `n`, every number of
  repetitions `r` and every linearly ordered commutative group of values.

  Throughout: `v` is the true game (`SA n v`, `MonoDec n v`), the partial game's values are `v`'s
  (`samB_congr` / `samUp_congr`: only the values at known masks are read), `known` satisfies `MinInfo`.
  No theorem here needs `v 0 = 0`: `SA` alone gives `v 0 ≤ 0`, which is all the extra candidate
  `samB i c + v 0` requires.

  1. `samB_known`, `samUp_known` (in SpecSAMBasic), non-emptiness: `samCands_ne_nil`,
     `samUpSupers_ne_nil`, `samUpSubs_ne_nil` (SpecSAMBasic)
  2. `sam_sound`            : `samB r c ≤ v c ≤ samUp r c`
  3. `lo_le_samB`, `samUp_le_upSpec`
  4. `sam_mono_rep`
  5. `samB_antitone`
  6. `samUp_le_sub`, `samUp_le_super`
  7. `sam_mono_known`
  8. `samB_le_samUp`, `sam_width_zero_of_known`, `sam_width_zero_of_all_known`
  congruence: `samB_congr`, `samUp_congr`
-/
import ICG.Lemmas.SpecSAMBasic
import Mathlib.Algebra.Order.Group.Int

namespace ICG
set_option linter.unusedSectionVars false

variable {α : Type} [AddCommGroup α] [LinearOrder α] [IsOrderedAddMonoid α]

/-! ### consequences of the game classes -/

theorem SA.zero_nonpos {n : Nat} {v : Nat → α} (hsa : SA n v) : v 0 ≤ 0 := by
  have h := hsa 0 0 (Nat.two_pow_pos n) (Nat.two_pow_pos n) (by simp)
  simp only [Nat.or_self] at h
  exact add_le_iff_nonpos_left.mp h

/-- superadditivity along a sub-mask: `v x + v (c − x) ≤ v c` -/
theorem SA.split_le {n : Nat} {v : Nat → α} (hsa : SA n v) {x c : Nat} (hc : c < 2 ^ n)
    (hx : x &&& c = x) : v x + v (c - x) ≤ v c := by
  have h := hsa x (c - x) (sub_lt_two_pow hx hc) (by omega) (sub_or_self hx).2
  rwa [(sub_or_self hx).1] at h

/-! ### generic lemmas on `splitSpec` and `closeSpec` -/

theorem splitSpec_nil {known : Nat → Bool} {v : Nat → α} {extra : Nat → List α} {c : Nat}
    (hk : known c = false) (hnil : splitCands known v extra c = []) :
    splitSpec known v extra c = v c := by
  rw [splitSpec_eq, hk, hnil]; rfl

/-- soundness of the split recursion: if every extra candidate is below the true value, so is the result -/
theorem splitSpec_le {n : Nat} {known : Nat → Bool} {v : Nat → α} {extra : Nat → List α}
    (hsa : SA n v)
    (hext : ∀ c, c < 2 ^ n → known c = false → ∀ e ∈ extra c, e ≤ v c) :
    ∀ c, c < 2 ^ n → splitSpec known v extra c ≤ v c := by
  intro c
  induction c using Nat.strongRecOn with
  | _ c ih =>
    intro hc
    cases hk : known c with
    | true => rw [splitSpec_known hk]
    | false =>
      by_cases hnil : splitCands known v extra c = []
      · rw [splitSpec_nil hk hnil]
      · rcases mem_splitCands.mp (splitSpec_unknown hk hnil).1 with h | ⟨x, hx, h⟩
        · exact hext c hc hk _ h
        · rw [h]
          obtain ⟨hsub, _, _⟩ := mem_properSubs.mp hx
          obtain ⟨h1, h2⟩ := properSubs_lt hx
          exact le_trans (add_le_add (ih x h1 (by omega)) (ih (c - x) h2 (by omega)))
            (hsa.split_le hc hsub)

/-- the split recursion is monotone in knowledge (given soundness of the less informed side) and in
    the extra candidates -/
theorem splitSpec_mono {n : Nat} {known known' : Nat → Bool} {v : Nat → α}
    {extra extra' : Nat → List α}
    (hkn : ∀ c, known c = true → known' c = true)
    (hsound : ∀ c, c < 2 ^ n → splitSpec known v extra c ≤ v c)
    (hne : ∀ c, c < 2 ^ n → known' c = false → ∃ x, x ∈ properSubs c)
    (hext : ∀ c, c < 2 ^ n → known' c = false → ∀ e ∈ extra c, ∃ e' ∈ extra' c, e ≤ e') :
    ∀ c, c < 2 ^ n → splitSpec known v extra c ≤ splitSpec known' v extra' c := by
  intro c
  induction c using Nat.strongRecOn with
  | _ c ih =>
    intro hc
    cases hk' : known' c with
    | true => rw [splitSpec_known hk']; exact hsound c hc
    | false =>
      have hk : known c = false := by
        cases h : known c with
        | false => rfl
        | true => rw [hkn c h] at hk'; cases hk'
      obtain ⟨x0, hx0⟩ := hne c hc hk'
      obtain ⟨hmem, _⟩ := splitSpec_unknown hk (splitCands_ne_nil (v := v) (extra := extra) hx0)
      obtain ⟨_, hub'⟩ := splitSpec_unknown hk' (splitCands_ne_nil (v := v) (extra := extra') hx0)
      rcases mem_splitCands.mp hmem with h | ⟨x, hx, h⟩
      · obtain ⟨e', he', hle⟩ := hext c hc hk' _ h
        exact le_trans hle (hub' e' (mem_splitCands.mpr (Or.inl he')))
      · rw [h]
        obtain ⟨h1, h2⟩ := properSubs_lt hx
        exact le_trans (add_le_add (ih x h1 (by omega)) (ih (c - x) h2 (by omega)))
          (hub' _ (mem_splitCands.mpr (Or.inr ⟨x, hx, rfl⟩)))

/-- soundness of the monotone closure -/
theorem closeSpec_le {n : Nat} {known : Nat → Bool} {v A : Nat → α} (hmd : MonoDec n v)
    (hA : ∀ T, T < 2 ^ n → A T ≤ v T) : ∀ c, c < 2 ^ n → closeSpec n known v A c ≤ v c := by
  intro c hc
  cases hk : known c with
  | true => rw [closeSpec_known hk]
  | false =>
    obtain ⟨⟨T, hT, hsub, heq⟩, _⟩ := closeSpec_unknown (v := v) (A := A) hc hk
    rw [heq]
    exact le_trans (hA T hT) (hmd c T hT hsub)

/-- the monotone closure is monotone in knowledge (given soundness of the less informed side) and in
    the closed vector -/
theorem closeSpec_mono {n : Nat} {known known' : Nat → Bool} {v A A' : Nat → α}
    (hkn : ∀ c, known c = true → known' c = true)
    (hsound : ∀ c, c < 2 ^ n → closeSpec n known v A c ≤ v c)
    (hA : ∀ T, T < 2 ^ n → A T ≤ A' T) :
    ∀ c, c < 2 ^ n → closeSpec n known v A c ≤ closeSpec n known' v A' c := by
  intro c hc
  cases hk' : known' c with
  | true => rw [closeSpec_known hk']; exact hsound c hc
  | false =>
    have hk : known c = false := by
      cases h : known c with
      | false => rfl
      | true => rw [hkn c h] at hk'; cases hk'
    obtain ⟨⟨T, hT, hsub, heq⟩, _⟩ := closeSpec_unknown (v := v) (A := A) hc hk
    obtain ⟨_, hub'⟩ := closeSpec_unknown (v := v) (A := A') hc hk'
    rw [heq]
    exact le_trans (hA T hT) (hub' T hT hsub)

/-- the closure dominates the vector it closes, as long as the vector is exact on known coalitions -/
theorem samS_le_samB {n : Nat} {known : Nat → Bool} {v : Nat → α} (i : Nat) {c : Nat}
    (hc : c < 2 ^ n) : samS n known v i c ≤ samB n known v i c := by
  cases hk : known c with
  | true => rw [samS_known hk, samB_known hk]
  | false =>
    rw [samB_eq]
    exact (closeSpec_unknown hc hk).2 c hc (sub_refl c)

/-! ### 2. soundness -/

section sound
variable {n : Nat} {known : Nat → Bool} {v : Nat → α}

theorem samS_le_samB_le (hsa : SA n v) (hmd : MonoDec n v) (i : Nat) :
    (∀ c, c < 2 ^ n → samS n known v i c ≤ v c) ∧ (∀ c, c < 2 ^ n → samB n known v i c ≤ v c) := by
  induction i with
  | zero =>
    have h : ∀ c, c < 2 ^ n → samS n known v 0 c ≤ v c := by
      rw [samS_eq]
      exact splitSpec_le hsa (fun c _ _ e he => by simp [samExtra] at he)
    exact ⟨h, by rw [samB_eq]; exact closeSpec_le hmd h⟩
  | succ i ih =>
    have h : ∀ c, c < 2 ^ n → samS n known v (i + 1) c ≤ v c := by
      rw [samS_eq]
      refine splitSpec_le hsa (fun c hc _ e he => ?_)
      simp only [samExtra, List.mem_singleton] at he
      rw [he]
      calc samB n known v i c + v 0 ≤ v c + 0 := add_le_add (ih.2 c hc) hsa.zero_nonpos
        _ = v c := add_zero _
    exact ⟨h, by rw [samB_eq]; exact closeSpec_le hmd h⟩

theorem samS_le (hsa : SA n v) (hmd : MonoDec n v) (i : Nat) {c : Nat} (hc : c < 2 ^ n) :
    samS n known v i c ≤ v c := (samS_le_samB_le hsa hmd i).1 c hc

/-- item 2, lower half: the SAM lower bound of every round is below the true value -/
theorem samB_le (hsa : SA n v) (hmd : MonoDec n v) (r : Nat) {c : Nat} (hc : c < 2 ^ n) :
    samB n known v r c ≤ v c := (samS_le_samB_le hsa hmd r).2 c hc

/-- item 2, upper half: the SAM upper bound is above the true value -/
theorem le_samUp (hsa : SA n v) (hmd : MonoDec n v) (hmi : MinInfo n known) (r : Nat) {c : Nat}
    (hc : c < 2 ^ n) : v c ≤ samUp n known v r c := by
  cases hk : known c with
  | true => rw [samUp_known hk]
  | false =>
    rcases (samUp_unknown (v := v) (r := r) hmi hc hk).1 with ⟨T, hT, h⟩ | ⟨x, hx, h⟩
    · rw [h]
      obtain ⟨hT1, hsub, _, _⟩ := mem_knownSupers_iff.mp hT
      have h1 : v c + v (T - c) ≤ v T := hsa.split_le hT1 hsub
      have h2 : samB n known v r (T - c) ≤ v (T - c) := samB_le hsa hmd r (by omega)
      exact le_trans (le_sub_iff_add_le.mpr h1) (sub_le_sub_left h2 _)
    · rw [h]
      obtain ⟨hsub, _, _, _⟩ := mem_knownSubs_iff.mp hx
      exact hmd x c hc hsub

/-- item 2 (C04 soundness): `samB r c ≤ v c ≤ samUp r c` -/
theorem sam_sound (hsa : SA n v) (hmd : MonoDec n v) (hmi : MinInfo n known) (r : Nat) {c : Nat}
    (hc : c < 2 ^ n) : samB n known v r c ≤ v c ∧ v c ≤ samUp n known v r c :=
  ⟨samB_le hsa hmd r hc, le_samUp hsa hmd hmi r hc⟩

/-- item 8: the bounds are ordered -/
theorem samB_le_samUp (hsa : SA n v) (hmd : MonoDec n v) (hmi : MinInfo n known) (r : Nat) {c : Nat}
    (hc : c < 2 ^ n) : samB n known v r c ≤ samUp n known v r c :=
  le_trans (samB_le hsa hmd r hc) (le_samUp hsa hmd hmi r hc)

/-- item 8: a known coalition has width zero -/
theorem sam_width_zero_of_known (r : Nat) {c : Nat} (hk : known c = true) :
    samUp n known v r c - samB n known v r c = 0 := by
  rw [samUp_known hk, samB_known hk, sub_self]

/-- item 8: when every coalition within `n` players is known, every width is zero -/
theorem sam_width_zero_of_all_known (hall : ∀ c, c < 2 ^ n → known c = true) (r : Nat) :
    ∀ c, c < 2 ^ n → samUp n known v r c - samB n known v r c = 0 :=
  fun c hc => sam_width_zero_of_known r (hall c hc)

end sound

/-! ### 3. tighter than the superadditive bounds -/

section tighter
variable {n : Nat} {known : Nat → Bool} {v : Nat → α}

theorem lo_le_samS (hsa : SA n v) (hmi : MinInfo n known) (i : Nat) {c : Nat} (hc : c < 2 ^ n) :
    loSpec known v c ≤ samS n known v i c := by
  rw [samS_eq]
  refine splitSpec_mono (n := n) (fun _ h => h) ?_ (fun c hc hk => exists_properSub hmi hc hk) ?_ c hc
  · exact splitSpec_le hsa (fun c _ _ e he => by simp at he)
  · intro c _ _ e he; simp at he

/-- item 3, lower half: the SAM lower bound of every round dominates the superadditive lower bound -/
theorem lo_le_samB (hsa : SA n v) (hmi : MinInfo n known) (r : Nat) {c : Nat} (hc : c < 2 ^ n) :
    loSpec known v c ≤ samB n known v r c :=
  le_trans (lo_le_samS hsa hmi r hc) (samS_le_samB r hc)

theorem upSpec_of_known {c : Nat} (hk : known c = true) : upSpec n known v c = v c := by
  rw [upSpec, upAgainst, if_pos hk]

/-- item 3, upper half: the SAM upper bound is below the superadditive upper bound -/
theorem samUp_le_upSpec (hsa : SA n v) (hmi : MinInfo n known) (r : Nat) {c : Nat} (hc : c < 2 ^ n) :
    samUp n known v r c ≤ upSpec n known v c := by
  cases hk : known c with
  | true => rw [samUp_known hk, upSpec_of_known hk]
  | false =>
    have hne : (knownSupers n known c).map (fun T => v T - loSpec known v (T - c)) ≠ [] := by
      intro h
      have : v (2 ^ n - 1) - loSpec known v (2 ^ n - 1 - c) ∈
          (knownSupers n known c).map (fun T => v T - loSpec known v (T - c)) :=
        List.mem_map.mpr ⟨_, sam_grand_mem_knownSupers hmi hc hk, rfl⟩
      rw [h] at this; cases this
    obtain ⟨m, hm⟩ := listMin?_isSome hne
    have heq : upSpec n known v c = m := by
      rw [upSpec, upAgainst, hk, hm]; rfl
    rw [heq]
    obtain ⟨T, hT, hTe⟩ := List.mem_map.mp (listMin?_mem hm)
    rw [← hTe]
    obtain ⟨hT1, _, _, _⟩ := mem_knownSupers_iff.mp hT
    exact le_trans ((samUp_unknown (v := v) (r := r) hmi hc hk).2.1 T hT)
      (sub_le_sub_left (lo_le_samB hsa hmi r (by omega)) _)

end tighter

/-! ### 4. monotone in the number of repetitions -/

section reps
variable {n : Nat} {known : Nat → Bool} {v : Nat → α}

theorem samS_step_samB_step (hsa : SA n v) (hmd : MonoDec n v) (hmi : MinInfo n known) (i : Nat) :
    (∀ c, c < 2 ^ n → samS n known v i c ≤ samS n known v (i + 1) c) ∧
    (∀ c, c < 2 ^ n → samB n known v i c ≤ samB n known v (i + 1) c) := by
  have close : ∀ i, (∀ c, c < 2 ^ n → samS n known v i c ≤ samS n known v (i + 1) c) →
      (∀ c, c < 2 ^ n → samB n known v i c ≤ samB n known v (i + 1) c) := by
    intro i h c hc
    rw [samB_eq, samB_eq]
    refine closeSpec_mono (fun _ h => h) (fun c hc => ?_) h c hc
    rw [← samB_eq]; exact samB_le hsa hmd i hc
  induction i with
  | zero =>
    have h : ∀ c, c < 2 ^ n → samS n known v 0 c ≤ samS n known v 1 c := by
      intro c hc
      exact lo_le_samS hsa hmi 1 hc
    exact ⟨h, close 0 h⟩
  | succ i ih =>
    have h : ∀ c, c < 2 ^ n → samS n known v (i + 1) c ≤ samS n known v (i + 2) c := by
      intro c hc
      rw [samS_eq, samS_eq]
      refine splitSpec_mono (n := n) (fun _ h => h) (fun c hc => ?_)
        (fun c hc hk => exists_properSub hmi hc hk) ?_ c hc
      · rw [← samS_eq]; exact samS_le hsa hmd (i + 1) hc
      · intro c hc _ e he
        simp only [samExtra, List.mem_singleton] at he
        refine ⟨samB n known v (i + 1) c + v 0, by simp [samExtra], ?_⟩
        rw [he]
        exact add_le_add (ih.2 c hc) le_rfl
    exact ⟨h, close (i + 1) h⟩

theorem samB_mono_rep (hsa : SA n v) (hmd : MonoDec n v) (hmi : MinInfo n known) {r r' : Nat}
    (hr : r ≤ r') {c : Nat} (hc : c < 2 ^ n) : samB n known v r c ≤ samB n known v r' c := by
  induction hr with
  | refl => exact le_rfl
  | step _ ih => exact le_trans ih ((samS_step_samB_step hsa hmd hmi _).2 c hc)

theorem samUp_mono_rep (hsa : SA n v) (hmd : MonoDec n v) (hmi : MinInfo n known) {r r' : Nat}
    (hr : r ≤ r') {c : Nat} (hc : c < 2 ^ n) : samUp n known v r' c ≤ samUp n known v r c := by
  cases hk : known c with
  | true => rw [samUp_known hk, samUp_known hk]
  | false =>
    obtain ⟨_, hsup', hsub'⟩ := samUp_unknown (v := v) (r := r') hmi hc hk
    rcases (samUp_unknown (v := v) (r := r) hmi hc hk).1 with ⟨T, hT, h⟩ | ⟨x, hx, h⟩
    · rw [h]
      obtain ⟨hT1, _, _, _⟩ := mem_knownSupers_iff.mp hT
      exact le_trans (hsup' T hT) (sub_le_sub_left (samB_mono_rep hsa hmd hmi hr (by omega)) _)
    · rw [h]; exact hsub' x hx

/-- item 4 (C04): more repetitions never loosen either bound -/
theorem sam_mono_rep (hsa : SA n v) (hmd : MonoDec n v) (hmi : MinInfo n known) {r r' : Nat}
    (hr : r ≤ r') {c : Nat} (hc : c < 2 ^ n) :
    samB n known v r c ≤ samB n known v r' c ∧ samUp n known v r' c ≤ samUp n known v r c :=
  ⟨samB_mono_rep hsa hmd hmi hr hc, samUp_mono_rep hsa hmd hmi hr hc⟩

end reps

/-! ### 5. lower bounds antitone along inclusion, 6. upper caps -/

section shape
variable {n : Nat} {known : Nat → Bool} {v : Nat → α}

/-- item 5 (C04): the SAM lower bounds are non-increasing along inclusion -/
theorem samB_antitone (hsa : SA n v) (hmd : MonoDec n v) (r : Nat) {x c : Nat} (hsub : x &&& c = x)
    (hc : c < 2 ^ n) : samB n known v r c ≤ samB n known v r x := by
  have hx : x < 2 ^ n := sub_lt_two_pow hsub hc
  cases hkx : known x with
  | true =>
    rw [samB_known hkx]
    exact le_trans (samB_le hsa hmd r hc) (hmd x c hc hsub)
  | false =>
    obtain ⟨_, hubx⟩ := closeSpec_unknown (v := v) (A := samS n known v r) hx hkx
    rw [← samB_eq] at hubx
    cases hkc : known c with
    | true =>
      have h := hubx c hc hsub
      rwa [samS_known hkc, ← samB_known (n := n) (v := v) (i := r) hkc] at h
    | false =>
      obtain ⟨⟨T, hT, hcT, heq⟩, _⟩ := closeSpec_unknown (v := v) (A := samS n known v r) hc hkc
      rw [← samB_eq] at heq
      rw [heq]
      exact hubx T hT (sub_trans hsub hcT)

/-- item 6 (C04): the SAM upper bound of an unknown coalition is capped by the value of every known
    proper non-empty sub-coalition -/
theorem samUp_le_sub (hmi : MinInfo n known) (r : Nat) {c x : Nat} (hc : c < 2 ^ n)
    (hk : known c = false) (hsub : x &&& c = x) (hx0 : x ≠ 0) (hxc : x ≠ c) (hkx : known x = true) :
    samUp n known v r c ≤ v x :=
  (samUp_unknown (v := v) (r := r) hmi hc hk).2.2 x (mem_knownSubs_iff.mpr ⟨hsub, hx0, hxc, hkx⟩)

/-- item 6 (C04): the SAM upper bound of an unknown coalition is capped by `v T − samB r (T − c)` for
    every known proper superset `T` within `n` players -/
theorem samUp_le_super (hmi : MinInfo n known) (r : Nat) {c T : Nat} (hc : c < 2 ^ n)
    (hk : known c = false) (hT : T < 2 ^ n) (hsub : c &&& T = c) (hTc : T ≠ c)
    (hkT : known T = true) : samUp n known v r c ≤ v T - samB n known v r (T - c) :=
  (samUp_unknown (v := v) (r := r) hmi hc hk).2.1 T (mem_knownSupers_iff.mpr ⟨hT, hsub, hTc, hkT⟩)

end shape

/-! ### 7. monotone in knowledge -/

section knowledge
variable {n : Nat} {known known' : Nat → Bool} {v : Nat → α}

theorem samS_mono_samB_mono (hsa : SA n v) (hmd : MonoDec n v) (hmi' : MinInfo n known')
    (hkn : ∀ c, known c = true → known' c = true) (i : Nat) :
    (∀ c, c < 2 ^ n → samS n known v i c ≤ samS n known' v i c) ∧
    (∀ c, c < 2 ^ n → samB n known v i c ≤ samB n known' v i c) := by
  have close : ∀ i, (∀ c, c < 2 ^ n → samS n known v i c ≤ samS n known' v i c) →
      (∀ c, c < 2 ^ n → samB n known v i c ≤ samB n known' v i c) := by
    intro i h c hc
    rw [samB_eq, samB_eq]
    refine closeSpec_mono hkn (fun c hc => ?_) h c hc
    rw [← samB_eq]; exact samB_le hsa hmd i hc
  have split : ∀ i, (∀ c, c < 2 ^ n → known' c = false →
        ∀ e ∈ samExtra n known v i c, ∃ e' ∈ samExtra n known' v i c, e ≤ e') →
      (∀ c, c < 2 ^ n → samS n known v i c ≤ samS n known' v i c) := by
    intro i h c hc
    rw [samS_eq, samS_eq]
    refine splitSpec_mono (n := n) hkn (fun c hc => ?_)
      (fun c hc hk => exists_properSub hmi' hc hk) h c hc
    rw [← samS_eq]; exact samS_le hsa hmd i hc
  induction i with
  | zero =>
    have h := split 0 (fun c _ _ e he => by simp [samExtra] at he)
    exact ⟨h, close 0 h⟩
  | succ i ih =>
    have h := split (i + 1) (fun c hc _ e he => by
      simp only [samExtra, List.mem_singleton] at he
      refine ⟨samB n known' v i c + v 0, by simp [samExtra], ?_⟩
      rw [he]
      exact add_le_add (ih.2 c hc) le_rfl)
    exact ⟨h, close (i + 1) h⟩

theorem samB_mono_known (hsa : SA n v) (hmd : MonoDec n v) (hmi' : MinInfo n known')
    (hkn : ∀ c, known c = true → known' c = true) (r : Nat) {c : Nat} (hc : c < 2 ^ n) :
    samB n known v r c ≤ samB n known' v r c :=
  (samS_mono_samB_mono hsa hmd hmi' hkn r).2 c hc

theorem samUp_mono_known (hsa : SA n v) (hmd : MonoDec n v) (hmi : MinInfo n known)
    (hmi' : MinInfo n known') (hkn : ∀ c, known c = true → known' c = true) (r : Nat) {c : Nat}
    (hc : c < 2 ^ n) : samUp n known' v r c ≤ samUp n known v r c := by
  cases hk' : known' c with
  | true => rw [samUp_known hk']; exact le_samUp hsa hmd hmi r hc
  | false =>
    have hk : known c = false := by
      cases h : known c with
      | false => rfl
      | true => rw [hkn c h] at hk'; cases hk'
    obtain ⟨_, hsup', hsub'⟩ := samUp_unknown (v := v) (r := r) hmi' hc hk'
    rcases (samUp_unknown (v := v) (r := r) hmi hc hk).1 with ⟨T, hT, h⟩ | ⟨x, hx, h⟩
    · rw [h]
      obtain ⟨hT1, hT2, hT3, hT4⟩ := mem_knownSupers_iff.mp hT
      exact le_trans (hsup' T (mem_knownSupers_iff.mpr ⟨hT1, hT2, hT3, hkn T hT4⟩))
        (sub_le_sub_left (samB_mono_known hsa hmd hmi' hkn r (by omega)) _)
    · rw [h]
      obtain ⟨hx1, hx2, hx3, hx4⟩ := mem_knownSubs_iff.mp hx
      exact hsub' x (mem_knownSubs_iff.mpr ⟨hx1, hx2, hx3, hkn x hx4⟩)

/-- item 7 (C07 for the SAM bounds): revealing more values (of the same true game) never loosens
    either bound -/
theorem sam_mono_known (hsa : SA n v) (hmd : MonoDec n v) (hmi : MinInfo n known)
    (hmi' : MinInfo n known') (hkn : ∀ c, known c = true → known' c = true) (r : Nat) {c : Nat}
    (hc : c < 2 ^ n) :
    samB n known v r c ≤ samB n known' v r c ∧ samUp n known' v r c ≤ samUp n known v r c :=
  ⟨samB_mono_known hsa hmd hmi' hkn r hc, samUp_mono_known hsa hmd hmi hmi' hkn r hc⟩

end knowledge

/-! ### congruence: only the values at known masks are read -/

section congr
variable {n : Nat} {known : Nat → Bool} {val val' : Nat → α}

theorem splitSpec_congr {extra extra' : Nat → List α}
    (hval : ∀ c, c < 2 ^ n → known c = true → val c = val' c)
    (hne : ∀ c, c < 2 ^ n → known c = false → ∃ x, x ∈ properSubs c)
    (hext : ∀ c, c < 2 ^ n → known c = false → extra c = extra' c) :
    ∀ c, c < 2 ^ n → splitSpec known val extra c = splitSpec known val' extra' c := by
  intro c
  induction c using Nat.strongRecOn with
  | _ c ih =>
    intro hc
    cases hk : known c with
    | true => rw [splitSpec_known hk, splitSpec_known hk]; exact hval c hc hk
    | false =>
      have hcands : splitCands known val extra c = splitCands known val' extra' c := by
        unfold splitCands
        rw [hext c hc hk]
        congr 1
        apply List.map_congr_left
        intro x hx
        obtain ⟨h1, h2⟩ := properSubs_lt hx
        rw [ih x h1 (by omega), ih (c - x) h2 (by omega)]
      obtain ⟨x0, hx0⟩ := hne c hc hk
      obtain ⟨m, hm⟩ := listMax?_isSome (splitCands_ne_nil (known := known) (v := val)
        (extra := extra) hx0)
      have hm' := hm
      rw [hcands] at hm'
      rw [splitSpec_eq, splitSpec_eq, hk, hm, hm']; rfl

theorem closeSpec_congr {A A' : Nat → α}
    (hval : ∀ c, c < 2 ^ n → known c = true → val c = val' c)
    (hA : ∀ T, T < 2 ^ n → A T = A' T) :
    ∀ c, c < 2 ^ n → closeSpec n known val A c = closeSpec n known val' A' c := by
  intro c hc
  cases hk : known c with
  | true => rw [closeSpec_known hk, closeSpec_known hk]; exact hval c hc hk
  | false =>
    obtain ⟨⟨T, hT, hsub, heq⟩, hub⟩ := closeSpec_unknown (v := val) (A := A) hc hk
    obtain ⟨⟨T', hT', hsub', heq'⟩, hub'⟩ := closeSpec_unknown (v := val') (A := A') hc hk
    apply le_antisymm
    · rw [heq, hA T hT]; exact hub' T hT hsub
    · rw [heq', ← hA T' hT']; exact hub T' hT' hsub'

theorem samS_congr_samB_congr (hmi : MinInfo n known)
    (hval : ∀ c, c < 2 ^ n → known c = true → val c = val' c) (i : Nat) :
    (∀ c, c < 2 ^ n → samS n known val i c = samS n known val' i c) ∧
    (∀ c, c < 2 ^ n → samB n known val i c = samB n known val' i c) := by
  have h0 : val 0 = val' 0 := hval 0 (Nat.two_pow_pos n) hmi.1
  induction i with
  | zero =>
    have h : ∀ c, c < 2 ^ n → samS n known val 0 c = samS n known val' 0 c := by
      intro c hc
      rw [samS_eq, samS_eq]
      exact splitSpec_congr hval (fun c hc hk => exists_properSub hmi hc hk) (fun _ _ _ => rfl) c hc
    refine ⟨h, fun c hc => ?_⟩
    rw [samB_eq, samB_eq]; exact closeSpec_congr hval h c hc
  | succ i ih =>
    have h : ∀ c, c < 2 ^ n → samS n known val (i + 1) c = samS n known val' (i + 1) c := by
      intro c hc
      rw [samS_eq, samS_eq]
      refine splitSpec_congr hval (fun c hc hk => exists_properSub hmi hc hk) (fun c hc _ => ?_) c hc
      simp only [samExtra]
      rw [ih.2 c hc, h0]
    refine ⟨h, fun c hc => ?_⟩
    rw [samB_eq, samB_eq]; exact closeSpec_congr hval h c hc

/-- the SAM lower bounds read `val` only at known masks within `n` players -/
theorem samB_congr (hmi : MinInfo n known)
    (hval : ∀ c, c < 2 ^ n → known c = true → val c = val' c) (i : Nat) {c : Nat} (hc : c < 2 ^ n) :
    samB n known val i c = samB n known val' i c :=
  (samS_congr_samB_congr hmi hval i).2 c hc

/-- the SAM upper bounds read `val` only at known masks within `n` players -/
theorem samUp_congr (hmi : MinInfo n known)
    (hval : ∀ c, c < 2 ^ n → known c = true → val c = val' c) (r : Nat) {c : Nat} (hc : c < 2 ^ n) :
    samUp n known val r c = samUp n known val' r c := by
  cases hk : known c with
  | true => rw [samUp_known hk, samUp_known hk]; exact hval c hc hk
  | false =>
    have hB : ∀ T, T ∈ knownSupers n known c →
        val T - samB n known val r (T - c) = val' T - samB n known val' r (T - c) := by
      intro T hT
      obtain ⟨hT1, _, _, hT4⟩ := mem_knownSupers_iff.mp hT
      rw [hval T hT1 hT4, samB_congr hmi hval r (show T - c < 2 ^ n by omega)]
    have hV : ∀ x, x ∈ knownSubs known c → val x = val' x := by
      intro x hx
      obtain ⟨hx1, _, _, hx4⟩ := mem_knownSubs_iff.mp hx
      exact hval x (sub_lt_two_pow hx1 hc) hx4
    obtain ⟨hmem, hsup, hsub⟩ := samUp_unknown (v := val) (r := r) hmi hc hk
    obtain ⟨hmem', hsup', hsub'⟩ := samUp_unknown (v := val') (r := r) hmi hc hk
    apply le_antisymm
    · rcases hmem' with ⟨T, hT, h⟩ | ⟨x, hx, h⟩
      · rw [h, ← hB T hT]; exact hsup T hT
      · rw [h, ← hV x hx]; exact hsub x hx
    · rcases hmem with ⟨T, hT, h⟩ | ⟨x, hx, h⟩
      · rw [h, hB T hT]; exact hsup' T hT
      · rw [h, hV x hx]; exact hsub' x hx

end congr

/-! ### a concrete instance: the hypotheses are satisfiable

  Three players, `v c = −min(2, |c|)` over `Int`, minimal information. -/

namespace SAMExample

def v : Nat → Int
  | 0 => 0
  | 1 | 2 | 4 => -1
  | _ => -2

def known (c : Nat) : Bool := c == 0 || c == 1 || c == 2 || c == 4 || c == 7

/-- a strictly more informed knowledge pattern (the pair `{0,1}` revealed) -/
def known' (c : Nat) : Bool := known c || c == 3

theorem sa : SA 3 v := by
  have h : ∀ a, a < 2 ^ 3 → ∀ b, b < 2 ^ 3 → a &&& b = 0 → v a + v b ≤ v (a ||| b) := by decide
  exact fun a b ha hb hab => h a ha b hb hab

theorem monoDec : MonoDec 3 v := by
  have h : ∀ c, c < 2 ^ 3 → ∀ x, x < 2 ^ 3 → x &&& c = x → v c ≤ v x := by decide
  exact fun x c hc hx => h c hc x (sub_lt_two_pow hx hc) hx

theorem minInfo : MinInfo 3 known := by
  refine ⟨by decide, by decide, ?_⟩
  have h : ∀ i, i < 3 → known (2 ^ i) = true := by decide
  exact h

theorem minInfo' : MinInfo 3 known' := by
  refine ⟨by decide, by decide, ?_⟩
  have h : ∀ i, i < 3 → known' (2 ^ i) = true := by decide
  exact h

theorem known_le : ∀ c, known c = true → known' c = true := by
  intro c h; simp [known', h]

/-- the unknown pair `{0,2}` (mask 5) -/
example : known 5 = false ∧ known' 5 = false := by decide

example (r : Nat) : samB 3 known v r 5 ≤ v 5 ∧ v 5 ≤ samUp 3 known v r 5 :=
  sam_sound sa monoDec minInfo r (by decide)

example (r : Nat) : loSpec known v 5 ≤ samB 3 known v r 5 ∧ samUp 3 known v r 5 ≤ upSpec 3 known v 5 :=
  ⟨lo_le_samB sa minInfo r (by decide), samUp_le_upSpec sa minInfo r (by decide)⟩

example : samB 3 known v 1 5 ≤ samB 3 known v 4 5 ∧ samUp 3 known v 4 5 ≤ samUp 3 known v 1 5 :=
  sam_mono_rep sa monoDec minInfo (by decide) (by decide)

example (r : Nat) : samB 3 known v r 7 ≤ samB 3 known v r 5 :=
  samB_antitone sa monoDec r (by decide) (by decide)

example (r : Nat) : samUp 3 known v r 5 ≤ v 4 ∧ samUp 3 known v r 5 ≤ v 7 - samB 3 known v r (7 - 5) :=
  ⟨samUp_le_sub minInfo r (by decide) (by decide) (by decide) (by decide) (by decide) (by decide),
   samUp_le_super minInfo r (by decide) (by decide) (by decide) (by decide) (by decide) (by decide)⟩

example (r : Nat) :
    samB 3 known v r 5 ≤ samB 3 known' v r 5 ∧ samUp 3 known' v r 5 ≤ samUp 3 known v r 5 :=
  sam_mono_known sa monoDec minInfo minInfo' known_le r (by decide)

example (r : Nat) : samB 3 known v r 5 ≤ samUp 3 known v r 5 :=
  samB_le_samUp sa monoDec minInfo r (by decide)

/-- in this game the lower bound at the unknown pair `{0,2}` is pinned to the true value `−2` in every
    round: `−2 = v 1 + v 4 ≤ loSpec 5 ≤ samB r 5 ≤ v 5 = −2` -/
example (r : Nat) : samB 3 known v r 5 = -2 := by
  apply le_antisymm
  · exact samB_le sa monoDec r (by decide)
  · refine le_trans ?_ (lo_le_samB sa minInfo r (by decide))
    have h5 : known 5 = false := by decide
    have hx : 1 ∈ properSubs 5 := mem_properSubs.mpr (by decide)
    have := (splitSpec_unknown (v := v) (extra := fun _ => []) h5 (splitCands_ne_nil hx)).2 _
      (mem_splitCands.mpr (Or.inr ⟨1, hx, rfl⟩))
    rw [splitSpec_known (by decide), splitSpec_known (by decide)] at this
    exact this

end SAMExample

end ICG
