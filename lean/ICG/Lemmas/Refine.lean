/-
  ICG.Lemmas.Refine — the refinement "the model computes the spec" for the reference computer `sa` and
  the cached computer `sac`, for every number of players and every value type.

  * `Table.Inv`      : known rows carry the same value in both columns
  * `sa_core`, `sac_core` : the computers succeed on every `MinInfo` table (no hypothesis on the
                       content of unknown rows, none on the upper column) and compute
                       `loSpec` / `upAgainst`
  * `sa_eq_spec`, `sac_eq_spec` : with `Inv`, the result is `loSpec` / `upSpec` row by row
  * `order_free`     : the lower pass gives the same result for every size-sorted duplicate-free
                       enumeration of the unknown coalitions

  The value type only needs `[Add α] [Sub α] [LinearOrder α]`; in particular the theorems hold over
  `[AddCommGroup α] [LinearOrder α] [IsOrderedAddMonoid α]`.
-/
import ICG.Lemmas.RefinePass

namespace ICG.Refine
open Table

variable {α : Type}

/-- known rows carry their value in both columns -/
def _root_.ICG.Table.Inv (t : Table α) : Prop := ∀ c, c < 2 ^ t.n → t.known c = true → t.lo c = t.hi c

/-! ### `np.max` / `np.min` -/

theorem npMax_of [Max α] {l : List α} {m : α} (h : listMax? l = some m) : npMax l = .ok m := by
  simp only [npMax, h]

theorem npMin_of [Min α] {l : List α} {m : α} (h : listMin? l = some m) : npMin l = .ok m := by
  simp only [npMin, h]

theorem npMax_nil [Max α] : npMax ([] : List α) = .error .value := rfl

/-! ### the relation table -/

theorem coalStructure_eq_one (E : EnumFacts) {n c d : Nat} (hc : c < 2 ^ n) (h0 : c ≠ 0)
    (hd : d < 2 ^ n) : coalStructure n c d = 1 ↔ d &&& c = d ∧ d ≠ 0 ∧ d ≠ c := by
  rw [E.struct n c d hc hd h0]
  by_cases h1 : d = 0
  · simp [h1]
  by_cases h2 : d = c
  · subst h2; simp [h1]
  by_cases h3 : c &&& d = c
  · have : ¬ d &&& c = d := fun h => h2 (by rw [← h, Nat.and_comm, h3])
    simp [h1, h2, h3, this]
  by_cases h4 : d &&& c = d
  · simp [h1, h2, h3, h4]
  · simp [h1, h2, h3, h4]

theorem coalStructure_eq_two (E : EnumFacts) {n c d : Nat} (hc : c < 2 ^ n) (h0 : c ≠ 0)
    (hd : d < 2 ^ n) : coalStructure n c d = 2 ↔ c &&& d = c ∧ d ≠ c := by
  rw [E.struct n c d hc hd h0]
  by_cases h1 : d = 0
  · have : ¬ c &&& d = c := by rw [h1, Nat.and_zero]; exact fun h => h0 h.symm
    simp [h1]
  by_cases h2 : d = c
  · subst h2; simp [h1]
  by_cases h3 : c &&& d = c
  · simp [h1, h2, h3]
  by_cases h4 : d &&& c = d
  · simp [h1, h2, h3, h4]
  · simp [h1, h2, h3, h4]

theorem coalStructure_eq_zero (E : EnumFacts) {n c d : Nat} (hc : c < 2 ^ n) (h0 : c ≠ 0)
    (hd : d < 2 ^ n) : coalStructure n c d = 0 ↔ d = c := by
  rw [E.struct n c d hc hd h0]
  by_cases h1 : d = 0
  · have : ¬ (0 = c) := fun h => h0 h.symm
    simp [h1, this]
  by_cases h2 : d = c
  · simp [h2, h0]
  by_cases h3 : c &&& d = c
  · simp [h1, h2, h3]
  by_cases h4 : d &&& c = d
  · simp [h1, h2, h3, h4]
  · simp [h1, h2, h3, h4]

/-- `all_coalitions[coal_structure[c] == 1]`: the proper non-empty sub-coalitions -/
theorem mem_structSel_one (E : EnumFacts) {n c d : Nat} (hc : c < 2 ^ n) (h0 : c ≠ 0) :
    d ∈ structSel n c 1 ↔ d &&& c = d ∧ d ≠ 0 ∧ d ≠ c := by
  simp only [structSel, allCoalitions, List.mem_filter, List.mem_range, beq_iff_eq]
  constructor
  · rintro ⟨hd, h⟩; exact (coalStructure_eq_one E hc h0 hd).mp h
  · intro h
    have hd : d < 2 ^ n := sub_lt_two_pow h.1 hc
    exact ⟨hd, (coalStructure_eq_one E hc h0 hd).mpr h⟩

/-- `all_coalitions[coal_structure[c] == 2]`: the proper supersets -/
theorem mem_structSel_two (E : EnumFacts) {n c d : Nat} (hc : c < 2 ^ n) (h0 : c ≠ 0) :
    d ∈ structSel n c 2 ↔ d < 2 ^ n ∧ c &&& d = c ∧ d ≠ c := by
  simp only [structSel, allCoalitions, List.mem_filter, List.mem_range, beq_iff_eq]
  constructor
  · rintro ⟨hd, h⟩; exact ⟨hd, (coalStructure_eq_two E hc h0 hd).mp h⟩
  · rintro ⟨hd, h⟩; exact ⟨hd, (coalStructure_eq_two E hc h0 hd).mpr h⟩

/-! ### bit facts used by the steps -/

theorem compl_proper {x c : Nat} (hx : x &&& c = x) (h0 : x ≠ 0) (hxc : x ≠ c) :
    (c - x) &&& c = c - x ∧ c - x ≠ 0 ∧ c - x ≠ c := by
  have := sub_le hx
  exact ⟨compl_sub hx, by omega, by omega⟩

theorem xor_eq_sub_of_sub {x c : Nat} (h : x &&& c = x) : c ^^^ x = c - x :=
  (sub_eq_xor_of_sub h).symm

theorem xor_eq_sub_of_sup {c T : Nat} (h : c &&& T = c) : c ^^^ T = T - c := by
  rw [Nat.xor_comm]; exact (sub_eq_xor_of_sub h).symm

/-! ### the lower steps -/

section lower
variable [Add α] [LinearOrder α]

omit [Add α] in
theorem split_list_isSome {c : Nat} (hne : ∃ x, x &&& c = x ∧ x ≠ 0 ∧ x ≠ c) (e : List α)
    (g : Nat → α) : ∃ m, listMax? (e ++ (properSubs c).map g) = some m := by
  obtain ⟨x, hx⟩ := hne
  apply listMax?_isSome
  intro hnil
  have h2 := List.map_eq_nil_iff.mp (List.append_eq_nil_iff.mp hnil).2
  have : x ∈ properSubs c := mem_properSubs.mpr hx
  rw [h2] at this; cases this

theorem saLowerStep_ok (E : EnumFacts) (t : Table α) (c : Nat) (L : Nat → α)
    (hne : ∃ x, x &&& c = x ∧ x ≠ 0 ∧ x ≠ c)
    (hlo : ∀ x, x &&& c = x → x ≠ 0 → x ≠ c → t.lo x = L x) :
    ∃ m, listMax? ([] ++ (properSubs c).map fun x => L x + L (c - x)) = some m ∧
      saLowerStep t c = .ok m := by
  obtain ⟨m, hm⟩ := split_list_isSome hne ([] : List α) (fun x => L x + L (c - x))
  refine ⟨m, hm, ?_⟩
  obtain ⟨x0, hx0⟩ := hne
  have hne' : (saSubs c).isEmpty = false := by
    cases hs : saSubs c with
    | nil => have := (E.saSubs c x0).mpr hx0; rw [hs] at this; cases this
    | cons a l => rfl
  unfold saLowerStep
  simp only [hne', Bool.false_eq_true, if_false]
  apply npMax_of
  rw [← hm, List.nil_append]
  apply listMax?_map_congr
  · intro x; rw [E.saSubs, mem_properSubs]
  · intro x hx
    obtain ⟨h1, h2, h3⟩ := (E.saSubs c x).mp hx
    obtain ⟨g1, g2, g3⟩ := compl_proper h1 h2 h3
    rw [diff_eq_sub_of_sub h1, hlo x h1 h2 h3, hlo (c - x) g1 g2 g3]

theorem sacLowerStep_ok (E : EnumFacts) (t : Table α) (c : Nat) (L : Nat → α)
    (hc : c < 2 ^ t.n) (h0 : c ≠ 0)
    (hne : ∃ x, x &&& c = x ∧ x ≠ 0 ∧ x ≠ c)
    (hlo : ∀ x, x &&& c = x → x ≠ 0 → x ≠ c → t.lo x = L x) :
    ∃ m, listMax? ([] ++ (properSubs c).map fun x => L x + L (c - x)) = some m ∧
      sacLowerStep t c = .ok m := by
  obtain ⟨m, hm⟩ := split_list_isSome hne ([] : List α) (fun x => L x + L (c - x))
  refine ⟨m, hm, ?_⟩
  unfold sacLowerStep
  apply npMax_of
  rw [← hm, List.nil_append]
  apply listMax?_map_congr
  · intro x; rw [mem_structSel_one E hc h0, mem_properSubs]
  · intro x hx
    obtain ⟨h1, h2, h3⟩ := (mem_structSel_one E hc h0).mp hx
    obtain ⟨g1, g2, g3⟩ := compl_proper h1 h2 h3
    rw [xor_eq_sub_of_sub h1, hlo x h1 h2 h3, hlo (c - x) g1 g2 g3]

end lower

/-! ### the upper steps -/

section upper
variable [Add α] [Sub α] [LinearOrder α]

omit [Add α] [Sub α] in
theorem supers_list_isSome {n : Nat} {known : Nat → Bool} (hmin : MinInfo n known) {c : Nat}
    (hc : c < 2 ^ n) (hk : known c = false) (g : Nat → α) :
    ∃ m, listMin? ((knownSupers n known c).map g) = some m := by
  apply listMin?_isSome
  intro hnil
  have h2 := List.map_eq_nil_iff.mp hnil
  have := minInfo_grand_mem_knownSupers hmin hc hk
  rw [h2] at this; cases this

omit [Add α] in
theorem saUpperStep_ok (E : EnumFacts) (t : Table α) (c : Nat) (V L : Nat → α)
    (hmin : MinInfo t.n t.known) (hc : c < 2 ^ t.n) (hk : t.known c = false)
    (hhi : ∀ T, T < 2 ^ t.n → t.known T = true → t.hi T = V T)
    (hlo : ∀ x, x < 2 ^ t.n → t.lo x = L x) :
    saUpperStep t c = .ok (upAgainst t.n t.known V L c) := by
  obtain ⟨m, hm⟩ := supers_list_isSome hmin hc hk (fun T => V T - L (T - c))
  rw [upAgainst_unknown hk hm]
  have hmem : ∀ T, T ∈ (superCoalitionsObj c t.n).filter t.known ↔ T ∈ knownSupers t.n t.known c := by
    intro T
    rw [List.mem_filter, E.superObj t.n c T hc, mem_knownSupers]
    constructor
    · rintro ⟨⟨h1, h2⟩, h3⟩
      exact ⟨h1, h2, (fun h => by rw [h, hk] at h3; cases h3), h3⟩
    · rintro ⟨h1, h2, _, h4⟩; exact ⟨⟨h1, h2⟩, h4⟩
  have hne' : ((superCoalitionsObj c t.n).filter t.known).isEmpty = false := by
    cases hs : (superCoalitionsObj c t.n).filter t.known with
    | nil =>
      have := (hmem _).mpr (minInfo_grand_mem_knownSupers hmin hc hk); rw [hs] at this; cases this
    | cons a l => rfl
  unfold saUpperStep
  simp only [hne', Bool.false_eq_true, if_false]
  apply npMin_of
  rw [← hm]
  apply listMin?_map_congr hmem
  intro T hT
  obtain ⟨h1, h2, _, h4⟩ := mem_knownSupers.mp ((hmem T).mp hT)
  rw [diff_eq_sub_of_sub h2, hhi T h1 h4, hlo (T - c) (by omega)]

omit [Add α] in
theorem sacUpperStep_ok (E : EnumFacts) (t : Table α) (c : Nat) (V L : Nat → α)
    (hmin : MinInfo t.n t.known) (hc : c < 2 ^ t.n) (hk : t.known c = false)
    (hV : ∀ T, T < 2 ^ t.n → t.known T = true → t.lo T = V T)
    (hlo : ∀ x, x < 2 ^ t.n → t.lo x = L x) :
    sacUpperStep t c = .ok (upAgainst t.n t.known V L c) := by
  obtain ⟨m, hm⟩ := supers_list_isSome hmin hc hk (fun T => V T - L (T - c))
  rw [upAgainst_unknown hk hm]
  have h0 := minInfo_ne_zero hmin hk
  have hmem : ∀ T, T ∈ (structSel t.n c 2).filter t.known ↔ T ∈ knownSupers t.n t.known c := by
    intro T
    rw [List.mem_filter, mem_structSel_two E hc h0, mem_knownSupers]
    constructor
    · rintro ⟨⟨h1, h2, h3⟩, h4⟩; exact ⟨h1, h2, h3, h4⟩
    · rintro ⟨h1, h2, h3, h4⟩; exact ⟨⟨h1, h2, h3⟩, h4⟩
  unfold sacUpperStep
  apply npMin_of
  rw [← hm]
  apply listMin?_map_congr hmem
  intro T hT
  obtain ⟨h1, h2, _, h4⟩ := mem_knownSupers.mp ((hmem T).mp hT)
  rw [xor_eq_sub_of_sup h2, hV T h1 h4, hlo (T - c) (by omega)]

end upper

/-! ### preconditions -/

theorem fromPlayers_singleton (i : Nat) : fromPlayers [i] = 2 ^ i := by
  simp [fromPlayers, List.eraseDups, List.eraseDupsBy, List.eraseDupsBy.loop]

theorem saPrecond_iff (t : Table α) : saPrecond t = true ↔ MinInfo t.n t.known := by
  simp only [saPrecond, grand, Bool.and_eq_true, List.all_eq_true, List.mem_range,
    fromPlayers_singleton, MinInfo]
  constructor
  · rintro ⟨⟨h1, h2⟩, h3⟩; exact ⟨h2, h1, h3⟩
  · rintro ⟨h1, h2, h3⟩; exact ⟨⟨h2, h1⟩, h3⟩

theorem sacPrecond_of_minInfo {t : Table α} (h : MinInfo t.n t.known) : sacPrecond t = true := by
  simp only [sacPrecond, grand, Bool.and_eq_true]; exact ⟨h.1, h.2.1⟩

/-! ### the lower pass, for every size-sorted order -/

section main
variable [Add α] [Sub α] [LinearOrder α]

omit [Sub α] in
theorem saLowerPass (E : EnumFacts) (t : Table α) (hmin : MinInfo t.n t.known) (order : List Nat)
    (ho : UnknownOrder t.n t.known order) :
    ∃ t1, sweepM saLowerStep putLo order t = .ok t1 ∧ t1.n = t.n ∧ t1.known = t.known ∧
      t1.hi = t.hi ∧ ∀ c, t1.lo c = if c < 2 ^ t.n then loSpec t.known t.lo c else t.lo c :=
  splitPass E t hmin (fun _ => []) order ho saLowerStep (by
    intro s c L _ hc hk hsub _ _
    exact saLowerStep_ok E s c L (minInfo_exists_proper_sub hmin hc hk) hsub)

omit [Sub α] in
theorem sacLowerPass (E : EnumFacts) (t : Table α) (hmin : MinInfo t.n t.known) (order : List Nat)
    (ho : UnknownOrder t.n t.known order) :
    ∃ t1, sweepM sacLowerStep putLo order t = .ok t1 ∧ t1.n = t.n ∧ t1.known = t.known ∧
      t1.hi = t.hi ∧ ∀ c, t1.lo c = if c < 2 ^ t.n then loSpec t.known t.lo c else t.lo c :=
  splitPass E t hmin (fun _ => []) order ho sacLowerStep (by
    intro s c L hn hc hk hsub _ _
    exact sacLowerStep_ok E s c L (by rw [hn]; exact hc) (minInfo_ne_zero hmin hk)
      (minInfo_exists_proper_sub hmin hc hk) hsub)

omit [Sub α] in
/-- **order_free**: the lower sweep of the cached computer succeeds and gives the same lower column for
    every size-sorted permutation of `unknownSorted t` (numpy's `argsort` is not stable; any tie-break
    gives this result). -/
theorem _root_.ICG.order_free (E : EnumFacts) (t : Table α) (hmin : MinInfo t.n t.known) (order : List Nat)
    (hperm : order.Perm (unknownSorted t))
    (hsorted : order.Pairwise (fun a b => size a ≤ size b)) :
    ∃ t1, sweepM sacLowerStep putLo order t = .ok t1 ∧ t1.n = t.n ∧ t1.known = t.known ∧
      t1.hi = t.hi ∧ (∀ c, c < 2 ^ t.n → t1.lo c = loSpec t.known t.lo c) ∧
      (∀ c, 2 ^ t.n ≤ c → t1.lo c = t.lo c) := by
  obtain ⟨t1, h1, h2, h3, h4, h5⟩ :=
    sacLowerPass E t hmin order ((unknownOrder_sac E t).of_perm hperm hsorted)
  refine ⟨t1, h1, h2, h3, h4, ?_, ?_⟩
  · intro c hc; rw [h5 c, if_pos hc]
  · intro c hc; rw [h5 c, if_neg (by omega)]

omit [Sub α] in
/-- two size-sorted permutations of the unknown coalitions give the same table -/
theorem _root_.ICG.order_free' (E : EnumFacts) (t : Table α) (hmin : MinInfo t.n t.known) (o1 o2 : List Nat)
    (hp1 : o1.Perm (unknownSorted t)) (hs1 : o1.Pairwise (fun a b => size a ≤ size b))
    (hp2 : o2.Perm (unknownSorted t)) (hs2 : o2.Pairwise (fun a b => size a ≤ size b)) :
    ∃ t1, sweepM sacLowerStep putLo o1 t = .ok t1 ∧ sweepM sacLowerStep putLo o2 t = .ok t1 := by
  obtain ⟨t1, h1, h2, h3, h4, h5⟩ :=
    sacLowerPass E t hmin o1 ((unknownOrder_sac E t).of_perm hp1 hs1)
  obtain ⟨t2, g1, g2, g3, g4, g5⟩ :=
    sacLowerPass E t hmin o2 ((unknownOrder_sac E t).of_perm hp2 hs2)
  have : t1 = t2 := by
    cases t1; cases t2
    simp only at h2 h3 h4 h5 g2 g3 g4 g5
    simp only [Table.mk.injEq]
    refine ⟨by rw [h2, g2], by rw [h3, g3], ?_, by rw [h4, g4]⟩
    funext c; rw [h5 c, g5 c]
  exact ⟨t1, h1, this ▸ g1⟩

/-! ### the reference computer -/

/-- `sa` succeeds on every `MinInfo` table and computes `loSpec` and `upAgainst` (reading the upper
    column of known supersets); nothing is assumed about unknown rows or the upper column. -/
theorem _root_.ICG.sa_core (E : EnumFacts) (t : Table α) (hmin : MinInfo t.n t.known) :
    ∃ t', sa t = .ok t' ∧ t'.n = t.n ∧ t'.known = t.known ∧
      (∀ c, c < 2 ^ t.n → t'.lo c = loSpec t.known t.lo c ∧
        t'.hi c = if t.known c then t.hi c
                  else upAgainst t.n t.known t.hi (loSpec t.known t.lo) c) ∧
      (∀ c, 2 ^ t.n ≤ c → t'.lo c = t.lo c ∧ t'.hi c = t.hi c) := by
  obtain ⟨t1, h1, h1n, h1k, h1h, h1l⟩ := saLowerPass E t hmin _ (unknownOrder_sa E t)
  have hmin1 : MinInfo t1.n t1.known := by rw [h1n, h1k]; exact hmin
  obtain ⟨t2, h2, h2n, h2k, h2l, h2h⟩ := hiPass t1 (unknownIds t)
    (by intro c; rw [mem_unknownIds, h1n, h1k])
    (upAgainst t1.n t1.known t1.hi t1.lo) saUpperStep (by
      intro s c hn hk hl hc hkc hhi
      have := saUpperStep_ok E s c t1.hi t1.lo (by rw [hn, hk]; exact hmin1) (by rw [hn]; exact hc)
        (by rw [hk]; exact hkc) (fun T _ hT => hhi T (by rw [← hk]; exact hT))
        (fun x _ => by rw [hl])
      rw [this, hn, hk])
  refine ⟨t2, ?_, by rw [h2n, h1n], by rw [h2k, h1k], ?_, ?_⟩
  · unfold sa
    rw [if_pos ((saPrecond_iff t).mpr hmin)]
    simp only [h1, compactT_eq, h2, bind, Except.bind, pure, Except.pure]
  · intro c hc
    constructor
    · rw [h2l, h1l c, if_pos hc]
    · rw [h2h c, h1n, h1k, h1h]
      cases hk : t.known c with
      | true => simp
      | false =>
        simp only [hc, true_and, if_true, Bool.false_eq_true, if_false]
        apply upAgainst_congr hmin (fun _ _ _ => rfl) _ c hc
        intro x hx; rw [h1l x, if_pos hx]
  · intro c hc
    constructor
    · rw [h2l, h1l c, if_neg (by omega)]
    · rw [h2h c, h1n, if_neg (by omega), h1h]

/-- **sa_eq_spec**: the reference computer computes the specification. -/
theorem _root_.ICG.sa_eq_spec (E : EnumFacts) (t : Table α) (hmin : MinInfo t.n t.known) (hinv : t.Inv) :
    ∃ t', sa t = .ok t' ∧ t'.n = t.n ∧ t'.known = t.known ∧
      (∀ c, c < 2 ^ t.n → t'.lo c = loSpec t.known t.lo c ∧ t'.hi c = upSpec t.n t.known t.lo c) ∧
      (∀ c, 2 ^ t.n ≤ c → t'.lo c = t.lo c ∧ t'.hi c = t.hi c) := by
  obtain ⟨t', h1, h2, h3, h4, h5⟩ := sa_core E t hmin
  refine ⟨t', h1, h2, h3, ?_, h5⟩
  intro c hc
  refine ⟨(h4 c hc).1, ?_⟩
  rw [(h4 c hc).2]
  cases hk : t.known c with
  | true => rw [if_pos rfl, upSpec_known hk, hinv c hc hk]
  | false =>
    rw [if_neg (by simp)]
    exact upAgainst_congr hmin (fun d hd hkd => (hinv d hd hkd).symm) (fun _ _ => rfl) c hc

/-! ### the cached computer -/

/-- `sac` succeeds on every `MinInfo` table and computes `loSpec` / `upSpec` on unknown rows; known
    rows are not written. -/
theorem _root_.ICG.sac_core (E : EnumFacts) (t : Table α) (hmin : MinInfo t.n t.known) :
    ∃ t', sac t = .ok t' ∧ t'.n = t.n ∧ t'.known = t.known ∧
      (∀ c, c < 2 ^ t.n → t'.lo c = loSpec t.known t.lo c ∧
        t'.hi c = if t.known c then t.hi c else upSpec t.n t.known t.lo c) ∧
      (∀ c, 2 ^ t.n ≤ c → t'.lo c = t.lo c ∧ t'.hi c = t.hi c) := by
  obtain ⟨t1, h1, h1n, h1k, h1h, h1l⟩ := sacLowerPass E t hmin _ (unknownOrder_sac E t)
  have hmin1 : MinInfo t1.n t1.known := by rw [h1n, h1k]; exact hmin
  obtain ⟨t2, h2, h2n, h2k, h2l, h2h⟩ := hiPass t1 (unknownSorted t)
    (by intro c; rw [(unknownOrder_sac E t).mem, h1n, h1k])
    (upAgainst t1.n t1.known t1.lo t1.lo) sacUpperStep (by
      intro s c hn hk hl hc hkc _
      have := sacUpperStep_ok E s c t1.lo t1.lo (by rw [hn, hk]; exact hmin1) (by rw [hn]; exact hc)
        (by rw [hk]; exact hkc) (fun T _ _ => by rw [hl]) (fun x _ => by rw [hl])
      rw [this, hn, hk])
  refine ⟨t2, ?_, by rw [h2n, h1n], by rw [h2k, h1k], ?_, ?_⟩
  · unfold sac
    rw [if_pos (sacPrecond_of_minInfo hmin)]
    simp only [h1, compactT_eq, h2, bind, Except.bind, pure, Except.pure]
  · intro c hc
    constructor
    · rw [h2l, h1l c, if_pos hc]
    · rw [h2h c, h1n, h1k, h1h]
      cases hk : t.known c with
      | true => simp
      | false =>
        simp only [hc, true_and, if_true, Bool.false_eq_true, if_false]
        apply upAgainst_congr hmin _ _ c hc
        · intro x hx hkx; rw [h1l x, if_pos hx, loSpec_known hkx]
        · intro x hx; rw [h1l x, if_pos hx]
  · intro c hc
    constructor
    · rw [h2l, h1l c, if_neg (by omega)]
    · rw [h2h c, h1n, if_neg (by omega), h1h]

/-- **sac_eq_spec**: the cached computer computes the specification. -/
theorem _root_.ICG.sac_eq_spec (E : EnumFacts) (t : Table α) (hmin : MinInfo t.n t.known) (hinv : t.Inv) :
    ∃ t', sac t = .ok t' ∧ t'.n = t.n ∧ t'.known = t.known ∧
      (∀ c, c < 2 ^ t.n → t'.lo c = loSpec t.known t.lo c ∧ t'.hi c = upSpec t.n t.known t.lo c) ∧
      (∀ c, 2 ^ t.n ≤ c → t'.lo c = t.lo c ∧ t'.hi c = t.hi c) := by
  obtain ⟨t', h1, h2, h3, h4, h5⟩ := sac_core E t hmin
  refine ⟨t', h1, h2, h3, ?_, h5⟩
  intro c hc
  refine ⟨(h4 c hc).1, ?_⟩
  rw [(h4 c hc).2]
  cases hk : t.known c with
  | true => rw [if_pos rfl, upSpec_known hk, hinv c hc hk]
  | false => rw [if_neg (by simp)]

end main

end ICG.Refine
