/-
  ICG.Lemmas.EnvReal — the model's own bound computers (`Computer.run`: reference, cached, monotone
  approximation with any number of repetitions) satisfy what the environment theorems assume about the
  `compute` parameter: `ComputeOK`, `KnowledgeOnly` (ICG.Lemmas.EnvUndo) and definedness on every table that
  knows the minimal information.  Obtained from the refinement corollaries (ICG.Lemmas.RefineCor) with
  `enumFacts` plugged in; for every linearly ordered value type with `+` and `-`.
-/
import ICG.Lemmas.EnvUndo
import ICG.Lemmas.RefineCor
import ICG.Lemmas.Enum

namespace ICG.Env
open ICG
variable {α : Type} [Add α] [Sub α] [LinearOrder α]

/-- a successful run of a registered computer on a table with exact known rows: the row-wise specification -/
theorem computer_run_spec (k : Computer) {t t' : Table α} (hex : Exact t) (h : k.run t = .ok t') :
    t'.n = t.n ∧ t'.known = t.known ∧
      (∀ c, c < 2 ^ t.n → t'.lo c = k.specLo t.n t.known t.lo c ∧ t'.hi c = k.specUp t.n t.known t.lo c) ∧
      (∀ c, 2 ^ t.n ≤ c → t'.lo c = t.lo c ∧ t'.hi c = t.hi c) := by
  have hmin := (compute_defined_iff enumFacts k t).mp ⟨t', h⟩
  obtain ⟨t'', h', rest⟩ := compute_eq_spec enumFacts k t hmin (fun c _ hc => hex c hc)
  rw [h] at h'
  cases h'
  exact rest

theorem computer_ok (k : Computer) : ComputeOK (k.run : Table α → Except Err (Table α)) where
  n := fun hex h => (computer_run_spec k hex h).1
  known := fun hex h c => by rw [(computer_run_spec k hex h).2.1]
  vals := by
    intro t t' hex h c hc
    obtain ⟨_, _, hrows, hout⟩ := computer_run_spec k hex h
    by_cases hlt : c < 2 ^ t.n
    · have := hrows c hlt
      rw [this.1, this.2, (k.refines enumFacts).lo_known _ _ _ _ hc, (k.refines enumFacts).up_known _ _ _ _ hc]
      exact ⟨rfl, hex c hc⟩
    · exact hout c (Nat.le_of_not_lt hlt)

theorem computer_knowledgeOnly (k : Computer) : KnowledgeOnly (k.run : Table α → Except Err (Table α)) where
  rows := by
    intro t1 t2 r1 r2 hsk hex1 hex2 h1 h2 c hc
    have hmin := (compute_defined_iff enumFacts k t1).mp ⟨r1, h1⟩
    obtain ⟨r1', r2', g1, g2, _, _, hrows⟩ := compute_knowledge_only enumFacts k t1 t2 hsk.1 (funext hsk.2.1)
      (fun c _ hk => (hsk.2.2 c hk).1) hmin (fun c _ hk => hex1 c hk) (fun c _ hk => hex2 c hk)
    rw [h1] at g1
    rw [h2] at g2
    cases g1
    cases g2
    exact hrows c hc

/-- the registered computers run on every table that knows ∅, N and the singletons -/
theorem computer_total (k : Computer) (t : Table α) (hmin : MinInfo t.n t.known) : ∃ t', k.run t = .ok t' :=
  (compute_defined_iff enumFacts k t).mpr hmin

end ICG.Env
