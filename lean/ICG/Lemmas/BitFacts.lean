/-
  ICG.Lemmas.BitFacts — arithmetic bridges between bit-mask operations on `Nat` (core Lean only).
-/
import ICG.Model.Bits
import ICG.Spec.Bounds

namespace ICG

/-- disjoint masks add without carry -/
theorem add_eq_or_of_and_eq_zero : ∀ (a b : Nat), a &&& b = 0 → a + b = a ||| b := by
  intro a
  induction a using Nat.strongRecOn with
  | _ a ih =>
    intro b h
    by_cases ha : a = 0
    · subst ha; simp
    · have hd := ih (a / 2) (by omega) (b / 2) (by rw [← Nat.and_div_two, h])
      have hm : (a &&& b) % 2 = 0 := by rw [h]
      have hor : (a ||| b) % 2 = 1 ↔ a % 2 = 1 ∨ b % 2 = 1 := Nat.or_mod_two_eq_one
      have hand : (a &&& b) % 2 = 1 ↔ a % 2 = 1 ∧ b % 2 = 1 := Nat.and_mod_two_eq_one
      have hod := @Nat.or_div_two a b
      omega

theorem sub_testBit {x c : Nat} (h : x &&& c = x) (i : Nat) (hx : x.testBit i = true) :
    c.testBit i = true := by
  have := congrArg (·.testBit i) h
  simp only [Nat.testBit_and] at this
  rw [hx] at this
  simpa using this

theorem sub_of_testBit {x c : Nat} (h : ∀ i, x.testBit i = true → c.testBit i = true) : x &&& c = x := by
  apply Nat.eq_of_testBit_eq; intro i
  simp only [Nat.testBit_and]
  cases hx : x.testBit i
  · simp
  · simp [h i hx]

theorem sub_le {x c : Nat} (h : x &&& c = x) : x ≤ c := by rw [← h]; exact Nat.and_le_right

theorem sub_lt_two_pow {x c n : Nat} (h : x &&& c = x) (hc : c < 2 ^ n) : x < 2 ^ n :=
  Nat.lt_of_le_of_lt (sub_le h) hc

theorem and_xor_self_of_sub {x c : Nat} (h : x &&& c = x) : x &&& (c ^^^ x) = 0 := by
  apply Nat.eq_of_testBit_eq; intro i
  have := congrArg (·.testBit i) h
  simp at this ⊢
  cases hx : x.testBit i <;> cases hc : c.testBit i <;> simp_all

theorem or_xor_self_of_sub {x c : Nat} (h : x &&& c = x) : x ||| (c ^^^ x) = c := by
  apply Nat.eq_of_testBit_eq; intro i
  have := congrArg (·.testBit i) h
  simp at this ⊢
  cases hx : x.testBit i <;> cases hc : c.testBit i <;> simp_all

/-- for a sub-mask, set difference is subtraction is xor -/
theorem sub_eq_xor_of_sub {x c : Nat} (h : x &&& c = x) : c - x = c ^^^ x := by
  have hadd := add_eq_or_of_and_eq_zero x (c ^^^ x) (and_xor_self_of_sub h)
  rw [or_xor_self_of_sub h] at hadd
  omega

theorem sub_or_self {x c : Nat} (h : x &&& c = x) : x ||| (c - x) = c ∧ x &&& (c - x) = 0 := by
  rw [sub_eq_xor_of_sub h]; exact ⟨or_xor_self_of_sub h, and_xor_self_of_sub h⟩

/-- the complement within `c` is again a sub-mask -/
theorem compl_sub {x c : Nat} (h : x &&& c = x) : (c - x) &&& c = c - x := by
  rw [sub_eq_xor_of_sub h]
  apply Nat.eq_of_testBit_eq; intro i
  have := congrArg (·.testBit i) h
  simp at this ⊢
  cases hx : x.testBit i <;> cases hc : c.testBit i <;> simp_all

theorem sub_sub_self_of_sub {x c : Nat} (h : x &&& c = x) : c - (c - x) = x := by
  have := sub_le h; omega

/-- `Coalition.__sub__` (`diff a b = a & ~b`) on a sub-mask is subtraction -/
theorem diff_eq_sub_of_sub {x c : Nat} (h : x &&& c = x) : diff c x = c - x := by
  unfold diff
  have : c &&& x = x := by rw [Nat.and_comm]; exact h
  rw [this, sub_eq_xor_of_sub h]

theorem diff_testBit (a b i : Nat) : (diff a b).testBit i = (a.testBit i && !b.testBit i) := by
  unfold diff
  simp only [Nat.testBit_xor, Nat.testBit_and]
  cases a.testBit i <;> cases b.testBit i <;> rfl

/-- union of two sub-masks is a sub-mask -/
theorem or_sub {a b c : Nat} (ha : a &&& c = a) (hb : b &&& c = b) : (a ||| b) &&& c = a ||| b := by
  apply sub_of_testBit; intro i hi
  simp only [Nat.testBit_or, Bool.or_eq_true] at hi
  rcases hi with h | h
  · exact sub_testBit ha i h
  · exact sub_testBit hb i h

theorem sub_trans {a b c : Nat} (hab : a &&& b = a) (hbc : b &&& c = b) : a &&& c = a :=
  sub_of_testBit fun i hi => sub_testBit hbc i (sub_testBit hab i hi)

theorem isSub_iff {x c : Nat} : isSub x c = true ↔ x &&& c = x := by simp [isSub]

theorem or_lt_two_pow {a b n : Nat} (ha : a < 2 ^ n) (hb : b < 2 ^ n) : a ||| b < 2 ^ n :=
  Nat.or_lt_two_pow ha hb

/-- the grand coalition is a coalition of the game -/
theorem grand_lt (n : Nat) : grand n < 2 ^ n := by
  unfold grand; have := Nat.two_pow_pos n; omega

end ICG
