/-
  ICG.Lemmas.MulCompose — the candidate computation of max_xos_approximation.py on a complete game: every
  candidate coalition is witnessed (each of its players has a large marginal contribution along the id order of
  the coalition it was cut from), hence the approximation is a lower bound of a monotone submodular game.
-/
import ICG.Lemmas.MulApprox
import Mathlib.Data.List.TakeWhile

namespace ICG.Mul
open ICG

theorem mapE_getElem? {β γ : Type} (g : β → Except Err γ) :
    ∀ (l : List β) (out : List γ), mapE g l = .ok out →
      ∀ (j : Nat) (y : γ), out[j]? = some y → ∃ x, l[j]? = some x ∧ g x = .ok y
  | [], out, h, j, y, hy => by
    simp only [mapE, Except.ok.injEq] at h
    subst h
    simp at hy
  | a :: l, out, h, j, y, hy => by
    have h' : (match g a with
          | .error e => Except.error e
          | .ok c => match mapE g l with
            | .error e => Except.error e
            | .ok cs => Except.ok (c :: cs)) = .ok out := h
    cases hga : g a with
    | error e => rw [hga] at h'; cases h'
    | ok c =>
      rw [hga] at h'
      cases hl : mapE g l with
      | error e => rw [hl] at h'; cases h'
      | ok cs =>
        rw [hl] at h'
        simp only [Except.ok.injEq] at h'
        subst h'
        cases j with
        | zero =>
          simp only [List.getElem?_cons_zero, Option.some.injEq] at hy
          subst hy
          exact ⟨a, rfl, hga⟩
        | succ j =>
          simp only [List.getElem?_cons_succ] at hy
          obtain ⟨x, hx, hgx⟩ := mapE_getElem? g l cs hl j y hy
          exact ⟨x, by simpa using hx, hgx⟩

/-! ### the r-values: the index never exceeds the value -/

theorem takeWhile_range_eq (p : Nat → Bool) (m : Nat) :
    (List.range m).takeWhile p = List.range ((List.range m).takeWhile p).length := by
  have hpre : (List.range m).takeWhile p <+: List.range m := List.takeWhile_prefix p
  have := List.prefix_iff_eq_take.mp hpre
  have hlen : ((List.range m).takeWhile p).length ≤ m := by
    simpa using hpre.length_le
  rw [List.take_range, Nat.min_eq_left hlen] at this
  exact this

/-- the first index at which a `takeWhile` over `range m` stops does not satisfy the predicate -/
theorem takeWhile_range_stop (p : Nat → Bool) (m : Nat) (hK : ((List.range m).takeWhile p).length < m) :
    p ((List.range m).takeWhile p).length = false := by
  set K := ((List.range m).takeWhile p).length with hKdef
  have heq : (List.range m).takeWhile p = List.range K := takeWhile_range_eq p m
  have hsplit : (List.range m).takeWhile p ++ (List.range m).dropWhile p = List.range m :=
    List.takeWhile_append_dropWhile
  have hdrop : (List.range m).dropWhile p = (List.range m).drop K := by
    have h1 : (List.range m).take K ++ (List.range m).drop K = List.range m := List.take_append_drop K _
    have h2 : (List.range m).take K = List.range K := by rw [List.take_range, Nat.min_eq_left hK.le]
    rw [h2, ← heq] at h1
    exact List.append_cancel_left (hsplit.trans h1.symm)
  have hne : (List.range m).dropWhile p ≠ [] := by
    rw [hdrop]
    intro h
    have := congrArg List.length h
    simp at this
    omega
  have hhead := List.head_dropWhile_not p hne
  have : ((List.range m).dropWhile p).head hne = K := by
    have h3 : ((List.range m).dropWhile p)[0]? = some K := by
      rw [hdrop, List.getElem?_drop, List.getElem?_range (by omega)]
      simp
    rw [List.head_eq_getElem]
    have := List.getElem?_eq_some_iff.mp h3
    exact this.2
  rw [this] at hhead
  exact hhead

/-- `k_values`: exactly the exponents with `4^k < n` -/
theorem mem_kExps {n k : Nat} : k ∈ kExps n ↔ 4 ^ k < n := by
  unfold kExps
  constructor
  · intro h
    have := List.mem_takeWhile_imp (p := fun k => decide (4 ^ k < n)) h
    exact of_decide_eq_true this
  · intro h
    have hkn : k < n := lt_trans (Nat.lt_pow_self (by omega : 1 < 4)) h
    rw [takeWhile_range_eq, List.mem_range]
    by_contra hle
    have hle := not_lt.mp hle
    have hK : ((List.range n).takeWhile (fun k => decide (4 ^ k < n))).length < n := by omega
    have := takeWhile_range_stop _ n hK
    have h2 : ¬ 4 ^ ((List.range n).takeWhile (fun k => decide (4 ^ k < n))).length < n := by simpa using this
    have h3 : 4 ^ ((List.range n).takeWhile (fun k => decide (4 ^ k < n))).length ≤ 4 ^ k :=
      Nat.pow_le_pow_right (by omega) hle
    omega

/-- `r_values`: the powers of two below `n²`, and `n²` -/
theorem mem_rVals {n rv : Nat} : rv ∈ rVals n ↔ (∃ r, rv = 2 ^ r ∧ 2 ^ r < n ^ 2) ∨ rv = n ^ 2 := by
  unfold rVals
  rw [List.mem_append, List.mem_singleton, List.mem_map]
  constructor
  · rintro (⟨r, hr, rfl⟩ | h)
    · left
      exact ⟨r, rfl, of_decide_eq_true (List.mem_takeWhile_imp (p := fun r => decide (2 ^ r < n ^ 2)) hr)⟩
    · exact Or.inr h
  · rintro (⟨r, rfl, hr⟩ | h)
    · left
      refine ⟨r, ?_, rfl⟩
      have hn2 : n ^ 2 < 2 ^ (2 * n) := by
        have h : n < 2 ^ n := Nat.lt_two_pow_self
        have e : 2 ^ (2 * n) = 2 ^ n * 2 ^ n := by rw [Nat.two_mul, Nat.pow_add]
        rw [e, Nat.pow_two]
        exact Nat.mul_lt_mul'' h h
      have hr2 : r < 2 * n := by
        by_contra hle
        have : 2 ^ (2 * n) ≤ 2 ^ r := Nat.pow_le_pow_right (by omega) (not_lt.mp hle)
        omega
      rw [takeWhile_range_eq, List.mem_range]
      by_contra hle
      have hle := not_lt.mp hle
      have hK : ((List.range (2 * n)).takeWhile (fun r => decide (2 ^ r < n ^ 2))).length < 2 * n := by omega
      have := takeWhile_range_stop _ (2 * n) hK
      have h2 : ¬ 2 ^ ((List.range (2 * n)).takeWhile (fun r => decide (2 ^ r < n ^ 2))).length < n ^ 2 := by
        simpa using this
      have h3 : 2 ^ ((List.range (2 * n)).takeWhile (fun r => decide (2 ^ r < n ^ 2))).length ≤ 2 ^ r :=
        Nat.pow_le_pow_right (by omega) hle
      omega
    · exact Or.inr h

theorem index_le_rVals (n j rv : Nat) (h : (rVals n)[j]? = some rv) : j ≤ rv := by
  unfold rVals at h
  set tw := (List.range (2 * n)).takeWhile (fun r => decide (2 ^ r < n ^ 2)) with htw
  have heq : tw = List.range tw.length := takeWhile_range_eq _ _
  by_cases hj : j < tw.length
  · rw [List.getElem?_append_left (by simpa using hj)] at h
    rw [heq] at h
    simp only [List.getElem?_map, List.getElem?_range hj, Option.map_some, Option.some.injEq] at h
    rw [← h]
    exact (Nat.lt_two_pow_self).le
  · rw [List.getElem?_append_right (by simpa using hj)] at h
    simp only [List.length_map] at h
    have hj' : j - tw.length = 0 := by
      by_contra hne
      rw [List.getElem?_eq_none (by simp; omega)] at h
      cases h
    rw [hj'] at h
    simp only [List.getElem?_cons_zero, Option.some.injEq] at h
    have hjeq : j = tw.length := by omega
    rw [hjeq, ← h]
    by_cases hk : tw.length = 0
    · rw [hk]; exact Nat.zero_le _
    · have hmem : tw.length - 1 ∈ tw := by
        have : tw.length - 1 ∈ List.range tw.length := List.mem_range.mpr (by omega)
        rwa [← heq] at this
      have := List.mem_takeWhile_imp hmem
      have h2 : 2 ^ (tw.length - 1) < n ^ 2 := of_decide_eq_true this
      have h3 : tw.length - 1 < 2 ^ (tw.length - 1) := Nat.lt_two_pow_self
      omega

section compose
set_option linter.unusedSectionVars false
variable {α : Type} [Field α] [LinearOrder α] [IsStrictOrderedRing α]

/-! ### `_max_subroutine`: what an answer looks like -/

theorem maxSubroutine_spec (v : Nat → α) (n coalition : Nat) (reached : Nat → Bool) (eps : α) (fuel : Nat)
    (r : Nat) (qs : List Nat) (h : maxSubroutine (okGet v) n coalition reached eps fuel = .ok (r, qs)) :
    r &&& coalition = r ∧ (r = 0 ∨ reached (size r) = false) ∧
    (∀ x ∈ qs, ∃ c' p, c' &&& r = c' ∧ coalition.testBit p = true ∧ c'.testBit p = false ∧ x = addPlayer c' p) := by
  unfold maxSubroutine at h
  by_cases hc : coalition = 0
  · rw [if_pos hc] at h
    simp only [Except.ok.injEq, Prod.mk.injEq] at h
    obtain ⟨rfl, rfl⟩ := h
    exact ⟨Nat.zero_and _, Or.inl rfl, fun x hx => by cases hx⟩
  · rw [if_neg hc, singles_okGet] at h
    dsimp only at h
    split at h
    · split at h
      · cases h
      · split at h
        · cases h
        · obtain ⟨g1, g2, g3, g4⟩ := maxLoop_okGet v coalition reached _ _ fuel _ 0 (Nat.zero_and _) (Or.inl rfl) r qs h
          exact ⟨g2, g3, g4⟩
    · cases h

/-! ### the sub-coalition of players with a large marginal -/

theorem removePlayer_testBit' (a p i : Nat) : (removePlayer a p).testBit i = (a.testBit i && !decide (p = i)) := by
  unfold removePlayer
  rw [diff_testBit, Nat.testBit_two_pow]

theorem subOf_testBit (thr : α) (m : Nat → α) : ∀ (l : List Nat) (s i : Nat),
    (subOf thr (l.map (fun p => (p, m p))) s).testBit i = true ↔
      s.testBit i = true ∧ ∀ p ∈ l, p = i → thr ≤ m p := by
  intro l
  induction l with
  | nil => intro s i; simp [subOf]
  | cons p l ih =>
    intro s i
    have hstep : subOf thr (((p :: l).map (fun p => (p, m p)))) s
        = subOf thr (l.map (fun p => (p, m p))) (if thr ≤ m p then s else removePlayer s p) := rfl
    rw [hstep, ih]
    by_cases hthr : thr ≤ m p
    · rw [if_pos hthr]
      constructor
      · rintro ⟨h1, h2⟩
        refine ⟨h1, ?_⟩
        intro q hq hqi
        rcases List.mem_cons.mp hq with rfl | hq
        · exact hthr
        · exact h2 q hq hqi
      · rintro ⟨h1, h2⟩
        exact ⟨h1, fun q hq hqi => h2 q (List.mem_cons_of_mem _ hq) hqi⟩
    · rw [if_neg hthr, removePlayer_testBit']
      constructor
      · rintro ⟨h1, h2⟩
        have hs : s.testBit i = true := by
          cases hsi : s.testBit i <;> simp_all
        have hne : ¬ p = i := by
          intro hpi
          simp [hpi] at h1
        refine ⟨hs, ?_⟩
        intro q hq hqi
        rcases List.mem_cons.mp hq with rfl | hq
        · exact absurd hqi hne
        · exact h2 q hq hqi
      · rintro ⟨h1, h2⟩
        have hne : ¬ p = i := fun hpi => hthr (h2 p List.mem_cons_self hpi)
        exact ⟨by simp [h1, hne], fun q hq hqi => h2 q (List.mem_cons_of_mem _ hq) hqi⟩

/-- the candidate cut out of `c`: inside `c`, and each of its players has marginal ≥ `thr` along `c` -/
theorem subOf_marginals (v : Nat → α) (thr : α) (c : Nat) :
    let sub := subOf thr ((players c).map (fun p => (p, v (c % 2 ^ (p + 1)) - v (c % 2 ^ p)))) c
    sub &&& c = sub ∧ ∀ p, sub.testBit p = true → thr ≤ marginal v c p := by
  intro sub
  constructor
  · apply sub_of_testBit
    intro i hi
    exact ((subOf_testBit thr (marginal v c) (players c) c i).mp hi).1
  · intro p hp
    obtain ⟨h1, h2⟩ := (subOf_testBit thr (marginal v c) (players c) c p).mp hp
    exact h2 p (mem_players.mpr h1) rfl

/-! ### the `while` loop of a cell -/

theorem candLoop_succ_okGet (v : Nat → α) (n : Nat) (alpha beta eps : α) (kv : KVal) (rv fuelMax fuel c : Nat) :
    candLoop (okGet v) n alpha beta eps kv rv fuelMax (fuel + 1) c =
      if alpha = 0 then .error .other
      else if geThreshold n kv rv alpha (v c) then
        match approxXos (okGet v) c with
        | .error e => .error e
        | .ok (av, q1) =>
          if c ≠ 0 ∧ alpha * beta = 0 then .error .other
          else
            let sub := subOf ((rv : α) / (((4 : Nat) : α) * alpha * beta)) av c
            match maxSubroutine (okGet v) n (diff c sub) (kv.reached n) eps fuelMax with
            | .error e => .error e
            | .ok (c', q2) =>
              if c' = c then .error .other
              else
                match candLoop (okGet v) n alpha beta eps kv rv fuelMax fuel c' with
                | .error e => .error e
                | .ok (cs, q3) => .ok (sub :: cs, q1 ++ q2 ++ q3)
      else .ok ([], []) := rfl

theorem diff_sub (a b : Nat) : diff a b &&& a = diff a b := by
  apply sub_of_testBit
  intro i hi
  rw [diff_testBit] at hi
  cases h : a.testBit i <;> simp_all

/-- every candidate the loop appends is witnessed with the r-VALUE `rv` -/
theorem candLoop_witness (v : Nat → α) (n : Nat) (alpha beta eps : α) (kv : KVal) (rv fuelMax : Nat) :
    ∀ (fuel c : Nat) (cs q : List Nat), c < 2 ^ n →
      candLoop (okGet v) n alpha beta eps kv rv fuelMax fuel c = .ok (cs, q) →
      ∀ sub ∈ cs, ∃ C, C < 2 ^ n ∧ sub &&& C = sub ∧
        ∀ p, sub.testBit p = true → (rv : α) / (((4 : Nat) : α) * alpha * beta) ≤ marginal v C p := by
  intro fuel
  induction fuel with
  | zero => intro c cs q _ h; cases h
  | succ fuel ih =>
    intro c cs q hc h
    rw [candLoop_succ_okGet, approxXos_okGet] at h
    split at h
    · cases h
    · split at h
      · dsimp only at h
        split at h
        · cases h
        · obtain ⟨hsub, hmarg⟩ := subOf_marginals v ((rv : α) / (((4 : Nat) : α) * alpha * beta)) c
          cases hms : maxSubroutine (okGet v) n
              (diff c (subOf ((rv : α) / (((4 : Nat) : α) * alpha * beta))
                ((players c).map (fun p => (p, v (c % 2 ^ (p + 1)) - v (c % 2 ^ p)))) c))
              (kv.reached n) eps fuelMax with
          | error e => rw [hms] at h; cases h
          | ok res =>
            obtain ⟨c', q2⟩ := res
            rw [hms] at h
            dsimp only at h
            split at h
            · cases h
            · have hc'sub := (maxSubroutine_spec v n _ _ eps fuelMax c' q2 hms).1
              have hc'c : c' &&& c = c' := sub_trans hc'sub (diff_sub _ _)
              have hc' : c' < 2 ^ n := lt_of_le_of_lt (sub_le hc'c) hc
              cases hrec : candLoop (okGet v) n alpha beta eps kv rv fuelMax fuel c' with
              | error e => rw [hrec] at h; cases h
              | ok res2 =>
                obtain ⟨cs', q3⟩ := res2
                rw [hrec] at h
                simp only [Except.ok.injEq, Prod.mk.injEq] at h
                obtain ⟨rfl, -⟩ := h
                intro sub hsubmem
                rcases List.mem_cons.mp hsubmem with rfl | hmem
                · exact ⟨c, hc, hsub, hmarg⟩
                · exact ih c' cs' q3 hc' hrec sub hmem
      · simp only [Except.ok.injEq, Prod.mk.injEq] at h
        obtain ⟨rfl, -⟩ := h
        intro sub hsub; cases hsub

/-! ### a cell, the whole array -/

theorem fromPlayers_light_lt (n : Nat) (kv : KVal) (r : Nat) (singles : List α) :
    fromPlayers (lightPlayers n kv r singles) < 2 ^ n := by
  apply Nat.lt_pow_two_of_testBit
  intro i hi
  rw [testBit_fromPlayers]
  apply decide_eq_false
  intro hmem
  unfold lightPlayers at hmem
  have := (List.mem_filter.mp hmem).1
  have := List.mem_range.mp this
  omega

theorem candCell_witness (v : Nat → α) (n : Nat) (alpha beta eps : α) (fuelMax : Nat) (singles : List α)
    (kv : KVal) (rv : Nat) (cs q : List Nat)
    (h : candCell (okGet v) n alpha beta eps fuelMax singles kv rv = .ok (cs, q)) :
    ∀ sub ∈ cs, ∃ C, C < 2 ^ n ∧ sub &&& C = sub ∧
      ∀ p, sub.testBit p = true → (rv : α) / (((4 : Nat) : α) * alpha * beta) ≤ marginal v C p := by
  unfold candCell at h
  split at h
  · cases h
  · dsimp only at h
    cases hms : maxSubroutine (okGet v) n (fromPlayers (lightPlayers n kv rv singles)) (kv.reached n) eps fuelMax with
    | error e => rw [hms] at h; cases h
    | ok res =>
      obtain ⟨c, q0⟩ := res
      rw [hms] at h
      dsimp only at h
      have hcsub := (maxSubroutine_spec v n _ _ eps fuelMax c q0 hms).1
      have hc : c < 2 ^ n := lt_of_le_of_lt (sub_le hcsub) (fromPlayers_light_lt n kv rv singles)
      cases hrec : candLoop (okGet v) n alpha beta eps kv rv fuelMax (size c + 1) c with
      | error e => rw [hrec] at h; cases h
      | ok res2 =>
        obtain ⟨cs', q1⟩ := res2
        rw [hrec] at h
        simp only [Except.ok.injEq, Prod.mk.injEq] at h
        obtain ⟨rfl, -⟩ := h
        exact candLoop_witness v n alpha beta eps kv rv fuelMax _ c cs' q1 hc hrec

/-- the candidate array of `_compute_candidate_coalitions_and_query_values` is witnessed (for `4αβ > 0`) -/
theorem candidates_witnessed (v : Nat → α) (n : Nat) (alpha beta eps : α) (fuelMax : Nat)
    (hu : 0 < ((4 : Nat) : α) * alpha * beta) (arr : List (List (List Nat))) (q : List Nat)
    (h : candidates (okGet v) n alpha beta eps fuelMax = .ok (arr, q)) :
    Witnessed n v (((4 : Nat) : α) * alpha * beta) arr := by
  unfold candidates at h
  rw [singles_okGet] at h
  dsimp only at h
  split at h
  · cases hcells : mapE (fun kv => mapE (fun r => candCell (okGet v) n alpha beta eps fuelMax
        ((List.range n).map (fun p => v (singleton p))) kv r) (rVals n)) (kVals n) with
    | error e => rw [hcells] at h; cases h
    | ok cells =>
      rw [hcells] at h
      simp only [Except.ok.injEq, Prod.mk.injEq] at h
      obtain ⟨rfl, -⟩ := h
      intro j cand ⟨row', hrow', cell, hcell, hcand⟩
      obtain ⟨row, hrow, rfl⟩ := List.mem_map.mp hrow'
      obtain ⟨i, hi, hget⟩ := List.getElem_of_mem hrow
      have hget' : cells[i]? = some row := by rw [List.getElem?_eq_getElem hi, hget]
      obtain ⟨kv, -, hkv⟩ := mapE_getElem? _ _ _ hcells i row hget'
      rw [List.getElem?_map] at hcell
      cases hrj : row[j]? with
      | none => rw [hrj] at hcell; cases hcell
      | some y =>
        rw [hrj] at hcell
        simp only [Option.map_some, Option.some.injEq] at hcell
        obtain ⟨rv, hrv, hcc⟩ := mapE_getElem? _ _ _ hkv j y hrj
        obtain ⟨cs, q'⟩ := y
        simp only at hcell
        subst hcell
        obtain ⟨C, hC, hsub, hmarg⟩ := candCell_witness v n alpha beta eps fuelMax _ kv rv cs q' hcc cand hcand
        refine ⟨C, hC, hsub, fun p hp => le_trans ?_ (hmarg p hp)⟩
        apply div_le_div_of_nonneg_right _ hu.le
        exact Nat.cast_le.mpr (index_le_rVals n j rv hrv)
  · cases h

/-! ### the candidate loop returns (α > 0, β ≥ 1/2, v(∅) = 0) -/

theorem mapE_isOk_of {β γ : Type} (g : β → Except Err γ) :
    ∀ (l : List β), (∀ x ∈ l, ∃ y, g x = .ok y) → ∃ out, mapE g l = .ok out
  | [], _ => ⟨[], rfl⟩
  | a :: l, h => by
    obtain ⟨y, hy⟩ := h a List.mem_cons_self
    obtain ⟨out, hout⟩ := mapE_isOk_of g l (fun x hx => h x (List.mem_cons_of_mem _ hx))
    refine ⟨y :: out, ?_⟩
    show (match g a with
          | .error e => Except.error e
          | .ok c => match mapE g l with
            | .error e => Except.error e
            | .ok cs => Except.ok (c :: cs)) = _
    rw [hy, hout]

theorem rVals_pos {n rv : Nat} (hn : n ≠ 0) (h : rv ∈ rVals n) : 0 < rv := by
  unfold rVals at h
  rcases List.mem_append.mp h with h | h
  · obtain ⟨r, -, rfl⟩ := List.mem_map.mp h
    exact Nat.two_pow_pos r
  · simp only [List.mem_singleton] at h
    subst h
    exact Nat.pow_pos (Nat.pos_of_ne_zero hn)

theorem sum_lt_length_mul {β : Type} (l : List β) (f : β → α) (t : α) (hne : l ≠ []) (h : ∀ x ∈ l, f x < t) :
    (l.map f).sum < (l.length : α) * t := by
  induction l with
  | nil => exact absurd rfl hne
  | cons a l ih =>
    have ha := h a List.mem_cons_self
    simp only [List.length_cons, List.map_cons, List.sum_cons, Nat.cast_succ]
    by_cases hl : l = []
    · subst hl; simp; exact ha
    · have := ih hl (fun x hx => h x (List.mem_cons_of_mem _ hx))
      nlinarith

/-- if the loop condition holds for a coalition that `_max_subroutine` returned, some player has a large marginal:
    the candidate is not empty.  (`v(∅) = 0`, `α > 0`, `β ≥ 1/2`, `r > 0`, `n > 0`.) -/
theorem sub_ne_zero_of_threshold (v : Nat → α) {n : Nat} (hn : n ≠ 0) {alpha beta : α} (ha : 0 < alpha)
    (hb : 1 / 2 ≤ beta) (h0 : v 0 = 0) (kv : KVal) {rv : Nat} (hrv : 0 < rv) {c : Nat}
    (hsize : c = 0 ∨ kv.reached n (size c) = false) (hthr : geThreshold n kv rv alpha (v c) = true) :
    subOf ((rv : α) / (((4 : Nat) : α) * alpha * beta))
      ((players c).map (fun p => (p, v (c % 2 ^ (p + 1)) - v (c % 2 ^ p)))) c ≠ 0 := by
  have hnpos : (0 : α) < n := Nat.cast_pos.mpr (Nat.pos_of_ne_zero hn)
  have hrpos : (0 : α) < rv := Nat.cast_pos.mpr hrv
  have h2a : (0 : α) < ((2 : Nat) : α) * alpha := by
    have : ((2 : Nat) : α) = 2 := by norm_num
    rw [this]; linarith
  have hbpos : 0 < beta := by linarith
  have h4 : (0 : α) < ((4 : Nat) : α) * alpha * beta := by
    have : ((4 : Nat) : α) = 4 := by norm_num
    rw [this]; positivity
  set w : α := (rv : α) / (((2 : Nat) : α) * alpha) with hw
  have hwpos : 0 < w := div_pos hrpos h2a
  -- the candidate threshold is at most `w`
  have hthrle : (rv : α) / (((4 : Nat) : α) * alpha * beta) ≤ w := by
    rw [hw]
    apply div_le_div_of_nonneg_left hrpos.le h2a
    have e4 : ((4 : Nat) : α) = 4 := by norm_num
    have e2 : ((2 : Nat) : α) = 2 := by norm_num
    rw [e4, e2]
    nlinarith
  intro hsub
  by_cases hc0 : c = 0
  · -- the threshold is positive, `v(∅) = 0` does not reach it
    subst hc0
    rw [h0] at hthr
    cases kv with
    | sqrtMul k =>
      simp only [geThreshold, geSqrt] at hthr
      have hcc : (0 : α) < ((2 ^ k * rv : Nat) : α) / (((2 : Nat) : α) * alpha) :=
        div_pos (Nat.cast_pos.mpr (Nat.mul_pos (Nat.two_pow_pos k) hrv)) h2a
      rw [if_pos hcc.le] at hthr
      simp only [Bool.and_eq_true, decide_eq_true_eq] at hthr
      have := hthr.2
      have hpos : 0 < ((2 ^ k * rv : Nat) : α) / (((2 : Nat) : α) * alpha) *
          (((2 ^ k * rv : Nat) : α) / (((2 : Nat) : α) * alpha)) * (n : α) := by positivity
      simp only [mul_zero] at this
      linarith
    | full =>
      simp only [geThreshold, decide_eq_true_eq] at hthr
      have : (0 : α) < ((n * rv : Nat) : α) / (((2 : Nat) : α) * alpha) :=
        div_pos (Nat.cast_pos.mpr (Nat.mul_pos (Nat.pos_of_ne_zero hn) hrv)) h2a
      linarith
  · have hsz : kv.reached n (size c) = false := hsize.resolve_left hc0
    -- every player of `c` has a marginal below the threshold
    have hall : ∀ p ∈ players c, marginal v c p < (rv : α) / (((4 : Nat) : α) * alpha * beta) := by
      intro p hp
      by_contra hge
      have hge := not_lt.mp hge
      have : (subOf ((rv : α) / (((4 : Nat) : α) * alpha * beta))
          ((players c).map (fun p => (p, marginal v c p))) c).testBit p = true := by
        rw [subOf_testBit]
        exact ⟨mem_players.mp hp, fun q _ hq => hq ▸ hge⟩
      have hs' : (subOf ((rv : α) / (((4 : Nat) : α) * alpha * beta))
          ((players c).map (fun p => (p, marginal v c p))) c) = 0 := hsub
      rw [hs'] at this
      simp at this
    have hsum := sum_lt_length_mul (players c) (marginal v c) _ (players_ne_nil hc0) hall
    have htel : ((players c).map (marginal v c)).sum = v c - v 0 := marginals_sum_players v c
    rw [htel, h0, sub_zero, ← size_eq_length_players] at hsum
    have hvc : v c < (size c : α) * w :=
      lt_of_lt_of_le hsum (mul_le_mul_of_nonneg_left hthrle (Nat.cast_nonneg _))
    cases kv with
    | full =>
      simp only [KVal.reached, decide_eq_false_iff_not, not_le] at hsz
      simp only [geThreshold, decide_eq_true_eq] at hthr
      have : ((n * rv : Nat) : α) / (((2 : Nat) : α) * alpha) = (n : α) * w := by
        rw [hw, Nat.cast_mul, mul_div_assoc]
      rw [this] at hthr
      have hlt : (size c : α) < n := Nat.cast_lt.mpr hsz
      nlinarith
    | sqrtMul k =>
      simp only [KVal.reached, decide_eq_false_iff_not, not_le] at hsz
      simp only [geThreshold, geSqrt] at hthr
      have hcceq : ((2 ^ k * rv : Nat) : α) / (((2 : Nat) : α) * alpha) = (2 : α) ^ k * w := by
        rw [hw, Nat.cast_mul, Nat.cast_pow, mul_div_assoc]; norm_num
      rw [hcceq] at hthr
      have hcc : (0 : α) ≤ (2 : α) ^ k * w := by positivity
      rw [if_pos hcc] at hthr
      simp only [Bool.and_eq_true, decide_eq_true_eq] at hthr
      obtain ⟨hv0, hsq⟩ := hthr
      have hszα : ((size c : α)) * (size c : α) < (4 : α) ^ k * n := by
        have : ((size c * size c : Nat) : α) < ((4 ^ k * n : Nat) : α) := Nat.cast_lt.mpr hsz
        simpa [Nat.cast_mul, Nat.cast_pow] using this
      have h44 : (4 : α) ^ k = (2 : α) ^ k * (2 : α) ^ k := by
        rw [← mul_pow]; norm_num
      -- (v c)² < (size c · w)² < 4^k·n·w² ≤ (v c)²
      have hsq1 : v c * v c < ((size c : α) * w) * ((size c : α) * w) := by nlinarith
      have hsq2 : ((size c : α) * w) * ((size c : α) * w) < (4 : α) ^ k * n * (w * w) := by
        have : 0 < w * w := mul_pos hwpos hwpos
        nlinarith
      have hsq3 : (4 : α) ^ k * n * (w * w) = (2 : α) ^ k * w * ((2 : α) ^ k * w) * n := by
        rw [h44]; ring
      linarith

/-- the standing hypotheses under which the candidate computation is proved to return -/
structure Domain (n : Nat) (v : Nat → α) (alpha beta eps : α) (fuelMax : Nat) : Prop where
  n_pos : n ≠ 0
  empty : v 0 = 0
  singles : ∀ p, p < n → 1 ≤ v (singleton p)
  alpha_pos : 0 < alpha
  beta_ge : 1 / 2 ≤ beta
  eps_pos : 0 < eps
  fuel : (n : α) < fuelMax * eps * eps

/-- `_max_subroutine` returns on every coalition of the game -/
theorem maxSubroutine_ok {n : Nat} {v : Nat → α} {alpha beta eps : α} {fuelMax : Nat}
    (hd : Domain n v alpha beta eps fuelMax) (coalition : Nat) (hc : coalition < 2 ^ n) (reached : Nat → Bool) :
    ∃ res, maxSubroutine (okGet v) n coalition reached eps fuelMax = .ok res := by
  by_cases h0 : coalition = 0
  · exact ⟨(0, []), by unfold maxSubroutine; rw [if_pos h0]⟩
  · have h1 : ∀ p ∈ players coalition, 1 ≤ v (singleton p) :=
      fun p hp => hd.singles p (player_lt_of_lt hc (mem_players.mp hp))
    obtain ⟨init, -, hinit, heq⟩ := maxSubroutine_okGet v n coalition reached eps fuelMax h0 hd.n_pos h1
    rw [heq]
    exact maxLoop_ok v coalition reached _ _ fuelMax init 0
      (schedule_below hd.eps_pos (lt_of_lt_of_le zero_lt_one hinit) hd.n_pos hd.fuel)

theorem diff_eq_self_imp {c sub : Nat} (hsub : sub &&& c = sub) (h : c &&& diff c sub = c) : sub = 0 := by
  apply Nat.eq_of_testBit_eq
  intro i
  rw [Nat.zero_testBit]
  cases hs : sub.testBit i with
  | false => rfl
  | true =>
    have hci := sub_testBit hsub i hs
    have := sub_testBit h i hci
    rw [diff_testBit] at this
    simp [hs] at this

/-- the `while` loop of a cell returns within `size coalition + 1` iterations -/
theorem candLoop_ok {n : Nat} {v : Nat → α} {alpha beta eps : α} {fuelMax : Nat}
    (hd : Domain n v alpha beta eps fuelMax) (kv : KVal) {rv : Nat} (hrv : 0 < rv) :
    ∀ (fuel c : Nat), c < 2 ^ n → (c = 0 ∨ kv.reached n (size c) = false) → size c + 1 ≤ fuel →
      ∃ res, candLoop (okGet v) n alpha beta eps kv rv fuelMax fuel c = .ok res := by
  intro fuel
  induction fuel with
  | zero => intro c _ _ h; omega
  | succ fuel ih =>
    intro c hc hsize hfuel
    rw [candLoop_succ_okGet, approxXos_okGet, if_neg hd.alpha_pos.ne']
    by_cases hthr : geThreshold n kv rv alpha (v c) = true
    · rw [if_pos hthr]
      dsimp only
      have hab : ¬ (c ≠ 0 ∧ alpha * beta = 0) := by
        rintro ⟨-, h⟩
        have : 0 < alpha * beta := mul_pos hd.alpha_pos (by linarith [hd.beta_ge])
        exact this.ne' h
      rw [if_neg hab]
      have hne := sub_ne_zero_of_threshold v hd.n_pos hd.alpha_pos hd.beta_ge hd.empty kv hrv hsize hthr
      obtain ⟨hsubc, -⟩ := subOf_marginals v ((rv : α) / (((4 : Nat) : α) * alpha * beta)) c
      set sub := subOf ((rv : α) / (((4 : Nat) : α) * alpha * beta))
        ((players c).map (fun p => (p, v (c % 2 ^ (p + 1)) - v (c % 2 ^ p)))) c with hsubdef
      have hdc : diff c sub < 2 ^ n := lt_of_le_of_lt (sub_le (diff_sub c sub)) hc
      obtain ⟨⟨c', q2⟩, hms⟩ := maxSubroutine_ok hd (diff c sub) hdc (kv.reached n)
      rw [hms]
      dsimp only
      obtain ⟨hc'sub, hc'size, -⟩ := maxSubroutine_spec v n _ _ eps fuelMax c' q2 hms
      have hc'c : c' &&& c = c' := sub_trans hc'sub (diff_sub _ _)
      have hne' : c' ≠ c := by
        intro heq
        rw [heq] at hc'sub
        exact hne (diff_eq_self_imp hsubc hc'sub)
      rw [if_neg hne']
      have hlt : size c' < size c := size_lt hc'c hne'
      obtain ⟨⟨cs, q3⟩, hrec⟩ := ih c' (lt_of_le_of_lt (sub_le hc'c) hc) hc'size (by omega)
      rw [hrec]
      exact ⟨_, rfl⟩
    · rw [if_neg hthr]
      exact ⟨_, rfl⟩

theorem candCell_ok {n : Nat} {v : Nat → α} {alpha beta eps : α} {fuelMax : Nat}
    (hd : Domain n v alpha beta eps fuelMax) (singles : List α) (kv : KVal) {rv : Nat} (hrv : 0 < rv) :
    ∃ res, candCell (okGet v) n alpha beta eps fuelMax singles kv rv = .ok res := by
  unfold candCell
  rw [if_neg hd.n_pos]
  dsimp only
  obtain ⟨⟨c, q0⟩, hms⟩ := maxSubroutine_ok hd _ (fromPlayers_light_lt n kv rv singles) (kv.reached n)
  rw [hms]
  dsimp only
  obtain ⟨hcsub, hcsize, -⟩ := maxSubroutine_spec v n _ _ eps fuelMax c q0 hms
  have hc : c < 2 ^ n := lt_of_le_of_lt (sub_le hcsub) (fromPlayers_light_lt n kv rv singles)
  obtain ⟨⟨cs, q1⟩, hrec⟩ := candLoop_ok hd kv hrv (size c + 1) c hc hcsize le_rfl
  rw [hrec]
  exact ⟨_, rfl⟩

/-- TERMINATION of the candidate computation: on the stated domain it returns (never `Err.other`) -/
theorem candidates_ok {n : Nat} {v : Nat → α} {alpha beta eps : α} {fuelMax : Nat}
    (hd : Domain n v alpha beta eps fuelMax) :
    ∃ arr q, candidates (okGet v) n alpha beta eps fuelMax = .ok (arr, q) := by
  unfold candidates
  rw [singles_okGet]
  dsimp only
  have hall : ((List.range n).map (fun p => v (singleton p))).all (fun s => decide (1 ≤ s)) = true := by
    rw [List.all_eq_true]
    intro x hx
    obtain ⟨p, hp, rfl⟩ := List.mem_map.mp hx
    exact decide_eq_true (hd.singles p (List.mem_range.mp hp))
  rw [if_pos hall]
  obtain ⟨cells, hcells⟩ := mapE_isOk_of (fun kv => mapE (fun r => candCell (okGet v) n alpha beta eps fuelMax
      ((List.range n).map (fun p => v (singleton p))) kv r) (rVals n)) (kVals n)
    (fun kv _ => mapE_isOk_of _ _ (fun rv hrv => candCell_ok hd _ kv (rVals_pos hd.n_pos hrv)))
  rw [hcells]
  exact ⟨_, _, rfl⟩

end compose
end ICG.Mul
