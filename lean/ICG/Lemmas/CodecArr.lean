/-
  ICG.Lemmas.CodecArr — numpy side of the entry codec (ICG.Model.Codec): `tolist` followed by `np.array`.
  Core Lean only.
-/
import ICG.Model.Codec
import ICG.Lemmas.CodecMeta

namespace ICG.Codec
variable {φ : Type}

/-- the shape numpy discovers in the `tolist` of an array of shape `s`: everything after the first zero dimension
    is lost -/
def cut : List Nat → List Nat
  | [] => []
  | 0 :: _ => [0]
  | (d + 1) :: r => (d + 1) :: cut r

theorem cut_length_le (s : List Nat) : (cut s).length ≤ s.length := by
  induction s with
  | nil => simp [cut]
  | cons d r ih =>
    cases d with
    | zero => simp [cut]
    | succ d => simp only [cut, List.length_cons]; omega

/-- zero dimensions only in the last position ⇔ the shape survives -/
theorem cut_eq_self_iff (s : List Nat) : cut s = s ↔ ∀ d ∈ s.dropLast, d ≠ 0 := by
  induction s with
  | nil => simp [cut]
  | cons d r ih =>
    cases d with
    | zero =>
      cases r with
      | nil => simp [cut]
      | cons e r' => simp [cut, List.dropLast]
    | succ d =>
      cases r with
      | nil => simp [cut]
      | cons e r' =>
        simp only [cut, List.cons.injEq, true_and, List.dropLast_cons_cons, List.mem_cons, forall_eq_or_imp, ne_eq,
          Nat.add_eq_zero_iff, Nat.succ_ne_self, and_false, not_false_eq_true]
        simpa [cut] using ih

theorem shapeOf_scalar (x : Scalar φ) : shapeOf x.toJson = .ok [] := by
  cases x <;> simp [Scalar.toJson, shapeOf]

theorem leaves_scalar (x : Scalar φ) : leaves x.toJson = [x.toJson] := by
  cases x <;> simp [Scalar.toJson, leaves]

theorem loaded_scalar (x : Scalar φ) : x.toJson.loaded = true := by
  cases x <;> rfl

theorem loadedList_iff (l : List (Json φ)) : loadedList l = true ↔ ∀ t ∈ l, t.loaded = true := by
  induction l with
  | nil => simp [loadedList]
  | cons x xs ih => simp [loadedList, ih]

theorem allShape_of_forall (s : List Nat) (ys : List (Json φ)) (h : ∀ y ∈ ys, shapeOf y = .ok s) :
    allShape s ys = .ok () := by
  induction ys with
  | nil => simp [allShape]
  | cons y ys ih =>
    rw [allShape, h y (by simp)]
    simp only [if_true]
    exact ih (fun z hz => h z (by simp [hz]))

/-- one dimension: the chunks of a block of `d * prod rest` cells -/
theorem chunks_lemma (rest : List Nat)
    (ih : ∀ cells : List (Scalar φ), cells.length = prod rest →
      ∃ t, toTree? rest cells = some t ∧ shapeOf t = .ok (cut rest) ∧ leaves t = cells.map Scalar.toJson ∧
        t.loaded = true)
    (d : Nat) (cells : List (Scalar φ)) (hl : cells.length = d * prod rest) :
    ∃ ts, mapO (toTree? rest) (splitChunks (prod rest) d cells) = some ts ∧ ts.length = d ∧
      (∀ t ∈ ts, shapeOf t = .ok (cut rest)) ∧ leavesList ts = cells.map Scalar.toJson ∧
      (∀ t ∈ ts, t.loaded = true) := by
  induction d generalizing cells with
  | zero =>
    have : cells = [] := by
      apply List.eq_nil_of_length_eq_zero; simpa using hl
    subst this
    exact ⟨[], by simp [splitChunks, mapO], rfl, by simp, by simp [leavesList], by simp⟩
  | succ d ihd =>
    have h1 : (cells.take (prod rest)).length = prod rest := by
      rw [List.length_take, hl, Nat.succ_mul]; omega
    have h2 : (cells.drop (prod rest)).length = d * prod rest := by
      rw [List.length_drop, hl, Nat.succ_mul]; omega
    obtain ⟨t, ht, hs, hlv, hld⟩ := ih _ h1
    obtain ⟨ts, hts, hlen, hall, hlvs, hlds⟩ := ihd _ h2
    refine ⟨t :: ts, ?_, by simp [hlen], ?_, ?_, ?_⟩
    · simp [splitChunks, mapO, ht, hts]
    · intro y hy
      rcases List.mem_cons.1 hy with rfl | hy
      · exact hs
      · exact hall y hy
    · simp only [leavesList, hlv, hlvs, ← List.map_append, List.take_append_drop]
    · intro y hy
      rcases List.mem_cons.1 hy with rfl | hy
      · exact hld
      · exact hlds y hy

/-- **`tolist`, then what `np.array` sees**: for cells filling the shape, `tolist` succeeds, numpy discovers the shape
    `cut shape`, and the leaves are the cells in row-major order -/
theorem toTree_spec (shape : List Nat) : ∀ cells : List (Scalar φ), cells.length = prod shape →
    ∃ t, toTree? shape cells = some t ∧ shapeOf t = .ok (cut shape) ∧ leaves t = cells.map Scalar.toJson ∧
      t.loaded = true := by
  induction shape with
  | nil =>
    intro cells hl
    match cells, hl with
    | [x], _ => exact ⟨x.toJson, by simp [toTree?], shapeOf_scalar x, by simp [leaves_scalar], loaded_scalar x⟩
  | cons d rest ih =>
    intro cells hl
    obtain ⟨ts, hts, hlen, hall, hlvs, hlds⟩ := chunks_lemma rest ih d cells (by simpa [prod] using hl)
    refine ⟨.arr ts, by simp [toTree?, hts], ?_, by simp [leaves, hlvs],
      by simpa [Json.loaded, loadedList_iff] using hlds⟩
    cases ts with
    | nil =>
      simp only [List.length_nil] at hlen
      subst hlen
      simp [shapeOf, cut]
    | cons x xs =>
      simp only [List.length_cons] at hlen
      subst hlen
      have hx := hall x (by simp)
      have hxs := allShape_of_forall (cut rest) xs (fun y hy => hall y (by simp [hy]))
      simp [shapeOf, hx, hxs, cut]

theorem mapE_scalar (cells : List (Scalar φ)) : mapE Json.scalar? (cells.map Scalar.toJson) = .ok cells := by
  induction cells with
  | nil => rfl
  | cons c cs ih =>
    have : Json.scalar? c.toJson = .ok c := by cases c <;> rfl
    simp [mapE, this, ih]

/-- `discover` on the `tolist` of an array -/
theorem discover_tolist (shape : List Nat) (cells : List (Scalar φ)) (hl : cells.length = prod shape)
    (hd : shape.length ≤ maxDims) :
    ∃ t, toTree? shape cells = some t ∧ discover t = .ok (cut shape, cells) ∧ t.reload = t := by
  obtain ⟨t, ht, hs, hlv, hld⟩ := toTree_spec shape cells hl
  refine ⟨t, ht, ?_, reload_of_loaded t hld⟩
  have : ¬ (cut shape).length > maxDims := by
    have := cut_length_le shape; omega
  simp [discover, hlv, mapE_scalar, hs, this]

/-! ### casts and dtype inference on cells that already have the dtype -/

theorem castTo_self (ofInt : Int → Except CErr (FCell φ)) (dt : DType)
    (cells : List (Scalar φ)) (h : cells.all (Scalar.hasType dt) = true) :
    mapE (castTo ofInt dt) cells = .ok cells := by
  induction cells with
  | nil => rfl
  | cons c cs ih =>
    simp only [List.all_cons, Bool.and_eq_true] at h
    have hc : castTo ofInt dt c = .ok c := by
      cases dt <;> cases c <;> simp_all [Scalar.hasType, castTo]
    simp [mapE, hc, ih h.2]

theorem kindOf_of_hasType (dt : DType) (hdt : dt ≠ .obj) (c : Scalar φ) (h : c.hasType dt = true) :
    kindOf c = .ok dt := by
  cases dt <;> cases c <;> simp_all [Scalar.hasType, kindOf]

theorem inferFrom_same (dt : DType) (hdt : dt ≠ .obj) (cells : List (Scalar φ))
    (h : cells.all (Scalar.hasType dt) = true) : inferFrom dt cells = .ok dt := by
  induction cells with
  | nil => rfl
  | cons c cs ih =>
    simp only [List.all_cons, Bool.and_eq_true] at h
    have hj : dt.join dt = dt := by cases dt <;> rfl
    simp [inferFrom, kindOf_of_hasType dt hdt c h.1, hj, ih h.2]

theorem inferDType_same (dt : DType) (hdt : dt ≠ .obj) (cells : List (Scalar φ))
    (h : cells.all (Scalar.hasType dt) = true) (hne : cells ≠ [] ∨ dt = .f64) : inferDType cells = .ok dt := by
  cases cells with
  | nil =>
    rcases hne with h | h
    · exact absurd rfl h
    · subst h; rfl
  | cons c cs =>
    simp only [List.all_cons, Bool.and_eq_true] at h
    simp [inferDType, kindOf_of_hasType dt hdt c h.1, inferFrom_same dt hdt cs h.2]

/-! ### the inferred dtype can hold every cell: the `unmodelled` branches of `castTo` are dead -/

def DType.rank : DType → Nat
  | .bool => 0 | .i64 => 1 | .f64 => 2 | .obj => 3

theorem rank_join (a b : DType) : (a.join b).rank = max a.rank b.rank := by
  cases a <;> cases b <;> rfl

theorem inferFrom_ge (k : DType) (cells : List (Scalar φ)) (dt : DType) (h : inferFrom k cells = .ok dt) :
    k.rank ≤ dt.rank ∧ ∀ c ∈ cells, ∃ kc, kindOf c = .ok kc ∧ kc.rank ≤ dt.rank := by
  induction cells generalizing k with
  | nil =>
    simp only [inferFrom, Except.ok.injEq] at h
    subst h
    exact ⟨Nat.le_refl _, by simp⟩
  | cons c cs ih =>
    simp only [inferFrom] at h
    cases hk : kindOf c with
    | error e => simp [hk] at h
    | ok kc =>
      simp only [hk] at h
      obtain ⟨h1, h2⟩ := ih _ h
      rw [rank_join] at h1
      refine ⟨by omega, ?_⟩
      intro x hx
      rcases List.mem_cons.1 hx with rfl | hx
      · exact ⟨kc, hk, by omega⟩
      · exact h2 x hx

theorem inferDType_ge (cells : List (Scalar φ)) (dt : DType) (h : inferDType cells = .ok dt) :
    ∀ c ∈ cells, ∃ kc, kindOf c = .ok kc ∧ kc.rank ≤ dt.rank := by
  cases cells with
  | nil => simp
  | cons c cs =>
    simp only [inferDType] at h
    cases hk : kindOf c with
    | error e => simp [hk] at h
    | ok kc =>
      simp only [hk] at h
      obtain ⟨h1, h2⟩ := inferFrom_ge kc cs dt h
      intro x hx
      rcases List.mem_cons.1 hx with rfl | hx
      · exact ⟨kc, hk, h1⟩
      · exact h2 x hx

theorem castF_modelled (ofInt : Int → Except CErr (FCell φ)) (hof : ∀ i, ofInt i ≠ .error .unmodelled) (i : Int) :
    (match ofInt i with
      | .ok c => (.ok (.float c) : Except CErr (Scalar φ))
      | .error e => .error e) ≠ .error .unmodelled := by
  cases h : ofInt i with
  | ok c => simp
  | error e =>
    simp only [ne_eq, Except.error.injEq]
    intro he
    exact hof i (he ▸ h)

/-- storing a cell into an array of the inferred dtype never hits an `unmodelled` branch of `castTo` -/
theorem castTo_inferred_modelled (ofInt : Int → Except CErr (FCell φ)) (hof : ∀ i, ofInt i ≠ .error .unmodelled)
    (cells : List (Scalar φ)) (dt : DType) (h : inferDType cells = .ok dt) :
    ∀ c ∈ cells, castTo ofInt dt c ≠ .error .unmodelled := by
  intro c hc
  obtain ⟨kc, hk, hr⟩ := inferDType_ge cells dt h c hc
  cases c with
  | null =>
    simp only [kindOf, Except.ok.injEq] at hk
    subst hk
    cases dt <;> simp [DType.rank] at hr
    simp [castTo]
  | bool b =>
    cases dt with
    | f64 => exact castF_modelled ofInt hof _
    | i64 => simp [castTo]
    | bool => simp [castTo]
    | obj => simp [castTo]
  | int i =>
    cases dt with
    | f64 => exact castF_modelled ofInt hof _
    | i64 => simp [castTo]
    | bool =>
      simp only [kindOf] at hk
      split at hk
      · simp only [Except.ok.injEq] at hk; subst hk; simp [DType.rank] at hr
      · simp at hk
    | obj => simp [castTo]
  | float x =>
    simp only [kindOf, Except.ok.injEq] at hk
    subst hk
    cases dt <;> simp [DType.rank] at hr <;> simp [castTo]

end ICG.Codec
