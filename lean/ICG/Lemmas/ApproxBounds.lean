/-
  ICG.Lemmas.ApproxBounds — the superadditive bounds computed with a ROUNDED addition / subtraction
  (`loApprox`, `upApprox`: the recursion of `loSpec` / `upSpec` with `add'` / `sub'` in place of `+` / `−`;
  `max` / `min` are exact, as in floating point), and the perturbation lemmas needed for the error
  analysis in `ICG.Props.FloatError`:

  * `listMax?_close`, `listMin?_close` : the max / min of two lists whose corresponding members differ by
    at most `ε` differ by at most `ε` (and both exist when the list is not empty);
  * unfolding equations of `loApprox` / `upApprox`; with exact operations they ARE `loSpec` / `upSpec`;
  * `AddErrOn`, `SubErrOn` : "the operations actually performed on this table have absolute error ≤ δ";
  * `loApprox_close_on`, `upApprox_close_on` : the two error bounds, by strong induction on the coalition.
-/
import ICG.Lemmas.SpecSA1
import ICG.Lemmas.Enum
import Mathlib.Algebra.Order.Group.MinMax
import Mathlib.Algebra.Order.Group.Abs
import Mathlib.Algebra.Order.Field.Basic
import Mathlib.Data.List.Forall2
import Mathlib.Tactic.Linarith
import Mathlib.Tactic.Push

namespace ICG.Approx
open ICG.SpecSA

variable {α : Type}

/-! ### the rounded recursion -/

section defs
variable [Max α]

/-- `loSpec` with the rounded addition `add'` in place of `+` (same recursion, same candidate order) -/
def loApprox (add' : α → α → α) (known : Nat → Bool) (v : Nat → α) (c : Nat) : α :=
  if known c then v c else
    match listMax? ((properSubs c).attach.map fun ⟨x, hx⟩ =>
        have := (properSubs_lt hx).1
        have := (properSubs_lt hx).2
        add' (loApprox add' known v x) (loApprox add' known v (c - x))) with
    | some m => m
    | none => v c
termination_by c

variable [Min α]

/-- `upSpec` with the rounded subtraction `sub'` in place of `−`, against the rounded lower bounds -/
def upApprox (n : Nat) (add' sub' : α → α → α) (known : Nat → Bool) (v : Nat → α) (c : Nat) : α :=
  if known c then v c else
    match listMin? ((knownSupers n known c).map fun T => sub' (v T) (loApprox add' known v (T - c))) with
    | some m => m
    | none => v c

end defs

/-! ### unfolding -/

section unfold
variable [Max α]

theorem loApprox_known (add' : α → α → α) (known : Nat → Bool) (v : Nat → α) {c : Nat}
    (hk : known c = true) : loApprox add' known v c = v c := by
  unfold loApprox; simp [hk]

/-- the candidate list of an unknown row of `loApprox` -/
def loCandsA (add' : α → α → α) (known : Nat → Bool) (v : Nat → α) (c : Nat) : List α :=
  (properSubs c).map fun x => add' (loApprox add' known v x) (loApprox add' known v (c - x))

/-- the defining equation of `loApprox` at an unknown coalition -/
theorem loApprox_unknown_eq (add' : α → α → α) (known : Nat → Bool) (v : Nat → α) {c : Nat}
    (hk : known c = false) :
    loApprox add' known v c =
      match listMax? (loCandsA add' known v c) with
      | some m => m
      | none => v c := by
  have hlist : ((properSubs c).attach.map fun (p : {x // x ∈ properSubs c}) =>
        add' (loApprox add' known v p.1) (loApprox add' known v (c - p.1)))
      = loCandsA add' known v c := by
    rw [List.attach_map_val (f := fun x => add' (loApprox add' known v x) (loApprox add' known v (c - x)))]
    rfl
  conv => lhs; unfold loApprox
  simp only [hk, Bool.false_eq_true, if_false]
  rw [← hlist]

variable [Min α]

theorem upApprox_known (n : Nat) (add' sub' : α → α → α) (known : Nat → Bool) (v : Nat → α) {c : Nat}
    (hk : known c = true) : upApprox n add' sub' known v c = v c := by
  simp [upApprox, hk]

/-- the candidate list of an unknown row of `upApprox` -/
def upCandsA (n : Nat) (add' sub' : α → α → α) (known : Nat → Bool) (v : Nat → α) (c : Nat) : List α :=
  (knownSupers n known c).map fun T => sub' (v T) (loApprox add' known v (T - c))

theorem upApprox_unknown_eq (n : Nat) (add' sub' : α → α → α) (known : Nat → Bool) (v : Nat → α) {c : Nat}
    (hk : known c = false) :
    upApprox n add' sub' known v c =
      match listMin? (upCandsA n add' sub' known v c) with
      | some m => m
      | none => v c := by
  unfold upApprox
  rw [if_neg (by simp [hk])]
  rfl

end unfold

/-! ### with exact operations the rounded recursion is the specification -/

section exact
variable [Add α] [Max α]

theorem loApprox_exact (known : Nat → Bool) (v : Nat → α) (c : Nat) :
    loApprox (· + ·) known v c = loSpec known v c := by
  induction c using Nat.strong_induction_on with
  | _ c ih =>
    cases hk : known c with
    | true => rw [loApprox_known _ known v hk, loSpec_known known v hk]
    | false =>
      rw [loApprox_unknown_eq _ known v hk, loSpec_unknown_eq known v hk]
      have : loCandsA (· + ·) known v c
          = (properSubs c).map fun x => loSpec known v x + loSpec known v (c - x) := by
        unfold loCandsA
        apply List.map_congr_left
        intro x hx
        have hlt := properSubs_lt hx
        rw [ih x hlt.1, ih (c - x) hlt.2]
      rw [this]; rfl

/-- at a known coalition nothing is computed -/
theorem loApprox_eq_of_known (add' : α → α → α) (known : Nat → Bool) (v : Nat → α) {c : Nat}
    (hk : known c = true) : loApprox add' known v c = loSpec known v c := by
  rw [loApprox_known add' known v hk, loSpec_known known v hk]

variable [Sub α] [Min α]

theorem upApprox_eq_of_known (n : Nat) (add' sub' : α → α → α) (known : Nat → Bool) (v : Nat → α) {c : Nat}
    (hk : known c = true) : upApprox n add' sub' known v c = upSpec n known v c := by
  rw [upApprox_known n add' sub' known v hk, upSpec_known n known v hk]

theorem upApprox_exact (n : Nat) (known : Nat → Bool) (v : Nat → α) (c : Nat) :
    upApprox n (· + ·) (· - ·) known v c = upSpec n known v c := by
  cases hk : known c with
  | true => rw [upApprox_known n _ _ known v hk, upSpec_known n known v hk]
  | false =>
    rw [upApprox_unknown_eq n _ _ known v hk, upSpec_unknown_eq n known v hk]
    have : upCandsA n (· + ·) (· - ·) known v c
        = (knownSupers n known c).map fun T => v T - loSpec known v (T - c) := by
      unfold upCandsA
      apply List.map_congr_left
      intro T _
      rw [loApprox_exact]
    rw [this]; rfl

end exact

/-! ### max / min of entrywise close lists -/

section close
variable [AddCommGroup α] [LinearOrder α] [IsOrderedAddMonoid α]

theorem foldl_max_close {ε : α} {l l' : List α} (h : List.Forall₂ (fun a b => |a - b| ≤ ε) l l') :
    ∀ {a a' : α}, |a - a'| ≤ ε → |l.foldl max a - l'.foldl max a'| ≤ ε := by
  induction h with
  | nil => intro a a' h; exact h
  | cons hxy _ ih =>
    intro a a' haa
    simp only [List.foldl]
    exact ih (le_trans (abs_max_sub_max_le_max _ _ _ _) (max_le haa hxy))

theorem foldl_min_close {ε : α} {l l' : List α} (h : List.Forall₂ (fun a b => |a - b| ≤ ε) l l') :
    ∀ {a a' : α}, |a - a'| ≤ ε → |l.foldl min a - l'.foldl min a'| ≤ ε := by
  induction h with
  | nil => intro a a' h; exact h
  | cons hxy _ ih =>
    intro a a' haa
    simp only [List.foldl]
    exact ih (le_trans (abs_min_sub_min_le_max _ _ _ _) (max_le haa hxy))

/-- **max is 1-Lipschitz in the sup norm.**  Two non-empty lists whose corresponding members differ by at
    most `ε` both have a maximum, and the maxima differ by at most `ε`. -/
theorem listMax?_close {ε : α} {l l' : List α} (h : List.Forall₂ (fun a b => |a - b| ≤ ε) l l')
    (hne : l ≠ []) : ∃ m m', listMax? l = some m ∧ listMax? l' = some m' ∧ |m - m'| ≤ ε := by
  cases h with
  | nil => exact absurd rfl hne
  | cons hab ht => exact ⟨_, _, rfl, rfl, foldl_max_close ht hab⟩

/-- likewise for the minimum -/
theorem listMin?_close {ε : α} {l l' : List α} (h : List.Forall₂ (fun a b => |a - b| ≤ ε) l l')
    (hne : l ≠ []) : ∃ m m', listMin? l = some m ∧ listMin? l' = some m' ∧ |m - m'| ≤ ε := by
  cases h with
  | nil => exact absurd rfl hne
  | cons hab ht => exact ⟨_, _, rfl, rfl, foldl_min_close ht hab⟩

omit [IsOrderedAddMonoid α] in
/-- two images of the same index list under pointwise close functions are entrywise close -/
theorem forall₂_map_close {ι : Type} {ε : α} (L : List ι) (f g : ι → α)
    (h : ∀ x ∈ L, |f x - g x| ≤ ε) : List.Forall₂ (fun a b => |a - b| ≤ ε) (L.map f) (L.map g) := by
  induction L with
  | nil => exact List.Forall₂.nil
  | cons x L ih =>
    exact List.Forall₂.cons (h x List.mem_cons_self) (ih fun y hy => h y (List.mem_cons_of_mem _ hy))

end close

/-! ### the operations actually performed -/

section errOn
variable [Field α] [LinearOrder α]

/-- every addition performed by `loApprox` on the `n`-player table has absolute error at most `δ` -/
def AddErrOn (n : Nat) (add' : α → α → α) (known : Nat → Bool) (v : Nat → α) (δ : α) : Prop :=
  ∀ c, c < 2 ^ n → known c = false → ∀ x ∈ properSubs c,
    |add' (loApprox add' known v x) (loApprox add' known v (c - x))
      - (loApprox add' known v x + loApprox add' known v (c - x))| ≤ δ

/-- every subtraction performed by `upApprox` on the `n`-player table has absolute error at most `δ` -/
def SubErrOn (n : Nat) (add' sub' : α → α → α) (known : Nat → Bool) (v : Nat → α) (δ : α) : Prop :=
  ∀ c, c < 2 ^ n → known c = false → ∀ T ∈ knownSupers n known c,
    |sub' (v T) (loApprox add' known v (T - c)) - (v T - loApprox add' known v (T - c))| ≤ δ

theorem AddErrOn.of_forall {n : Nat} {add' : α → α → α} {known : Nat → Bool} {v : Nat → α} {δ : α}
    (h : ∀ a b, |add' a b - (a + b)| ≤ δ) : AddErrOn n add' known v δ :=
  fun _ _ _ _ _ => h _ _

theorem SubErrOn.of_forall {n : Nat} {add' sub' : α → α → α} {known : Nat → Bool} {v : Nat → α} {δ : α}
    (h : ∀ a b, |sub' a b - (a - b)| ≤ δ) : SubErrOn n add' sub' known v δ :=
  fun _ _ _ _ _ => h _ _

end errOn

/-! ### the error bounds -/

section bounds
variable [Field α] [LinearOrder α] [IsStrictOrderedRing α]

/-- a split of `c` into `x` and `c − x` splits the number of rounded additions:
    `|c| − 1 = (|x| − 1) + (|c − x| − 1) + 1` (natural-number subtraction; all three sizes are ≥ 1) -/
theorem size_split_pred {c x : Nat} (hx : x ∈ properSubs c) :
    size c - 1 = (size x - 1) + (size (c - x) - 1) + 1 := by
  obtain ⟨hsub, hx0, hxc⟩ := mem_properSubs.mp hx
  have hd := sub_or_self hsub
  have h1 := size_or_of_disjoint x (c - x) hd.2
  rw [hd.1] at h1
  have h2 := size_pos_of_ne_zero x hx0
  have h3 : 0 < size (c - x) := size_pos_of_ne_zero _ (by have := sub_le hsub; omega)
  omega

/-- **lower bounds.**  `|loApprox c − loSpec c| ≤ (|c| − 1)·δ` (`|c| − 1` in ℕ, so `0` at `∅`): one `δ` per
    rounded addition along the best split tree, which has `|c| − 1` internal nodes at most. -/
theorem loApprox_close_on {n : Nat} {known : Nat → Bool} (hmin : MinInfo n known) {add' : α → α → α}
    {v : Nat → α} {δ : α} (hδ : 0 ≤ δ) (hadd : AddErrOn n add' known v δ) :
    ∀ c, c < 2 ^ n → |loApprox add' known v c - loSpec known v c| ≤ ((size c - 1 : ℕ) : α) * δ := by
  intro c
  induction c using Nat.strong_induction_on with
  | _ c ih =>
    intro hc
    cases hk : known c with
    | true =>
      rw [loApprox_known add' known v hk, loSpec_known known v hk, sub_self, abs_zero]
      exact mul_nonneg (Nat.cast_nonneg _) hδ
    | false =>
      obtain ⟨m, hm, he⟩ := loSpec_unknown hmin v hc hk
      have hF : List.Forall₂ (fun a b => |a - b| ≤ ((size c - 1 : ℕ) : α) * δ)
          (loCandsA add' known v c) (loCands known v c) := by
        unfold loCandsA loCands
        apply forall₂_map_close
        intro x hx
        have hlt := properSubs_lt hx
        have h1 := ih x hlt.1 (by omega)
        have h2 := ih (c - x) hlt.2 (by omega)
        have h3 := hadd c hc hk x hx
        rw [size_split_pred hx]
        push_cast
        rw [abs_le] at h1 h2 h3 ⊢
        constructor <;> linarith [h1.1, h1.2, h2.1, h2.2, h3.1, h3.2]
      obtain ⟨a, b, ha, hb, hab⟩ := listMax?_close hF
        (by simpa [loCandsA] using properSubs_ne_nil hmin hc hk)
      rw [hm] at hb
      rw [loApprox_unknown_eq add' known v hk, ha, he, Option.some.inj hb]
      exact hab

/-- **upper bounds.**  `|upApprox c − upSpec c| ≤ (n − |c|)·δ`: the candidate of a known superset `T`
    costs one rounded subtraction on top of the `|T − c| − 1` additions inside `loApprox (T − c)`, and
    `|T − c| ≤ n − |c|`. -/
theorem upApprox_close_on {n : Nat} {known : Nat → Bool} (hmin : MinInfo n known) {add' sub' : α → α → α}
    {v : Nat → α} {δ : α} (hδ : 0 ≤ δ) (hadd : AddErrOn n add' known v δ)
    (hsub : SubErrOn n add' sub' known v δ) :
    ∀ c, c < 2 ^ n →
      |upApprox n add' sub' known v c - upSpec n known v c| ≤ ((n - size c : ℕ) : α) * δ := by
  intro c hc
  cases hk : known c with
  | true =>
    rw [upApprox_eq_of_known n add' sub' known v hk, sub_self, abs_zero]
    exact mul_nonneg (Nat.cast_nonneg _) hδ
  | false =>
    obtain ⟨m, hm, he⟩ := upSpec_unknown hmin v hc hk
    have hF : List.Forall₂ (fun a b => |a - b| ≤ ((n - size c : ℕ) : α) * δ)
        (upCandsA n add' sub' known v c) (upCands n known v c) := by
      unfold upCandsA upCands
      apply forall₂_map_close
      intro T hT
      obtain ⟨hT0, hT1, hT2, _⟩ := mem_knownSupers.mp hT
      have hle := sub_le hT1
      have hd := sub_or_self hT1
      have hs := size_or_of_disjoint c (T - c) hd.2
      rw [hd.1] at hs
      have hTn := size_le n T hT0
      have hpos : 0 < size (T - c) := size_pos_of_ne_zero _ (by omega)
      have h1 := loApprox_close_on hmin hδ hadd (T - c) (by omega)
      have h2 := hsub c hc hk T hT
      have hcount : n - size c = (size (T - c) - 1) + 1 + (n - size T) := by omega
      rw [hcount]
      push_cast
      have h3 : 0 ≤ ((n - size T : ℕ) : α) * δ := mul_nonneg (Nat.cast_nonneg _) hδ
      rw [abs_le] at h1 h2 ⊢
      constructor <;> linarith [h1.1, h1.2, h2.1, h2.2, h3]
    obtain ⟨a, b, ha, hb, hab⟩ := listMin?_close hF
      (by simpa [upCandsA] using knownSupers_ne_nil hmin hc hk)
    rw [hm] at hb
    rw [upApprox_unknown_eq n add' sub' known v hk, ha, he, Option.some.inj hb]
    exact hab

end bounds

end ICG.Approx
