/-
  ICG.Lemmas.SpecSAMBasic — unfolding and membership characterisations of the specification functions
  of `ICG.Spec.Bounds` used by the SAM sequence (`splitSpec`, `closeSpec`, `samB`, `samUp`), the
  non-emptiness of their candidate lists under `MinInfo`, and the congruence lemmas (only the values at
  known masks are read).
-/
import ICG.Spec.Bounds
import ICG.Lemmas.ListMax
import ICG.Lemmas.BitFacts
import Mathlib.Algebra.Order.Group.Defs
import Mathlib.Algebra.Order.Monoid.Defs
import Mathlib.Algebra.Order.Sub.Defs

namespace ICG
set_option linter.unusedSectionVars false

/-! ### bit facts: singletons and the grand coalition -/

/-- a non-empty mask within `n` players contains a singleton of a player `< n` -/
theorem exists_singleton_sub {n c : Nat} (hc : c < 2 ^ n) (h0 : c ≠ 0) :
    ∃ i, i < n ∧ 2 ^ i &&& c = 2 ^ i := by
  obtain ⟨i, hi⟩ := Nat.exists_testBit_of_ne_zero h0
  refine ⟨i, ?_, ?_⟩
  · by_contra hni
    have hle : 2 ^ n ≤ 2 ^ i := Nat.pow_le_pow_right (by decide) (by omega)
    have := Nat.testBit_lt_two_pow (x := c) (i := i) (by omega)
    rw [this] at hi; cases hi
  · apply sub_of_testBit
    intro j hj
    rw [Nat.testBit_two_pow] at hj
    have : i = j := by simpa using hj
    subst this; exact hi

/-- every mask within `n` players is a sub-mask of the grand coalition -/
theorem sub_grand {n c : Nat} (hc : c < 2 ^ n) : c &&& (2 ^ n - 1) = c := by
  rw [Nat.and_two_pow_sub_one_eq_mod]; exact Nat.mod_eq_of_lt hc

theorem sam_grand_lt (n : Nat) : 2 ^ n - 1 < 2 ^ n := by
  have : 0 < 2 ^ n := Nat.two_pow_pos n
  omega

theorem sub_refl (c : Nat) : c &&& c = c := Nat.and_self c

/-! ### unknown coalitions under minimal information -/

/-- under `MinInfo`, an unknown coalition has a known singleton as a proper non-empty sub-mask -/
theorem exists_knownSub {n : Nat} {known : Nat → Bool} (hmi : MinInfo n known) {c : Nat}
    (hc : c < 2 ^ n) (hk : known c = false) : ∃ x, x ∈ knownSubs known c := by
  have h0 : c ≠ 0 := by rintro rfl; rw [hmi.1] at hk; cases hk
  obtain ⟨i, hi, hsub⟩ := exists_singleton_sub hc h0
  refine ⟨2 ^ i, ?_⟩
  simp only [knownSubs, List.mem_filter]
  refine ⟨mem_properSubs.mpr ⟨hsub, ?_, ?_⟩, hmi.2.2 i hi⟩
  · exact Nat.ne_of_gt (Nat.two_pow_pos i)
  · intro h; rw [← h, hmi.2.2 i hi] at hk; cases hk

theorem mem_knownSubs_iff {known : Nat → Bool} {c x : Nat} :
    x ∈ knownSubs known c ↔ x &&& c = x ∧ x ≠ 0 ∧ x ≠ c ∧ known x = true := by
  simp only [knownSubs, List.mem_filter, mem_properSubs]
  constructor
  · rintro ⟨⟨a, b, c⟩, d⟩; exact ⟨a, b, c, d⟩
  · rintro ⟨a, b, c, d⟩; exact ⟨⟨a, b, c⟩, d⟩

theorem mem_knownSupers_iff {n : Nat} {known : Nat → Bool} {c T : Nat} :
    T ∈ knownSupers n known c ↔ T < 2 ^ n ∧ c &&& T = c ∧ T ≠ c ∧ known T = true := by
  simp only [knownSupers, List.mem_filter, List.mem_range, Bool.and_eq_true, isSub_iff, bne_iff_ne,
    ne_eq]
  constructor
  · rintro ⟨a, ⟨b, c⟩, d⟩; exact ⟨a, b, c, d⟩
  · rintro ⟨a, b, c, d⟩; exact ⟨a, ⟨b, c⟩, d⟩

/-- under `MinInfo`, an unknown coalition has proper two-part splits -/
theorem exists_properSub {n : Nat} {known : Nat → Bool} (hmi : MinInfo n known) {c : Nat}
    (hc : c < 2 ^ n) (hk : known c = false) : ∃ x, x ∈ properSubs c := by
  obtain ⟨x, hx⟩ := exists_knownSub hmi hc hk
  exact ⟨x, (List.mem_filter.mp hx).1⟩

/-- under `MinInfo`, the grand coalition is a known proper superset of every unknown coalition -/
theorem sam_grand_mem_knownSupers {n : Nat} {known : Nat → Bool} (hmi : MinInfo n known) {c : Nat}
    (hc : c < 2 ^ n) (hk : known c = false) : 2 ^ n - 1 ∈ knownSupers n known c := by
  refine mem_knownSupers_iff.mpr ⟨sam_grand_lt n, sub_grand hc, ?_, hmi.2.1⟩
  intro h; rw [← h, hmi.2.1] at hk; cases hk

/-! ### `splitSpec` -/

section split
variable {α : Type} [Add α] [Max α]

/-- the candidate list of `splitSpec` at `c` -/
def splitCands (known : Nat → Bool) (v : Nat → α) (extra : Nat → List α) (c : Nat) : List α :=
  extra c ++ (properSubs c).map fun x => splitSpec known v extra x + splitSpec known v extra (c - x)

theorem splitSpec_eq (known : Nat → Bool) (v : Nat → α) (extra : Nat → List α) (c : Nat) :
    splitSpec known v extra c =
      if known c then v c else
        match listMax? (splitCands known v extra c) with
        | some m => m
        | none => v c := by
  rw [splitSpec, splitCands]
  rw [← List.attach_map_val (l := properSubs c)
    (f := fun x => splitSpec known v extra x + splitSpec known v extra (c - x))]
  rfl

theorem splitSpec_known {known : Nat → Bool} {v : Nat → α} {extra : Nat → List α} {c : Nat}
    (hk : known c = true) : splitSpec known v extra c = v c := by
  rw [splitSpec_eq, if_pos hk]

theorem mem_splitCands {known : Nat → Bool} {v : Nat → α} {extra : Nat → List α} {c : Nat} {y : α} :
    y ∈ splitCands known v extra c ↔
      y ∈ extra c ∨ ∃ x, x ∈ properSubs c ∧
        y = splitSpec known v extra x + splitSpec known v extra (c - x) := by
  simp only [splitCands, List.mem_append, List.mem_map]
  constructor
  · rintro (h | ⟨x, hx, rfl⟩)
    · exact Or.inl h
    · exact Or.inr ⟨x, hx, rfl⟩
  · rintro (h | ⟨x, hx, rfl⟩)
    · exact Or.inl h
    · exact Or.inr ⟨x, hx, rfl⟩

end split

section splitOrd
variable {α : Type} [AddCommGroup α] [LinearOrder α] [IsOrderedAddMonoid α]

/-- for an unknown coalition with at least one candidate, `splitSpec` is the greatest candidate -/
theorem splitSpec_unknown {known : Nat → Bool} {v : Nat → α} {extra : Nat → List α} {c : Nat}
    (hk : known c = false) (hne : splitCands known v extra c ≠ []) :
    splitSpec known v extra c ∈ splitCands known v extra c ∧
      ∀ y ∈ splitCands known v extra c, y ≤ splitSpec known v extra c := by
  obtain ⟨m, hm⟩ := listMax?_isSome hne
  have : splitSpec known v extra c = m := by
    rw [splitSpec_eq, hk, hm]; rfl
  rw [this]
  exact listMax?_eq_some_iff.mp hm

theorem splitCands_ne_nil {known : Nat → Bool} {v : Nat → α} {extra : Nat → List α} {c x : Nat}
    (hx : x ∈ properSubs c) : splitCands known v extra c ≠ [] := by
  intro h
  have : splitSpec known v extra x + splitSpec known v extra (c - x) ∈ splitCands known v extra c :=
    mem_splitCands.mpr (Or.inr ⟨x, hx, rfl⟩)
  rw [h] at this; cases this

end splitOrd

/-! ### `closeSpec` -/

section close
variable {α : Type} [AddCommGroup α] [LinearOrder α] [IsOrderedAddMonoid α]

theorem closeSpec_known {n : Nat} {known : Nat → Bool} {v A : Nat → α} {c : Nat}
    (hk : known c = true) : closeSpec n known v A c = v c := by
  rw [closeSpec, if_pos hk]

theorem mem_supers {n c T : Nat} :
    T ∈ (List.range (2 ^ n)).filter (fun T => isSub c T) ↔ T < 2 ^ n ∧ c &&& T = c := by
  simp only [List.mem_filter, List.mem_range, isSub_iff]

/-- for an unknown coalition within `n` players, `closeSpec` is the greatest `A T` over supersets `T` -/
theorem closeSpec_unknown {n : Nat} {known : Nat → Bool} {v A : Nat → α} {c : Nat}
    (hc : c < 2 ^ n) (hk : known c = false) :
    (∃ T, T < 2 ^ n ∧ c &&& T = c ∧ closeSpec n known v A c = A T) ∧
      ∀ T, T < 2 ^ n → c &&& T = c → A T ≤ closeSpec n known v A c := by
  have hne : ((List.range (2 ^ n)).filter (fun T => isSub c T)).map A ≠ [] := by
    intro h
    have : A c ∈ ((List.range (2 ^ n)).filter (fun T => isSub c T)).map A :=
      List.mem_map.mpr ⟨c, mem_supers.mpr ⟨hc, sub_refl c⟩, rfl⟩
    rw [h] at this; cases this
  obtain ⟨m, hm⟩ := listMax?_isSome hne
  have : closeSpec n known v A c = m := by
    rw [closeSpec, hk, hm]; rfl
  rw [this]
  obtain ⟨h1, h2⟩ := listMax?_eq_some_iff.mp hm
  obtain ⟨T, hT, rfl⟩ := List.mem_map.mp h1
  obtain ⟨hT1, hT2⟩ := mem_supers.mp hT
  refine ⟨⟨T, hT1, hT2, rfl⟩, ?_⟩
  intro T' h1' h2'
  exact h2 _ (List.mem_map.mpr ⟨T', mem_supers.mpr ⟨h1', h2'⟩, rfl⟩)

end close

/-! ### the SAM sequence: the split stage `samS` and `samB = closeSpec ∘ samS` -/

section sam
variable {α : Type} [AddCommGroup α] [LinearOrder α] [IsOrderedAddMonoid α]

/-- the vector the monotone closure is applied to in round `i` -/
def samS (n : Nat) (known : Nat → Bool) (v : Nat → α) : Nat → Nat → α
  | 0 => loSpec known v
  | i + 1 => splitSpec known v (fun c => [samB n known v i c + v 0])

theorem samB_eq (n : Nat) (known : Nat → Bool) (v : Nat → α) (i : Nat) :
    samB n known v i = closeSpec n known v (samS n known v i) := by
  cases i <;> rfl

/-- the extra candidates of round `i` -/
def samExtra (n : Nat) (known : Nat → Bool) (v : Nat → α) : Nat → Nat → List α
  | 0 => fun _ => []
  | i + 1 => fun c => [samB n known v i c + v 0]

theorem samS_eq (n : Nat) (known : Nat → Bool) (v : Nat → α) (i : Nat) :
    samS n known v i = splitSpec known v (samExtra n known v i) := by
  cases i <;> rfl

theorem samS_known {n : Nat} {known : Nat → Bool} {v : Nat → α} {i c : Nat}
    (hk : known c = true) : samS n known v i c = v c := by
  rw [samS_eq, splitSpec_known hk]

/-- item 1: a known coalition's lower bound is its value -/
theorem samB_known {n : Nat} {known : Nat → Bool} {v : Nat → α} {i c : Nat}
    (hk : known c = true) : samB n known v i c = v c := by
  rw [samB_eq, closeSpec_known hk]

/-- item 1: a known coalition's upper bound is its value -/
theorem samUp_known {n : Nat} {known : Nat → Bool} {v : Nat → α} {r c : Nat}
    (hk : known c = true) : samUp n known v r c = v c := by
  rw [samUp, if_pos hk]

/-- the two candidate lists of `samUp` -/
def samUpSupers (n : Nat) (known : Nat → Bool) (v : Nat → α) (r c : Nat) : List α :=
  (knownSupers n known c).map fun T => v T - samB n known v r (T - c)

def samUpSubs (known : Nat → Bool) (v : Nat → α) (c : Nat) : List α := (knownSubs known c).map v

/-- item 1 (non-emptiness): under `MinInfo`, both candidate lists of `samUp` at an unknown coalition
    within `n` players are non-empty -/
theorem samUpSupers_ne_nil {n : Nat} {known : Nat → Bool} (hmi : MinInfo n known) (v : Nat → α)
    (r : Nat) {c : Nat} (hc : c < 2 ^ n) (hk : known c = false) : samUpSupers n known v r c ≠ [] := by
  intro h
  have : v (2 ^ n - 1) - samB n known v r (2 ^ n - 1 - c) ∈ samUpSupers n known v r c :=
    List.mem_map.mpr ⟨_, sam_grand_mem_knownSupers hmi hc hk, rfl⟩
  rw [h] at this; cases this

theorem samUpSubs_ne_nil {n : Nat} {known : Nat → Bool} (hmi : MinInfo n known) (v : Nat → α)
    {c : Nat} (hc : c < 2 ^ n) (hk : known c = false) : samUpSubs known v c ≠ [] := by
  intro h
  obtain ⟨x, hx⟩ := exists_knownSub hmi hc hk
  have : v x ∈ samUpSubs known v c := List.mem_map.mpr ⟨x, hx, rfl⟩
  rw [h] at this; cases this

/-- item 1 (non-emptiness): under `MinInfo`, the split candidates of an unknown coalition are non-empty -/
theorem samCands_ne_nil {n : Nat} {known : Nat → Bool} (hmi : MinInfo n known) (v : Nat → α)
    (extra : Nat → List α) {c : Nat} (hc : c < 2 ^ n) (hk : known c = false) :
    splitCands known v extra c ≠ [] := by
  obtain ⟨x, hx⟩ := exists_properSub hmi hc hk
  exact splitCands_ne_nil hx

/-- for an unknown coalition within `n` players under `MinInfo`, `samUp` is the least of all candidates -/
theorem samUp_unknown {n : Nat} {known : Nat → Bool} (hmi : MinInfo n known) {v : Nat → α} {r c : Nat}
    (hc : c < 2 ^ n) (hk : known c = false) :
    ((∃ T, T ∈ knownSupers n known c ∧ samUp n known v r c = v T - samB n known v r (T - c)) ∨
      (∃ x, x ∈ knownSubs known c ∧ samUp n known v r c = v x)) ∧
    (∀ T, T ∈ knownSupers n known c → samUp n known v r c ≤ v T - samB n known v r (T - c)) ∧
    (∀ x, x ∈ knownSubs known c → samUp n known v r c ≤ v x) := by
  obtain ⟨a, ha⟩ := listMin?_isSome (samUpSupers_ne_nil hmi v r hc hk)
  obtain ⟨b, hb⟩ := listMin?_isSome (samUpSubs_ne_nil hmi v hc hk)
  have heq : samUp n known v r c = min a b := by
    unfold samUpSupers at ha
    unfold samUpSubs at hb
    rw [samUp, hk, ha, hb]; rfl
  obtain ⟨ha1, ha2⟩ := listMin?_eq_some_iff.mp ha
  obtain ⟨hb1, hb2⟩ := listMin?_eq_some_iff.mp hb
  rw [heq]
  refine ⟨?_, ?_, ?_⟩
  · rcases min_choice a b with h | h
    · left
      obtain ⟨T, hT, hTe⟩ := List.mem_map.mp ha1
      exact ⟨T, hT, by rw [h, hTe]⟩
    · right
      obtain ⟨x, hx, hxe⟩ := List.mem_map.mp hb1
      exact ⟨x, hx, by rw [h, hxe]⟩
  · intro T hT
    exact le_trans (min_le_left a b) (ha2 _ (List.mem_map.mpr ⟨T, hT, rfl⟩))
  · intro x hx
    exact le_trans (min_le_right a b) (hb2 _ (List.mem_map.mpr ⟨x, hx, rfl⟩))

end sam

end ICG
