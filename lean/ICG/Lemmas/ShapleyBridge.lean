/-
  ICG.Lemmas.ShapleyBridge — from the executable model of shapley.py / exploitability.py (list folds,
  `Except`) to closed forms over `Finset.range (2^n)`, and the double counting behind C05 / C06.

  Main results
  * `shapleyCore_ok`, `shapleyForPlayer_ok`, `shapley_ok` : on a game whose `get_values` answers with
    the values of `v` for ids `< 2^n`, the model returns `.ok (phi n v i)` for every player `i < n`;
  * `maxGainValues_eq` : `upper·mask + lower·(1−mask)` is `if i ∈ c then upper else lower`;
  * `exploitability_ok` : the model returns `.ok (Σ_i psi n hi lo i − g)` when `get_value(N) = g`;
  * `sum_psi` : Σ_i ψ_i(a,b) = Σ_{T≠∅} a T / C(n,|T|) − Σ_{S≠N} b S / C(n,|S|).
-/
import ICG.Model.Shapley
import ICG.Lemmas.Enum
import Mathlib.Algebra.BigOperators.Group.Finset.Basic
import Mathlib.Algebra.BigOperators.Group.Finset.Sigma
import Mathlib.Algebra.BigOperators.Ring.Finset
import Mathlib.Algebra.BigOperators.Field
import Mathlib.Algebra.Order.Field.Basic
import Mathlib.Data.Nat.Choose.Basic
import Mathlib.Data.Nat.Factorial.Basic
import Mathlib.Data.Nat.Cast.Field
import Mathlib.Algebra.CharZero.Defs
import Mathlib.Tactic.FieldSimp
import Mathlib.Tactic.Ring
import Mathlib.Tactic.Linarith

namespace ICG
open Finset

/-! ### lists, folds, `Except` plumbing -/

theorem listSum_eq_sum {M : Type} [AddCommMonoid M] (l : List M) : listSum l = l.sum := by
  unfold listSum
  rw [List.sum_eq_foldl]

theorem listSum_map_filter_range {M : Type} [AddCommMonoid M] (m : Nat) (p : Nat → Bool) (f : Nat → M) :
    listSum (((List.range m).filter p).map f) = ∑ x ∈ (range m).filter (fun x => p x = true), f x := by
  rw [listSum_eq_sum, ← List.sum_toFinset f ((List.nodup_range).filter _)]
  congr 1
  ext x
  simp

theorem listSum_map_range {M : Type} [AddCommMonoid M] (m : Nat) (f : Nat → M) :
    listSum ((List.range m).map f) = ∑ x ∈ range m, f x := by
  rw [listSum_eq_sum, ← List.sum_toFinset f List.nodup_range]
  congr 1
  ext x
  simp

theorem mapE_ok {β γ : Type} (f : β → Except Err γ) (g : β → γ) :
    ∀ (l : List β), (∀ x ∈ l, f x = .ok (g x)) → mapE f l = .ok (l.map g)
  | [], _ => rfl
  | b :: l, h => by
    have hb := h b (by simp)
    have hl := mapE_ok f g l (fun x hx => h x (by simp [hx]))
    simp [mapE, hb, hl]

theorem zipWith3'_map {ι β γ δ ε : Type} (f : β → γ → δ → ε) (a : ι → β) (b : ι → γ) (c : ι → δ) :
    ∀ l : List ι, zipWith3' f (l.map a) (l.map b) (l.map c) = l.map (fun x => f (a x) (b x) (c x))
  | [] => rfl
  | x :: l => by simp [zipWith3', zipWith3'_map f a b c l]

theorem fact_eq (n : Nat) : fact n = n.factorial := by
  induction n with
  | zero => rfl
  | succ n ih => simp [fact, ih, Nat.factorial_succ]

/-- the Shapley weight (not divided by `n!`) of a coalition of size `s` not containing the player -/
def coef (n s : Nat) : Nat := s.factorial * (n - s - 1).factorial

theorem contributions_get {n k : Nat} (hk : k < n) : (contributions n)[k]? = some (coef n k) := by
  simp [contributions, hk, fact_eq, coef]

theorem lookupCoefs_ok (n : Nat) (sizes : List Nat) (h : ∀ k ∈ sizes, k < n) :
    lookupCoefs (contributions n) sizes = .ok (sizes.map (coef n)) := by
  unfold lookupCoefs
  apply mapE_ok
  intro k hk
  simp [contributions_get (h k hk)]

/-! ### bit facts (from design probe P4) -/

theorem setBit_lt {n i S : ℕ} (hi : i < n) (hS : S < 2 ^ n) : S ||| 2 ^ i < 2 ^ n :=
  Nat.or_lt_two_pow hS (Nat.pow_lt_pow_right (by omega) hi)

theorem testBit_setBit_self (S i : ℕ) : (S ||| 2 ^ i).testBit i = true := by
  simp [Nat.testBit_or, Nat.testBit_two_pow_self]

theorem clear_set {S i : ℕ} (h : S.testBit i = false) : (S ||| 2 ^ i) ^^^ 2 ^ i = S := by
  apply Nat.eq_of_testBit_eq; intro j
  simp only [Nat.testBit_xor, Nat.testBit_or, Nat.testBit_two_pow]
  by_cases hij : i = j
  · subst hij; simp [h]
  · simp [hij]

theorem set_clear {T i : ℕ} (h : T.testBit i = true) : (T ^^^ 2 ^ i) ||| 2 ^ i = T := by
  apply Nat.eq_of_testBit_eq; intro j
  simp only [Nat.testBit_xor, Nat.testBit_or, Nat.testBit_two_pow]
  by_cases hij : i = j
  · subst hij; simp [h]
  · simp [hij]

theorem clear_lt {n i T : ℕ} (hi : i < n) (hT : T < 2 ^ n) : T ^^^ 2 ^ i < 2 ^ n :=
  Nat.xor_lt_two_pow hT (Nat.pow_lt_pow_right (by omega) hi)

theorem testBit_clear_self {T i : ℕ} (h : T.testBit i = true) : (T ^^^ 2 ^ i).testBit i = false := by
  simp [Nat.testBit_xor, Nat.testBit_two_pow_self, h]

theorem and_two_pow_eq_zero_iff (c i : Nat) : (c &&& 2 ^ i == 0) = !c.testBit i := by
  have h := two_pow_and_ne_zero_iff (i := i) (c := c)
  rw [Nat.and_comm] at h
  cases hb : c.testBit i <;> simp_all

theorem and_two_pow_eq_zero {c i : Nat} (h : c.testBit i = false) : c &&& 2 ^ i = 0 := by
  have := and_two_pow_eq_zero_iff c i
  simpa [h] using this

theorem fromPlayers_single (i : Nat) : fromPlayers [i] = 2 ^ i := by
  unfold fromPlayers
  rw [eraseDups_of_nodup [i] (by simp)]
  simp

/-- adding an absent player raises the size by one -/
theorem size_setBit {S i : Nat} (h : S.testBit i = false) : size (S ||| 2 ^ i) = size S + 1 := by
  rw [size_or_of_disjoint _ _ (and_two_pow_eq_zero h)]
  congr 1
  rw [size_eq_length_players, ← fromPlayers_single, players_fromPlayers (by simp)]
  rfl

/-- reindex "coalitions without i" to "coalitions with i" -/
theorem sum_without_eq_sum_with {M} [AddCommMonoid M] (n i : ℕ) (hi : i < n) (g : ℕ → M) :
    ∑ S ∈ (range (2 ^ n)).filter (fun S => S.testBit i = false), g (S ||| 2 ^ i)
  = ∑ T ∈ (range (2 ^ n)).filter (fun T => T.testBit i = true), g T := by
  refine Finset.sum_nbij' (fun S => S ||| 2 ^ i) (fun T => T ^^^ 2 ^ i) ?_ ?_ ?_ ?_ ?_
  · intro S hS; simp only [mem_filter, mem_range] at hS ⊢
    exact ⟨setBit_lt hi hS.1, testBit_setBit_self S i⟩
  · intro T hT; simp only [mem_filter, mem_range] at hT ⊢
    exact ⟨clear_lt hi hT.1, testBit_clear_self hT.2⟩
  · intro S hS; simp only [mem_filter, mem_range] at hS; exact clear_set hS.2
  · intro T hT; simp only [mem_filter, mem_range] at hT; exact set_clear hT.2
  · intro S _; rfl

/-- double counting: swap player / coalition sums -/
theorem double_count {M} [AddCommMonoid M] (n : ℕ) (p : ℕ → ℕ → Prop) [∀ i T, Decidable (p i T)]
    (g : ℕ → ℕ → M) :
    ∑ i ∈ range n, ∑ T ∈ (range (2 ^ n)).filter (fun T => p i T), g i T
  = ∑ T ∈ range (2 ^ n), ∑ i ∈ (range n).filter (fun i => p i T), g i T := by
  simp only [Finset.sum_filter]
  exact Finset.sum_comm

/-- half of the coalitions do not contain a given player -/
theorem card_without {n i : Nat} (hi : i < n) :
    ((range (2 ^ n)).filter (fun S => S.testBit i = false)).card = 2 ^ (n - 1) := by
  have h1 := sum_without_eq_sum_with (M := ℕ) n i hi (fun _ => 1)
  rw [← Finset.card_eq_sum_ones, ← Finset.card_eq_sum_ones] at h1
  have h2 := Finset.card_filter_add_card_filter_not (s := range (2 ^ n)) (fun S => S.testBit i = false)
  have h3 : ((range (2 ^ n)).filter (fun S => ¬ S.testBit i = false))
      = (range (2 ^ n)).filter (fun S => S.testBit i = true) := by
    apply Finset.filter_congr; intro x _; simp
  rw [h3, card_range] at h2
  obtain ⟨m, rfl⟩ : ∃ m, n = m + 1 := ⟨n - 1, by omega⟩
  have hp : (2 : ℕ) ^ (m + 1) = 2 ^ m * 2 := pow_succ 2 m
  simp only [Nat.add_sub_cancel]
  omega

theorem length_exclude {n i : Nat} (hi : i < n) :
    (excludeCoalition (2 ^ i) (allCoalitions n)).length = 2 ^ (n - 1) := by
  rw [← card_without hi]
  unfold excludeCoalition allCoalitions
  rw [← List.toFinset_card_of_nodup ((List.nodup_range).filter _)]
  congr 1
  ext x
  simp [and_two_pow_eq_zero_iff]

theorem mem_exclude {n i c : Nat} :
    c ∈ excludeCoalition (2 ^ i) (allCoalitions n) ↔ c < 2 ^ n ∧ c.testBit i = false := by
  simp [excludeCoalition, allCoalitions, and_two_pow_eq_zero_iff]

/-- a coalition of the `n`-player game that misses player `i < n` has fewer than `n` members -/
theorem size_lt_of_not_mem {n i S : Nat} (hi : i < n) (hS : S < 2 ^ n) (h : S.testBit i = false) :
    size S < n := by
  have := size_le n _ (setBit_lt hi hS)
  rw [size_setBit h] at this
  omega

/-! ### closed forms -/
section
variable {α : Type} [Field α]

/-- two-game form: "with" values from `a`, "without" values from `b` -/
def psi (n : Nat) (a b : Nat → α) (i : Nat) : α :=
  (∑ S ∈ (range (2 ^ n)).filter (fun S => S.testBit i = false),
      (coef n (size S) : α) * (a (S ||| 2 ^ i) - b S)) / (n.factorial : α)

/-- the Shapley value of player `i` in the game `v` (closed form of shapley.py) -/
def phi (n : Nat) (v : Nat → α) (i : Nat) : α := psi n v v i

/-- the game `get_values` answers with the values of `v` on ids of the `n`-player game -/
def Answers (n : Nat) (g : GetValues α) (v : Nat → α) : Prop :=
  ∀ l : List Nat, (∀ c ∈ l, c < 2 ^ n) → g l = .ok (l.map v)

omit [Field α] in
theorem answers_complete (n : Nat) (v : Nat → α) : Answers n (completeGame v) v := fun _ _ => rfl

theorem shapleyCore_ok {n i : Nat} (hi : i < n) (g : GetValues α) (v : Nat → α) (hg : Answers n g v) :
    shapleyCore n g (2 ^ i) (contributions n) (fact n) = .ok (phi n v i) := by
  unfold shapleyCore
  have hlen := length_exclude hi
  have hfrom : Table.fromiter (excludeCoalition (2 ^ i) (allCoalitions n)) (2 ^ (n - 1))
      = .ok (excludeCoalition (2 ^ i) (allCoalitions n)) := by
    unfold Table.fromiter
    rw [hlen]
    simp only [Nat.lt_irrefl, if_false]
    rw [← hlen, List.take_length]
  have hwo := hg (excludeCoalition (2 ^ i) (allCoalitions n)) (fun c hc => (mem_exclude.mp hc).1)
  have hwi := hg ((excludeCoalition (2 ^ i) (allCoalitions n)).map (fun c => c ||| 2 ^ i)) (by
    intro c hc
    obtain ⟨d, hd, rfl⟩ := List.mem_map.mp hc
    exact setBit_lt hi (mem_exclude.mp hd).1)
  have hco := lookupCoefs_ok n ((excludeCoalition (2 ^ i) (allCoalitions n)).map size) (by
    intro k hk
    obtain ⟨d, hd, rfl⟩ := List.mem_map.mp hk
    exact size_lt_of_not_mem hi (mem_exclude.mp hd).1 (mem_exclude.mp hd).2)
  simp only [hfrom, hwo, hwi, hco, bind, Except.bind, List.map_map]
  congr 1
  have := zipWith3'_map (fun (cont : Nat) (vw vo : α) => (cont : α) * (vw - vo))
    (coef n ∘ size) (v ∘ fun c => c ||| 2 ^ i) v (excludeCoalition (2 ^ i) (allCoalitions n))
  rw [this]
  unfold phi psi excludeCoalition allCoalitions
  rw [listSum_map_filter_range, fact_eq]
  congr 1
  apply Finset.sum_congr
  · ext x; simp [and_two_pow_eq_zero_iff]
  · intro x _; rfl

theorem shapleyForPlayer_ok {n i : Nat} (hi : i < n) (g : GetValues α) (v : Nat → α) (hg : Answers n g v) :
    shapleyForPlayer n g i = .ok (phi n v i) := by
  unfold shapleyForPlayer
  rw [fromPlayers_single]
  exact shapleyCore_ok hi g v hg

theorem shapley_ok (n : Nat) (g : GetValues α) (v : Nat → α) (hg : Answers n g v) :
    shapley n g = .ok ((List.range n).map (phi n v)) := by
  unfold shapley
  apply mapE_ok
  intro i hi
  exact shapleyCore_ok (List.mem_range.mp hi) g v hg


/-! ### MaxGainGame and exploitability -/

omit [Field α] in
theorem hasPlayer_eq (c i : Nat) : hasPlayer c i = c.testBit i := by
  unfold hasPlayer contains singleton
  cases hb : c.testBit i
  · have := and_two_pow_eq_zero hb
    rw [this]
    have : (0 : Nat) ≠ 2 ^ i := (Nat.two_pow_pos i).ne
    simpa using this
  · have : c &&& 2 ^ i = 2 ^ i := by
      apply Nat.eq_of_testBit_eq; intro j
      simp only [Nat.testBit_and, Nat.testBit_two_pow]
      by_cases hij : i = j
      · subst hij; simp [hb]
      · simp [hij]
    simp [this]

/-- `upper·mask + lower·(1 − mask)` is "upper where the player is in, lower elsewhere" -/
theorem maxGainValues_eq (i : Nat) (lo hi : Nat → α) (c : Nat) :
    maxGainValues i lo hi c = if c.testBit i = true then hi c else lo c := by
  unfold maxGainValues
  rw [hasPlayer_eq]
  cases c.testBit i <;> simp

theorem answers_maxGain (n i : Nat) (lo hi : Nat → α) :
    Answers n (maxGainGetValues n i lo hi) (maxGainValues i lo hi) := by
  intro l hl
  unfold maxGainGetValues
  rw [if_pos]
  simpa using hl

theorem phi_maxGain (n i : Nat) (lo hi : Nat → α) : phi n (maxGainValues i lo hi) i = psi n hi lo i := by
  unfold phi psi
  congr 1
  apply Finset.sum_congr rfl
  intro S hS
  simp only [mem_filter] at hS
  rw [maxGainValues_eq, maxGainValues_eq, if_pos (testBit_setBit_self S i), if_neg (by simp [hS.2])]

/-- `compute_exploitability` in closed form: it raises exactly when `get_value(N)` raises -/
theorem exploitability_eq (n : Nat) (lo hi : Nat → α) (gv : Except Err α) :
    exploitability n lo hi gv =
      match gv with
      | .ok g => .ok (∑ i ∈ range n, psi n hi lo i - g)
      | .error e => .error e := by
  unfold exploitability
  have h := mapE_ok (fun i => shapleyForPlayer n (maxGainGetValues n i lo hi) i) (fun i => psi n hi lo i)
    (List.range n) (by
      intro i hi'
      rw [shapleyForPlayer_ok (List.mem_range.mp hi') _ _ (answers_maxGain n i lo hi), phi_maxGain])
  simp only [h, bind, Except.bind]
  cases gv with
  | error e => rfl
  | ok g => simp only [listSum_map_range]

end

/-! ### sizes as cardinalities -/

theorem size_eq_card {n c : Nat} (hc : c < 2 ^ n) :
    size c = ((range n).filter (fun i => c.testBit i = true)).card := by
  rw [← sizeId_eq_size hc, sizeId_eq_length_playersId, playersId_eq_filter,
    ← List.toFinset_card_of_nodup ((List.nodup_range).filter _)]
  congr 1
  ext x
  simp

theorem card_absent {n c : Nat} (hc : c < 2 ^ n) :
    ((range n).filter (fun i => c.testBit i = false)).card = n - size c := by
  have h2 := Finset.card_filter_add_card_filter_not (s := range n) (fun i => c.testBit i = true)
  have h3 : ((range n).filter (fun i => ¬ c.testBit i = true))
      = (range n).filter (fun i => c.testBit i = false) := by
    apply Finset.filter_congr; intro x _; simp
  rw [h3, card_range, ← size_eq_card hc] at h2
  omega

theorem size_grand (n : Nat) : size (grand n) = n := by
  have hlt : grand n < 2 ^ n := by unfold grand; have := Nat.two_pow_pos n; omega
  rw [size_eq_card hlt]
  have : (range n).filter (fun i => (grand n).testBit i = true) = range n := by
    apply Finset.filter_true_of_mem
    intro i hi
    simp [testBit_grand, mem_range.mp hi]
  rw [this, card_range]

/-- only the grand coalition has all `n` players -/
theorem size_lt_of_ne_grand {n c : Nat} (hc : c < 2 ^ n) (hne : c ≠ grand n) : size c < n := by
  by_contra hge
  apply hne
  apply Nat.eq_of_testBit_eq
  intro i
  rw [testBit_grand]
  by_cases hi : i < n
  · simp only [hi, decide_true]
    by_contra hb
    have hb' : c.testBit i = false := by simpa using hb
    exact hge (size_lt_of_not_mem hi hc hb')
  · simp only [hi, decide_false]
    exact (lt_two_pow_iff_testBit.mp hc) i (by omega)

/-! ### the coefficient identities (design probe P9) and the double counting -/
section
variable {K : Type} [Field K] [CharZero K]
open Nat

/-- `t · (t−1)! (n−t)! / n! = 1 / C(n,t)` for `1 ≤ t ≤ n` -/
theorem coef_upper (n t : ℕ) (ht : 1 ≤ t) (htn : t ≤ n) :
    (t : K) * (coef n (t - 1) : K) / (n ! : K) = 1 / (n.choose t : K) := by
  unfold coef
  have h1 : t * (t - 1)! = t ! := by
    obtain ⟨s, rfl⟩ : ∃ s, t = s + 1 := ⟨t - 1, by omega⟩
    simp [Nat.factorial_succ]
  have h2 : n - (t - 1) - 1 = n - t := by omega
  have hc : n.choose t * t ! * (n - t)! = n ! := Nat.choose_mul_factorial_mul_factorial htn
  have hn : (n ! : K) ≠ 0 := by exact_mod_cast Nat.factorial_ne_zero n
  have hch : (n.choose t : K) ≠ 0 := by exact_mod_cast (Nat.choose_pos htn).ne'
  rw [h2, div_eq_div_iff hn hch]
  have : ((t : K) * ((t - 1)! * (n - t)! : ℕ)) * (n.choose t : K)
      = ((n.choose t * (t * (t - 1)!) * (n - t)! : ℕ) : K) := by
    push_cast; ring
  rw [this, h1, hc]; ring

/-- `(n−s) · s! (n−s−1)! / n! = 1 / C(n,s)` for `s < n` -/
theorem coef_lower (n s : ℕ) (hs : s < n) :
    ((n - s : ℕ) : K) * (coef n s : K) / (n ! : K) = 1 / (n.choose s : K) := by
  unfold coef
  have h1 : (n - s) * (n - s - 1)! = (n - s)! := by
    obtain ⟨m, hm⟩ : ∃ m, n - s = m + 1 := ⟨n - s - 1, by omega⟩
    rw [hm]; simp [Nat.factorial_succ]
  have hc : n.choose s * s ! * (n - s)! = n ! := Nat.choose_mul_factorial_mul_factorial hs.le
  have hn : (n ! : K) ≠ 0 := by exact_mod_cast Nat.factorial_ne_zero n
  have hch : (n.choose s : K) ≠ 0 := by exact_mod_cast (Nat.choose_pos hs.le).ne'
  rw [div_eq_div_iff hn hch]
  have : ((n - s : ℕ) : K) * ((s ! * (n - s - 1)! : ℕ) : K) * (n.choose s : K)
       = ((n.choose s * s ! * ((n - s) * (n - s - 1)!) : ℕ) : K) := by push_cast; ring
  rw [this, h1, hc]; ring

/-- the "with" half: Σ_i Σ_{S∌i} coef(|S|)·a(S∪i) / n! = Σ_{T≠∅} a T / C(n,|T|) -/
theorem sum_with (n : Nat) (a : Nat → K) :
    ∑ i ∈ range n, ∑ S ∈ (range (2 ^ n)).filter (fun S => S.testBit i = false),
        (coef n (size S) : K) * a (S ||| 2 ^ i) / (n ! : K)
    = ∑ T ∈ (range (2 ^ n)).filter (fun T => T ≠ 0), a T / (n.choose (size T) : K) := by
  have step1 : ∀ i ∈ range n,
      ∑ S ∈ (range (2 ^ n)).filter (fun S => S.testBit i = false),
        (coef n (size S) : K) * a (S ||| 2 ^ i) / (n ! : K)
      = ∑ T ∈ (range (2 ^ n)).filter (fun T => T.testBit i = true),
        (coef n (size T - 1) : K) * a T / (n ! : K) := by
    intro i hi
    rw [← sum_without_eq_sum_with n i (mem_range.mp hi)
      (fun T => (coef n (size T - 1) : K) * a T / (n ! : K))]
    apply Finset.sum_congr rfl
    intro S hS
    simp only [mem_filter] at hS
    rw [size_setBit hS.2, Nat.add_sub_cancel]
  rw [Finset.sum_congr rfl step1, double_count n (fun i T => T.testBit i = true), Finset.sum_filter]
  apply Finset.sum_congr rfl
  intro T hT
  rw [Finset.sum_const, ← size_eq_card (mem_range.mp hT), nsmul_eq_mul]
  by_cases h0 : T = 0
  · subst h0; simp [size_zero]
  · rw [if_pos h0]
    have hpos := size_pos_of_ne_zero T h0
    have hle := size_le n T (mem_range.mp hT)
    have := coef_upper (K := K) n (size T) hpos hle
    calc (size T : K) * ((coef n (size T - 1) : K) * a T / (n ! : K))
        = ((size T : K) * (coef n (size T - 1) : K) / (n ! : K)) * a T := by ring
      _ = a T / (n.choose (size T) : K) := by rw [this]; ring

/-- the "without" half: Σ_i Σ_{S∌i} coef(|S|)·b(S) / n! = Σ_{S≠N} b S / C(n,|S|) -/
theorem sum_without (n : Nat) (b : Nat → K) :
    ∑ i ∈ range n, ∑ S ∈ (range (2 ^ n)).filter (fun S => S.testBit i = false),
        (coef n (size S) : K) * b S / (n ! : K)
    = ∑ S ∈ (range (2 ^ n)).filter (fun S => S ≠ grand n), b S / (n.choose (size S) : K) := by
  rw [double_count n (fun i S => S.testBit i = false), Finset.sum_filter]
  apply Finset.sum_congr rfl
  intro S hS
  rw [Finset.sum_const, card_absent (mem_range.mp hS), nsmul_eq_mul]
  by_cases hN : S = grand n
  · subst hN; simp [size_grand]
  · rw [if_pos hN]
    have hlt := size_lt_of_ne_grand (mem_range.mp hS) hN
    have := coef_lower (K := K) n (size S) hlt
    calc ((n - size S : ℕ) : K) * ((coef n (size S) : K) * b S / (n ! : K))
        = (((n - size S : ℕ) : K) * (coef n (size S) : K) / (n ! : K)) * b S := by ring
      _ = b S / (n.choose (size S) : K) := by rw [this]; ring

/-- the double counting behind C05 and Shapley efficiency -/
theorem sum_psi (n : Nat) (a b : Nat → K) :
    ∑ i ∈ range n, psi n a b i
    = ∑ T ∈ (range (2 ^ n)).filter (fun T => T ≠ 0), a T / (n.choose (size T) : K)
      - ∑ S ∈ (range (2 ^ n)).filter (fun S => S ≠ grand n), b S / (n.choose (size S) : K) := by
  rw [← sum_with n a, ← sum_without n b, ← Finset.sum_sub_distrib]
  apply Finset.sum_congr rfl
  intro i _
  unfold psi
  rw [Finset.sum_div, ← Finset.sum_sub_distrib]
  apply Finset.sum_congr rfl
  intro S _
  ring

end
end ICG
