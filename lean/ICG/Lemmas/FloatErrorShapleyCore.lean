/-
  ICG.Lemmas.FloatErrorShapleyCore — the rounded versions of the Shapley / exploitability model
  functions and the technical lemmas behind ICG.Props.FloatErrorShapley.

  * `sumApprox`, `shapleyTermsApprox`, `shapleyCoreApprox`, `shapleyForPlayerApprox`, `shapleyApprox`,
    `exploitabilityApprox` : the functions of ICG.Model.Shapley with every arithmetic operation replaced
    by an ARBITRARY binary function (`add' sub' mul' div'`), the same operations in the same order, the
    same `Except Err` plumbing (`…_exact`: with the exact operations they ARE the model functions, `rfl`);
  * `sumOps add' z l` : the operand pairs of the additions `foldl add' z l` performs;
  * `foldl_error` : the error of a rounded left fold against the exact one, entries differing by `ε`;
  * `withoutList`, `termApprox`, `numApprox`, `phiApprox` : closed forms of what the rounded functions
    return on a game that answers (`shapleyCoreApprox_ok`, `shapleyForPlayerApprox_ok`, …);
  * `sum_coef` : the Shapley coefficients of one player sum to `n!`;
  * `OpsErr` : absolute error `δ` on the operations `shapleyForPlayerApprox` actually performs, and
    `phiApprox_error_on` : `|phiApprox − phi| ≤ B n δ`, `B n δ = (2 + 2^n / n!)·δ`.
-/
import ICG.Lemmas.ShapleyBridge
import ICG.Lemmas.ShapleyOrderings
import Mathlib.Data.List.TakeWhile
import Mathlib.Algebra.Order.Group.Abs
import Mathlib.Algebra.Order.Ring.Abs
import Mathlib.Algebra.Order.Field.Basic
import Mathlib.Tactic.Linarith
import Mathlib.Tactic.Ring
import Mathlib.Tactic.FieldSimp

set_option linter.unusedSectionVars false

namespace ICG.ApproxShapley
open ICG Finset

/-! ### 1. the rounded model functions -/
section defs
variable {α : Type}

/-- Python's `sum(l)`: left to right from `0`, every `+` replaced by `add'`. -/
def sumApprox [Zero α] (add' : α → α → α) (l : List α) : α := l.foldl add' 0

/-- the operand pairs of the additions performed by `l.foldl add' z`, in order -/
def sumOps (add' : α → α → α) : α → List α → List (α × α)
  | _, [] => []
  | z, x :: l => (z, x) :: sumOps add' (add' z x) l

/-- the products `coef * (with − without)` of `_shapley_value_for_player`, rounded: one `sub'` and one
    `mul'` per term (the integer coefficient is converted exactly: it is `≤ n!`, far below `2^53` for
    every `n` the package can enumerate). -/
def shapleyTermsApprox [NatCast α] (sub' mul' : α → α → α) (cs : List Nat)
    (valuesWith valuesWithout : List α) : List α :=
  zipWith3' (fun (cont : Nat) (vw vo : α) => mul' (cont : α) (sub' vw vo)) cs valuesWith valuesWithout

/-- `shapleyCore` in rounded arithmetic: the terms `mul' coef (sub' with without)`, summed from `0` with
    `add'`, ONE final `div'` by `n!`.  The reads from the game, the coefficient lookup and hence every
    raising path are those of `shapleyCore`. -/
def shapleyCoreApprox [Zero α] [NatCast α] (add' sub' mul' div' : α → α → α) (n : Nat)
    (getValues : GetValues α) (single : Nat) (coefs : List Nat) (nFac : Nat) : Except Err α := do
  let without ← Table.fromiter (excludeCoalition single (allCoalitions n)) (2 ^ (n - 1))
  let withP := without.map (fun c => c ||| single)
  let valuesWithout ← getValues without
  let valuesWith ← getValues withP
  let cs ← lookupCoefs coefs (without.map size)
  .ok (div' (sumApprox add' (shapleyTermsApprox sub' mul' cs valuesWith valuesWithout)) (nFac : α))

/-- `shapleyForPlayer` in rounded arithmetic -/
def shapleyForPlayerApprox [Zero α] [NatCast α] (add' sub' mul' div' : α → α → α) (n : Nat)
    (getValues : GetValues α) (i : Nat) : Except Err α :=
  shapleyCoreApprox add' sub' mul' div' n getValues (fromPlayers [i]) (contributions n) (fact n)

/-- `shapley` (the all-players generator) in rounded arithmetic -/
def shapleyApprox [Zero α] [NatCast α] (add' sub' mul' div' : α → α → α) (n : Nat)
    (getValues : GetValues α) : Except Err (List α) :=
  mapE (fun i => shapleyCoreApprox add' sub' mul' div' n getValues (singleton i) (contributions n) (fact n))
    (List.range n)

/-- `exploitability` in rounded arithmetic: the per-player values by `shapleyForPlayerApprox` on the
    max-gain game, summed from `0` with `add'`, one `sub'` of the grand coalition's value.
    `maxGainValues` (`upper*mask + lower*(1 − mask)` with a 0/1 mask) is kept EXACT: in float64 `x*1`,
    `x*0`, `1−0`, `1−1`, `x+0` and `0+x` are exact for finite `x`, so that row is `upper` or `lower`
    without any rounding. -/
def exploitabilityApprox [Add α] [Sub α] [Mul α] [Zero α] [One α] [NatCast α]
    (add' sub' mul' div' : α → α → α) (n : Nat) (lo hi : Nat → α) (grandValue : Except Err α) :
    Except Err α := do
  let phis ← mapE (fun i => shapleyForPlayerApprox add' sub' mul' div' n (maxGainGetValues n i lo hi) i)
    (List.range n)
  let g ← grandValue
  .ok (sub' (sumApprox add' phis) g)

/-- `Table.exploitability` in rounded arithmetic -/
def tableExploitabilityApprox [Add α] [Sub α] [Mul α] [Zero α] [One α] [NatCast α]
    (add' sub' mul' div' : α → α → α) (t : Table α) : Except Err α :=
  exploitabilityApprox add' sub' mul' div' t.n t.lo t.hi (t.getValue (grand t.n))

/-! closed forms of what the rounded functions compute on a game that answers with `v` -/

/-- the coalitions without player `i`, in id order -/
def withoutList (n i : Nat) : List Nat := excludeCoalition (2 ^ i) (allCoalitions n)

/-- one rounded term -/
def termApprox [NatCast α] (sub' mul' : α → α → α) (n i : Nat) (v : Nat → α) (S : Nat) : α :=
  mul' ((coef n (size S) : Nat) : α) (sub' (v (S ||| 2 ^ i)) (v S))

/-- the rounded numerator: the `add'`-sum of the rounded terms -/
def numApprox [Zero α] [NatCast α] (add' sub' mul' : α → α → α) (n : Nat) (v : Nat → α) (i : Nat) : α :=
  sumApprox add' ((withoutList n i).map (termApprox sub' mul' n i v))

/-- the rounded Shapley value of player `i` in the game `v` -/
def phiApprox [Zero α] [NatCast α] (add' sub' mul' div' : α → α → α) (n : Nat) (v : Nat → α) (i : Nat) : α :=
  div' (numApprox add' sub' mul' n v i) ((fact n : Nat) : α)

end defs

/-! ### 2. `Except` plumbing: the rounded functions raise exactly when the exact ones do -/
section plumbing
variable {α : Type}

theorem mapE_error_congr {β γ γ' : Type} (f : β → Except Err γ) (f' : β → Except Err γ') :
    ∀ (l : List β), (∀ x ∈ l, ∀ e, f' x = .error e ↔ f x = .error e) →
      ∀ e, mapE f' l = .error e ↔ mapE f l = .error e
  | [], _, e => by simp [mapE]
  | b :: l, h, e => by
    have hb := h b (by simp)
    have hl := mapE_error_congr f f' l (fun x hx => h x (by simp [hx])) e
    cases hfb : f b with
    | error e1 =>
      have := (hb e1).mpr hfb
      simp [mapE, hfb, this]
    | ok c =>
      cases hfb' : f' b with
      | error e1 =>
        have := (hb e1).mp hfb'
        rw [hfb] at this; cases this
      | ok c' =>
        simp only [mapE, hfb, hfb']
        cases hm : mapE f l with
        | error e2 =>
          have := (mapE_error_congr f f' l (fun x hx => h x (by simp [hx])) e2).mpr hm
          simp [this]
        | ok cs =>
          cases hm' : mapE f' l with
          | error e2 =>
            have := (mapE_error_congr f f' l (fun x hx => h x (by simp [hx])) e2).mp hm'
            rw [hm] at this; cases this
          | ok cs' => simp

variable [Add α] [Sub α] [Mul α] [Div α] [Zero α] [NatCast α]

theorem shapleyCoreApprox_error_iff (add' sub' mul' div' : α → α → α) (n : Nat) (g : GetValues α)
    (single : Nat) (coefs : List Nat) (nFac : Nat) (e : Err) :
    shapleyCoreApprox add' sub' mul' div' n g single coefs nFac = .error e ↔
      shapleyCore n g single coefs nFac = .error e := by
  unfold shapleyCoreApprox shapleyCore
  cases Table.fromiter (excludeCoalition single (allCoalitions n)) (2 ^ (n - 1)) with
  | error e1 => simp [bind, Except.bind]
  | ok without =>
    simp only [bind, Except.bind]
    cases g without with
    | error e2 => simp
    | ok vo =>
      simp only
      cases g (without.map (fun c => c ||| single)) with
      | error e3 => simp
      | ok vw =>
        simp only
        cases lookupCoefs coefs (without.map size) with
        | error e4 => simp
        | ok cs => simp

end plumbing

/-! ### 3. error of a rounded left fold -/
section fold
variable {α : Type} [Field α] [LinearOrder α] [IsStrictOrderedRing α]

/-- a rounded left fold against the exact one: start values `z'`, `z`, entries `f' x`, `f x` with
    `|f' x − f x| ≤ ε x`, every performed addition within `δ` of the exact sum of its operands -/
theorem foldl_error {ι : Type} {add' : α → α → α} {δ : α} (f' f ε : ι → α) :
    ∀ (l : List ι) (z' z : α), (∀ x ∈ l, |f' x - f x| ≤ ε x) →
      (∀ p ∈ sumOps add' z' (l.map f'), |add' p.1 p.2 - (p.1 + p.2)| ≤ δ) →
      |(l.map f').foldl add' z' - (l.map f).foldl (· + ·) z|
        ≤ |z' - z| + (l.map ε).sum + (l.length : α) * δ
  | [], z', z, _, _ => by simp
  | x :: l, z', z, hε, hadd => by
    have ih := foldl_error f' f ε l (add' z' (f' x)) (z + f x)
      (fun y hy => hε y (List.mem_cons_of_mem _ hy)) (fun p hp => hadd p (by simp [sumOps, hp]))
    have h1 := hadd (z', f' x) (by simp [sumOps])
    have h2 := hε x (by simp)
    have h3 : |add' z' (f' x) - (z + f x)| ≤ δ + |z' - z| + ε x := by
      have e : add' z' (f' x) - (z + f x)
          = (add' z' (f' x) - (z' + f' x)) + (z' - z) + (f' x - f x) := by ring
      rw [e]
      exact (abs_add_three _ _ _).trans (by linarith)
    simp only [List.map_cons, List.foldl_cons, List.sum_cons, List.length_cons, Nat.cast_succ]
    linarith

end fold

/-! ### 4. what the rounded functions return on a game that answers -/
section ok
variable {α : Type} [Field α]

theorem length_withoutList {n i : Nat} (hi : i < n) : (withoutList n i).length = 2 ^ (n - 1) :=
  length_exclude hi

theorem mem_withoutList {n i S : Nat} : S ∈ withoutList n i ↔ S < 2 ^ n ∧ S.testBit i = false :=
  mem_exclude

theorem shapleyCoreApprox_ok (add' sub' mul' div' : α → α → α) {n i : Nat} (hi : i < n)
    (g : GetValues α) (v : Nat → α) (hg : Answers n g v) :
    shapleyCoreApprox add' sub' mul' div' n g (2 ^ i) (contributions n) (fact n)
      = .ok (phiApprox add' sub' mul' div' n v i) := by
  unfold shapleyCoreApprox
  have hlen := length_exclude hi
  have hfrom : Table.fromiter (excludeCoalition (2 ^ i) (allCoalitions n)) (2 ^ (n - 1))
      = .ok (excludeCoalition (2 ^ i) (allCoalitions n)) := by
    unfold Table.fromiter
    rw [hlen]
    simp only [Nat.lt_irrefl, if_false]
    rw [← hlen, List.take_length]
  have hwo := hg (excludeCoalition (2 ^ i) (allCoalitions n)) (fun c hc => (mem_exclude.mp hc).1)
  have hwi := hg ((excludeCoalition (2 ^ i) (allCoalitions n)).map (fun c => c ||| 2 ^ i)) (by
    intro c hc
    obtain ⟨d, hd, rfl⟩ := List.mem_map.mp hc
    exact setBit_lt hi (mem_exclude.mp hd).1)
  have hco := lookupCoefs_ok n ((excludeCoalition (2 ^ i) (allCoalitions n)).map size) (by
    intro k hk
    obtain ⟨d, hd, rfl⟩ := List.mem_map.mp hk
    exact size_lt_of_not_mem hi (mem_exclude.mp hd).1 (mem_exclude.mp hd).2)
  simp only [hfrom, hwo, hwi, hco, bind, Except.bind, List.map_map]
  congr 1
  unfold phiApprox numApprox shapleyTermsApprox withoutList
  have := zipWith3'_map (fun (cont : Nat) (vw vo : α) => mul' (cont : α) (sub' vw vo))
    (coef n ∘ size) (v ∘ fun c => c ||| 2 ^ i) v (excludeCoalition (2 ^ i) (allCoalitions n))
  rw [this]
  rfl

theorem shapleyForPlayerApprox_ok (add' sub' mul' div' : α → α → α) {n i : Nat} (hi : i < n)
    (g : GetValues α) (v : Nat → α) (hg : Answers n g v) :
    shapleyForPlayerApprox add' sub' mul' div' n g i = .ok (phiApprox add' sub' mul' div' n v i) := by
  unfold shapleyForPlayerApprox
  rw [fromPlayers_single]
  exact shapleyCoreApprox_ok add' sub' mul' div' hi g v hg

theorem shapleyApprox_ok (add' sub' mul' div' : α → α → α) (n : Nat) (g : GetValues α) (v : Nat → α)
    (hg : Answers n g v) :
    shapleyApprox add' sub' mul' div' n g
      = .ok ((List.range n).map (phiApprox add' sub' mul' div' n v)) := by
  unfold shapleyApprox
  apply mapE_ok
  intro i hi
  exact shapleyCoreApprox_ok add' sub' mul' div' (List.mem_range.mp hi) g v hg

/-- the rounded `compute_exploitability` in closed form -/
theorem exploitabilityApprox_eq (add' sub' mul' div' : α → α → α) (n : Nat) (lo hi : Nat → α)
    (gv : Except Err α) :
    exploitabilityApprox add' sub' mul' div' n lo hi gv =
      gv.map (fun g => sub' (sumApprox add'
        ((List.range n).map (fun i => phiApprox add' sub' mul' div' n (maxGainValues i lo hi) i))) g) := by
  unfold exploitabilityApprox
  have h := mapE_ok
    (fun i => shapleyForPlayerApprox add' sub' mul' div' n (maxGainGetValues n i lo hi) i)
    (fun i => phiApprox add' sub' mul' div' n (maxGainValues i lo hi) i)
    (List.range n) (by
      intro i hi'
      exact shapleyForPlayerApprox_ok add' sub' mul' div' (List.mem_range.mp hi') _ _
        (answers_maxGain n i lo hi))
  simp only [h, bind, Except.bind]
  cases gv <;> rfl

/-- the exact numerator is the list sum of the exact terms -/
theorem phi_eq_listSum (n : Nat) (v : Nat → α) (i : Nat) :
    phi n v i = listSum ((withoutList n i).map
      (fun S => ((coef n (size S) : Nat) : α) * (v (S ||| 2 ^ i) - v S))) / (n.factorial : α) := by
  unfold phi psi withoutList excludeCoalition allCoalitions
  rw [listSum_map_filter_range]
  congr 1
  apply Finset.sum_congr
  · ext x; simp [and_two_pow_eq_zero_iff]
  · intro x _; rfl

end ok

/-! ### 5. the coefficients of one player sum to `n!` -/
section coef
variable {α : Type} [Field α] [CharZero α]

theorem sum_coef {n i : Nat} (hi : i < n) :
    ∑ S ∈ (range (2 ^ n)).filter (fun S => S.testBit i = false), ((coef n (size S) : Nat) : α)
      = (n.factorial : α) := by
  -- the game "is player `i` in?": every marginal contribution of `i` is 1
  let v : Nat → α := fun c => if c.testBit i = true then 1 else 0
  have h := phi_eq_shapleyOrd hi v
  have hn : (n.factorial : α) ≠ 0 := by exact_mod_cast Nat.factorial_ne_zero n
  have hL : phi n v i
      = (∑ S ∈ (range (2 ^ n)).filter (fun S => S.testBit i = false), ((coef n (size S) : Nat) : α))
          / (n.factorial : α) := by
    unfold phi psi
    congr 1
    apply Finset.sum_congr rfl
    intro S hS
    simp only [mem_filter] at hS
    simp only [v]
    rw [if_pos (testBit_setBit_self S i), if_neg (by simp [hS.2])]
    ring
  have hR : shapleyOrd n v i = (n.factorial : α) / (n.factorial : α) := by
    unfold shapleyOrd
    congr 1
    have hm : ∀ σ ∈ (List.range n).permutations, marginal v σ i = (1 : α) := by
      intro σ _
      unfold marginal predMask
      simp only [v]
      rw [if_pos (testBit_setBit_self _ i), if_neg, sub_zero]
      rw [testBit_maskOf]
      have : i ∉ σ.takeWhile (fun x => x != i) := by
        intro hmem
        have := List.mem_takeWhile_imp hmem
        simp at this
      simp [this]
    rw [List.map_congr_left hm]
    simp [List.length_permutations]
  rw [hL, hR, div_left_inj' hn] at h
  exact h

/-- the same over the list the model walks through -/
theorem sum_coef_list {n i : Nat} (hi : i < n) :
    ((withoutList n i).map (fun S => ((coef n (size S) : Nat) : α))).sum = (n.factorial : α) := by
  rw [← sum_coef (α := α) hi, ← listSum_eq_sum]
  unfold withoutList excludeCoalition allCoalitions
  rw [listSum_map_filter_range]
  apply Finset.sum_congr
  · ext x; simp [and_two_pow_eq_zero_iff]
  · intro x _; rfl

end coef

/-! ### 6. the error of one rounded Shapley value -/
section error
variable {α : Type} [Field α] [LinearOrder α] [IsStrictOrderedRing α]

/-- the error bound of one rounded Shapley value: `(2 + 2^n / n!)·δ`.
    Each of the `2^(n−1)` terms carries `δ` (its product) plus `coef·δ` (its difference, scaled); the sum
    adds `2^(n−1)·δ`; the coefficients sum to `n!`; the division scales all that by `1/n!` and adds `δ`. -/
def B (n : Nat) (δ : α) : α := (2 + (2 : α) ^ n / (n.factorial : α)) * δ

theorem B_nonneg (n : Nat) {δ : α} (hδ : 0 ≤ δ) : 0 ≤ B n δ := by
  unfold B
  have : (0 : α) < (n.factorial : α) := by exact_mod_cast Nat.factorial_pos n
  have h2 : (0 : α) ≤ (2 : α) ^ n / (n.factorial : α) := div_nonneg (by positivity) this.le
  exact mul_nonneg (by linarith) hδ

/-- **absolute error `δ` on the operations `shapleyForPlayerApprox` performs** for player `i` of the
    `n`-player game `v`: one subtraction and one multiplication per coalition without `i`, the additions
    of the running sum (operand pairs `sumOps`), one division. -/
structure OpsErr (add' sub' mul' div' : α → α → α) (n : Nat) (v : Nat → α) (i : Nat) (δ : α) : Prop where
  sub : ∀ S, S < 2 ^ n → S.testBit i = false →
    |sub' (v (S ||| 2 ^ i)) (v S) - (v (S ||| 2 ^ i) - v S)| ≤ δ
  mul : ∀ S, S < 2 ^ n → S.testBit i = false →
    |mul' ((coef n (size S) : Nat) : α) (sub' (v (S ||| 2 ^ i)) (v S))
      - ((coef n (size S) : Nat) : α) * sub' (v (S ||| 2 ^ i)) (v S)| ≤ δ
  add : ∀ p ∈ sumOps add' 0 ((withoutList n i).map (termApprox sub' mul' n i v)),
    |add' p.1 p.2 - (p.1 + p.2)| ≤ δ
  div : |div' (numApprox add' sub' mul' n v i) (n.factorial : α)
      - numApprox add' sub' mul' n v i / (n.factorial : α)| ≤ δ

theorem OpsErr.of_forall {add' sub' mul' div' : α → α → α} {δ : α}
    (hadd : ∀ a b, |add' a b - (a + b)| ≤ δ) (hsub : ∀ a b, |sub' a b - (a - b)| ≤ δ)
    (hmul : ∀ a b, |mul' a b - a * b| ≤ δ) (hdiv : ∀ a b, |div' a b - a / b| ≤ δ)
    (n : Nat) (v : Nat → α) (i : Nat) : OpsErr add' sub' mul' div' n v i δ :=
  ⟨fun _ _ _ => hsub _ _, fun _ _ _ => hmul _ _, fun _ _ => hadd _ _, hdiv _ _⟩

/-- one rounded term against the exact one: `δ` for the product, `coef·δ` for the difference -/
theorem term_error {sub' mul' : α → α → α} {n i : Nat} {v : Nat → α} {δ : α} {S : Nat}
    (hsub : |sub' (v (S ||| 2 ^ i)) (v S) - (v (S ||| 2 ^ i) - v S)| ≤ δ)
    (hmul : |mul' ((coef n (size S) : Nat) : α) (sub' (v (S ||| 2 ^ i)) (v S))
      - ((coef n (size S) : Nat) : α) * sub' (v (S ||| 2 ^ i)) (v S)| ≤ δ) :
    |termApprox sub' mul' n i v S - ((coef n (size S) : Nat) : α) * (v (S ||| 2 ^ i) - v S)|
      ≤ δ + ((coef n (size S) : Nat) : α) * δ := by
  unfold termApprox
  have hc : (0 : α) ≤ ((coef n (size S) : Nat) : α) := Nat.cast_nonneg _
  have e : mul' ((coef n (size S) : Nat) : α) (sub' (v (S ||| 2 ^ i)) (v S))
        - ((coef n (size S) : Nat) : α) * (v (S ||| 2 ^ i) - v S)
      = (mul' ((coef n (size S) : Nat) : α) (sub' (v (S ||| 2 ^ i)) (v S))
          - ((coef n (size S) : Nat) : α) * sub' (v (S ||| 2 ^ i)) (v S))
        + ((coef n (size S) : Nat) : α)
          * (sub' (v (S ||| 2 ^ i)) (v S) - (v (S ||| 2 ^ i) - v S)) := by ring
  rw [e]
  refine (abs_add_le _ _).trans (add_le_add hmul ?_)
  rw [abs_mul, abs_of_nonneg hc]
  exact mul_le_mul_of_nonneg_left hsub hc

/-- the rounded numerator against the exact one: `(2^n + n!)·δ` -/
theorem numApprox_error_on {add' sub' mul' div' : α → α → α} {n i : Nat} (hi : i < n) {v : Nat → α}
    {δ : α} (h : OpsErr add' sub' mul' div' n v i δ) :
    |numApprox add' sub' mul' n v i
        - listSum ((withoutList n i).map (fun S => ((coef n (size S) : Nat) : α) * (v (S ||| 2 ^ i) - v S)))|
      ≤ ((2 : α) ^ n + (n.factorial : α)) * δ := by
  have hf := foldl_error (add' := add') (δ := δ) (termApprox sub' mul' n i v)
    (fun S => ((coef n (size S) : Nat) : α) * (v (S ||| 2 ^ i) - v S))
    (fun S => δ + ((coef n (size S) : Nat) : α) * δ) (withoutList n i) 0 0
    (fun S hS => term_error (h.sub S (mem_withoutList.mp hS).1 (mem_withoutList.mp hS).2)
      (h.mul S (mem_withoutList.mp hS).1 (mem_withoutList.mp hS).2))
    h.add
  have hsum : ((withoutList n i).map (fun S => δ + ((coef n (size S) : Nat) : α) * δ)).sum
      = ((withoutList n i).length : α) * δ + (n.factorial : α) * δ := by
    rw [← sum_coef_list (α := α) hi]
    generalize withoutList n i = L
    induction L with
    | nil => simp
    | cons a L ih =>
      simp only [List.map_cons, List.sum_cons, List.length_cons, Nat.cast_succ, ih]
      ring
  rw [hsum, length_withoutList hi, sub_self, abs_zero] at hf
  have h2 : ((2 ^ (n - 1) : Nat) : α) * 2 = (2 : α) ^ n := by
    obtain ⟨m, rfl⟩ : ∃ m, n = m + 1 := ⟨n - 1, by omega⟩
    simp only [Nat.add_sub_cancel]
    push_cast
    ring
  unfold numApprox sumApprox listSum
  calc _ ≤ _ := hf
    _ = ((2 : α) ^ n + (n.factorial : α)) * δ := by rw [← h2]; ring

/-- **the error of one rounded Shapley value**, hypotheses on the performed operations only -/
theorem phiApprox_error_on {add' sub' mul' div' : α → α → α} {n i : Nat} (hi : i < n) {v : Nat → α}
    {δ : α} (h : OpsErr add' sub' mul' div' n v i δ) :
    |phiApprox add' sub' mul' div' n v i - phi n v i| ≤ B n δ := by
  have hnum := numApprox_error_on hi h
  have hn : (0 : α) < (n.factorial : α) := by exact_mod_cast Nat.factorial_pos n
  rw [phi_eq_listSum]
  unfold phiApprox
  rw [fact_eq]
  set N := numApprox add' sub' mul' n v i
  set E := listSum ((withoutList n i).map (fun S => ((coef n (size S) : Nat) : α) * (v (S ||| 2 ^ i) - v S)))
  have e : div' N (n.factorial : α) - E / (n.factorial : α)
      = (div' N (n.factorial : α) - N / (n.factorial : α)) + (N - E) / (n.factorial : α) := by ring
  rw [e]
  refine (abs_add_le _ _).trans ?_
  have h1 := h.div
  have h2 : |(N - E) / (n.factorial : α)| ≤ ((2 : α) ^ n + (n.factorial : α)) * δ / (n.factorial : α) := by
    rw [abs_div, abs_of_pos hn]
    exact div_le_div_of_nonneg_right hnum hn.le
  have h3 : ((2 : α) ^ n + (n.factorial : α)) * δ / (n.factorial : α) = B n δ - δ := by
    unfold B
    field_simp
    ring
  linarith

end error

end ICG.ApproxShapley
