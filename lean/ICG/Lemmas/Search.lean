/-
  ICG.Lemmas.Search — lemmas about ICG.Model.Search shared by Props/C11, Props/C12 and
  Lemmas/ExpectedGreedy: the pool (any chunking = sequential map when tasks are state-free on an
  invariant), the real chunking is a partition, `itertools.combinations`, and what
  `set_known_values(full.get_values(ids), ids)` leaves in the table whatever it held before.
-/
import ICG.Model.Search
import Mathlib.Data.List.Sublists
import Mathlib.Data.List.Dedup

namespace ICG.Search
open ICG Table

/-! ### the pool -/
section pool
variable {σ τ ρ ε : Type}

/-- tasks (those satisfying `P`) whose outcome, on every state satisfying an invariant the tasks
    preserve, is a function `g` of the task alone -/
def StateFree (step : σ → τ → Except ε (σ × ρ)) (Inv : σ → Prop) (P : τ → Prop) (g : τ → Except ε ρ) : Prop :=
  ∀ s t, Inv s → P t →
    match step s t with
    | .ok (s', r) => Inv s' ∧ g t = .ok r
    | .error e => g t = .error e

theorem runChunk_of_stateFree {step : σ → τ → Except ε (σ × ρ)} {Inv : σ → Prop} {P : τ → Prop}
    {g : τ → Except ε ρ} (h : StateFree step Inv P g) :
    ∀ (ts : List τ) (s : σ), Inv s → (∀ t ∈ ts, P t) → runChunk step s ts = mapE g ts := by
  intro ts
  induction ts with
  | nil => intro s _ _; rfl
  | cons t ts ih =>
    intro s hs hP
    have := h s t hs (hP t List.mem_cons_self)
    simp only [runChunk, mapE]
    cases hst : step s t with
    | error e => rw [hst] at this; simp only at this; rw [this]
    | ok p =>
      obtain ⟨s', r⟩ := p
      rw [hst] at this
      simp only at this
      simp only [this.2, ih s' this.1 (fun t' ht' => hP t' (List.mem_cons_of_mem _ ht'))]

theorem mapE_append (g : τ → Except ε ρ) (a b : List τ) :
    mapE g (a ++ b) =
      match mapE g a with
      | .error e => .error e
      | .ok r => match mapE g b with
        | .error e => .error e
        | .ok rs => .ok (r ++ rs) := by
  induction a with
  | nil => simp only [List.nil_append, mapE]; cases mapE g b <;> rfl
  | cons t a ih =>
    simp only [List.cons_append, mapE, ih]
    cases g t with
    | error e => rfl
    | ok r =>
      cases mapE g a with
      | error e => rfl
      | ok ra => cases mapE g b <;> rfl

/-- **every chunking gives the sequential map** (quantifier over worker counts and chunk sizes). -/
theorem runPool_of_stateFree {step : σ → τ → Except ε (σ × ρ)} {Inv : σ → Prop} {P : τ → Prop}
    {g : τ → Except ε ρ} (h : StateFree step Inv P g) (snapshot : σ) (hs : Inv snapshot)
    (chunks : List (List τ)) (hP : ∀ t ∈ chunks.flatten, P t) :
    runPool step snapshot chunks = mapE g chunks.flatten := by
  induction chunks with
  | nil => rfl
  | cons c cs ih =>
    have h1 : ∀ t ∈ c, P t := fun t ht => hP t (by simp [ht])
    have h2 : ∀ t ∈ cs.flatten, P t := fun t ht => hP t (by
      simp only [List.flatten_cons, List.mem_append]; exact Or.inr ht)
    simp only [runPool, List.flatten_cons, mapE_append, runChunk_of_stateFree h c snapshot hs h1, ih h2]
    cases mapE g c with
    | error e => rfl
    | ok r => cases mapE g cs.flatten <;> rfl

/-- in particular two chunkings of the same task list agree -/
theorem runPool_chunking_irrelevant {step : σ → τ → Except ε (σ × ρ)} {Inv : σ → Prop} {P : τ → Prop}
    {g : τ → Except ε ρ} (h : StateFree step Inv P g) (snapshot : σ) (hs : Inv snapshot)
    (c1 c2 : List (List τ)) (hc : c1.flatten = c2.flatten) (hP : ∀ t ∈ c1.flatten, P t) :
    runPool step snapshot c1 = runPool step snapshot c2 := by
  rw [runPool_of_stateFree h snapshot hs c1 hP, runPool_of_stateFree h snapshot hs c2 (hc ▸ hP), hc]

theorem chunksGo_flatten (size : Nat) (hsize : 0 < size) :
    ∀ (fuel : Nat) (l : List τ), l.length ≤ fuel → (chunksGo size fuel l).flatten = l := by
  intro fuel
  induction fuel with
  | zero => intro l hl; simp only [Nat.le_zero, List.length_eq_zero_iff] at hl; subst hl; rfl
  | succ f ih =>
    intro l hl
    simp only [chunksGo]
    by_cases hnil : l = []
    · subst hnil; rfl
    · have h0 : (l.isEmpty || size == 0) = false := by
        simp only [Bool.or_eq_false_iff, List.isEmpty_eq_false_iff, beq_eq_false_iff_ne]
        exact ⟨hnil, by omega⟩
      rw [h0]
      simp only [Bool.false_eq_true, ↓reduceIte, List.flatten_cons]
      rw [ih (l.drop size)]
      · exact List.take_append_drop size l
      · have : 0 < l.length := List.length_pos_iff.mpr hnil
        simp only [List.length_drop]; omega

theorem chunkSize_pos {len procs : Nat} (hl : 0 < len) (hp : 0 < procs) : 0 < chunkSize len procs := by
  unfold chunkSize
  by_cases h : len % (4 * procs) = 0
  · have : 4 * procs ≤ len := Nat.le_of_dvd hl (Nat.dvd_of_mod_eq_zero h)
    have := Nat.div_pos this (by omega : 0 < 4 * procs)
    omega
  · simp [h]

/-- the chunks `Pool.starmap` really makes are a partition of the task list into consecutive blocks -/
theorem poolChunks_flatten (l : List τ) {procs : Nat} (hp : 0 < procs) : (poolChunks l procs).flatten = l := by
  unfold poolChunks chunksOf
  cases l with
  | nil => rfl
  | cons a l =>
    exact chunksGo_flatten _ (chunkSize_pos (by simp) hp) _ _ (Nat.le_refl _)

end pool

/-! ### itertools.combinations (lifted from probe P7) -/

theorem combos_perm_sublistsLen {β : Type} : ∀ (k : Nat) (l : List β), (combos k l).Perm (List.sublistsLen k l)
  | 0, l => by simp [combos]
  | k + 1, [] => by simp [combos]
  | k + 1, a :: l => by
    rw [combos, List.sublistsLen_succ_cons]
    exact (List.perm_append_comm).trans (List.Perm.append (combos_perm_sublistsLen (k + 1) l) ((combos_perm_sublistsLen k l).map _))

theorem nodup_combos {β : Type} {k : Nat} {l : List β} (h : l.Nodup) : (combos k l).Nodup :=
  (combos_perm_sublistsLen k l).nodup_iff.mpr (List.nodup_sublistsLen k h)

theorem mem_combos_iff {β : Type} {k : Nat} {l s : List β} : s ∈ combos k l ↔ s.Sublist l ∧ s.length = k :=
  (combos_perm_sublistsLen k l).mem_iff.trans List.mem_sublistsLen

/-! ### what `set_known_values(full.get_values(ids), ids)` writes -/
section apply
variable {α : Type} [Zero α]

/-- the table that knows exactly ∅ (value 0 unless listed) and the coalitions selected by `K`, each with
    its hidden value -/
def exactTable (n : Nat) (v : Nat → α) (K : Nat → Bool) : Table α :=
  { n := n, known := fun c => c == 0 || K c,
    lo := fun c => if K c then v c else 0, hi := fun c => if K c then v c else 0 }

omit [Zero α] in
theorem foldl_putValue (v : Nat → α) : ∀ (ids : List Nat) (t : Table α),
    ((ids.zip (ids.map v)).foldl (fun t (p : Nat × α) => t.putValue p.1 p.2) t) =
      { n := t.n, known := fun c => ids.contains c || t.known c,
        lo := fun c => if ids.contains c then v c else t.lo c,
        hi := fun c => if ids.contains c then v c else t.hi c } := by
  intro ids
  induction ids with
  | nil => intro t; simp
  | cons a ids ih =>
    intro t
    rw [List.map_cons, List.zip_cons_cons, List.foldl_cons, ih]
    simp only [putValue]
    congr 1
    · funext c
      by_cases h1 : c = a
      · subst h1; simp
      · simp [h1]
    · funext c
      by_cases h1 : c = a
      · subst h1; simp
      · simp [h1]
    · funext c
      by_cases h1 : c = a
      · subst h1; simp
      · simp [h1]

omit [Zero α] in
theorem setValues_some_ok (t0 : Table α) (v : Nat → α) (ids : List Nat) (h : ∀ c ∈ ids, c < t0.rows) :
    t0.setValues (ids.map v) (some ids) =
      .ok ((ids.zip (ids.map v)).foldl (fun t (p : Nat × α) => t.putValue p.1 p.2) t0) := by
  have hall : ids.all (fun x => decide (x < t0.rows)) = true :=
    List.all_eq_true.mpr (fun x hx => decide_eq_true (h x hx))
  simp only [setValues, fromiter, List.length_map, Nat.lt_irrefl, ↓reduceIte, List.take_length, bind,
    Except.bind, hall]

/-- **C08 for `set_known_values`**: whatever the scratch table held, afterwards it is `exactTable`. -/
theorem applyIds_ok (t : Table α) (v : Nat → α) (ids : List Nat) (h : ∀ c ∈ ids, c < 2 ^ t.n) :
    applyIds t v ids = .ok (exactTable t.n v (fun c => ids.contains c)) := by
  have hall : ids.all (fun x => decide (x < 2 ^ t.n)) = true :=
    List.all_eq_true.mpr (fun x hx => decide_eq_true (h x hx))
  have h' : ∀ c ∈ ids, c < (Table.init (α := α) t.n).rows := h
  simp only [applyIds, hiddenValues, hall, ↓reduceIte, setKnownValues]
  rw [setValues_some_ok _ v ids h']
  simp only [foldl_putValue, exactTable, Table.init]
  congr 2
  · funext c; exact Bool.or_comm _ _

theorem applyIds_err (t : Table α) (v : Nat → α) (ids : List Nat) (h : ¬ ∀ c ∈ ids, c < 2 ^ t.n) :
    applyIds t v ids = .error (.index, t) := by
  have hall : ids.all (fun x => decide (x < 2 ^ t.n)) = false := by
    rw [Bool.eq_false_iff]; intro hc; exact h (by simpa [List.all_eq_true] using hc)
  simp [applyIds, hiddenValues, hall]

/-- the table written depends on the *set* of ids only — not on their order or multiplicity (this is why
    the unspecified iteration order of the Python set in `apply_action_sequence` does not matter). -/
theorem applyIds_congr (t : Table α) (v : Nat → α) (ids ids' : List Nat) (h : ∀ c, c ∈ ids ↔ c ∈ ids') :
    applyIds t v ids = applyIds t v ids' := by
  by_cases hr : ∀ c ∈ ids, c < 2 ^ t.n
  · have hr' : ∀ c ∈ ids', c < 2 ^ t.n := fun c hc => hr c ((h c).mpr hc)
    rw [applyIds_ok t v ids hr, applyIds_ok t v ids' hr']
    congr 2
    funext c
    rw [Bool.eq_iff_iff]; simp [h c]
  · have hr' : ¬ ∀ c ∈ ids', c < 2 ^ t.n := fun hc => hr (fun c hc' => hc c ((h c).mp hc'))
    rw [applyIds_err t v ids hr, applyIds_err t v ids' hr']

theorem mem_seqIds (seq incl : List Nat) (c : Nat) : c ∈ seqIds seq incl ↔ c ∈ seq ∨ c ∈ incl := by
  unfold seqIds
  cases incl with
  | nil => simp
  | cons a incl => simp [List.mem_eraseDups]

end apply
end ICG.Search
