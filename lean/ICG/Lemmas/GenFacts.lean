/-
  ICG.Lemmas.GenFacts — (everything in namespace `ICG.Gen`) helper lemmas for C10 (generators): membership of players, the class of monotone
  subadditive "cost" functions whose negations are the SAM games, the update loop of `_apply_or`,
  pair sums of graph games, cardinalities of coverage unions.
-/
import ICG.Model.Generators
import ICG.Spec.Bounds
import ICG.Lemmas.NormFacts
import ICG.Lemmas.ListMax
import Mathlib.Algebra.Order.Ring.Defs
import Mathlib.Data.Finset.Card
import Mathlib.Data.Finset.Union

set_option linter.unusedSectionVars false

namespace ICG.Gen
open ICG ICG.Norm Finset

variable {α : Type}

/-! ### players of a mask -/

theorem hasPlayer_iff {c p : Nat} : hasPlayer c p = true ↔ c.testBit p = true := by
  unfold hasPlayer contains singleton
  simp only [beq_iff_eq]
  constructor
  · intro h
    have := congrArg (·.testBit p) h
    simpa using this
  · intro h
    rw [Nat.and_comm]; exact two_pow_sub_of_testBit h

theorem hasPlayer_eq_testBit (c p : Nat) : hasPlayer c p = c.testBit p := by
  cases h : c.testBit p
  · cases h' : hasPlayer c p
    · rfl
    · rw [hasPlayer_iff.mp h'] at h; cases h
  · exact hasPlayer_iff.mpr h

theorem testBit_disjoint {a b i : Nat} (h : a &&& b = 0) : ¬ (a.testBit i = true ∧ b.testBit i = true) := by
  intro ⟨ha, hb⟩
  have := congrArg (·.testBit i) h
  simp [ha, hb] at this

theorem sub_iff_testBit {x c : Nat} : x &&& c = x ↔ ∀ i, x.testBit i = true → c.testBit i = true :=
  ⟨fun h i hi => sub_testBit h i hi, sub_of_testBit⟩

/-! ### cost functions: `u ∅ = 0`, subadditive, monotone non-decreasing; their negations are the SAM games -/

section cost
variable [Add α] [Zero α] [LE α]

/-- superadditive, monotone non-increasing, zero at ∅ -/
def SAM0 (n : Nat) (v : Nat → α) : Prop := SA n v ∧ MonoDec n v ∧ v 0 = 0

/-- zero at ∅, subadditive on disjoint coalitions, monotone non-decreasing -/
structure Cost (n : Nat) (u : Nat → α) : Prop where
  zero : u 0 = 0
  subadd : ∀ a b, a < 2 ^ n → b < 2 ^ n → a &&& b = 0 → u (a ||| b) ≤ u a + u b
  mono : ∀ x c, c < 2 ^ n → x &&& c = x → u x ≤ u c
end cost

section costfacts
variable [CommRing α] [LinearOrder α] [IsStrictOrderedRing α]

theorem Cost.nonneg {n : Nat} {u : Nat → α} (h : Cost n u) {c : Nat} (hc : c < 2 ^ n) : 0 ≤ u c := by
  have := h.mono 0 c hc (by simp)
  rwa [h.zero] at this

/-- the negation of a cost function is superadditive, monotone non-increasing and 0 at ∅ -/
theorem Cost.neg_SAM0 {n : Nat} {u : Nat → α} (h : Cost n u) : SAM0 n (fun c => - u c) := by
  refine ⟨?_, ?_, ?_⟩
  · intro a b ha hb hab
    have := h.subadd a b ha hb hab
    show - u a + - u b ≤ - u (a ||| b)
    linarith
  · intro x c hc hx
    have := h.mono x c hc hx
    show - u c ≤ - u x
    linarith
  · show - u 0 = 0
    rw [h.zero, neg_zero]

end costfacts

/-! ### `Except` plumbing -/

theorem mapM_ok_mem {β γ : Type} (f : β → Except Err γ) :
    ∀ (l : List β) (l' : List γ), l.mapM f = .ok l' → ∀ y ∈ l', ∃ x ∈ l, f x = .ok y := by
  intro l
  induction l with
  | nil =>
    intro l' h y hy
    simp [pure, Except.pure] at h
    subst h; simp at hy
  | cons a l ih =>
    intro l' h y hy
    rw [List.mapM_cons] at h
    cases hfa : f a with
    | error e => rw [hfa] at h; simp [bind, Except.bind] at h
    | ok b =>
      rw [hfa] at h
      cases hl : l.mapM f with
      | error e => rw [hl] at h; simp [bind, Except.bind] at h
      | ok bs =>
        rw [hl] at h
        simp [bind, Except.bind, pure, Except.pure] at h
        subst h
        rcases List.mem_cons.mp hy with rfl | hy
        · exact ⟨a, by simp, hfa⟩
        · obtain ⟨x, hx, hfx⟩ := ih bs hl y hy
          exact ⟨x, by simp [hx], hfx⟩

/-! ### pair sums of graph games -/

section pairsum
variable [AddCommMonoid α]

/-- the sum the code forms over `combinations(players, 2)` as a double sum over the members -/
theorem listSum_pairs (f : Nat → Nat → α) : ∀ (l : List Nat), l.Pairwise (· < ·) →
    listSum ((pairs l).map (fun p => f p.1 p.2)) =
      ∑ i ∈ l.toFinset, ∑ j ∈ l.toFinset, if i < j then f i j else 0 := by
  intro l
  induction l with
  | nil => intro _; simp [pairs, listSum]
  | cons a l ih =>
    intro hl
    rw [List.pairwise_cons] at hl
    have hnd : l.Nodup := hl.2.imp (fun h => Nat.ne_of_lt h)
    have hal : a ∉ l.toFinset := by
      rw [List.mem_toFinset]; intro h; exact Nat.lt_irrefl _ (hl.1 a h)
    have ih' := ih hl.2
    rw [listSum_eq_sum] at ih' ⊢
    simp only [pairs, List.map_append, List.map_map, List.sum_append, Function.comp_def]
    rw [ih', List.toFinset_cons, Finset.sum_insert hal, Finset.sum_insert hal]
    have h1 : (List.map (fun b => f a b) l).sum = ∑ j ∈ l.toFinset, if a < j then f a j else 0 := by
      rw [← List.sum_toFinset _ hnd]
      apply Finset.sum_congr rfl
      intro j hj
      rw [if_pos (hl.1 j (List.mem_toFinset.mp hj))]
    have h2 : ∀ i ∈ l.toFinset, (∑ j ∈ insert a l.toFinset, if i < j then f i j else 0) =
        ∑ j ∈ l.toFinset, if i < j then f i j else 0 := by
      intro i hi
      rw [Finset.sum_insert hal]
      have : ¬ i < a := Nat.not_lt.mpr (Nat.le_of_lt (hl.1 i (List.mem_toFinset.mp hi)))
      rw [if_neg this, zero_add]
    rw [h1, Finset.sum_congr rfl h2]
    simp
end pairsum

theorem players_toFinset_or {a b : Nat} (h : a &&& b = 0) :
    (players (a ||| b)).toFinset = (players a).toFinset ∪ (players b).toFinset ∧
      Disjoint (players a).toFinset (players b).toFinset := by
  constructor
  · ext i
    simp only [List.mem_toFinset, mem_players, Finset.mem_union, Nat.testBit_or, Bool.or_eq_true]
  · rw [Finset.disjoint_left]
    intro i hi hj
    rw [List.mem_toFinset, mem_players] at hi hj
    exact testBit_disjoint h ⟨hi, hj⟩

/-- a non-negative double sum over a disjoint union dominates the two parts -/
theorem dsum_union_ge [AddCommMonoid α] [PartialOrder α] [IsOrderedAddMonoid α] {A B : Finset Nat}
    (hd : Disjoint A B) (g : Nat → Nat → α) (hg : ∀ i ∈ A ∪ B, ∀ j ∈ A ∪ B, 0 ≤ g i j) :
    (∑ i ∈ A, ∑ j ∈ A, g i j) + (∑ i ∈ B, ∑ j ∈ B, g i j) ≤ ∑ i ∈ A ∪ B, ∑ j ∈ A ∪ B, g i j := by
  rw [Finset.sum_union hd]
  apply add_le_add
  · apply Finset.sum_le_sum
    intro i hi
    apply Finset.sum_le_sum_of_subset_of_nonneg Finset.subset_union_left
    intro j hj _
    exact hg i (Finset.mem_union_left _ hi) j hj
  · apply Finset.sum_le_sum
    intro i hi
    apply Finset.sum_le_sum_of_subset_of_nonneg Finset.subset_union_right
    intro j hj _
    exact hg i (Finset.mem_union_right _ hi) j hj

/-! ### the update loop of `_apply_or` -/

section orloop
variable [Add α] [LinearOrder α]

/-- after the loop over a list of pairs, every entry is a lower bound of its initial value and of every candidate
    written to it, and is attained by one of them -/
theorem orLoop_spec (v1 v2 : Nat → α) : ∀ (P : List (Nat × Nat)) (x0 : Nat → α) (d : Nat),
    let X := P.foldl (fun x p => orUpdate v1 v2 x p.1 p.2) x0
    (X d ≤ x0 d ∧ ∀ p ∈ P, p.1 ||| p.2 = d → X d ≤ v1 p.1 + v2 p.2) ∧
    (X d = x0 d ∨ ∃ p ∈ P, p.1 ||| p.2 = d ∧ X d = v1 p.1 + v2 p.2) := by
  intro P
  induction P with
  | nil => intro x0 d; simp
  | cons q P ih =>
    intro x0 d
    simp only [List.foldl_cons]
    obtain ⟨⟨h1, h2⟩, h3⟩ := ih (orUpdate v1 v2 x0 q.1 q.2) d
    have hx : orUpdate v1 v2 x0 q.1 q.2 d =
        if d = q.1 ||| q.2 then min (v1 q.1 + v2 q.2) (x0 (q.1 ||| q.2)) else x0 d := rfl
    refine ⟨⟨?_, ?_⟩, ?_⟩
    · apply le_trans h1
      rw [hx]
      split
      · next h => rw [h]; exact min_le_right _ _
      · exact le_refl _
    · intro p hp hd
      rcases List.mem_cons.mp hp with rfl | hp
      · apply le_trans h1
        rw [hx, if_pos hd.symm]
        exact min_le_left _ _
      · exact h2 p hp hd
    · rcases h3 with h3 | ⟨p, hp, hd, he⟩
      · rw [h3, hx]
        split
        · next h =>
          rcases min_choice (v1 q.1 + v2 q.2) (x0 (q.1 ||| q.2)) with hm | hm
          · right; exact ⟨q, by simp, h.symm, by rw [hm]⟩
          · left; rw [hm, h]
        · left; rfl
      · right; exact ⟨p, by simp [hp], hd, he⟩

theorem mem_orPairs {n : Nat} {p : Nat × Nat} :
    p ∈ orPairs n ↔ p.1 < 2 ^ n ∧ p.2 < 2 ^ n ∧ p.1 &&& p.2 = 0 := by
  simp only [orPairs, allCoalitions, List.mem_flatMap, List.mem_range, List.mem_map, List.mem_filter,
    disjoint, beq_iff_eq]
  constructor
  · rintro ⟨S, hS, T, ⟨hT, hd⟩, rfl⟩
    exact ⟨hS, hT, hd⟩
  · rintro ⟨h1, h2, h3⟩
    exact ⟨p.1, h1, p.2, ⟨h2, h3⟩, rfl⟩

end orloop

/-! ### coverage unions -/

/-- the elements covered by the members of `c` -/
def coverFinset (sets : Nat → List Nat) (c : Nat) : Finset Nat :=
  (players c).toFinset.biUnion (fun i => (sets i).toFinset)

theorem coverUnion_fold (sets : Nat → List Nat) : ∀ (l : List Nat) (u : List Nat), u.Nodup →
    (l.foldl (fun u i => (u ++ sets i).eraseDups) u).Nodup ∧
      ∀ x, x ∈ l.foldl (fun u i => (u ++ sets i).eraseDups) u ↔ x ∈ u ∨ ∃ i ∈ l, x ∈ sets i := by
  intro l
  induction l with
  | nil => intro u hu; simp [hu]
  | cons a l ih =>
    intro u _
    simp only [List.foldl_cons]
    obtain ⟨h1, h2⟩ := ih ((u ++ sets a).eraseDups) (nodup_eraseDups _)
    refine ⟨h1, ?_⟩
    intro x
    rw [h2 x, List.mem_eraseDups, List.mem_append]
    constructor
    · rintro ((h | h) | ⟨i, hi, hx⟩)
      · exact Or.inl h
      · exact Or.inr ⟨a, by simp, h⟩
      · exact Or.inr ⟨i, by simp [hi], hx⟩
    · rintro (h | ⟨i, hi, hx⟩)
      · exact Or.inl (Or.inl h)
      · rcases List.mem_cons.mp hi with rfl | hi
        · exact Or.inl (Or.inr hx)
        · exact Or.inr ⟨i, hi, hx⟩

theorem coverUnion_length (sets : Nat → List Nat) (c : Nat) :
    (coverUnion sets c).length = (coverFinset sets c).card := by
  obtain ⟨h1, h2⟩ := coverUnion_fold sets (players c) [] List.nodup_nil
  unfold coverUnion coverFinset
  rw [← List.toFinset_card_of_nodup h1]
  congr 1
  ext x
  rw [List.mem_toFinset, h2 x]
  simp

theorem coverFinset_or (sets : Nat → List Nat) (a b : Nat) :
    coverFinset sets (a ||| b) = coverFinset sets a ∪ coverFinset sets b := by
  ext x
  simp only [coverFinset, Finset.mem_biUnion, List.mem_toFinset, mem_players, Finset.mem_union,
    Nat.testBit_or, Bool.or_eq_true]
  constructor
  · rintro ⟨i, hi | hi, hx⟩
    · exact Or.inl ⟨i, hi, hx⟩
    · exact Or.inr ⟨i, hi, hx⟩
  · rintro (⟨i, hi, hx⟩ | ⟨i, hi, hx⟩)
    · exact ⟨i, Or.inl hi, hx⟩
    · exact ⟨i, Or.inr hi, hx⟩

theorem coverFinset_mono (sets : Nat → List Nat) {x c : Nat} (h : x &&& c = x) :
    coverFinset sets x ⊆ coverFinset sets c := by
  intro y
  simp only [coverFinset, Finset.mem_biUnion, List.mem_toFinset, mem_players]
  rintro ⟨i, hi, hy⟩
  exact ⟨i, sub_testBit h i hi, hy⟩

theorem mapM_ok_of_forall {β γ : Type} (f : β → Except Err γ) :
    ∀ (l : List β), (∀ x ∈ l, ∃ y, f x = .ok y) → ∃ l', l.mapM f = .ok l' ∧ l'.length = l.length := by
  intro l
  induction l with
  | nil => intro _; exact ⟨[], rfl, rfl⟩
  | cons a l ih =>
    intro h
    obtain ⟨b, hb⟩ := h a (by simp)
    obtain ⟨bs, hbs, hlen⟩ := ih (fun x hx => h x (by simp [hx]))
    refine ⟨b :: bs, ?_, by simp [hlen]⟩
    rw [List.mapM_cons, hb, hbs]
    rfl

theorem bind_eq_ok {ε β γ : Type} {x : Except ε β} {f : β → Except ε γ} {b : γ} (h : x >>= f = .ok b) :
    ∃ a, x = .ok a ∧ f a = .ok b := by
  cases x with
  | error e => simp [bind, Except.bind] at h
  | ok a => exact ⟨a, rfl, h⟩

/-! ### splitting a disjoint pair along a disjoint union -/

section split
variable {S T a b x c : Nat}

theorem split_or_left (hd : S ||| T = a ||| b) (hab : a &&& b = 0) : (S &&& a) ||| (T &&& a) = a := by
  apply Nat.eq_of_testBit_eq; intro i
  have e1 := congrArg (·.testBit i) hd
  have e2 := congrArg (·.testBit i) hab
  simp only [Nat.testBit_or, Nat.testBit_and, Nat.zero_testBit] at e1 e2 ⊢
  cases hS : S.testBit i <;> cases hT : T.testBit i <;> cases ha : a.testBit i <;> cases hb : b.testBit i <;>
    simp_all

theorem split_and_left (hst : S &&& T = 0) : (S &&& a) &&& (T &&& a) = 0 := by
  apply Nat.eq_of_testBit_eq; intro i
  have e1 := congrArg (·.testBit i) hst
  simp only [Nat.testBit_and, Nat.zero_testBit] at e1 ⊢
  cases hS : S.testBit i <;> cases hT : T.testBit i <;> cases ha : a.testBit i <;> simp_all

theorem split_or_self (hd : S ||| T = a ||| b) : (S &&& a) ||| (S &&& b) = S := by
  apply Nat.eq_of_testBit_eq; intro i
  have e1 := congrArg (·.testBit i) hd
  simp only [Nat.testBit_or, Nat.testBit_and] at e1 ⊢
  cases hS : S.testBit i <;> cases hT : T.testBit i <;> cases ha : a.testBit i <;> cases hb : b.testBit i <;>
    simp_all

theorem split_or_self' (hd : S ||| T = a ||| b) : (T &&& a) ||| (T &&& b) = T := by
  rw [Nat.or_comm S T] at hd; exact split_or_self hd

theorem split_and_self (hab : a &&& b = 0) : (S &&& a) &&& (S &&& b) = 0 := by
  apply Nat.eq_of_testBit_eq; intro i
  have e2 := congrArg (·.testBit i) hab
  simp only [Nat.testBit_and, Nat.zero_testBit] at e2 ⊢
  cases hS : S.testBit i <;> cases ha : a.testBit i <;> cases hb : b.testBit i <;> simp_all

theorem and_lt_two_pow_left {n : Nat} (S : Nat) (ha : a < 2 ^ n) : S &&& a < 2 ^ n :=
  Nat.lt_of_le_of_lt Nat.and_le_right ha

/-- extending the second part of a disjoint pair to a superset of the union -/
theorem extend_or (hd : S ||| T = x) (hx : x &&& c = x) : S ||| (T ||| (c ^^^ x)) = c := by
  subst hd
  apply Nat.eq_of_testBit_eq; intro i
  have e1 := congrArg (·.testBit i) hx
  simp only [Nat.testBit_or, Nat.testBit_and, Nat.testBit_xor] at e1 ⊢
  cases hS : S.testBit i <;> cases hT : T.testBit i <;> cases hc : c.testBit i <;> simp_all

theorem extend_and (hd : S ||| T = x) (hst : S &&& T = 0) (hx : x &&& c = x) : S &&& (T ||| (c ^^^ x)) = 0 := by
  subst hd
  apply Nat.eq_of_testBit_eq; intro i
  have e1 := congrArg (·.testBit i) hst
  have e2 := congrArg (·.testBit i) hx
  simp only [Nat.testBit_or, Nat.testBit_and, Nat.testBit_xor, Nat.zero_testBit] at e1 e2 ⊢
  cases hS : S.testBit i <;> cases hT : T.testBit i <;> cases hc : c.testBit i <;> simp_all

theorem extend_sub : T &&& (T ||| (c ^^^ x)) = T := by
  apply Nat.eq_of_testBit_eq; intro i
  simp only [Nat.testBit_or, Nat.testBit_and, Nat.testBit_xor]
  cases hT : T.testBit i <;> simp

theorem or_eq_zero_left (h : S ||| T = 0) : S = 0 ∧ T = 0 := by
  constructor
  · apply Nat.eq_of_testBit_eq; intro i
    have e := congrArg (·.testBit i) h
    simp only [Nat.testBit_or, Nat.zero_testBit, Bool.or_eq_false_iff] at e ⊢
    exact e.1
  · apply Nat.eq_of_testBit_eq; intro i
    have e := congrArg (·.testBit i) h
    simp only [Nat.testBit_or, Nat.zero_testBit, Bool.or_eq_false_iff] at e ⊢
    exact e.2

end split

end ICG.Gen
