/-
  ICG.Lemmas.EnvUndo — the environment-level undo clause of C08 (core Lean only).

  Hypotheses on the parameters (stated here once, used by Props/C08, C09, C13, C16):
    `ComputeOK compute`      the computer keeps `n`, the known flags and the rows of known coalitions
    `KnowledgeOnly compute`  tables holding the same knowledge (same `n`, same known flags, same values on
                             known rows, known rows exact) are computed to row-wise equal tables
                             (proved for the real computers in Props/C08: `C08_knowledge_only`)
    `RowsOnly gap`           the gap function reads rows `< 2^n` only
  Result (`env_undo`): from a state whose bounds are fresh, `unstep a (step a e)` restores every table row
  `< 2^n`, the known flags, the step counter, mask, observation, `done` and the reward.
-/
import ICG.Lemmas.EnvBasic
namespace ICG.Env
open ICG Table

variable {α : Type}

/-- known rows are exact (`Inv` of DESIGN.md: known ⇒ lower = upper) -/
def Exact (t : Table α) : Prop := ∀ c, t.known c = true → t.lo c = t.hi c

/-- what the environment relies on about a bound computer — nothing more: on a table whose known rows are
    exact it keeps `n`, the known flags and the rows of known coalitions -/
structure ComputeOK (compute : Table α → Except Err (Table α)) : Prop where
  n : ∀ {t t' : Table α}, Exact t → compute t = .ok t' → t'.n = t.n
  known : ∀ {t t' : Table α}, Exact t → compute t = .ok t' → ∀ c, t'.known c = t.known c
  vals : ∀ {t t' : Table α}, Exact t → compute t = .ok t' →
    ∀ c, t.known c = true → t'.lo c = t.lo c ∧ t'.hi c = t.hi c

/-- the two tables hold the same knowledge: same size, same known flags, same values on known rows -/
def SameKnowledge (t1 t2 : Table α) : Prop :=
  t1.n = t2.n ∧ (∀ c, t1.known c = t2.known c) ∧
    ∀ c, t1.known c = true → t1.lo c = t2.lo c ∧ t1.hi c = t2.hi c

/-- same size, same known flags, equal bounds on all rows `< 2^n` -/
def SameRows (t1 t2 : Table α) : Prop :=
  t1.n = t2.n ∧ (∀ c, t1.known c = t2.known c) ∧
    ∀ c, c < 2 ^ t1.n → t1.lo c = t2.lo c ∧ t1.hi c = t2.hi c

/-- the computer's result depends on the knowledge only -/
structure KnowledgeOnly (compute : Table α → Except Err (Table α)) : Prop where
  rows : ∀ {t1 t2 r1 r2 : Table α}, SameKnowledge t1 t2 → Exact t1 → Exact t2 →
    compute t1 = .ok r1 → compute t2 = .ok r2 → ∀ c, c < 2 ^ t1.n → r1.lo c = r2.lo c ∧ r1.hi c = r2.hi c

/-- the gap function reads the rows of the table only -/
structure RowsOnly (gap : Table α → Except Err α) : Prop where
  congr : ∀ {t1 t2 : Table α}, SameRows t1 t2 → gap t1 = gap t2

/-- the table is the result of a computation from a table holding the same knowledge ("bounds are fresh") -/
def Fresh (compute : Table α → Except Err (Table α)) (t : Table α) : Prop :=
  ∃ t0, SameKnowledge t0 t ∧ Exact t0 ∧ compute t0 = .ok t

/-- the environments agree in everything observable: all fields, and the table on its rows -/
def EnvEq (e1 e2 : Env α) : Prop :=
  e1.full = e2.full ∧ e1.norm = e2.norm ∧ SameRows e1.table e2.table ∧ e1.steps = e2.steps ∧
    e1.budget = e2.budget ∧ e1.initiallyKnown = e2.initiallyKnown ∧ e1.explorable = e2.explorable

theorem SameKnowledge.refl (t : Table α) : SameKnowledge t t := ⟨rfl, fun _ => rfl, fun _ _ => ⟨rfl, rfl⟩⟩

theorem SameKnowledge.symm {t1 t2 : Table α} (h : SameKnowledge t1 t2) : SameKnowledge t2 t1 :=
  ⟨h.1.symm, fun c => (h.2.1 c).symm, fun c hc =>
    have := h.2.2 c (by rw [h.2.1 c]; exact hc)
    ⟨this.1.symm, this.2.symm⟩⟩

theorem SameKnowledge.trans {t1 t2 t3 : Table α} (h : SameKnowledge t1 t2) (h' : SameKnowledge t2 t3) :
    SameKnowledge t1 t3 :=
  ⟨h.1.trans h'.1, fun c => (h.2.1 c).trans (h'.2.1 c), fun c hc =>
    have a := h.2.2 c hc
    have b := h'.2.2 c (by rw [← h.2.1 c]; exact hc)
    ⟨a.1.trans b.1, a.2.trans b.2⟩⟩

theorem SameRows.refl (t : Table α) : SameRows t t := ⟨rfl, fun _ => rfl, fun _ _ => ⟨rfl, rfl⟩⟩

theorem SameRows.symm {t1 t2 : Table α} (h : SameRows t1 t2) : SameRows t2 t1 :=
  ⟨h.1.symm, fun c => (h.2.1 c).symm, fun c hc =>
    have := h.2.2 c (by rw [h.1]; exact hc)
    ⟨this.1.symm, this.2.symm⟩⟩

theorem SameRows.trans {t1 t2 t3 : Table α} (h : SameRows t1 t2) (h' : SameRows t2 t3) : SameRows t1 t3 :=
  ⟨h.1.trans h'.1, fun c => (h.2.1 c).trans (h'.2.1 c), fun c hc =>
    have a := h.2.2 c hc
    have b := h'.2.2 c (by rw [← h.1]; exact hc)
    ⟨a.1.trans b.1, a.2.trans b.2⟩⟩

theorem EnvEq.refl (e : Env α) : EnvEq e e := ⟨rfl, rfl, SameRows.refl _, rfl, rfl, rfl, rfl⟩

theorem EnvEq.symm {e1 e2 : Env α} (h : EnvEq e1 e2) : EnvEq e2 e1 :=
  ⟨h.1.symm, h.2.1.symm, h.2.2.1.symm, h.2.2.2.1.symm, h.2.2.2.2.1.symm, h.2.2.2.2.2.1.symm, h.2.2.2.2.2.2.symm⟩

theorem EnvEq.trans {e1 e2 e3 : Env α} (h : EnvEq e1 e2) (h' : EnvEq e2 e3) : EnvEq e1 e3 :=
  ⟨h.1.trans h'.1, h.2.1.trans h'.2.1, h.2.2.1.trans h'.2.2.1, h.2.2.2.1.trans h'.2.2.2.1,
    h.2.2.2.2.1.trans h'.2.2.2.2.1, h.2.2.2.2.2.1.trans h'.2.2.2.2.2.1, h.2.2.2.2.2.2.trans h'.2.2.2.2.2.2⟩

/-- a computed table is exact on its known rows when its source was -/
theorem exact_of_compute {compute : Table α → Except Err (Table α)} (hok : ComputeOK compute)
    {t t' : Table α} (hex : Exact t) (h : compute t = .ok t') : Exact t' := by
  intro c hc
  have hk : t.known c = true := by rw [← hok.known hex h c]; exact hc
  have := hok.vals hex h c hk
  rw [this.1, this.2]
  exact hex c hk

theorem sameKnowledge_of_compute {compute : Table α → Except Err (Table α)} (hok : ComputeOK compute)
    {t t' : Table α} (hex : Exact t) (h : compute t = .ok t') : SameKnowledge t t' :=
  ⟨(hok.n hex h).symm, fun c => (hok.known hex h c).symm, fun c hc =>
    have := hok.vals hex h c hc
    ⟨this.1.symm, this.2.symm⟩⟩

theorem Fresh.exact {compute : Table α → Except Err (Table α)} (hok : ComputeOK compute) {t : Table α}
    (h : Fresh compute t) : Exact t := by
  obtain ⟨t0, _, hex, hc⟩ := h
  exact exact_of_compute hok hex hc

/-! ### observables only depend on the rows -/

theorem actionMasks_congr {e1 e2 : Env α} (h : EnvEq e1 e2) : e1.actionMasks = e2.actionMasks := by
  obtain ⟨_, _, ⟨_, hk, _⟩, _, _, _, hex⟩ := h
  simp only [actionMasks, hex]
  exact List.map_congr_left (fun c _ => by rw [hk c])

theorem state_congr [Zero α] {e1 e2 : Env α} (h : EnvEq e1 e2) : e1.state = e2.state := by
  obtain ⟨_, hn, ⟨_, hk, _⟩, _, _, _, hex⟩ := h
  simp only [state, hex, hn]
  exact List.map_congr_left (fun c _ => by rw [hk c])

theorem allDegenerate_congr [Sub α] [Zero α] [DecidableEq α] {t1 t2 : Table α} (h : SameRows t1 t2) :
    allDegenerate t1 = allDegenerate t2 := by
  obtain ⟨hn, _, hr⟩ := h
  rw [Bool.eq_iff_iff]
  simp only [allDegenerate, List.all_eq_true, List.mem_range, decide_eq_true_eq, Table.rows]
  constructor
  · intro h c hc
    have hc' : c < 2 ^ t1.n := by rw [hn]; exact hc
    have := hr c hc'
    rw [← this.1, ← this.2]; exact h c hc'
  · intro h c hc
    have := hr c hc
    rw [this.1, this.2]; exact h c (by rw [← hn]; exact hc)

theorem done_congr [Sub α] [Zero α] [DecidableEq α] {e1 e2 : Env α} (h : EnvEq e1 e2) : e1.done = e2.done := by
  have hm := actionMasks_congr h
  obtain ⟨_, _, hr, hs, hb, _, _⟩ := h
  simp only [done, hm, hb, hs, allDegenerate_congr hr]

theorem reward_congr [Neg α] {gap : Table α → Except Err α} (hg : RowsOnly gap) {e1 e2 : Env α}
    (h : EnvEq e1 e2) : e1.reward gap = e2.reward gap := by
  simp only [reward, hg.congr h.2.2.1]

theorem validActions_congr {e1 e2 : Env α} (h : EnvEq e1 e2) : e1.validActions = e2.validActions := by
  obtain ⟨_, _, ⟨_, hk, _⟩, _, _, _, hex⟩ := h
  simp only [validActions, hex]
  apply List.filter_congr
  intro i _
  cases e2.explorable[i]? with
  | none => rfl
  | some c => simp only [hk c]

/-! ### undo -/

section undo
variable [Zero α] [Neg α] [Sub α] [DecidableEq α]
variable {compute : Table α → Except Err (Table α)} {gap : Table α → Except Err α}

omit [Neg α] [Sub α] [DecidableEq α] in
/-- the table reached by reveal → compute → un-reveal → compute holds the knowledge it started with -/
theorem roundtrip_knowledge (hok : ComputeOK compute) {t t2 : Table α} {c : Nat} {v : α}
    (hex : Exact t) (hk : t.known c = false) (h1 : compute (t.putValue c v) = .ok t2) :
    SameKnowledge (t2.clearRow c) t := by
  have hexp : Exact (t.putValue c v) := by
    intro d hd
    by_cases hdc : d = c
    · subst hdc; simp [putValue]
    · have hd' : t.known d = true := by simpa [putValue, hdc] using hd
      simp only [putValue, hdc, if_false]
      exact hex d hd'
  refine ⟨?_, ?_, ?_⟩
  · show t2.n = t.n
    rw [hok.n hexp h1]; rfl
  · intro d
    show (if d = c then false else t2.known d) = t.known d
    by_cases hd : d = c
    · subst hd; simp [hk]
    · simp only [hd, if_false]
      rw [hok.known hexp h1 d]
      simp [putValue, hd]
  · intro d hd
    have hdc : d ≠ c := by
      intro h
      subst h
      simp [clearRow] at hd
    have hk2 : t2.known d = true := by simpa [clearRow, hdc] using hd
    have hk1 : (t.putValue c v).known d = true := by rw [← hok.known hexp h1 d]; exact hk2
    have := hok.vals hexp h1 d hk1
    simp only [clearRow, hdc, if_false]
    rw [this.1, this.2]
    simp [putValue, hdc]

/-- **C08, environment clause.** From a state whose bounds are fresh, revealing a coalition and then
    un-revealing it (recomputing each time) restores the table rows, the counter and everything observable. -/
theorem env_undo (hok : ComputeOK compute) (hko : KnowledgeOnly compute)
    {e e1 e2 : Env α} {a : Nat} {o1 o2 : StepOut α} (hfresh : Fresh compute e.table)
    (h1 : step compute gap e a = .ok (e1, o1)) (h2 : unstep compute gap e1 a = .ok (e2, o2)) :
    EnvEq e2 e ∧ e2.actionMasks = e.actionMasks ∧ e2.state = e.state ∧ e2.done = e.done ∧
      o2.obs = e.state ∧ o2.done = e.done ∧ o2.chosen = o1.chosen ∧
      (RowsOnly gap → e.reward gap = .ok o2.reward) := by
  obtain ⟨c, t2, g1, hc, hlt, hk, hcomp1, hg1, he1, ho1⟩ := step_inv compute gap h1
  obtain ⟨c', t4, g2, hc', hlt', hk', hcomp2, hg2, he2, ho2⟩ := unstep_inv compute gap h2
  subst he1
  have hcc : c' = c := by
    have : (stepped e t2).explorable = e.explorable := rfl
    rw [this, hc] at hc'
    exact (Option.some.inj hc').symm
  subst hcc
  have ht : (stepped e t2).table = t2 := rfl
  rw [ht] at hcomp2
  -- the un-revealed table holds the original knowledge
  obtain ⟨t0, hsk0, hex0, hcomp0⟩ := hfresh
  have hexe : Exact e.table := exact_of_compute hok hex0 hcomp0
  have hsk : SameKnowledge (t2.clearRow c') e.table := roundtrip_knowledge hok hexe hk hcomp1
  have hex3 : Exact (t2.clearRow c') := by
    intro d hd
    have hd' : e.table.known d = true := by rw [← hsk.2.1 d]; exact hd
    have := hsk.2.2 d hd
    rw [this.1, this.2]; exact hexe d hd'
  have hsk' : SameKnowledge (t2.clearRow c') t0 := hsk.trans hsk0.symm
  have hrows := hko.rows hsk' hex3 hex0 hcomp2 hcomp0
  have hn4 : t4.n = e.table.n := by rw [hok.n hex3 hcomp2]; exact hsk.1
  have hsr : SameRows t4 e.table := by
    refine ⟨hn4, fun d => ?_, fun d hd => ?_⟩
    · rw [hok.known hex3 hcomp2 d]; exact hsk.2.1 d
    · apply hrows d
      have : (t2.clearRow c').n = t4.n := (hok.n hex3 hcomp2).symm
      rw [this]; exact hd
  have heq : EnvEq e2 e := by
    subst he2
    refine ⟨rfl, rfl, hsr, ?_, rfl, rfl, rfl⟩
    show e.steps + 1 - 1 = e.steps
    omega
  have hobs : o2.obs = e2.state := by rw [ho2, he2]; rfl
  have hdone : o2.done = e2.done := by rw [ho2, he2]; rfl
  refine ⟨heq, actionMasks_congr heq, state_congr heq, done_congr heq, ?_, ?_, ?_, ?_⟩
  · rw [hobs]; exact state_congr heq
  · rw [hdone]; exact done_congr heq
  · rw [ho2, ho1]; rfl
  · intro hg
    rw [← reward_congr hg heq, he2, ho2]
    simp only [reward, unstepped, outOf]
    have : gap t4 = .ok g2 := hg2
    rw [this]

end undo
end ICG.Env
