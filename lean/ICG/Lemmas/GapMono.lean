/-
  ICG.Lemmas.GapMono — the gap-function part of property C07:

  "each offered gap function — exploitability and the l1, l2 and l-infinity norms of the vector of
   interval widths — is non-increasing [when intervals shrink row-wise], is never negative, and is zero
   once every value is revealed".

  About ICG.Model.Shapley (`l1`, `linf`, `l2sq`, `Table.exploitability`).  `l2_norm` of the code is
  `sqrt(l2sq)`; the model and these theorems stop at the square (monotonicity of the correctly rounded
  square root is the one trusted step, see DESIGN 5/C07).

  `Nested n lo hi lo' hi'` : on every coalition of the `n`-player game `lo ≤ lo' ≤ hi' ≤ hi`.
  Exploitability needs, for both tables, the side conditions of C05: grand coalition known and
  upper(∅) = 0.
-/
import ICG.Props.C05
import ICG.Lemmas.ListMax
import Mathlib.Algebra.Order.Group.Abs
import Mathlib.Algebra.Order.Ring.Abs
import Mathlib.Algebra.Order.BigOperators.Group.Finset

set_option linter.unusedSectionVars false

namespace ICG.GapMono
open ICG Finset

/-- the primed intervals are non-empty and contained in the unprimed ones, row by row -/
def Nested {α : Type} [LE α] (n : Nat) (lo hi lo' hi' : Nat → α) : Prop :=
  ∀ c, c < 2 ^ n → lo c ≤ lo' c ∧ lo' c ≤ hi' c ∧ hi' c ≤ hi c

/-- every interval is a point -/
def Degenerate {α : Type} (n : Nat) (lo hi : Nat → α) : Prop := ∀ c, c < 2 ^ n → lo c = hi c

section group
variable {α : Type} [AddCommGroup α] [LinearOrder α] [IsOrderedAddMonoid α]

theorem absv_eq (x : α) : absv x = |x| := (abs_eq_max_neg).symm

theorem width_le {n : Nat} {lo hi lo' hi' : Nat → α} (h : Nested n lo hi lo' hi') {c : Nat} (hc : c < 2 ^ n) :
    0 ≤ hi' c - lo' c ∧ hi' c - lo' c ≤ hi c - lo c := by
  obtain ⟨h1, h2, h3⟩ := h c hc
  exact ⟨sub_nonneg.mpr h2, sub_le_sub h3 h1⟩

theorem abs_width_le {n : Nat} {lo hi lo' hi' : Nat → α} (h : Nested n lo hi lo' hi') {c : Nat} (hc : c < 2 ^ n) :
    |hi' c - lo' c| ≤ |hi c - lo c| := by
  obtain ⟨h1, h2⟩ := width_le h hc
  rw [abs_of_nonneg h1, abs_of_nonneg (le_trans h1 h2)]
  exact h2

/-! #### l1 -/

theorem l1_eq (n : Nat) (lo hi : Nat → α) : l1 n lo hi = ∑ c ∈ range (2 ^ n), |hi c - lo c| := by
  unfold l1 widths allCoalitions
  rw [List.map_map, listSum_map_range]
  apply Finset.sum_congr rfl
  intro c _
  exact absv_eq _

theorem l1_mono {n : Nat} {lo hi lo' hi' : Nat → α} (h : Nested n lo hi lo' hi') :
    l1 n lo' hi' ≤ l1 n lo hi := by
  rw [l1_eq, l1_eq]
  exact Finset.sum_le_sum (fun c hc => abs_width_le h (mem_range.mp hc))

theorem l1_nonneg (n : Nat) (lo hi : Nat → α) : 0 ≤ l1 n lo hi := by
  rw [l1_eq]; exact Finset.sum_nonneg (fun _ _ => abs_nonneg _)

theorem l1_zero {n : Nat} {lo hi : Nat → α} (h : Degenerate n lo hi) : l1 n lo hi = 0 := by
  rw [l1_eq]
  apply Finset.sum_eq_zero
  intro c hc
  rw [h c (mem_range.mp hc), sub_self, abs_zero]

/-! #### l-infinity (never raises: there are `2^n ≥ 1` rows) -/

theorem linf_spec (n : Nat) (lo hi : Nat → α) :
    ∃ m, linf n lo hi = .ok m ∧ (∀ c, c < 2 ^ n → |hi c - lo c| ≤ m) ∧ ∃ c, c < 2 ^ n ∧ m = |hi c - lo c| := by
  have hne : (widths n lo hi).map absv ≠ [] := by
    unfold widths allCoalitions
    have : 0 < 2 ^ n := Nat.two_pow_pos n
    intro h
    have := congrArg List.length h
    simp at this
  obtain ⟨m, hm⟩ := listMax?_isSome hne
  refine ⟨m, by unfold linf; rw [hm], ?_, ?_⟩
  · intro c hc
    apply le_listMax? hm
    unfold widths allCoalitions
    rw [List.map_map]
    exact List.mem_map.mpr ⟨c, List.mem_range.mpr hc, absv_eq _⟩
  · have := listMax?_mem hm
    unfold widths allCoalitions at this
    rw [List.map_map] at this
    obtain ⟨c, hc, rfl⟩ := List.mem_map.mp this
    exact ⟨c, List.mem_range.mp hc, absv_eq _⟩

theorem linf_mono {n : Nat} {lo hi lo' hi' : Nat → α} (h : Nested n lo hi lo' hi') :
    ∃ m m', linf n lo hi = .ok m ∧ linf n lo' hi' = .ok m' ∧ m' ≤ m := by
  obtain ⟨m, hm, hub, -⟩ := linf_spec n lo hi
  obtain ⟨m', hm', -, c, hc, rfl⟩ := linf_spec n lo' hi'
  exact ⟨m, _, hm, hm', le_trans (abs_width_le h hc) (hub c hc)⟩

theorem linf_nonneg (n : Nat) (lo hi : Nat → α) : ∃ m, linf n lo hi = .ok m ∧ 0 ≤ m := by
  obtain ⟨m, hm, -, c, -, rfl⟩ := linf_spec n lo hi
  exact ⟨_, hm, abs_nonneg _⟩

theorem linf_zero {n : Nat} {lo hi : Nat → α} (h : Degenerate n lo hi) : linf n lo hi = .ok 0 := by
  obtain ⟨m, hm, -, c, hc, rfl⟩ := linf_spec n lo hi
  rw [hm, h c hc, sub_self, abs_zero]

end group

section field
variable {α : Type} [Field α] [LinearOrder α] [IsStrictOrderedRing α]

/-! #### l2 squared -/

theorem l2sq_eq (n : Nat) (lo hi : Nat → α) :
    l2sq n lo hi = ∑ c ∈ range (2 ^ n), (hi c - lo c) * (hi c - lo c) := by
  unfold l2sq widths allCoalitions
  rw [List.map_map, listSum_map_range]
  rfl

theorem l2sq_mono {n : Nat} {lo hi lo' hi' : Nat → α} (h : Nested n lo hi lo' hi') :
    l2sq n lo' hi' ≤ l2sq n lo hi := by
  rw [l2sq_eq, l2sq_eq]
  apply Finset.sum_le_sum
  intro c hc
  obtain ⟨h1, h2⟩ := width_le h (mem_range.mp hc)
  exact mul_le_mul h2 h2 h1 (le_trans h1 h2)

theorem l2sq_nonneg (n : Nat) (lo hi : Nat → α) : 0 ≤ l2sq n lo hi := by
  rw [l2sq_eq]; exact Finset.sum_nonneg (fun _ _ => mul_self_nonneg _)

theorem l2sq_zero {n : Nat} {lo hi : Nat → α} (h : Degenerate n lo hi) : l2sq n lo hi = 0 := by
  rw [l2sq_eq]
  apply Finset.sum_eq_zero
  intro c hc
  rw [h c (mem_range.mp hc), sub_self, mul_zero]

/-! #### exploitability (through the C05 identity) -/

theorem weightedGap_mono {n : Nat} {lo hi lo' hi' : Nat → α} (h : Nested n lo hi lo' hi') :
    C05.weightedGap n lo' hi' ≤ C05.weightedGap n lo hi := by
  unfold C05.weightedGap
  apply Finset.sum_le_sum
  intro c hc
  have hc' := mem_range.mp hc
  exact div_le_div_of_nonneg_right (width_le h hc').2 (C05.choose_size_pos hc').le

/-- two tables of the same game size, both with the grand coalition known and upper(∅) = 0, the second
    one row-wise narrower: its exploitability is not larger. -/
theorem expl_mono (t t' : Table α) (hn : t'.n = t.n)
    (hk : t.known (grand t.n) = true) (hk' : t'.known (grand t'.n) = true)
    (h0 : t.hi 0 = 0) (h0' : t'.hi 0 = 0) (h : Nested t.n t.lo t.hi t'.lo t'.hi) :
    ∃ x x', t.exploitability = .ok x ∧ t'.exploitability = .ok x' ∧ x' ≤ x := by
  refine ⟨_, _, C05.identity_weightedGap t hk h0, C05.identity_weightedGap t' hk' h0', ?_⟩
  rw [hn]
  exact weightedGap_mono h

theorem expl_nonneg (t : Table α) (hk : t.known (grand t.n) = true) (h0 : t.hi 0 = 0)
    (hle : ∀ c, c < 2 ^ t.n → t.lo c ≤ t.hi c) : ∃ x, t.exploitability = .ok x ∧ 0 ≤ x :=
  C05.nonneg t hk h0 hle

theorem expl_zero (t : Table α) (hk : t.known (grand t.n) = true) (h : Degenerate t.n t.lo t.hi)
    (h00 : t.hi 0 = 0) : t.exploitability = .ok 0 :=
  (C05.zero_iff t hk h00 (fun c hc => (h c hc).le)).mpr h

end field

/-! ### a concrete 3-player nested pair -/

def exLo : Nat → Rat := fun c => [0, 1, 1, 2, 0, 2, 3, 6].getD c 0
def exHi : Nat → Rat := fun c => [0, 3, 2, 5, 4, 6, 3, 6].getD c 0
def exLo' : Nat → Rat := fun c => [0, 2, 1, 3, 1, 2, 3, 6].getD c 0
def exHi' : Nat → Rat := fun c => [0, 2, 2, 4, 4, 5, 3, 6].getD c 0

example : Nested 3 exLo exHi exLo' exHi' := by unfold Nested; decide +kernel
example : l1 3 exLo exHi = 14 ∧ l1 3 exLo' exHi' = 8 := by decide +kernel
example : linf 3 exLo exHi = .ok 4 ∧ linf 3 exLo' exHi' = .ok 3 := by decide +kernel
example : l2sq 3 exLo exHi = 46 ∧ l2sq 3 exLo' exHi' = 20 := by decide +kernel
example : Degenerate 3 exLo exLo := fun _ _ => rfl

/-! ### for the functions the native driver runs (`ICG.AtRat.*`) -/

theorem l1_mono_atRat {n : Nat} {lo hi lo' hi' : Nat → Rat} (h : Nested n lo hi lo' hi') :
    AtRat.l1 n lo' hi' ≤ AtRat.l1 n lo hi := l1_mono h
theorem l2sq_mono_atRat {n : Nat} {lo hi lo' hi' : Nat → Rat} (h : Nested n lo hi lo' hi') :
    AtRat.l2sq n lo' hi' ≤ AtRat.l2sq n lo hi := l2sq_mono h
theorem linf_mono_atRat {n : Nat} {lo hi lo' hi' : Nat → Rat} (h : Nested n lo hi lo' hi') :
    ∃ m m', AtRat.linf n lo hi = .ok m ∧ AtRat.linf n lo' hi' = .ok m' ∧ m' ≤ m := linf_mono h
theorem expl_mono_atRat (t t' : Table Rat) (hn : t'.n = t.n)
    (hk : t.known (grand t.n) = true) (hk' : t'.known (grand t'.n) = true)
    (h0 : t.hi 0 = 0) (h0' : t'.hi 0 = 0) (h : Nested t.n t.lo t.hi t'.lo t'.hi) :
    ∃ x x', AtRat.exploitability t = .ok x ∧ AtRat.exploitability t' = .ok x' ∧ x' ≤ x :=
  expl_mono t t' hn hk hk' h0 h0' h

end ICG.GapMono
