/-
  ICG.Lemmas.BoundsCommon — the glue shared by the property files C01–C04, C07, C08:

  * `Table.Agree t v`     : every known row of `t` holds `v`'s value in both bound cells
                            (`Agree → Inv`, `Agree ∧ SA → Completion`)
  * `enumFacts` plugged into the refinement theorems (`run_spec`, `run_spec_agree`): no theorem below has an
    `EnumFacts` hypothesis
  * `Computer.IsSA`, `Computer.NeedsMono` and the spec mathematics of `ICG.Lemmas.SpecSA` / `SpecSAM`
    restated uniformly for the registry of computers (`spec_sound`, `spec_mono_known`, `spec_full`)
  * `SoundFor t t' v`     : the conclusion of C01 / C04 soundness; `run_sound`
  * concrete 3-player `Table Int` instances with stale unknown rows (`exT`, `exT'`, `samT`, `samT'`)
    for the `example`s of the property files

  Everything is for all `n` and every `[AddCommGroup α] [LinearOrder α] [IsOrderedAddMonoid α]`.
  Namespaces: dot-notation extensions (`Table.Agree…`, `Computer.…`, `Completion.congr`) live in `ICG`;
  all free-standing helpers and the example tables live in `ICG.BoundsCommon` (`open ICG.BoundsCommon`).
-/
import ICG.Lemmas.RefineCor
import ICG.Lemmas.Enum
import ICG.Lemmas.SpecSA
import ICG.Lemmas.SpecSAM

namespace ICG
open ICG.SpecSA (KnownLe)

variable {α : Type}

/-- every known row of the table holds `v`'s value in both bound cells -/
def Table.Agree (t : Table α) (v : Nat → α) : Prop :=
  ∀ c, c < 2 ^ t.n → t.known c = true → t.lo c = v c ∧ t.hi c = v c

theorem Table.Agree.inv {t : Table α} {v : Nat → α} (h : t.Agree v) : t.Inv :=
  fun c hc hk => by rw [(h c hc hk).1, (h c hc hk).2]

theorem Table.Agree.completion [Add α] [LE α] {t : Table α} {v : Nat → α} (h : t.Agree v)
    (hsa : SA t.n v) : Completion t.n t.known t.lo v :=
  ⟨hsa, fun c hc hk => (h c hc hk).1.symm⟩

/-- a table satisfying `Inv` agrees with its own lower column -/
theorem Table.Inv.agree_self {t : Table α} (h : t.Inv) : t.Agree t.lo :=
  fun c hc hk => ⟨rfl, (h c hc hk).symm⟩

/-- `Completion` reads its candidate on the rows of the game only -/
theorem Completion.congr [Add α] [LE α] {n : Nat} {known : Nat → Bool} {val w w' : Nat → α}
    (h : Completion n known val w) (hw : ∀ c, c < 2 ^ n → w' c = w c) : Completion n known val w' := by
  refine ⟨?_, ?_⟩
  · intro a b ha hb hab
    rw [hw a ha, hw b hb, hw _ (or_lt_two_pow ha hb)]
    exact h.1 a b ha hb hab
  · intro c hc hk
    rw [hw c hc]; exact h.2 c hc hk

/-- the two exact superadditive computers -/
def Computer.IsSA : Computer → Prop
  | .sa => True
  | .sac => True
  | .sam _ => False

/-- the approximation for superadditive *monotone non-increasing* games -/
def Computer.NeedsMono : Computer → Prop
  | .sam _ => True
  | _ => False

theorem Computer.isSA_iff (k : Computer) : k.IsSA ↔ k = .sa ∨ k = .sac := by
  cases k <;> simp [Computer.IsSA]

theorem Computer.not_needsMono_of_isSA {k : Computer} (h : k.IsSA) : ¬ k.NeedsMono := by
  cases k <;> simp_all [Computer.IsSA, Computer.NeedsMono]

section refinement
variable [Add α] [Sub α] [LinearOrder α]

omit [Sub α] in
theorem Computer.specLo_of_isSA {k : Computer} (h : k.IsSA) :
    (k.specLo : Nat → (Nat → Bool) → (Nat → α) → Nat → α) = fun _ => loSpec := by
  cases k with
  | sa => rfl
  | sac => rfl
  | sam r => cases h

theorem Computer.specUp_of_isSA {k : Computer} (h : k.IsSA) :
    (k.specUp : Nat → (Nat → Bool) → (Nat → α) → Nat → α) = upSpec := by
  cases k with
  | sa => rfl
  | sac => rfl
  | sam r => cases h

theorem Computer.specLo_known (k : Computer) (n : Nat) {known : Nat → Bool} (v : Nat → α) {c : Nat}
    (hk : known c = true) : k.specLo n known v c = v c :=
  (k.refines enumFacts).lo_known n known v c hk

theorem Computer.specUp_known (k : Computer) (n : Nat) {known : Nat → Bool} (v : Nat → α) {c : Nat}
    (hk : known c = true) : k.specUp n known v c = v c :=
  (k.refines enumFacts).up_known n known v c hk

/-- the specification reads its value argument on known rows of the game only -/
theorem Computer.spec_congr (k : Computer) {n : Nat} {known : Nat → Bool} (hmin : MinInfo n known)
    {v v' : Nat → α} (hv : ∀ c, c < 2 ^ n → known c = true → v c = v' c) {c : Nat} (hc : c < 2 ^ n) :
    k.specLo n known v c = k.specLo n known v' c ∧ k.specUp n known v c = k.specUp n known v' c :=
  ⟨(k.refines enumFacts).lo_congr n known v v' hmin hv c hc,
   (k.refines enumFacts).up_congr n known v v' hmin hv c hc⟩

namespace BoundsCommon

/-- every registered computer succeeds on a `MinInfo` table satisfying `Inv` and computes its
    specification (`compute_eq_spec` with `enumFacts`) -/
theorem run_spec (k : Computer) (t : Table α) (hmin : MinInfo t.n t.known) (hinv : t.Inv) :
    ∃ t', k.run t = .ok t' ∧ t'.n = t.n ∧ t'.known = t.known ∧
      (∀ c, c < 2 ^ t.n → t'.lo c = k.specLo t.n t.known t.lo c ∧
        t'.hi c = k.specUp t.n t.known t.lo c) ∧
      (∀ c, 2 ^ t.n ≤ c → t'.lo c = t.lo c ∧ t'.hi c = t.hi c) :=
  compute_eq_spec enumFacts k t hmin hinv

/-- the same with the specification evaluated at the game `v` the table agrees with -/
theorem run_spec_agree (k : Computer) (t : Table α) {v : Nat → α} (hmin : MinInfo t.n t.known)
    (hag : t.Agree v) :
    ∃ t', k.run t = .ok t' ∧ t'.n = t.n ∧ t'.known = t.known ∧
      (∀ c, c < 2 ^ t.n → t'.lo c = k.specLo t.n t.known v c ∧ t'.hi c = k.specUp t.n t.known v c) ∧
      (∀ c, 2 ^ t.n ≤ c → t'.lo c = t.lo c ∧ t'.hi c = t.hi c) := by
  obtain ⟨t', h1, h2, h3, h4, h5⟩ := run_spec k t hmin hag.inv
  refine ⟨t', h1, h2, h3, ?_, h5⟩
  intro c hc
  have hcg := k.spec_congr hmin (v := t.lo) (v' := v) (fun d hd hk => (hag d hd hk).1) hc
  rw [(h4 c hc).1, (h4 c hc).2, hcg.1, hcg.2]
  exact ⟨rfl, rfl⟩

/-- the exact computers: `loSpec` / `upSpec` of the table's own known values -/
theorem run_spec_sa {k : Computer} (hk : k.IsSA) (t : Table α) (hmin : MinInfo t.n t.known)
    (hinv : t.Inv) :
    ∃ t', k.run t = .ok t' ∧ t'.n = t.n ∧ t'.known = t.known ∧
      (∀ c, c < 2 ^ t.n → t'.lo c = loSpec t.known t.lo c ∧ t'.hi c = upSpec t.n t.known t.lo c) ∧
      (∀ c, 2 ^ t.n ≤ c → t'.lo c = t.lo c ∧ t'.hi c = t.hi c) := by
  have := run_spec k t hmin hinv
  rwa [Computer.specLo_of_isSA hk, Computer.specUp_of_isSA hk] at this

/-- a successful run happened on a `MinInfo` table -/
theorem minInfo_of_run {k : Computer} {t t' : Table α} (h : k.run t = .ok t') : MinInfo t.n t.known :=
  (compute_defined_iff enumFacts k t).mp ⟨t', h⟩

/-- a successful run changes neither `n` nor any flag, nor any row outside the game, nor any known row -/
theorem run_frame {k : Computer} {t t' : Table α} (hinv : t.Inv) (h : k.run t = .ok t') :
    t'.n = t.n ∧ t'.known = t.known ∧
      (∀ c, 2 ^ t.n ≤ c → t'.lo c = t.lo c ∧ t'.hi c = t.hi c) ∧
      (∀ c, c < 2 ^ t.n → t.known c = true → t'.lo c = t.lo c ∧ t'.hi c = t.hi c) := by
  obtain ⟨t'', h1, h2, h3, h4, h5⟩ := run_spec k t (minInfo_of_run h) hinv
  rw [h] at h1; cases h1
  refine ⟨h2, h3, h5, ?_⟩
  intro c hc hk
  rw [(h4 c hc).1, (h4 c hc).2, k.specLo_known _ _ hk, k.specUp_known _ _ hk]
  exact ⟨rfl, hinv c hc hk⟩

end BoundsCommon

end refinement

section ordered
variable [AddCommGroup α] [LinearOrder α] [IsOrderedAddMonoid α]

/-- **soundness of the specification**, uniformly for the registry -/
theorem Computer.spec_sound (k : Computer) {n : Nat} {known : Nat → Bool} {v : Nat → α} (hsa : SA n v)
    (hmd : k.NeedsMono → MonoDec n v) (hmin : MinInfo n known) {c : Nat} (hc : c < 2 ^ n) :
    k.specLo n known v c ≤ v c ∧ v c ≤ k.specUp n known v c := by
  cases k with
  | sa => exact SpecSA.soundness hmin (SpecSA.completion_self known hsa) c hc
  | sac => exact SpecSA.soundness hmin (SpecSA.completion_self known hsa) c hc
  | sam r => exact sam_sound hsa (hmd trivial) hmin r hc

/-- **monotonicity of the specification in knowledge**, uniformly for the registry -/
theorem Computer.spec_mono_known (k : Computer) {n : Nat} {known known' : Nat → Bool} {v : Nat → α}
    (hsa : SA n v) (hmd : k.NeedsMono → MonoDec n v) (hmin : MinInfo n known)
    (hle : KnownLe known known') {c : Nat} (hc : c < 2 ^ n) :
    k.specLo n known v c ≤ k.specLo n known' v c ∧ k.specUp n known' v c ≤ k.specUp n known v c := by
  cases k with
  | sa => exact ⟨SpecSA.loSpec_mono_knowledge hmin hle hsa c hc, SpecSA.upSpec_anti_knowledge hmin hle hsa c hc⟩
  | sac => exact ⟨SpecSA.loSpec_mono_knowledge hmin hle hsa c hc, SpecSA.upSpec_anti_knowledge hmin hle hsa c hc⟩
  | sam r => exact sam_mono_known hsa (hmd trivial) hmin (SpecSA.minInfo_mono hmin hle) hle r hc

namespace BoundsCommon

/-- the conclusion of the soundness properties (C01, C04): same game size, same flags, the true value
    inside a non-empty interval on every row, and the interval is the point `v c` on known rows -/
def SoundFor (t t' : Table α) (v : Nat → α) : Prop :=
  t'.n = t.n ∧ t'.known = t.known ∧
    ∀ c, c < 2 ^ t.n → t'.lo c ≤ v c ∧ v c ≤ t'.hi c ∧ t'.lo c ≤ t'.hi c ∧
      (t.known c = true → t'.lo c = v c ∧ t'.hi c = v c)

/-- **soundness of the model**, uniformly for the registry: NO assumption on the stale content of
    unknown rows -/
theorem run_sound (k : Computer) (t : Table α) {v : Nat → α} (hsa : SA t.n v)
    (hmd : k.NeedsMono → MonoDec t.n v) (hmin : MinInfo t.n t.known) (hag : t.Agree v) :
    ∃ t', k.run t = .ok t' ∧ SoundFor t t' v := by
  obtain ⟨t', h1, h2, h3, h4, _⟩ := run_spec_agree k t hmin hag
  refine ⟨t', h1, h2, h3, ?_⟩
  intro c hc
  obtain ⟨s1, s2⟩ := k.spec_sound hsa hmd hmin (known := t.known) hc
  rw [(h4 c hc).1, (h4 c hc).2]
  refine ⟨s1, s2, le_trans s1 s2, ?_⟩
  intro hk
  exact ⟨k.specLo_known _ _ hk, k.specUp_known _ _ hk⟩

end BoundsCommon

end ordered

/-! ### concrete 3-player tables over `Int` (unknown rows hold stale junk) -/

namespace BoundsCommon.Ex
open ICG.SpecSA

/-- a table of the game `SpecSA.exV` with knowledge `kn`; unknown rows hold `99` / `-99` -/
def mk (kn : Nat → Bool) (v : Nat → Int) : Table Int :=
  { n := 3, known := kn, lo := fun c => if kn c then v c else 99, hi := fun c => if kn c then v c else -99 }

theorem mk_agree (kn : Nat → Bool) (v : Nat → Int) : (mk kn v).Agree v := by
  intro c _ hk
  have hk' : kn c = true := hk
  simp [mk, hk']

/-- minimal information about the strictly superadditive game `exV` -/
def exT : Table Int := mk exKnown exV
/-- additionally the pair {0,1} -/
def exT' : Table Int := mk exKnown' exV

theorem exT_sa : SA exT.n exV := exV_SA
theorem exT_min : MinInfo exT.n exT.known := exKnown_minInfo
theorem exT_agree : exT.Agree exV := mk_agree _ _
theorem exT'_agree : exT'.Agree exV := mk_agree _ _
theorem exT_le : KnownLe exT.known exT'.known := exKnown_le

/-- minimal information about the superadditive, monotone non-increasing game `SAMExample.v` -/
def samT : Table Int := mk SAMExample.known SAMExample.v
def samT' : Table Int := mk SAMExample.known' SAMExample.v

theorem samT_sa : SA samT.n SAMExample.v := SAMExample.sa
theorem samT_md : MonoDec samT.n SAMExample.v := SAMExample.monoDec
theorem samT_min : MinInfo samT.n samT.known := SAMExample.minInfo
theorem samT_agree : samT.Agree SAMExample.v := mk_agree _ _
theorem samT'_agree : samT'.Agree SAMExample.v := mk_agree _ _
theorem samT_le : KnownLe samT.known samT'.known := SAMExample.known_le

end BoundsCommon.Ex

end ICG
