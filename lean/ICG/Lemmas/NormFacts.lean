/-
  ICG.Lemmas.NormFacts — (everything in namespace `ICG.Norm`) helper lemmas for C15 / C10: sums over the members of a bit mask, the generic
  "independent row updates" fold on a table, `itertools.combinations(·, 2)`.
-/
import ICG.Model.Normalize
import ICG.Lemmas.BitFacts
import ICG.Lemmas.Enum
import Mathlib.Algebra.BigOperators.Group.Finset.Basic
import Mathlib.Algebra.Order.BigOperators.Group.Finset
import Mathlib.Algebra.Order.Field.Basic
import Mathlib.Tactic.Linarith

namespace ICG.Norm
open ICG Finset

variable {α : Type}

/-! ### `listSum` -/

theorem listSum_eq_sum [AddCommMonoid α] (l : List α) : listSum l = l.sum := by
  unfold listSum
  rw [List.sum_eq_foldl]

theorem listSum_nil [Add α] [Zero α] : listSum ([] : List α) = 0 := rfl

/-! ### sums over the members of a mask -/

/-- `Σ_{i < n, i ∈ c} f i` -/
def bsum [AddCommMonoid α] (n : Nat) (f : Nat → α) (c : Nat) : α :=
  ∑ i ∈ range n, if c.testBit i then f i else 0

theorem bsum_zero [AddCommMonoid α] (n : Nat) (f : Nat → α) : bsum n f 0 = 0 := by
  simp [bsum]

theorem bsum_or [AddCommMonoid α] (n : Nat) (f : Nat → α) {a b : Nat} (h : a &&& b = 0) :
    bsum n f (a ||| b) = bsum n f a + bsum n f b := by
  unfold bsum
  rw [← Finset.sum_add_distrib]
  apply Finset.sum_congr rfl
  intro i _
  have hi := congrArg (·.testBit i) h
  simp only [Nat.testBit_and, Nat.zero_testBit] at hi
  rw [Nat.testBit_or]
  cases ha : a.testBit i <;> cases hb : b.testBit i <;> simp_all

theorem bsum_two_pow [AddCommMonoid α] {n i : Nat} (f : Nat → α) (hi : i < n) : bsum n f (2 ^ i) = f i := by
  unfold bsum
  rw [Finset.sum_eq_single_of_mem i (Finset.mem_range.mpr hi)]
  · simp
  · intro j _ hj
    have : (2 ^ i).testBit j = false := by
      rw [Nat.testBit_two_pow]; simp; omega
    simp [this]

theorem bsum_grand [AddCommMonoid α] (n : Nat) (f : Nat → α) : bsum n f (grand n) = ∑ i ∈ range n, f i := by
  unfold bsum
  apply Finset.sum_congr rfl
  intro i hi
  rw [testBit_grand]
  simp [Finset.mem_range.mp hi]

theorem bsum_congr [AddCommMonoid α] (n : Nat) {f g : Nat → α} (h : ∀ i, i < n → f i = g i) (c : Nat) :
    bsum n f c = bsum n g c := by
  unfold bsum
  apply Finset.sum_congr rfl
  intro i hi
  rw [h i (Finset.mem_range.mp hi)]

theorem bsum_nonneg [AddCommMonoid α] [PartialOrder α] [IsOrderedAddMonoid α] (n : Nat) {f : Nat → α}
    (h : ∀ i, i < n → 0 ≤ f i) (c : Nat) : 0 ≤ bsum n f c := by
  unfold bsum
  apply Finset.sum_nonneg
  intro i hi
  split
  · exact h i (Finset.mem_range.mp hi)
  · exact le_refl _

/-- the sum the code forms over `coalition.players` is the mask sum -/
theorem listSum_players [AddCommMonoid α] {n c : Nat} (hc : c < 2 ^ n) (f : Nat → α) :
    listSum ((players c).map f) = bsum n f c := by
  rw [listSum_eq_sum, ← List.sum_toFinset f (players_nodup c)]
  unfold bsum
  rw [← Finset.sum_filter]
  apply Finset.sum_congr _ (fun _ _ => rfl)
  ext i
  simp only [List.mem_toFinset, mem_players, Finset.mem_filter, Finset.mem_range]
  constructor
  · intro h
    refine ⟨?_, h⟩
    by_contra hn
    have := (lt_two_pow_iff_testBit.mp hc) i (by omega)
    rw [h] at this; cases this
  · exact fun h => h.2

theorem listSum_range_map [AddCommMonoid α] (n : Nat) (f : Nat → α) :
    listSum ((List.range n).map f) = ∑ i ∈ range n, f i := by
  rw [listSum_eq_sum, ← List.sum_toFinset f (List.nodup_range (n := n))]
  apply Finset.sum_congr _ (fun _ _ => rfl)
  ext i; simp

/-! ### the additivity guard of the repaired `_normalize_icg` (`np.isclose(surplus + Σ, Σ, rtol, atol = 0)`) -/

section additive
variable [Field α] [LinearOrder α] [DecidableLE α]

omit [DecidableLE α] in
/-- the model's `np.abs` is the absolute value -/
theorem absN_eq_abs (x : α) : absN x = |x| := (abs_eq_max_neg (a := x)).symm

/-- in exact arithmetic `(surplus + Σ) − Σ` is the surplus: the guard says `|surplus| ≤ rtol · |Σ singletons|` -/
theorem isAdditive_iff (rtol sur : α) (sv : List α) :
    isAdditive rtol (sur, sv) = true ↔ |sur| ≤ rtol * |listSum sv| := by
  simp only [isAdditive, decide_eq_true_iff, absN_eq_abs, add_sub_cancel_right]

/-- the closed form of the guard -/
theorem closedAdditive_iff (n : Nat) (rtol : α) (v : Nat → α) :
    closedAdditive n rtol v = true ↔
      |closedW v (grand n)| ≤ rtol * |∑ i ∈ range n, v (2 ^ i)| := by
  simp only [closedAdditive, decide_eq_true_iff, absN_eq_abs, singleton, listSum_range_map]

/-- the guard evaluated on what `_get_norminfo` returns for a complete table is the closed form of the guard -/
theorem isAdditive_closed (n : Nat) (rtol : α) (v : Nat → α) :
    isAdditive rtol (closedW v (grand n), (List.range n).map (fun i => v (2 ^ i))) = closedAdditive n rtol v := by
  rw [Bool.eq_iff_iff, isAdditive_iff, closedAdditive_iff, listSum_range_map]

end additive

/-! ### masks -/

theorem two_pow_sub_of_testBit {c i : Nat} (h : c.testBit i = true) : 2 ^ i &&& c = 2 ^ i := by
  apply sub_of_testBit
  intro j hj
  rw [Nat.testBit_two_pow] at hj
  have : i = j := by simpa using hj
  subst this; exact h

theorem testBit_lt_of_lt_two_pow {c n i : Nat} (hc : c < 2 ^ n) (h : c.testBit i = true) : i < n := by
  by_contra hn
  have := (lt_two_pow_iff_testBit.mp hc) i (by omega)
  rw [h] at this; cases this

theorem exists_testBit_of_ne_zero {c : Nat} (h : c ≠ 0) : ∃ i, c.testBit i = true := by
  by_contra hn
  apply h
  apply Nat.eq_of_testBit_eq
  intro i
  have : ¬ c.testBit i = true := fun hi => hn ⟨i, hi⟩
  simp at this
  simp [this]

theorem sub_grand_mask {c n : Nat} (hc : c < 2 ^ n) : c &&& grand n = c := by
  apply sub_of_testBit
  intro i hi
  rw [testBit_grand]
  simpa using testBit_lt_of_lt_two_pow hc hi

theorem two_pow_lt_two_pow {i n : Nat} (h : i < n) : 2 ^ i < 2 ^ n := Nat.pow_lt_pow_right (by omega) h

theorem players_two_pow (i : Nat) : players (2 ^ i) = [i] := by
  have h : fromPlayers [i] = 2 ^ i := by
    simp [fromPlayers, List.eraseDups_cons, List.eraseDups_nil]
  rw [← h]
  exact players_fromPlayers (by simp)

/-! ### `itertools.combinations(l, 2)` -/


theorem mem_pairs {β} {l : List β} {p : β × β} {r : β → β → Prop} (hl : l.Pairwise r) (hp : p ∈ pairs l) :
    p.1 ∈ l ∧ p.2 ∈ l ∧ r p.1 p.2 := by
  induction l with
  | nil => simp [pairs] at hp
  | cons a l ih =>
    rw [List.pairwise_cons] at hl
    simp only [pairs, List.mem_append, List.mem_map] at hp
    rcases hp with ⟨b, hb, rfl⟩ | hp
    · exact ⟨by simp, by simp [hb], hl.1 b hb⟩
    · obtain ⟨h1, h2, h3⟩ := ih hl.2 hp
      exact ⟨by simp [h1], by simp [h2], h3⟩

theorem pairs_eq_combos {β} (l : List β) : (pairs l).map (fun p => [p.1, p.2]) = combos 2 l := by
  have h1 : ∀ l : List β, combos 1 l = l.map (fun b => [b]) := by
    intro l
    induction l with
    | nil => simp [combos]
    | cons a l ih => simp [combos, ih]
  induction l with
  | nil => simp [pairs, combos]
  | cons a l ih =>
    simp only [pairs, combos, List.map_append, List.map_map, ih, h1]
    congr 1


/-! ### a loop of independent row updates on a table -/

section rows


/-- A loop whose body, on a known row `c`, rewrites exactly that row to `G c (current lower value)`:
    over a duplicate-free list of known rows it succeeds, and rewrites exactly the listed rows. -/
theorem foldlM_rows (step : Table α → Nat → Except Err (Table α)) (G : Nat → α → α) :
    ∀ (L : List Nat) (t : Table α), L.Nodup →
      (∀ c ∈ L, c < t.rows ∧ t.known c = true) →
      (∀ (t' : Table α) c, c ∈ L → c < t'.rows → t'.known c = true →
          step t' c = .ok (t'.putValue c (G c (t'.lo c)))) →
      ∃ t', L.foldlM step t = .ok t' ∧ t'.n = t.n ∧
        (∀ d, t.known d = true → t'.known d = true) ∧
        (∀ d, d ∈ L → t'.known d = true ∧ t'.lo d = G d (t.lo d) ∧ t'.hi d = G d (t.lo d)) ∧
        (∀ d, d ∉ L → t'.known d = t.known d ∧ t'.lo d = t.lo d ∧ t'.hi d = t.hi d) := by
  intro L
  induction L with
  | nil =>
    intro t _ _ _
    exact ⟨t, rfl, rfl, fun _ h => h, fun _ h => by simp at h, fun _ _ => ⟨rfl, rfl, rfl⟩⟩
  | cons c L ih =>
    intro t hnd hk hstep
    rw [List.nodup_cons] at hnd
    have hc := hk c (by simp)
    have h1 := hstep t c (by simp) hc.1 hc.2
    let t1 := t.putValue c (G c (t.lo c))
    have hrows : t1.rows = t.rows := rfl
    obtain ⟨t', hf, hn, hkn, hin, hout⟩ := ih t1 hnd.2
      (by
        intro d hd
        have := hk d (by simp [hd])
        refine ⟨this.1, ?_⟩
        show (if d = c then true else t.known d) = true
        split <;> simp [this.2])
      (by
        intro t'' d hd
        exact hstep t'' d (by simp [hd]))
    refine ⟨t', ?_, ?_, ?_, ?_, ?_⟩
    · rw [List.foldlM_cons, h1]; exact hf
    · rw [hn]; rfl
    · intro d hd
      apply hkn
      show (if d = c then true else t.known d) = true
      split <;> simp [hd]
    · intro d hd
      rcases List.mem_cons.mp hd with rfl | hd
      · have := hout d hnd.1
        refine ⟨?_, ?_, ?_⟩
        · rw [this.1]; show (if d = d then true else t.known d) = true; simp
        · rw [this.2.1]; show (if d = d then _ else t.lo d) = _; simp
        · rw [this.2.2]; show (if d = d then _ else t.hi d) = _; simp
      · have hne : d ≠ c := fun h => hnd.1 (h ▸ hd)
        have := hin d hd
        refine ⟨this.1, ?_, ?_⟩
        · rw [this.2.1]; show G d (if d = c then _ else t.lo d) = _; simp [hne]
        · rw [this.2.2]; show G d (if d = c then _ else t.lo d) = _; simp [hne]
    · intro d hd
      have hne : d ≠ c := fun h => hd (by simp [h])
      have hd' : d ∉ L := fun h => hd (by simp [h])
      have := hout d hd'
      refine ⟨?_, ?_, ?_⟩
      · rw [this.1]; show (if d = c then true else t.known d) = _; simp [hne]
      · rw [this.2.1]; show (if d = c then _ else t.lo d) = _; simp [hne]
      · rw [this.2.2]; show (if d = c then _ else t.hi d) = _; simp [hne]

end rows

end ICG.Norm
