/-
  ICG.Lemmas.MulFactor — `Mul.factor` (multiplicative_factor.py): outcome kinds and the characterisation of the result.
-/
import ICG.Model.Mul
import ICG.Lemmas.ListMax
import Mathlib.Algebra.Order.Field.Basic
import Mathlib.Tactic.Linarith

namespace ICG.Mul
open ICG

-- decidable equality of outcomes, for the `decide` examples
deriving instance DecidableEq for Except

set_option linter.unusedSectionVars false
variable {α : Type} [Field α] [LinearOrder α] [IsStrictOrderedRing α]

theorem broadcast_of_length_eq {β γ : Type} {a : List β} {b : List γ} (h : a.length = b.length) :
    broadcast a b = .ok (a.zip b) := by
  simp [broadcast, h]

/-- the guard of `factor`: both assertions hold -/
def Guard (num den : List α) : Prop := (∀ p ∈ num.zip den, p.2 ≤ p.1) ∧ (∀ d ∈ den, 0 < d)

theorem all_decide_iff {β : Type} (l : List β) (P : β → Prop) [DecidablePred P] :
    (l.all fun x => decide (P x)) = true ↔ ∀ x ∈ l, P x := by
  simp [List.all_eq_true]

theorem factor_guard_some {num den : List α} (hlen : num.length = den.length) (hg : Guard num den) {m : α}
    (hm : listMax? ((num.zip den).map (fun p => p.1 / p.2)) = some m) : factor num den = .ok m := by
  unfold factor
  rw [broadcast_of_length_eq hlen]
  dsimp only
  rw [if_pos ((all_decide_iff _ _).mpr hg.1), if_pos ((all_decide_iff _ _).mpr hg.2), hm]

theorem factor_guard_none {num den : List α} (hlen : num.length = den.length) (hg : Guard num den)
    (hm : listMax? ((num.zip den).map (fun p => p.1 / p.2)) = none) : factor num den = .error .value := by
  unfold factor
  rw [broadcast_of_length_eq hlen]
  dsimp only
  rw [if_pos ((all_decide_iff _ _).mpr hg.1), if_pos ((all_decide_iff _ _).mpr hg.2), hm]

theorem factor_of_not_guard {num den : List α} (hlen : num.length = den.length) (hg : ¬ Guard num den) :
    factor num den = .error .assert := by
  unfold factor
  rw [broadcast_of_length_eq hlen]
  dsimp only
  by_cases h1 : ∀ p ∈ num.zip den, p.2 ≤ p.1
  · rw [if_pos ((all_decide_iff _ _).mpr h1)]
    have h2 : ¬ ∀ d ∈ den, 0 < d := fun h => hg ⟨h1, h⟩
    rw [if_neg (fun h => h2 ((all_decide_iff _ _).mp h))]
  · rw [if_neg (fun h => h1 ((all_decide_iff _ _).mp h))]

theorem zip_eq_nil_of_length_eq {num den : List α} (hlen : num.length = den.length) :
    num.zip den = [] ↔ num = [] := by
  cases num with
  | nil => simp
  | cons a t => cases den with
    | nil => simp at hlen
    | cons b s => simp

theorem factor_eq_ok_iff {num den : List α} (hlen : num.length = den.length) {m : α} :
    factor num den = .ok m ↔
      Guard num den ∧ listMax? ((num.zip den).map (fun p => p.1 / p.2)) = some m := by
  by_cases hg : Guard num den
  · cases h : listMax? ((num.zip den).map (fun p => p.1 / p.2)) with
    | none => rw [factor_guard_none hlen hg h]; simp
    | some m' => rw [factor_guard_some hlen hg h]; simp [hg]
  · rw [factor_of_not_guard hlen hg]
    simp [hg]

theorem factor_eq_assert_iff {num den : List α} (hlen : num.length = den.length) :
    factor num den = .error .assert ↔ ¬ Guard num den := by
  by_cases hg : Guard num den
  · cases h : listMax? ((num.zip den).map (fun p => p.1 / p.2)) with
    | none => rw [factor_guard_none hlen hg h]; simp [hg]
    | some m' => rw [factor_guard_some hlen hg h]; simp [hg]
  · rw [factor_of_not_guard hlen hg]
    simp [hg]

theorem factor_eq_value_iff {num den : List α} (hlen : num.length = den.length) :
    factor num den = .error .value ↔ Guard num den ∧ num = [] := by
  by_cases hg : Guard num den
  · cases h : listMax? ((num.zip den).map (fun p => p.1 / p.2)) with
    | none =>
      rw [factor_guard_none hlen hg h]
      have hz : num.zip den = [] := List.map_eq_nil_iff.mp (listMax?_eq_none.mp h)
      exact ⟨fun _ => ⟨hg, (zip_eq_nil_of_length_eq hlen).mp hz⟩, fun _ => rfl⟩
    | some m' =>
      rw [factor_guard_some hlen hg h]
      have hne : num ≠ [] := by
        rintro rfl
        simp [listMax?] at h
      simp [hne]
  · rw [factor_of_not_guard hlen hg]
    simp [hg]

/-- the factor functions succeed iff the two assertions hold and the vectors are non-empty -/
theorem factor_ok_iff {num den : List α} (hlen : num.length = den.length) :
    (∃ m, factor num den = .ok m) ↔ Guard num den ∧ num ≠ [] := by
  constructor
  · rintro ⟨m, h⟩
    obtain ⟨hg, hm⟩ := (factor_eq_ok_iff hlen).mp h
    refine ⟨hg, ?_⟩
    rintro rfl
    simp [listMax?] at hm
  · rintro ⟨hg, hne⟩
    have : (num.zip den).map (fun p => p.1 / p.2) ≠ [] := by
      intro h
      exact hne ((zip_eq_nil_of_length_eq hlen).mp (List.map_eq_nil_iff.mp h))
    obtain ⟨m, hm⟩ := listMax?_isSome this
    exact ⟨m, (factor_eq_ok_iff hlen).mpr ⟨hg, hm⟩⟩

/-- on success the result is an upper bound of all ratios, attained, hence the least such number, and ≥ 1 -/
theorem factor_spec {num den : List α} (hlen : num.length = den.length) {m : α}
    (h : factor num den = .ok m) :
    (∀ p ∈ num.zip den, p.1 ≤ m * p.2) ∧ (∃ p ∈ num.zip den, p.1 = m * p.2) ∧
    (∀ a, (∀ p ∈ num.zip den, p.1 ≤ a * p.2) → m ≤ a) ∧ 1 ≤ m := by
  obtain ⟨⟨h1, h2⟩, hm⟩ := (factor_eq_ok_iff hlen).mp h
  obtain ⟨hmem, hub⟩ := listMax?_eq_some_iff.mp hm
  have hpos : ∀ p ∈ num.zip den, 0 < p.2 := fun p hp => h2 _ (List.of_mem_zip hp).2
  obtain ⟨p0, hp0, hp0m⟩ := List.mem_map.mp hmem
  have hatt : p0.1 = m * p0.2 := by
    rw [← hp0m]; exact (div_mul_cancel₀ _ (hpos p0 hp0).ne').symm
  refine ⟨?_, ⟨p0, hp0, hatt⟩, ?_, ?_⟩
  · intro p hp
    have := hub _ (List.mem_map.mpr ⟨p, hp, rfl⟩)
    exact (div_le_iff₀ (hpos p hp)).mp this
  · intro a ha
    have := ha p0 hp0
    rw [hatt] at this
    exact le_of_mul_le_mul_right this (hpos p0 hp0)
  · have := h1 p0 hp0
    rw [hatt] at this
    have hp := hpos p0 hp0
    by_contra hlt
    have hlt := not_le.mp hlt
    have : m * p0.2 < 1 * p0.2 := mul_lt_mul_of_pos_right hlt hp
    linarith

theorem drop_one_range (N : Nat) : (List.range N).drop 1 = List.range' 1 (N - 1) := by
  rw [List.range_eq_range', List.drop_range']

/-- `vector[1:]` of a vector given as a function on ids -/
def rows1 {β : Type} (n : Nat) (f : Nat → β) : List β := ((List.range (2 ^ n)).map f).drop 1

theorem rows1_eq {β : Type} (n : Nat) (f : Nat → β) : rows1 n f = (List.range' 1 (2 ^ n - 1)).map f := by
  unfold rows1
  rw [← List.map_drop, drop_one_range]

theorem length_rows1 {β : Type} (n : Nat) (f : Nat → β) : (rows1 n f).length = 2 ^ n - 1 := by
  simp [rows1_eq]

theorem zip_rows1 {β γ : Type} (n : Nat) (f : Nat → β) (g : Nat → γ) :
    (rows1 n f).zip (rows1 n g) = (List.range' 1 (2 ^ n - 1)).map (fun c => (f c, g c)) := by
  rw [rows1_eq, rows1_eq, List.zip_map']

theorem mem_range1 {n c : Nat} : c ∈ List.range' 1 (2 ^ n - 1) ↔ 0 < c ∧ c < 2 ^ n := by
  rw [List.mem_range'_1]
  have := Nat.two_pow_pos n
  omega
/-! ### vectors given as functions on coalition ids: rows `1 … 2^n − 1` -/

/-- the two assertions, coalition by coalition -/
def GuardFn (n : Nat) (num den : Nat → α) : Prop :=
  (∀ c, 0 < c → c < 2 ^ n → den c ≤ num c) ∧ (∀ c, 0 < c → c < 2 ^ n → 0 < den c)

/-- `factor` on the rows `1 … 2^n − 1` of two vectors -/
def factorFn (n : Nat) (num den : Nat → α) : Except Err α := factor (rows1 n num) (rows1 n den)

theorem guard_rows1 (n : Nat) (num den : Nat → α) : Guard (rows1 n num) (rows1 n den) ↔ GuardFn n num den := by
  unfold Guard GuardFn
  rw [zip_rows1, rows1_eq]
  constructor
  · rintro ⟨h1, h2⟩
    exact ⟨fun c h0 hc => h1 _ (List.mem_map.mpr ⟨c, mem_range1.mpr ⟨h0, hc⟩, rfl⟩),
           fun c h0 hc => h2 _ (List.mem_map.mpr ⟨c, mem_range1.mpr ⟨h0, hc⟩, rfl⟩)⟩
  · rintro ⟨h1, h2⟩
    refine ⟨?_, ?_⟩
    · intro p hp
      obtain ⟨c, hc, rfl⟩ := List.mem_map.mp hp
      exact h1 c (mem_range1.mp hc).1 (mem_range1.mp hc).2
    · intro d hd
      obtain ⟨c, hc, rfl⟩ := List.mem_map.mp hd
      exact h2 c (mem_range1.mp hc).1 (mem_range1.mp hc).2

theorem rows1_eq_nil (n : Nat) (f : Nat → α) : rows1 n f = [] ↔ n = 0 := by
  rw [← List.length_eq_zero_iff, length_rows1]
  constructor
  · intro h
    by_contra hn
    have : 2 ^ 1 ≤ 2 ^ n := Nat.pow_le_pow_right (by omega) (by omega)
    omega
  · rintro rfl; rfl

theorem factorFn_error_assert_iff (n : Nat) (num den : Nat → α) :
    factorFn n num den = .error .assert ↔ ¬ GuardFn n num den := by
  unfold factorFn
  rw [factor_eq_assert_iff (by simp [length_rows1]), guard_rows1]

theorem factorFn_error_value_iff (n : Nat) (num den : Nat → α) :
    factorFn n num den = .error .value ↔ GuardFn n num den ∧ n = 0 := by
  unfold factorFn
  rw [factor_eq_value_iff (by simp [length_rows1]), guard_rows1, rows1_eq_nil]

/-- success ⇔ both assertions hold and there is at least one player -/
theorem factorFn_ok_iff (n : Nat) (num den : Nat → α) :
    (∃ m, factorFn n num den = .ok m) ↔ GuardFn n num den ∧ n ≠ 0 := by
  unfold factorFn
  rw [factor_ok_iff (by simp [length_rows1]), guard_rows1, Ne, rows1_eq_nil]

/-- the result, characterised: an upper bound of every ratio that is attained -/
theorem factorFn_eq_ok_iff (n : Nat) (num den : Nat → α) (m : α) :
    factorFn n num den = .ok m ↔
      GuardFn n num den ∧ (∀ c, 0 < c → c < 2 ^ n → num c ≤ m * den c) ∧
        (∃ c, 0 < c ∧ c < 2 ^ n ∧ num c = m * den c) := by
  have hlen : (rows1 n num).length = (rows1 n den).length := by simp [length_rows1]
  constructor
  · intro h
    have hs := factor_spec hlen h
    have hg := (guard_rows1 n num den).mp ((factor_eq_ok_iff hlen).mp h).1
    rw [zip_rows1] at hs
    refine ⟨hg, ?_, ?_⟩
    · intro c h0 hc
      exact hs.1 _ (List.mem_map.mpr ⟨c, mem_range1.mpr ⟨h0, hc⟩, rfl⟩)
    · obtain ⟨p, hp, hpe⟩ := hs.2.1
      obtain ⟨c, hc, rfl⟩ := List.mem_map.mp hp
      exact ⟨c, (mem_range1.mp hc).1, (mem_range1.mp hc).2, hpe⟩
  · rintro ⟨hg, hub, c, h0, hc, hatt⟩
    unfold factorFn
    refine factor_guard_some hlen ((guard_rows1 n num den).mpr hg) ?_
    rw [zip_rows1, List.map_map]
    refine listMax?_eq_some_of ?_ ?_
    · refine List.mem_map.mpr ⟨c, mem_range1.mpr ⟨h0, hc⟩, ?_⟩
      show num c / den c = m
      rw [hatt]; exact mul_div_cancel_right₀ _ (hg.2 c h0 hc).ne'
    · intro x hx
      obtain ⟨d, hd, rfl⟩ := List.mem_map.mp hx
      show num d / den d ≤ m
      exact (div_le_iff₀ (hg.2 d (mem_range1.mp hd).1 (mem_range1.mp hd).2)).mpr
        (hub d (mem_range1.mp hd).1 (mem_range1.mp hd).2)

/-- the result is the LEAST `a` with `num ≤ a·den` everywhere -/
theorem factorFn_least {n : Nat} {num den : Nat → α} {m : α} (h : factorFn n num den = .ok m) (a : α)
    (ha : ∀ c, 0 < c → c < 2 ^ n → num c ≤ a * den c) : m ≤ a := by
  obtain ⟨hg, -, c, h0, hc, hatt⟩ := (factorFn_eq_ok_iff n num den m).mp h
  have := ha c h0 hc
  rw [hatt] at this
  exact le_of_mul_le_mul_right this (hg.2 c h0 hc)

theorem factorFn_ge_one {n : Nat} {num den : Nat → α} {m : α} (h : factorFn n num den = .ok m) : 1 ≤ m := by
  obtain ⟨hg, -, c, h0, hc, hatt⟩ := (factorFn_eq_ok_iff n num den m).mp h
  have h1 := hg.1 c h0 hc
  have hp := hg.2 c h0 hc
  rw [hatt] at h1
  by_contra hlt
  have hlt := not_le.mp hlt
  have : m * den c < 1 * den c := mul_lt_mul_of_pos_right hlt hp
  linarith

/-- a larger numerator / a smaller denominator can only increase the factor -/
theorem factorFn_mono {n : Nat} {num num' den den' : Nat → α} {m m' : α}
    (h : factorFn n num den = .ok m) (h' : factorFn n num' den' = .ok m')
    (hnum : ∀ c, 0 < c → c < 2 ^ n → num c ≤ num' c) (hden : ∀ c, 0 < c → c < 2 ^ n → den' c ≤ den c) :
    m ≤ m' := by
  obtain ⟨hg', hub', -⟩ := (factorFn_eq_ok_iff n num' den' m').mp h'
  have hm' : 0 ≤ m' := le_trans zero_le_one (factorFn_ge_one h')
  refine factorFn_least h m' ?_
  intro c h0 hc
  calc num c ≤ num' c := hnum c h0 hc
    _ ≤ m' * den' c := hub' c h0 hc
    _ ≤ m' * den c := mul_le_mul_of_nonneg_left (hden c h0 hc) hm'

/-- chain rule: `max a/c ≤ (max a/b)·(max b/c)` -/
theorem factorFn_chain {n : Nat} {a b c : Nat → α} {mab mbc mac : α}
    (hab : factorFn n a b = .ok mab) (hbc : factorFn n b c = .ok mbc) (hac : factorFn n a c = .ok mac) :
    mac ≤ mab * mbc := by
  obtain ⟨-, hub1, -⟩ := (factorFn_eq_ok_iff n a b mab).mp hab
  obtain ⟨-, hub2, -⟩ := (factorFn_eq_ok_iff n b c mbc).mp hbc
  have hm : 0 ≤ mab := le_trans zero_le_one (factorFn_ge_one hab)
  refine factorFn_least hac _ ?_
  intro d h0 hd
  calc a d ≤ mab * b d := hub1 d h0 hd
    _ ≤ mab * (mbc * c d) := mul_le_mul_of_nonneg_left (hub2 d h0 hd) hm
    _ = mab * mbc * c d := (mul_assoc _ _ _).symm

/-! ### the four functions on tables -/

theorem getValues_none (t : Table α) :
    t.getValues none = if t.full then .ok ((List.range (2 ^ t.n)).map t.hi) else .error .value := by
  unfold Table.getValues Table.full Table.rows
  rfl

theorem lowerUpperBound_eq (inc : Table α) : lowerUpperBound inc = factorFn inc.n inc.hi inc.lo := rfl

theorem toLowerBound_eq (game inc : Table α) (hn : game.n = inc.n) :
    toLowerBound game inc = if game.full then factorFn inc.n game.hi inc.lo else .error .value := by
  unfold toLowerBound
  rw [getValues_none]
  by_cases hf : game.full = true
  · simp only [hf, if_true]; rw [hn]; rfl
  · simp only [hf]; rfl

theorem upperToApproximation_eq (approx inc : Table α) (hn : approx.n = inc.n) :
    upperToApproximation approx inc = if approx.full then factorFn inc.n inc.hi approx.hi else .error .value := by
  unfold upperToApproximation
  rw [getValues_none]
  by_cases hf : approx.full = true
  · simp only [hf, if_true]; rw [hn]; rfl
  · simp only [hf]; rfl

theorem toApproximation_eq (game approx : Table α) (hn : game.n = approx.n) :
    toApproximation game approx =
      if approx.full then (if game.full then factorFn game.n game.hi approx.hi else .error .value)
      else .error .value := by
  unfold toApproximation
  rw [getValues_none, getValues_none]
  by_cases hf : approx.full = true
  · by_cases hg : game.full = true
    · simp only [hf, hg, if_true]; rw [← hn]; rfl
    · simp only [hf, hg]; rfl
  · simp only [hf]; rfl

/-! ### vectors with NaN entries -/

theorem allSome_map_some {β : Type} (l : List β) : allSome (l.map some) = some l := by
  induction l with
  | nil => rfl
  | cons a l ih => simp [allSome, ih]

theorem allSome_isSome_of {β : Type} (l : List (Option β)) (h : ∀ x ∈ l, x ≠ none) : ∃ r, allSome l = some r := by
  induction l with
  | nil => exact ⟨[], rfl⟩
  | cons a l ih =>
    cases a with
    | none => exact absurd rfl (h none List.mem_cons_self)
    | some x =>
      obtain ⟨r, hr⟩ := ih (fun y hy => h y (List.mem_cons_of_mem _ hy))
      exact ⟨x :: r, by simp [allSome, hr]⟩

theorem broadcast_map {β γ β' γ' : Type} (f : β → β') (g : γ → γ') (a : List β) (b : List γ) :
    broadcast (a.map f) (b.map g) = (broadcast a b).map (List.map (Prod.map f g)) := by
  unfold broadcast
  by_cases h : a.length = b.length
  · simp only [List.length_map, h, if_true, Except.map, List.zip_map, List.map_map]
  · simp only [List.length_map, h, if_false]
    match a, b with
    | [x], b => simp [Except.map, Function.comp_def]
    | [], [y] => simp [Except.map]
    | _ :: _ :: _, [y] => simp [Except.map, Function.comp_def]
    | [], [] => simp at h
    | [], _ :: _ :: _ => simp [Except.map]
    | _ :: _ :: _, [] => simp [Except.map]
    | _ :: _ :: _, _ :: _ :: _ => simp [Except.map]

/-- on vectors without NaN `factorN` is `factor` -/
theorem factorN_some (num den : List α) : factorN (num.map some) (den.map some) = factor num den := by
  unfold factorN factor
  rw [broadcast_map]
  cases hb : broadcast num den with
  | error e => rfl
  | ok pairs =>
    simp only [Except.map, List.all_map, Function.comp_def, Prod.map, geN, posN, List.map_map, quotN]
    have : (List.map (fun x => some (x.1 / x.2)) pairs) = (pairs.map (fun p => p.1 / p.2)).map some := by
      rw [List.map_map]; rfl
    rw [this, allSome_map_some]

/-- a NaN never reaches `np.max`: `factorN` does not answer `Err.nan` -/
theorem factorN_ne_nan (num den : List (Option α)) : factorN num den ≠ .error .nan := by
  unfold factorN
  cases hb : broadcast num den with
  | error e =>
    intro h
    have : e = .nan := by simpa using h
    subst this
    unfold broadcast at hb
    split at hb
    · cases hb
    · split at hb <;> cases hb
  | ok pairs =>
    dsimp only
    by_cases h1 : pairs.all (fun p => geN p.1 p.2) = true
    · rw [if_pos h1]
      by_cases h2 : den.all posN = true
      · rw [if_pos h2]
        have : ∀ x ∈ pairs.map quotN, x ≠ none := by
          intro x hx
          obtain ⟨p, hp, rfl⟩ := List.mem_map.mp hx
          have hge := List.all_eq_true.mp h1 p hp
          obtain ⟨a, b⟩ := p
          cases a <;> cases b <;> simp [geN] at hge
          simp [quotN]
        obtain ⟨r, hr⟩ := allSome_isSome_of _ this
        rw [hr]
        split
        · rename_i heq; cases heq
        · split <;> simp
      · rw [if_neg h2]; simp
    · rw [if_neg h1]; simp

/-- a NaN anywhere in two vectors of equal length makes the first or the second assertion fail -/
theorem factorN_nan {num den : List (Option α)} (hlen : num.length = den.length)
    (h : none ∈ num ∨ none ∈ den) : factorN num den = .error .assert := by
  unfold factorN
  rw [broadcast_of_length_eq hlen]
  dsimp only
  by_cases h1 : (num.zip den).all (fun p => geN p.1 p.2) = true
  · exfalso
    have hall := List.all_eq_true.mp h1
    rcases h with h | h
    · obtain ⟨i, hi, hget⟩ := List.getElem_of_mem h
      have hi' : i < den.length := hlen ▸ hi
      have hm : (num[i], den[i]) ∈ num.zip den := by
        have : (num.zip den)[i]'(by simp [List.length_zip]; omega) = (num[i], den[i]) := List.getElem_zip
        rw [← this]; exact List.getElem_mem _
      have := hall _ hm
      rw [hget] at this
      simp [geN] at this
    · obtain ⟨i, hi, hget⟩ := List.getElem_of_mem h
      have hi' : i < num.length := hlen ▸ hi
      have hm : (num[i], den[i]) ∈ num.zip den := by
        have : (num.zip den)[i]'(by simp [List.length_zip]; omega) = (num[i], den[i]) := List.getElem_zip
        rw [← this]; exact List.getElem_mem _
      have := hall _ hm
      rw [hget] at this
      cases num[i] <;> simp [geN] at this
  · rw [if_neg h1]

end ICG.Mul
