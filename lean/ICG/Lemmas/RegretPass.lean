/-
  ICG.Lemmas.RegretPass — the two passes of one `regret_min_iteration` (ICG.Model.Regret.RM.iterate):
  loop invariants of the top-down pass (reach probabilities) and of the bottom-up pass (q-values,
  experienced losses, cumulative strategy), under the structural facts of a constructed object
  (`Struct`: child ids of a node with a regret minimiser are ranked, …).
-/
import ICG.Model.Regret
import ICG.Lemmas.BitFacts
import ICG.Lemmas.Regret
import ICG.Lemmas.RegretNode
import ICG.Lemmas.RegretIter
import ICG.Lemmas.RegretAvg

set_option linter.unusedSectionVars false

namespace ICG.Regret
open ICG

/-! ### generic: `mapM`, `foldlM`, fancy-index assignment -/

theorem mapM_exists {β γ} {f : β → Except Err γ} {P : γ → Prop} :
    ∀ (l : List β), (∀ x ∈ l, ∃ y, f x = .ok y ∧ P y) →
      ∃ ys, l.mapM f = .ok ys ∧ ys.length = l.length ∧ ∀ y ∈ ys, P y
  | [], _ => ⟨[], by simp [pure, Except.pure], rfl, by simp⟩
  | x :: xs, h => by
    obtain ⟨y, hy, hP⟩ := h x List.mem_cons_self
    obtain ⟨ys, hys, hl, hPs⟩ := mapM_exists xs (fun z hz => h z (List.mem_cons_of_mem _ hz))
    refine ⟨y :: ys, ?_, by simp [hl], ?_⟩
    · rw [List.mapM_cons, hy, hys]; rfl
    · intro z hz
      rcases List.mem_cons.mp hz with rfl | hz
      · exact hP
      · exact hPs z hz

/-- `a[idx]` for in-range indices: every value read is an entry of `a` -/
theorem mapM_getIdx {β} {l : List β} {P : β → Prop} (hP : ∀ x ∈ l, P x) {idx : List Nat}
    (h : ∀ i ∈ idx, i < l.length) :
    ∃ ys, idx.mapM (getIdx l) = .ok ys ∧ ys.length = idx.length ∧ ∀ y ∈ ys, P y :=
  mapM_exists idx (fun i hi => ⟨l[i]'(h i hi), getIdx_ok (h i hi), hP _ (List.getElem_mem _)⟩)

theorem foldlM_inv {σ ι} {f : σ → ι → Except Err σ} {P : σ → Prop} :
    ∀ (l : List ι) (s : σ), P s → (∀ s, ∀ x ∈ l, P s → ∃ s', f s x = .ok s' ∧ P s') →
      ∃ s', l.foldlM f s = .ok s' ∧ P s'
  | [], s, hs, _ => ⟨s, rfl, hs⟩
  | x :: xs, s, hs, h => by
    obtain ⟨s1, h1, hP1⟩ := h s x List.mem_cons_self hs
    obtain ⟨s', h', hP'⟩ := foldlM_inv xs s1 hP1 (fun s y hy => h s y (List.mem_cons_of_mem _ hy))
    exact ⟨s', by rw [List.foldlM_cons, h1]; exact h', hP'⟩

/-- a loop with an invariant that knows which indices have been processed -/
theorem foldlM_inv_done {σ ι} {f : σ → ι → Except Err σ} {I : List ι → σ → Prop} :
    ∀ (l done : List ι) (s : σ), I done s →
      (∀ done s, ∀ x ∈ l, I done s → ∃ s', f s x = .ok s' ∧ I (x :: done) s') →
      ∃ s', l.foldlM f s = .ok s' ∧ I (l.reverse ++ done) s'
  | [], done, s, hs, _ => ⟨s, rfl, by simpa using hs⟩
  | x :: xs, done, s, hs, h => by
    obtain ⟨s1, h1, hI1⟩ := h done s x List.mem_cons_self hs
    obtain ⟨s', h', hI'⟩ := foldlM_inv_done xs (x :: done) s1 hI1
      (fun d s y hy => h d s y (List.mem_cons_of_mem _ hy))
    refine ⟨s', by rw [List.foldlM_cons, h1]; exact h', ?_⟩
    simpa [List.reverse_cons, List.append_assoc] using hI'

theorem foldl_set_length {β} : ∀ (ps : List (Nat × β)) (a : List β),
    (ps.foldl (fun a p => a.set p.1 p.2) a).length = a.length
  | [], _ => rfl
  | p :: ps, a => by rw [List.foldl_cons, foldl_set_length ps, List.length_set]

theorem foldl_set_forall {β} {P : β → Prop} : ∀ (ps : List (Nat × β)) (a : List β),
    (∀ x ∈ a, P x) → (∀ p ∈ ps, P p.2) → ∀ x ∈ ps.foldl (fun a p => a.set p.1 p.2) a, P x
  | [], _, ha, _ => ha
  | p :: ps, a, ha, hp => by
    rw [List.foldl_cons]
    refine foldl_set_forall ps _ ?_ ?_
    · intro x hx
      rcases List.mem_or_eq_of_mem_set hx with h | rfl
      · exact ha x h
      · exact hp p List.mem_cons_self
    · exact fun q hq => hp q (List.mem_cons_of_mem _ hq)

theorem foldl_set_getElem?_of_not_mem {β} : ∀ (ps : List (Nat × β)) (a : List β) (k : Nat),
    (∀ p ∈ ps, p.1 ≠ k) → (ps.foldl (fun a p => a.set p.1 p.2) a)[k]? = a[k]?
  | [], _, _, _ => rfl
  | p :: ps, a, k, h => by
    rw [List.foldl_cons, foldl_set_getElem?_of_not_mem ps _ k (fun q hq => h q (List.mem_cons_of_mem _ hq)),
      List.getElem?_set_ne (h p List.mem_cons_self)]

/-- `a[idx] = vals` with in-range indices: succeeds, keeps the length, every entry is an old entry or one
    of `vals`, positions outside `idx` are untouched -/
theorem assignMany_spec {β} {a : List β} {idx : List Nat} {vals : List β} (h : ∀ i ∈ idx, i < a.length) :
    ∃ a', assignMany a idx vals = .ok a' ∧ a'.length = a.length ∧
      (∀ P : β → Prop, (∀ x ∈ a, P x) → (∀ x ∈ vals, P x) → ∀ x ∈ a', P x) ∧
      ∀ k, k ∉ idx → a'[k]? = a[k]? := by
  refine ⟨(idx.zip vals).foldl (fun a p => a.set p.1 p.2) a, ?_, foldl_set_length _ _, ?_, ?_⟩
  · unfold assignMany
    have : idx.all (· < a.length) = true := by simpa using h
    simp only [this, if_true]
  · intro P ha hv
    exact foldl_set_forall _ _ ha (fun p hp => hv _ (List.of_mem_zip (a := p.1) (b := p.2) hp).2)
  · intro k hk
    apply foldl_set_getElem?_of_not_mem
    intro p hp hpk
    exact hk (hpk ▸ (List.of_mem_zip (a := p.1) (b := p.2) hp).1)

theorem setIdx_ok {β} {l : List β} {i : Nat} (v : β) (h : i < l.length) : setIdx l i v = .ok (l.set i v) := by
  unfold setIdx; simp only [h, if_true]

theorem getIdx_of_getElem? {β} {l : List β} {i : Nat} {x : β} (h : l[i]? = some x) : getIdx l i = .ok x := by
  unfold getIdx; simp only [h]

theorem zipWith_forall {β γ δ} {f : β → γ → δ} {P : δ → Prop} {Q : β → Prop} {S : γ → Prop}
    (hf : ∀ b c, Q b → S c → P (f b c)) : ∀ (l : List β) (l' : List γ),
    (∀ b ∈ l, Q b) → (∀ c ∈ l', S c) → ∀ d ∈ List.zipWith f l l', P d
  | [], _, _, _ => by simp
  | _ :: _, [], _, _ => by simp
  | b :: l, c :: l', hb, hc => by
    intro d hd
    rw [List.zipWith_cons_cons] at hd
    rcases List.mem_cons.mp hd with rfl | hd
    · exact hf b c (hb b List.mem_cons_self) (hc c List.mem_cons_self)
    · exact zipWith_forall hf l l' (fun x hx => hb x (List.mem_cons_of_mem _ hx))
        (fun x hx => hc x (List.mem_cons_of_mem _ hx)) d hd

/-! ### bits -/

/-- the next coalitions a node may reveal are the viable ones it has not revealed -/
theorem mem_players_inverted {mc m j : Nat} : j ∈ players (inverted mc m) ↔ j < m ∧ j ∉ players mc := by
  rw [mem_players, mem_players, inverted, diff_testBit, testBit_grand]
  simp

theorem size_two_pow : ∀ (j : Nat), size (2 ^ j) = 1
  | 0 => by rw [size_eq]; simp [size_zero]
  | j + 1 => by
    rw [size_eq, Nat.pow_succ, Nat.mul_mod_left, Nat.mul_div_cancel _ (by decide : 0 < 2), size_two_pow j]

theorem and_two_pow_eq_zero {c j : Nat} (h : c.testBit j = false) : c &&& 2 ^ j = 0 := by
  apply Nat.eq_of_testBit_eq
  intro i
  simp only [Nat.testBit_and, Nat.testBit_two_pow, Nat.zero_testBit]
  by_cases hij : j = i
  · subst hij; simp [h]
  · simp [hij]

/-- revealing one more coalition: the child's id has one more bit and stays below `2^m` -/
theorem addPlayer_spec {mc m j : Nat} (hmc : mc < 2 ^ m) (hj : j < m) (hnot : j ∉ players mc) :
    addPlayer mc j < 2 ^ m ∧ size (addPlayer mc j) = size mc + 1 := by
  have hbit : mc.testBit j = false := by
    rw [mem_players] at hnot; simpa using hnot
  refine ⟨or_lt_two_pow hmc (Nat.pow_lt_pow_right (by decide) hj), ?_⟩
  show size (mc ||| 2 ^ j) = size mc + 1
  rw [size_or_of_disjoint _ _ (and_two_pow_eq_zero hbit), size_two_pow]

/-! ### structural facts of a constructed object (unchanged by iterations) -/

section struct
variable {α : Type}

/-- what the passes need to know about the tables: ranks invert ids; a node that has a regret minimiser
    holds only viable coalitions, has an unrevealed one, and all its children are ranked. -/
structure Struct (rm : RM α) : Prop where
  V_pos : 0 < rm.rankToId.length
  R_le_V : rm.R ≤ rm.rankToId.length
  rank_id : ∀ r (hr : r < rm.rankToId.length), rm.rankOf rm.rankToId[r] = .ok r
  used_lt : ∀ i mc, i < rm.R → rm.rankToId[i]? = some mc → ∀ a ∈ players mc, a < rm.m
  unused : ∀ i mc, i < rm.R → rm.rankToId[i]? = some mc → ∃ j, j < rm.m ∧ j ∉ players mc
  child : ∀ i mc, i < rm.R → rm.rankToId[i]? = some mc → ∀ j, j < rm.m → j ∉ players mc →
    addPlayer mc j ∈ rm.rankToId

/-- nodes ranked below `R` hold fewer coalitions than the stored limit -/
theorem rank_lt_R_spec [Zero α] {p : Policy} {n limit : Nat} {plus : Bool} {rm : RM α}
    (hn : 2 ≤ n) (h : RM.new (α := α) p n limit plus = .ok rm)
    (hst : p.storedLimit (numCoalitions n) limit ≤ min (numCoalitions n) limit) :
    ∀ i (hi : i < rm.rankToId.length), i < rm.R →
      rm.rankToId[i] < 2 ^ rm.m ∧ size rm.rankToId[i] < rm.limit ∧ rm.limit ≤ min limit rm.m := by
  obtain ⟨_, h2, h3, _, h5, _, _, h8, _⟩ := new_spec hn h
  intro i hi hiR
  rw [h8] at hiR
  unfold coalitionsBelow at hiR
  split at hiR
  · omega
  · rename_i hL
    have hk : rm.limit - 1 ≤ min rm.m limit := by rw [h3, h2]; omega
    have hi' : i < (metaIds rm.m limit).length := by rw [h2, ← h5]; exact hi
    have key := size_of_rank_lt hk hiR hi'
    have heq : rm.rankToId[i] = (metaIds rm.m limit)[i] := by simp only [h5, h2]
    rw [heq]
    have hLm : rm.limit ≤ min limit rm.m := by rw [h3, h2]; omega
    exact ⟨key.1, by have := key.2; omega, hLm⟩

/-- a freshly constructed object (table covering every id, stored limit clipped) has the structure -/
theorem new_struct [Zero α] {p : Policy} {n limit : Nat} {plus : Bool} {rm : RM α}
    (hn : 2 ≤ n) (h : RM.new (α := α) p n limit plus = .ok rm)
    (hst : p.storedLimit (numCoalitions n) limit ≤ min (numCoalitions n) limit) : Struct rm := by
  obtain ⟨_, h2, _, _, h5, _, h7, _⟩ := new_spec hn h
  have hget : ∀ {i mc}, rm.rankToId[i]? = some mc → ∃ hi : i < rm.rankToId.length, rm.rankToId[i] = mc :=
    fun hmc => List.getElem?_eq_some_iff.mp hmc
  refine ⟨?_, R_le_V hn h hst, h7, ?_, ?_, ?_⟩
  · have : 0 ∈ rm.rankToId := by rw [h5, mem_metaIds]; exact ⟨Nat.two_pow_pos _, by simp [size_zero]⟩
    exact List.length_pos_of_mem this
  · intro i mc hi hmc
    obtain ⟨hiV, rfl⟩ := hget hmc
    exact (minimiser_nodes_have_unused hn h hst i hiV hi).1
  · intro i mc hi hmc
    obtain ⟨hiV, rfl⟩ := hget hmc
    exact (minimiser_nodes_have_unused hn h hst i hiV hi).2
  · intro i mc hi hmc j hj hnot
    obtain ⟨hiV, rfl⟩ := hget hmc
    obtain ⟨hlt, hsz, hlim⟩ := rank_lt_R_spec hn h hst i hiV hi
    obtain ⟨hc1, hc2⟩ := addPlayer_spec hlt hj hnot
    have : ∀ x, x < 2 ^ rm.m → size x ≤ min limit rm.m → x ∈ rm.rankToId := by
      intro x h1 h2'
      rw [h5, mem_metaIds, ← h2]; exact ⟨h1, h2'⟩
    exact this _ hc1 (by omega)

end struct

/-! ### the two passes -/

section passes
variable {α : Type} [Field α] [LinearOrder α] [IsStrictOrderedRing α]

/-- every node with a regret minimiser currently plays a probability distribution supported on its
    unrevealed coalitions -/
def Strat (rm : RM α) : Prop :=
  ∀ i mc, i < rm.R → rm.rankToId[i]? = some mc →
    ∃ σ, rm.regretMatching mc = .ok σ ∧ σ.length = rm.m ∧ (∀ x ∈ σ, 0 ≤ x) ∧ σ.sum = 1 ∧
      ∀ a ∈ players mc, σ[a]? = some 0

/-- what both passes compute first: succeeds for a node with a regret minimiser, the child ranks are in
    range and there is one per unrevealed coalition -/
theorem nodeInfo_ok {rm : RM α} (hs : Struct rm) {i mc : Nat} (hi : i < rm.R)
    (hmc : rm.rankToId[i]? = some mc) :
    ∃ ranks, rm.nodeInfo i = .ok (mc, players (inverted mc rm.m), ranks) ∧
      ranks.length = (players (inverted mc rm.m)).length ∧ ∀ r ∈ ranks, r < rm.rankToId.length := by
  obtain ⟨ranks, hr, hl, hP⟩ := mapM_exists (f := rm.rankOf) (P := fun r => r < rm.rankToId.length)
    ((players (inverted mc rm.m)).map (addPlayer mc)) (by
      intro x hx
      rw [List.mem_map] at hx
      obtain ⟨j, hj, rfl⟩ := hx
      rw [mem_players_inverted] at hj
      obtain ⟨r, hr, hrx⟩ := List.getElem_of_mem (hs.child i mc hi hmc j hj.1 hj.2)
      exact ⟨r, hrx ▸ hs.rank_id r hr, hr⟩)
  refine ⟨ranks, ?_, by rw [hl, List.length_map], hP⟩
  unfold RM.nodeInfo
  simp only [getIdx_of_getElem? hmc, ok_bind, hr]
  rfl

/-- one step of the top-down pass keeps the reach probabilities an array of length `V` with entries ≥ 0 -/
theorem topDownStep_ok {rm : RM α} (hs : Struct rm) (hst : Strat rm) {reach : List α}
    (hlen : reach.length = rm.rankToId.length) (hnn : ∀ x ∈ reach, 0 ≤ x) {i : Nat} (hi : i < rm.R) :
    ∃ reach', rm.topDownStep reach i = .ok reach' ∧ reach'.length = rm.rankToId.length ∧
      ∀ x ∈ reach', 0 ≤ x := by
  have hiV : i < rm.rankToId.length := lt_of_lt_of_le hi hs.R_le_V
  obtain ⟨mc, hmc⟩ : ∃ mc, rm.rankToId[i]? = some mc := ⟨_, List.getElem?_eq_getElem hiV⟩
  obtain ⟨ranks, hnode, _, hrlt⟩ := nodeInfo_ok hs hi hmc
  obtain ⟨σ, hσ, hσl, hσnn, _, _⟩ := hst i mc hi hmc
  obtain ⟨sel, hsel, _, hselnn⟩ := mapM_getIdx (P := fun x => (0 : α) ≤ x) hσnn
    (idx := players (inverted mc rm.m)) (by
      intro j hj; rw [hσl]; exact (mem_players_inverted.mp hj).1)
  have hiR : i < reach.length := by rw [hlen]; exact hiV
  have hri : 0 ≤ reach[i] := hnn _ (List.getElem_mem _)
  obtain ⟨old, hold, _, holdnn⟩ := mapM_getIdx (P := fun x => (0 : α) ≤ x) hnn (idx := ranks)
    (by rw [hlen]; exact hrlt)
  obtain ⟨reach', hok, hl', hP, _⟩ := assignMany_spec (a := reach) (idx := ranks)
    (vals := List.zipWith (fun o s => o + reach[i] * s) old sel) (by rw [hlen]; exact hrlt)
  refine ⟨reach', ?_, by rw [hl', hlen], ?_⟩
  · unfold RM.topDownStep
    rw [hnode, ok_bind]
    simp only []
    rw [hσ, ok_bind, hsel, ok_bind, getIdx_ok hiR, ok_bind, hold, ok_bind]
    exact hok
  · refine hP (fun x => 0 ≤ x) hnn ?_
    exact zipWith_forall (Q := fun x => (0 : α) ≤ x) (S := fun x => (0 : α) ≤ x)
      (fun o s ho hs' => add_nonneg ho (mul_nonneg hri hs')) old sel holdnn hselnn

/-- **top-down pass**: succeeds; reach probabilities form an array of length `V` with entries ≥ 0 -/
theorem topDown_ok {rm : RM α} (hs : Struct rm) (hst : Strat rm) {reach0 : List α}
    (hlen : reach0.length = rm.rankToId.length) (hnn : ∀ x ∈ reach0, 0 ≤ x) :
    ∃ reach, (List.range rm.R).foldlM rm.topDownStep reach0 = .ok reach ∧
      reach.length = rm.rankToId.length ∧ ∀ x ∈ reach, 0 ≤ x := by
  obtain ⟨reach, h, hP⟩ := foldlM_inv (f := rm.topDownStep)
    (P := fun r : List α => r.length = rm.rankToId.length ∧ ∀ x ∈ r, 0 ≤ x)
    (List.range rm.R) reach0 ⟨hlen, hnn⟩ (by
      intro s i hi hPs
      obtain ⟨s', h1, h2, h3⟩ := topDownStep_ok hs hst hPs.1 hPs.2 (List.mem_range.mp hi)
      exact ⟨s', h1, h2, h3⟩)
  exact ⟨reach, h, hP.1, hP.2⟩

/-- loop invariant of the bottom-up pass (`done`: the ranks already processed) -/
structure UpInv (rm : RM α) (done : List Nat) (st : Up α) : Prop where
  q_len : st.q.length = rm.R
  q_row : ∀ row ∈ st.q, row.length = rm.m ∧ ∀ x ∈ row, 0 ≤ x
  q_used : ∀ (i mc : Nat) (row : List α), rm.rankToId[i]? = some mc → st.q[i]? = some row →
    ∀ a ∈ players mc, row[a]? = some 0
  exp_len : st.exp.length = rm.rankToId.length
  exp_nn : ∀ x ∈ st.exp, 0 ≤ x
  s_len : st.strategy.length = rm.R
  s_row : ∀ row ∈ st.strategy, row.length = rm.m ∧ ∀ x ∈ row, 0 ≤ x
  s_supp : ∀ (i mc : Nat) (row : List α), rm.rankToId[i]? = some mc → st.strategy[i]? = some row →
    ∀ a ∈ players mc, row[a]? = some 0
  exp_eq : ∀ i ∈ done, ∀ (mc : Nat) (σ row : List α), rm.rankToId[i]? = some mc → rm.regretMatching mc = .ok σ →
    st.q[i]? = some row → st.exp[i]? = some (listSum (List.zipWith (· * ·) row σ))

/-- one step of the bottom-up pass -/
theorem bottomUpStep_ok {rm : RM α} (hs : Struct rm) (hst : Strat rm) {weight : α} (hw : 0 ≤ weight)
    {reach : List α} (hrl : reach.length = rm.rankToId.length) (hrn : ∀ x ∈ reach, 0 ≤ x)
    {done : List Nat} {st : Up α} (hI : UpInv rm done st) {i : Nat} (hi : i < rm.R) :
    ∃ st', rm.bottomUpStep weight reach st i = .ok st' ∧ UpInv rm (i :: done) st' := by
  have hiV : i < rm.rankToId.length := lt_of_lt_of_le hi hs.R_le_V
  obtain ⟨mc, hmc⟩ : ∃ mc, rm.rankToId[i]? = some mc := ⟨_, List.getElem?_eq_getElem hiV⟩
  obtain ⟨ranks, hnode, _, hrlt⟩ := nodeInfo_ok hs hi hmc
  obtain ⟨σ, hσ, hσl, hσnn, _, hσ0⟩ := hst i mc hi hmc
  have hpid : ∀ j ∈ players (inverted mc rm.m), j < rm.m ∧ j ∉ players mc :=
    fun j hj => mem_players_inverted.mp hj
  obtain ⟨vals, hvals, _, hvnn⟩ := mapM_getIdx (P := fun x => (0 : α) ≤ x) hI.exp_nn (idx := ranks)
    (by rw [hI.exp_len]; exact hrlt)
  have hiq : i < st.q.length := by rw [hI.q_len]; exact hi
  have hq0 := hI.q_row _ (List.getElem_mem hiq)
  obtain ⟨qrow, hqrow, hql, hqP, hqk⟩ := assignMany_spec (a := st.q[i])
    (idx := players (inverted mc rm.m)) (vals := vals) (by
      intro j hj; rw [hq0.1]; exact (hpid j hj).1)
  have hqnn : ∀ x ∈ qrow, 0 ≤ x := hqP (fun x => 0 ≤ x) hq0.2 hvnn
  have hie : i < st.exp.length := by rw [hI.exp_len]; exact hiV
  have hir : i < reach.length := by rw [hrl]; exact hiV
  have hri : 0 ≤ reach[i] := hrn _ (List.getElem_mem _)
  have his : i < st.strategy.length := by rw [hI.s_len]; exact hi
  have hs0 := hI.s_row _ (List.getElem_mem his)
  have he : 0 ≤ listSum (List.zipWith (· * ·) qrow σ) := by
    rw [listSum_eq_sum]; exact dot_nonneg qrow σ hqnn hσnn
  refine ⟨{ q := st.q.set i qrow, exp := st.exp.set i (listSum (List.zipWith (· * ·) qrow σ)),
            strategy := st.strategy.set i
              (List.zipWith (fun s x => s + weight * x * reach[i]) st.strategy[i] σ) }, ?_, ?_⟩
  · unfold RM.bottomUpStep
    rw [hnode, ok_bind]
    simp only []
    rw [hvals, ok_bind, getIdx_ok hiq, ok_bind, hqrow, ok_bind, hσ, ok_bind, setIdx_ok _ hie, ok_bind,
      getIdx_ok hir, ok_bind, getIdx_ok his, ok_bind, setIdx_ok _ his, ok_bind, setIdx_ok _ hiq, ok_bind]
    rfl
  · constructor
    · show (st.q.set i qrow).length = rm.R
      rw [List.length_set]; exact hI.q_len
    · intro row hrow
      rcases List.mem_or_eq_of_mem_set hrow with h | rfl
      · exact hI.q_row row h
      · exact ⟨by rw [hql]; exact hq0.1, hqnn⟩
    · intro j mc' row hmc' hrow a ha
      change (st.q.set i qrow)[j]? = some row at hrow
      by_cases hij : i = j
      · subst hij
        rw [List.getElem?_set_self hiq] at hrow
        have hmm : mc' = mc := by rw [hmc] at hmc'; exact (Option.some.inj hmc').symm
        subst hmm
        have hrow' : qrow = row := Option.some.inj hrow
        subst hrow'
        rw [hqk a (fun hmem => (hpid a hmem).2 ha)]
        exact hI.q_used i mc' _ hmc (List.getElem?_eq_getElem hiq) a ha
      · rw [List.getElem?_set_ne hij] at hrow
        exact hI.q_used j mc' row hmc' hrow a ha
    · show (st.exp.set i _).length = rm.rankToId.length
      rw [List.length_set]; exact hI.exp_len
    · intro x hx
      rcases List.mem_or_eq_of_mem_set hx with h | rfl
      · exact hI.exp_nn x h
      · exact he
    · show (st.strategy.set i _).length = rm.R
      rw [List.length_set]; exact hI.s_len
    · intro row hrow
      rcases List.mem_or_eq_of_mem_set hrow with h | rfl
      · exact hI.s_row row h
      · refine ⟨by rw [List.length_zipWith, hs0.1, hσl, Nat.min_self], ?_⟩
        exact zipWith_forall (Q := fun x => (0 : α) ≤ x) (S := fun x => (0 : α) ≤ x)
          (fun s x hs' hx => add_nonneg hs' (mul_nonneg (mul_nonneg hw hx) hri)) _ _ hs0.2 hσnn
    · intro j mc' row hmc' hrow a ha
      change (st.strategy.set i _)[j]? = some row at hrow
      by_cases hij : i = j
      · subst hij
        rw [List.getElem?_set_self his] at hrow
        have hmm : mc' = mc := by rw [hmc] at hmc'; exact (Option.some.inj hmc').symm
        subst hmm
        rw [← Option.some.inj hrow, List.getElem?_zipWith,
          hI.s_supp i mc' _ hmc (List.getElem?_eq_getElem his) a ha, hσ0 a ha]
        simp
      · rw [List.getElem?_set_ne hij] at hrow
        exact hI.s_supp j mc' row hmc' hrow a ha
    · intro j hj mc' σ' row hmc' hσ' hrow
      change (st.q.set i qrow)[j]? = some row at hrow
      show (st.exp.set i _)[j]? = _
      by_cases hij : i = j
      · subst hij
        rw [List.getElem?_set_self hiq] at hrow
        have hmm : mc' = mc := by rw [hmc] at hmc'; exact (Option.some.inj hmc').symm
        subst hmm
        have hσσ : σ' = σ := by rw [hσ] at hσ'; exact (Except.ok.inj hσ').symm
        subst hσσ
        rw [List.getElem?_set_self hie, ← Option.some.inj hrow]
      · rw [List.getElem?_set_ne hij] at hrow ⊢
        have hj' : j ∈ done := by
          rcases List.mem_cons.mp hj with h | h
          · exact absurd h.symm hij
          · exact h
        exact hI.exp_eq j hj' mc' σ' row hmc' hσ' hrow

/-- **bottom-up pass**: succeeds, and afterwards the invariant holds with every rank `< R` processed -/
theorem bottomUp_ok {rm : RM α} (hs : Struct rm) (hst : Strat rm) {weight : α} (hw : 0 ≤ weight)
    {reach : List α} (hrl : reach.length = rm.rankToId.length) (hrn : ∀ x ∈ reach, 0 ≤ x)
    {st : Up α} (hI : UpInv rm [] st) :
    ∃ up, (List.range rm.R).reverse.foldlM (rm.bottomUpStep weight reach) st = .ok up ∧
      UpInv rm (List.range rm.R) up := by
  obtain ⟨up, h, hI'⟩ := foldlM_inv_done (f := rm.bottomUpStep weight reach) (I := UpInv rm)
    (List.range rm.R).reverse [] st hI (by
      intro done s i hi hIs
      rw [List.mem_reverse, List.mem_range] at hi
      exact bottomUpStep_ok hs hst hw hrl hrn hIs hi)
  refine ⟨up, h, ?_⟩
  simpa using hI'

end passes

end ICG.Regret
