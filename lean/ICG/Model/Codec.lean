/-
  ICG.Model.Codec — concrete model of the entry codec of incomplete_cooperative/run/save.py (import-free):
      Output.json  →  json.dump(…, default=json_serializer)  →  json.load  →  Output.from_json / get_outputs
  at the level of JSON *value trees*.

  What is modelled (every claim below was checked against the real numpy 2.5.3 / CPython 3.12 json of /venv and
  is exercised on every run by harness/corr_codec.py):
    * a float64 cell is `FCell φ`: NaN, +inf, -inf or a finite value token of the opaque type `φ` (the model never
      computes with a finite float; the driver instantiates `φ := String`, the exact rational text of the value,
      `-0` for the negative zero);
    * a Python int is an exact `Int`; JSON keeps int and float apart (`1` vs `1.0`), and so does this model;
    * numpy arrays `Nd`: dtype tag (float64 / int64 / bool / object), shape, row-major cells;
      `ndarray.tolist()` (`Nd.tolist`): 0-d → the bare scalar, a zero dimension → `[]` at that level (deeper
      dimensions vanish);
      `np.array(tree, dtype=float)` (`npArrayFloat`) and `np.array(tree)` (`npArrayInfer`): shape discovery
      (`shapeOf`: `[]` → (0,), `[[],[]]` → (2,0), ragged → ValueError, more than 64 dimensions → ValueError),
      dtype=float casts `None` → NaN, `True` → 1.0, an int → the nearest double (`ofInt`, a parameter; an int that is
      too large → OverflowError); without dtype numpy infers bool < int64 < float64 < object (any `None` ⇒ object,
      no cell at all ⇒ float64);
    * `json.dump(obj, default=json_serializer)` on metadata values (`PyVal.toJson`): tuple → list, Path → str(path),
      any other non-JSON object → its repr, dict keys str / int / bool / None / float → strings (`PyKey.toStr`), any
      other key type → TypeError;
    * `json.load` of what `json.dump` wrote (`Json.reload`): the same tree, except that an object with repeated keys
      (`{1: a, "1": b}` is written as `{"1": a, "1": b}`) keeps, per key, the first position and the last value;
    * `Output.metadata` (`vars(parsed_args)` minus `func` plus `run_type`), `Output.json`+dump (`entryTree`),
      `Output.from_json` (`fromJson`, incl. the order in which its KeyError / TypeError / ValueError arise),
      `get_outputs` (`getOutputs`), and the composition `saveLoad`.

  TRUSTED, not modelled (stated once, here):
    (T1) JSON *text*: `json.loads(json.dumps(t)) = Json.reload t` for every tree `t` the encoder accepts — in particular
         the decimal text of a finite float64 reads back as the same float64 (repr round trip), `NaN`, `Infinity`,
         `-Infinity` read back as themselves, ints of any size and strings (escapes, non-ASCII) read back exactly;
    (T2) the text of a float used as a dict KEY is an input (`PyKey.float text`), the decimal text of an int key is
         Lean's `toString` of the `Int`;
    (T3) `ofInt` (Python int → C double, round to nearest even, OverflowError beyond the double range) is a parameter;
         the driver instantiates it with `roundInt` below;
    (T4) numpy beyond the fragment above is answered `unmodelled`, never guessed: strings / dicts as array cells,
         ints outside int64 in an array built without dtype (numpy picks uint64 / object there);
    (T5) circular references and objects whose `repr` raises cannot be written down as a `PyVal` tree;
    (T6) `"eval" in repr(func)` (`PyVal.reprHasEval`) is exact when `func` is a callable / arbitrary object (its repr is
         given) and for str / Path values made of printable characters; Python's escaping of NON-printable characters
         is not modelled (`repr("\x0eval")` spells `\x0eval`, which contains the word although the string does not).
-/
namespace ICG.Codec

/-- the exceptions of the codec: ValueError, TypeError, KeyError, OverflowError; `notArray` = the `Nd` value is not a
    numpy array at all (its cells do not fill its shape / do not have its dtype: no Python counterpart);
    `unmodelled` = outside the modelled fragment of numpy (T4) -/
inductive CErr where
  | value | type | key | overflow | notArray | unmodelled
  deriving DecidableEq, Repr, Inhabited

def CErr.toString : CErr → String
  | .value => "err:value" | .type => "err:type" | .key => "err:key" | .overflow => "err:overflow"
  | .notArray => "err:not-array" | .unmodelled => "unmodelled"

instance : ToString CErr := ⟨CErr.toString⟩

/-! ## values -/

/-- a float64 -/
inductive FCell (φ : Type) where
  | nan | pinf | ninf | fin (x : φ)
  deriving DecidableEq, Repr, Inhabited

/-- what a cell of an array / a leaf of a JSON array can be -/
inductive Scalar (φ : Type) where
  | null | bool (b : Bool) | int (i : Int) | float (c : FCell φ)
  deriving DecidableEq, Repr, Inhabited

/-- a JSON value as Python's `json` sees it (objects: string keys in insertion order; as *written* an object may
    repeat a key, as *loaded* it does not) -/
inductive Json (φ : Type) where
  | null
  | bool (b : Bool)
  | int (i : Int)
  | float (c : FCell φ)
  | str (s : String)
  | arr (l : List (Json φ))
  | obj (kvs : List (String × Json φ))
  deriving Repr, Inhabited

/-- a dict key of a metadata value.  `float text`: a float key, given by the text json writes for it (T2);
    `other`: any other hashable (tuple, bytes, Path, numpy integer, …) -/
inductive PyKey where
  | str (s : String) | int (i : Int) | bool (b : Bool) | none | float (text : String) | other
  deriving DecidableEq, Repr, Inhabited

/-- a metadata value (what `vars(parsed_args)` can hold).  `path s`: a `pathlib.Path` with `str(path) = s`;
    `other r`: any other object, with `repr(obj) = r` -/
inductive PyVal (φ : Type) where
  | none
  | bool (b : Bool)
  | int (i : Int)
  | float (c : FCell φ)
  | str (s : String)
  | list (l : List (PyVal φ))
  | tuple (l : List (PyVal φ))
  | dict (kvs : List (PyKey × PyVal φ))
  | path (s : String)
  | other (repr : String)
  deriving Repr, Inhabited

variable {φ : Type}

def Scalar.toJson : Scalar φ → Json φ
  | .null => .null | .bool b => .bool b | .int i => .int i | .float c => .float c

/-- `map` over `Except` with the first error winning (explicit, so that it unfolds predictably) -/
def mapE {α β ε : Type} (f : α → Except ε β) : List α → Except ε (List β)
  | [] => .ok []
  | a :: l =>
    match f a with
    | .error e => .error e
    | .ok b =>
      match mapE f l with
      | .error e => .error e
      | .ok bs => .ok (b :: bs)

/-! ## insertion-ordered string-keyed dicts -/

/-- `d[k]` (`none` ↔ KeyError) -/
def lookupKey {α : Type} : List (String × α) → String → Option α
  | [], _ => none
  | (k', v) :: r, k => if k' = k then some v else lookupKey r k

/-- `d[k] = v`: in place when the key is present (position kept), else appended -/
def setKey {α : Type} : List (String × α) → String → α → List (String × α)
  | [], k, v => [(k, v)]
  | (k', v') :: r, k, v => if k' = k then (k', v) :: r else (k', v') :: setKey r k v

/-- `d.pop(k)` / `del d[k]` on a dict (at most one occurrence; written to remove all, which is the same then) -/
def eraseKey {α : Type} : List (String × α) → String → List (String × α)
  | [], _ => []
  | (k', v') :: r, k => if k' = k then eraseKey r k else (k', v') :: eraseKey r k

/-- a dict built from a list of pairs, left to right (`dict(pairs)`; what `json.load` does with an object) -/
def dedupFrom {α : Type} (acc : List (String × α)) : List (String × α) → List (String × α)
  | [] => acc
  | (k, v) :: r => dedupFrom (setKey acc k v) r

def dedup {α : Type} (l : List (String × α)) : List (String × α) := dedupFrom [] l

/-! ## numpy arrays -/

inductive DType where
  | f64 | i64 | bool | obj
  deriving DecidableEq, Repr, Inhabited

def DType.toString : DType → String
  | .f64 => "float64" | .i64 => "int64" | .bool => "bool" | .obj => "object"

/-- an n-dimensional array: dtype, shape, row-major cells -/
structure Nd (φ : Type) where
  dtype : DType
  shape : List Nat
  cells : List (Scalar φ)
  deriving Repr, Inhabited

def prod : List Nat → Nat
  | [] => 1
  | d :: r => d * prod r

def inInt64 (i : Int) : Bool := decide (-9223372036854775808 ≤ i) && decide (i < 9223372036854775808)

/-- may a cell of an array of dtype `t` hold this value? -/
def Scalar.hasType : DType → Scalar φ → Bool
  | .f64, .float _ => true
  | .i64, .int i => inInt64 i
  | .bool, .bool _ => true
  | .obj, _ => true
  | _, _ => false

/-- the value is a numpy array: the cells fill the shape and have the dtype -/
def Nd.wfB (a : Nd φ) : Bool := (a.cells.length == prod a.shape) && a.cells.all (Scalar.hasType a.dtype)

/-- `n` consecutive chunks of length `s` -/
def splitChunks {α : Type} (s : Nat) : Nat → List α → List (List α)
  | 0, _ => []
  | n + 1, l => l.take s :: splitChunks s n (l.drop s)

def mapO {α β : Type} (f : α → Option β) : List α → Option (List β)
  | [] => some []
  | a :: l =>
    match f a with
    | none => none
    | some b =>
      match mapO f l with
      | none => none
      | some bs => some (b :: bs)

/-- `tolist` on (shape, cells): 0-d gives the bare scalar (`none` if there is not exactly one cell) -/
def toTree? : List Nat → List (Scalar φ) → Option (Json φ)
  | [], [x] => some x.toJson
  | [], _ => none
  | d :: rest, cells => (mapO (toTree? rest) (splitChunks (prod rest) d cells)).map Json.arr

/-- `ndarray.tolist()` -/
def Nd.tolist (a : Nd φ) : Except CErr (Json φ) :=
  if a.wfB then
    match toTree? a.shape a.cells with
    | some t => .ok t
    | none => .error .notArray
  else .error .notArray

/-! ### `np.array(nested list)` -/

mutual
/-- the shape numpy discovers: a non-list is a 0-d leaf; `[]` has shape (0,); the elements of a list must all
    have the shape of the first one (else ValueError "inhomogeneous shape") -/
def shapeOf : Json φ → Except CErr (List Nat)
  | .arr [] => .ok [0]
  | .arr (x :: xs) =>
    match shapeOf x with
    | .error e => .error e
    | .ok s =>
      match allShape s xs with
      | .error e => .error e
      | .ok _ => .ok ((xs.length + 1) :: s)
  | .null => .ok [] | .bool _ => .ok [] | .int _ => .ok [] | .float _ => .ok [] | .str _ => .ok [] | .obj _ => .ok []
def allShape (s : List Nat) : List (Json φ) → Except CErr Unit
  | [] => .ok ()
  | y :: ys =>
    match shapeOf y with
    | .error e => .error e
    | .ok t => if t = s then allShape s ys else .error .value
end

mutual
/-- the non-list nodes in row-major order -/
def leaves : Json φ → List (Json φ)
  | .arr l => leavesList l
  | .null => [.null] | .bool b => [.bool b] | .int i => [.int i] | .float c => [.float c] | .str s => [.str s]
  | .obj kvs => [.obj kvs]
def leavesList : List (Json φ) → List (Json φ)
  | [] => []
  | x :: xs => leaves x ++ leavesList xs
end

/-- a leaf as an array cell; strings and dicts as cells are outside the model (T4) -/
def Json.scalar? : Json φ → Except CErr (Scalar φ)
  | .null => .ok .null | .bool b => .ok (.bool b) | .int i => .ok (.int i) | .float c => .ok (.float c)
  | _ => .error .unmodelled

/-- the dtype numpy discovers for one Python scalar -/
def kindOf : Scalar φ → Except CErr DType
  | .null => .ok .obj
  | .bool _ => .ok .bool
  | .int i => if inInt64 i then .ok .i64 else .error .unmodelled
  | .float _ => .ok .f64

/-- dtype promotion on the chain bool < int64 < float64 < object -/
def DType.join : DType → DType → DType
  | .obj, _ => .obj | _, .obj => .obj
  | .f64, _ => .f64 | _, .f64 => .f64
  | .i64, _ => .i64 | _, .i64 => .i64
  | .bool, .bool => .bool

def inferFrom (k : DType) : List (Scalar φ) → Except CErr DType
  | [] => .ok k
  | c :: cs =>
    match kindOf c with
    | .error e => .error e
    | .ok k' => inferFrom (k.join k') cs

/-- the dtype of `np.array(nested)` without `dtype=`: no cell at all gives float64 -/
def inferDType : List (Scalar φ) → Except CErr DType
  | [] => .ok .f64
  | c :: cs =>
    match kindOf c with
    | .error e => .error e
    | .ok k => inferFrom k cs

def boolInt (b : Bool) : Int := if b then 1 else 0

/-- store a Python scalar into an array of dtype `t`.  `ofInt` = Python int → double (T3).
    The `unmodelled` branches are never reached from `npArrayInfer` (the inferred dtype is an upper bound of every
    cell's kind) nor from `npArrayFloat`. -/
def castTo (ofInt : Int → Except CErr (FCell φ)) : DType → Scalar φ → Except CErr (Scalar φ)
  | .f64, .null => .ok (.float .nan)
  | .f64, .bool b => match ofInt (boolInt b) with | .ok c => .ok (.float c) | .error e => .error e
  | .f64, .int i => match ofInt i with | .ok c => .ok (.float c) | .error e => .error e
  | .f64, .float c => .ok (.float c)
  | .i64, .bool b => .ok (.int (boolInt b))
  | .i64, .int i => .ok (.int i)
  | .i64, _ => .error .unmodelled
  | .bool, .bool b => .ok (.bool b)
  | .bool, _ => .error .unmodelled
  | .obj, c => .ok c

/-- numpy's limit on the number of dimensions (`NPY_MAXDIMS`, 64 in numpy 2) -/
def maxDims : Nat := 64

/-- shape and cells of a nested list, before any dtype question: unmodelled cells, then ragged / too deep -/
def discover (t : Json φ) : Except CErr (List Nat × List (Scalar φ)) :=
  match mapE Json.scalar? (leaves t) with
  | .error e => .error e
  | .ok cells =>
    match shapeOf t with
    | .error e => .error e
    | .ok shape => if shape.length > maxDims then .error .value else .ok (shape, cells)

/-- `np.array(t, dtype=float)` (`Value = np.float64` in the repo) -/
def npArrayFloat (ofInt : Int → Except CErr (FCell φ)) (t : Json φ) : Except CErr (Nd φ) :=
  match discover t with
  | .error e => .error e
  | .ok (shape, cells) =>
    match mapE (castTo ofInt .f64) cells with
    | .error e => .error e
    | .ok cs => .ok ⟨.f64, shape, cs⟩

/-- `np.array(t)` -/
def npArrayInfer (ofInt : Int → Except CErr (FCell φ)) (t : Json φ) : Except CErr (Nd φ) :=
  match discover t with
  | .error e => .error e
  | .ok (shape, cells) =>
    match inferDType cells with
    | .error e => .error e
    | .ok dt =>
      match mapE (castTo ofInt dt) cells with
      | .error e => .error e
      | .ok cs => .ok ⟨dt, shape, cs⟩

/-! ## metadata: `json.dump(…, default=json_serializer)` and `json.load` -/

/-- the string json writes for a dict key; `other` ↔ TypeError "keys must be str, int, float, bool or None" -/
def PyKey.toStr : PyKey → Except CErr String
  | .str s => .ok s
  | .int i => .ok (toString i)
  | .bool b => .ok (if b then "true" else "false")
  | .none => .ok "null"
  | .float text => .ok text
  | .other => .error .type

mutual
/-- the JSON tree `json.dump(v, default=json_serializer)` writes (repeated keys possible) -/
def PyVal.toJson : PyVal φ → Except CErr (Json φ)
  | .none => .ok .null
  | .bool b => .ok (.bool b)
  | .int i => .ok (.int i)
  | .float c => .ok (.float c)
  | .str s => .ok (.str s)
  | .list l => match toJsonList l with | .ok js => .ok (.arr js) | .error e => .error e
  | .tuple l => match toJsonList l with | .ok js => .ok (.arr js) | .error e => .error e
  | .dict kvs => match toJsonItems kvs with | .ok js => .ok (.obj js) | .error e => .error e
  | .path s => .ok (.str s)
  | .other r => .ok (.str r)
def toJsonList : List (PyVal φ) → Except CErr (List (Json φ))
  | [] => .ok []
  | v :: vs =>
    match PyVal.toJson v with
    | .error e => .error e
    | .ok j =>
      match toJsonList vs with
      | .error e => .error e
      | .ok js => .ok (j :: js)
def toJsonItems : List (PyKey × PyVal φ) → Except CErr (List (String × Json φ))
  | [] => .ok []
  | (k, v) :: kvs =>
    match k.toStr with
    | .error e => .error e
    | .ok ks =>
      match PyVal.toJson v with
      | .error e => .error e
      | .ok j =>
        match toJsonItems kvs with
        | .error e => .error e
        | .ok js => .ok ((ks, j) :: js)
end

mutual
/-- `json.loads(json.dumps(t))` on trees (T1): per object, a repeated key keeps its first position and last value -/
def Json.reload : Json φ → Json φ
  | .arr l => .arr (reloadList l)
  | .obj kvs => .obj (dedup (reloadItems kvs))
  | .null => .null | .bool b => .bool b | .int i => .int i | .float c => .float c | .str s => .str s
def reloadList : List (Json φ) → List (Json φ)
  | [] => []
  | x :: xs => Json.reload x :: reloadList xs
def reloadItems : List (String × Json φ) → List (String × Json φ)
  | [] => []
  | (k, v) :: kvs => (k, Json.reload v) :: reloadItems kvs
end

mutual
/-- a loaded JSON value as the Python value it is (list, dict with str keys, …) -/
def Json.toPy : Json φ → PyVal φ
  | .null => .none | .bool b => .bool b | .int i => .int i | .float c => .float c | .str s => .str s
  | .arr l => .list (toPyList l)
  | .obj kvs => .dict (toPyItems kvs)
def toPyList : List (Json φ) → List (PyVal φ)
  | [] => []
  | x :: xs => Json.toPy x :: toPyList xs
def toPyItems : List (String × Json φ) → List (PyKey × PyVal φ)
  | [] => []
  | (k, v) :: kvs => (.str k, Json.toPy v) :: toPyItems kvs
end

/-- "up to JSON stringification": what a metadata value is after `json.dump(default=json_serializer)` + `json.load` -/
def PyVal.stringify (v : PyVal φ) : Except CErr (PyVal φ) :=
  match v.toJson with
  | .ok j => .ok j.reload.toPy
  | .error e => .error e

/-! ### `"eval" in repr(func)` -/

/-- `p` occurs in `s` as a contiguous block -/
def isSub (p : List Char) : List Char → Bool
  | [] => p.isEmpty
  | c :: cs => p.isPrefixOf (c :: cs) || isSub p cs

def hasEval (s : String) : Bool := isSub ['e', 'v', 'a', 'l'] s.toList

def PyKey.reprHasEval : PyKey → Bool
  | .str s => hasEval s
  | _ => false

mutual
/-- `"eval" in repr(v)`.  For a str / Path the repr contains the text (escapes never create or destroy the four
    letters), for `other` the repr is given; `None`, bools, numbers never contain it; containers contain it iff an
    element does (the separators `, ` `: ` and brackets cannot complete the word). -/
def PyVal.reprHasEval : PyVal φ → Bool
  | .str s => hasEval s
  | .path s => hasEval s
  | .other r => hasEval r
  | .list l => anyHasEval l
  | .tuple l => anyHasEval l
  | .dict kvs => anyItemHasEval kvs
  | .none => false | .bool _ => false | .int _ => false | .float _ => false
def anyHasEval : List (PyVal φ) → Bool
  | [] => false
  | v :: vs => PyVal.reprHasEval v || anyHasEval vs
def anyItemHasEval : List (PyKey × PyVal φ) → Bool
  | [] => false
  | (k, v) :: kvs => k.reprHasEval || PyVal.reprHasEval v || anyItemHasEval kvs
end

/-! ## `Output` -/

/-- `Output(data, actions, parsed_args)`; `args` = `vars(parsed_args)` in attribute order (keys are attribute names) -/
structure Output (φ : Type) where
  data : Nd φ
  actions : Nd φ
  args : List (String × PyVal φ)
  deriving Repr, Inhabited

def runTypeOf (func : PyVal φ) : String := if func.reprHasEval then "eval" else "learn"

/-- `Output.metadata`: `vars(parsed_args).copy()`, `pop("func")` (KeyError when absent), `["run_type"] = …` -/
def Output.metadata (o : Output φ) : Except CErr (List (String × PyVal φ)) :=
  match lookupKey o.args "func" with
  | none => .error .key
  | some f => .ok (setKey (eraseKey o.args "func") "run_type" (.str (runTypeOf f)))

def toJsonMeta : List (String × PyVal φ) → Except CErr (List (String × Json φ))
  | [] => .ok []
  | (k, v) :: kvs =>
    match PyVal.toJson v with
    | .error e => .error e
    | .ok j =>
      match toJsonMeta kvs with
      | .error e => .error e
      | .ok js => .ok ((k, j) :: js)

/-- the JSON tree `json.dump(output.json, …, default=json_serializer)` writes for one entry: the `json` property
    (`data_list`, `actions_list`, `metadata` — the KeyError of a missing `func` arises here) and the dump (TypeError) -/
def entryTree (o : Output φ) : Except CErr (Json φ) :=
  match o.data.tolist with
  | .error e => .error e
  | .ok d =>
    match o.actions.tolist with
    | .error e => .error e
    | .ok a =>
      match o.metadata with
      | .error e => .error e
      | .ok md =>
        match toJsonMeta md with
        | .error e => .error e
        | .ok m => .ok (.obj [("data", d), ("actions", a), ("metadata", .obj m)])

def toPyMeta : List (String × Json φ) → List (String × PyVal φ)
  | [] => []
  | (k, v) :: kvs => (k, v.toPy) :: toPyMeta kvs

def entryKeys : List String := ["data", "actions", "metadata", "parsed_args"]

/-- `Output.from_json(entry)` on a LOADED entry (a Python dict: no repeated keys).  Statement order of the code:
    `entry["metadata"]["func"] = entry["metadata"]["run_type"]`; `Namespace(**entry.pop("metadata"))` stored under
    `parsed_args`; `np.array(entry["data"], dtype=float)`; `np.array(entry["actions"])`; `Output(**entry)` (any key
    other than data / actions / parsed_args is an unexpected keyword: TypeError). -/
def fromJson (ofInt : Int → Except CErr (FCell φ)) : Json φ → Except CErr (Output φ)
  | .obj kvs =>
    match lookupKey kvs "metadata" with
    | none => .error .key
    | some (.obj md) =>
      match lookupKey md "run_type" with
      | none => .error .key
      | some rt =>
        match lookupKey kvs "data" with
        | none => .error .key
        | some d =>
          match npArrayFloat ofInt d with
          | .error e => .error e
          | .ok data =>
            match lookupKey kvs "actions" with
            | none => .error .key
            | some a =>
              match npArrayInfer ofInt a with
              | .error e => .error e
              | .ok actions =>
                if kvs.all (fun p => entryKeys.contains p.1) then
                  .ok ⟨data, actions, toPyMeta (setKey md "func" rt)⟩
                else .error .type
    | some _ => .error .type
  | _ => .error .type

/-- `get_outputs(data)`: every entry of the loaded file, in file order; the first failing entry raises -/
def getOutputs (ofInt : Int → Except CErr (FCell φ)) :
    List (String × Json φ) → Except CErr (List (String × Output φ))
  | [] => .ok []
  | (n, j) :: rest =>
    match fromJson ofInt j with
    | .error e => .error e
    | .ok o =>
      match getOutputs ofInt rest with
      | .error e => .error e
      | .ok os => .ok ((n, o) :: os)

/-- one entry through the file: `from_json(json.loads(json.dumps(output.json, default=json_serializer)))` -/
def saveLoad (ofInt : Int → Except CErr (FCell φ)) (o : Output φ) : Except CErr (Output φ) :=
  match entryTree o with
  | .error e => .error e
  | .ok t => fromJson ofInt t.reload

/-! ## `ofInt` for the driver: Python int → double, exactly (round to nearest, ties to even) -/

def bitLen (n : Nat) : Nat := if n = 0 then 0 else Nat.log2 n + 1

/-- the double nearest to the integer `i`, as an integer; `none` ↔ OverflowError.  Exact below 2^53; above, `i` is
    cut to 53 significant bits with round-half-even; a result of 2^1024 or more does not exist as a double. -/
def roundInt (i : Int) : Option Int :=
  let n := i.natAbs
  let bl := bitLen n
  if bl ≤ 53 then some i
  else
    let e := bl - 53
    let q := n >>> e
    let r := n - (q <<< e)
    let half := 1 <<< (e - 1)
    let q' := if r > half || (r == half && q % 2 == 1) then q + 1 else q
    let m := q' <<< e
    if bitLen m > 1024 then none
    else some (if i < 0 then -(m : Int) else (m : Int))

end ICG.Codec
